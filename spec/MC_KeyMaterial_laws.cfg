CONSTANTS
  Dev = {}
  Mode = "laws"
  MaxLines = 0
  MaxSyms = 0
  MaxAdds = 0
  LineSet = "full"
  TagKeyLen = 3
  RsaFields <- RsaNames8
SPECIFICATION Spec
INVARIANT FlagLaws
INVARIANT TagLaws
INVARIANT TagLawsNonVacuous
INVARIANT DsLaws
INVARIANT PairLaws
INVARIANT RsaDirectedLaw
INVARIANT PrivRoundTrip
INVARIANT EmitFlags
INVARIANT EmitTags
INVARIANT EmitSigningKey
INVARIANT EmitDs
INVARIANT EmitPairs
INVARIANT EmitAnchorText
INVARIANT EmitWrite
INVARIANT EmitPrivRsa
CHECK_DEADLOCK FALSE
