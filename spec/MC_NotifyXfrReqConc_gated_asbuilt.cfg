CONSTANTS
  N = 2
  T = 4
  W = 2
  Cap = 1
  Kinds = {"axfr", "ixfr"}
  Design = "ordered"
  Dev = {"D_xfr_permits_not_held"}
  GateClosed = TRUE
SPECIFICATION MCSpec

INVARIANT C2_Conserved
INVARIANT C2_Released
INVARIANT OrderedLaw
INVARIANT QuiescentLaw

CHECK_DEADLOCK FALSE
