------------------------------- MODULE Serial -------------------------------
(* RFC 1982 serial number arithmetic for SERIAL_BITS = BITS.               *)
(*                                                                          *)
(* Declarative side (the judge): Cmp and Add written from RFC 1982 §3.1 /  *)
(* §3.2.  Transcription side: ImplCmp follows the branch structure of      *)
(* `impl PartialOrd for Serial` in src/base/serial.rs (native compare,     *)
(* subtract, compare the difference with 2^(BITS-1)); ImplCmpNew follows   *)
(* `domain::new::base::Serial::partial_cmp` (abs_diff formulation);        *)
(* ImplAdd follows `Serial::add` (precondition assert + wrapping add).     *)
(*                                                                          *)
(* TLC integers are 32-bit signed: this module is only ever instantiated   *)
(* by TLC with BITS <= 14.  32-bit values reach TLC either through the     *)
(* scaled embedding (S->I, done by the executor) or as 16-bit limbs        *)
(* (SerialLimbs.tla, I->S).  Apalache (unbounded integers) uses the typed  *)
(* copy Serial_typed.tla with BITS = 32.                                   *)
EXTENDS Integers

CONSTANT BITS            \* SERIAL_BITS of RFC 1982 §2
ASSUME BITS \in 2..30

M == 2 ^ BITS            \* size of the number space
H == 2 ^ (BITS - 1)      \* the distance at which comparison is undefined
Val == 0 .. M - 1        \* serial numbers
Addend == 0 .. H - 1     \* RFC 1982 §3.1: n in [0 .. 2^(BITS-1) - 1]

Results == {"LT", "EQ", "GT", "UNDEF"}

----------------------------------------------------------------------------
(* RFC 1982 §3.1: s' = (s + n) modulo 2^SERIAL_BITS *)
Add(s, n) == (s + n) % M

(* RFC 1982 §3.2, the text transcribed clause by clause (i1, i2 are the     *)
(* unsigned integer values of s1, s2).                                      *)
Eq(i1, i2) == i1 = i2
Lt(i1, i2) == \/ (i1 < i2 /\ i2 - i1 < H)
              \/ (i1 > i2 /\ i1 - i2 > H)
Gt(i1, i2) == \/ (i1 < i2 /\ i2 - i1 > H)
              \/ (i1 > i2 /\ i1 - i2 < H)

Cmp(a, b) == IF Eq(a, b) THEN "EQ"
             ELSE IF Lt(a, b) THEN "LT"
             ELSE IF Gt(a, b) THEN "GT"
             ELSE "UNDEF"

(* what the comparison operators of a PartialOrd type must answer *)
OpsOf(r) == [lt |-> r = "LT", le |-> r \in {"LT", "EQ"},
             gt |-> r = "GT", ge |-> r \in {"GT", "EQ"}, eq |-> r = "EQ"]

----------------------------------------------------------------------------
(* Transcription of src/base/serial.rs, `impl PartialOrd for Serial`:      *)
(*   match self.0.cmp(&other.0) {                                          *)
(*     Equal   => Some(Equal),                                             *)
(*     Less    => { let sub = other.0 - self.0;                            *)
(*                  match sub.cmp(&0x8000_0000) { Less => Some(Less),      *)
(*                     Greater => Some(Greater), Equal => None } }         *)
(*     Greater => { let sub = self.0 - other.0;                            *)
(*                  match sub.cmp(&0x8000_0000) { Less => Some(Greater),   *)
(*                     Greater => Some(Less), Equal => None } } }          *)
NatCmp(x, y) == IF x = y THEN "Equal" ELSE IF x < y THEN "Less" ELSE "Greater"

ImplCmp(a, b) ==
  CASE NatCmp(a, b) = "Equal"   -> "EQ"
    [] NatCmp(a, b) = "Less"    ->
         LET sub1 == b - a IN
         (CASE NatCmp(sub1, H) = "Less"    -> "LT"
            [] NatCmp(sub1, H) = "Greater" -> "GT"
            [] NatCmp(sub1, H) = "Equal"   -> "UNDEF")
    [] NatCmp(a, b) = "Greater" ->
         LET sub2 == a - b IN
         (CASE NatCmp(sub2, H) = "Less"    -> "GT"
            [] NatCmp(sub2, H) = "Greater" -> "LT"
            [] NatCmp(sub2, H) = "Equal"   -> "UNDEF")

(* The subtractions above are native `u32 - u32`; with overflow checks on  *)
(* they panic on underflow.  They never underflow: *)
ImplSubNoUnderflow(a, b) ==
  /\ NatCmp(a, b) = "Less"    => b - a \in Val
  /\ NatCmp(a, b) = "Greater" => a - b \in Val

(* Transcription of src/new/base/serial.rs, `impl PartialOrd for Serial`:  *)
(*   if lhs == rhs { Some(Equal) }                                          *)
(*   else if lhs.abs_diff(rhs) == 1 << 31 { None }                          *)
(*   else if (lhs < rhs) ^ (lhs.abs_diff(rhs) > (1 << 31)) { Some(Less) }   *)
(*   else { Some(Greater) }                                                 *)
AbsDiff(x, y) == IF x < y THEN y - x ELSE x - y
Xor(p, q) == (p /\ ~q) \/ (~p /\ q)

ImplCmpNew(a, b) ==
  IF a = b THEN "EQ"
  ELSE IF AbsDiff(a, b) = H THEN "UNDEF"
  ELSE IF Xor(a < b, AbsDiff(a, b) > H) THEN "LT"
  ELSE "GT"

(* Transcription of `Serial::add(self, other: u32)`:                       *)
(*   assert!(other <= 0x7FFF_FFFF); Serial(self.0.wrapping_add(other))     *)
(* The documented contract ("# Panics: This method panics if `other` is   *)
(* greater than 2^31 - 1") is part of the model: n ranges over all of Val. *)
ImplAdd(s, n) == IF n <= H - 1 THEN [ok |-> (s + n) % M]
                 ELSE [panic |-> TRUE]

----------------------------------------------------------------------------
(* The property (C17), as predicates over values; MC_Serial.tla states     *)
(* them as invariants / action properties over all values of the width.    *)

(* 1. adding any amount from 1 to 2^(BITS-1)-1 yields a strictly greater value *)
LawAddGreater(a, n) == n \in 1 .. H - 1 => Cmp(a, Add(a, n)) = "LT"

(* 2. comparison is antisymmetric (and EQ exactly for identical values) *)
Flip(r) == CASE r = "LT" -> "GT" [] r = "GT" -> "LT" [] OTHER -> r
LawAntisymmetric(a, b) == /\ Cmp(b, a) = Flip(Cmp(a, b))
                          /\ ~(Lt(a, b) /\ Lt(b, a))
                          /\ ~(Lt(a, b) /\ Gt(a, b))
                          /\ (Cmp(a, b) = "EQ" <=> a = b)

(* 3. undefined exactly for values 2^(BITS-1) apart *)
LawUndefExactly(a, b) == Cmp(a, b) = "UNDEF" <=> (a - b) % M = H

(* 4. invariant under adding the same amount to both sides *)
LawShiftInvariant(a, b, n) == Cmp(Add(a, n), Add(b, n)) = Cmp(a, b)

(* the transcriptions compute the RFC's function *)
ImplMatches(a, b) == /\ ImplCmp(a, b) = Cmp(a, b)
                     /\ ImplCmpNew(a, b) = Cmp(a, b)
                     /\ ImplSubNoUnderflow(a, b)
ImplAddMatches(a, n) == n \in Addend => ImplAdd(a, n) = [ok |-> Add(a, n)]

----------------------------------------------------------------------------
(* Placing a serial on the unbounded time line next to a reference time.   *)
(*                                                                          *)
(* A time is a natural number; its serial is its value modulo 2^BITS, its   *)
(* era the quotient.  Place(ref, ts) is the unique time t with              *)
(* t = ts (mod 2^BITS) and |t - ref| < 2^(BITS-1).  At distance exactly      *)
(* 2^(BITS-1) RFC 1982 leaves the order undefined (PlaceDefined is false):  *)
(* ref - 2^(BITS-1) and ref + 2^(BITS-1) are the same serial.  There the    *)
(* documentation of Timestamp::to_system_time decides: "the time difference *)
(* between the SystemTime value and the reference time fits in an i32",     *)
(* i.e. lies in -2^(BITS-1) .. 2^(BITS-1) - 1, so the tie is placed BEFORE  *)
(* the reference, at ref - 2^(BITS-1) (SignedDiff yields -H for d = H).     *)
(* A time before 0 (the epoch) is not representable; there (a reference in  *)
(* era 0 and the placed time below it) only t = ts (mod 2^BITS) is claimed. *)
SignedDiff(r, ts) == LET d == (ts - r) % M IN IF d < H THEN d ELSE d - M
PlaceDefined(ref, ts) == (ts - ref) % M # H
Place(ref, ts) == ref + SignedDiff(ref % M, ts)
PlaceConstrained(ref, ts) == Place(ref, ts) >= 0

(* Transcription of `Timestamp::to_system_time(self, reference)` in         *)
(* src/rdata/dnssec.rs (k = era of the reference, rmod = its serial):       *)
(*   if ts < rmod { if rmod - ts <= 2^31 { ts + k*2^32 }                    *)
(*                  else { ts + (k+1)*2^32 } }                               *)
(*   else { if ts - rmod < 2^31 { ts + k*2^32 }                             *)
(*          else { let k = if k > 0 { k - 1 } else { k }; ts + k*2^32 } }   *)
ImplPlace(ref, ts) ==
  LET k == ref \div M
      rmod == ref % M
  IN IF ts < rmod
     THEN IF rmod - ts <= H THEN ts + k * M ELSE ts + (k + 1) * M
     ELSE IF ts - rmod < H THEN ts + k * M
          ELSE ts + (IF k > 0 THEN k - 1 ELSE k) * M

(* Laws of the placement (checked by MC_SerialPlace.tla):                   *)
\* the placed time carries the serial and lies within half a cycle of ref
LawPlaceNear(ref, ts) ==
  PlaceDefined(ref, ts) =>
     /\ Place(ref, ts) % M = ts
     /\ Place(ref, ts) - ref \in -(H - 1) .. (H - 1)
\* placing agrees with comparing against the reference's own serial
\* the documented contract, ties included: same serial, difference in the
\* range of a signed BITS-bit integer, and no other time meets both
LawPlaceDoc(ref, ts) ==
  /\ Place(ref, ts) % M = ts
  /\ Place(ref, ts) - ref \in -H .. (H - 1)
  /\ \A t \in (ref - M) .. (ref + M) :
        (t % M = ts /\ t - ref \in -H .. (H - 1)) => t = Place(ref, ts)
\* the tie: both candidates are the same serial, the earlier one is taken
LawPlaceTie(ref, ts) ==
  ~PlaceDefined(ref, ts) =>
     /\ (ref + H) % M = ts /\ (ref - H) % M = ts
     /\ Place(ref, ts) = ref - H
LawPlaceVsRef(ref, ts) ==
  PlaceDefined(ref, ts) =>
     /\ (Place(ref, ts) > ref <=> Cmp(ref % M, ts) = "LT")
     /\ (Place(ref, ts) < ref <=> Cmp(ref % M, ts) = "GT")
     /\ (Place(ref, ts) = ref <=> Cmp(ref % M, ts) = "EQ")
\* order embedding: two serials placed from the same reference sort like
\* RFC 1982 compares them, whenever the placed times are less than half a
\* cycle apart (otherwise RFC 1982 itself has no opinion or the opposite one)
LawPlaceOrder(ref, x, y) ==
  (PlaceDefined(ref, x) /\ PlaceDefined(ref, y)
     /\ Place(ref, x) - Place(ref, y) \in -(H - 1) .. (H - 1)) =>
        /\ (Place(ref, x) < Place(ref, y) <=> Cmp(x, y) = "LT")
        /\ (Place(ref, x) = Place(ref, y) <=> Cmp(x, y) = "EQ")
\* shifting reference and serial by the same amount shifts the placed time
LawPlaceShift(ref, ts, n) ==
  /\ PlaceDefined(ref + n, Add(ts, n)) <=> PlaceDefined(ref, ts)
  /\ Place(ref + n, Add(ts, n)) = Place(ref, ts) + n      \* ties included
\* the library's branch structure computes Place wherever it is constrained,
\* and always returns a time that carries the serial
ImplPlaceMatches(ref, ts) ==
  /\ ImplPlace(ref, ts) % M = ts
  /\ PlaceConstrained(ref, ts) => ImplPlace(ref, ts) = Place(ref, ts)

----------------------------------------------------------------------------
(* Text entry points of signature times (RFC 4034 section 3.2): a token     *)
(* denotes a time t (a natural number of seconds since the epoch), either   *)
(* as a date YYYYMMDDHHmmSS or as a decimal integer; the field holds t      *)
(* modulo 2^BITS.  The calendar is abstracted away: the specification       *)
(* speaks about the denoted time only, the harness renders real dates.      *)
Denote(t) == t % M

\* Timestamp::scan / FromStr, date branch: `time.as_second() as u32`
ImplScanDate(t) == [ok |-> t % M]
\* integer branch: `token.parse::<u32>()`; an integer that does not fit the
\* field is outside the property (IntFormConstrained is false)
IntFormConstrained(t) == t < M
ImplScanInt(t) == IF t < M THEN [ok |-> t] ELSE [err |-> TRUE]
\* Display / zone-file formatting writes the integer form of the field value
ImplDisplay(v) == v

\* Laws: times less than half a cycle apart keep their order through the
\* field, also across era boundaries; the denoted time is recovered by
\* placing the field value next to any reference less than half a cycle away;
\* passing time commutes with the field's addition; writing and reading back
\* is the identity on field values.
LawDenoteOrder(t1, t2) ==
  /\ (t2 - t1 \in 1 .. H - 1) => Cmp(Denote(t1), Denote(t2)) = "LT"
  /\ (t1 - t2 \in 1 .. H - 1) => Cmp(Denote(t1), Denote(t2)) = "GT"
  /\ (Cmp(Denote(t1), Denote(t2)) = "EQ") <=> ((t2 - t1) % M = 0)
  /\ (Cmp(Denote(t1), Denote(t2)) = "UNDEF") <=> ((t2 - t1) % M = H)
LawDenotePlace(t1, t2) ==
  (t2 - t1 \in -(H - 1) .. (H - 1)) => Place(t1, Denote(t2)) = t2
LawDenoteAdd(t, n) == Denote(t + n) = Add(Denote(t), n % M)
LawTextRoundTrip(t) ==
  /\ ImplScanDate(t) = [ok |-> Denote(t)]
  /\ IntFormConstrained(ImplDisplay(Denote(t)))
  /\ ImplScanInt(ImplDisplay(Denote(t))) = [ok |-> Denote(t)]

----------------------------------------------------------------------------
(* Instants.  A point in time is an integer number of seconds relative to   *)
(* the epoch and may lie before it (negative).  The serial made from an     *)
(* instant is the instant modulo 2^BITS (Denote; % is the mathematical      *)
(* modulus, the second before the epoch is the serial 2^BITS - 1), so the   *)
(* laws LawDenoteOrder / LawDenotePlace / LawDenoteAdd hold on either side  *)
(* of every multiple of 2^BITS, the multiple 0 (the epoch) included: the    *)
(* passing of n seconds is the serial's addition of n.  Only the *text*     *)
(* forms above are confined to instants at or after the epoch.              *)
TextFormConstrained(t) == t >= 0

(* Transcription of `impl From<jiff::Timestamp> for Serial`                 *)
(* (src/base/serial.rs):  Self(value.as_second() as u32)                    *)
(* as_second() is a signed 64-bit count; `as u32` keeps the low 32 bits of  *)
(* its two's complement representation.  WIDE stands for 2^64 (any multiple *)
(* of 2^BITS above the instants in use; this part needs BITS <= 15).        *)
WIDE == M * M
TwosComplement(t) == IF t >= 0 THEN t ELSE t + WIDE
ImplOfInstant(t) == TwosComplement(t) % M
LawInstantImpl(t) == (t > -WIDE) => (ImplOfInstant(t) \in Val /\ ImplOfInstant(t) = Denote(t))

----------------------------------------------------------------------------
(* Windows.  A half-open window [lo, hi) of serials / times, as used for    *)
(* validity periods ("made between one hour ago and five minutes from       *)
(* now").  In the library it is a `Range<Serial>` and membership is         *)
(* `Range::contains`, i.e. lo <= x /\ x < hi through the partial order.     *)
InWindow(lo, hi, x) == Cmp(lo, x) \in {"LT", "EQ"} /\ Cmp(x, hi) = "LT"
\* new::edns::Cookie::verify: `validity.contains(&self.timestamp)` with the
\* partial order of new::base::Serial
ImplInWindow(lo, hi, x) == ImplCmpNew(lo, x) \in {"LT", "EQ"} /\ ImplCmpNew(x, hi) = "LT"

\* the window is well formed when its end is not before its start, i.e. its
\* width is less than half a cycle; the property says nothing about others
WindowWidth(lo, hi) == (hi - lo) % M
WellFormed(lo, hi) == WindowWidth(lo, hi) < H
\* declarative meaning: x lies fewer than `width` steps after lo -- wherever
\* in the number space the window lies, also when lo > hi as integers
WindowMeaning(lo, hi, x) == (x - lo) % M < WindowWidth(lo, hi)

LawWindowMeaning(lo, hi, x) ==
  WellFormed(lo, hi) => (InWindow(lo, hi, x) <=> WindowMeaning(lo, hi, x))
\* law 4 of the property for the ternary decision
LawWindowShift(lo, hi, x, n) ==
  InWindow(Add(lo, n), Add(hi, n), Add(x, n)) = InWindow(lo, hi, x)
\* what a verifier has to answer
WindowDecision(lo, hi, x) ==
  IF ~WellFormed(lo, hi) THEN "any"
  ELSE IF InWindow(lo, hi, x) THEN "accept" ELSE "reject"
----------------------------------------------------------------------------
(* Freshness.  A verifier with a clock accepts a timestamp that is at most  *)
(* `past` seconds old and at most `future` seconds ahead of its clock `now` *)
(* (RFC 9018 section 4.3: server cookies; the same shape as "inception <=   *)
(* now <= expiration").  In RFC 1982 terms: ts lies in the window           *)
(* [now - past, now + future], wherever in the number space now lies.       *)
Fresh(now, ts, past, future) ==
  InWindow(Add(now, M - past), Add(now, future + 1), ts)
\* declarative meaning by modular distances
FreshMeaning(now, ts, past, future) ==
  (now - ts) % M <= past \/ (ts - now) % M <= future
\* the window must be narrower than half a cycle and not a single point
FreshParamsOK(past, future) ==
  past \in 0 .. M - 1 /\ future \in 0 .. M - 1 /\ past + future + 1 < H /\ past + future > 0

(* Transcription of CookiesMiddlewareSvc::timestamp_ok                      *)
(* (src/net/server/middleware/cookies.rs):                                  *)
(*   let now = Serial::now();                                               *)
(*   let too_new_at = now.add(FIVE_MINUTES_AS_SECS);                        *)
(*   let expires_at = serial.add(ONE_HOUR_AS_SECS);                         *)
(*   if now > expires_at { false } else if serial > too_new_at { false }    *)
(*   else { true }                                                          *)
ImplFresh(now, ts, past, future) ==
  LET too_new_at == Add(now, future)
      expires_at == Add(ts, past)
  IN IF ImplCmp(now, expires_at) = "GT" THEN FALSE
     ELSE IF ImplCmp(ts, too_new_at) = "GT" THEN FALSE
     ELSE TRUE

LawFresh(now, ts, past, future) ==
  FreshParamsOK(past, future) =>
     /\ Fresh(now, ts, past, future) <=> FreshMeaning(now, ts, past, future)
     /\ ImplFresh(now, ts, past, future) <=> Fresh(now, ts, past, future)
\* law 4 of the property for this decision: everybody's time passes
LawFreshShift(now, ts, past, future, n) ==
  Fresh(Add(now, n), Add(ts, n), past, future) = Fresh(now, ts, past, future)
\* whether the two ends themselves are inside is not a matter of serial
\* arithmetic (RFC 9018 says "within"): a timestamp exactly at an end may be
\* accepted or refused
FreshAtEnd(now, ts, past, future) ==
  (now - ts) % M = past \/ (ts - now) % M = future
FreshDecision(now, ts, past, future) ==
  IF FreshAtEnd(now, ts, past, future) THEN "any"
  ELSE IF Fresh(now, ts, past, future) THEN "accept" ELSE "reject"
=============================================================================
