CONSTANTS
  Dev = {"D_set_opcode_spill"}
  MaxOps = 2
  Deep = FALSE
  Carrier = "plain"
SPECIFICATION Spec
INVARIANTS TypeOK RcodeJoin StageCounts GettersTotal
PROPERTIES Frame
CHECK_DEADLOCK FALSE
