CONSTANTS
  Dev = {}
  Classes <- MCClasses
  ApexNames <- MCApexQuick
  ArgNames <- MCArgQuick
  QNames <- MCQQuick
  Ids = {1}
  MaxOps = 5
SPECIFICATION Spec
VIEW View
INVARIANT TypeOK
INVARIANT FindIsLongestMatch
INVARIANT GetIsExact
INVARIANT InsertLaw
INVARIANT RemoveLaw
INVARIANT IterExact
CHECK_DEADLOCK FALSE
