CONSTANTS
  Fam = "order"
  MaxRecs = 3
  Prios = {0, 1}
  Weights = {0, 1, 2, 3}
  Dev = {}
SPECIFICATION Spec
INVARIANT Emit
CONSTRAINT GenOnlyInit
CHECK_DEADLOCK FALSE
