CONSTANTS
  Dev = {}
  MaxRecs = 3
SPECIFICATION Spec
INVARIANT ZoneReadEqualsWritten
INVARIANT SingleRecordComesBack
CHECK_DEADLOCK FALSE
