----------------------- MODULE Trace_NotifyXfrReqConc -----------------------
(* I->S: recorded concurrency scenarios of the real XFR middleware          *)
(* (scen / start / rest / drop / open / read) must be behaviours of         *)
(* NotifyXfrReqConc.tla.  The tasks' own steps (permit acquisition, channel *)
(* traffic) are not observed: they are hidden steps between the events.     *)
(* While the harness holds the walks / difference streams no funneler makes *)
(* progress; `rest` is an observation at rest: no hidden step is possible   *)
(* and the recorded number of running walks (axfr) / responders that have   *)
(* produced a message (ixfr) is the model's.                                *)
EXTENDS NotifyXfrReqConc, TLC, Json, IOUtils

Rec == ndJsonDeserialize(IOEnv.TRACE)
VARIABLES l, gate
tvars == <<l, gate, kind, f, b, sent, chan, got, drop, ok, wfree, bfree>>

Hidden(t) == \/ BAcquire(t) \/ FAcquire(t) \/ FDone(t) \/ BRecv(t) \/ BFail(t) \/ BDone(t)
             \/ (gate = "open" /\ FSend(t))
AtRest == \A t \in TS : ~ENABLED Hidden(t)

IsEv(e) == l <= Len(Rec) /\ Rec[l].ev = e /\ l' = l + 1

TInit == l = 1 /\ gate = "closed" /\ CInit
\* a new scenario: a fresh middleware
T_Scen == /\ IsEv("scen") /\ Rec[l].n = N
          /\ gate' = "closed"
          /\ kind' = [t \in TS |-> "-"] /\ f' = [t \in TS |-> "-"] /\ b' = [t \in TS |-> "-"]
          /\ sent' = [t \in TS |-> 0] /\ chan' = [t \in TS |-> 0] /\ got' = [t \in TS |-> 0]
          /\ drop' = [t \in TS |-> FALSE] /\ ok' = [t \in TS |-> FALSE]
          /\ wfree' = N /\ bfree' = N
T_Start == IsEv("start") /\ Start(Rec[l].t, Rec[l].kind) /\ UNCHANGED gate
T_Rest == /\ IsEv("rest") /\ AtRest
          /\ LET st == {t \in TS : kind[t] # "-"}
             IN Rec[l].active = IF \A t \in st : kind[t] = "axfr" THEN Cardinality(Walking)
                                ELSE Cardinality(Running)
          /\ UNCHANGED <<gate, kind, f, b, sent, chan, got, drop, ok, wfree, bfree>>
T_Drop == IsEv("drop") /\ Drop(Rec[l].t) /\ UNCHANGED gate
T_Open == IsEv("open") /\ gate' = "open"
          /\ UNCHANGED <<kind, f, b, sent, chan, got, drop, ok, wfree, bfree>>
\* the stream of transfer t was read to its end
T_Read == /\ IsEv("read") /\ ~Rec[l].hang
          /\ b[Rec[l].t] = "done" /\ ok[Rec[l].t] = Rec[l].complete /\ Rec[l].complete
          /\ UNCHANGED <<gate, kind, f, b, sent, chan, got, drop, ok, wfree, bfree>>
T_Hidden == \E t \in TS : Hidden(t) /\ UNCHANGED <<l, gate>>

TNext == T_Scen \/ T_Start \/ T_Rest \/ T_Drop \/ T_Open \/ T_Read \/ T_Hidden
TSpec == TInit /\ [][TNext]_tvars

\* the furthest event any explored behaviour has consumed
Far == TLCSet(7, IF TLCGet(7) < l THEN l ELSE TLCGet(7))
ASSUME TLCSet(7, 0)
Accepted ==
  LET m == TLCGet(7)
  IN IF m = Len(Rec) + 1 THEN TRUE
     ELSE /\ PrintT("TRACE_REJECTED " \o ToJson([reached |-> m, total |-> Len(Rec),
                        event |-> IF m <= Len(Rec) /\ m >= 1 THEN Rec[m] ELSE [ev |-> "-"]]))
          /\ FALSE
=============================================================================
