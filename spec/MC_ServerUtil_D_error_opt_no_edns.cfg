CONSTANTS
  Dev = {"D_error_opt_no_edns"}
SPECIFICATION USpec
INVARIANTS Laws
CHECK_DEADLOCK FALSE
