CONSTANTS
  Dev = {}
  MaxOps = 4
  Deep = FALSE
  Carrier = "builder"
SPECIFICATION Spec
INVARIANTS TypeOK RcodeJoin StageCounts GettersTotal
PROPERTIES Frame ReadBack NoWrap OptFrame FailedCallNoop SetRcodeBoth Scaffold Axfr GotoCounts
CHECK_DEADLOCK FALSE
