------------------------------ MODULE ZoneStore ------------------------------
(* Transcription of the in-memory zone store of NLnetLabs/domain            *)
(*   src/zonetree/in_memory/{versioned,nodes,read,write,builder}.rs,        *)
(*   src/zonetree/{parsed,update}.rs                                        *)
(* together with the concurrency skeleton (current version, write lock,     *)
(* dirty flag, pinned readers).  Properties C08 and C09 are invariants that *)
(* compare this transcription with ZoneAbstract!Answer.                     *)
(*                                                                          *)
(* Deviations (DESIGN 2.6): every place where the code is known to differ   *)
(* from what the property requires is written                               *)
(*     IF "D_x" \in D THEN <what the code does> ELSE <what is required>.    *)
(* With D = {} the store satisfies every invariant below (checked by TLC);  *)
(* with D = the open known findings it predicts the code's answers exactly. *)
EXTENDS ZoneAbstract, TLC

CONSTANTS
  Dev,          \* set of deviation names in force
  NodeNames,    \* non-apex relative names that may become tree nodes
  Types,        \* record types that can be stored
  Vals,         \* rdata values
  ValsOf(_),    \* type -> the values used for it (bounds TLC)
  OpFamilies,   \* subset of {"W", "U", "M", "B"}: write interface, ZoneUpdater, make_* and
                \* commit(true) (both need "W")
  Writers, Readers,
  MaxVer,       \* highest version number
  MaxOps,       \* write operations per behaviour (bounds TLC)
  MaxZf,        \* records in the initial zone file
  QNames, QTypes

DevNames == {"D_ent_nxdomain", "D_deleted_name_shadows_wildcard", "D_update_no_cut",
             "D_update_no_cname", "D_remove_all_nodata", "D_stale_glue",
             "D_any_dead_entry", "D_unversioned_node_creation"}
ASSUME Dev \subseteq DevNames

AllNodes == NodeNames \cup {Apex}
Aborted == 99             \* ghost "born" value of a node whose creating version was rolled back

-----------------------------------------------------------------------------
(* versioned.rs: Versioned<T> = Vec<(Version, Option<T>)>                   *)
Absent == [k |-> "Absent"]
Removed == [k |-> "Removed"]       \* (version, None)
RS(s) == [k |-> "Data", s |-> s]   \* an RRset: the set of its rdata values
SpNone == [k |-> "None"]           \* Some(None): a regular node
SpNx == [k |-> "NxDomain"]
SpCut(ns, ds, glue) == [k |-> "Cut", ns |-> ns, ds |-> ds, glue |-> glue]
SpCname(x) == [k |-> "Cname", val |-> x]

Last(s) == s[Len(s)]
Front(s) == SubSeq(s, 1, Len(s) - 1)

\* get(): the last entry with version <= ver; a removal marker reads as absent
VGet(s, ver) ==
  LET idx == {i \in DOMAIN s : s[i].v <= ver}
  IN IF idx = {} THEN Absent
     ELSE LET i == CHOOSE x \in idx : \A y \in idx : y <= x
          IN IF s[i].d = Removed THEN Absent ELSE s[i].d

VUpdate(s, ver, x) ==
  IF s # <<>> /\ Last(s).v = ver THEN [s EXCEPT ![Len(s)] = [v |-> ver, d |-> x]]
  ELSE Append(s, [v |-> ver, d |-> x])

VRollback(s, ver) == IF s # <<>> /\ Last(s).v = ver THEN Front(s) ELSE s

VRemove(s, ver) ==
  IF s = <<>> THEN s
  ELSE IF Last(s).d = Removed THEN s
  ELSE IF Last(s).v = ver THEN (IF Len(s) = 1 THEN <<>> ELSE [s EXCEPT ![Len(s)] = [v |-> ver, d |-> Removed]])
  ELSE Append(s, [v |-> ver, d |-> Removed])

-----------------------------------------------------------------------------
(* nodes.rs.  The store value S = [nodes, ent, rr, sp, born]:                *)
(*   nodes  existing ZoneNodes (children maps; never shrinks)               *)
(*   ent[n] types that have an entry in the node's HashMap<Rtype,NodeRrset> *)
(*   rr[n][t] the Versioned RRset, sp[n] the Versioned special              *)
(*   born[n] GHOST: version in which the node was created (attribution of   *)
(*           deviations only; never read by the transcribed algorithm)      *)
EmptyStore ==
  [nodes |-> {}, ent |-> [n \in AllNodes |-> {}],
   rr |-> [n \in AllNodes |-> [t \in Types |-> <<>>]],
   sp |-> [n \in NodeNames |-> <<>>], born |-> [n \in NodeNames |-> 0]]

LiveVals(S, v, n, t) ==
  IF t \notin Types THEN {}
  ELSE LET g == VGet(S.rr[n][t], v) IN IF g.k = "Data" THEN g.s ELSE {}
RrsetsEmpty(S, v, n) == \A t \in Types : LiveVals(S, v, n, t) = {}      \* NodeRrsets::is_empty
Stored(S, v, n) == LET g == VGet(S.sp[n], v) IN IF g.k = "Absent" THEN SpNone ELSE g   \* with_special

ChildrenOf(S, n) == {c \in S.nodes : Parent(c) = n}
Below(S, n) == {m \in S.nodes : StrictlyBelow(m, n)}

\* the records a node contributes to version v: its RRsets and the payload
\* of a Cut / Cname special
PayloadAt(S, v, n) ==
  IF n = Apex THEN {}
  ELSE LET st == Stored(S, v, n)
       IN IF st.k = "Cut" THEN {Rec(n, "NS", x) : x \in st.ns} \cup {Rec(n, "DS", x) : x \in st.ds}
          ELSE IF st.k = "Cname" THEN {Rec(n, "CNAME", st.val)}
          ELSE {}
PlainAt(S, v, n) == UNION {{Rec(n, t, x) : x \in LiveVals(S, v, n, t)} : t \in Types}
ContentOf(S, v) == UNION {PlainAt(S, v, n) \cup PayloadAt(S, v, n) : n \in S.nodes \cup {Apex}}

LiveAt(S, v, n) == PlainAt(S, v, n) # {} \/ PayloadAt(S, v, n) # {}
LiveBelow(S, v, n) == \E m \in Below(S, n) : LiveAt(S, v, m)

-----------------------------------------------------------------------------
(* read.rs                                                                  *)
SoaC(S, v) == {Rec(Apex, "SOA", x) : x \in LiveVals(S, v, Apex, "SOA")}   \* get_soa / into_answer
NoDataC(S, v) == [rcode |-> "NOERROR", aa |-> TRUE, ans |-> {}, auth |-> SoaC(S, v), add |-> {}]
NxDomainC(S, v) == [rcode |-> "NXDOMAIN", aa |-> TRUE, ans |-> {}, auth |-> SoaC(S, v), add |-> {}]
DataC(qn, t, vals) ==
  [rcode |-> "NOERROR", aa |-> TRUE, ans |-> {Rec(qn, t, x) : x \in vals}, auth |-> {}, add |-> {}]
ReferralC(n, cut) ==
  Referral(n, {Rec(n, "NS", x) : x \in cut.ns}, {Rec(n, "DS", x) : x \in cut.ds}, cut.glue)

GlueNow(S, v, ns) ==
  UNION {UNION {{Rec(m, t, y) : y \in LiveVals(S, v, m, t)} : t \in AddrTypes} :
           m \in {x \in S.nodes \cup {Apex} : \E z \in ns : NsTarget(z) = x}}

\* The special the read algorithm acts on.  With D = all deviations this is
\* exactly with_special(); each repaired deviation replaces the stored value
\* by what the version's records imply.
Eff(S, v, n, D) ==
  LET st == Stored(S, v, n)
      nsAll == LiveVals(S, v, n, "NS") \cup (IF st.k = "Cut" THEN st.ns ELSE {})
      dsAll == LiveVals(S, v, n, "DS") \cup (IF st.k = "Cut" THEN st.ds ELSE {})
      cn == LiveVals(S, v, n, "CNAME")
      dead == ~LiveAt(S, v, n) /\ ~LiveBelow(S, v, n)
  IN IF st.k = "Cut" THEN
       LET c1 == IF "D_update_no_cut" \in D THEN st ELSE [st EXCEPT !.ns = nsAll, !.ds = dsAll]
       IN IF "D_stale_glue" \in D THEN c1 ELSE [c1 EXCEPT !.glue = GlueNow(S, v, c1.ns)]
     ELSE IF st.k = "Cname" THEN st
     ELSE IF nsAll # {} /\ "D_update_no_cut" \notin D THEN SpCut(nsAll, dsAll, GlueNow(S, v, nsAll))
     ELSE IF cn # {} /\ "D_update_no_cname" \notin D THEN SpCname(CHOOSE x \in cn : TRUE)
     ELSE IF st.k = "NxDomain" THEN
       (IF "D_ent_nxdomain" \notin D /\ LiveBelow(S, v, n) THEN SpNone ELSE st)
     ELSE \* reads as a regular node
       IF ~dead THEN st
       ELSE IF S.born[n] > v
            THEN (IF "D_unversioned_node_creation" \in D THEN st ELSE SpNx)
            ELSE (IF "D_remove_all_nodata" \in D THEN st ELSE SpNx)

\* query_rrsets (not walking)
QRrsets(S, v, n, qn, qt, D) ==
  IF qt = "ANY" THEN
    \* guard.iter().next(): the FIRST HashMap entry, whatever it is
    LET live == {t \in S.ent[n] : LiveVals(S, v, n, t) # {}}
    IN {DataC(qn, t, LiveVals(S, v, n, t)) : t \in live}
       \cup (IF live = {} \/ (S.ent[n] # live /\ "D_any_dead_entry" \in D)
             THEN {NoDataC(S, v)} ELSE {})
  ELSE IF LiveVals(S, v, n, qt) # {} THEN {DataC(qn, qt, LiveVals(S, v, n, qt))}
  ELSE {NoDataC(S, v)}

\* query_node_here_but_not_below (also the wildcard node, owner = qn)
HereNotBelow(S, v, n, qn, qt, D) ==
  LET e == Eff(S, v, n, D)
  IN CASE e.k = "Cut" ->                                   \* query_at_cut
            IF qt = "DS" THEN (IF e.ds # {} THEN {DataC(qn, "DS", e.ds)} ELSE {NoDataC(S, v)})
            ELSE {ReferralC(n, e)}
       [] e.k = "Cname" -> {DataC(qn, "CNAME", {e.val})}
       [] e.k = "NxDomain" -> {NxDomainC(S, v)}
       [] OTHER -> QRrsets(S, v, n, qn, qt, D)

\* k = number of labels of qn already matched; node = Suffix(qn, k)
RECURSIVE QNode(_, _, _, _, _, _)
QChildren(S, v, qn, qt, k, D) ==          \* query_children of node Suffix(qn, k)
  LET parent == Suffix(qn, k)
      child == Suffix(qn, k + 1)
      usable == /\ child \in S.nodes
                /\ ~(/\ "D_deleted_name_shadows_wildcard" \notin D
                     /\ Eff(S, v, child, D).k = "NxDomain"
                     /\ ~LiveBelow(S, v, child))
      wc == WildcardAt(parent)
  IN IF usable THEN QNode(S, v, qn, qt, k + 1, D)
     ELSE IF wc \in S.nodes THEN HereNotBelow(S, v, wc, qn, qt, D)
     ELSE {NxDomainC(S, v)}
QNode(S, v, qn, qt, k, D) ==              \* query_node
  LET n == Suffix(qn, k)
  IN IF k = Len(qn) THEN HereNotBelow(S, v, n, qn, qt, D)
     ELSE LET e == Eff(S, v, n, D)        \* query_node_here_and_below
          IN CASE e.k = "Cut" -> {ReferralC(n, e)}
               [] e.k = "NxDomain" -> {NxDomainC(S, v)}
               [] OTHER -> QChildren(S, v, qn, qt, k, D)

\* ReadZone::query for a reader pinned to version v: the set of answers the
\* code may give (a singleton except for ANY)
ConcreteAnswer(S, v, qn, qt, D) ==
  IF qn = Apex THEN QRrsets(S, v, Apex, qn, qt, D) ELSE QChildren(S, v, qn, qt, 0, D)

\* ---- names as the API hands them over: absolute, in the caller's spelling.
\* mod.rs util::rel_name_rev_iter (ZoneApex::prepare_name for every query and
\* every ZoneBuilder insert, ZoneUpdater for every record owner): walk the apex
\* labels from the right, each must equal (Label's ==, which ignores ASCII case)
\* the query name's label at that place; what is left of the query name is the
\* relative name.  The root label both names end with is implicit here.
RECURSIVE PrepFrom(_, _, _)
PrepFrom(apex, full, k) ==                 \* k apex labels matched so far
  IF k = Len(apex) THEN [ok |-> TRUE, rel |-> SubSeq(full, 1, Len(full) - k)]
  ELSE IF k >= Len(full) THEN [ok |-> FALSE]                       \* qname.next() = None
  ELSE IF ~LabelEq(apex[Len(apex) - k], full[Len(full) - k]) THEN [ok |-> FALSE]
  ELSE PrepFrom(apex, full, k + 1)
PrepareName(apex, full) == PrepFrom(apex, full, 0)
\* children: HashMap<OwnedLabel, _> -- Hash and Eq of OwnedLabel ignore ASCII
\* case, so a node is found under the lower-cased spelling of its labels
NodeKey(rel) == LowerName(rel)
\* ReadableZone::query(qname, qtype) as called: `apex` is the spelling the zone
\* was created with, `full` the query name as spelled by the caller
QueryAbs(S, v, apex, full, qt, D) ==
  LET p == PrepareName(apex, full)
  IN IF ~p.ok THEN {OutOfZone}
     ELSE UNION {ConcreteAnswer(S, v, rel, qt, D) : rel \in {NodeKey(p.rel)}}   \* (binds the VALUE of the name)

\* ReadZone::walk: the set of records handed to the callback
RECURSIVE WalkNode(_, _, _, _)
WalkNode(S, v, n, D) ==
  LET st == IF n = Apex THEN SpNone ELSE Stored(S, v, n)
      below == UNION {WalkNode(S, v, c, D) : c \in ChildrenOf(S, n)}
  IN PlainAt(S, v, n) \cup
     (CASE st.k = "Cut" ->
             {Rec(n, "NS", x) : x \in st.ns} \cup {Rec(n, "DS", x) : x \in st.ds}
             \cup (IF "D_stale_glue" \in D THEN st.glue
                   ELSE UNION {PlainAt(S, v, m) : m \in Below(S, n)} \cup GlueNow(S, v, st.ns))
        [] st.k = "Cname" -> {Rec(n, "CNAME", st.val)} \cup below
        [] OTHER -> below)
WalkOf(S, v, D) == WalkNode(S, v, Apex, D)

-----------------------------------------------------------------------------
(* write.rs: WriteNode operations at the writer's new version nv            *)
SetSp(S, n, nv, x) == [S EXCEPT !.sp[n] = VUpdate(@, nv, x)]

CheckNx(S, nv, n) ==                       \* check_nx_domain
  IF n = Apex THEN S
  ELSE LET st == Stored(S, nv, n)
       IN IF st.k = "NxDomain" /\ ~RrsetsEmpty(S, nv, n) THEN SetSp(S, n, nv, SpNone)
          ELSE IF st.k = "None" /\ RrsetsEmpty(S, nv, n) THEN SetSp(S, n, nv, SpNx)
          ELSE S

\* update_child for the node c (its parent exists): with_or_default inserts
\* the child into the SHARED map at once -- this write is not versioned
UpdateChild(S, nv, c) ==
  IF c \in S.nodes THEN (IF S.born[c] = Aborted THEN [S EXCEPT !.born[c] = nv] ELSE S)
  ELSE CheckNx(SetSp([S EXCEPT !.nodes = @ \cup {c}, !.born[c] = nv], c, nv, SpNone), nv, c)  \* make_regular

RECURSIVE EnsurePathFrom(_, _, _, _)
EnsurePathFrom(S, nv, n, k) ==             \* descend from the apex creating missing nodes
  IF k > Len(n) THEN S ELSE EnsurePathFrom(UpdateChild(S, nv, Suffix(n, k)), nv, n, k + 1)
EnsurePath(S, nv, n) == EnsurePathFrom(S, nv, n, 1)

RemoveRtype(S, nv, n, t) ==                \* remove_rrset
  CheckNx([S EXCEPT !.ent[n] = @ \cup {t}, !.rr[n][t] = VRemove(@, nv)], nv, n)
UpdateRrset(S, nv, n, t, vals) ==          \* update_rrset (an empty RRset removes)
  IF vals = {} THEN RemoveRtype(S, nv, n, t)
  ELSE CheckNx([S EXCEPT !.ent[n] = @ \cup {t}, !.rr[n][t] = VUpdate(@, nv, RS(vals))], nv, n)

RemoveAllAt(S, nv, n) ==                   \* remove_all on the node and everything below
  LET ms == {n} \cup Below(S, n)
  IN [S EXCEPT !.rr = [m \in AllNodes |-> IF m \in ms THEN [t \in Types |-> VRemove(S.rr[m][t], nv)] ELSE S.rr[m]],
               !.sp = [m \in NodeNames |-> IF m \in ms THEN VRemove(S.sp[m], nv) ELSE S.sp[m]]]

Rollback(S, ver) ==                        \* ZoneApex::rollback
  [S EXCEPT !.rr = [m \in AllNodes |-> [t \in Types |-> VRollback(S.rr[m][t], ver)]],
            !.sp = [m \in NodeNames |-> VRollback(S.sp[m], ver)],
            !.born = [m \in NodeNames |-> IF S.born[m] = ver THEN Aborted ELSE S.born[m]]]

\* update.rs: ZoneUpdater
AddRecord(S, nv, n, t, x) ==
  LET S1 == EnsurePath(S, nv, n) IN UpdateRrset(S1, nv, n, t, LiveVals(S1, nv, n, t) \cup {x})
DeleteRecord(S, nv, n, t, x) ==
  LET S1 == EnsurePath(S, nv, n)           \* the owner's nodes are created even for a delete
      rest == LiveVals(S1, nv, n, t) \ {x}
  IN IF rest = {} THEN RemoveRtype(S1, nv, n, t) ELSE UpdateRrset(S1, nv, n, t, rest)

\* builder.rs + parsed.rs: the store ZoneBuilder::try_from(Zonefile) builds
BuildStore(C) ==
  LET nds == {n \in NodeNames : \E m \in Owners(C) : IsSuffixOf(n, m)}
      cuts == Cuts(C)
      isPlain(r) == ~(OwnerOf(r) \in cuts /\ TypeOf(r) \in {"NS", "DS"}) /\ TypeOf(r) # "CNAME"
      plain == {r \in C : isPlain(r)}
      vals(n, t) == {ValOf(r) : r \in RRset(plain, n, t)}
  IN [nodes |-> nds,
      ent |-> [n \in AllNodes |-> TypesAt(plain, n)],
      rr |-> [n \in AllNodes |-> [t \in Types |->
                IF vals(n, t) = {} THEN <<>> ELSE <<[v |-> 0, d |-> RS(vals(n, t))]>>]],
      sp |-> [n \in NodeNames |->
                IF n \in cuts THEN
                  <<[v |-> 0, d |-> SpCut({ValOf(r) : r \in RRset(C, n, "NS")},
                                          {ValOf(r) : r \in RRset(C, n, "DS")}, AvailGlue(C, n))]>>
                ELSE IF RRset(C, n, "CNAME") # {} THEN
                  <<[v |-> 0, d |-> SpCname(ValOf(CHOOSE r \in RRset(C, n, "CNAME") : TRUE))]>>
                ELSE <<>>],
      born |-> [n \in NodeNames |-> 0]]

-----------------------------------------------------------------------------
(* State                                                                    *)
VARIABLES
  store,        \* the shared tree (S above)
  current,      \* ZoneVersions.current
  allv,         \* ZoneVersions.all
  wlock,        \* update_lock: "none" or the writer holding it
  wst,          \* writer -> "idle" | "locked" | "open" | "mid"
  wkind,        \* writer -> "W" (WritableZone user) | "U" (ZoneUpdater)
  wnv,          \* writer -> WriteZone.new_version
  dirty,        \* writer -> WriteZone.dirty
  readers,      \* reader -> -1 | pinned version
  phase, zf,    \* "zonefile" (parsed::Zonefile being filled) | "live"
  committed,    \* GHOST version -> records that version was committed with
  pend,         \* GHOST records the open writer intends for its version
  nops,         \* write operations performed
  act,          \* descriptor of the last action (hidden by VIEW in MC)
  snap          \* GHOST version -> the tree as it was when the version was published
                \* (reference for C09 in the bindings; not read by MC invariants)

svars == <<store, current, allv, wlock, wst, wkind, wnv, dirty, readers, phase, zf, committed, pend, nops>>
vars == <<svars, act, snap>>

Versions == 0..MaxVer

InitWith(z) ==
  /\ store = EmptyStore /\ current = 0 /\ allv = {0}
  /\ wlock = "none" /\ wst = [w \in Writers |-> "idle"] /\ wnv = [w \in Writers |-> 0]
  /\ wkind = [w \in Writers |-> "W"]
  /\ dirty = [w \in Writers |-> FALSE]
  /\ readers = [r \in Readers |-> -1]
  /\ phase = "zonefile" /\ zf = z
  /\ committed = [v \in Versions |-> {}] /\ pend = {}
  /\ nops = 0 /\ act = [a |-> "Init"]
  /\ snap = [v \in Versions |-> EmptyStore]

Init == InitWith({Rec(Apex, "SOA", 1)})    \* a zone file starts with the SOA

\* ---- construction route 1: zone file -> ZoneBuilder -> Zone
ZfInsert(r) ==
  /\ phase = "zonefile" /\ r \notin zf /\ Cardinality(zf) < MaxZf
  /\ ValidZone(zf \cup {r})
  /\ zf' = zf \cup {r}
  /\ act' = [a |-> "ZfInsert", n |-> r[1], t |-> r[2], x |-> r[3]]
  /\ UNCHANGED <<store, current, allv, wlock, wst, wkind, wnv, dirty, readers, phase, committed, pend, nops, snap>>

\* a record the zone file does not admit -- it conflicts with what its owner
\* holds already, or it is of another class than the zone: insert() returns an
\* error and the zone file is as before
ZfReject(r, cls) ==
  /\ phase = "zonefile" /\ r \notin zf
  /\ (cls = "IN" => ~Admits(zf, r))
  /\ act' = [a |-> "ZfReject", n |-> r[1], t |-> r[2], x |-> r[3], cls |-> cls, zf |-> zf]
  /\ UNCHANGED <<store, current, allv, wlock, wst, wkind, wnv, dirty, readers, phase, zf, committed, pend, nops, snap>>

Build ==
  /\ phase = "zonefile"
  /\ phase' = "live" /\ store' = BuildStore(zf)
  /\ committed' = [committed EXCEPT ![0] = zf]
  /\ act' = [a |-> "Build", zf |-> zf]
  /\ snap' = [snap EXCEPT ![0] = BuildStore(zf)]
  /\ UNCHANGED <<current, allv, wlock, wst, wkind, wnv, dirty, readers, zf, pend, nops>>

\* ---- the writer: one action per critical section
AcquireWriteLock(w, kind) ==               \* ZoneApex::write(): update_lock, then versions.read()
  /\ phase = "live" /\ wst[w] = "idle" /\ wlock = "none" /\ current < MaxVer
  /\ wlock' = w /\ wst' = [wst EXCEPT ![w] = "locked"] /\ wkind' = [wkind EXCEPT ![w] = kind]
  /\ wnv' = [wnv EXCEPT ![w] = current + 1]
  /\ act' = [a |-> "AcquireWriteLock", w |-> w, kind |-> kind]
  /\ UNCHANGED <<store, current, allv, dirty, readers, phase, zf, committed, pend, nops, snap>>

Open(w) ==                                 \* WritableZone::open
  /\ wst[w] = "locked" /\ wnv[w] <= MaxVer
  /\ wst' = [wst EXCEPT ![w] = "open"] /\ dirty' = [dirty EXCEPT ![w] = TRUE]
  /\ pend' = committed[current]
  /\ act' = [a |-> "Open", w |-> w]
  /\ UNCHANGED <<store, current, allv, wlock, wkind, wnv, readers, phase, zf, committed, nops, snap>>

Writing(w, kind) == wst[w] = "open" /\ wkind[w] = kind /\ kind \in OpFamilies /\ nops < MaxOps
\* histories are generated so that every version is a valid zone and so
\* that NS/DS/CNAME held in a Cut/Cname special are only changed through
\* make_* / remove_all (mixing the routes at one name is not explored)
NoSpecialAt(n) == IF n = Apex THEN TRUE ELSE IF n \notin store.nodes THEN TRUE
                  ELSE Stored(store, wnv[wlock], n).k \notin {"Cut", "Cname"}
Touches(n, t) == t \in {"NS", "DS", "CNAME"} => NoSpecialAt(n)

Wrote(w, S1, P1, d) ==
  /\ ValidZone(P1)
  /\ store' = S1 /\ pend' = P1 /\ nops' = nops + 1
  /\ act' = d
  /\ UNCHANGED <<current, allv, wlock, wst, wkind, wnv, dirty, readers, phase, zf, committed, snap>>

SetRRset(P, n, t, vals) == (P \ RRset(P, n, t)) \cup {Rec(n, t, x) : x \in vals}

W_UpdateChild(w, n) ==                     \* WritableZoneNode::update_child down to n
  /\ Writing(w, "W") /\ n \in NodeNames /\ n \notin store.nodes
  /\ Wrote(w, EnsurePath(store, wnv[w], n), pend, [a |-> "W_UpdateChild", w |-> w, n |-> n])
W_UpdateRrset(w, n, t, vals) ==            \* update_rrset (n exists); "replace the RRset by
                                           \* the given one": an EMPTY RRset deletes it
  /\ Writing(w, "W") /\ n \in store.nodes \cup {Apex} /\ Touches(n, t)
  /\ Wrote(w, UpdateRrset(store, wnv[w], n, t, vals), SetRRset(pend, n, t, vals),
           [a |-> "W_UpdateRrset", w |-> w, n |-> n, t |-> t, xs |-> vals])
W_RemoveRrset(w, n, t) ==
  /\ Writing(w, "W") /\ n \in store.nodes \cup {Apex} /\ Touches(n, t)
  /\ Wrote(w, RemoveRtype(store, wnv[w], n, t), SetRRset(pend, n, t, {}),
           [a |-> "W_RemoveRrset", w |-> w, n |-> n, t |-> t])
W_RemoveAll(w, n) ==
  /\ Writing(w, "W") /\ n \in store.nodes \cup {Apex}
  /\ Wrote(w, RemoveAllAt(store, wnv[w], n), {r \in pend : ~IsSuffixOf(n, OwnerOf(r))},
           [a |-> "W_RemoveAll", w |-> w, n |-> n])
W_MakeRegular(w, n) ==
  /\ Writing(w, "W") /\ "M" \in OpFamilies /\ n \in store.nodes
  /\ Wrote(w, CheckNx(SetSp(store, n, wnv[w], SpNone), wnv[w], n),
           pend \ PayloadAt(store, wnv[w], n), [a |-> "W_MakeRegular", w |-> w, n |-> n])
W_MakeCname(w, n, x) ==
  /\ Writing(w, "W") /\ "M" \in OpFamilies /\ n \in store.nodes /\ PlainAt(store, wnv[w], n) = {}
  /\ Wrote(w, SetSp(store, n, wnv[w], SpCname(x)),
           (pend \ PayloadAt(store, wnv[w], n)) \cup {Rec(n, "CNAME", x)},
           [a |-> "W_MakeCname", w |-> w, n |-> n, x |-> x])
W_MakeZoneCut(w, n, ns, ds) ==
  /\ Writing(w, "W") /\ "M" \in OpFamilies /\ n \in store.nodes /\ ns # {}
  /\ \A t \in {"NS", "DS", "CNAME"} : LiveVals(store, wnv[w], n, t) = {}
  /\ LET P1 == (pend \ PayloadAt(store, wnv[w], n))
                 \cup {Rec(n, "NS", x) : x \in ns} \cup {Rec(n, "DS", x) : x \in ds}
     IN Wrote(w, SetSp(store, n, wnv[w], SpCut(ns, ds, AvailGlue(P1, n))), P1,
              [a |-> "W_MakeZoneCut", w |-> w, n |-> n, ns |-> ns, ds |-> ds, glue |-> AvailGlue(P1, n)])

U_AddRecord(w, n, t, x) ==                 \* ZoneUpdate::AddRecord
  /\ Writing(w, "U") /\ n \in AllNodes /\ Rec(n, t, x) \notin pend /\ Touches(n, t)
  /\ t = "SOA" => RRset(pend, n, t) = {}
  /\ Wrote(w, AddRecord(store, wnv[w], n, t, x), pend \cup {Rec(n, t, x)},
           [a |-> "U_AddRecord", w |-> w, n |-> n, t |-> t, x |-> x])
U_DeleteRecord(w, n, t, x) ==              \* ZoneUpdate::DeleteRecord (also of an absent record)
  /\ Writing(w, "U") /\ n \in AllNodes /\ Touches(n, t)
  /\ Wrote(w, DeleteRecord(store, wnv[w], n, t, x), pend \ {Rec(n, t, x)},
           [a |-> "U_DeleteRecord", w |-> w, n |-> n, t |-> t, x |-> x])
U_Soa(w, x) ==                             \* update_soa (BeginBatchAdd / first half of Finished)
  /\ Writing(w, "U")
  /\ Wrote(w, UpdateRrset(store, wnv[w], Apex, "SOA", {x}), SetRRset(pend, Apex, "SOA", {x}),
           [a |-> "U_Soa", w |-> w, x |-> x])
U_DeleteAll(w) ==                          \* ZoneUpdate::DeleteAllRecords
  /\ Writing(w, "U")
  /\ Wrote(w, RemoveAllAt(store, wnv[w], Apex), {}, [a |-> "U_DeleteAll", w |-> w])

\* commit(): publish_new_zone_version takes versions.write() twice
\* bump_soa_serial: commit(true) stores a copy of the published SOA with the serial
\* increased -- as content of the NEW version only -- unless the writer replaced
\* the SOA itself (commit(): old_soa.is_some() && (new_soa.is_none() || new == old))
BumpNeeded(w) ==
  LET old == LiveVals(store, current, Apex, "SOA")
      new == LiveVals(store, wnv[w], Apex, "SOA")
  IN old # {} /\ (new = {} \/ new = old)
BumpedSoa == {x + 1 : x \in LiveVals(store, current, Apex, "SOA")}
CommitUpdateCurrent(w, bump) ==
  /\ wst[w] = "open" /\ (bump => wkind[w] = "W" /\ "B" \in OpFamilies)   \* ZoneUpdater always uses commit(false)
  /\ LET doBump == bump /\ BumpNeeded(w)
         S1 == IF doBump THEN [store EXCEPT !.ent[Apex] = @ \cup {"SOA"},
                                            !.rr[Apex]["SOA"] = VUpdate(@, wnv[w], RS(BumpedSoa))]
               ELSE store
         P1 == IF doBump THEN SetRRset(pend, Apex, "SOA", BumpedSoa) ELSE pend
     IN /\ store' = S1 /\ pend' = P1
        /\ current' = wnv[w] /\ committed' = [committed EXCEPT ![wnv[w]] = P1]
        /\ snap' = [snap EXCEPT ![wnv[w]] = S1]
  /\ wst' = [wst EXCEPT ![w] = "mid"]
  /\ act' = [a |-> "CommitUpdateCurrent", w |-> w, bump |-> bump]
  /\ UNCHANGED <<allv, wlock, wkind, wnv, dirty, readers, phase, zf, nops>>
CommitPushVersion(w) ==
  /\ wst[w] = "mid"
  /\ allv' = allv \cup {wnv[w]}
  /\ wnv' = [wnv EXCEPT ![w] = @ + 1] /\ dirty' = [dirty EXCEPT ![w] = FALSE]
  /\ wst' = [wst EXCEPT ![w] = "locked"]
  /\ act' = [a |-> "CommitPushVersion", w |-> w]
  /\ UNCHANGED <<store, current, wlock, wkind, readers, phase, zf, committed, pend, nops, snap>>

DropWriter(w) ==                           \* Drop for WriteZone: rollback iff dirty; lock released
  /\ wst[w] \in {"locked", "open"}
  /\ store' = IF dirty[w] THEN Rollback(store, wnv[w]) ELSE store
  /\ dirty' = [dirty EXCEPT ![w] = FALSE]
  /\ wlock' = "none" /\ wst' = [wst EXCEPT ![w] = "idle"]
  /\ act' = [a |-> "DropWriter", w |-> w]
  /\ UNCHANGED <<current, allv, wkind, wnv, readers, phase, zf, committed, pend, nops, snap>>

\* ---- readers
ReaderAcquire(r) ==                        \* ZoneApex::read under versions.read()
  /\ phase = "live" /\ readers[r] = -1
  /\ readers' = [readers EXCEPT ![r] = current]
  /\ act' = [a |-> "ReaderAcquire", r |-> r, v |-> current]
  /\ UNCHANGED <<store, current, allv, wlock, wst, wkind, wnv, dirty, phase, zf, committed, pend, nops, snap>>
ReaderQuery(r, qn) ==
  /\ readers[r] # -1
  /\ act' = [a |-> "ReaderQuery", r |-> r, v |-> readers[r], qn |-> qn]
  /\ UNCHANGED <<svars, snap>>
ReaderWalk(r) ==
  /\ readers[r] # -1
  /\ act' = [a |-> "ReaderWalk", r |-> r, v |-> readers[r]]
  /\ UNCHANGED <<svars, snap>>
ReaderRelease(r) ==
  /\ readers[r] # -1
  /\ readers' = [readers EXCEPT ![r] = -1]
  /\ act' = [a |-> "ReaderRelease", r |-> r]
  /\ UNCHANGED <<store, current, allv, wlock, wst, wkind, wnv, dirty, phase, zf, committed, pend, nops, snap>>

ZfRecs == {r \in (AllNodes \X Types \X Vals) : r[3] \in ValsOf(r[2])}

WriteOp(w) ==
  \/ U_DeleteAll(w)
  \/ \E x \in ValsOf("SOA") : U_Soa(w, x)
  \/ \E n \in AllNodes :
       \/ W_UpdateChild(w, n) \/ W_RemoveAll(w, n) \/ W_MakeRegular(w, n)
       \/ \E x \in ValsOf("CNAME") : W_MakeCname(w, n, x)
       \/ \E x \in ValsOf("NS") : W_MakeZoneCut(w, n, {x}, {}) \/ W_MakeZoneCut(w, n, {x}, {1})
       \/ \E t \in Types :
            \/ W_RemoveRrset(w, n, t)
            \/ \E x \in ValsOf(t) : W_UpdateRrset(w, n, t, {x})
            \/ W_UpdateRrset(w, n, t, {})
            \/ Cardinality(ValsOf(t)) > 1 /\ W_UpdateRrset(w, n, t, ValsOf(t))
            \/ \E x \in ValsOf(t) : U_AddRecord(w, n, t, x) \/ U_DeleteRecord(w, n, t, x)

Next ==
  \/ \E r \in ZfRecs :
       \/ ZfInsert(r) \/ ZfReject(r, "IN")
       \/ (r[2] = "A" /\ r[1] \in Owners(zf) /\ ZfReject(r, "CH"))    \* (a few of them: bounds TLC)
  \/ Build
  \/ \E w \in Writers :
       \/ \E kind \in OpFamilies \cap {"W", "U"} : AcquireWriteLock(w, kind)
       \/ Open(w) \/ CommitUpdateCurrent(w, FALSE) \/ CommitUpdateCurrent(w, TRUE)
       \/ CommitPushVersion(w) \/ DropWriter(w)
       \/ WriteOp(w)
  \/ \E r \in Readers :
       \/ ReaderAcquire(r) \/ ReaderRelease(r) \/ ReaderWalk(r)
       \/ \E qn \in QNames : ReaderQuery(r, qn)

Spec == Init /\ [][Next]_vars

-----------------------------------------------------------------------------
(* Properties                                                               *)
Queries == QNames \X QTypes
Published == 0..current

\* what ZoneAbstract admits for the version v
Admissible(v, qn, qt) == Answer(committed[v], qn, qt)
Agrees(v, D) ==
  \A q \in Queries : ConcreteAnswer(store, v, q[1], q[2], D) \subseteq Admissible(v, q[1], q[2])

\* C08: a fresh reader's answers are the RFC's answers for the records the
\* history left behind -- whatever the history was
AnswersAgree == phase = "live" => Agrees(current, Dev)

\* the write path implements set semantics on records
ContentRefines ==
  phase = "live" =>
    /\ \A v \in Published : ContentOf(store, v) = committed[v]
    /\ \A w \in Writers : wst[w] = "open" => ContentOf(store, wnv[w]) = pend

\* C09
SnapshotIsolation ==
  \A r \in Readers : readers[r] # -1 =>
     /\ Agrees(readers[r], Dev)
     /\ ContentOf(store, readers[r]) = committed[readers[r]]
AbortInvisible ==      \* nothing of an abandoned version is left anywhere
  (phase = "live" /\ wlock = "none") =>
     /\ \A v \in Published : Agrees(v, Dev) /\ ContentOf(store, v) = committed[v]
     /\ \A n \in AllNodes : \A t \in Types : \A i \in DOMAIN store.rr[n][t] : store.rr[n][t][i].v <= current
     /\ \A n \in NodeNames : \A i \in DOMAIN store.sp[n] : store.sp[n][i].v <= current
AtomicVisibility ==    \* what a fresh reader sees changes only by the commit step, all at once
  [][(phase = "live" /\ phase' = "live") =>
       /\ current' = current => ContentOf(store, current)' = ContentOf(store, current)
       /\ current' # current => ContentOf(store, current)' = pend']_vars
SingleWriter ==
  /\ Cardinality({w \in Writers : wst[w] # "idle"}) <= 1
  /\ \A w \in Writers :
       /\ wst[w] # "idle" => wlock = w
       /\ wst[w] = "open" => wnv[w] = current + 1
       /\ wst[w] = "mid" => wnv[w] = current
       /\ dirty[w] => wst[w] \in {"open", "mid"}
WalkIsContent ==
  \A r \in Readers : readers[r] # -1 => WalkOf(store, readers[r], Dev) = committed[readers[r]]
WalkCurrentIsContent == phase = "live" => WalkOf(store, current, Dev) = committed[current]

\* C09 judged on its own (bindings): a held reader's answers are the answers
\* its version gave when it was published -- whatever C08 says about them
SnapAnswer(v, qn, qt) == ConcreteAnswer(snap[v], v, qn, qt, Dev)
\* the only way the shared tree can change an old version's answers is node creation
IsolatedModuloUnversioned ==
  phase = "live" =>
    \A v \in Published : \A q \in Queries :
      LET D == Dev \ {"D_unversioned_node_creation"}
      IN ConcreteAnswer(store, v, q[1], q[2], D) = ConcreteAnswer(snap[v], v, q[1], q[2], D)

\* every difference between the code's prediction and the ideal is explained
\* by at least one named deviation (attribution used by the S->I binding)
\* which deviations explain the (non-admissible) answer `a` of the transcription:
\* those without which the transcription would not give it
BlameOf(v, qn, qt, a) ==
  LET gone(X) == a \notin ConcreteAnswer(store, v, qn, qt, Dev \ X)
      singles == {d \in Dev : gone({d})}
      pairs == UNION {X \in SUBSET Dev : Cardinality(X) = 2 /\ gone(X)}
  IN IF singles # {} THEN singles
     ELSE pairs      \* two deviations mask each other (e.g. a node that should not
                     \* be visible AND the wildcard fallback it prevents)
Blame(v, qn, qt) ==
  UNION {BlameOf(v, qn, qt, a) : a \in ConcreteAnswer(store, v, qn, qt, Dev) \ Admissible(v, qn, qt)}
DeviationsExplain ==
  phase = "live" =>
    \A v \in Published : \A q \in Queries :
      \A a \in ConcreteAnswer(store, v, q[1], q[2], Dev) \ Admissible(v, q[1], q[2]) :
         BlameOf(v, q[1], q[2], a) # {}

\* Liveness (model only).  Weak fairness on the steps by which a lock holder
\* proceeds (second commit step, drop); the update lock (tokio Mutex, FIFO) is
\* fair to waiters: strong fairness on acquisition.
Fairness ==
  \A w \in Writers :
    /\ WF_vars(DropWriter(w)) /\ WF_vars(CommitPushVersion(w))
    /\ SF_vars(\E k \in {"W", "U"} : AcquireWriteLock(w, k))
LiveSpec == Spec /\ Fairness
\* a writer that was granted the lock eventually releases it
LockEventuallyReleased == \A w \in Writers : (wlock = w) ~> (wlock # w)
\* a writer waiting for the lock eventually gets it (while versions remain)
QueuedWriterGetsLock ==
  \A w \in Writers : (phase = "live" /\ wst[w] = "idle") ~> (wst[w] # "idle" \/ current >= MaxVer)

TypeOK ==
  /\ current \in Versions /\ wlock \in Writers \cup {"none"}
  /\ store.nodes \subseteq NodeNames
  /\ \A n \in store.nodes : Parent(n) = Apex \/ Parent(n) \in store.nodes
=============================================================================
