----------------------------- MODULE ZoneVersions -----------------------------
(* Version housekeeping of one in-memory zone:                              *)
(*   src/zonetree/in_memory/write.rs    ZoneVersions {current, all},        *)
(*        update_current / push_version / clean_versions, WriteZone::commit *)
(*        with bump_soa_serial, Drop for WriteZone (rollback)               *)
(*   src/zonetree/in_memory/versioned.rs  Versioned<T> (get/update/remove/  *)
(*        rollback) -- reused from ZoneStore.tla (VGet, VUpdate, ...)       *)
(*   src/zonetree/in_memory/nodes.rs    ZoneApex::read (a reader clones the *)
(*        current (Version, Arc<VersionMarker>))                            *)
(* restricted to the apex RRsets (SOA and one other type); the full tree,   *)
(* queries and writer interleavings are ZoneStore.tla (C08/C09).            *)
(*                                                                          *)
(* What the code does with old versions (read, not assumed):                *)
(*  * every RRset keeps a Vec<(Version, Option<T>)>; update/remove at the   *)
(*    writer's new version append (or overwrite the entry of that version); *)
(*    rollback pops the entry of the abandoned version; NOTHING ever        *)
(*    removes an entry of a committed version.                              *)
(*  * ZoneVersions.all is a Vec<(Version, Weak<VersionMarker>)>; the strong *)
(*    marker lives in `current` and in every reader that took that version. *)
(*    clean_versions() drops the entries of `all` whose marker is dead and  *)
(*    returns the highest dropped version.  It touches no zone data, and no *)
(*    code in the crate calls it (the module documentation says so:         *)
(*    "There is currently no support for removing old versions of zone      *)
(*    data stored in the tree").                                            *)
(*                                                                          *)
(* Properties (extension X03, continued), for every history of reader       *)
(* acquire/release, write sessions (commit or abandon) and clean calls:     *)
(*  X03.4 a held reader's view (what Versioned::get yields for its version) *)
(*        never changes -- not by later writes, commits, rollbacks, nor by  *)
(*        clean_versions.                                                   *)
(*  X03.5 clean_versions never drops the current version nor a version a    *)
(*        reader holds; it drops exactly the others.                        *)
(*  X03.6 commit(bump_soa_serial = true) on a zone that has a SOA publishes *)
(*        a version with a SOA; if the session did not write a different    *)
(*        SOA itself, the published serial is old+1 and RFC 1982-greater    *)
(*        than the old one (also across the wrap).                          *)
(*  Observation (not a defect, documented limitation): the number of        *)
(*  entries an RRset retains is bounded by the number of versions ever      *)
(*  committed (one per commit that touched it), NOT by the number of live   *)
(*  versions: RetentionBoundedByLive below is violated.                     *)
(*  Not modelled: Version is a 32-bit Serial compared by RFC 1982           *)
(*  (`item.0 <= version`); after 2^31 commits entries written at the oldest *)
(*  versions stop being visible.  Versions are plain naturals here.         *)
EXTENDS Integers, Sequences, FiniteSets, TLC

CONSTANTS
  Readers,
  MaxVer,       \* highest version (bounds TLC)
  SerialBits,   \* RFC 1982 SERIAL_BITS of the model's SOA serials
  SoaVals,      \* serials a writer may set / the zone may start with
  TxtVals       \* values of the other apex RRset

S == INSTANCE Serial WITH BITS <- SerialBits
ASSUME SoaVals \subseteq S!Val

\* Versioned<T> is specified once, in ZoneStore.tla; nothing else of that
\* module is used (its constants and variables are given dummy values)
ZSNone(x) == {}
ZS == INSTANCE ZoneStore WITH
        Dev <- {}, NodeNames <- {}, Types <- {}, Vals <- {}, ValsOf <- ZSNone,
        OpFamilies <- {}, Writers <- {}, Readers <- {}, MaxVer <- 0, MaxOps <- 0, MaxZf <- 0,
        QNames <- {}, QTypes <- {}, NsTarget <- ZSNone,
        store <- 0, current <- 0, allv <- 0, wlock <- 0, wst <- 0, wkind <- 0, wnv <- 0,
        dirty <- 0, readers <- 0, phase <- 0, zf <- 0, committed <- 0, pend <- 0, nops <- 0,
        act <- 0, snap <- 0
VGet(s, v) == ZS!VGet(s, v)
VUpdate(s, v, x) == ZS!VUpdate(s, v, x)
VRemove(s, v) == ZS!VRemove(s, v)
VRollback(s, v) == ZS!VRollback(s, v)
Data(x) == ZS!RS({x})              \* an RRset with the single value x
IsData(g) == g.k = "Data"
ValOf(g) == CHOOSE x \in g.s : TRUE

Types == {"SOA", "TXT"}

VARIABLES
  current,      \* ZoneVersions.current.0
  allv,         \* ZoneVersions.all: sequence of versions (each with its Weak marker)
  held,         \* reader -> -1 | the version whose (Version, Arc<VersionMarker>) it holds
  rr,           \* type -> Versioned RRset at the apex
  wst,          \* "idle" | "open" (lock held, open() called: dirty) | "mid" (between update_current and push_version)
  nv,           \* WriteZone.new_version
  last          \* descriptor of the last action (results of commit / clean)
vars == <<current, allv, held, rr, wst, nv, last>>

SeqSet(s) == {s[i] : i \in DOMAIN s}
\* Weak::strong_count() > 0
Alive(v) == v = current \/ \E r \in Readers : held[r] = v
Live == {v \in 0..MaxVer : Alive(v)}
ViewAt(v) == [t \in Types |-> VGet(rr[t], v)]      \* what a reader pinned to v reads
SerialAt(v) == LET g == VGet(rr["SOA"], v) IN IF IsData(g) THEN ValOf(g) ELSE -1

Init ==
  /\ current = 0 /\ allv = <<0>>
  /\ held = [r \in Readers |-> -1]
  /\ \E s \in SoaVals \cup {-1} :
       rr = [t \in Types |-> IF t = "SOA" /\ s # -1 THEN <<[v |-> 0, d |-> Data(s)]>> ELSE <<>>]
  /\ wst = "idle" /\ nv = 0 /\ last = [a |-> "Init"]

ReaderAcquire(r) ==                 \* ZoneApex::read
  /\ held[r] = -1
  /\ held' = [held EXCEPT ![r] = current]
  /\ last' = [a |-> "ReaderAcquire", r |-> r]
  /\ UNCHANGED <<current, allv, rr, wst, nv>>
ReaderRelease(r) ==                 \* drop(ReadZone): the Arc<VersionMarker> goes
  /\ held[r] # -1
  /\ held' = [held EXCEPT ![r] = -1]
  /\ last' = [a |-> "ReaderRelease", r |-> r]
  /\ UNCHANGED <<current, allv, rr, wst, nv>>

Begin ==                            \* ZoneApex::write().await; WritableZone::open()
  /\ wst = "idle" /\ current < MaxVer
  /\ wst' = "open" /\ nv' = current + 1
  /\ last' = [a |-> "Begin"]
  /\ UNCHANGED <<current, allv, held, rr>>
Update(t, x) ==                     \* WritableZoneNode::update_rrset at the apex
  /\ wst = "open"
  /\ rr' = [rr EXCEPT ![t] = VUpdate(@, nv, Data(x))]
  /\ last' = [a |-> "Update", t |-> t, x |-> x]
  /\ UNCHANGED <<current, allv, held, wst, nv>>
RemoveRrset(t) ==                   \* WritableZoneNode::remove_rrset at the apex
  /\ wst = "open"
  /\ rr' = [rr EXCEPT ![t] = VRemove(@, nv)]
  /\ last' = [a |-> "RemoveRrset", t |-> t]
  /\ UNCHANGED <<current, allv, held, wst, nv>>

\* WriteZone::commit(bump): the bump decision and ZoneVersions::update_current
CommitUpdateCurrent(bump) ==
  /\ wst = "open"
  /\ LET old == VGet(rr["SOA"], current)        \* get_soa(last_published_version)
         new == VGet(rr["SOA"], nv)             \* get_soa(new_version)
         doBump == bump /\ IsData(old) /\ (~IsData(new) \/ new = old)
     IN /\ rr' = IF doBump THEN [rr EXCEPT !["SOA"] = VUpdate(@, nv, Data(S!Add(ValOf(old), 1)))]
                 ELSE rr
        /\ last' = [a |-> "CommitUpdateCurrent", bump |-> bump, bumped |-> doBump,
                    old |-> IF IsData(old) THEN ValOf(old) ELSE -1,
                    own |-> IsData(new) /\ new # old]
  /\ current' = nv /\ wst' = "mid"
  /\ UNCHANGED <<allv, held, nv>>
CommitPushVersion ==                \* ZoneVersions::push_version; writer dropped clean
  /\ wst = "mid"
  /\ allv' = Append(allv, nv)
  /\ wst' = "idle"
  /\ last' = [a |-> "CommitPushVersion"]
  /\ UNCHANGED <<current, held, rr, nv>>
Abandon ==                          \* drop(WriteZone) while dirty: ZoneApex::rollback(new_version)
  /\ wst = "open"
  /\ rr' = [t \in Types |-> VRollback(rr[t], nv)]
  /\ wst' = "idle"
  /\ last' = [a |-> "Abandon"]
  /\ UNCHANGED <<current, allv, held, nv>>

\* ZoneVersions::clean_versions
Dead == {v \in SeqSet(allv) : ~Alive(v)}
CleanResult == IF Dead = {} THEN -1 ELSE CHOOSE v \in Dead : \A u \in Dead : u <= v
Clean ==
  /\ allv' = SelectSeq(allv, Alive)
  /\ last' = [a |-> "Clean", out |-> CleanResult]
  /\ UNCHANGED <<current, held, rr, wst, nv>>

Next ==
  \/ \E r \in Readers : ReaderAcquire(r) \/ ReaderRelease(r)
  \/ Begin \/ CommitPushVersion \/ Abandon \/ Clean
  \/ \E b \in BOOLEAN : CommitUpdateCurrent(b)
  \/ \E x \in SoaVals : Update("SOA", x)
  \/ \E x \in TxtVals : Update("TXT", x)
  \/ \E t \in Types : RemoveRrset(t)

Spec == Init /\ [][Next]_vars

-----------------------------------------------------------------------------
TypeOK ==
  /\ current \in 0..MaxVer /\ nv \in 0..MaxVer
  /\ wst \in {"idle", "open", "mid"}
  /\ \A r \in Readers : held[r] \in -1..current
  \* versions of the entries of an RRset strictly increase, and only the
  \* open writer's version lies above `current`
  /\ \A t \in Types : \A i \in DOMAIN rr[t] :
       /\ i > 1 => rr[t][i - 1].v < rr[t][i].v
       /\ rr[t][i].v <= IF wst = "open" THEN nv ELSE current
  /\ \A i \in DOMAIN allv : i > 1 => allv[i - 1] < allv[i]

\* X03.4
HeldViewStable ==
  [][\A r \in Readers : (held[r] # -1 /\ held'[r] = held[r]) => ViewAt(held[r])' = ViewAt(held[r])]_vars
\* the same for what a NEW reader would get: only the commit step changes it
CurrentViewStable ==
  [][current' = current => ViewAt(current)' = ViewAt(current)]_vars

\* X03.5
CleanKeepsLive ==
  /\ wst # "mid" => current \in SeqSet(allv)
  \* (publish_new_zone_version takes versions.write() twice: between the two
  \* a reader can take the new current version before `all` lists it)
  /\ \A r \in Readers : held[r] # -1 => (held[r] \in SeqSet(allv) \/ (wst = "mid" /\ held[r] = current))
CleanExact ==
  [][last'.a = "Clean" =>
       /\ SeqSet(allv') = {v \in SeqSet(allv) : Alive(v)}
       /\ rr' = rr                                       \* no zone data is reclaimed
       /\ last'.out = -1 <=> SeqSet(allv') = SeqSet(allv)
       /\ last'.out # -1 => (last'.out \in SeqSet(allv) \ SeqSet(allv')
                             /\ \A v \in SeqSet(allv) \ SeqSet(allv') : v <= last'.out)]_vars
AfterCleanOnlyLive ==
  last.a = "Clean" => SeqSet(allv) \subseteq Live

\* X03.6
BumpLaw ==
  [][(last'.a = "CommitUpdateCurrent" /\ last'.bump /\ last'.old # -1) =>
       LET new == SerialAt(current)'
       IN /\ new # -1                                    \* a zone with a SOA stays one
          /\ ~last'.own => (new = S!Add(last'.old, 1) /\ S!Gt(new, last'.old))
          /\ last'.bumped <=> ~last'.own]_vars
NoBumpLaw ==        \* without the flag the commit publishes what the session wrote
  [][(last'.a = "CommitUpdateCurrent" /\ ~last'.bump) => rr' = rr]_vars

\* retention
EntriesBoundedByVersions == \A t \in Types : Len(rr[t]) <= (IF wst = "open" THEN nv ELSE current) + 1
RetentionBoundedByLive == \A t \in Types : Len(rr[t]) <= Cardinality(Live) + 1   \* does NOT hold
=============================================================================
