CONSTANTS
  Dev = {}
  MaxPush = 2
  Wide = FALSE
  Big = 300
SPECIFICATION Spec
INVARIANT Emit
CHECK_DEADLOCK FALSE
