CONSTANTS
  BITS = 7
  ERAS = 3
SPECIFICATION GenSpec
INVARIANT EmitText
CHECK_DEADLOCK FALSE
