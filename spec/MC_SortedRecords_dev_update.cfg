CONSTANTS
  Dev = {"D_update_data_in_place"}
  MaxOps = 2
SPECIFICATION Spec
INVARIANT Canonical
CHECK_DEADLOCK FALSE
