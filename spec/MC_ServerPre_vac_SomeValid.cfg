CONSTANTS
  Dev = {}
  Deltas <- DeltasQuick
  BadLens = {0, 4, 12, 41}
SPECIFICATION Spec
INVARIANT SomeValid
CHECK_DEADLOCK FALSE
