CONSTANTS
  Dev = {}
  Focus = "all"
  Thorough = FALSE
SPECIFICATION MCSpec
INVARIANT GridSane
INVARIANT MachineIsFunction
INVARIANT P1_NotifyGate
INVARIANT P2_Transparent
INVARIANT P3_XfrGate
INVARIANT P4_XfrShape
CHECK_DEADLOCK FALSE
