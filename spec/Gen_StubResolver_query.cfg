CONSTANTS
  Fam = "query"
  NSSet = {0, 1, 2, 3}
  SearchSet <- MCQ_SearchX
  NDotsSet = {1}
  DotsSet = {0}
  CallSet = {"query"}
  TooLongSet <- G_None
  ModeSet = {"mock"}
  UseVcSet = {FALSE}
  TcpOnlySet <- G_None
  TmoSet = {40, 500}
  Est = 30
  Outs = {"Data", "NX", "SF", "REF", "FE", "Err"}
  TcpOuts = {"Data"}
  Lats = {1, 50, 9999}
  FreshEvery = FALSE
  Dev = {}
SPECIFICATION GenSpec
INVARIANT Emit
CONSTRAINT GenPrune
CHECK_DEADLOCK FALSE
