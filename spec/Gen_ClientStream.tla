-------------------------- MODULE Gen_ClientStream --------------------------
(* S->I: behaviours of the macro-step semantics of ClientStream, one case  *)
(* per transition of the (abstracted) state graph: the path that led to    *)
(* the source state, then the operation, with the specification's          *)
(* projection (requests written, outcome per request, closed) after every  *)
(* operation, under the ideal semantics (exp) and under the known          *)
(* deviation (dev).                                                         *)
EXTENDS ClientStream, Json

CONSTANTS MaxQ, MaxId, KaVals, MaxOps, XQs, XfrIds, XfrAll, QVars

VARIABLES hist,    \* <<[op, proj, dproj]>>: the path so far
          dcur     \* the state record the code reaches under DevNames

gvars == <<vars, hist, dcur>>

Questions == 1..MaxQ
GFrames == AlphabetOf(0..MaxId, Questions, KaVals, QVars) \cup XfrAlphabetOf(XfrIds, XQs, IF XfrAll THEN XfrRecsAll ELSE XfrRecsFew)

OutJson(o) == IF o.why = "endmark" THEN [eof |-> TRUE]
              ELSE IF o.ok THEN [ok |-> o.f] ELSE [err |-> TRUE]
RECURSIVE MapOut(_)
MapOut(sq) == IF sq = <<>> THEN <<>> ELSE <<OutJson(Head(sq))>> \o MapOut(Tail(sq))

\* partial: a request is half written (the peer does not take octets)
Proj(s) == [out |-> s.out, done |-> [r \in Reqs |-> MapOut(s.done[r])],
            closed |-> s.closed, partial |-> s.reqmsg # <<>>]

OpJson(o) ==
  CASE o.op = "submit" -> [op |-> "submit", r |-> o.r, q |-> o.q]
    [] o.op = "peer"   -> [op |-> "peer", f |-> o.f]
    [] o.op = "end"    -> [op |-> "end", how |-> o.how]
    [] OTHER           -> [op |-> o.op]

GenInit == InitPred /\ hist = <<>> /\ dcur = InitStateDev(DevNames, sconf.sc)

GenNext ==
  /\ Len(hist) < MaxOps
  /\ \E o \in OpsOf(Cur, Questions \cup XQs, GFrames) :
       LET t == Apply(Cur, o)
           d == Apply(dcur, o)
       IN /\ Set(t)
          /\ dcur' = d
          /\ hist' = Append(hist, [op |-> o, proj |-> Proj(t), dproj |-> Proj(d)])

GenSpec == GenInit /\ [][GenNext]_gvars

Differs(h) == \E i \in 1..Len(h) : h[i].proj # h[i].dproj

CaseIn(h) == [kind |-> "stream",
              cfg |-> [conf |-> sconf.sc, nreq |-> MaxReq, tickms |-> TickMs],
              ops |-> [i \in 1..Len(h) |-> OpJson(h[i].op)]]

\* eff: what the getters of the configuration object say (carried by the
\* first projection only)
WithEff(pr, i) == IF i = 1 THEN [out |-> pr.out, done |-> pr.done, closed |-> pr.closed,
                                 partial |-> pr.partial, eff |-> sconf.eff]
                  ELSE pr
CaseOf(h) ==
  IF Differs(h)
  THEN ToJson([in |-> CaseIn(h), exp |-> [i \in 1..Len(h) |-> WithEff(h[i].proj, i)],
               dev |-> [D_stream_response_timeout_ignored |-> [i \in 1..Len(h) |-> WithEff(h[i].dproj, i)]]])
  ELSE ToJson([in |-> CaseIn(h), exp |-> [i \in 1..Len(h) |-> WithEff(h[i].proj, i)]])

\* evaluated on every transition TLC generates, also those into known states
EmitTransition == PrintT("CASE " \o CaseOf(hist'))

\* in simulation mode: one case per behaviour, at its end
EmitAtEnd == Len(hist') = MaxOps => PrintT("CASE " \o CaseOf(hist'))

DoneClass == [r \in Reqs |-> IF done[r] = <<>> THEN "none"
                             ELSE IF ~Finished(done[r]) THEN "parts"
                             ELSE IF done[r][Len(done[r])].ok THEN "ok" ELSE "err"]

\* the path, the deviant twin, what was written and which message exactly
\* was delivered do not influence what the transport does next
GenView == <<vec, count, curr, state, keepalive, idle, wfail, wstall, reqmsg, chan, peerOpen,
             handles, closed, asked, sent, DoneClass, nsub, nframes, sconf, tsel>>
=============================================================================
