---------------------------- MODULE SortedRecords ----------------------------
(* X07 - SortedRecords (src/dnssec/sign/records.rs) as an ordered-set        *)
(* machine, and the iterators sign_zone relies on.                           *)
(*                                                                           *)
(* Properties (for every sequence of public calls):                          *)
(*  S1 Canonical.  The content is always strictly ascending in the DNSSEC    *)
(*     canonical order (RFC 4034 6.1-6.3 with RRsets of one owner ordered by *)
(*     type, RFC 8976 3.3.1): sorted, and no two records with the same       *)
(*     owner (case-insensitively), class, type and RDATA (RFC 2181 5; the    *)
(*     TTL is not part of a record's identity).  This is what "is always     *)
(*     true for SortedRecords" in the documentation of sign_zone promises.   *)
(*  S2 SetSemantics.  The content is exactly what the operations denote:     *)
(*     insert adds an absent record and refuses a present one, handing it    *)
(*     back and changing nothing (not even the stored TTL or spelling);      *)
(*     extend / From<Vec> / collect add the absent ones (first occurrence    *)
(*     kept); remove_all removes every record of the owner [and type],       *)
(*     remove_first the first one; update_data replaces the data of the      *)
(*     first record matched.  Nothing else changes.                          *)
(*  S3 Groups.  owner_rrs() yields each owner exactly once with all its      *)
(*     records, rrsets() each (owner, type) exactly once with all its        *)
(*     records, both in canonical order; find_soa / find_apex_rtype / len /  *)
(*     is_empty / Deref agree with the content.                              *)
(*  S4 Total.  No call on a collection built through the public interface    *)
(*     panics; in particular sign_zone (which returns a Result and has an    *)
(*     error MultipleTtlValues) on a sorted unsigned zone in which the       *)
(*     records of one RRset carry different TTLs - insert / extend accept    *)
(*     such records.                                                         *)
(*                                                                           *)
(* A record is [n |-> owner as spelled, t |-> type, ttl |-> TTL,             *)
(* rd |-> RDATA octets]; class IN throughout.  The types used (A, TXT, NS    *)
(* with opaque data, SOA) have RDATA whose canonical form is the RDATA       *)
(* itself, so canonical RDATA order is LexCmp (C04 is about the per-type     *)
(* canonical forms).                                                         *)
EXTENDS Names, FiniteSets, TLC

CONSTANT Dev
DevNames == {"D_update_data_in_place", "D_remove_first_is_last", "D_mixed_ttl_panic"}

SX == INSTANCE SequencesExt
FoldL(op(_, _), base, seq) == SX!FoldLeft(op, base, seq)

T_SOA == 6  T_NS == 2

Rec(n, t, ttl, rd) == [n |-> n, t |-> t, ttl |-> ttl, rd |-> rd]

\* Record::canonical_cmp: class, owner (name_cmp), type, canonical RDATA
RecCmp(r, s) ==
  LET c == CanonNameCmp(r.n, s.n)
  IN IF c # 0 THEN c
     ELSE IF r.t # s.t THEN (IF r.t < s.t THEN -1 ELSE 1)
     ELSE LexCmp(r.rd, s.rd)
\* the same record in the sense of RFC 2181 5 (and Record's PartialEq)
Same(r, s) == RecCmp(r, s) = 0

--------------------------------------------------------------------------
(* Declarative side *)
IsCanonical(c) == \A i \in 1..(Len(c) - 1) : RecCmp(c[i], c[i + 1]) < 0
Range(c) == {c[i] : i \in 1..Len(c)}
Holds(c, r) == \E i \in 1..Len(c) : Same(c[i], r)
\* the sequence a set of pairwise different records denotes
SortSet(S) ==
  FoldL(LAMBDA acc, x :
          LET k == Cardinality({i \in 1..Len(acc) : RecCmp(acc[i], x) < 0})
          IN SubSeq(acc, 1, k) \o <<x>> \o SubSeq(acc, k + 1, Len(acc)),
        <<>>, SX!SetToSeq(S))
\* adding a batch to a set of records: the first occurrence of a record wins
AddAll(S, batch) ==
  FoldL(LAMBDA acc, r : IF \E x \in acc : Same(x, r) THEN acc ELSE acc \cup {r}, S, batch)
Matches(r, name, t) == NameEq(r.n, name) /\ (t = 0 \/ r.t = t)

--------------------------------------------------------------------------
(* The operations transcribed.  Each returns [coll, res].                  *)

\* insert(): binary_search_by(canonical_cmp); Ok(_) => Err(record),
\* Err(idx) => insert at idx
Insert(c, r) ==
  IF Holds(c, r) THEN [coll |-> c, res |-> [ok |-> FALSE, dup |-> <<r>>]]
  ELSE LET k == Cardinality({i \in 1..Len(c) : RecCmp(c[i], r) < 0})
       IN [coll |-> SubSeq(c, 1, k) \o <<r>> \o SubSeq(c, k + 1, Len(c)), res |-> [ok |-> TRUE, dup |-> <<>>]]

\* extend(): push everything, stable sort_by(canonical_cmp), dedup()
StableInsert(sorted, r) ==
  LET k == Cardinality({i \in 1..Len(sorted) : RecCmp(sorted[i], r) <= 0})
  IN SubSeq(sorted, 1, k) \o <<r>> \o SubSeq(sorted, k + 1, Len(sorted))
StableSort(s) == FoldL(StableInsert, <<>>, s)
Dedup(s) == FoldL(LAMBDA acc, r : IF acc # <<>> /\ Same(acc[Len(acc)], r) THEN acc ELSE Append(acc, r),
                  <<>>, s)
Extend(c, batch) == [coll |-> Dedup(StableSort(c \o batch)), res |-> "ok"]
FromVec(batch) == Extend(<<>>, batch)

\* remove_first_by_name_class_rtype(): binary search for *a* record of the
\* owner [and type]; the documentation says the first one is removed
MatchIdx(c, name, t) == {i \in 1..Len(c) : Matches(c[i], name, t)}
RemoveAt(c, i) == SubSeq(c, 1, i - 1) \o SubSeq(c, i + 1, Len(c))
Least(S) == CHOOSE x \in S : \A y \in S : x <= y
Greatest(S) == CHOOSE x \in S : \A y \in S : y <= x
RemoveFirstD(c, name, t, dev) ==
  LET m == MatchIdx(c, name, t)
  IN IF m = {} THEN [coll |-> c, res |-> FALSE]
     ELSE [coll |-> RemoveAt(c, IF "D_remove_first_is_last" \in dev THEN Greatest(m) ELSE Least(m)),
           res |-> TRUE]
RemoveFirst(c, name, t) == RemoveFirstD(c, name, t, Dev)
\* remove_all_...(): remove_first until it finds nothing
RemoveAll(c, name, t) ==
  [coll |-> SelectSeq(c, LAMBDA r : ~Matches(r, name, t)), res |-> MatchIdx(c, name, t) # {}]

\* update_data(matcher, new_data): the first record the matcher accepts gets
\* new record data.  "doesn't impact the sort order because the data is not
\* part of the sort key" - but it is: as built the record stays where it was.
\* The repaired method takes the record out and inserts it again.
FirstIdx(c, old) == LET m == {i \in 1..Len(c) : Same(c[i], old)} IN IF m = {} THEN 0 ELSE Least(m)
UpdateDataD(c, old, new, dev) ==       \* new: [t, rd]
  LET i == FirstIdx(c, old)
  IN IF i = 0 THEN [coll |-> c, res |-> "ok"]
     ELSE LET r == [c[i] EXCEPT !.t = new.t, !.rd = new.rd]
          IN IF "D_update_data_in_place" \in dev
             THEN [coll |-> [c EXCEPT ![i] = r], res |-> "ok"]
             ELSE [coll |-> Insert(RemoveAt(c, i), r).coll, res |-> "ok"]
UpdateData(c, old, new) == UpdateDataD(c, old, new, Dev)

--------------------------------------------------------------------------
(* Iteration (RecordsIter, RrsetIter, OwnerRrsIter), transcribed: maximal   *)
(* runs of records with the same owner / the same owner and type.           *)
Runs(c, sameRun(_, _)) ==
  FoldL(LAMBDA acc, r : IF acc # <<>> /\ sameRun(acc[Len(acc)][1], r)
                        THEN [acc EXCEPT ![Len(acc)] = Append(@, r)] ELSE Append(acc, <<r>>),
        <<>>, c)
OwnerGroups(c) == Runs(c, LAMBDA a, b : NameEq(a.n, b.n))
Rrsets(c) == Runs(c, LAMBDA a, b : NameEq(a.n, b.n) /\ a.t = b.t)
\* S3, declaratively: one group per owner / per (owner, type), complete
GroupsExact(c) ==
  LET g == OwnerGroups(c)
  IN /\ \A i, j \in 1..Len(g) : i # j => ~NameEq(g[i][1].n, g[j][1].n)
     /\ \A i \in 1..Len(g) : Range(g[i]) = {r \in Range(c) : NameEq(r.n, g[i][1].n)}
     /\ \A i \in 1..(Len(g) - 1) : CanonNameCmp(g[i][1].n, g[i + 1][1].n) < 0
RrsetsExact(c) ==
  LET g == Rrsets(c)
  IN /\ \A i, j \in 1..Len(g) : i # j => ~(NameEq(g[i][1].n, g[j][1].n) /\ g[i][1].t = g[j][1].t)
     /\ \A i \in 1..Len(g) : Range(g[i]) = {r \in Range(c) : NameEq(r.n, g[i][1].n) /\ r.t = g[i][1].t}
\* S4: Rrset::new() .expect("TTLs should be the same") under every iterator
MixedTtl(c) == \E i, j \in 1..Len(c) : NameEq(c[i].n, c[j].n) /\ c[i].t = c[j].t /\ c[i].ttl # c[j].ttl
IterPanics(c, dev) == MixedTtl(c) /\ "D_mixed_ttl_panic" \in dev
\* find_soa(): the first SOA RRset; find_apex_rtype(name, t)
FindSoa(c) == LET m == {i \in 1..Len(c) : c[i].t = T_SOA} IN IF m = {} THEN <<>> ELSE LowerName(c[Least(m)].n)
ApexCount(c, name, t) == Cardinality({i \in 1..Len(c) : NameEq(c[i].n, name) /\ c[i].t = t})
=============================================================================
