CONSTANTS
  Dev = {}
  NodeNames <- Nodes_small
  QNames <- QNames_small
  Types <- AllTypes
  QTypes <- QTypesAll
  Vals = {1, 2}
  ValsOf <- MCValsOf
  OpFamilies = {"W", "U", "M", "B"}
  Writers = {"w1"}
  Readers = {}
  MaxVer = 3
  MaxOps = 8
  MaxZf = 4
  NsTarget <- MCNsTarget
SPECIFICATION Spec
INVARIANT AnswersAgree
CHECK_DEADLOCK FALSE
