---------------------------- MODULE ZoneAbstract ----------------------------
(* What an authoritative zone must answer, written declaratively from      *)
(* RFC 1034 section 4.3.2 and RFC 4592 (plus RFC 4035 3.1.4.1 for DS at a   *)
(* cut and RFC 8482 for ANY).  No tree, no versions, no history: a zone is  *)
(* a SET OF RECORDS.                                                        *)
(*                                                                          *)
(* Names are RELATIVE to the apex: a sequence of labels, leftmost label     *)
(* first, the apex is <<>> (vocabulary of Names.tla).  A record is a triple *)
(* <<owner, type, value>>; an RRset is the set of records with the same     *)
(* owner and type.  TTLs are not modelled (one fixed TTL).                  *)
(*                                                                          *)
(* An answer is projected to what src/zonetree/answer.rs can express:       *)
(*   [rcode, aa, ans, auth, add]   (three sets of records; the owner of     *)
(* every `ans` record is the query name, as Answer::to_message writes it).  *)
(* Where the RFCs leave freedom the operator yields the SET of admissible   *)
(* answers.                                                                 *)
EXTENDS Names, FiniteSets

CONSTANT NsTarget(_)     \* NS value -> relative name of the name server (a
                         \* name that never exists in the zone = out of zone)

Apex == <<>>
AddrTypes == {"A", "AAAA"}    \* glue = the address RRsets (both families) of a name server

Rec(n, t, x) == <<n, t, x>>
OwnerOf(r) == r[1]
TypeOf(r) == r[2]
ValOf(r) == r[3]

At(C, n) == {r \in C : OwnerOf(r) = n}
RRset(C, n, t) == {r \in C : OwnerOf(r) = n /\ TypeOf(r) = t}
TypesAt(C, n) == {TypeOf(r) : r \in At(C, n)}
Owners(C) == {OwnerOf(r) : r \in C}

\* a name exists if it owns data or is an ancestor of a name that does
\* (empty non-terminal, RFC 4592 2.2.2); the apex always exists
NameExists(C, n) == n = Apex \/ \E m \in Owners(C) : IsSuffixOf(n, m)

\* delegation points: NS below the apex (RFC 1034 4.2.1)
Cuts(C) == {n \in Owners(C) : n # Apex /\ RRset(C, n, "NS") # {}}

\* ------------------------------------------------------------------ validity
\* The zones the property quantifies over.  Histories are generated so that
\* every version satisfies this; the implementation is not asked to check it.
ValidZone(C) ==
  /\ \A r \in C : TypeOf(r) = "SOA" => OwnerOf(r) = Apex
  /\ Cardinality(RRset(C, Apex, "SOA")) <= 1
  /\ RRset(C, Apex, "CNAME") = {} /\ RRset(C, Apex, "DS") = {}
  /\ \A n \in Owners(C) :
       /\ Cardinality(RRset(C, n, "CNAME")) <= 1
       /\ RRset(C, n, "CNAME") # {} => TypesAt(C, n) = {"CNAME"}
       /\ RRset(C, n, "DS") # {} => RRset(C, n, "NS") # {}
       /\ (n \in Cuts(C)) =>
            /\ TypesAt(C, n) \subseteq {"NS", "DS"} \cup AddrTypes
            /\ ~IsWildcard(n)
       \* strictly below a cut: only address records of that cut's servers
       /\ \A c \in Cuts(C) : StrictlyBelow(n, c) =>
            /\ TypesAt(C, n) \subseteq AddrTypes
            /\ \E ns \in RRset(C, c, "NS") : NsTarget(ValOf(ns)) = n

\* what a zone file may hold at ONE owner: a CNAME is alone and single
\* (RFC 1034 3.6.2), a delegation point holds delegation data and addresses
\* only (RFC 1034 4.2.1).  A record whose insertion would break this is not
\* admitted to the zone file (parsed::Zonefile::insert returns an error and the
\* file stays as it was); a record of another class never is.
OwnerOK(C, n) ==
  /\ Cardinality(RRset(C, n, "CNAME")) <= 1
  /\ RRset(C, n, "CNAME") # {} => TypesAt(C, n) = {"CNAME"}
  /\ (n # Apex /\ TypesAt(C, n) \cap {"NS", "DS"} # {}) =>
        TypesAt(C, n) \subseteq {"NS", "DS"} \cup AddrTypes
Admits(C, r) == OwnerOK(C \cup {r}, OwnerOf(r))

\* ------------------------------------------------- names as the API sees them
\* Callers hand over ABSOLUTE names (label sequences, leftmost first, root
\* label implicit) in whatever spelling they have.  Names compare ASCII-case-
\* insensitively (RFC 1034 3.1, RFC 4343): a name is inside the zone iff the
\* apex is a suffix of it in that sense, and then it denotes the relative name
\* left of the apex, lower-cased -- whatever the spelling of either.
Canon(n) == LowerName(n)
InZoneAbs(apex, full) == IsSuffixOf(apex, full)
RelOf(apex, full) == Canon(SubSeq(full, 1, Len(full) - Len(apex)))
OutOfZone == [out_of_zone |-> TRUE]     \* ReadableZone::query: Err(OutOfZone)
\* what a server that finds no zone for the name answers (Answer::refused)
Refused == [rcode |-> "REFUSED", aa |-> FALSE, ans |-> {}, auth |-> {}, add |-> {}]

\* ------------------------------------------------------------------- answers
Soa(C) == RRset(C, Apex, "SOA")

Data(qn, rs) ==
  [rcode |-> "NOERROR", aa |-> TRUE, ans |-> {Rec(qn, TypeOf(r), ValOf(r)) : r \in rs},
   auth |-> {}, add |-> {}]
NoData(C) ==
  [rcode |-> "NOERROR", aa |-> TRUE, ans |-> {}, auth |-> Soa(C), add |-> {}]
NxDomain(C) ==
  [rcode |-> "NXDOMAIN", aa |-> TRUE, ans |-> {}, auth |-> Soa(C), add |-> {}]
Referral(c, ns, ds, glue) ==
  [rcode |-> "NOERROR", aa |-> FALSE, ans |-> {}, auth |-> ns \cup ds, add |-> glue]

\* addresses of the cut's name servers that the zone holds; those at or
\* below the cut are reachable no other way and must be given (RFC 9471),
\* the others may be given (RFC 1034 4.3.2 step 3b "whatever addresses are
\* available")
AvailGlue(C, c) ==
  {r \in C : TypeOf(r) \in AddrTypes /\ \E ns \in RRset(C, c, "NS") : NsTarget(ValOf(ns)) = OwnerOf(r)}
RequiredGlue(C, c) == {r \in AvailGlue(C, c) : IsSuffixOf(c, OwnerOf(r))}

Referrals(C, c) ==
  {Referral(c, RRset(C, c, "NS"), RRset(C, c, "DS"), RequiredGlue(C, c) \cup G) :
     G \in SUBSET (AvailGlue(C, c) \ RequiredGlue(C, c))}

\* the answer for the node `n` when the query name `qn` is matched by it
\* (n = qn, or n the wildcard that synthesises qn: RFC 4592 3.3.1 -- the
\* owner of synthesised records is the query name)
AtName(C, n, qn, qt) ==
  IF RRset(C, n, "CNAME") # {} THEN
     \* RFC 1034 4.3.2 3a: CNAME at the node.  For QTYPE CNAME/ANY the
     \* record is the data itself; the projection is the same.
     {Data(qn, RRset(C, n, "CNAME"))}
  ELSE IF qt = "ANY" THEN
     IF At(C, n) = {} THEN {NoData(C)}
     ELSE \* RFC 8482 4.1: one or a larger subset of the RRsets at the name
          {Data(qn, UNION {RRset(C, n, t) : t \in T}) : T \in (SUBSET TypesAt(C, n)) \ {{}}}
  ELSE IF RRset(C, n, qt) # {} THEN {Data(qn, RRset(C, n, qt))}
  ELSE {NoData(C)}

\* longest existing ancestor of a name that does not exist
ClosestEncloser(C, qn) ==
  LET ks == {k \in 0..Len(qn) : NameExists(C, Suffix(qn, k))}
      k == CHOOSE x \in ks : \A y \in ks : y <= x
  IN Suffix(qn, k)

Answer(C, qn, qt) ==
  LET onPath == {c \in Cuts(C) : IsSuffixOf(c, qn)}
  IN IF onPath # {} THEN
       \* the highest cut wins: everything at and below it is not ours
       LET c == CHOOSE x \in onPath : \A y \in onPath : Len(x) <= Len(y)
       IN IF qn = c /\ qt = "DS" THEN
            \* RFC 4035 3.1.4.1: DS lives on the parent side of the cut
            IF RRset(C, c, "DS") # {} THEN {Data(qn, RRset(C, c, "DS"))} ELSE {NoData(C)}
          ELSE Referrals(C, c)
     ELSE IF NameExists(C, qn) THEN AtName(C, qn, qn, qt)
     ELSE LET w == WildcardAt(ClosestEncloser(C, qn))
          IN IF NameExists(C, w) THEN AtName(C, w, qn, qt)   \* RFC 4592 3.3.1
             ELSE {NxDomain(C)}

\* the answer for a query name as the API receives it: spelled, absolute.
\* (Owner names in answers are compared case-insensitively by the bindings.)
AnswerAbs(C, apex, full, qt) ==
  IF InZoneAbs(apex, full)
  THEN UNION {Answer(C, rel, qt) : rel \in {RelOf(apex, full)}}    \* (binds the VALUE of the name)
  ELSE {OutOfZone}
=============================================================================
