CONSTANTS
  Dev = {"D_plus_sign", "D_rcode_fromstr", "D_nsap_ptr_mnemonic", "D_tsig_notimpl_mnemonic", "D_new_lowercase_subset"}
  MaxTail = 4
  SmallTail = 3
  TailTypes = {"Rtype", "SecurityAlgorithm"}
  FullTypes = {"Rtype", "Class", "SvcParamKey", "ExtendedErrorCode", "OptionCode", "TsigRcode", "RType", "RClass"}
  Emitting = TRUE
SPECIFICATION Spec
INVARIANT Emit
INVARIANT DevRows
INVARIANT CodeLaws
INVARIANT TextLaws
CHECK_DEADLOCK FALSE
