CONSTANTS
  Dev = {}
  CSizes = {70000, 0, 512, 1232, 4096}
  Hints = {70000, 512, 1232, 4096}
  Lens = {100, 513, 1233, 5000}
  OptLens = {0, 11}
  ROpts = {"none"}
  Recipes = {"plain", "rewind", "filllimit"}
  Routes = {"mk"}
  ALays = {"none"}
  Tgts = {"vec"}
  SvcRoutes = {"impl"}
  EOns = {TRUE}
  QLens = {17}
SPECIFICATION Spec
INVARIANT EmitSock
CHECK_DEADLOCK FALSE
