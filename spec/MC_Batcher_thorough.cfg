CONSTANTS
  Sizes = {1, 2, 3, 4, 5, 7, 9}
  Hs = {0, 2}
  Ls = {5, 6, 8, 9}
  RRs = {0, 1, 2, 3}
  MaxLen = 6
SPECIFICATION MCSpec
INVARIANT B1_ExactlyOnceInOrder
INVARIANT B2_Bounded
INVARIANT B3_GreedyAtEnd
INVARIANT B5_MustFit
INVARIANT FnAgrees
INVARIANT FnAgreesNext
PROPERTY GreedyStep
PROPERTY Overlong
CHECK_DEADLOCK FALSE
