CONSTANTS
  Dev = {}
  Mut = {}
  Names = {"a.example"}
  Types = {"A"}
  Cases = {0}
  AdVals = {FALSE}
  CdVals = {FALSE}
  DoVals = {FALSE, TRUE}
  RdVals = {TRUE}
  WithBypass = FALSE
  Classes <- AllClasses
  TtlVecs <- TV_Long
  AdBits = {TRUE}
  Ticks = {4000, 61000, 121000, 241000}
  Configs <- CfgsAll
  MaxSteps = 3
SPECIFICATION GSpec
INVARIANT Emit
INVARIANT GProp
CHECK_DEADLOCK FALSE
