-------------------------- MODULE MC_ValidatorConc --------------------------
(* Model-checking wrapper for ValidatorConc.tla (X13).                      *)
EXTENDS ValidatorConc, IOUtils

\* the deviations listed as open (passed by the check through the environment)
EnvDev == {d \in DevNames : d \in DOMAIN IOEnv}
AllKinds == {"Short", "Expire", "BadSig", "Empty", "AdvKey", "Forge"}
=============================================================================
