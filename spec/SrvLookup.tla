----------------------------- MODULE SrvLookup -----------------------------
(* X09 -- locating a service with SRV records: domain::resolv::lookup::srv  *)
(* (lookup_srv, FoundSrvs::{new, merge, into_srvs, into_stream},            *)
(* SrvItem::resolve) against RFC 2782 "Usage rules" and "Weight".           *)
(*                                                                          *)
(* Properties (stated by the builder; for every answer a resolver may give, *)
(* every additional section, every outcome of the follow-up host lookups    *)
(* and every sequence of random draws):                                     *)
(*  P1a  exactly-once: the targets handed out are exactly the SRV records   *)
(*       of the answer that are owned by the canonical name (class IN),     *)
(*       each once; NEVER a target of lower priority (higher number) before *)
(*       one of higher priority;                                            *)
(*  P1b  weighted selection: inside one priority the next target is chosen  *)
(*       by the RFC 2782 procedure: with the unordered records arranged     *)
(*       (weight 0 first) and W their weight sum, a draw r in 0..W selects  *)
(*       the first record whose running sum is >= r.  Hence a record of     *)
(*       weight w is selected by w or w+1 of the W+1 draws, a record of     *)
(*       weight 0 by at most one, an already ordered record by none, and    *)
(*       the procedure never fails (no draw without selection, no           *)
(*       arithmetic fault);                                                 *)
(*  P1c  "." alone means the service is decidedly not available (None);     *)
(*       no SRV record at all (NODATA/NXDOMAIN) means: the bare host with   *)
(*       the fallback port -- and ONLY then;                                *)
(*  P1d  a target is looked up (A and AAAA) ONLY IF the additional section  *)
(*       of the SRV answer holds no address record for it; otherwise        *)
(*       exactly the addresses of the additional section are used, and the  *)
(*       port of its SRV record is attached to every address;               *)
(*  P1e  merge(a, b) holds exactly the items of a and b and satisfies P1a.  *)
(*                                                                          *)
(* The module is pure (like BaseN.tla): a machine state is a record, every  *)
(* action is an enabling predicate plus a next-state operator; the model-   *)
(* checking wrapper MC_SrvLookup turns them into TLA+ actions, the trace    *)
(* validator Trace_Lookup reuses them on recorded runs.                     *)
(*                                                                          *)
(* Named deviation (code as of today, see known_findings.json):             *)
(*  D_srv_weight_rescan  reorder_by_weight scans the running sum from the   *)
(*       first record of the priority group instead of from the first       *)
(*       unordered one: already ordered records are selected again (and     *)
(*       swapped back out of their place), their weight is subtracted from  *)
(*       the remaining sum a second time -- u32 underflow (panic in builds  *)
(*       with overflow checks, a wrapped sum and a distribution that        *)
(*       favours LIGHT records otherwise).                                  *)
EXTENDS Integers, Sequences, FiniteSets, TLC

CONSTANT Dev

Rescan == "D_srv_weight_rescan" \in Dev

--------------------------------------------------------------------------
(* The world: what the scripted resolver will say.                          *)
(*  rec   [p, w, port, t, own]  own: 1 owned by the canonical name, IN;     *)
(*                                   0 other owner; 2 canonical owner, CH   *)
(*  addl  [t, f, k]             an address record (f = 4 | 6) owned by      *)
(*                              target t in the additional section          *)
(*  hosts [a, aaaa]             outcome of the host lookup of any target:   *)
(*                              "Data" | "NoData" | "Err"                   *)
(* Targets: 0 is the root ".", 9 the bare host the service was asked for.   *)

Usable(recs) == SelectSeq(recs, LAMBDA r : r.own = 1)

\* addresses as <<src, target, family, index>>; src 0 additional, 1 host lookup
AddlAddrs(addl, t) ==
  LET m == SelectSeq(addl, LAMBDA a : a.t = t)
  IN [i \in 1..Len(m) |-> <<0, t, m[i].f, m[i].k>>]

HostAddrs(hosts, t) ==       \* lookup_host: AAAA answers first, then A
  (IF hosts.aaaa = "Data" THEN << <<1, t, 6, 1>> >> ELSE <<>>) \o
  (IF hosts.a = "Data" THEN << <<1, t, 4, 1>> >> ELSE <<>>)
HostFails(hosts) == hosts.a = "Err" /\ hosts.aaaa = "Err"

Item(r, res) == [p |-> r.p, w |-> r.w, port |-> r.port, t |-> r.t, res |-> res]

--------------------------------------------------------------------------
(* Sorting: stable by (priority, weight) -- `sort_by_key` is stable.        *)

Before(x, y) == x.p < y.p \/ (x.p = y.p /\ x.w <= y.w)
RECURSIVE InsertSorted(_, _)
InsertSorted(s, x) ==        \* after every element that is Before-or-equal
  IF s = <<>> THEN <<x>>
  ELSE IF Before(Head(s), x) THEN <<Head(s)>> \o InsertSorted(Tail(s), x)
  ELSE <<x>> \o s
RECURSIVE SortPW(_)
SortPW(s) == IF s = <<>> THEN <<>> ELSE InsertSorted(SortPW(SubSeq(s, 1, Len(s) - 1)), s[Len(s)])

RECURSIVE SumW(_)
SumW(s) == IF s = <<>> THEN 0 ELSE Head(s).w + SumW(Tail(s))

\* end of the priority group starting at index g
RECURSIVE GroupEnd(_, _)
GroupEnd(arr, g) == IF g < Len(arr) /\ arr[g + 1].p = arr[g].p THEN GroupEnd(arr, g + 1) ELSE g

PrioOrdered(arr) == \A i \in 1..Len(arr) - 1 : arr[i].p <= arr[i + 1].p

\* multiset equality of two sequences
Count(s, x) == Cardinality({i \in 1..Len(s) : s[i] = x})
SameBag(s, t) == Len(s) = Len(t) /\ \A i \in 1..Len(s) : Count(s, s[i]) = Count(t, s[i])

--------------------------------------------------------------------------
(* RFC 2782 selection.  `rem` is the arrangement of the unordered records   *)
(* (a sequence), r the draw.                                                *)

RECURSIVE FirstReaching(_, _, _, _)
FirstReaching(s, r, j, acc) ==      \* least j with running sum >= r; 0 if none
  IF j > Len(s) THEN 0
  ELSE IF acc + s[j].w >= r THEN j
  ELSE FirstReaching(s, r, j + 1, acc + s[j].w)
SelectIdx(rem, r) == FirstReaching(rem, r, 1, 0)

ZeroFirst(s) == \A i, j \in 1..Len(s) : (s[i].w > 0 /\ s[j].w = 0) => j < i

Perms(n) == {f \in [1..n -> 1..n] : \A i, j \in 1..n : i # j => f[i] # f[j]}
Arrangements(rem) ==        \* "in any order, except that all those with weight 0 are placed at the beginning"
  {a \in {[i \in 1..Len(rem) |-> rem[f[i]]] : f \in Perms(Len(rem))} : ZeroFirst(a)}

RemoveAt(s, j) == SubSeq(s, 1, j - 1) \o SubSeq(s, j + 1, Len(s))
Swap(s, i, j) == [k \in 1..Len(s) |-> IF k = i THEN s[j] ELSE IF k = j THEN s[i] ELSE s[k]]

--------------------------------------------------------------------------
(* The machine.  State record:                                              *)
(*   ph     "start" | "records" | "additional" | "sort" | "pick" | "stream"  *)
(*          | "done" | "panic"                                              *)
(*   asked  questions put to the resolver so far, <<name, type>>            *)
(*   arr    the items (FoundSrvs.items)                                     *)
(*   gs, ge, i, ws   reorder_items / reorder_by_weight: group, position,    *)
(*          remaining weight sum                                            *)
(*   out    "" | "err" | "none" | "found" | "fallback"                      *)
(*   k      stream position; yielded: results of SrvItem::resolve           *)

InitState == [ph |-> "start", asked |-> <<>>, arr |-> <<>>, gs |-> 1, ge |-> 0, i |-> 1,
              ws |-> 0, out |-> "", k |-> 1, yielded |-> <<>>]

\* lookup_srv: one SRV question for service.name
Query(W, s) ==
  [s EXCEPT !.asked = <<<<"svc", "SRV">>>>,
            !.ph = IF W.srv = "err" THEN "done" ELSE "records",
            !.out = IF W.srv = "err" THEN "err" ELSE ""]

\* FoundSrvs::new / process_records
Records(W, s) ==
  LET u == Usable(W.recs)
  IN IF u = <<>>
     THEN [s EXCEPT !.arr = <<Item([p |-> 0, w |-> 0, port |-> W.port, t |-> 9], <<>>)>>,
                    !.out = "fallback", !.ph = "stream"]
     ELSE IF Len(u) = 1 /\ u[1].t = 0
     THEN [s EXCEPT !.out = "none", !.ph = "done"]
     ELSE [s EXCEPT !.arr = [j \in 1..Len(u) |-> Item(u[j], <<>>)], !.ph = "additional"]

\* process_additional
Additional(W, s) ==
  [s EXCEPT !.arr = [j \in 1..Len(s.arr) |-> [s.arr[j] EXCEPT !.res = AddlAddrs(W.addl, s.arr[j].t)]],
            !.ph = "sort"]

\* reorder_items: sort, then first group
EnterGroup(s, arr, g) ==
  IF g > Len(arr) THEN [s EXCEPT !.arr = arr, !.ph = "stream", !.out = "found"]
  ELSE LET e == GroupEnd(arr, g)
       IN [s EXCEPT !.arr = arr, !.ph = "pick", !.gs = g, !.ge = e, !.i = g,
                    !.ws = SumW(SubSeq(arr, g, e))]
Sort(s) == EnterGroup(s, SortPW(s.arr), 1)

\* one round of the weighted selection inside the group gs..ge, position i.
\* Ideal (RFC 2782): any arrangement `a` of the unordered records with the
\* weight-0 records first, a draw r in 0..ws.
PickEnabled(s, a, r) ==
  /\ s.ph = "pick"
  /\ r \in 0..s.ws
  /\ IF Rescan THEN a = SubSeq(s.arr, s.gs, s.ge)
     ELSE a \in Arrangements(SubSeq(s.arr, s.i, s.ge))

AfterPick(s, arr, ws) ==
  IF s.i = s.ge THEN EnterGroup(s, arr, s.ge + 1)
  ELSE [s EXCEPT !.arr = arr, !.i = s.i + 1, !.ws = ws]

Pick(s, a, r) ==
  IF Rescan
  THEN \* the code today: running sum over the WHOLE group, swap(i, j)
       LET j == SelectIdx(a, r)
       IN IF j = 0 THEN AfterPick(s, s.arr, s.ws)                        \* no swap
          ELSE IF a[j].w > s.ws THEN [s EXCEPT !.ph = "panic"]           \* u32 underflow
          ELSE AfterPick(s, Swap(s.arr, s.i, s.gs + j - 1), s.ws - a[j].w)
  ELSE LET j == SelectIdx(a, r)
       IN AfterPick(s, SubSeq(s.arr, 1, s.i - 1) \o <<a[j]>> \o RemoveAt(a, j) \o
                       SubSeq(s.arr, s.ge + 1, Len(s.arr)),
                    s.ws - a[j].w)

\* FoundSrvs::into_stream, one item: SrvItem::resolve
StreamNext(W, s) ==
  LET it == s.arr[s.k]
      viaAddl == it.res # <<>>
      h == W.hosts
      y == IF viaAddl THEN [t |-> it.t, port |-> it.port, kind |-> "addl", addrs |-> it.res]
           ELSE IF HostFails(h) THEN [t |-> it.t, port |-> it.port, kind |-> "err", addrs |-> <<>>]
           ELSE [t |-> it.t, port |-> it.port, kind |-> "host", addrs |-> HostAddrs(h, it.t)]
  IN [s EXCEPT !.asked = IF viaAddl THEN @ ELSE @ \o <<<<it.t, "A">>, <<it.t, "AAAA">>>>,
               !.yielded = Append(@, y),
               !.k = @ + 1,
               !.ph = IF s.k = Len(s.arr) THEN "done" ELSE "stream"]

--------------------------------------------------------------------------
(* Properties of a state (W the world).                                     *)

\* P1b on the state: how many of the ws+1 draws select record x of arrangement a
DrawsFor(a, ws, x) == Cardinality({r \in 0..ws : SelectIdx(a, r) = x})

ProportionLaw(s) ==
  s.ph = "pick" =>
    LET arrs == IF Rescan THEN {SubSeq(s.arr, s.gs, s.ge)}
                ELSE Arrangements(SubSeq(s.arr, s.i, s.ge))
        \* index (in the arrangement) of the first unordered record
        first == IF Rescan THEN s.i - s.gs + 1 ELSE 1
    IN \A a \in arrs :
         /\ \A x \in 1..Len(a) :
              IF x < first THEN DrawsFor(a, s.ws, x) = 0                 \* ordered records are out
              ELSE IF a[x].w = 0 THEN DrawsFor(a, s.ws, x) <= 1
              ELSE DrawsFor(a, s.ws, x) \in {a[x].w, a[x].w + 1}
         /\ \A r \in 0..s.ws : SelectIdx(a, r) # 0                        \* every draw selects

\* "in any order": every unordered record can be the next one (so, by induction,
\* the machine reaches every priority-respecting permutation)
AllSelectable(s) ==
  (s.ph = "pick" /\ ~Rescan) =>
    \A x \in s.i..s.ge :
      \E a \in Arrangements(SubSeq(s.arr, s.i, s.ge)) : \E r \in 0..s.ws : a[SelectIdx(a, r)] = s.arr[x]

SumIsRemaining(s) == s.ph = "pick" => s.ws = SumW(SubSeq(s.arr, s.i, s.ge))
NoPanic(s) == s.ph # "panic"

ItemsOf(W) == LET u == Usable(W.recs) IN [j \in 1..Len(u) |-> [p |-> u[j].p, w |-> u[j].w, port |-> u[j].port, t |-> u[j].t]]
Bare(arr) == [j \in 1..Len(arr) |-> [p |-> arr[j].p, w |-> arr[j].w, port |-> arr[j].port, t |-> arr[j].t]]

ExactlyOnce(W, s) ==
  (s.ph \in {"pick", "stream", "done"} /\ s.out \in {"found", ""} /\ s.arr # <<>>) => SameBag(Bare(s.arr), ItemsOf(W))
PriorityOrder(W, s) == s.ph \in {"stream", "done"} => PrioOrdered(s.arr)

Verdict(W, s) ==
  s.ph \in {"stream", "done"} =>
    LET u == Usable(W.recs) IN
    /\ (s.out = "err") = (W.srv = "err")
    /\ W.srv # "err" =>
         /\ (s.out = "fallback") = (u = <<>>)
         /\ (s.out = "none") = (Len(u) = 1 /\ u[1].t = 0)
         /\ s.out = "fallback" => Bare(s.arr) = <<[p |-> 0, w |-> 0, port |-> W.port, t |-> 9]>>

\* P1d: looked up only if the additional section has nothing; ports attached
LookupOnlyIfNeeded(W, s) ==
  \A j \in 1..Len(s.yielded) :
    LET y == s.yielded[j] IN
    /\ (y.kind = "addl") = (s.out = "found" /\ AddlAddrs(W.addl, y.t) # <<>>)
    /\ y.kind = "addl" => y.addrs = AddlAddrs(W.addl, y.t)
    /\ y.kind = "host" => y.addrs = HostAddrs(W.hosts, y.t)
    /\ y.port = s.arr[j].port /\ y.t = s.arr[j].t

\* the questions asked are: the SRV question, then A and AAAA for exactly the
\* yielded items that were not resolved by the additional section, in order
RECURSIVE ExpectedQs(_, _)
ExpectedQs(ys, j) ==
  IF j > Len(ys) THEN <<>>
  ELSE (IF ys[j].kind = "addl" THEN <<>> ELSE <<<<ys[j].t, "A">>, <<ys[j].t, "AAAA">>>>) \o ExpectedQs(ys, j + 1)
QuestionsAsked(s) == s.ph # "start" => s.asked = <<<<"svc", "SRV">>>> \o ExpectedQs(s.yielded, 1)

--------------------------------------------------------------------------
(* Declarative oracle for recorded / replayed runs (no draws visible):      *)
(* `order` is the sequence of items handed out for the world W.             *)

AdmittedOrder(W, order) ==
  /\ SameBag(order, ItemsOf(W))
  /\ PrioOrdered(order)

\* merge(a, b): the bag union, priority ordered
AdmittedMerge(a, b, m) == SameBag(m, a \o b) /\ PrioOrdered(m)

\* can today's code run into the underflow for a priority group with these
\* weights (given sorted ascending, as the code has them)?  Exhaustive over
\* the draws.
RECURSIVE RescanCanPanic(_, _, _)
RescanCanPanic(ws, i, rem) ==     \* ws: weights in array order, i: position, rem: remaining sum
  IF i > Len(ws) THEN FALSE
  ELSE \E r \in 0..rem :
         LET RECURSIVE F(_, _)
             F(j, acc) == IF j > Len(ws) THEN 0 ELSE IF acc + ws[j] >= r THEN j ELSE F(j + 1, acc + ws[j])
             j == F(1, 0)
         IN IF j = 0 THEN RescanCanPanic(ws, i + 1, rem)
            ELSE IF ws[j] > rem THEN TRUE
            ELSE RescanCanPanic([k \in 1..Len(ws) |-> IF k = i THEN ws[j] ELSE IF k = j THEN ws[i] ELSE ws[k]],
                                i + 1, rem - ws[j])
RECURSIVE SumInts(_)
SumInts(s) == IF s = <<>> THEN 0 ELSE Head(s) + SumInts(Tail(s))
GroupCanPanic(weightsSorted) == RescanCanPanic(weightsSorted, 1, SumInts(weightsSorted))

\* RFC bounds on the probability of a complete order of ONE priority group
\* (weights by record, order = sequence of record indexes): the product over
\* the rounds of [w, w+1] / (W_remaining + 1) (weight 0: [0, 1]).
RECURSIVE OrderBounds(_, _, _)
OrderBounds(ws, order, j) ==       \* -> <<lo numerator, hi numerator, denominator>>
  IF j >= Len(order) THEN <<1, 1, 1>>         \* the last record is certain
  ELSE LET rem == SumInts([q \in 1..(Len(order) - j + 1) |-> ws[order[j + q - 1]]])
           w == ws[order[j]]
           rest == OrderBounds(ws, order, j + 1)
       IN <<w * rest[1], (w + 1) * rest[2], (rem + 1) * rest[3]>>
=============================================================================
