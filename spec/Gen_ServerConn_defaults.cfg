CONSTANTS
  Dev = {}
  Mode = "conn"
  NConn = 1
  MaxReq = 3
  QCapG = 10
  Kinds = {"single", "stream2", "fail", "txn"}
  MaxOps = 0
  MaxCredit = 5
  MaxTick = 3
  Limit = 100
  AAM = TRUE
  WithSReconf = FALSE
  Defaults = TRUE
SPECIFICATION Spec
INVARIANT EmitDirected
CHECK_DEADLOCK FALSE
