CONSTANTS
  Dev = {}
  MaxStr = 2
SPECIFICATION Spec
INVARIANT Emit
CHECK_DEADLOCK FALSE
