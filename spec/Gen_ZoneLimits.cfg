\* model checking and case generation in one run
CONSTANTS
  Dev = {}
SPECIFICATION Spec
INVARIANT SpellingIrrelevant
INVARIANT Emit
CHECK_DEADLOCK FALSE
