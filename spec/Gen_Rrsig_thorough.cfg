CONSTANTS
  Dev = {}
  MaxT = 2
  AltDepth = 1
  Thorough = TRUE
SPECIFICATION Spec
INVARIANT Emit
INVARIANT EmitKeys
CHECK_DEADLOCK FALSE
