---------------------------- MODULE KeyMaterial ----------------------------
(* X12 - DNSSEC key material: DNSKEY flags and key tags, DS digest input,  *)
(* BIND key files (private and public), key pairs, trust anchors.          *)
(*                                                                         *)
(* Properties (each for all inputs / all histories):                       *)
(*  P1 key tag.  Dnskey::key_tag is the RFC 4034 Appendix B function of    *)
(*     the DNSKEY RDATA (B.1 for algorithm 1), for every flags x protocol  *)
(*     x algorithm x key; setting REVOKE (RFC 5011) moves the tag by 128   *)
(*     or 129 mod 2^16; a SigningKey reports the flags and tag of the      *)
(*     DNSKEY record it produces.                                          *)
(*  P2 DS.  The digest covers lower-cased owner wire | flags | protocol |  *)
(*     algorithm | key (RFC 4034 5.1.4): a DS made for a key matches that  *)
(*     key under every spelling of the owner, and never a key that differs *)
(*     in the owner (other than case) or any RDATA field.                  *)
(*  P3 key files.  Reading is total; a private key file is accepted        *)
(*     exactly when it follows the grammar documented at SecretKeyBytes    *)
(*     (format line v1.x x>=2, algorithm line with matching number and     *)
(*     name, then entries; PrivateKey of the algorithm's length, or the    *)
(*     eight RSA fields once each), a public key file exactly when it      *)
(*     holds one DNSKEY record line among blank and comment lines;         *)
(*     Read(Write(k)) = k; the result depends on the logical content only  *)
(*     (line ends, surrounding blanks); a key pair is made only from a     *)
(*     secret and a DNSKEY that belong together, and then reports exactly  *)
(*     that DNSKEY.                                                        *)
(*  P4 flag bits.  is_zone_key / is_revoked / is_secure_entry_point read   *)
(*     bits 7 / 8 / 15 (RFC numbering, bit 0 = most significant) for all   *)
(*     65536 flag words.                                                   *)
(*  P5 trust anchors.  Records added accumulate per owner (case-           *)
(*     insensitive), at most one anchor per owner; the anchor used for a   *)
(*     name is the one with the longest owner at or above the name, none   *)
(*     if there is none; every entry point accepts the same anchor text.   *)
(*                                                                         *)
(* Cryptography is symbolic: digests are free terms evaluated by the       *)
(* harness, secrets are tokens ("key" = the octets of the real secret).    *)
EXTENDS Names, FiniteSets, TLC

CONSTANT Dev          \* named deviations switched on (DESIGN 2.6)

DevNames == {"D_signingkey_flags_detached", "D_frombytes_alg_unchecked",
             "D_pkey_rest_unparsed", "D_pubkey_trailing_blank",
             "D_anchor_reader_strict"}

Err == [err |-> TRUE]

--------------------------------------------------------------------------
(* 1. Flags (RFC 4034 2.1.1, RFC 5011 3) and key tag (RFC 4034 App. B)     *)

\* RFC bit numbering: bit 0 is the most significant bit of the 16-bit word
FlagBit(f, n) == (f \div (2 ^ (15 - n))) % 2
IsZoneKey(f)  == FlagBit(f, 7) = 1
IsRevoked(f)  == FlagBit(f, 8) = 1
IsSep(f)      == FlagBit(f, 15) = 1
\* transcription of the masks in src/rdata/dnssec.rs and signingkey.rs
ImplZoneKey(f) == (f \div 256) % 2 = 1        \* & 0x0100 / & (1 << 8)
ImplRevoked(f) == (f \div 128) % 2 = 1        \* & 0x0080 / & (1 << 7)
ImplSep(f)     == f % 2 = 1                   \* & 0x0001

\* a key: [flags, proto, alg, pub]
DnskeyRdata(k) == EncU16(k.flags) \o <<k.proto, k.alg>> \o k.pub

\* Appendix B: "ac += (i & 1) ? key[i] : key[i] << 8" over the RDATA (0-based
\* i; here 1-based), then fold the carry once
RECURSIVE AppBAcc(_, _)
AppBAcc(rd, i) ==
  IF i > Len(rd) THEN 0
  ELSE (IF i % 2 = 1 THEN rd[i] * 256 ELSE rd[i]) + AppBAcc(rd, i + 1)
Fold(ac) == (ac + ((ac \div 65536) % 65536)) % 65536
KeyTagB1(pub) == LET n == Len(pub)
                 IN IF n >= 3 THEN pub[n - 2] * 256 + pub[n - 1] ELSE 0
KeyTag(k) == IF k.alg = 1 THEN KeyTagB1(k.pub)
             ELSE Fold(AppBAcc(DnskeyRdata(k), 1))

\* transcription of Dnskey::key_tag: the flags word, protocol << 8 and the
\* algorithm are added first, then the key octets alternately << 8 / as is
ImplKeyTag(k) ==
  IF k.alg = 1 THEN KeyTagB1(k.pub)
  ELSE Fold(k.flags + k.proto * 256 + k.alg + AppBAcc(k.pub, 1))

SetRevoke(f) == IF IsRevoked(f) THEN f ELSE f + 128

\* laws (checked by TLC over the configured keys)
TagAgree(k)   == ImplKeyTag(k) = KeyTag(k) /\ KeyTag(k) \in 0..65535
RevokeLaw(k)  ==          \* RFC 5011: REVOKE changes the tag, by 128 (+ carry)
  (k.alg # 1 /\ ~IsRevoked(k.flags)) =>
     LET t == KeyTag(k)
         r == KeyTag([k EXCEPT !.flags = SetRevoke(k.flags)])
     IN r \in {(t + 128) % 65536, (t + 129) % 65536}
B1IgnoresHeader(k, f) ==  \* algorithm 1: the tag is a function of the key alone
  k.alg = 1 => KeyTag([k EXCEPT !.flags = f]) = KeyTag(k)
FlagsAgree(f) == /\ ImplZoneKey(f) = IsZoneKey(f)
                 /\ ImplRevoked(f) = IsRevoked(f)
                 /\ ImplSep(f) = IsSep(f)

\* SigningKey::new(owner, flags, inner): what SigningKey::dnskey() carries.
\* Documented: "The flags associated with the key.  These flags are stored
\* in the DNSKEY record."
SigningKeyDnskey(skFlags, inner) ==
  IF "D_signingkey_flags_detached" \in Dev THEN inner
  ELSE [inner EXCEPT !.flags = skFlags]

--------------------------------------------------------------------------
(* 2. DS (RFC 4034 5.1.4, 5.2; RFC 4509; RFC 6605)                         *)

Oct(o)     == [op |-> "oct", o |-> o]
Hash(h, t) == [op |-> h, of |-> <<t>>]
DigestName(dt) == CASE dt = 1 -> "sha1" [] dt = 2 -> "sha256"
                    [] dt = 4 -> "sha384" [] OTHER -> "none"
DsInput(owner, k) == ToWireAbs(LowerName(owner)) \o DnskeyRdata(k)
DsDigest(owner, k, dt) == Hash(DigestName(dt), Oct(DsInput(owner, k)))
MkDs(owner, k, dt) ==
  [tag |-> KeyTag(k), alg |-> k.alg, dt |-> dt, digest |-> DsDigest(owner, k, dt)]
\* RFC 4035 5.2: the DS refers to the DNSKEY
DsMatches(ds, owner, k) ==
  /\ ds.alg = k.alg
  /\ ds.tag = KeyTag(k)
  /\ DigestName(ds.dt) # "none"
  /\ ds.digest = DsDigest(owner, k, ds.dt)

--------------------------------------------------------------------------
(* 3. Private key files (the format documented at SecretKeyBytes)          *)
(* A file is a sequence of lines; a line is                                *)
(*   [k |-> "blank"]                          only whitespace              *)
(*   [k |-> "junk"]                           no colon: not an entry       *)
(*   [k |-> "fmt", v |-> version]             Private-key-format: version  *)
(*   [k |-> "alg", num |-> n, name |-> s]     Algorithm: n (s)             *)
(*   [k |-> "field", name |-> s, v |-> tok]   s: base64 value              *)
(* value tokens: "key" the real octets of that field, "m1"/"p1" one octet  *)
(* fewer / more, "empty", "bad" not Base64.                                *)

Blank == [k |-> "blank"]
Junk  == [k |-> "junk"]
Fmt(v) == [k |-> "fmt", v |-> v]
Alg(n, s) == [k |-> "alg", num |-> n, name |-> s]
Field(s, t) == [k |-> "field", name |-> s, v |-> t]

SupportedFmt(v) == v \in {"v1.2", "v1.3", "v1.10"}       \* v1.x with x >= 2
AlgName(n) == CASE n = 8 -> "RSASHA256" [] n = 10 -> "RSASHA512"
                [] n = 13 -> "ECDSAP256SHA256" [] n = 14 -> "ECDSAP384SHA384"
                [] n = 15 -> "ED25519" [] n = 16 -> "ED448" [] OTHER -> "?"
ValidAlg(l) == l.k = "alg" /\ AlgName(l.num) # "?" /\ l.name = AlgName(l.num)
IsRsa(n) == n \in {8, 10}
CONSTANT RsaFields       \* the sequence of RSA field names (8 in the format;
                         \* model checking may use a shorter sequence)
RsaFieldSet == {RsaFields[i] : i \in 1..Len(RsaFields)}
RsaNames8 == <<"Modulus", "PublicExponent", "PrivateExponent", "Prime1",
               "Prime2", "Exponent1", "Exponent2", "Coefficient">>
Decodable(t) == t # "bad"

\* --- the reader as a machine, one step per line (transcription of
\* SecretKeyBytes::parse_from_bind / parse_pkey / RsaSecretKeyBytes::parse_from_bind)
RInit == [ph |-> "fmt", alg |-> 0, vals |-> <<>>]      \* vals: sequence of <<name, tok>>
Seen(st, name) == \E i \in 1..Len(st.vals) : st.vals[i][1] = name
RStep(st, l) ==
  IF st.ph = "err" \/ l.k = "blank" THEN st
  ELSE IF st.ph = "got"
       THEN (IF "D_pkey_rest_unparsed" \in Dev THEN st      \* the rest is never read
             ELSE IF l.k = "junk" THEN [st EXCEPT !.ph = "err"] ELSE st)
  ELSE IF l.k = "junk" THEN [st EXCEPT !.ph = "err"]
  ELSE IF st.ph = "fmt"
       THEN (IF l.k = "fmt" /\ SupportedFmt(l.v) THEN [st EXCEPT !.ph = "alg"]
             ELSE [st EXCEPT !.ph = "err"])
  ELSE IF st.ph = "alg"
       THEN (IF ValidAlg(l) THEN [st EXCEPT !.ph = "body", !.alg = l.num]
             ELSE [st EXCEPT !.ph = "err"])
  ELSE \* body
       IF l.k # "field" THEN st                             \* an entry with an unknown key
       ELSE IF IsRsa(st.alg)
            THEN (IF l.name \notin RsaFieldSet THEN st
                  ELSE IF Seen(st, l.name) \/ ~Decodable(l.v) THEN [st EXCEPT !.ph = "err"]
                  ELSE [st EXCEPT !.vals = Append(@, <<l.name, l.v>>)])
            ELSE (IF l.name # "PrivateKey" THEN st
                  ELSE IF l.v = "key" THEN [st EXCEPT !.ph = "got", !.vals = <<<<"PrivateKey", "key">>>>]
                  ELSE [st EXCEPT !.ph = "err"])
RECURSIVE RRun(_, _)
RRun(st, f) == IF f = <<>> THEN st ELSE RRun(RStep(st, Head(f)), Tail(f))
ValOf(st, name) == LET i == CHOOSE i \in 1..Len(st.vals) : st.vals[i][1] = name IN st.vals[i][2]
RFinish(st) ==
  IF st.ph = "got" THEN [ok |-> TRUE, alg |-> st.alg, same |-> TRUE]
  ELSE IF st.ph = "body" /\ IsRsa(st.alg) /\ \A n \in RsaFieldSet : Seen(st, n)
       THEN [ok |-> TRUE, alg |-> st.alg, same |-> \A n \in RsaFieldSet : ValOf(st, n) = "key"]
  ELSE Err
ReadPriv(f) == RFinish(RRun(RInit, f))

\* --- the documented grammar, declaratively
NonBlank(f) == SelectSeq(f, LAMBDA l : l.k # "blank")
FirstIdx(s, P(_)) == IF \E i \in 1..Len(s) : P(s[i])
                     THEN CHOOSE i \in 1..Len(s) : P(s[i]) /\ \A j \in 1..(i - 1) : ~P(s[j])
                     ELSE 0
PrivAccepts(f) ==
  LET nb == NonBlank(f)
      body == SubSeq(nb, 3, Len(nb))
      isPk(l) == l.k = "field" /\ l.name = "PrivateKey"
      pk == FirstIdx(body, isPk)
      \* lines the grammar is enforced on
      upto == IF "D_pkey_rest_unparsed" \in Dev /\ ~IsRsa(nb[2].num) /\ pk > 0 THEN pk ELSE Len(body)
  IN /\ Len(nb) >= 2
     /\ nb[1].k = "fmt" /\ SupportedFmt(nb[1].v)
     /\ ValidAlg(nb[2])
     /\ \A i \in 1..upto : body[i].k # "junk"
     /\ IF IsRsa(nb[2].num)
        THEN \A n \in RsaFieldSet :
               /\ Cardinality({i \in 1..Len(body) : body[i].k = "field" /\ body[i].name = n}) = 1
               /\ \A i \in 1..Len(body) : (body[i].k = "field" /\ body[i].name = n) => Decodable(body[i].v)
        ELSE pk > 0 /\ body[pk].v = "key"
PrivOracle(f) ==
  IF ~PrivAccepts(f) THEN Err
  ELSE LET nb == NonBlank(f) IN
       [ok |-> TRUE, alg |-> nb[2].num,
        same |-> IF IsRsa(nb[2].num)
                 THEN \A i \in 3..Len(nb) : (nb[i].k = "field" /\ nb[i].name \in RsaFieldSet) => nb[i].v = "key"
                 ELSE TRUE]

\* --- the writer (format_as_bind): v1.2, the algorithm, the fields in order
WritePriv(alg) ==
  <<Fmt("v1.2"), Alg(alg, AlgName(alg))>> \o
  (IF IsRsa(alg) THEN [i \in 1..Len(RsaFields) |-> Field(RsaFields[i], "key")]
   ELSE <<Field("PrivateKey", "key")>>)
RoundTripPriv(alg) == ReadPriv(WritePriv(alg)) = [ok |-> TRUE, alg |-> alg, same |-> TRUE]

--------------------------------------------------------------------------
(* 4. Public key files (format described in src/dnssec/common.rs): text    *)
(* over the symbols "R" a DNSKEY record, "N" newline, "S" blank, "C" ';',  *)
(* "X" something that is none of these.                                    *)

IsWs(c) == c \in {"S", "N"}
RECURSIVE SplitOn(_, _)
SplitOn(t, c) ==
  LET p == FirstIdx(t, LAMBDA x : x = c)
  IN IF p = 0 THEN <<t>> ELSE <<SubSeq(t, 1, p - 1)>> \o SplitOn(SubSeq(t, p + 1, Len(t)), c)
BeforeComment(l) == LET p == FirstIdx(l, LAMBDA x : x = "C")
                    IN IF p = 0 THEN l ELSE SubSeq(l, 1, p - 1)
Words(l) == SelectSeq(l, LAMBDA x : ~IsWs(x))     \* symbols are whole tokens
LineClass(l) == LET w == Words(BeforeComment(l))
                IN IF w = <<>> THEN "blank" ELSE IF w = <<"R">> THEN "rec" ELSE "junk"
\* documented: every line is blank or one DNSKEY record, either may end with
\* a comment; exactly one record line
PubAccepts(t) ==
  LET ls == SplitOn(t, "N")
  IN /\ Cardinality({i \in 1..Len(ls) : LineClass(ls[i]) = "rec"}) = 1
     /\ \A i \in 1..Len(ls) : LineClass(ls[i]) # "junk"

\* transcription of parse_from_bind's next_line
RECURSIVE TrimStart(_)
TrimStart(t) == IF t # <<>> /\ IsWs(Head(t)) THEN TrimStart(Tail(t)) ELSE t
RECURSIVE NextLine(_)
NextLine(data) ==
  IF data = <<>> THEN [some |-> FALSE]
  ELSE LET t == TrimStart(data)
           p == FirstIdx(t, LAMBDA x : x = "N")
           \* split_once('\n').unwrap_or((data, "")): without a newline the
           \* *untrimmed* data is the line
           line == IF p > 0 THEN SubSeq(t, 1, p - 1)
                   ELSE IF "D_pubkey_trailing_blank" \in Dev THEN data ELSE t
           rest == IF p > 0 THEN SubSeq(t, p + 1, Len(t)) ELSE <<>>
       IN IF line # <<>> /\ Head(line) # "C"
          THEN [some |-> TRUE, line |-> BeforeComment(line), rest |-> rest]
          ELSE NextLine(rest)
ImplPub(t) ==
  LET a == NextLine(t)
  IN IF ~a.some THEN FALSE
     ELSE IF NextLine(a.rest).some THEN FALSE
     ELSE Words(a.line) = <<"R">>

--------------------------------------------------------------------------
(* 5. Key pairs: KeyPair::from_bytes(secret, public DNSKEY).  A secret is  *)
(* [alg, id]; its public key octets are the token <<"pub", id>>.           *)

PairBelongs(sec, pub) == pub.alg = sec.alg /\ pub.proto = 3 /\ pub.key = <<"pub", sec.id>>
\* what the ring backend compares today for ECDSA / Ed25519: the key octets
\* only (ECDSA: under either ECDSA algorithm number)
PairImpl(sec, pub) ==
  IF IsRsa(sec.alg) THEN PairBelongs(sec, pub)
  ELSE /\ pub.key = <<"pub", sec.id>>
       /\ (sec.alg \in {13, 14} => pub.alg \in {13, 14})
PairExp(sec, pub) ==
  IF PairBelongs(sec, pub) THEN [ok |-> TRUE, same_dnskey |-> TRUE] ELSE Err
PairDev(sec, pub) ==
  IF PairImpl(sec, pub) THEN [ok |-> TRUE, same_dnskey |-> PairBelongs(sec, pub)] ELSE Err

--------------------------------------------------------------------------
(* 6. Trust anchors: TrustAnchors as a machine.  State: a sequence of      *)
(* anchors [owner, rrs]; a record is [owner, kind, id].                    *)

AInit == <<>>
AddRec(as, rr) ==
  LET i == FirstIdx(as, LAMBDA a : NameEq(a.owner, rr.owner))
  IN IF i = 0 THEN Append(as, [owner |-> rr.owner, rrs |-> <<rr>>])
     ELSE [as EXCEPT ![i].rrs = Append(@, rr)]
RECURSIVE AddRecs(_, _)
AddRecs(as, rrs) == IF rrs = <<>> THEN as ELSE AddRecs(AddRec(as, Head(rrs)), Tail(rrs))

\* transcription of find: filter(ends_with).max_by_key(label_count) - the
\* last of the maxima
ImplFind(as, name) ==
  LET c == {i \in 1..Len(as) : IsSuffixOf(as[i].owner, name)}
  IN IF c = {} THEN 0
     ELSE CHOOSE i \in c : \A j \in c : Len(as[j].owner) < Len(as[i].owner)
                                          \/ (Len(as[j].owner) = Len(as[i].owner) /\ j <= i)
\* declaratively: an anchor at or above the name such that no anchor at or
\* above the name is longer
IsLongestMatch(as, name, i) ==
  /\ IsSubdomain(name, as[i].owner)
  /\ \A j \in 1..Len(as) : IsSubdomain(name, as[j].owner) => Len(as[j].owner) <= Len(as[i].owner)
FindOk(as, name) ==
  LET i == ImplFind(as, name)
  IN IF i = 0 THEN \A j \in 1..Len(as) : ~IsSubdomain(name, as[j].owner)
     ELSE IsLongestMatch(as, name, i)
FoundOwner(as, name) == LET i == ImplFind(as, name)
                        IN IF i = 0 THEN [none |-> TRUE] ELSE [owner |-> LowerName(as[i].owner)]
OneAnchorPerOwner(as) == \A i, j \in 1..Len(as) : i # j => ~NameEq(as[i].owner, as[j].owner)
KeepsAll(as, added) ==      \* every record added sits, in order, under its owner
  \A i \in 1..Len(as) :
     as[i].rrs = SelectSeq(added, LAMBDA r : NameEq(r.owner, as[i].owner))

\* anchor text accepted by an entry point: shape [class, finalnl, api]
AnchorTextOk(shape) ==
  IF "D_anchor_reader_strict" \in Dev /\ shape.api = "from_reader"
  THEN shape.class /\ shape.finalnl
  ELSE TRUE
=============================================================================
