CONSTANTS
  Dev = {}
  Mode = "conn"
  NConn = 3
  MaxReq = 3
  QCapG = 2
  Kinds = {"single", "stream2", "fail", "txn", "rlong", "rshort", "xfr", "fblong"}
  MaxOps = 16
  MaxCredit = 5
  MaxTick = 3
  Limit = 2
  AAM = TRUE
  WithSReconf = FALSE
  Defaults = FALSE
SPECIFICATION Spec
INVARIANT Emit
CHECK_DEADLOCK FALSE
