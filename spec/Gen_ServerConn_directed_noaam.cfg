CONSTANTS
  Dev = {}
  Mode = "conn"
  NConn = 5
  MaxReq = 3
  QCapG = 1
  Kinds = {"single", "stream2", "fail", "txn"}
  MaxOps = 0
  MaxCredit = 5
  MaxTick = 3
  Limit = 2
  AAM = FALSE
  WithSReconf = FALSE
  Defaults = FALSE
SPECIFICATION Spec
INVARIANT EmitDirected
CHECK_DEADLOCK FALSE
