CONSTANTS
  Dev = {"D_zone_diff_ttl_change_lost"}
  RecU = {1, 2}
  TtlU = {0, 1}
  Styles = {"lib"}
  MaxC = 2
  Kinds = {"ixfr1"}
  MaxMsgs = 1
  FaultKinds = {"none"}
  LaterQ = {FALSE}
SPECIFICATION Spec
INVARIANT StepwiseIsRun
INVARIANT AxfrFidelity
INVARIANT IxfrFidelity
INVARIANT RolledBack
CHECK_DEADLOCK FALSE
