CONSTANTS
  Dev <- EnvDev
  RecU = {1, 2, 5, 13}
  TtlU = {0}
  Styles = {"rfc"}
  MaxC = 2
  Kinds = {"axfr", "ixfr1", "fallback", "uptodate"}
  MaxMsgs = 3
  FaultKinds = {"none", "drop", "dup", "swap", "trunc", "hdr", "wrongq", "csoa"}
  LaterQ = {TRUE, FALSE}
SPECIFICATION GenSpec
INVARIANT EmitCase
CHECK_DEADLOCK FALSE
