CONSTANTS
  Dev = {}
  TickMs = 10
  Confs = {}
  MaxDgrams = 0
  Faults = {}
  MReqs = {1}
  MaxConn = 2
  MsConfs <- GMsConfs
  XConfs <- GXFail
  OpNames <- AllOps
  TcOnly = TRUE
  Mode = "dgst"
  MaxOps = 10
  PathMode = FALSE
SPECIFICATION CSpec
VIEW CView
CONSTRAINT FineDelay
ACTION_CONSTRAINT Emit
INVARIANT MAtMostOnce
INVARIANT MOnTime
INVARIANT MOwn
INVARIANT MNoDup
INVARIANT MConnsSound
INVARIANT XNoTruncated
INVARIANT XAtMostOnce
INVARIANT XTcpOnlyAfterTc
INVARIANT XOnTime
INVARIANT XLegsSound
CHECK_DEADLOCK FALSE
