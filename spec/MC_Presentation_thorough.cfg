CONSTANTS
  Dev = {}
  MaxStr = 3
SPECIFICATION Spec
INVARIANT ReadEqualsWritten
INVARIANT TokensReadEqualWritten
INVARIANT FieldTextsReadEqualWritten
CHECK_DEADLOCK FALSE
