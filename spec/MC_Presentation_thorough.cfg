CONSTANTS
  Dev = {}
  MaxStr = 3
SPECIFICATION Spec
INVARIANT ReadEqualsWritten
INVARIANT TokensReadEqualWritten
INVARIANT FieldTextsReadEqualWritten
INVARIANT FieldsReadEqualWritten
CHECK_DEADLOCK FALSE
