CONSTANTS
  Dev = {}
  MaxStr = 3
SPECIFICATION Spec
INVARIANT ReadEqualsWritten
CHECK_DEADLOCK FALSE
