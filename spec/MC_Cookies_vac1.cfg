CONSTANTS
  Mod = 64
  Past = 12
  Future = 4
  Dev = {}
  NowAll = FALSE
SPECIFICATION Spec
INVARIANT NeverPassDenied
CHECK_DEADLOCK FALSE
