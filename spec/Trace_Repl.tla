----------------------------- MODULE Trace_Repl -----------------------------
(* I->S for X08: recorded transfers of the fully real stack                 *)
(* (TsigMiddlewareSvc(XfrMiddlewareSvc(zone + diffs)) <-> tsig::Connection   *)
(* -> XfrResponseInterpreter -> ZoneUpdater), zones of up to 32 records,    *)
(* histories of 3-5 versions, the packaging the real middleware chose,       *)
(* random adversary actions on the real octets.  Every event must be         *)
(* explained by Repl.tla:                                                    *)
(*  - the stream the primary sent denotes (Xfr.tla's declarative oracle) the *)
(*    primary's history from the secondary's version on / its current zone;  *)
(*  - the specification's transfer on the same messages and adversary        *)
(*    actions gives the same TSIG verdict, status, interpreter state and     *)
(*    visible zone content after every get_response(), and the same end;     *)
(*  - the properties hold on the recorded run (what a reader saw is the old  *)
(*    version or one of the primary's; applied = current version).           *)
EXTENDS Repl, Json, IOUtils

Rec == ndJsonDeserialize(IOEnv.TRACE)
TU == 1..32

EnvDev == {d \in DevNames : d \in DOMAIN IOEnv}
XEnvDev == {d \in X!DevNames : d \in DOMAIN IOEnv}

VARIABLES l
tvars == <<l>>

IsEv(e) == l <= Len(Rec) /\ Rec[l].ev = e /\ l' = l + 1
SeqSet(s) == {s[i] : i \in 1..Len(s)}
MsgOf(m) == [id |-> m.id, qr |-> m.qr, op |-> m.op, rc |-> m.rc, tc |-> m.tc, qd |-> m.qd,
             qdc |-> m.qdc, an |-> m.an, anc |-> m.anc, nsc |-> m.nsc]
StepEq(a, b) == /\ a.op = b.op /\ a.tsig = b.tsig /\ a.st = b.st /\ a.why = b.why
                /\ a.fin = b.fin /\ a.nacc = b.nacc /\ a.pub = b.pub

TInit == l = 1

T_Xfer ==
  /\ IsEv("xfer")
  /\ LET e == Rec[l]
         n == Len(e.hist)
         ver(i) == X!VersionView(e.hist[i].s, SeqSet(e.hist[i].c))
         curv == ver(n)
         c0 == SeqSet(e.oldc)
         oldv == X!VersionView(e.olds, c0)
         xs == [i \in 1..Len(e.sent) |-> MsgOf(e.sent[i])]
         fx == ForgedMsg(e.kind, e.forge, X!SoaRec(e.hist[n].s))
         tr == Transfer(e.key, e.kind, e.from, xs, X!ContentOf(TU, e.olds, c0), e.faults, e.eos, fx, FALSE)
         den == X!Denotes(xs, e.kind, e.olds, c0)
         legit == {oldv} \cup {ver(i) : i \in 1..n}
     IN \* the primary's verdict and stream
        /\ e.serve.res = tr.serve.res /\ e.serve.rc = tr.serve.rc /\ e.serve.terr = tr.serve.terr
        /\ e.key = "good" =>
             /\ den.allValid /\ den.rd.complete /\ ~den.rd.bad
             /\ Last(den.rd.versions) = curv
             /\ (e.kind = IXFR /\ e.diffs) =>
                   den.rd.versions = [i \in 1..(n - e.from) |-> ver(e.from + i)]
        /\ e.key # "good" => \A i \in 1..Len(xs) : xs[i].an = <<>>
        \* the secondary, step by step
        /\ Len(e.steps) = Len(tr.steps)
        /\ \A i \in 1..Len(tr.steps) : StepEq(e.steps[i], tr.steps[i])
        /\ e.final.st = tr.sec.st /\ e.final.why = tr.sec.why /\ e.final.pub = Pub(tr.sec)
        \* the properties on the recorded run
        /\ (e.faults = <<>> /\ e.key = "good") => (e.final.st = "applied" /\ e.final.pub = curv)
        /\ e.final.st = "applied" => e.final.pub = curv
        /\ ("D_tsig_unsigned_released" \notin Dev /\ e.key # "none") =>
              \A i \in 1..Len(e.steps) : e.steps[i].pub \in legit

TNext == T_Xfer
TSpec == TInit /\ [][TNext]_tvars

Accepted ==
  LET d == TLCGet("stats").diameter
  IN IF d = Len(Rec) + 1 THEN TRUE
     ELSE /\ PrintT("TRACE_REJECTED " \o ToJson([matched |-> d - 1, total |-> Len(Rec),
                      event |-> IF d <= Len(Rec) THEN Rec[d] ELSE [ev |-> "none"]]))
          /\ FALSE
=============================================================================
