---------------------------- MODULE MC_XfrClient ----------------------------
(* C10: the client side of a transfer over the stream transport.  The        *)
(* scenarios, packagings and faults are those of MC_Xfr (reused, the         *)
(* receiver of MC_Xfr is not stepped here); on top of them the XFRState      *)
(* machine of net::client::stream (Xfr!CsRecord, CsBefore, CsAfter) is        *)
(* stepped record by record, one action per record class, and compared with  *)
(* the declarative "where does this transfer end" (Xfr!EndsAt, built on      *)
(* Denotes) and with the interpreter's own end (RunStream / Finished).       *)
(* Also the S->I generator for replay_xfrclient (EmitClient).                *)
EXTENDS MC_Xfr

VARIABLES cx,      \* XFRState of the request
          cmi,     \* message being looked at (1-based)
          cri,     \* next answer record of that message
          couts,   \* what get_response() has handed out so far
          cph      \* "idle" (between messages) | "msg" (inside check_stream) | "done"
cvars == <<cx, cmi, cri, couts, cph>>
allvars == <<sc, fault, msgs, pos, rcv, steps, phase, cx, cmi, cri, couts, cph>>

CInit == /\ Init
         /\ cx = CsInit(sc.req)
         /\ cmi = 1 /\ cri = 0 /\ couts = <<>> /\ cph = "idle"

\* the stream as the peer sends it: MC_Xfr's fault actions
CFault == /\ \/ NoFault \/ FaultDrop \/ FaultDup \/ FaultSwap \/ FaultTruncate
             \/ FaultCorruptHeader \/ FaultWrongQuestion \/ FaultCorruptSoa
          /\ UNCHANGED cvars

CurMsg == msgs[cmi]
CurRecs == Yielded(CurMsg)

\* check_stream returns: demux_reply hands the message (or WrongReplyForQuery)
\* to the request, then the end of the stream or the request is registered again
Ret(c) == /\ cx' = c.x
          /\ couts' = couts \o << <<IF c.ans THEN "ok" ELSE "wrong", cmi>> >>
                            \o (IF c.eof THEN << <<"eof", cmi>> >> ELSE <<>>)
          /\ cph' = IF c.eof THEN "done" ELSE "idle"
          /\ cmi' = cmi + 1
          /\ cri' = 0

\* a message for the request arrives: the checks before the records
CsBegin == /\ phase = "run" /\ cph = "idle" /\ cmi <= Len(msgs)
           /\ LET b == CsBefore(cx, sc.req, CurMsg) IN
              IF b # <<>> THEN Ret(b[1])
              ELSE cph' = "msg" /\ cri' = 1 /\ UNCHANGED <<cx, cmi, couts>>
           /\ UNCHANGED vars

CsRec(cls) == /\ phase = "run" /\ cph = "msg" /\ cx.k # "Error" /\ cri <= Len(CurRecs)
              /\ CsClass(cx, CurRecs[cri]) = cls
              /\ cx' = CsRecord(cx, CurRecs[cri])
              /\ cri' = cri + 1
              /\ UNCHANGED <<cmi, couts, cph>>
              /\ UNCHANGED vars
CsData == CsRec("data")              \* a record that is not a SOA
CsSoaMatch == CsRec("soa_match")     \* a SOA with the serial the state carries
CsSoaOther == CsRec("soa_other")     \* any other SOA

\* the loop over the answer section is over (or returned early)
CsEnd == /\ phase = "run" /\ cph = "msg" /\ (cx.k = "Error" \/ cri > Len(CurRecs))
         /\ Ret(CsAfter(cx, CurMsg))
         /\ UNCHANGED vars

\* the peer closes the connection while the request is still registered
CsPeerClose == /\ phase = "run" /\ cph = "idle" /\ cmi > Len(msgs)
               /\ couts' = Append(couts, <<"closed", Len(msgs)>>)
               /\ cph' = "done"
               /\ UNCHANGED <<cx, cmi, cri>>
               /\ UNCHANGED vars

CNext == CFault \/ CsBegin \/ CsData \/ CsSoaMatch \/ CsSoaOther \/ CsEnd \/ CsPeerClose
CSpec == CInit /\ [][CNext]_allvars

CGenSpec == CInit /\ [][CFault]_allvars

--------------------------------------------------------------------------
(* Properties *)

S0 == sc.hist[1].s
C0 == sc.hist[1].c
\* a stream that ends prematurely: the sender's stream without its last message
Premature == fault[1] = "drop" /\ fault[2] = Len(msgs) + 1

\* the stepped machine and the fold agree
ClientStepwiseIsFold == cph = "done" => couts = ClientRun(sc.req, msgs)

\* for every stream the sender can produce, in every packaging: exactly the
\* messages of the transfer, in order, then the end - no earlier, no later;
\* a stream that ends prematurely ends in an error
ClientEndAgrees ==
  (cph = "done" /\ (Honest \/ Premature)) =>
     /\ couts = ClientIdeal(msgs, sc.req, S0, C0)
     /\ Honest => EndsAt(msgs, sc.req, S0, C0) = Len(msgs)
     /\ Premature => EndsAt(msgs, sc.req, S0, C0) = 0

\* the stream client and the interpreter see the end in the same message
ClientEndIsInterpreterEnd ==
  (cph = "done" /\ Honest) =>
     LET run == RunStream(Z0, sc.req, msgs)
     IN (Finished(run) \/ sc.kind = "uptodate")
        /\ couts[Len(couts)] = <<"eof", Len(run.steps)>>

\* whatever the stream: nothing is handed out after the end, every message
\* before it is handed out once, in order
ClientOrdered ==
  \A i \in 1..Len(couts) :
     /\ couts[i][1] \in {"ok", "wrong"} => (couts[i][2] = i)
     /\ couts[i][1] \in {"eof", "closed"} => (i = Len(couts) /\ cph = "done")

--------------------------------------------------------------------------
(* S->I: one case per (scenario, packaging, fault) whose effect on the wire  *)
(* format the stream client sees is defined at this level of abstraction     *)

ClientFaults == {"none", "drop", "dup", "swap", "trunc", "csoa"}
EmitClient ==
  (phase = "run" /\ fault[1] \in ClientFaults) =>
    PrintT("CASE " \o ToJson(
      [in |-> [req |-> sc.req, kind |-> sc.kind, fault |-> fault, msgs |-> msgs,
               honest |-> Honest \/ Premature],
       exp |-> [outs |-> ClientRun(sc.req, msgs)]]))
=============================================================================
