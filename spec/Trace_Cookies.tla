--------------------------- MODULE Trace_Cookies ---------------------------
(* I->S: a recorded run of the real CookiesMiddlewareSvc (one event per     *)
(* public call: new / deny / enable / call, plus the clock settings of the  *)
(* environment) must be a behaviour of Cookies.tla.  Times are 32-bit       *)
(* serials given as two 16-bit limbs <<hi, lo>>; the three time primitives  *)
(* of Cookies.tla are replaced by limb arithmetic modulo 2^32 (see .cfg).   *)
(* Hash values were abstracted by the recorder into the terms of            *)
(* Cookies.tla with its own SipHash evaluator (unknown octets = Junk).      *)
EXTENDS Cookies, TLC, Json, IOUtils

Rec == ndJsonDeserialize(IOEnv.TRACE)

VARIABLES l
tvars == <<l, cfg, now, phase, req, out>>

\* ---- arithmetic modulo 2^32 on <<hi, lo>>
W == 65536
TZero32 == <<0, 0>>
TAdd32(t, k) == LET lo == t[2] + k IN <<(t[1] + lo \div W) % W, lo % W>>
Sub32(a, b) == LET lo == a[2] - b[2]
                   bw == IF lo < 0 THEN 1 ELSE 0
               IN <<(a[1] - b[1] - bw) % W, lo % W>>
SerialGt32(a, b) == LET d == Sub32(a, b) IN d # <<0, 0>> /\ d[1] < W \div 2
DiffLe32(a, b, k) == LET d == Sub32(a, b) IN d[1] = 0 /\ d[2] <= k

IsEv(e) == l <= Len(Rec) /\ Rec[l].ev = e /\ l' = l + 1

TInit == l = 1 /\ InitWith("s0", <<0, 0>>)

SetOf(seq) == {seq[j] : j \in 1 .. Len(seq)}

T_New == IsEv("new") /\ New(Rec[l].secret)
T_Deny == IsEv("deny") /\ WithDeniedIps(SetOf(Rec[l].ips))
T_Enable == IsEv("enable") /\ Enable(Rec[l].on)
T_Clock == IsEv("clock") /\ ClockSet(Rec[l].now)

ToCk(o) == [k |-> o.k, len |-> o.len, cc |-> o.cc, v |-> o.v, r |-> o.r, ts |-> o.ts, h |-> o.h]
ToReq(e) == [udp |-> e.udp, ip |-> e.ip, qd |-> IF e.qd = 0 THEN 0 ELSE 1, opt |-> e.opt,
             cks |-> [j \in 1 .. Len(e.cks) |-> ToCk(e.cks[j])]]

EchoP(o) == IF o.rcode \in {"FORMERR", "REFUSED"} THEN "any" ELSE IF o.echo THEN "yes" ELSE "no"

\* Service::call: the recorded result must be the specified outcome, and the
\* code's timestamp test must be the RFC window on every recorded timestamp
T_Call ==
  /\ IsEv("call")
  /\ LET r == ToReq(Rec[l])
         o == Decide(cfg, now, r)
         res == Rec[l].res
     IN /\ Call(r)
        /\ res.act = o.act /\ res.rcode = o.rcode /\ res.tc = o.tc
        /\ ToCk(res.ck) = o.ck
        /\ res.echo = EchoP(o)
        /\ res.fwd = (IF o.act = "pass" THEN "same" ELSE "none")
        /\ res.rest = (IF o.act = "pass" THEN "same" ELSE "own")
        /\ \A j \in 1 .. Len(r.cks) :
              r.cks[j].len = 24 => (TimestampOk(now, r.cks[j].ts) <=> InWindow(now, r.cks[j].ts))
T_Done == /\ phase = "called" /\ Done /\ UNCHANGED l

TNext == T_New \/ T_Deny \/ T_Enable \/ T_Clock \/ T_Call \/ T_Done
TSpec == TInit /\ [][TNext]_tvars

Accepted ==
  LET d == TLCGet("stats").diameter
      ncalls == Cardinality({j \in 1 .. Len(Rec) : Rec[j].ev = "call"})
  IN IF d = Len(Rec) + 1 + ncalls THEN TRUE
     ELSE /\ PrintT("TRACE_REJECTED " \o ToJson([depth |-> d, total |-> Len(Rec), calls |-> ncalls]))
          /\ FALSE
=============================================================================
