SPECIFICATION TSpec
INVARIANT Witnessed
POSTCONDITION Accepted
CHECK_DEADLOCK FALSE
