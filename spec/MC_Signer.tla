----------------------------- MODULE MC_Signer -----------------------------
(* C12, the signer as a machine: sign_sorted_rrset_in works in a scratch   *)
(* buffer that the *caller* owns and re-uses across calls.  State: that    *)
(* buffer.  Actions: a call that succeeds, a call whose SignRaw backend    *)
(* fails (the function returns Err after composing), the caller handing in *)
(* a buffer that already holds octets.  Property: whatever happened        *)
(* before, the octets handed to sign_raw are SignedData of the RRset of    *)
(* *this* call.  Every behaviour is an S->I case.                          *)
EXTENDS Rrsig, TLC, Json

CONSTANT MaxOps

a == <<97>>   b == <<98>>   ex == <<101, 120>>   Ex == <<69, 120>>
Key == [flags |-> 256, proto |-> 3, alg |-> 15, pub |-> [i \in 1..32 |-> (i * 7 + 3) % 256]]
KeyOwner == <<Ex>>
Inc == <<0, 0, 0, 0>>   Exp == <<0, 0, 0, 100>>
Rr(o, t, rd) == [owner |-> o, type |-> t, class |-> 1, ttl |-> 300, rd |-> rd]
RRsets == {
  << Rr(<<a, ex>>, 1, <<Raw(<<10, 0, 0, 2>>)>>), Rr(<<a, ex>>, 1, <<Raw(<<10, 0, 0, 1>>)>>) >>,
  << Rr(<<Star, ex>>, 2, <<Nm(<<b, Ex>>)>>) >>,
  << Rr(<<ex>>, 16, <<Raw(<<1, 120>>)>>) >> }
\* RFC 4035 2.2: "An RRSIG RR itself MUST NOT be signed"
SigRrset == << Rr(<<a, ex>>, 46, <<Raw(<<0, 1, 15, 2, 0, 0, 1, 44, 0, 0, 0, 100, 0, 0, 0, 0, 59, 182>>),
                                   Nm(<<Ex>>), Raw(<<1, 2, 3, 4>>)>>) >>
Junk == {<<0>>, <<222, 173, 190, 239>>}

VARIABLES scratch,     \* the caller's buffer between calls
          handed,      \* the octets the last call handed to sign_raw
          want,        \* SignedData of the RRset of the last call
          hist         \* the behaviour so far (ops with the expected hand-over)
vars == <<scratch, handed, want, hist>>

Init == scratch = <<>> /\ handed = <<>> /\ want = <<>> /\ hist = <<>>

\* sign_sorted_rrset_in: scratch.clear(); compose prefix and records into
\* scratch; sign_raw(&scratch)?  -- the buffer keeps the octets either way
Call(rrs, fails) ==
  LET f   == SignerFields(Key, KeyOwner, rrs, Inc, Exp)
      buf == SignerOctets(f, rrs)              \* after clear(): only this call's octets
  IN /\ scratch' = buf
     /\ handed' = buf
     /\ want' = SignedData(f, rrs)
     /\ hist' = Append(hist, [op |-> "sign", rrs |-> rrs, fails |-> fails, junk |-> <<>>,
                              handed |-> buf, ok |-> ~fails])

\* refused before the buffer is touched
SignRefused ==
  /\ Len(hist) < MaxOps
  /\ hist' = Append(hist, [op |-> "sign", rrs |-> SigRrset, fails |-> FALSE, junk |-> <<>>,
                           handed |-> <<>>, ok |-> FALSE])
  /\ UNCHANGED <<scratch, handed, want>>

SignOk    == Len(hist) < MaxOps /\ \E rrs \in RRsets : Call(rrs, FALSE)
SignFails == Len(hist) < MaxOps /\ \E rrs \in RRsets : Call(rrs, TRUE)
CallerScratch ==
  /\ Len(hist) < MaxOps
  /\ \E j \in Junk :
        /\ scratch' = j
        /\ hist' = Append(hist, [op |-> "scratch", rrs |-> <<>>, fails |-> FALSE, junk |-> j,
                                 handed |-> <<>>, ok |-> TRUE])
  /\ UNCHANGED <<handed, want>>

Next == SignOk \/ SignFails \/ CallerScratch \/ SignRefused
Spec == Init /\ [][Next]_vars

HandedIsSignedData == handed = want
\* one case per maximal behaviour
Emit == Len(hist) = MaxOps =>
  PrintT("CASE " \o ToJson(
    [in  |-> [kind |-> "signer", key |-> Key, keyOwner |-> KeyOwner, inc |-> Inc, exp |-> Exp,
              ops |-> [i \in 1..Len(hist) |-> [op |-> hist[i].op, rrs |-> hist[i].rrs,
                                               fails |-> hist[i].fails, junk |-> hist[i].junk]]],
     exp |-> [steps |-> [i \in 1..Len(hist) |-> [handed |-> hist[i].handed, ok |-> hist[i].ok,
                                                  verifies |-> hist[i].op = "sign" /\ hist[i].ok]]]]))
=============================================================================
