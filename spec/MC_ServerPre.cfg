CONSTANTS
  Dev = {}
  Deltas <- DeltasQuick
  BadLens = {0, 4, 12, 41}
SPECIFICATION Spec
INVARIANT Answered
INVARIANT DeniedGuard
INVARIANT TimeLaw
INVARIANT FarNeverValid
INVARIANT Emit
CHECK_DEADLOCK FALSE
