CONSTANTS
  Dev = {}
  Deltas <- DeltasQuick
  BadLens = {0, 4, 12, 41}
SPECIFICATION Spec
INVARIANT Answered
INVARIANT DeniedGuard
INVARIANT TimeLaw
INVARIANT FarNeverValid
CHECK_DEADLOCK FALSE
