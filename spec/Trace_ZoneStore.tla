--------------------------- MODULE Trace_ZoneStore ---------------------------
(* I->S: a run recorded from the real zone store (one event per public call *)
(* or, for the real-thread runs, per linearization point, ordered by a      *)
(* sequence number taken inside the protecting lock) must be a behaviour of *)
(* ZoneStore.tla, and every recorded answer / walk must be what the         *)
(* transcription yields for the version the reader is pinned to.            *)
(* Dev = the open known findings; answers that ZoneAbstract does not admit  *)
(* are reported as WITNESS lines (they are the known findings at work).     *)
EXTENDS MC_ZoneStore, IOUtils

TRec == ndJsonDeserialize(IOEnv.TRACE)

VARIABLES l,
  cands,     \* reader -> unversioned parts of the tree states that existed since its query began ({} = no query open)
  prev,      \* store before the last write operation
  wpend      \* a write operation has begun and not yet ended
tvars == <<vars, l, cands, prev, wpend>>

Ev == TRec[l]
SetOf(seq) == {seq[i] : i \in DOMAIN seq}
RecsOf(seq) == {<<seq[i][1], seq[i][2], seq[i][3]>> : i \in DOMAIN seq}
AnsOf(j) == [rcode |-> j.rcode, aa |-> j.aa, ans |-> RecsOf(j.ans), auth |-> RecsOf(j.auth), add |-> RecsOf(j.add)]

Witness(v, qn, qt, a) ==
  IF a \in Admissible(v, qn, qt) THEN TRUE
  ELSE PrintT("WITNESS " \o ToJson([blame |-> BlameOf(v, qn, qt, a), qn |-> qn, qt |-> qt, v |-> v, l |-> l]))

\* C09: the answer differs from what the version answered when it was published
Witness9(v, qn, qt, a) ==
  IF a \in SnapAnswer(v, qn, qt) THEN TRUE
  ELSE PrintT("WITNESS9 " \o ToJson([blame |-> {"D_unversioned_node_creation"}, qn |-> qn, qt |-> qt, v |-> v, l |-> l]))

\* res = <<<<qt, answer>>, ...>>; SS = the store states the query may have seen
AnswersOk(SS, v, qn, res) ==
  \A i \in DOMAIN res :
     LET a == AnsOf(res[i][2]) IN
       /\ \E S \in SS : a \in ConcreteAnswer(S, v, qn, res[i][1], Dev)
       /\ (v \in 0..current => Witness(v, qn, res[i][1], a) /\ Witness9(v, qn, res[i][1], a))

Shared(S) == [nodes |-> S.nodes, ent |-> S.ent, born |-> S.born]
Step(A) == l <= Len(TRec) /\ l' = l + 1 /\ A
Quiet(A) == Step(A /\ UNCHANGED <<cands, prev, wpend>>)
\* a step that changes the shared tree: every open query may see the new state
Writes(A, pending) ==
  Step(/\ A
       /\ cands' = [r \in Readers |-> IF cands[r] = {} THEN {} ELSE cands[r] \cup {Shared(store')}]
       /\ prev' = store /\ wpend' = pending)
\* A pinned reader's version is never rewritten (writers write above
\* `current`), so the tree states it may have seen differ from the present
\* one only in the parts that are NOT versioned: the children maps and the
\* RRset map entries.  Remembering those keeps the trace states small.
Seen(r) == {[store EXCEPT !.nodes = c.nodes, !.ent = c.ent, !.born = c.born] : c \in cands[r]} \cup {store}

TNext ==
  \/ Quiet(Ev.a = "ZfInsert" /\ ZfInsert(<<Ev.n, Ev.t, Ev.x>>))
  \/ Quiet(Ev.a = "Build" /\ Build)
  \/ Quiet(Ev.a = "AcquireWriteLock" /\ AcquireWriteLock(Ev.w, Ev.kind))
  \/ Quiet(Ev.a = "Open" /\ Open(Ev.w))
  \/ Quiet(Ev.a = "CommitUpdateCurrent" /\ CommitUpdateCurrent(Ev.w, Ev.bump))
  \/ Quiet(Ev.a = "CommitPushVersion" /\ CommitPushVersion(Ev.w))
  \/ Writes(Ev.a = "DropWriter" /\ DropWriter(Ev.w), FALSE)
  \/ Writes(Ev.a = "W_UpdateChild" /\ W_UpdateChild(Ev.w, Ev.n), TRUE)
  \/ Writes(Ev.a = "W_UpdateRrset" /\ W_UpdateRrset(Ev.w, Ev.n, Ev.t, SetOf(Ev.xs)), TRUE)
  \/ Writes(Ev.a = "W_RemoveRrset" /\ W_RemoveRrset(Ev.w, Ev.n, Ev.t), TRUE)
  \/ Writes(Ev.a = "W_RemoveAll" /\ W_RemoveAll(Ev.w, Ev.n), TRUE)
  \/ Writes(Ev.a = "U_AddRecord" /\ U_AddRecord(Ev.w, Ev.n, Ev.t, Ev.x), TRUE)
  \/ Writes(Ev.a = "U_DeleteRecord" /\ U_DeleteRecord(Ev.w, Ev.n, Ev.t, Ev.x), TRUE)
  \/ Writes(Ev.a = "U_DeleteAll" /\ U_DeleteAll(Ev.w), TRUE)
  \/ Writes(Ev.a = "U_Soa" /\ U_Soa(Ev.w, Ev.x), TRUE)
  \* end of a write operation (real-thread traces)
  \/ Step(Ev.a = "WEnd" /\ wpend' = FALSE /\ UNCHANGED <<vars, cands, prev>>)
  \/ Quiet(Ev.a = "ReaderAcquire" /\ ReaderAcquire(Ev.r) /\ Ev.v = current)
  \/ Quiet(Ev.a = "ReaderRelease" /\ ReaderRelease(Ev.r))
  \* begin of a query / walk (real-thread traces)
  \/ Step(/\ Ev.a = "QBegin" /\ readers[Ev.r] # -1
          /\ cands' = [cands EXCEPT ![Ev.r] = {Shared(store)} \cup (IF wpend THEN {Shared(prev)} ELSE {})]
          /\ UNCHANGED <<vars, prev, wpend>>)
  \/ Step(/\ Ev.a = "ReaderQuery" /\ ReaderQuery(Ev.r, Ev.qn)
          /\ AnswersOk(Seen(Ev.r), readers[Ev.r], Ev.qn, Ev.res)
          /\ cands' = [cands EXCEPT ![Ev.r] = {}] /\ UNCHANGED <<prev, wpend>>)
  \/ Step(/\ Ev.a = "ReaderWalk" /\ ReaderWalk(Ev.r)
          /\ \E S \in Seen(Ev.r) : RecsOf(Ev.res) = WalkOf(S, readers[Ev.r], Dev)
          /\ cands' = [cands EXCEPT ![Ev.r] = {}] /\ UNCHANGED <<prev, wpend>>)
  \* a query by a reader obtained and dropped on the spot (single-threaded traces)
  \/ Quiet(/\ Ev.a = "FreshQuery" /\ phase = "live" /\ AnswersOk({store}, current, Ev.qn, Ev.res)
           /\ act' = [a |-> "FreshQuery"] /\ UNCHANGED <<svars, snap>>)
  \/ Quiet(/\ Ev.a = "FreshWalk" /\ phase = "live" /\ RecsOf(Ev.res) = WalkOf(store, current, Dev)
           /\ act' = [a |-> "FreshWalk"] /\ UNCHANGED <<svars, snap>>)

TInit == Init /\ l = 1 /\ cands = [r \in Readers |-> {}] /\ prev = store /\ wpend = FALSE
TSpec == TInit /\ [][TNext]_tvars

\* the write path implements set semantics (checked for the versions that
\* can still be observed)
TContent ==
  phase = "live" =>
    /\ ContentOf(store, current) = committed[current]
    /\ \A r \in Readers : readers[r] # -1 => ContentOf(store, readers[r]) = committed[readers[r]]
    /\ \A w \in Writers : wst[w] = "open" => ContentOf(store, wnv[w]) = pend

Accepted ==
  LET d == TLCGet("stats").diameter
  IN IF d = Len(TRec) + 1 THEN TRUE
     ELSE /\ PrintT("TRACE_REJECTED " \o ToJson([matched |-> d - 1, total |-> Len(TRec),
                      event |-> IF d <= Len(TRec) THEN TRec[d] ELSE [a |-> "none"]]))
          /\ FALSE
=============================================================================
