CONSTANTS
  Dev <- EnvDev
SPECIFICATION TSpec
POSTCONDITION Accepted
CHECK_DEADLOCK FALSE
