CONSTANTS
  Dev = {"D_charstr_entry_no_token"}
  MaxLen = 2
SPECIFICATION Spec
INVARIANT NeverPanics
CHECK_DEADLOCK FALSE
