CONSTANTS
  Dev = {"D_plus_sign", "D_rcode_fromstr", "D_nsap_ptr_mnemonic", "D_tsig_notimpl_mnemonic", "D_new_lowercase_subset"}
  MaxTail = 3
  SmallTail = 2
  TailTypes = {"Rtype", "SvcParamKey", "Opcode", "TsigRcode", "SecurityAlgorithm", "Rcode"}
  FullTypes = {"Rtype"}
  Emitting = TRUE
SPECIFICATION Spec
INVARIANT Emit
INVARIANT DevRows
INVARIANT CodeLaws
INVARIANT TextLaws
CHECK_DEADLOCK FALSE
