CONSTANTS
  NSSet = {1}
  SearchSet <- MCS_Search
  NDotsSet = {0, 1, 2}
  DotsSet = {0, 1}
  CallSet = {"lookup", "search"}
  TooLongSet <- MCS_TooLong
  ModeSet = {"mock"}
  UseVcSet = {FALSE}
  TcpOnlySet <- MCQ_TcpOnly
  TmoSet = {500}
  Est = 30
  Outs = {"Data", "NoData", "NX", "SF", "Err"}
  TcpOuts = {"Data"}
  Lats = {1}
  FreshEvery = FALSE
  Dev = {"D_first_failure_final", "D_ndots_ignored"}
SPECIFICATION MCSpec
INVARIANT Honest
INVARIANT AtMostOncePerRound
INVARIANT InTime
INVARIANT NoPanic
INVARIANT NoDatagramWithVc
INVARIANT TruncationRetriedOverTcp
INVARIANT NeverTruncatedFromUdp
INVARIANT SearchOrder
INVARIANT SearchResult
INVARIANT FoundIsForCandidate

CHECK_DEADLOCK TRUE
