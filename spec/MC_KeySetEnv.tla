---------------------------- MODULE MC_KeySetEnv ----------------------------
(* Model-checking wrapper for KeySetEnv.tla (honest operator + caches).    *)
EXTENDS KeySetEnv, KeySetNames, Json

T1   == {[D |-> 1, R |-> 1, S |-> 1]}
T12  == {[D |-> d, R |-> r, S |-> s] : d \in 1..2, s \in 1..2, r \in 1..2}
TD2  == {[D |-> 2, R |-> 1, S |-> 1], [D |-> 1, R |-> 1, S |-> 2], [D |-> 1, R |-> 2, S |-> 1]}

\* the arguments of the last call do not matter
EView == <<keys, rolls, pub, cache, ttls, last.res>>

\* vacuity guard (see MC_KeySet.tla)
OpNames == <<"add", "delete_key", "start_roll", "propagation1_complete", "cache_expired1",
             "propagation2_complete", "cache_expired2", "roll_done", "tick", "new">>
ResNames == <<"ok", "KeyExists", "KeyNotFound", "KeyNotOld", "DuplicateKeyTag", "WrongKeyType",
              "WrongKeyState", "NoSuitableKeyPresent", "WrongStateForRollOperation",
              "ConflictingRollInProgress", "AlgorithmSetsMismatch", "Wait", "panic", "err">>
RtNames == <<"", "KskRoll", "KskDoubleDsRoll", "ZskRoll", "ZskDoubleSignatureRoll",
             "CskRoll", "AlgorithmRoll">>
IxOf(seq, x) == CHOOSE i \in 1..Len(seq) : seq[i] = x
CoverIx(l) == 1000 + IxOf(OpNames, l.op.op) * 200
                   + IxOf(RtNames, IF "rt" \in DOMAIN l.op THEN l.op.rt ELSE "") * 20
                   + IxOf(ResNames, l.res)
ASSUME \A i \in 1000..4000 : TLCSet(i, 0)
CoverT ==
  LET i == CoverIx(last')
  IN IF TLCGet(i) = 0
     THEN TLCSet(i, 1) /\ PrintT("COVER " \o ToJson([op |-> last'.op.op,
                                   rt |-> IF "rt" \in DOMAIN last'.op THEN last'.op.rt ELSE "",
                                   res |-> last'.res]))
     ELSE TRUE
=============================================================================
