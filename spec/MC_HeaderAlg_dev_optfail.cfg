CONSTANTS
  Dev = {"D_opt_fail_keeps_rcode"}
  MaxOps = 4
  Deep = FALSE
  Carrier = "builder"
SPECIFICATION Spec
INVARIANTS TypeOK RcodeJoin StageCounts GettersTotal
PROPERTIES FailedCallNoop
CHECK_DEADLOCK FALSE
