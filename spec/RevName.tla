------------------------------ MODULE RevName ------------------------------
(* X09 -- reverse lookups: Name::reverse_from_addr + resolv::lookup::addr   *)
(* against RFC 1035 3.5 (IN-ADDR.ARPA) and RFC 3596 2.5 (IP6.ARPA).         *)
(*                                                                          *)
(* Properties (for every IPv4 / IPv6 address and every answer):             *)
(*  P2a  lookup_addr asks exactly ONE question, type PTR, whose name is     *)
(*       the RFC name of the address: IPv4 a.b.c.d -> d.c.b.a.in-addr.arpa  *)
(*       with every octet in decimal without leading zeros; IPv6 -> the 32  *)
(*       nibbles, least significant first, one hex digit per label, under   *)
(*       ip6.arpa;                                                          *)
(*  P2b  the mapping is injective and invertible (parsing the labels back   *)
(*       yields the address), and the name always fits (the `expect` in     *)
(*       lookup_addr is unreachable);                                       *)
(*  P2c  the names returned are exactly the targets of the PTR records of   *)
(*       the answer owned by the canonical name of the question (RFC 2317   *)
(*       CNAME delegation followed), in answer order; an I/O error of the   *)
(*       resolver is passed on.                                             *)
(*                                                                          *)
(* Pure module: the builder steps of reverse_from_addr as a step function   *)
(* (machine in MC_RevName), the RFC names as declarative operators.         *)
EXTENDS Names, FiniteSets

--------------------------------------------------------------------------
(* Declarative: RFC 1035 3.5 / RFC 3596 2.5 *)

Digit(d) == 48 + d
DecLabel(n) == IF n >= 100 THEN <<Digit(n \div 100), Digit((n \div 10) % 10), Digit(n % 10)>>
               ELSE IF n >= 10 THEN <<Digit(n \div 10), Digit(n % 10)>>
               ELSE <<Digit(n)>>
HexDigit(v) == IF v < 10 THEN 48 + v ELSE 87 + v             \* lower case: names compare case-insensitively
L_inaddr == <<105, 110, 45, 97, 100, 100, 114>>
L_arpa   == <<97, 114, 112, 97>>
L_ip6    == <<105, 112, 54>>

RevV4(o) == <<DecLabel(o[4]), DecLabel(o[3]), DecLabel(o[2]), DecLabel(o[1]), L_inaddr, L_arpa>>
Nibble(o, i) ==          \* i-th least significant nibble (1..32) of the 16 octets o
  LET oc == o[16 - ((i - 1) \div 2)] IN IF i % 2 = 1 THEN oc % 16 ELSE oc \div 16
RevV6(o) == [i \in 1..32 |-> <<HexDigit(Nibble(o, i))>>] \o <<L_ip6, L_arpa>>
RevName(v, o) == IF v = 4 THEN RevV4(o) ELSE RevV6(o)

\* the inverse: labels -> address
DecVal(l) == IF Len(l) = 1 THEN l[1] - 48
             ELSE IF Len(l) = 2 THEN (l[1] - 48) * 10 + (l[2] - 48)
             ELSE (l[1] - 48) * 100 + (l[2] - 48) * 10 + (l[3] - 48)
CanonicalDec(l) == Len(l) \in 1..3 /\ (\A i \in 1..Len(l) : l[i] \in 48..57) /\ (Len(l) > 1 => l[1] # 48)
HexVal(c) == IF c <= 57 THEN c - 48 ELSE c - 87
AddrOfV4(n) == <<DecVal(n[4]), DecVal(n[3]), DecVal(n[2]), DecVal(n[1])>>
AddrOfV6(n) == [k \in 1..16 |-> HexVal(n[32 - 2 * (k - 1)][1]) * 16 + HexVal(n[32 - 2 * (k - 1) - 1][1])]

\* laws over single octets (all 256 values): the per-label function is correct
OctetLaws ==
  \A n \in 0..255 :
    /\ CanonicalDec(DecLabel(n)) /\ DecVal(DecLabel(n)) = n
    /\ HexVal(HexDigit(n % 16)) = n % 16 /\ HexVal(HexDigit(n \div 16)) = n \div 16
    /\ \A m \in 0..255 : m # n => DecLabel(m) # DecLabel(n)

--------------------------------------------------------------------------
(* The builder steps of reverse_from_addr (NameBuilder: labels + length).   *)
(*   b = [labels, pc, err]                                                  *)

BInit == [labels |-> <<>>, pc |-> 1, err |-> FALSE]
Fits(b, l) == WireLenRel(b.labels) + 1 + Len(l) + 1 <= 255
Push(b, l) == IF Fits(b, l) THEN [b EXCEPT !.labels = Append(@, l), !.pc = @ + 1]
              ELSE [b EXCEPT !.err = TRUE]

\* append_dec_u8_label as written: hecto, deka, unit
AppendDec(b, v) ==
  LET h == v \div 100  d == (v \div 10) % 10
      l == (IF h > 0 THEN <<h + 48>> ELSE <<>>) \o (IF h > 0 \/ d > 0 THEN <<d + 48>> ELSE <<>>) \o <<(v % 10) + 48>>
  IN Push(b, l)
\* append_hex_digit_label: the low nibble of its argument, upper-case digits
AppendHex(b, v) ==
  LET nb == v % 16 IN Push(b, <<IF nb < 10 THEN 48 + nb ELSE 55 + nb>>)

Steps(v) == IF v = 4 THEN 6 ELSE 34
Step(v, o, b) ==
  IF v = 4 THEN
    CASE b.pc = 1 -> AppendDec(b, o[4])
      [] b.pc = 2 -> AppendDec(b, o[3])
      [] b.pc = 3 -> AppendDec(b, o[2])
      [] b.pc = 4 -> AppendDec(b, o[1])
      [] b.pc = 5 -> Push(b, L_inaddr)
      [] OTHER    -> Push(b, L_arpa)
  ELSE
    IF b.pc <= 32 THEN
      LET item == o[16 - ((b.pc - 1) \div 2)]
      IN IF b.pc % 2 = 1 THEN AppendHex(b, item) ELSE AppendHex(b, item \div 16)
    ELSE IF b.pc = 33 THEN Push(b, L_ip6) ELSE Push(b, L_arpa)

BuiltIsRfcName(v, o, b) == (b.pc > Steps(v)) => NameEq(b.labels, RevName(v, o))
NeverTooLong(b) == ~b.err
Invertible(v, o) == IF v = 4 THEN AddrOfV4(RevV4(o)) = o ELSE AddrOfV6(RevV6(o)) = o

--------------------------------------------------------------------------
(* The answer: what FoundAddrs::iter yields.  ans: "ptr" (n records owned   *)
(* by the question name), "alias" (CNAME to another name that owns them,    *)
(* plus a foreign PTR), "foreign" (a PTR of another owner first), "err".    *)
PtrResult(ans, n) == IF ans = "err" THEN "err" ELSE [k \in 1..n |-> k]
=============================================================================
