CONSTANTS
  Mod = 16
  Past = 3
  Future = 1
  Dev = {"D_pass_no_cookie"}
  Budget = 2
SPECIFICATION LSpec
PROPERTY EventuallyAlwaysServed
CHECK_DEADLOCK FALSE
