---------------------------- MODULE MC_SerialText ----------------------------
(* Two signature times given as text (inception / expiration of an RRSIG,  *)
(* date form or integer form), anywhere in ERAS eras: what the field holds, *)
(* how the two fields compare, and the S->I case generator.  The same two   *)
(* times as *instants* handed to the library (a clock value converted into  *)
(* a serial: From<jiff::Timestamp> for Serial) also range over PRE eras     *)
(* before the epoch; the text forms are confined to t >= 0.                 *)
EXTENDS Serial, Sequences, TLC, Json

CONSTANT ERAS, PRE

VARIABLES t1, t2
xvars == <<t1, t2>>

Times == -(PRE * M) .. ERAS * M - 1
Init == t1 \in Times /\ t2 \in Times

\* a second passes for one of the two, or for both
Tick1 == t1' = t1 + 1 /\ t1' \in Times /\ t2' = t2
Tick2 == t2' = t2 + 1 /\ t2' \in Times /\ t1' = t1
TickBoth == t1' = t1 + 1 /\ t2' = t2 + 1 /\ t1' \in Times /\ t2' \in Times
Next == Tick1 \/ Tick2 \/ TickBoth
Spec == Init /\ [][Next]_xvars
GenSpec == Init /\ [][UNCHANGED xvars]_xvars

IOrder == LawDenoteOrder(t1, t2)
IPlace == LawDenotePlace(t1, t2)
IAdd   == LawDenoteAdd(t1, t2)
IText  == TextFormConstrained(t1) => LawTextRoundTrip(t1)
\* the conversion of an instant computes the instant modulo 2^BITS, before
\* the epoch too, so that the later of two instants less than half a cycle
\* apart is the greater serial and is reached by the serial's addition
IInstant == /\ LawInstantImpl(t1)
            /\ (t2 - t1 \in Addend) =>
                  ImplAdd(ImplOfInstant(t1), t2 - t1) = [ok |-> ImplOfInstant(t2)]
\* vacuity (evaluated in one state): instants before the epoch, on both sides
\* of it and in a later era are in the explored space
IVacuity == (t1 = 0 /\ t2 = 0) =>
              /\ \E u \in Times : u < 0 /\ u + H - 1 >= 0
              /\ \E u \in Times : u < -M
              /\ \E u \in Times : u >= 2 * M
\* time passing for both leaves the comparison of the fields unchanged; a tick
\* of one field is the field's addition of 1
PBoth == [][(t1' = t1 + 1 /\ t2' = t2 + 1)
              => Cmp(Denote(t1'), Denote(t2')) = Cmp(Denote(t1), Denote(t2))]_xvars
POne  == [][(t1' = t1 + 1) => Denote(t1') = Add(Denote(t1), 1)]_xvars

EmitText == (TextFormConstrained(t1) /\ TextFormConstrained(t2)) =>
  PrintT("CASE " \o ToJson(
   [in  |-> [kind |-> "text", k |-> BITS, t1 |-> t1, t2 |-> t2],
    exp |-> [v1 |-> Denote(t1), v2 |-> Denote(t2),
             cmp |-> Cmp(Denote(t1), Denote(t2)), written |-> TRUE]]))

\* two instants converted into serials: the values, their comparison, and --
\* when t2 is 0 .. 2^(BITS-1)-1 seconds after t1 -- the first serial advanced
\* by the elapsed seconds (Serial::add), which must be the second serial
EmitInstant == PrintT("CASE " \o ToJson(
   [in  |-> [kind |-> "instant", k |-> BITS, t1 |-> t1, t2 |-> t2],
    exp |-> [v1 |-> Denote(t1), v2 |-> Denote(t2),
             cmp |-> Cmp(Denote(t1), Denote(t2)),
             adv |-> IF t2 - t1 \in Addend THEN [ok |-> Denote(t2)] ELSE [na |-> TRUE]]]))
=============================================================================
