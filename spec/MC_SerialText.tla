---------------------------- MODULE MC_SerialText ----------------------------
(* Two signature times given as text (inception / expiration of an RRSIG,  *)
(* date form or integer form), anywhere in ERAS eras: what the field holds, *)
(* how the two fields compare, and the S->I case generator.                 *)
EXTENDS Serial, Sequences, TLC, Json

CONSTANT ERAS

VARIABLES t1, t2
xvars == <<t1, t2>>

Times == 0 .. ERAS * M - 1
Init == t1 \in Times /\ t2 \in Times

\* a second passes for one of the two, or for both
Tick1 == t1' = t1 + 1 /\ t1' \in Times /\ t2' = t2
Tick2 == t2' = t2 + 1 /\ t2' \in Times /\ t1' = t1
TickBoth == t1' = t1 + 1 /\ t2' = t2 + 1 /\ t1' \in Times /\ t2' \in Times
Next == Tick1 \/ Tick2 \/ TickBoth
Spec == Init /\ [][Next]_xvars
GenSpec == Init /\ [][UNCHANGED xvars]_xvars

IOrder == LawDenoteOrder(t1, t2)
IPlace == LawDenotePlace(t1, t2)
IAdd   == LawDenoteAdd(t1, t2)
IText  == LawTextRoundTrip(t1)
\* time passing for both leaves the comparison of the fields unchanged; a tick
\* of one field is the field's addition of 1
PBoth == [][(t1' = t1 + 1 /\ t2' = t2 + 1)
              => Cmp(Denote(t1'), Denote(t2')) = Cmp(Denote(t1), Denote(t2))]_xvars
POne  == [][(t1' = t1 + 1) => Denote(t1') = Add(Denote(t1), 1)]_xvars

EmitText == PrintT("CASE " \o ToJson(
   [in  |-> [kind |-> "text", k |-> BITS, t1 |-> t1, t2 |-> t2],
    exp |-> [v1 |-> Denote(t1), v2 |-> Denote(t2),
             cmp |-> Cmp(Denote(t1), Denote(t2)), written |-> TRUE]]))
=============================================================================
