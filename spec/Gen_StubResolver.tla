--------------------------- MODULE Gen_StubResolver ---------------------------
(* S->I: every complete behaviour of StubResolver (one public call under one *)
(* environment script) becomes a case for replay_stub: the configuration and *)
(* the script as input, the requests the servers must see (server, time /    *)
(* transport / question) and the result as expectation.                      *)
EXTENDS StubResolver, Json

CONSTANT Fam          \* "query" | "sock" | "search"
VARIABLES hist,       \* scripts of the questions asked so far
          first       \* server contacted first in round 1 of the first question
gvars == <<vars, hist, first>>

G_SearchSet  == {<<>>, <<0>>, <<1>>, <<1, 2>>, <<1, 0, 2>>, <<2, 1, 0>>}
G_SearchSetT == G_SearchSet \cup {<<0, 1>>, <<2, 0>>, <<1, 2, 3>>}
G_None == {{}}
MCQ_SearchX == {<<>>}
G_TooLong == {{}, {2}}
G_TcpOnly == {{}, {1}, {2}}

GenInit == Init /\ hist = <<>> /\ first = 0
GenNext == /\ Next
           /\ hist' = IF qs' # qs THEN Append(hist, [c |-> lc, qt |-> qt, sc |-> script']) ELSE hist
           /\ first' = IF first = 0 /\ order' # <<>> THEN order'[1] ELSE first
GenDone == sph = "done" /\ UNCHANGED gvars
GenSpec == GenInit /\ [][GenNext \/ GenDone]_gvars

QueryCase ==
  LET sc == hist[1].sc
  IN ToJson([in |-> [fam |-> "query", ns |-> cfg.ns, tmo |-> cfg.tmo,
                     script |-> [s \in 1..cfg.ns |-> <<sc[s].u, sc[s].lat>>],
                     first |-> IF first = 0 THEN 0 ELSE first - 1],
             exp |-> [reqs |-> [i \in 1..Len(reqs) |-> <<reqs[i].s - 1, reqs[i].t>>],
                      res |-> ResJson(sres), t |-> now]])

SockCase ==
  LET sc == hist[1].sc
  IN ToJson([in |-> [fam |-> "sock", usevc |-> cfg.usevc,
                     servers |-> [s \in 1..cfg.ns |-> <<s \in cfg.tcponly, sc[s].u, sc[s].t>>],
                     first |-> IF first = 0 THEN 0 ELSE first - 1],
             exp |-> [reqs |-> [i \in 1..Len(reqs) |-> <<reqs[i].s - 1, reqs[i].tr>>],
                      res |-> ResJson(sres)]])

\* one script line per candidate: [cand, outcome for A, outcome for AAAA, latency]
ScriptOf(c) == LET ia == CHOOSE i \in 1..Len(hist) : hist[i].c = c /\ hist[i].qt = "A"
                   i4 == CHOOSE i \in 1..Len(hist) : hist[i].c = c /\ hist[i].qt = "AAAA"
               IN <<c, hist[ia].sc[1].u, hist[i4].sc[1].u, hist[ia].sc[1].lat>>
SetToSeq(S) == LET RECURSIVE f(_) f(T) == IF T = {} THEN <<>> ELSE LET x == MinOf(T) IN <<x>> \o f(T \ {x}) IN f(S)
SearchCase ==
  LET cs == {hist[i].c : i \in 1..Len(hist)}
      cseq == SetToSeq(cs)
  IN ToJson([in |-> [fam |-> "search", search |-> cfg.search, ndots |-> cfg.ndots, dots |-> cfg.dots,
                     abs |-> cfg.call = "lookup", toolong |-> SetToSeq(cfg.toolong), tmo |-> cfg.tmo,
                     script |-> [i \in 1..Len(cseq) |-> ScriptOf(cseq[i])]],
             exp |-> [qs |-> [i \in 1..Len(qs) |-> <<qs[i][1], qs[i][2]>>],
                      res |-> FoundJson(sres)]])

\* behaviours the executor can reproduce exactly: no two events at the same
\* instant, and a second round (after FORMERR) only where the order of the
\* servers does not matter; at search level the A and the AAAA question of a
\* candidate have the same latency
Reproducible ==
  /\ ~tie
  /\ (round = 1 \/ cfg.ns <= 1)
  /\ (Fam = "search" => \A i, j \in 1..Len(hist) : hist[i].c = hist[j].c => hist[i].sc[1].lat = hist[j].sc[1].lat)

\* FORMERR is only replayed against a single server (see Reproducible): do not
\* explore the second round elsewhere
GenPrune == cfg.ns <= 1 \/ \A s \in DOMAIN script : script[s].u # "FE"

Emit == (sph = "done" /\ Reproducible) =>
          PrintT("CASE " \o (CASE Fam = "query" -> QueryCase
                               [] Fam = "sock" -> SockCase
                               [] OTHER -> SearchCase))
=============================================================================
