--------------------------- MODULE ValidatorConn ---------------------------
(* C14: what net::client::validator::Connection shows the application, as a *)
(* function of the validation state of the answer and the request's flags   *)
(* CD (checking disabled), AD (RFC 6840 5.7: "I understand AD") and the     *)
(* EDNS DO bit (RFC 4035 3.2, 4.6; RFC 6840 5.7-5.9).                       *)
\* (Indeterminate: no trust anchor above the name - shown like Insecure)
States == {"Secure", "Insecure", "Bogus", "Indeterminate"}

ConnView(st, cd, ad, do) ==
  [ \* with CD the answer is passed on unvalidated, whatever it is
    servfail |-> ~cd /\ st = "Bogus",
    \* AD only for an answer this validator found Secure, only to a requester
    \* that signalled interest (DO or AD), never for unvalidated data - also
    \* not when the upstream's answer carried AD
    ad       |-> ~cd /\ st = "Secure" /\ (do \/ ad),
    \* RRSIG / NSEC / NSEC3 are removed unless the requester set DO
    stripped |-> ~do ]
=============================================================================
