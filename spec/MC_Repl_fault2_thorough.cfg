CONSTANTS
  Dev <- EnvDev
  XDev <- XEnvDev
  Hists <- HistsB
  Bases = {14}
  Reqs <- ReqsAll
  Keys = {"good"}
  OldC <- OldC9
  MaxMsgs = 2
  LaterQ = {FALSE}
  FaultKinds = {"drop", "dup", "swap", "truncrec", "fliprec", "flipmac", "strip", "rekey", "splice", "replay", "forge", "burst", "cut"}
  MaxFaults = 2
  Bursts = {99}
  Prim = "scripted"
SPECIFICATION Spec
INVARIANT Replicated
INVARIANT NoPartialInOrder
INVARIANT PublishedLegit
INVARIANT AcceptedIsPrefix
INVARIANT AppliedIsCurrent
INVARIANT KeyMismatchNothing
INVARIANT AlteredRequestNothing
INVARIANT FailureExplained
INVARIANT TamperNoticed
INVARIANT Emit
CHECK_DEADLOCK FALSE
