CONSTANTS
  Mod = 64
  Past = 12
  Future = 4
  Dev = {"D_pass_no_cookie"}
  NowAll = TRUE
SPECIFICATION Spec
INVARIANT P1_DeniedNeedsCookie
INVARIANT P2_ValidIffExact
INVARIANT P3a_CookieOnlyValidNow
INVARIANT P3b_NoCookieUnasked
INVARIANT P4_Total
INVARIANT P5_RetryConverges
CHECK_DEADLOCK FALSE
