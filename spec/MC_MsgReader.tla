---------------------------- MODULE MC_MsgReader ----------------------------
(* Call orders on a few well-formed and hostile messages: every sequence of  *)
(* at most MaxOps public read calls, with the invariants of MsgReader.tla,   *)
(* and (Gen configuration) every such sequence as an S->I behaviour with the  *)
(* expected result after every call.  Two alphabets share the machine: the    *)
(* section cursors together with the message-level calls, opened on the       *)
(* question section (mode "msg"), and the section cursors together with the   *)
(* typed views (limit_to, limit_to_in, into_records, unwrap, clone), opened   *)
(* on any section (mode "view").                                              *)
EXTENDS MsgReader, Json

CONSTANTS MaxOps,       \* calls per behaviour, mode "msg"
          MaxViewOps,   \* calls per behaviour, mode "view"
          ManyViews     \* TRUE: the larger set of views (thorough tier)

VARIABLES mode,        \* which alphabet
          start        \* the section the cursor was opened on

VARIABLE hist          \* the calls so far with their results (generator only)
allvars == <<m, cur, saved, last, hist, mode, start>>

Hdr(fl, qd, an, ns, ar) == EncU16(4660) \o EncU16(fl) \o EncU16(qd) \o EncU16(an) \o EncU16(ns) \o EncU16(ar)
RecO(owner, t, class, ttlhi, ttllo, rd, delta) ==
  owner \o EncU16(t) \o EncU16(class) \o EncU16(ttlhi) \o EncU16(ttllo) \o EncU16(Len(rd) + delta) \o rd
QA == <<1, 97, 0, 0, 1, 0, 1>>                     \* a. A IN at 12..18

Msgs == {
  \* well-formed: a. CNAME b. / b. A / OPT with one option, names compressed
  Hdr(33024, 1, 2, 0, 1) \o QA \o RecO(<<192, 12>>, 5, 1, 0, 60, <<1, 98, 0>>, 0)
     \o RecO(<<192, 31>>, 1, 1, 0, 60, <<1, 2, 3, 4>>, 0)
     \o RecO(<<0>>, 41, 1232, 0, 32768, <<0, 10, 0, 1, 7>>, 0),
  \* well-formed: NS + MX + SOA with pointers into earlier RDATA
  Hdr(33792, 1, 1, 1, 1) \o QA \o RecO(<<192, 12>>, 2, 1, 0, 60, <<2, 110, 115, 192, 12>>, 0)
     \o RecO(<<192, 31>>, 6, 1, 0, 60, <<192, 31, 192, 12>> \o [i \in 1..20 |-> 0], 0)
     \o RecO(<<192, 12>>, 15, 1, 0, 60, <<0, 10, 192, 31>>, 0),
  \* ANCOUNT 0xFFFF with one real CNAME record
  Hdr(32768, 1, 65535, 0, 0) \o QA \o RecO(<<192, 12>>, 5, 1, 0, 60, <<0>>, 0),
  \* second question is a pointer to itself; ANCOUNT 1
  Hdr(0, 2, 1, 0, 0) \o QA \o <<192, 19, 0, 1, 0, 1>>,
  \* first answer's owner points forward: parsing fails, skipping works,
  \* the authority section behind it is readable
  Hdr(32768, 1, 1, 1, 0) \o QA \o RecO(<<192, 40>>, 1, 1, 0, 60, <<1, 2, 3, 4>>, 0)
     \o RecO(<<192, 12>>, 2, 1, 0, 60, <<192, 12>>, 0),
  \* RDLENGTH one more than there is; and a CNAME loop a -> b -> a in a full message
  Hdr(32768, 1, 1, 0, 0) \o QA \o RecO(<<192, 12>>, 16, 1, 0, 60, <<1, 97>>, 1),
  Hdr(32768, 1, 2, 0, 0) \o QA \o RecO(<<192, 12>>, 5, 1, 0, 60, <<1, 98, 0>>, 0)
     \o RecO(<<1, 66, 0>>, 5, 1, 0, 60, <<1, 65, 0>>, 0)
}

\* records of several classes (CH 3, HS 4, NONE 254, ANY 255 next to IN), of
\* several types, one with RDATA its type rejects: what the typed views
\* filter on.  An RFC 2136 update looks like the second one.
MixedMsgs == {
  \* answer: A CH / A IN with three octets / A IN / CNAME HS; authority: A HS
  Hdr(33792, 1, 4, 1, 0) \o QA \o RecO(<<192, 12>>, 1, 3, 0, 60, <<192, 0, 2, 1>>, 0)
     \o RecO(<<192, 12>>, 1, 1, 0, 61, <<192, 0, 2>>, 0)
     \o RecO(<<192, 12>>, 1, 1, 0, 62, <<192, 0, 2, 3>>, 0)
     \o RecO(<<192, 12>>, 5, 4, 0, 63, <<1, 98, 0>>, 0)
     \o RecO(<<1, 98, 0>>, 1, 4, 0, 64, <<192, 0, 2, 5>>, 0),
  \* answer: CNAME CH / MX IN with trailing junk; additional: A NONE / A IN / OPT / A ANY
  Hdr(43008, 1, 2, 0, 4) \o QA \o RecO(<<192, 12>>, 5, 3, 0, 60, <<1, 98, 0>>, 0)
     \o RecO(<<192, 12>>, 15, 1, 0, 60, <<0, 10, 192, 12, 7>>, 0)
     \o RecO(<<192, 12>>, 1, 254, 0, 0, <<10, 0, 0, 1>>, 0)
     \o RecO(<<1, 66, 0>>, 1, 1, 0, 9, <<10, 0, 0, 2>>, 0)
     \o RecO(<<0>>, 41, 1232, 0, 32768, <<0, 10, 0, 1, 7>>, 0)
     \o RecO(<<192, 12>>, 1, 255, 0, 0, <<10, 0, 0, 3>>, 0),
  \* answer: A CH, then A IN whose owner points forward (framing error), then A IN
  Hdr(33792, 1, 3, 0, 0) \o QA \o RecO(<<192, 12>>, 1, 3, 0, 60, <<192, 0, 2, 1>>, 0)
     \o RecO(<<192, 60>>, 1, 1, 0, 61, <<192, 0, 2, 2>>, 0)
     \o RecO(<<192, 12>>, 1, 1, 0, 62, <<192, 0, 2, 3>>, 0)
}

Ops == {"next", "nextsec", "fork", "restore", "canon", "opt", "first"}

\* the views of mode "view"
ViewsSmall == { TView("lim", "A"), TView("limin", "A"), TView("limin", "All"), TView("any", "All") }
ViewsMany == ViewsSmall \cup { TView("lim", "All"), TView("lim", "Cname"), TView("limin", "Cname"),
                                TView("limin", "Mx"), TView("lim", "Opt"), TView("lim", "Zone"),
                                TView("limin", "Unknown") }
Views == IF ManyViews THEN ViewsMany ELSE ViewsSmall
\* well-formed, forward-pointing owner (parse fails, skip works), mixed classes
ViewMsgs == MixedMsgs \cup
  { msg \in Msgs : QD(msg) = 1 /\ AN(msg) \in 1..2 /\ (NS(msg) + AR(msg) >= 1 \/ (At(msg, 19) = 192 /\ At(msg, 20) = 40)) }

MCInit ==
  /\ hist = <<>>
  /\ \/ mode = "msg" /\ start = 0 /\ \E msg \in Msgs : InitFor(msg)
     \/ mode = "view" /\ \E msg \in ViewMsgs, sec \in 0..3 : CanOpen(msg, sec) /\ InitAt(msg, sec) /\ start = sec
Step(act, md) ==
  /\ md \in {mode, "both"}
  /\ act
  /\ Len(hist) < (IF mode = "msg" THEN MaxOps ELSE MaxViewOps)
  /\ hist' = Append(hist, last') /\ UNCHANGED <<mode, start>>
MCNext == Step(NextItem, "both") \/ Step(NextSection, "both") \/ Step(Fork, "both") \/ Step(Restore, "both")
          \/ Step(CanonName, "msg") \/ Step(OptCall, "msg") \/ Step(FirstQ, "msg")
          \/ (\E v \in Views : Step(Limit(v), "view")) \/ Step(Unwrap, "view")
MCSpec == MCInit /\ [][MCNext]_allvars

\* exhaustiveness over states: the history is not part of the fingerprint
NoHistView == <<m, cur, saved, last, Len(hist), mode, start>>

\* the messages of this module carry no record whose layout the specification
\* does not know where a typed view would take it (the expected results of
\* the S->I behaviours are single-valued)
NoUndecided == last.k # "und"

\* S->I: one case per call sequence (every prefix is a case of its own)
DevI == INSTANCE Wire WITH Dev <- DevNames
EmitOrders == Len(hist) >= 1 =>
  LET ideal == [i \in 1..Len(hist) |-> [k |-> hist[i].k, v |-> hist[i].v, pos |-> hist[i].pos]]
      dcn == DevI!CanonicalName(m)
      devres == [i \in 1..Len(hist) |->
                   IF hist[i].op = "canon" THEN [k |-> dcn.k, v |-> dcn.name, pos |-> hist[i].pos]
                   ELSE ideal[i]]
  IN PrintT("CASE " \o ToJson(
       [in |-> [m |-> m, start |-> start, ops |-> [i \in 1..Len(hist) |-> hist[i].op]],
        exp |-> [res |-> ideal],
        dev |-> IF devres # ideal THEN [D_cname_ancount_overflow |-> [res |-> devres]] ELSE [none |-> 0]]))
=============================================================================
