---------------------------- MODULE MC_MsgReader ----------------------------
(* Call orders on a few well-formed and hostile messages: every sequence of  *)
(* at most MaxOps public read calls, with the invariants of MsgReader.tla,   *)
(* and (Gen configuration) every such sequence as an S->I behaviour with the  *)
(* expected result after every call.                                          *)
EXTENDS MsgReader, Json

CONSTANT MaxOps

VARIABLE hist          \* the calls so far with their results (generator only)
allvars == <<m, cur, saved, last, hist>>

Hdr(fl, qd, an, ns, ar) == EncU16(4660) \o EncU16(fl) \o EncU16(qd) \o EncU16(an) \o EncU16(ns) \o EncU16(ar)
RecO(owner, t, class, ttlhi, ttllo, rd, delta) ==
  owner \o EncU16(t) \o EncU16(class) \o EncU16(ttlhi) \o EncU16(ttllo) \o EncU16(Len(rd) + delta) \o rd
QA == <<1, 97, 0, 0, 1, 0, 1>>                     \* a. A IN at 12..18

Msgs == {
  \* well-formed: a. CNAME b. / b. A / OPT with one option, names compressed
  Hdr(33024, 1, 2, 0, 1) \o QA \o RecO(<<192, 12>>, 5, 1, 0, 60, <<1, 98, 0>>, 0)
     \o RecO(<<192, 31>>, 1, 1, 0, 60, <<1, 2, 3, 4>>, 0)
     \o RecO(<<0>>, 41, 1232, 0, 32768, <<0, 10, 0, 1, 7>>, 0),
  \* well-formed: NS + MX + SOA with pointers into earlier RDATA
  Hdr(33792, 1, 1, 1, 1) \o QA \o RecO(<<192, 12>>, 2, 1, 0, 60, <<2, 110, 115, 192, 12>>, 0)
     \o RecO(<<192, 31>>, 6, 1, 0, 60, <<192, 31, 192, 12>> \o [i \in 1..20 |-> 0], 0)
     \o RecO(<<192, 12>>, 15, 1, 0, 60, <<0, 10, 192, 31>>, 0),
  \* ANCOUNT 0xFFFF with one real CNAME record
  Hdr(32768, 1, 65535, 0, 0) \o QA \o RecO(<<192, 12>>, 5, 1, 0, 60, <<0>>, 0),
  \* second question is a pointer to itself; ANCOUNT 1
  Hdr(0, 2, 1, 0, 0) \o QA \o <<192, 19, 0, 1, 0, 1>>,
  \* first answer's owner points forward: parsing fails, skipping works,
  \* the authority section behind it is readable
  Hdr(32768, 1, 1, 1, 0) \o QA \o RecO(<<192, 40>>, 1, 1, 0, 60, <<1, 2, 3, 4>>, 0)
     \o RecO(<<192, 12>>, 2, 1, 0, 60, <<192, 12>>, 0),
  \* RDLENGTH one more than there is; and a CNAME loop a -> b -> a in a full message
  Hdr(32768, 1, 1, 0, 0) \o QA \o RecO(<<192, 12>>, 16, 1, 0, 60, <<1, 97>>, 1),
  Hdr(32768, 1, 2, 0, 0) \o QA \o RecO(<<192, 12>>, 5, 1, 0, 60, <<1, 98, 0>>, 0)
     \o RecO(<<1, 66, 0>>, 5, 1, 0, 60, <<1, 65, 0>>, 0)
}

Ops == {"next", "nextsec", "fork", "restore", "canon", "opt", "first"}

MCInit == \E msg \in Msgs : InitFor(msg) /\ hist = <<>>
Step(act) == act /\ Len(hist) < MaxOps /\ hist' = Append(hist, last')
MCNext == Step(NextItem) \/ Step(NextSection) \/ Step(Fork) \/ Step(Restore)
          \/ Step(CanonName) \/ Step(OptCall) \/ Step(FirstQ)
MCSpec == MCInit /\ [][MCNext]_allvars

\* exhaustiveness over states: the history is not part of the fingerprint
NoHistView == <<m, cur, saved, last, Len(hist)>>

\* S->I: one case per call sequence (every prefix is a case of its own)
DevI == INSTANCE Wire WITH Dev <- DevNames
EmitOrders == Len(hist) >= 1 =>
  LET ideal == [i \in 1..Len(hist) |-> [k |-> hist[i].k, v |-> hist[i].v, pos |-> hist[i].pos]]
      dcn == DevI!CanonicalName(m)
      devres == [i \in 1..Len(hist) |->
                   IF hist[i].op = "canon" THEN [k |-> dcn.k, v |-> dcn.name, pos |-> hist[i].pos]
                   ELSE ideal[i]]
  IN PrintT("CASE " \o ToJson(
       [in |-> [m |-> m, ops |-> [i \in 1..Len(hist) |-> hist[i].op]],
        exp |-> [res |-> ideal],
        dev |-> IF devres # ideal THEN [D_cname_ancount_overflow |-> [res |-> devres]] ELSE [none |-> 0]]))
=============================================================================
