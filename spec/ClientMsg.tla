----------------------------- MODULE ClientMsg -----------------------------
(* What a client transport looks at in a DNS message when it decides which  *)
(* request a response belongs to.  Shared by ClientStream, ClientDgram and  *)
(* ClientCompose.                                                           *)
(*                                                                          *)
(* A message is abstracted to                                               *)
(*   [id, qr, q, rcode, body, tc, ka]                                       *)
(*   id    : the 16-bit ID (small naturals in the models)                   *)
(*   qr    : the QR bit (TRUE = response)                                   *)
(*   q     : the question: 0 = empty question section, n > 0 = question n   *)
(*           (requests always carry exactly one question)                   *)
(*   rcode : 0 = NOERROR, otherwise an error code                           *)
(*   body  : TRUE iff answer, authority or additional section non-empty     *)
(*   tc    : the TC bit                                                     *)
(*   ka    : -1 = no edns-tcp-keepalive option, n >= 0 = option with an     *)
(*           idle timeout of n ticks (an OPT record makes body TRUE)        *)
(*   recs  : the zone-transfer view of the answer section: one entry per    *)
(*           SOA record (its serial, > 0) or other transfer record (0);     *)
(*           <<>> for ordinary messages                                     *)
(*                                                                          *)
(* A question is a triple (name, type, class).  Question numbers encode it: *)
(*   n (1..99)  name n, type A, class IN                                    *)
(*   100 + n    same name, another type (AAAA)                              *)
(*   200 + n    same name and type, another class (CH)                      *)
(*   300 + n    the same question with the name in another letter case      *)
(*              (equal to n: names compare case-insensitively)              *)
(*   400 + n    QDCOUNT 2: question n and a second question                 *)
(*   500 + n    name n, type AXFR;   600 + n    name n, type IXFR           *)
EXTENDS Naturals, Integers, Sequences

NoQ == 0

Msg(id, qr, q, rcode, body, tc, ka) ==
  [id |-> id, qr |-> qr, q |-> q, rcode |-> rcode, body |-> body,
   tc |-> tc, ka |-> ka, recs |-> <<>>]

\* a zone-transfer response
XfrMsg(id, q, rcode, recs) ==
  [id |-> id, qr |-> TRUE, q |-> q, rcode |-> rcode, body |-> recs # <<>>,
   tc |-> FALSE, ka |-> -1, recs |-> recs]

\* questions compare by (name ignoring case, type, class)
QNorm(x) == IF x >= 300 /\ x < 400 THEN x - 300 ELSE x
QKind(x) == IF x >= 600 /\ x < 700 THEN "ixfr" ELSE IF x >= 500 /\ x < 600 THEN "axfr" ELSE "single"

(* The property's notion of "answers that caller's own request": same ID    *)
(* and same question; a header-only error reply needs only the ID.  This is *)
(* the declarative oracle; it is also what RequestMessage::is_answer        *)
(* computes (src/net/client/request.rs).                                    *)
HeaderOnlyError(f) == f.rcode # 0 /\ f.q = NoQ /\ ~f.body

IsAnswer(f, id, q) ==
  /\ f.qr
  /\ f.id = id
  /\ (HeaderOnlyError(f) \/ QNorm(f.q) = q)

\* RequestMessageMulti::is_answer: an AXFR response may leave the question
\* section empty (RFC 5936 2.2)
IsAnswerMulti(f, id, q) ==
  /\ f.qr
  /\ f.id = id
  /\ (HeaderOnlyError(f) \/ (QKind(q) = "axfr" /\ f.q = NoQ) \/ QNorm(f.q) = q)

--------------------------------------------------------------------------
(* check_stream (src/net/client/stream.rs): where a zone transfer ends.    *)
(* State [k, s]: k in AI (AXFRInit) AF (AXFRFirstSoa) II (IXFRInit) IF      *)
(* (IXFRFirstSoa) D1 (IXFRFirstDiffSoa) D2 (IXFRSecondDiffSoa) Done Err;    *)
(* s the serial of the first SOA.  Result [eof, x, ans].                    *)
XSt(k, sr) == [k |-> k, s |-> sr]
XRes(eof, x, ans) == [eof |-> eof, x |-> x, ans |-> ans]
XErrSt == XSt("Err", 0)

\* the record loop: [x, bad] (bad: switched to the error state midway)
RECURSIVE XRecs(_, _)
XRecs(x, recs) ==
  IF recs = <<>> THEN [x |-> x, bad |-> FALSE]
  ELSE LET rr == Head(recs)
           soa == rr > 0
           nx == CASE x.k = "AI" -> IF soa THEN XSt("AF", rr) ELSE XErrSt
                   [] x.k = "AF" -> IF soa THEN (IF rr = x.s THEN XSt("Done", x.s) ELSE XErrSt) ELSE x
                   [] x.k = "II" -> IF soa THEN XSt("IF", rr) ELSE XErrSt
                   [] x.k = "IF" -> IF soa THEN (IF rr = x.s THEN XSt("Done", x.s) ELSE XSt("D1", x.s))
                                    ELSE XSt("AF", x.s)
                   [] x.k = "D1" -> IF soa THEN XSt("D2", x.s) ELSE x
                   [] x.k = "D2" -> IF soa THEN (IF rr = x.s THEN XSt("Done", x.s) ELSE XSt("D1", x.s))
                                    ELSE x
                   [] OTHER      -> XErrSt          \* a record after the end
       IN IF nx.k = "Err" THEN [x |-> XErrSt, bad |-> TRUE] ELSE XRecs(nx, Tail(recs))

CheckStream(f, x, id, q) ==
  IF x.k \in {"AI", "II"} /\ ~IsAnswerMulti(f, id, q) THEN XRes(FALSE, XErrSt, FALSE)
  ELSE IF x.k \in {"Done", "Err"} THEN XRes(FALSE, XErrSt, FALSE)
  ELSE IF f.rcode # 0
       THEN IF IsAnswerMulti(f, id, q) THEN XRes(TRUE, x, TRUE) ELSE XRes(FALSE, XErrSt, FALSE)
  ELSE LET w == XRecs(x, f.recs)
       IN IF w.bad THEN XRes(FALSE, XErrSt, FALSE)
          ELSE IF w.x.k \in {"AI", "II"} THEN XRes(FALSE, XErrSt, FALSE)   \* empty answer section
          ELSE IF w.x.k \in {"IF", "Done"} THEN XRes(TRUE, XSt("Done", w.x.s), TRUE)
          ELSE XRes(FALSE, w.x, TRUE)

(* Outcomes handed to a caller.  n is the serial number of the peer message *)
(* that was delivered (ghost, used for "no message is delivered twice").    *)
(* fin: nothing follows (always for a single-response request; for a zone  *)
(* transfer only the end-of-stream mark or a connection error).            *)
OkOut(f, n)  == [ok |-> TRUE, f |-> f, n |-> n, why |-> "response", fin |-> TRUE]
ErrOut(why)  == [ok |-> FALSE, f |-> Msg(0, FALSE, 0, 0, FALSE, FALSE, -1),
                 n |-> 0, why |-> why, fin |-> TRUE]
PartOut(f, n) == [OkOut(f, n) EXCEPT !.fin = FALSE]          \* one message of a transfer
WrongPart     == [ErrOut("wrongreply") EXCEPT !.fin = FALSE] \* WrongReplyForQuery, stream stays open
EofOut        == [ErrOut("endmark") EXCEPT !.ok = TRUE]          \* Ok(None)

Min2(a, b) == IF a <= b THEN a ELSE b
=============================================================================
