----------------------------- MODULE ClientMsg -----------------------------
(* What a client transport looks at in a DNS message when it decides which  *)
(* request a response belongs to.  Shared by ClientStream, ClientDgram and  *)
(* ClientCompose.                                                           *)
(*                                                                          *)
(* A message is abstracted to                                               *)
(*   [id, qr, q, rcode, body, tc, ka]                                       *)
(*   id    : the 16-bit ID (small naturals in the models)                   *)
(*   qr    : the QR bit (TRUE = response)                                   *)
(*   q     : the question: 0 = empty question section, n > 0 = question n   *)
(*           (requests always carry exactly one question)                   *)
(*   rcode : 0 = NOERROR, otherwise an error code                           *)
(*   body  : TRUE iff answer, authority or additional section non-empty     *)
(*   tc    : the TC bit                                                     *)
(*   ka    : -1 = no edns-tcp-keepalive option, n >= 0 = option with an     *)
(*           idle timeout of n ticks (an OPT record makes body TRUE)        *)
EXTENDS Naturals, Integers, Sequences

NoQ == 0

Msg(id, qr, q, rcode, body, tc, ka) ==
  [id |-> id, qr |-> qr, q |-> q, rcode |-> rcode, body |-> body,
   tc |-> tc, ka |-> ka]

(* The property's notion of "answers that caller's own request": same ID    *)
(* and same question; a header-only error reply needs only the ID.  This is *)
(* the declarative oracle; it is also what RequestMessage::is_answer        *)
(* computes (src/net/client/request.rs).                                    *)
HeaderOnlyError(f) == f.rcode # 0 /\ f.q = NoQ /\ ~f.body

IsAnswer(f, id, q) ==
  /\ f.qr
  /\ f.id = id
  /\ (HeaderOnlyError(f) \/ f.q = q)

(* Outcomes handed to a caller.  n is the serial number of the peer message *)
(* that was delivered (ghost, used for "no message is delivered twice").    *)
OkOut(f, n)  == [ok |-> TRUE, f |-> f, n |-> n, why |-> "response"]
ErrOut(why)  == [ok |-> FALSE, f |-> Msg(0, FALSE, 0, 0, FALSE, FALSE, -1),
                 n |-> 0, why |-> why]

Min2(a, b) == IF a <= b THEN a ELSE b
=============================================================================
