CONSTANTS
  Mod = 64
  Past = 12
  Future = 4
  Dev = {}
  NowAll = FALSE
SPECIFICATION Spec
INVARIANT NeverBadCookie
CHECK_DEADLOCK FALSE
