CONSTANTS
  Dev = {}
  Big = FALSE
SPECIFICATION Spec
INVARIANT NewRuleStricter
INVARIANT NewViewConsistent
CHECK_DEADLOCK FALSE
