CONSTANTS
  Dev = {}
  TickMs = 10000
  Confs <- LossConfs
  MaxDgrams = 0
  MaxOps = 300
  PathMode = TRUE
  Faults <- NoFaults
SPECIFICATION GenSpec
ACTION_CONSTRAINT EmitPaths
INVARIANT DBudget
INVARIANT DConfigured
INVARIANT DAtMostOnce
CHECK_DEADLOCK FALSE
