CONSTANTS
  Keys <- MCKeys
  KType <- MCKType
  KAlg <- MCKAlg
  MaxTTL = 1
  Dev <- OpenDevs
  KeySeq <- KS_cc
  MaxList = 2
  Ops = {}
  SetKeys = {}
  Rts = {"CskRoll", "AlgorithmRoll"}
  AltTag = {}
  OddLists = FALSE
  WellTyped = TRUE
  NoopRolls = TRUE
SPECIFICATION Spec
VIEW GenView
ACTION_CONSTRAINT EmitT
CHECK_DEADLOCK FALSE
