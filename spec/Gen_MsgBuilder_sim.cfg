CONSTANTS
  Dev = {}
  Scenario = "all"
  MaxOps = 9
  CompSet = {"none", "static", "tree", "hash"}
  TgtSet = {"vec", "array", "stream", "sarray"}
SPECIFICATION Spec
INVARIANT Emit
CHECK_DEADLOCK FALSE
