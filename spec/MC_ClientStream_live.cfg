CONSTANTS
  Dev = {}
  MaxReq = 2
  RT = 1
  DefRT = 2
  IdleCfg = 1
  RqCap = 8
  ChanCap = 8
  MaxFrames = 1
  MaxQ = 1
  MaxId = 1
  KaVals = {}
  XQs = {}
  XfrIds = {}
  XfrAll = FALSE
  QVars = {}
  EndKinds = {"eof", "wfail"}
  Frames <- MCFrames
SPECIFICATION LiveSpec
PROPERTY Completion
CHECK_DEADLOCK FALSE
