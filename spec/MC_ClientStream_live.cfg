CONSTANTS
  Dev = {}
  MaxReq = 2
  TickMs = 10000
  StConfs <- St_1_1
  RqCap = 8
  ChanCap = 8
  MaxFrames = 1
  MaxQ = 1
  MaxId = 1
  KaVals = {}
  XQs = {}
  XfrIds = {}
  XfrAll = FALSE
  QVars = {}
  EndKinds = {"eof", "wfail"}
  Frames <- MCFrames
SPECIFICATION LiveSpec
PROPERTY Completion
CHECK_DEADLOCK FALSE
