--------------------------- MODULE MC_ServerRouting ---------------------------
(* The router machine of ServerRouting.tla over a universe of names that     *)
(* has upper/lower case twins and a label whose text ends in another label   *)
(* (xa / a): every list of at most MaxRoutes routes, every question name.    *)
(* Every call state is also a case for the real QnameRouter (Emit).          *)
EXTENDS ServerRouting, TLC, Json

CONSTANTS MaxRoutes, Wide

Labels == IF Wide THEN {<<97>>, <<65>>, <<120, 97>>, <<98>>}  \* a A xa b
          ELSE {<<97>>, <<65>>, <<120, 97>>}
NamesUpTo(n) == UNION {[1..k -> Labels] : k \in 0..n}
RouteNames == NamesUpTo(2)
QNames == NamesUpTo(3)

Init == RInit
Next == \/ ~last.valid /\ Len(routes) < MaxRoutes /\ \E n \in RouteNames : R_Add(n)
        \/ ~last.valid /\ \E q \in QNames :
              \* request flavours vary with the data instead of multiplying it
              \/ R_Call(q, 1 + (Len(q) % 2) * (Len(routes) % 2), Len(q) \in {1, 3}, Len(routes) # 1)
              \/ q = <<>> /\ R_Call(q, 0, Len(routes) = 1, Len(routes) = 2)
Spec == Init /\ [][Next]_rvars

A_Add == \E n \in RouteNames : R_Add(n)
A_Call == \E q \in QNames, qd \in 0..2, e, m \in BOOLEAN : R_Call(q, qd, e, m)

\* (functions of `routes` alone: evaluated once per route list)
BestOne == ~last.valid => BestIsOneName(QNames)
OrderFree == ~last.valid => OrderIrrelevant(QNames)
\* exactly-once as an action property: a call changes nothing but `last`
CallFrame == [][A_Call => routes' = routes]_rvars

DevMap == IF last.qd = 0 THEN [D_router_no_question_panic |-> [panic |-> TRUE]] ELSE <<>>
Emit == last.valid =>
  PrintT("CASE " \o ToJson([in |-> [k |-> "route", routes |-> routes, q |-> last.q, qd |-> last.qd,
                                    edns |-> last.edns, mw |-> last.mw],
                            exp |-> Reply(last), dev |-> DevMap]))
=============================================================================
