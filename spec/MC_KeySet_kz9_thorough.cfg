CONSTANTS
  Keys <- MCKeys
  KType <- MCKType
  KAlg <- MCKAlg
  MaxTTL = 1
  Dev = {}
  KeySeq <- KS_kz9
  MaxList = 2
  Ops = {}
  SetKeys = {}
  Rts = {"AlgorithmRoll", "KskRoll"}
  AltTag = {}
  OddLists = FALSE
  WellTyped = TRUE
  NoopRolls = FALSE
SPECIFICATION Spec
VIEW MCView
ACTION_CONSTRAINT CoverT
INVARIANT Exclusive
INVARIANT NoPanic
INVARIANT TtlOnlyWhenWaiting
INVARIANT Shape
PROPERTY Ordered
PROPERTY RefusedUnchanged
CHECK_DEADLOCK FALSE
