--------------------------- MODULE Gen_ClientDgram ---------------------------
(* S->I: one case per transition of the macro-step state graph of           *)
(* ClientDgram (path to the source state, then the operation) with the      *)
(* projection after every operation: datagrams sent (question per attempt), *)
(* outcomes, whether the request still waits.                               *)
EXTENDS ClientDgram, Json

CONSTANTS MaxOps,
          PathMode   \* TRUE: every behaviour (up to MaxOps) over one datagram per
                     \* class is a case, emitted where it ends; FALSE: one case
                     \* per transition of the state graph, full alphabet
VARIABLE hist
gvars == <<dvars, ndg, hist>>

GFaults == {[kind |-> "none", at |-> 0]}
           \cup {[kind |-> k, at |-> a] : k \in {"connect", "send", "short"}, a \in 1..(1 + MaxRetries)}

OutJson(o) == IF o.ok THEN [ok |-> o.f] ELSE [err |-> TRUE]
RECURSIVE MapOut(_)
MapOut(sq) == IF sq = <<>> THEN <<>> ELSE <<OutJson(Head(sq))>> \o MapOut(Tail(sq))
\* t: ticks between submission and completion (-1 while pending).  The
\* specification completes a request no later than (1 + MaxRetries) * RD.
Proj(s) == [sent |-> s.sent, done |-> MapOut(s.done), waiting |-> s.ph = "recv",
            t |-> IF s.ph = "done" THEN s.waited ELSE -1]

\* one datagram per class: the answer, an answer to another question, an
\* answer with another ID / the previous attempt's ID, a header-only error,
\* a query, garbage, a receive error
RepAlphabet(s) ==
  {[kind |-> "msg", f |-> f] :
     f \in {Msg(s.att, TRUE, s.q, 0, TRUE, FALSE, -1),
            Msg(s.att, TRUE, s.q + 1, 0, TRUE, FALSE, -1),
            Msg(99, TRUE, s.q, 0, TRUE, FALSE, -1),
            Msg(IF s.att > 1 THEN s.att - 1 ELSE 98, TRUE, s.q, 0, TRUE, FALSE, -1),
            Msg(s.att, TRUE, NoQ, 2, FALSE, FALSE, -1),
            Msg(s.att, FALSE, s.q, 0, FALSE, FALSE, -1),
            Msg(s.att, TRUE, 200 + s.q, 0, TRUE, FALSE, -1),    \* another class
            Msg(s.att, TRUE, 300 + s.q, 0, TRUE, FALSE, -1)}}   \* another letter case: accepted
  \cup {[kind |-> "short", f |-> NoDgram.f], [kind |-> "ioerr", f |-> NoDgram.f]}

OpsOf(s) ==      (IF s.ph = "idle" THEN {DMkOp("submit", 1, NoDgram)} ELSE {})
            \cup (IF s.ph = "recv" /\ ndg < MaxDgrams
                  THEN {DMkOp("deliver", 0, d) :
                          d \in IF PathMode THEN RepAlphabet(s) ELSE DgramAlphabet(s)} ELSE {})
            \cup (IF s.ph = "recv" \/ (s.ph = "done" /\ ~PathMode)
                  THEN {DMkOp("tick", 0, NoDgram)} ELSE {})

OpJson(o) == CASE o.op = "submit"  -> [op |-> "submit", q |-> o.q]
               [] o.op = "deliver" -> [op |-> "deliver", d |-> o.d]
               [] OTHER            -> [op |-> o.op]

GenInit == DInitPred /\ ndg = 0 /\ hist = <<>>
GenNext == /\ Len(hist) < MaxOps
           /\ \E o \in OpsOf(DCur) :
                LET t == DApply(DCur, o)
                IN /\ DSet(t)
                   /\ ndg' = IF o.op = "deliver" THEN ndg + 1 ELSE ndg
                   /\ hist' = Append(hist, [op |-> o, proj |-> Proj(t)])
GenSpec == GenInit /\ [][GenNext]_gvars

CaseOf(h) == ToJson([in |-> [kind |-> "dgram",
                             cfg |-> [rd |-> RD, retries |-> MaxRetries, fault |-> fault],
                             ops |-> [i \in 1..Len(h) |-> OpJson(h[i].op)]],
                     exp |-> [i \in 1..Len(h) |-> h[i].proj]])
EmitTransition == PrintT("CASE " \o CaseOf(hist'))
EmitPaths == (Len(hist') = MaxOps \/ ph' = "done") => PrintT("CASE " \o CaseOf(hist'))
GenView == <<dvars, ndg>>
=============================================================================
