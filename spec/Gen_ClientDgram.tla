--------------------------- MODULE Gen_ClientDgram ---------------------------
(* S->I: one case per transition of the macro-step state graph of           *)
(* ClientDgram (path to the source state, then the operation) with the      *)
(* projection after every operation: datagrams sent (question per attempt), *)
(* outcomes, whether the request still waits.                               *)
EXTENDS ClientDgram, Json

CONSTANTS MaxOps,
          PathMode   \* TRUE: every behaviour (up to MaxOps) over one datagram per
                     \* class is a case, emitted where it ends; FALSE: one case
                     \* per transition of the state graph, full alphabet
VARIABLE hist
gvars == <<dvars, ndg, hist>>

\* configuration scripts
S2(rt, mr) == DgScript("new", <<Call("set_read_timeout", rt), Call("set_max_retries", mr)>>)
S1(f, v)   == DgScript("new", <<Call("set_read_timeout", 10000), Call("set_max_retries", 0), Call(f, v)>>)
\* the state-graph and path generators: a budget with and without retries
GConfs  == {S2(20000, 1), S2(10000, 0)}
GConfsT == {S2(20000, 2), S2(10000, 0), S2(10000, 1)}
\* the loss generator (nothing ever arrives): every setting at, just inside
\* and just outside the ends of its range, set once, twice, in either order,
\* not at all, by every route
LossConfs ==
       {DgScript(r, <<>>) : r \in {"new", "default", "conn_new"}}
  \cup {S2(10000, mr) : mr \in {0, 1, 2, 3, 99, 100, 101, 255}}
  \cup {S2(rt, mr) : rt \in {0, 1, 9999, 10001, 20000, 59999, 60000, 60001, 3600000}, mr \in {0, 1}}
  \cup {DgScript("default", <<Call("set_max_retries", mr), Call("set_read_timeout", 10000)>>) : mr \in {0, 1, 101}}
  \cup {DgScript("new", <<Call("set_max_retries", a), Call("set_read_timeout", 30000),
                          Call("set_max_retries", b), Call("set_read_timeout", 10000)>>) :
          a \in {0, 3}, b \in {0, 2}}
  \cup {DgScript("new", <<Call("set_max_retries", mr)>>) : mr \in {0, 1}}
  \cup {DgScript("new", <<Call("set_read_timeout", rt)>>) : rt \in {10000, 70000}}
  \cup {S1("set_udp_payload_size", v) : v \in {-1, 0, 512, 1232, 4096, 65535}}
  \cup {S1("set_recv_size", v) : v \in {12, 512, 1999, 2000, 65535, 100000}}
  \cup {S1("set_max_parallel", v) : v \in {0, 1, 2, 1000, 1001}}

MaxMr == LET ms == {DgRun(sc).mr : sc \in Confs} IN CHOOSE m \in ms : \A x \in ms : x <= m
GFaults == {[kind |-> "none", at |-> 0]}
           \cup {[kind |-> k, at |-> a] : k \in {"connect", "send", "short"}, a \in 1..(1 + MaxMr)}
NoFaults == {[kind |-> "none", at |-> 0]}

OutJson(o) == IF o.ok THEN [ok |-> o.f] ELSE [err |-> TRUE]
RECURSIVE MapOut(_)
MapOut(sq) == IF sq = <<>> THEN <<>> ELSE <<OutJson(Head(sq))>> \o MapOut(Tail(sq))
\* t: ticks between submission and completion (-1 while pending).  The
\* specification completes a request no later than (1 + max_retries) * read_timeout.
\* eff: what the getters of the configuration object say; rbuf: the receive
\* buffer offered to the socket
Proj(s) == [sent |-> s.sent, done |-> MapOut(s.done), waiting |-> s.ph = "recv",
            t |-> IF s.ph = "done" THEN s.waited ELSE -1, eff |-> s.conf.eff,
            rbuf |-> RecvBuf(s)]

\* one datagram per class: the answer, an answer to another question, an
\* answer with another ID / the previous attempt's ID, a header-only error,
\* a query, garbage, a receive error
RepAlphabet(s) ==
  {[kind |-> "msg", f |-> f] :
     f \in {Msg(s.att, TRUE, s.q, 0, TRUE, FALSE, -1),
            Msg(s.att, TRUE, s.q + 1, 0, TRUE, FALSE, -1),
            Msg(99, TRUE, s.q, 0, TRUE, FALSE, -1),
            Msg(IF s.att > 1 THEN s.att - 1 ELSE 98, TRUE, s.q, 0, TRUE, FALSE, -1),
            Msg(s.att, TRUE, NoQ, 2, FALSE, FALSE, -1),
            Msg(s.att, FALSE, s.q, 0, FALSE, FALSE, -1),
            Msg(s.att, TRUE, 200 + s.q, 0, TRUE, FALSE, -1),    \* another class
            Msg(s.att, TRUE, 300 + s.q, 0, TRUE, FALSE, -1)}}   \* another letter case: accepted
  \cup {[kind |-> "short", f |-> NoDgram.f], [kind |-> "ioerr", f |-> NoDgram.f]}

OpsOf(s) ==      (IF s.ph = "idle" THEN {DMkOp("submit", 1, NoDgram)} ELSE {})
            \cup (IF s.ph = "recv" /\ ndg < MaxDgrams
                  THEN {DMkOp("deliver", 0, d) :
                          d \in IF PathMode THEN RepAlphabet(s) ELSE DgramAlphabet(s)} ELSE {})
            \cup (IF s.ph = "recv" \/ (s.ph = "done" /\ ~PathMode)
                  THEN {DMkOp("tick", 0, NoDgram)} ELSE {})

OpJson(o) == CASE o.op = "submit"  -> [op |-> "submit", q |-> o.q]
               [] o.op = "deliver" -> [op |-> "deliver", d |-> o.d]
               [] OTHER            -> [op |-> o.op]

GenInit == DInitPred /\ ndg = 0 /\ hist = <<>>
GenNext == /\ Len(hist) < MaxOps
           /\ \E o \in OpsOf(DCur) :
                LET t == DApply(DCur, o)
                IN /\ DSet(t)
                   /\ ndg' = IF o.op = "deliver" THEN ndg + 1 ELSE ndg
                   /\ hist' = Append(hist, [op |-> o, proj |-> Proj(t)])
GenSpec == GenInit /\ [][GenNext]_gvars

CaseOf(h) == ToJson([in |-> [kind |-> "dgram",
                             cfg |-> [conf |-> conf.sc, fault |-> fault],
                             ops |-> [i \in 1..Len(h) |-> OpJson(h[i].op)]],
                     exp |-> [i \in 1..Len(h) |-> h[i].proj]])
EmitTransition == PrintT("CASE " \o CaseOf(hist'))
EmitPaths == (Len(hist') = MaxOps \/ ph' = "done") => PrintT("CASE " \o CaseOf(hist'))
GenView == <<dvars, ndg>>
=============================================================================
