--------------------------- MODULE Gen_ClientDgram ---------------------------
(* S->I: one case per transition of the macro-step state graph of           *)
(* ClientDgram (path to the source state, then the operation) with the      *)
(* projection after every operation: datagrams sent (question per attempt), *)
(* outcomes, whether the request still waits.                               *)
EXTENDS ClientDgram, Json

CONSTANT MaxOps
VARIABLE hist
gvars == <<dvars, ndg, hist>>

GFaults == {[kind |-> "none", at |-> 0]}
           \cup {[kind |-> k, at |-> a] : k \in {"connect", "send", "short"}, a \in 1..(1 + MaxRetries)}

OutJson(o) == IF o.ok THEN [ok |-> o.f] ELSE [err |-> TRUE]
RECURSIVE MapOut(_)
MapOut(sq) == IF sq = <<>> THEN <<>> ELSE <<OutJson(Head(sq))>> \o MapOut(Tail(sq))
Proj(s) == [sent |-> s.sent, done |-> MapOut(s.done), waiting |-> s.ph = "recv"]

OpsOf(s) ==      (IF s.ph = "idle" THEN {DMkOp("submit", 1, NoDgram)} ELSE {})
            \cup (IF s.ph = "recv" /\ ndg < MaxDgrams
                  THEN {DMkOp("deliver", 0, d) : d \in DgramAlphabet(s)} ELSE {})
            \cup (IF s.ph # "idle" THEN {DMkOp("tick", 0, NoDgram)} ELSE {})

OpJson(o) == CASE o.op = "submit"  -> [op |-> "submit", q |-> o.q]
               [] o.op = "deliver" -> [op |-> "deliver", d |-> o.d]
               [] OTHER            -> [op |-> o.op]

GenInit == DInitPred /\ ndg = 0 /\ hist = <<>>
GenNext == /\ Len(hist) < MaxOps
           /\ \E o \in OpsOf(DCur) :
                LET t == DApply(DCur, o)
                IN /\ DSet(t)
                   /\ ndg' = IF o.op = "deliver" THEN ndg + 1 ELSE ndg
                   /\ hist' = Append(hist, [op |-> o, proj |-> Proj(t)])
GenSpec == GenInit /\ [][GenNext]_gvars

CaseOf(h) == ToJson([in |-> [kind |-> "dgram",
                             cfg |-> [rd |-> RD, retries |-> MaxRetries, fault |-> fault],
                             ops |-> [i \in 1..Len(h) |-> OpJson(h[i].op)]],
                     exp |-> [i \in 1..Len(h) |-> h[i].proj]])
EmitTransition == PrintT("CASE " \o CaseOf(hist'))
GenView == <<dvars, ndg>>
=============================================================================
