CONSTANTS
  Dev = {}
  MaxK = 2
  Thorough = FALSE
  MaxAdds = 3
SPECIFICATION Spec
INVARIANT NsecPassEqualsDeclarative
INVARIANT Nsec3PassEqualsDeclarative
INVARIANT NsecClosed
INVARIANT Nsec3Closed
INVARIANT NsecCompleteOrdered
INVARIANT NsecCovers
INVARIANT Nsec3Covers
INVARIANT RanksOk
INVARIANT BitmapBuilderIsSetEncoding
INVARIANT EmitNsec
INVARIANT EmitNsec3
INVARIANT EmitBitmap
INVARIANT EmitParams
INVARIANT EmitBad
INVARIANT BadZonesRefused
INVARIANT ParamsOk
INVARIANT LongApexLaws
INVARIANT EmitLongApex
INVARIANT Nsec3FlagsOk
INVARIANT FlagLawsOk
INVARIANT EmitFlags
INVARIANT EmitFlagAccessors
CHECK_DEADLOCK FALSE
