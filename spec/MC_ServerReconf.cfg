CONSTANTS
  Dev = {}
  Conns = {1}
  MaxReq = 2
  QCaps = {1}
  Kinds = {"rlong", "rshort"}
  MaxCredit = 2
  MaxTick = 4
  NP = 1
  Limit = 1
  MaxAErr = 0
  AAMs = {TRUE}
  MaxFail = 0
  MaxAbort = 0
SPECIFICATION SpecConn
INVARIANT EachResponseOnce
INVARIANT IdQuestionPreserved
INVARIANT Framed
INVARIANT IdleUsesValueInForce
PROPERTY ClosedFinal
CHECK_DEADLOCK FALSE
