CONSTANTS
  Dev = {}
  MaxReq = 2
  TickMs = 10000
  StConfs <- St_1_1
  RqCap = 8
  ChanCap = 8
  MaxFrames = 3
  MaxQ = 2
  MaxId = 1
  KaVals = {0}
  XQs = {}
  XfrIds = {}
  XfrAll = FALSE
  QVars = {}
  EndKinds = {"eof", "stall"}
  Frames <- MCFrames
SPECIFICATION MacroSpec
VIEW View
INVARIANT OwnAnswer
INVARIANT AtMostOnce
INVARIANT NoCross
INVARIANT SlotTableSound
INVARIANT NothingLost
INVARIANT TimerArmed
INVARIANT Configured
INVARIANT MacroQuiescent
CHECK_DEADLOCK FALSE
