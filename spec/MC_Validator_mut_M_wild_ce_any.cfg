CONSTANTS
  Dev = {}
  Mut = {"M_wild_ce_any"}
  AdvOn = {"ANS"}
  AnchorForms = {"dnskey"}
  Cfgs = {"default"}
  MaxRuns = 1
  EntQKinds = {"positive"}
  Budget = 1
  Shapes = {"secure3"}
  Denials = {"nsec", "nsec3"}
  QKinds = {"wildcard", "wilddeep", "wildsub", "wcname", "nxdomain"}
  AdvActs = {"MisapplyWildcard", "SwapProof", "StripProof"}
SPECIFICATION Spec
VIEW View
INVARIANT Soundness
INVARIANT HonestSecure
INVARIANT InsecureNotBogus
INVARIANT WithinAllowed
INVARIANT NoPanic
INVARIANT Terminates
CHECK_DEADLOCK TRUE
