CONSTANTS
  Dev = {}
SPECIFICATION Spec
INVARIANT CollectionIsSortedContent
INVARIANT ChainIsFunctionOfContent
INVARIANT Emit
CHECK_DEADLOCK FALSE
