CONSTANTS
  Dev = {}
  MaxA = 2
  Max6 = 2
SPECIFICATION Spec
INVARIANT Emit
CONSTRAINT GenOnlyInit
CHECK_DEADLOCK FALSE
