----------------------------- MODULE NewLabelBuf -----------------------------
(* X10 -- LabelBuf (src/new/base/name/label.rs) as a state machine: the    *)
(* only stateful constructor of the new name types (NameBuf / RevNameBuf   *)
(* have no public mutators).  State: the content octets of the label held  *)
(* by the buffer (the length octet is Len(lb)).  One action per public     *)
(* mutator.  P1 for the machine: Len(lb) <= 63 always; a refused call      *)
(* (TruncationError) leaves the buffer unchanged; truncate panics exactly   *)
(* when asked to lengthen (documented) and then changes nothing.           *)
EXTENDS NewNames

VARIABLES lb,      \* content octets
          last     \* the last call: [op, arg, res, pre]
lvars == <<lb, last>>

LR(res, s) == [res |-> res, st |-> s]

NewF == LR("ok", <<>>)
AppendF(s, bytes) == IF Len(s) + Len(bytes) >= 64 THEN LR("err", s) ELSE LR("ok", s \o bytes)
PushF(s, b) == IF Len(s) >= 63 THEN LR("err", s) ELSE LR("ok", Append(s, b))
TruncateF(s, n) == IF n <= Len(s) THEN LR("ok", SubSeq(s, 1, n)) ELSE LR("panic", s)
LowerF(s) == LR("ok", LowerSeq(s))
\* copy_from(label) / Clone / parse_bytes(wire of label): a fresh buffer
CopyFromF(l) == LR("ok", l)
\* parse_str(text): replaces the buffer on success
ParseStrF(s, text) == LET r == ParseLabelStr(text) IN IF r.ok THEN LR("ok", r.label) ELSE LR("err", s)

StepL(s, op, arg) ==
  CASE op = "new"       -> NewF
    [] op = "append"    -> AppendF(s, arg)
    [] op = "push"      -> PushF(s, arg[1])
    [] op = "truncate"  -> TruncateF(s, arg[1])
    [] op = "lower"     -> LowerF(s)
    [] op = "copy"      -> CopyFromF(arg)
    [] op = "parse_str" -> ParseStrF(s, arg)
LOps == {"new", "append", "push", "truncate", "lower", "copy", "parse_str"}

LInit == lb = <<>> /\ last = [op |-> "new", arg |-> <<>>, res |-> "ok", pre |-> <<>>]
LDo(op, arg) == /\ lb' = StepL(lb, op, arg).st
                /\ last' = [op |-> op, arg |-> arg, res |-> StepL(lb, op, arg).res, pre |-> lb]

\* the property
LimitL == IsNLabel(lb)
ErrUnchangedL == last.res # "ok" => lb = last.pre
\* totality: only truncate may panic, and only when asked to lengthen
PanicOnlyDocumented == last.res = "panic" => (last.op = "truncate" /\ last.arg[1] > Len(last.pre))
\* the wire form of the buffer is a label the parsers accept, and round-trips
WireL == LET w == NLabelWire(lb) IN ParseLabel(w) = [ok |-> TRUE, label |-> lb, rest |-> <<>>]
=============================================================================
