CONSTANTS
  MaxLen = 6
SPECIFICATION Spec
INVARIANT Emit
CHECK_DEADLOCK FALSE
