CONSTANTS
  Dev = {}
  Small = TRUE
  MaxOps = 5
  KeepHist = FALSE
  Family = "all"
SPECIFICATION GenSpec
VIEW MCView
INVARIANTS P1_RoutesAgree P2_Exactly P2_OneOpt P1_Getters P4_AnsFrame
PROPERTIES P3_Reflected
CHECK_DEADLOCK FALSE
