--------------------------- MODULE MC_NameBuilder ---------------------------
(* Exhaustive exploration of the builder's state graph with boundary-rich  *)
(* arguments, and the S->I generator: one CASE line per *transition* of    *)
(* the graph (source state with a path that reaches it, call, arguments,   *)
(* expected result and next state; `exp` under no deviations, `dev` what   *)
(* each modelled deviation would give instead).                            *)
EXTENDS NameBuilder, Json

CONSTANTS Band,        \* 0: the whole (len, cur) grid; k > 0: only states whose
                       \* len / cur lie within k of a limit or of 0 are expanded
          EmitCases    \* BOOLEAN: print CASE lines

VARIABLES path,        \* ghost: calls that lead to this state from a new builder
          used         \* ghost: deviations taken on the way
mcvars == <<st, last, path, used>>

\* states are identified by the projection the guards depend on; the ghosts
\* (label list, path, last call) ride along with the first representative
View == <<st.len, st.open, st.cur, st.ok, st.fresh>>

---------------------------------------------------------------------------
(* Arguments: fixed boundary values plus values placed relative to the     *)
(* current state so that every guard has a call on both sides of it        *)

Near(x, c, k) == x >= c - k /\ x <= c + k
SliceLens ==
  LET l1 == IF st.open THEN st.len ELSE st.len + 1     \* octets before the content
  IN ({0, 1, 2, 62, 63, 64, 65}
      \cup {62 - st.cur, 63 - st.cur, 64 - st.cur}
      \cup {253 - l1, 254 - l1, 255 - l1, 256 - l1}) \cap 0..65

\* a relative name of wire length w (w = 0 or 2 <= w), as label lengths
RECURSIVE RelOfWire(_)
RelOfWire(w) == IF w = 0 THEN <<>>
                ELSE IF w <= 64 THEN <<w - 1>>
                ELSE IF w = 65 THEN <<62, 1>>
                ELSE <<63>> \o RelOfWire(w - 64)
NameWires ==
  LET l1 == st.len
  IN {w \in ({0, 2, 3, 64, 65, 130, 254}
             \cup {252 - l1, 253 - l1, 254 - l1, 255 - l1, 256 - l1}) :
        w = 0 \/ (w >= 2 /\ w <= 254)}
SymKinds == {"dot", "escdot", "bracket", "ord", "dec", "bad"}

\* only well-formed builders are driven further; a malformed one (reachable
\* only through D_append_name_open_label) is observed but not expanded
\* a builder whose open label's length octet happens to be up to date differs
\* from the ordinary one only in what D_append_name_open_label makes of it:
\* only append_name is explored from there
Plain == ~st.fresh
Expand == /\ st.ok
          /\ (Band = 0 \/ st.len <= 2 * Band \/ st.len >= MaxRel - 2 * Band
                       \/ st.cur <= Band \/ st.cur >= MaxLabel - Band
                       \/ ~st.open)

---------------------------------------------------------------------------
\* (len, in_label, content octets of the open label, closed labels, well formed);
\* the label structure of a malformed buffer is not observable
Proj(s) == IF s.ok THEN <<s.len, IF s.open THEN 1 ELSE 0, s.cur, Len(s.labs), 1>>
           ELSE <<s.len, IF s.open THEN 1 ELSE 0, -1, -1, 0>>
OutJ(o) == <<o.kind, o.nlen, IF o.valid THEN 1 ELSE 0>>
\* what the executor observes after the call
Obs(r, op) ==
  IF op \in {"finish", "into_name", "append_origin"}
  THEN [r |-> r.res, o |-> OutJ(r.out)]
  ELSE IF r.res # "ok" /\ op \notin AtomicOps
  THEN [r |-> r.res, usable |-> LimitsOf(r.st)]      \* partial progress is allowed
  ELSE [r |-> r.res, s |-> Proj(r.st)]

DevDiff(op, arg) ==
  LET ideal == Obs(StepF(st, op, arg, {}), op)
      ds == {d \in DevNames : Obs(StepF(st, op, arg, {d}), op) # ideal}
  IN [d \in ds |-> Obs(StepF(st, op, arg, {d}), op)]

\* a source state that exists only because of deviations: under the ideal
\* design it cannot be reached at all, which is what `exp` then says
Case(op, arg) ==
  IF used = {}
  THEN \* the executor builds a builder with this projection itself
       \* (f: its length octet is to be made `fresh` by a failed append_label)
       [in |-> [s |-> Proj(st), f |-> st.fresh, o |-> op, a |-> arg],
        exp |-> Obs(StepF(st, op, arg, {}), op), dev |-> DevDiff(op, arg)]
  ELSE \* only code with deviations gets here, along the recorded path; what
       \* it then does may be any combination of the open deviations (some
       \* may have been repaired): the executor reports as_model if it sees
       \* one of `alts`
       [in |-> [p |-> path, s |-> Proj(st), o |-> op, a |-> arg,
                alts |-> {Obs(StepF(st, op, arg, T), op) : T \in SUBSET (RelDevs(op) \cap Dev)}],
        exp |-> [unreachable |-> TRUE],
        dev |-> [d \in used |-> [as_model |-> TRUE]]]

Emit(op, arg) == EmitCases => PrintT("CASE " \o ToJson(Case(op, arg)))

MDo(op, arg) ==
  /\ Do(op, arg)
  /\ path' = Append(path, <<op, arg>>)
  /\ used' = used \cup {d \in Dev : Obs(StepF(st, op, arg, Dev \ {d}), op) # Obs(StepF(st, op, arg, Dev), op)}
  /\ Emit(op, arg)

MInit == Init /\ path = <<>> /\ used = {}

A_Push         == Plain /\ Expand /\ MDo("push", <<>>)
A_AppendSlice  == Plain /\ Expand /\ \E n \in SliceLens : MDo("append_slice", <<n>>)
A_EndLabel     == Plain /\ Expand /\ MDo("end_label", <<>>)
A_AppendLabel  == Plain /\ Expand /\ \E n \in SliceLens : MDo("append_label", <<n>>)
A_AppendName   == Expand /\ \E w \in NameWires : MDo("append_name", RelOfWire(w))
A_AppendDigits == Plain /\ Expand /\ \E k \in 1..3 : MDo("append_digits", <<k>>)
A_PushSymbol   == Plain /\ Expand /\ \E kd \in SymKinds : MDo("push_symbol", kd)
\* (observers of any state, malformed ones included)
A_Finish       == Plain /\ MDo("finish", <<>>)
A_IntoName     == Plain /\ MDo("into_name", <<>>)
A_AppendOrigin == Plain /\ \E w \in NameWires : MDo("append_origin", RelOfWire(w))

MNext == \/ A_Push \/ A_AppendSlice \/ A_EndLabel \/ A_AppendLabel \/ A_AppendName
         \/ A_AppendDigits \/ A_PushSymbol \/ A_Finish \/ A_IntoName \/ A_AppendOrigin

MSpec == MInit /\ [][MNext]_mcvars

---------------------------------------------------------------------------
(* `last` is hidden by the VIEW, so what concerns the last call is stated  *)
(* as action properties: TLC evaluates those on every transition it        *)
(* generates, including the ones that lead to an already known state.      *)
P_FinishValid == [][last'.out.kind # "none" => last'.out.valid]_mcvars
P_NoPanic     == [][last'.res # "panic"]_mcvars
P_LabelOctet  ==
  [][(last'.op = "end_label" /\ st.open /\ st.ok)
       => (st'.ok /\ st'.labs = Append(st.labs, st.cur) /\ st'.len = st.len)]_mcvars
P_ErrUnchanged == [][(last'.res # "ok" /\ last'.op \in AtomicOps) => Same(st', st)]_mcvars
P_ErrUsable    == [][(last'.res # "ok" /\ LimitsOf(st)) => (LimitsOf(st') /\ st'.len >= st.len)]_mcvars
P_Monotone     == [][st'.len >= st.len]_mcvars
\* an accepted call never leaves the limits (the inductive step of Limits)
P_OkKeepsLimits == [][LimitsOf(st) => LimitsOf(st')]_mcvars
\* deviations are the only way to a state outside the limits
UsedIffBroken == (used = {}) => Limits
=============================================================================
