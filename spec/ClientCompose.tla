---------------------------- MODULE ClientCompose ----------------------------
(* Compositions of client transports over sub-transports:                   *)
(*                                                                          *)
(*  multi_stream (src/net/client/multi_stream.rs): requests are sent over   *)
(*  one stream connection at a time; the connection is (re)established on   *)
(*  demand by Transport::run; Request::get_response walks                   *)
(*  RequestConn -> ReceiveConn -> StartQuery -> GetResult, goes through     *)
(*  Delay after a failure and starts over, and gives up when the configured *)
(*  response timeout has passed since the request was created.              *)
(*                                                                          *)
(*  dgram_stream (src/net/client/dgram_stream.rs): the request goes out     *)
(*  over the datagram transport first; a truncated answer is discarded and  *)
(*  the request is issued again over multi_stream.                          *)
(*                                                                          *)
(* The stream connections underneath are abstract (assume/guarantee: each   *)
(* satisfies ClientStream's invariants): a request written to a live        *)
(* connection waits; the peer answers it, answers it with the wrong         *)
(* question (the stream transport hands WrongReplyForQuery to the request)  *)
(* or closes the connection (every outstanding request gets a read error);  *)
(* a request handed to a connection that is already closed gets             *)
(* ConnectionClosed at once.  The datagram leg is ClientDgram itself.       *)
(*                                                                          *)
(* Time in ticks.  The back-off of multi_stream (retry_time: a random value *)
(* below 2^n seconds, at most 60 s) is shorter than one tick in the harness *)
(* configurations, so a Delay ends with the next tick, and an error state   *)
(* of Transport::run is "fresh" until the next tick.                        *)
(*                                                                          *)
(* The stream connections run under the stream::Config part of the          *)
(* multi_stream configuration: a connection with requests outstanding and   *)
(* no message from the peer for the stream response timeout fails (every    *)
(* outstanding request gets an error); one without requests is closed after *)
(* the idle timeout.  A request that multi_stream gave up on keeps its slot *)
(* on the connection (`cnt`) until the connection ends.                     *)
(* Not modelled: Shutdown.                                                  *)
EXTENDS ClientDgram, FiniteSets

(*                                                                          *)
(* The budgets are the configured ones: a run starts from a configuration   *)
(* script (ClientConfig: MsScript for multi_stream, XScript for             *)
(* dgram_stream); the response timeout in force is what the script leaves.  *)
CONSTANTS MReqs,     \* request numbers, e.g. 1..2
          MaxConn    \* bound on connect() calls

\* dl: ticks spent in the present back-off (fine clock only)
NoReq == [st |-> "none", el |-> 0, cnt |-> 0, cid |-> -1, on |-> 0, q |-> 0, dl |-> 0]

\* the configuration in force after script sc: rt = response timeout in ticks
\* strt / stidle: the stream connections' response / idle timeout in ticks
\* (`elapsed > response_timeout`, `elapsed >= idle_timeout`)
MConfOf(sc) == LET eff == MsRun(sc)
               IN [sc |-> sc, eff |-> eff, rt |-> TicksUp(eff.rt, TickMs),
                   strt |-> TicksOver(eff.st.rt, TickMs), stidle |-> TicksAt(eff.st.idle, TickMs)]
MInitOf(sc) ==
  [conf |-> MConfOf(sc),
   reqs |-> [r \in MReqs |-> NoReq],
   chan |-> <<>>,                         \* NewConn commands: [r, id]
   cs |-> [k |-> "None", c |-> 0, fresh |-> FALSE, ret |-> 0, age |-> 0],   \* conn_state (ret, age: fine clock)
   connid |-> 0,
   connecting |-> 0,                      \* request whose NewConn is being served by connect()
   pendingc |-> FALSE,                    \* a connect() future is outstanding
   conns |-> <<>>,                        \* stream connections created: [alive, out (requests
                                          \* written), cnt (slots taken), tk ("none" | "active" |
                                          \* "idle": the timer running), e (its ticks)]
   nconnect |-> 0,
   done |-> [r \in MReqs |-> <<>>]]

MOut(ok, t, why) == [ok |-> ok, t |-> t, why |-> why]
MFinish(m, r, ok, why) ==
  [m EXCEPT !.done[r] = Append(@, MOut(ok, m.reqs[r].el, why)), !.reqs[r].st = "done"]

Active(m, r) == m.reqs[r].st \notin {"none", "done"}

\* after a failure: delayed_retry_count += 1, then Delay; the first
\* ConnectionClosed is retried at once
MFail(m, r, closedAtOnce) ==
  LET c == m.reqs[r].cnt + 1
  IN [m EXCEPT !.reqs[r].cnt = c, !.reqs[r].dl = 0,
               !.reqs[r].st = IF closedAtOnce /\ c = 1 THEN "wantconn" ELSE "delay"]

\* StartQuery on connection c (1-based index into conns)
MStartQuery(m, r, id, c) ==
  LET m1 == [m EXCEPT !.reqs[r].cid = id]
  IN IF m1.conns[c].alive
     THEN [m1 EXCEPT !.conns[c].out = Append(@, m1.reqs[r].q),
                     !.conns[c].cnt = @ + 1,
                     \* the response timer is started by the first request
                     !.conns[c].tk = "active",
                     !.conns[c].e = IF m1.conns[c].tk = "active" THEN @ ELSE 0,
                     !.reqs[r].st = "getresult", !.reqs[r].on = c]
     ELSE MFail(m1, r, TRUE)

\* the reply to a NewConn reaches the request (if it still waits for it)
MConnReply(m, r, ok, id, c) ==
  IF m.reqs[r].st # "waitconn" THEN m
  ELSE IF ok THEN MStartQuery(m, r, id, c) ELSE MFail(m, r, FALSE)

\* Transport::run takes one NewConn from the channel
MServe(m) ==
  LET cmd == Head(m.chan)
      m0  == [m EXCEPT !.chan = Tail(@)]
  IN IF m0.cs.k = "Err" /\ m0.cs.fresh
     THEN MConnReply(m0, cmd.r, FALSE, 0, 0)
     ELSE LET m1 == IF cmd.id >= 0 /\ cmd.id >= m0.connid
                    THEN [m0 EXCEPT !.connid = @ + 1,
                                    !.cs = [k |-> "None", c |-> 0, fresh |-> FALSE, ret |-> 0, age |-> 0]]
                    ELSE m0
          IN IF m1.cs.k = "Some"
             THEN MConnReply(m1, cmd.r, TRUE, m1.connid, m1.cs.c)
             ELSE [m1 EXCEPT !.connecting = cmd.r, !.pendingc = TRUE,
                             !.nconnect = @ + 1]

\* one step of whoever can run; requests in numeric order, then the transport
MTimedOut(m) == {r \in MReqs : Active(m, r) /\ m.reqs[r].el >= m.conf.rt}
MWanting(m)  == {r \in MReqs : m.reqs[r].st = "wantconn"}
MinOf(S) == CHOOSE x \in S : \A y \in S : x <= y

MPick(m) == IF MTimedOut(m) # {} THEN "timeout"
            ELSE IF MWanting(m) # {} THEN "want"
            ELSE IF ~m.pendingc /\ m.chan # <<>> THEN "serve"
            ELSE "none"
MStep(m) ==
  CASE MPick(m) = "timeout" -> MFinish(m, MinOf(MTimedOut(m)), FALSE, "timeout")
    [] MPick(m) = "want" ->
         LET r == MinOf(MWanting(m))
         IN [m EXCEPT !.chan = Append(@, [r |-> r, id |-> m.reqs[r].cid]),
                      !.reqs[r].st = "waitconn"]
    [] MPick(m) = "serve" -> MServe(m)
    [] OTHER -> m
RECURSIVE MQuiesce(_)
MQuiesce(m) == IF MPick(m) = "none" THEN m ELSE MQuiesce(MStep(m))

\* environment
MSubmitOp(m, r, qq) == [m EXCEPT !.reqs[r] = [NoReq EXCEPT !.st = "wantconn", !.q = qq]]

MConnOkOp(m) ==
  LET c  == Len(m.conns) + 1
      m1 == [m EXCEPT !.conns = Append(@, [alive |-> TRUE, out |-> <<>>, cnt |-> 0,
                                            tk |-> "none", e |-> 0]),
                      !.cs = [k |-> "Some", c |-> c, fresh |-> FALSE, ret |-> 0, age |-> 0],
                      !.pendingc = FALSE, !.connecting = 0]
  IN MConnReply(m1, m.connecting, TRUE, m1.connid, c)

MConnFailOp(m) ==
  LET m1 == [m EXCEPT !.cs = [k |-> "Err", c |-> 0, fresh |-> TRUE, ret |-> 0, age |-> 0],
                      !.pendingc = FALSE, !.connecting = 0]
  IN MConnReply(m1, m.connecting, FALSE, 0, 0)

Waiting(m, c) == {r \in MReqs : m.reqs[r].st = "getresult" /\ m.reqs[r].on = c}

\* a message for request r on connection c: the slot is freed, the timer
\* restarted; without requests the connection turns idle (idle timeout 0: it
\* is closed at once)
MConnMsg(m, c) ==
  LET n == m.conns[c].cnt - 1
  IN IF n > 0 THEN [m EXCEPT !.conns[c].cnt = n, !.conns[c].e = 0]
     ELSE IF m.conf.stidle = 0
          THEN [m EXCEPT !.conns[c].cnt = 0, !.conns[c].alive = FALSE, !.conns[c].tk = "none"]
          ELSE [m EXCEPT !.conns[c].cnt = 0, !.conns[c].tk = "idle", !.conns[c].e = 0]
MReplyOp(m, c, r)  == MConnMsg(MFinish(m, r, TRUE, "response"), c)
MWrongOp(m, c, r)  == MConnMsg(MFinish(m, r, FALSE, "wrongreply"), c)

RECURSIVE MFailAll(_, _)
MFailAll(m, S) == IF S = {} THEN m
                  ELSE LET r == MinOf(S) IN MFailAll(MFail(m, r, FALSE), S \ {r})
MCloseOp(m, c) == MFailAll([m EXCEPT !.conns[c].alive = FALSE, !.conns[c].tk = "none"], Waiting(m, c))

\* the stream connections' own timers, one tick
RECURSIVE MConnTimers(_, _)
MConnTimers(m, c) ==
  IF c > Len(m.conns) THEN m
  ELSE LET k  == m.conns[c]
           m1 == IF ~k.alive \/ k.tk = "none" THEN m
                 ELSE IF k.tk = "active" /\ k.e + 1 >= m.conf.strt THEN MCloseOp(m, c)
                 ELSE IF k.tk = "idle" /\ k.e + 1 >= m.conf.stidle
                      THEN [m EXCEPT !.conns[c].alive = FALSE, !.conns[c].tk = "none"]
                 ELSE [m EXCEPT !.conns[c].e = @ + 1]
       IN MConnTimers(m1, c + 1)

\* (a request whose connection fails in this tick starts its back-off now:
\* it is woken by the next tick)
MTickOp(m) ==
  MConnTimers(
  [m EXCEPT !.reqs = [r \in MReqs |->
                        IF Active(m, r)
                        THEN [m.reqs[r] EXCEPT !.el = @ + 1,
                                               !.st = IF @ = "delay" THEN "wantconn" ELSE @]
                        ELSE m.reqs[r]],
            !.cs.fresh = FALSE], 1)

MMkOp(op, r, qq, c) == [op |-> op, r |-> r, q |-> qq, c |-> c]

MOpsOf(m) ==
       {MMkOp("submit", r, r, 0) : r \in {x \in MReqs : m.reqs[x].st = "none"
                                            /\ \A y \in MReqs : y < x => m.reqs[y].st # "none"}}
  \cup (IF m.pendingc /\ m.nconnect <= MaxConn
        THEN {MMkOp("conn_ok", 0, 0, 0), MMkOp("conn_fail", 0, 0, 0)} ELSE {})
  \cup UNION {{MMkOp("reply", r, 0, c), MMkOp("wrong", r, 0, c)} :
                 <<c, r>> \in {cr \in (1..Len(m.conns)) \X MReqs : cr[2] \in Waiting(m, cr[1])}}
  \cup {MMkOp("close", 0, 0, c) : c \in {x \in 1..Len(m.conns) : m.conns[x].alive}}
  \cup (IF \E r \in MReqs : Active(m, r) THEN {MMkOp("tick", 0, 0, 0)} ELSE {})
  \* time passing while nothing is asked matters to an idle connection only
  \cup (IF (\A r \in MReqs : ~Active(m, r)) /\ (\E r \in MReqs : m.reqs[r].st = "none")
           /\ (\E c \in 1..Len(m.conns) : m.conns[c].alive /\ m.conns[c].tk = "idle")
        THEN {MMkOp("idle_tick", 0, 0, 0)} ELSE {})

MEnvOp(m, o) ==
  CASE o.op = "submit"    -> MSubmitOp(m, o.r, o.q)
    [] o.op = "conn_ok"   -> MConnOkOp(m)
    [] o.op = "conn_fail" -> MConnFailOp(m)
    [] o.op = "reply"     -> MReplyOp(m, o.c, o.r)
    [] o.op = "wrong"     -> MWrongOp(m, o.c, o.r)
    [] o.op = "close"     -> MCloseOp(m, o.c)
    [] o.op \in {"tick", "idle_tick"} -> MTickOp(m)
MApply(m, o) == MQuiesce(MEnvOp(m, o))

--------------------------------------------------------------------------
(* multi_stream: the property *)

\* exactly once
MAtMostOnceOf(m) == \A r \in MReqs : /\ Len(m.done[r]) <= 1
                                     /\ (m.reqs[r].st = "done" <=> Len(m.done[r]) = 1)
\* completion - response or error - no later than the response timeout
\* after submission; a response only before it; nothing pending beyond it
MOnTimeOf(m) ==
  /\ \A r \in MReqs : \A k \in 1..Len(m.done[r]) :
        /\ m.done[r][k].t <= m.conf.rt
        /\ m.done[r][k].ok => m.done[r][k].t < m.conf.rt
  /\ MPick(m) = "none" => \A r \in MReqs : Active(m, r) => m.reqs[r].el < m.conf.rt
  /\ MsHonoured(m.conf.sc, m.conf.eff)
  /\ (m.conf.rt - 1) * TickMs < m.conf.eff.rt
\* a request waits on at most one connection, and only where it was written
MOwnOf(m) ==
  \A r \in MReqs : m.reqs[r].st = "getresult" =>
     /\ m.reqs[r].on \in 1..Len(m.conns)
     /\ \E i \in 1..Len(m.conns[m.reqs[r].on].out) : m.conns[m.reqs[r].on].out[i] = m.reqs[r].q
\* the retry budget: a request is written at most once per connection
MNoDupOf(m) ==
  \A c \in 1..Len(m.conns) : \A i, j \in 1..Len(m.conns[c].out) :
     i # j => m.conns[c].out[i] # m.conns[c].out[j]

\* the stream connections: a live connection with slots taken has its
\* response timer running and not overdue, an idle one its idle timer - the
\* timeouts being the configured ones
MConnsSoundOf(m) ==
  \A c \in 1..Len(m.conns) :
     LET k == m.conns[c]
     IN /\ k.cnt >= Cardinality(Waiting(m, c)) /\ k.cnt <= Len(k.out)
        /\ k.alive => /\ (k.cnt > 0 <=> k.tk = "active") /\ (k.tk = "active" => k.e < m.conf.strt)
                       /\ (k.tk = "idle" => k.e < m.conf.stidle)
        /\ ~k.alive => Waiting(m, c) = {}
--------------------------------------------------------------------------
(* multi_stream on a fine clock: ticks shorter than the back-off.           *)
(*                                                                          *)
(* Request::get_response, state Delay(instant, retry_time(n)): the pause is *)
(* a random time below 2^n s (n = delayed_retry_count <= 6, then 60 s),     *)
(* bounded by what is left of the response timeout.  Transport::run keeps   *)
(* an error state for a random time below 2^retries s (retries counted from *)
(* 0): while it lasts a NewConn is answered with the error at once, after   *)
(* it the next NewConn makes it call connect() again.                       *)
(*                                                                          *)
(* Both durations are nondeterministic here, within the documented range:   *)
(* a fine tick has a set of successors.  A pause that began at a tick       *)
(* boundary (time moves in ticks only) and lasts d < B ends with tick       *)
(* ceil(d / tick) <= ceil(B / tick); a pause of no time at all (d below     *)
(* 1 us, probability 10^-6) is not modelled.  What is determined whatever   *)
(* the pauses are: the request is completed no later than its response      *)
(* timeout after submission (MOnTimeOf).                                    *)
BackoffMs(n)    == 1000 * (IF n > 6 THEN 60 ELSE 2 ^ n)
BackoffTicks(n) == TicksAt(BackoffMs(n), TickMs)

\* connect() failed: ErrorState.retries is one more than that of the error
\* state the attempt started from
MConnFailOpF(m) ==
  LET m1 == [m EXCEPT !.cs = [k |-> "Err", c |-> 0, fresh |-> TRUE,
                             ret |-> IF m.cs.k = "Err" THEN m.cs.ret + 1 ELSE 0, age |-> 0],
                      !.pendingc = FALSE, !.connecting = 0]
  IN MConnReply(m1, m.connecting, FALSE, 0, 0)

\* time moves by one tick: nobody is woken by that alone
MAdvance(m) ==
  MConnTimers(
  [m EXCEPT !.reqs = [r \in MReqs |->
                        IF Active(m, r)
                        THEN [m.reqs[r] EXCEPT !.el = @ + 1,
                                               !.dl = IF m.reqs[r].st = "delay" THEN @ + 1 ELSE @]
                        ELSE m.reqs[r]],
            !.cs.age = IF m.cs.k = "Err" THEN @ + 1 ELSE @], 1)

\* the error state of Transport::run may have run out (it has when its age
\* reaches the upper end of the range)
MStaleSet(m) ==
  IF m.cs.k = "Err" /\ m.cs.fresh
  THEN {[m EXCEPT !.cs.fresh = FALSE]}
       \cup (IF m.cs.age * TickMs < BackoffMs(m.cs.ret) THEN {m} ELSE {})
  ELSE {m}

MDelayed(m, D) == {r \in D : m.reqs[r].st = "delay"}
MMustWake(m, D) == {r \in MDelayed(m, D) : m.reqs[r].dl >= BackoffTicks(m.reqs[r].cnt)}
\* the back-offs of some of the requests D end, one after the other, each
\* followed by everything that then runs without waiting
RECURSIVE MWakeSet(_, _)
MWakeSet(m, D) ==
  (IF MMustWake(m, D) = {} THEN {m} ELSE {})
  \cup UNION {MWakeSet(MQuiesce([m EXCEPT !.reqs[r].st = "wantconn"]), D \ {r}) : r \in MDelayed(m, D)}

\* one fine tick: requests whose response timeout has run out are completed
\* (also those in their back-off), then any of the others may be woken
MFineTickSet(m) ==
  LET m1 == MQuiesce(MAdvance(m))
      D  == {r \in MReqs : m.reqs[r].st = "delay"}
  IN UNION {MWakeSet(m2, D) : m2 \in MStaleSet(m1)}

\* the steps of the environment other than the passing of time
MEnvOpF(m, o) == IF o.op = "conn_fail" THEN MConnFailOpF(m) ELSE MEnvOp(m, o)
MApplyF(m, o) == MQuiesce(MEnvOpF(m, o))
\* successors of any step
MSuccF(m, o) == IF o.op = "tick" THEN MFineTickSet(m) ELSE {MApplyF(m, o)}

\* the back-off bookkeeping: a pause never outlasts its range, nor the
\* request's response timeout
MBackoffSoundOf(m) ==
  /\ \A r \in MReqs : m.reqs[r].st = "delay" =>
        /\ m.reqs[r].cnt >= 1 /\ m.reqs[r].dl < BackoffTicks(m.reqs[r].cnt)
        /\ m.reqs[r].el < m.conf.rt
  /\ (m.cs.k = "Err" /\ m.cs.fresh) => m.cs.age * TickMs < BackoffMs(m.cs.ret)
--------------------------------------------------------------------------
(* dgram_stream: UDP first (ClientDgram), TCP (multi_stream, request 1) iff *)
(* the UDP answer is truncated.                                             *)

XInitState(f, xsc) == [ph |-> "idle", d |-> DInitState(f, xsc.dg), m |-> MInitOf(xsc.ms),
                       conf |-> [sc |-> xsc, eff |-> XRun(xsc)], t |-> 0, done |-> <<>>]

XOut(ok, via, tc, rc, t) == [ok |-> ok, via |-> via, tc |-> tc, rcode |-> rc, t |-> t]

\* after a step of the UDP leg: finished?
XAfterUdp(x, d2) ==
  IF d2.ph # "done" THEN [x EXCEPT !.d = d2]
  ELSE LET o == d2.done[1]
       IN IF o.ok /\ o.f.tc
          THEN [x EXCEPT !.d = d2, !.ph = "tcp",
                         !.m = MQuiesce(MSubmitOp(x.m, 1, d2.q))]
          ELSE [x EXCEPT !.d = d2, !.ph = "done",
                         !.done = <<XOut(o.ok, "udp", o.ok /\ o.f.tc,
                                         IF o.ok THEN o.f.rcode ELSE 0, x.t)>>]

XAfterTcp(x, m2) ==
  IF m2.done[1] = <<>> THEN [x EXCEPT !.m = m2]
  ELSE [x EXCEPT !.m = m2, !.ph = "done",
                 !.done = <<XOut(m2.done[1][1].ok, "tcp", FALSE, 0, x.t)>>]

XSubmitOp(x, qq) == XAfterUdp([x EXCEPT !.ph = "udp"], DApply(x.d, DMkOp("submit", qq, NoDgram)))
XUdpOp(x, o)    == XAfterUdp(x, DApply(x.d, o))
XTcpOp(x, o)    == XAfterTcp(x, MApply(x.m, o))
XTickOp(x)      == LET x1 == [x EXCEPT !.t = @ + 1]
                   IN IF x.ph = "udp" THEN XAfterUdp(x1, DApply(x.d, DMkOp("tick", 0, NoDgram)))
                      ELSE IF x.ph = "tcp" THEN XAfterTcp(x1, MApply(x.m, MMkOp("tick", 0, 0, 0)))
                      ELSE x

\* (d) a truncated datagram answer - whatever its rcode - is never handed
\* to the caller: it is retried over the stream
XNoTruncatedOf(x) == \A k \in 1..Len(x.done) : ~(x.done[k].via = "udp" /\ x.done[k].tc)
XAtMostOnceOf(x)  == Len(x.done) <= 1 /\ (x.ph = "done" <=> Len(x.done) = 1)
\* TCP is used only after a truncated UDP answer
XTcpOnlyAfterTcOf(x) == x.m.nconnect > 0 =>
                          (x.d.ph = "done" /\ x.d.done[1].ok /\ x.d.done[1].f.tc)
\* budget: UDP budget plus the stream response timeout
XOnTimeOf(x) == /\ \A k \in 1..Len(x.done) :
                     x.done[k].t <= (1 + MRof(x.d)) * RDof(x.d) + x.m.conf.rt
                \* both legs run under the configuration handed to dgram_stream
                /\ XHonoured(x.conf.sc, x.conf.eff)
                /\ x.d.conf.eff = x.conf.eff.dg /\ x.m.conf.eff = x.conf.eff.ms
--------------------------------------------------------------------------
(* redundant and load_balancer (src/net/client/redundant.rs,                *)
(* load_balancer.rs) over abstract upstreams (assume/guarantee: an upstream *)
(* that is asked hands back one result for that request: an answer, a       *)
(* SERVFAIL or REFUSED reply, or an error).                                 *)
(*                                                                          *)
(* request_impl asks Transport::run for the upstream list (GetRT); the load *)
(* balancer drops the upstreams that are over their burst limit; Query      *)
(* tries the rest one after the other (Probe): the next one is started when *)
(* the current one handed back a result that is to be deferred, or when its *)
(* estimated response time has passed; the first result that is not to be   *)
(* deferred is the request's result; when every upstream of the list was    *)
(* asked and all results are deferred, the first deferred reply, else the   *)
(* first deferred error.  With no usable upstream the load balancer         *)
(* synthesizes SERVFAIL, redundant reports an error.                        *)
(*                                                                          *)
(* Left open (the code decides by measured response times and a 5 % random  *)
(* probe): the order in which the usable upstreams are tried, and how many  *)
(* ticks the estimated response time is (at least one tick must pass).      *)
(* Result kinds: "answer", "servfail", "refused", "error".                  *)

BNone == "none"
BReq0 == [st |-> "none", cands |-> {}, asked |-> <<>>,
          res |-> [u \in 1..3 |-> BNone], acc |-> 0, defr |-> 0, defe |-> 0,
          tk |-> FALSE, out |-> <<>>]

\* kind "lb" | "red"; cfg = [de, dr, ds]: defer transport errors / REFUSED / SERVFAIL
BInitState(kind, cfg, nreq) ==
  [kind |-> kind, cfg |-> cfg, ups |-> <<>>, reqs |-> [r \in 1..nreq |-> BReq0]]

BDeferrable(b, k) == \/ k = "error" /\ b.cfg.de
                     \/ k = "refused" /\ b.cfg.dr
                     \/ k = "servfail" /\ b.cfg.ds

SeqRange(sq) == {sq[i] : i \in 1..Len(sq)}

\* Connection::add.  mb = -1: no burst limit; iv: burst interval in ticks
BAddOp(b, mb, iv) == [b EXCEPT !.ups = Append(@, [mb |-> mb, iv |-> iv, burst |-> 0, age |-> 0])]

\* GetRT: a burst interval that has passed is restarted; an upstream whose
\* burst count exceeds max_burst is not offered
BRestart(up) == IF up.mb >= 0 /\ up.age >= up.iv THEN [up EXCEPT !.age = 0, !.burst = 0] ELSE up
BSubmitOp(b, r) ==
  LET ups2 == [u \in 1..Len(b.ups) |-> BRestart(b.ups[u])]
      usable == {u \in 1..Len(ups2) : ups2[u].mb < 0 \/ ups2[u].burst <= ups2[u].mb}
  IN [b EXCEPT !.ups = ups2,
               !.reqs[r] = [BReq0 EXCEPT !.st = "active", !.cands = usable]]

BLast(rq) == rq.asked[Len(rq.asked)]
\* the upstream asked last has handed back a result that is deferred
BLastDeferred(b, rq) ==
  IF rq.asked = <<>> THEN FALSE
  ELSE rq.res[BLast(rq)] # BNone /\ BDeferrable(b, rq.res[BLast(rq)])
BUnasked(rq) == rq.cands \ SeqRange(rq.asked)
BAllResolved(rq) == \A u \in SeqRange(rq.asked) : rq.res[u] # BNone

\* an upstream is asked (ChanReq::Query: the burst count goes up)
BAskedOk(b, u, r) ==
  LET rq == b.reqs[r]
  IN /\ rq.st = "active" /\ rq.acc = 0 /\ u \in BUnasked(rq)
     /\ \/ rq.asked = <<>>
        \/ BLastDeferred(b, rq)
        \/ rq.tk                     \* the estimated response time passed
BAskedOp(b, u, r) == [b EXCEPT !.reqs[r].asked = Append(@, u), !.reqs[r].tk = FALSE,
                               !.ups[u].burst = @ + 1]

\* an upstream hands back its result
BResolveOk(b, u, r) == b.reqs[r].st = "active" /\ u \in SeqRange(b.reqs[r].asked)
                       /\ b.reqs[r].res[u] = BNone
BResolveOp(b, u, r, k) ==
  LET rq  == b.reqs[r]
      q1 == [rq EXCEPT !.res[u] = k, !.tk = FALSE]
  IN [b EXCEPT !.reqs[r] =
        IF ~BDeferrable(b, k) THEN [q1 EXCEPT !.acc = IF @ = 0 THEN u ELSE @]
        ELSE IF k = "error" THEN [q1 EXCEPT !.defe = IF @ = 0 THEN u ELSE @]
        ELSE [q1 EXCEPT !.defr = IF @ = 0 THEN u ELSE @]]

\* the outcome the request must be completed with, if it must be completed
\* now: [ok, src (0 = synthesized / none), kind]
BOutcome(ok, src, kind) == [ok |-> ok, src |-> src, kind |-> kind]
BMustFinish(b, r) ==
  LET rq == b.reqs[r]
  IN rq.st = "active" /\ (\/ rq.cands = {}
                         \/ rq.acc # 0
                         \/ (BUnasked(rq) = {} /\ BAllResolved(rq)))
BFinal(b, r) ==
  LET rq == b.reqs[r]
  IN IF rq.cands = {}
     THEN IF b.kind = "lb" THEN BOutcome(TRUE, 0, "servfail") ELSE BOutcome(FALSE, 0, "error")
     ELSE IF rq.acc # 0 THEN BOutcome(rq.res[rq.acc] # "error", rq.acc, rq.res[rq.acc])
     ELSE IF rq.defr # 0 THEN BOutcome(TRUE, rq.defr, rq.res[rq.defr])
     ELSE BOutcome(FALSE, rq.defe, "error")
BDoneOp(b, r) == [b EXCEPT !.reqs[r].st = "done", !.reqs[r].out = <<BFinal(b, r)>>]

\* something the code does without waiting for anything
BMustAsk(b, r) ==
  LET rq == b.reqs[r]
  IN rq.st = "active" /\ rq.acc = 0 /\ BUnasked(rq) # {}
     /\ (rq.asked = <<>> \/ BLastDeferred(b, rq))
BQuiescent(b) == \A r \in DOMAIN b.reqs : ~BMustFinish(b, r) /\ ~BMustAsk(b, r)

BTickOp(b) ==
  [b EXCEPT !.ups = [u \in 1..Len(b.ups) |->
                       IF b.ups[u].mb >= 0 /\ b.ups[u].age < b.ups[u].iv
                       THEN [b.ups[u] EXCEPT !.age = @ + 1] ELSE b.ups[u]],
            !.reqs = [r \in DOMAIN b.reqs |->
                        IF b.reqs[r].st = "active" /\ b.reqs[r].asked # <<>>
                        THEN [b.reqs[r] EXCEPT !.tk = TRUE] ELSE b.reqs[r]]]

\* the property, on the balancer state
\* exactly once; the result is the request's own: it comes from an upstream
\* that was asked for this request and handed back exactly that, or it is
\* synthesized because there was nothing to ask
BOwnOf(b) ==
  \A r \in DOMAIN b.reqs :
     LET rq == b.reqs[r]
     IN /\ Len(rq.out) <= 1 /\ (rq.st = "done" <=> Len(rq.out) = 1)
        /\ rq.st = "done" =>
             LET o == rq.out[1]
             IN IF o.src = 0 THEN rq.cands = {} \/ ~o.ok
                ELSE o.src \in SeqRange(rq.asked) /\ rq.res[o.src] = o.kind
\* an upstream over its limit is not asked; nobody is asked twice
BOnlyUsableOf(b) ==
  \A r \in DOMAIN b.reqs :
     LET rq == b.reqs[r]
     IN /\ SeqRange(rq.asked) \subseteq rq.cands
        /\ Cardinality(SeqRange(rq.asked)) = Len(rq.asked)
\* the first acceptable result wins: a request that is done with a deferred
\* result has seen no acceptable one
BFirstWinsOf(b) ==
  \A r \in DOMAIN b.reqs :
     LET rq == b.reqs[r]
     IN (rq.st = "done" /\ rq.out[1].src # 0 /\ BDeferrable(b, rq.out[1].kind)) =>
          \A u \in SeqRange(rq.asked) : rq.res[u] # BNone /\ BDeferrable(b, rq.res[u])
=============================================================================
