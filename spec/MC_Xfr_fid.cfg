CONSTANTS
  Dev = {}
  RecU = {1, 2, 5, 9}
  TtlU = {0}
  Styles = {"rfc"}
  MaxC = 2
  Kinds = {"axfr", "ixfr1", "fallback", "uptodate"}
  MaxMsgs = 3
  FaultKinds = {"none"}
  LaterQ = {TRUE, FALSE}
SPECIFICATION Spec
INVARIANT StepwiseIsRun
INVARIANT AxfrFidelity
INVARIANT IxfrFidelity
INVARIANT HonestDenotesHistory
INVARIANT DiffApply
INVARIANT PublishedIsLegit
INVARIANT FaultRejectedOrHarmless
INVARIANT RolledBack
CHECK_DEADLOCK FALSE
