----------------------------- MODULE Gen_ConfLex -----------------------------
(* S->I generator for the lexer law of ResolvConfFile: every raw line over   *)
(* {space, tab, CR, '#', ';', 'x'} up to MaxLen characters is skipped iff    *)
(* LineSkipped, and otherwise fails (no keyword can be formed).              *)
EXTENDS ResolvConfFile, TLC, Json
CONSTANT MaxLen
VARIABLE chars
Alphabet == {32, 9, 13, 35, 59, 120}
Init == chars = <<>>
Next == Len(chars) < MaxLen /\ \E c \in Alphabet : chars' = Append(chars, c)
Spec == Init /\ [][Next]_chars
\* the lexer agrees with the word-level machine: a skipped line leaves the
\* configuration alone, any other line over this alphabet is an error
Emit == PrintT("CASE " \o ToJson([in |-> [fam |-> "lex", chars |-> chars],
                                  exp |-> [skip |-> LineSkipped(chars), untouched |-> TRUE]]))
=============================================================================
