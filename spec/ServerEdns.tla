------------------------------ MODULE ServerEdns ------------------------------
(***************************************************************************)
(* X11 (part 2) -- the decision procedures of the server middleware of     *)
(* domain: src/net/server/middleware/mandatory.rs, middleware/edns.rs and  *)
(* the helpers of src/net/server/util.rs they are made of                  *)
(* (mk_error_response, add_edns_options, remove_edns_opt_record), for one  *)
(* request travelling through                                              *)
(*     MandatoryMiddlewareSvc(EdnsMiddlewareSvc(service))                  *)
(* on a UDP or a stream transport context (message.rs: Request, its        *)
(* max_response_size_hint / idle_timeout / num_reserved_bytes).            *)
(*                                                                         *)
(* Properties (stated by the builder; quantified over every request shape, *)
(* configuration and service answer):                                      *)
(*  P2 mandatory  A strict stack NEVER hands an IQUERY (RFC 3425 3) or a   *)
(*     QUERY with QDCOUNT > 1 (RFC 9619 4) to the service: NOTIMP /        *)
(*     FORMERR.  EVERY response that leaves the stack has the request's    *)
(*     ID and RD and QR = 1 (RFC 1035 4.1.1).  Over UDP a response is      *)
(*     NEVER longer than the limit (512 without OPT, RFC 1035 4.2.1 /      *)
(*     RFC 6891 7; else the negotiated size); whenever content was dropped *)
(*     TC is set, the question is kept, only whole records are dropped;    *)
(*     a response within the limit is not touched; post-processing is      *)
(*     idempotent.                                                         *)
(*  P3 edns  A request with more than one OPT record, with an unparsable   *)
(*     OPT record (RFC 6891 6.1.1), or over a stream transport with an     *)
(*     edns-tcp-keepalive option carrying a timeout (RFC 7828 3.2.1) is    *)
(*     NEVER handed to the service: FORMERR; one with VERSION > 0 gets     *)
(*     BADVERS with VERSION 0 (6.1.3).  The service sees the negotiated    *)
(*     size max(512, min(client, server)) (6.2.3/6.2.5) and the octets     *)
(*     reserved for what post-processing adds.  A response carries an OPT  *)
(*     record ONLY IF the request had one (7: MUST NOT otherwise) and      *)
(*     exactly one IF the request had exactly one well-formed OPT          *)
(*     (6.1.1); the keepalive option is added ONLY on a stream transport   *)
(*     to a request with OPT, with the session's timeout (RFC 7828 3.3.2), *)
(*     and NEVER on UDP; an untruncated response is at most `reserved`     *)
(*     octets longer than what the service made.                           *)
(*  P4 util  mk_error_response: ID, OPCODE, RD and the questions of the    *)
(*     request, QR = 1, the given (12-bit) RCODE, nothing else.            *)
(*     add_edns_options: every existing option and the fixed OPT fields    *)
(*     are preserved, the new options appended, the other records kept;    *)
(*     when the options do not fit the response is left as it was.         *)
(*     remove_edns_opt_record: exactly the OPT records disappear.          *)
(*  At most one call of the service per request, exactly one response.     *)
(*                                                                         *)
(* The module has (a) the steps of the code as operators, one per          *)
(* function (MandPre, EdnsPre, EdnsPost, Truncate, MandPost, ErrResp,      *)
(* AddOptions, RemoveOpt), (b) the per-request machine that applies them   *)
(* in the order of the two `call` functions, (c) the RFC rules as a        *)
(* declarative oracle (Admissible: a SET of outcomes where rules compete)  *)
(* and the properties as invariants of the machine's final states.         *)
(*                                                                         *)
(* Named deviations (DESIGN 2.6):                                          *)
(*  D_error_opt_no_edns   mk_error_response always adds an OPT record: the *)
(*        NOTIMP / FORMERR answers MandatoryMiddlewareSvc makes itself go  *)
(*        out with an OPT record to requestors that sent none              *)
(*  D_add_opt_not_atomic  add_edns_options rewinds the additional section  *)
(*        before it knows that the new OPT fits: on failure the existing   *)
(*        OPT record (options, DO, extended RCODE bits) is gone            *)
(***************************************************************************)
EXTENDS Octets, FiniteSets

CONSTANT Dev

NoV    == 70000      \* "None": no server hint / no idle timeout / no push limit
TooBig == 700000     \* an idle timeout IdleTimeout::try_from rejects (> 6553.5 s)
MinUdp == 512        \* mandatory.rs MINIMUM_RESPONSE_BYTE_LEN
QLen   == 19         \* a.example.com. + QTYPE + QCLASS (the harness's question)
ALen   == 15         \* root owner, A record
OptFixed == 11       \* root owner + TYPE + CLASS + TTL + RDLEN
MaxMsg == 65535
KeepAlive == 11      \* option codes
Padding == 12

RcNoError == 0  RcFormErr == 1  RcServFail == 2  RcNotImp == 4
RcBadVers == 16
Pass == 99           \* ControlFlow::Continue

---------------------------------------------------------------------------
(* Abstract messages.  An item of the additional section is a uniform      *)
(* record [t, bad, ver, size, do, xrc, opts]; t = "a" (any non-OPT record), *)
(* "opt", or "none" (Option::None).  An option is [code, len, val]: len     *)
(* data octets whose last two (one) are val big-endian.  bad: the RDATA is  *)
(* not a sequence of options.  xrc: the upper eight bits of the RCODE.      *)

Item(t, bad, ver, size, do, xrc, opts) ==
  [t |-> t, bad |-> bad, ver |-> ver, size |-> size, do |-> do, xrc |-> xrc, opts |-> opts]
AItem    == Item("a", FALSE, 0, 0, FALSE, 0, <<>>)
NoneItem == Item("none", FALSE, 0, 0, FALSE, 0, <<>>)
OptItem(size, ver, do, xrc, opts) == Item("opt", FALSE, ver, size, do, xrc, opts)
BadOpt   == Item("opt", TRUE, 0, 0, FALSE, 0, <<>>)
Option(code, len, val) == [code |-> code, len |-> len, val |-> val]

IsOpt(it) == it.t = "opt"
NotOpt(it) == it.t # "opt"
OptRecs(adds) == SelectSeq(adds, IsOpt)
NonOpt(adds)  == SelectSeq(adds, NotOpt)
\* Message::opt(): the first OPT-type record, if it parses
FirstOpt(adds) ==
  LET o == OptRecs(adds) IN IF o = <<>> \/ o[1].bad THEN NoneItem ELSE o[1]
\* record order inside a section carries no meaning (DESIGN 7.1): messages
\* are compared with the OPT records behind the others
Canon(adds) == NonOpt(adds) \o OptRecs(adds)

OptLen(o) == OptFixed + SumSeq([i \in 1..Len(o.opts) |-> 4 + o.opts[i].len])
ItemLen(it) == IF it.t = "a" THEN ALen ELSE OptLen(it)
\* a message: [err, id, qr, opcode, rd, tc, rcode, qd, body, adds, z]; body =
\* RDLENGTHs of the answer records (root owner: 11 + RDLENGTH octets each)
MsgLen(m) == 12 + m.qd * QLen
             + SumSeq([i \in 1..Len(m.body) |-> 11 + m.body[i]])
             + SumSeq([i \in 1..Len(m.adds) |-> ItemLen(m.adds[i])])
Msg(id, qr, opcode, rd, tc, rcode, qd, body, adds) ==
  [err |-> FALSE, id |-> id, qr |-> qr, opcode |-> opcode, rd |-> rd, tc |-> tc,
   rcode |-> rcode, qd |-> qd, body |-> body, adds |-> adds,
   z |-> 0]     \* AA RA Z AD CD, NSCOUNT, unassigned OPT TTL bits: all clear
ErrMsg == [Msg(0, FALSE, 0, FALSE, FALSE, 0, 0, <<>>, <<>>) EXCEPT !.err = TRUE]   \* Err(ServiceError)
CanonMsg(m) == [m EXCEPT !.adds = Canon(@)]
\* the 12-bit RCODE of a message
FullRcode(m) == LET o == FirstOpt(m.adds) IN m.rcode + 16 * (IF o.t = "none" THEN 0 ELSE o.xrc)

---------------------------------------------------------------------------
(* util.rs                                                                 *)

\* mk_error_response(msg, rcode): start_error (ID, QR, OPCODE, RD, RCODE,
\* the questions) + add_edns_options(set_rcode)
ErrResp(dv, req, rc) ==
  LET withOpt == \/ "D_error_opt_no_edns" \in dv
                 \/ FirstOpt(req.adds).t # "none"
                 \/ rc > 15
  IN Msg(req.id, TRUE, req.opcode, req.rd, FALSE, rc % 16, req.qd, <<>>,
         IF withOpt THEN <<OptItem(0, 0, FALSE, rc \div 16, <<>>)>> ELSE <<>>)

\* add_edns_options(response, |b| push new): cap = what the builder accepts
\* (the 65535 octets of a StreamTarget, or one less than the push limit)
AddOptions(dv, m, new, cap) ==
  LET fo   == FirstOpt(m.adds)
      cand == IF fo.t # "none"
              THEN [m EXCEPT !.adds = NonOpt(m.adds) \o <<[fo EXCEPT !.opts = @ \o new]>>]
              ELSE [m EXCEPT !.adds = @ \o <<OptItem(0, 0, FALSE, 0, new)>>]
  IN IF MsgLen(cand) <= cap THEN [ok |-> TRUE, m |-> cand]
     ELSE [ok |-> FALSE,
           m  |-> IF fo.t # "none" /\ "D_add_opt_not_atomic" \in dv
                  THEN [m EXCEPT !.adds = NonOpt(m.adds)]
                  ELSE m]
\* what a reader of the 12-bit RCODE sees after the OPT is gone
\* remove_edns_opt_record
RemoveOpt(m) == IF FirstOpt(m.adds).t # "none" THEN [m EXCEPT !.adds = NonOpt(@)] ELSE m

\* P4 as laws of the operators
AddLaw(m, new, cap) ==
  LET r  == AddOptions(Dev, m, new, cap)
      fo == FirstOpt(m.adds)
      ro == FirstOpt(r.m.adds)
  IN /\ NonOpt(r.m.adds) = NonOpt(m.adds)
     /\ [r.m EXCEPT !.adds = <<>>] = [m EXCEPT !.adds = <<>>]
     /\ r.ok => /\ Len(OptRecs(r.m.adds)) = 1
                /\ ro.opts = (IF fo.t = "none" THEN <<>> ELSE fo.opts) \o new
                /\ fo.t # "none" => [ro EXCEPT !.opts = <<>>] = [fo EXCEPT !.opts = <<>>]
     /\ ~r.ok => Canon(r.m.adds) = Canon(m.adds)                 \* atomic
RemoveLaw(m) ==
  LET r == RemoveOpt(m)
  IN /\ NonOpt(r.adds) = NonOpt(m.adds)
     /\ FirstOpt(m.adds).t # "none" => OptRecs(r.adds) = <<>>
     /\ [r EXCEPT !.adds = <<>>] = [m EXCEPT !.adds = <<>>]
ErrLaw(req, rc) ==
  LET r == ErrResp(Dev, req, rc)
  IN /\ r.id = req.id /\ r.qr /\ r.opcode = req.opcode /\ r.rd = req.rd /\ ~r.tc
     /\ r.qd = req.qd /\ r.body = <<>> /\ NonOpt(r.adds) = <<>>
     /\ FullRcode(r) = rc
     /\ (rc <= 15 /\ OptRecs(req.adds) = <<>>) => OptRecs(r.adds) = <<>>   \* RFC 6891 7

---------------------------------------------------------------------------
(* The two middleware services, function by function.                      *)
(* req = [udp, hint, idle, id, rd, qr, opcode, qd, adds]                   *)
(* cfg = [strict, eon]   (MandatoryMiddlewareSvc::new / relaxed,           *)
(*                        EdnsMiddlewareSvc::enable)                       *)
(* svc = [kind, rc, scr, body, adds]: what the service does when called:   *)
(*       kind "ok": start_answer(request, rc), answer records with the     *)
(*       RDLENGTHs of body, additional records adds; scr: it then spoils   *)
(*       ID, QR and RD; kind "err": Err(ServiceError)                      *)

\* mandatory.rs preprocess
MandPre(cfg, req) ==
  IF cfg.strict /\ req.opcode = 1 THEN RcNotImp
  ELSE IF cfg.strict /\ req.opcode = 0 /\ req.qd > 1 THEN RcFormErr
  ELSE Pass

\* Opt::tcp_keepalive(): the first option with code 11, if it parses
\* (0 or 2 data octets), carrying a timeout
KaTimeout(opts) ==
  LET ka == SelectSeq(opts, LAMBDA o : o.code = KeepAlive)
  IN ka # <<>> /\ ka[1].len = 2

\* edns.rs preprocess: the verdict ...
EdnsPreVerdict(req) ==
  LET o == OptRecs(req.adds) IN
  IF o = <<>> THEN Pass
  ELSE IF Len(o) > 1 THEN RcFormErr
  ELSE IF o[1].bad THEN RcFormErr
  ELSE IF o[1].ver > 0 THEN RcBadVers
  ELSE IF ~req.udp /\ KaTimeout(o[1].opts) THEN RcFormErr
  ELSE Pass
\* ... the size negotiation (UDP) ...
Negotiate(csize, hint) ==
  LET cl == Max(MinUdp, csize)
      sh == IF hint = NoV THEN NoV ELSE Max(MinUdp, Min(hint, cl))
  IN IF sh = NoV THEN cl ELSE Min(cl, sh)
HintAfter(req) ==
  LET o == OptRecs(req.adds) IN
  IF req.udp /\ o # <<>> /\ EdnsPreVerdict(req) = Pass THEN Negotiate(o[1].size, req.hint)
  ELSE req.hint
\* ... and reserve_space_for_opt
Reserved(req) ==
  IF OptRecs(req.adds) = <<>> \/ EdnsPreVerdict(req) # Pass THEN 0
  ELSE IF req.udp THEN OptFixed ELSE OptFixed + 6

\* the service
SvcResp(req, svc) ==
  IF svc.kind = "err" THEN ErrMsg
  ELSE Msg(IF svc.scr THEN (req.id + 1) % 65536 ELSE req.id,
           ~svc.scr, req.opcode, IF svc.scr THEN ~req.rd ELSE req.rd,
           FALSE, svc.rc, req.qd, svc.body, svc.adds)

\* edns.rs postprocess
EdnsPost(dv, req, m) ==
  IF m.err THEN m ELSE
  LET ro == FirstOpt(req.adds)
      s1 == IF ro.t = "none" THEN RemoveOpt(m) ELSE m
      s2 == IF ~req.udp /\ req.idle # NoV /\ OptRecs(req.adds) # <<>> /\ req.idle <= 65535
            THEN AddOptions(dv, s1, <<Option(KeepAlive, 2, req.idle)>>, MaxMsg).m
            ELSE s1
  IN IF ro.t # "none" /\ FirstOpt(s2.adds).t = "none" /\ MsgLen(s2) + OptFixed <= MaxMsg
     THEN [s2 EXCEPT !.adds = @ \o <<OptItem(0, 0, FALSE, 0, <<>>)>>]
     ELSE s2

\* mandatory.rs truncate: the limit ...
TruncLimit(req, hintAfter) ==
  LET h == IF hintAfter = NoV THEN MinUdp ELSE hintAfter
  IN IF FirstOpt(req.adds).t = "none" THEN Min(h, MinUdp) ELSE h
\* ... and the cut: TC, header + questions + the OPT record (whole if that
\* fits, else its fixed part)
Truncate(req, m, limit) ==
  IF req.udp /\ MsgLen(m) > limit
  THEN LET o    == FirstOpt(m.adds)
           keep == IF o.t = "none" THEN <<>>
                   ELSE IF 12 + m.qd * QLen + OptLen(o) <= limit THEN <<o>>
                   ELSE <<OptItem(o.size, o.ver, FALSE, o.xrc, <<>>)>>
       IN [m EXCEPT !.tc = TRUE, !.body = <<>>, !.adds = keep]
  ELSE m
\* mandatory.rs postprocess
MandPost(req, m, hintAfter) ==
  IF m.err THEN m ELSE
  [Truncate(req, m, TruncLimit(req, hintAfter)) EXCEPT !.id = req.id, !.qr = TRUE, !.rd = req.rd]

NotSeen == [called |-> FALSE, hint |-> 0, reserved |-> 0]

\* the whole journey as one function (what the two `call`s compute): who
\* answered, what the service saw, the response, the hint left in the
\* request's transport context
Run(dv, cfg, req, svc) ==
  LET mv == MandPre(cfg, req) IN
  IF mv # Pass
  THEN [by |-> "mandatory", seen |-> NotSeen, hint |-> req.hint,
        resp |-> CanonMsg(MandPost(req, ErrResp(dv, req, mv), req.hint))]
  ELSE IF ~cfg.eon
  THEN [by |-> "service", seen |-> [called |-> TRUE, hint |-> req.hint, reserved |-> 0],
        hint |-> req.hint,
        resp |-> CanonMsg(MandPost(req, SvcResp(req, svc), req.hint))]
  ELSE LET ev == EdnsPreVerdict(req) IN
  IF ev # Pass
  THEN [by |-> "edns", seen |-> NotSeen, hint |-> req.hint,
        resp |-> CanonMsg(MandPost(req, EdnsPost(dv, req, ErrResp(dv, req, ev)), req.hint))]
  ELSE LET h == HintAfter(req) IN
       [by |-> "service", seen |-> [called |-> TRUE, hint |-> h, reserved |-> Reserved(req)],
        hint |-> h,
        resp |-> CanonMsg(MandPost(req, EdnsPost(dv, req, SvcResp(req, svc)), h))]

---------------------------------------------------------------------------
(* The per-request machine: one action per function, in the order of       *)
(* MandatoryMiddlewareSvc::call and EdnsMiddlewareSvc::call.               *)

VARIABLES pc, req, cfg, svc, hint, reserved, seen, by, resp
vars == <<pc, req, cfg, svc, hint, reserved, seen, by, resp>>

InitWith(R, C, S) ==
  /\ req \in R /\ cfg \in C /\ svc \in S
  /\ pc = "mand_pre" /\ hint = req.hint /\ reserved = 0
  /\ seen = NotSeen /\ by = "nobody" /\ resp = ErrMsg

A_MandatoryPre ==
  /\ pc = "mand_pre"
  /\ LET v == MandPre(cfg, req) IN
     IF v = Pass THEN /\ pc' = "edns_pre" /\ UNCHANGED <<by, resp>>
     ELSE /\ resp' = ErrResp(Dev, req, v) /\ by' = "mandatory" /\ pc' = "mand_post"
  /\ UNCHANGED <<req, cfg, svc, hint, reserved, seen>>

A_EdnsPre ==
  /\ pc = "edns_pre"
  /\ IF ~cfg.eon THEN /\ pc' = "service" /\ UNCHANGED <<hint, reserved, by, resp>>
     ELSE LET v == EdnsPreVerdict(req) IN
          IF v = Pass
          THEN /\ hint' = HintAfter(req) /\ reserved' = reserved + Reserved(req)
               /\ pc' = "service" /\ UNCHANGED <<by, resp>>
          ELSE /\ resp' = ErrResp(Dev, req, v) /\ by' = "edns" /\ pc' = "edns_post"
               /\ UNCHANGED <<hint, reserved>>
  /\ UNCHANGED <<req, cfg, svc, seen>>

A_Service ==
  /\ pc = "service"
  /\ ~seen.called
  /\ seen' = [called |-> TRUE, hint |-> hint, reserved |-> reserved]
  /\ resp' = SvcResp(req, svc) /\ by' = "service"
  /\ pc' = IF cfg.eon THEN "edns_post" ELSE "mand_post"
  /\ UNCHANGED <<req, cfg, svc, hint, reserved>>

A_EdnsPost ==
  /\ pc = "edns_post"
  /\ resp' = EdnsPost(Dev, req, resp)
  /\ pc' = "mand_post"
  /\ UNCHANGED <<req, cfg, svc, hint, reserved, seen, by>>

A_MandatoryPost ==
  /\ pc = "mand_post"
  /\ resp' = CanonMsg(MandPost(req, resp, hint))
  /\ pc' = "done"
  /\ UNCHANGED <<req, cfg, svc, hint, reserved, seen, by>>

Next == A_MandatoryPre \/ A_EdnsPre \/ A_Service \/ A_EdnsPost \/ A_MandatoryPost

Done == pc = "done"
Final == [by |-> by, seen |-> seen, hint |-> hint, resp |-> resp]

---------------------------------------------------------------------------
(* The RFC rules as a declarative oracle: each rule that applies names an  *)
(* outcome; where several apply the RFCs do not rank them, so any of those *)
(* outcomes is admissible; where none applies the request must reach the   *)
(* service.                                                                *)

NOpt(r) == Len(OptRecs(r.adds))
Rules(c, r) ==
     (IF c.strict /\ r.opcode = 1 THEN {RcNotImp} ELSE {})                     \* RFC 3425 3
  \cup (IF c.strict /\ r.opcode = 0 /\ r.qd > 1 THEN {RcFormErr} ELSE {})       \* RFC 9619 4
  \cup (IF c.eon /\ NOpt(r) > 1 THEN {RcFormErr} ELSE {})                       \* RFC 6891 6.1.1
  \cup (IF c.eon /\ \E i \in 1..NOpt(r) : OptRecs(r.adds)[i].bad THEN {RcFormErr} ELSE {})
  \cup (IF c.eon /\ \E i \in 1..NOpt(r) : ~OptRecs(r.adds)[i].bad /\ OptRecs(r.adds)[i].ver > 0
        THEN {RcBadVers} ELSE {})                                               \* RFC 6891 6.1.3
  \cup (IF c.eon /\ ~r.udp /\ NOpt(r) = 1 /\ ~OptRecs(r.adds)[1].bad
           /\ OptRecs(r.adds)[1].ver = 0 /\ KaTimeout(OptRecs(r.adds)[1].opts)
        THEN {RcFormErr} ELSE {})                                               \* RFC 7828 3.2.1
Admissible(c, r) == IF Rules(c, r) = {} THEN {Pass} ELSE Rules(c, r)

\* P2/P3 decision table: the machine's verdict is admissible
DecisionOK ==
  Done => /\ (by = "service") = (Pass \in Admissible(cfg, req))
          /\ (by = "service") = seen.called
          /\ by # "service" => /\ ~resp.err
                               /\ FullRcode(resp) \in Admissible(cfg, req)
                               /\ resp.body = <<>>
\* RFC 6891 6.1.3: BADVERS answers say which version the server speaks
BadVersOK ==
  (Done /\ ~resp.err /\ FullRcode(resp) = RcBadVers /\ by # "service")
     => FirstOpt(resp.adds).t = "opt" /\ FirstOpt(resp.adds).ver = 0
\* RFC 1035 4.1.1
HeaderOK ==
  (Done /\ ~resp.err) => /\ resp.id = req.id /\ resp.qr /\ resp.rd = req.rd
                         /\ resp.qd = req.qd /\ resp.opcode = req.opcode
\* RFC 6891 7 / 6.1.1 (the stack with the EDNS middleware switched on)
OptIffOK ==
  (Done /\ ~resp.err /\ cfg.eon) =>
     /\ NOpt(req) = 0 => NOpt(resp) = 0
     \* ... provided the service left the reserved octets free
     /\ (NOpt(req) = 1 /\ ~OptRecs(req.adds)[1].bad
           /\ (by = "service" => MsgLen(SvcResp(req, svc)) + seen.reserved <= MaxMsg)) => NOpt(resp) = 1
\* RFC 7828 3.3.1 / 3.3.2: the middleware's keepalive option
KaOf(m) == LET o == FirstOpt(m.adds) IN
           IF o.t = "none" THEN <<>> ELSE SelectSeq(o.opts, LAMBDA x : x.code = KeepAlive)
\* (the services of the grids never send the option themselves)
KeepaliveOK ==
  (Done /\ ~resp.err /\ cfg.eon) =>
     LET added == Len(KaOf(resp))
         may   == ~req.udp /\ NOpt(req) > 0 /\ req.idle <= 65535
     IN /\ added \in {0, 1}
        /\ added = 1 => may /\ KaOf(resp)[1] = Option(KeepAlive, 2, req.idle)
        \* the code's promise (RFC 9210 4.2 SHOULD): sent whenever it may be
        \* and fits, except on the answers the outer middleware makes itself
        /\ (may /\ by # "mandatory" /\ MsgLen(SvcResp(req, svc)) + OptFixed + 6 <= MaxMsg) => added = 1
\* RFC 6891 6.2.3 / 6.2.5: what the service is told
SizeSeenOK ==
  (Done /\ seen.called /\ cfg.eon /\ req.udp /\ NOpt(req) = 1) =>
     LET c == OptRecs(req.adds)[1].size IN
     /\ seen.hint >= MinUdp /\ seen.hint <= Max(MinUdp, c)
     /\ req.hint # NoV => seen.hint <= Max(MinUdp, req.hint)
     /\ (req.hint = NoV \/ req.hint >= Max(MinUdp, c)) => seen.hint = Max(MinUdp, c)
     /\ seen.reserved = OptFixed
ReservedOK ==
  (Done /\ seen.called /\ ~resp.err /\ ~resp.tc) => MsgLen(resp) <= MsgLen(SvcResp(req, svc)) + seen.reserved
\* RFC 1035 4.2.1, RFC 2181 9: the size limit of the property text
Allowed ==
  IF ~req.udp THEN MaxMsg
  ELSE IF FirstOpt(req.adds).t = "none" \/ ~cfg.eon \/ by = "mandatory"
       THEN (IF FirstOpt(req.adds).t = "none" \/ req.hint = NoV THEN MinUdp ELSE Max(MinUdp, Min(req.hint, 65535)))
  ELSE IF by = "edns" THEN (IF req.hint = NoV THEN MinUdp ELSE req.hint)
  ELSE Negotiate(FirstOpt(req.adds).size, req.hint)
SizeOK ==
  (Done /\ ~resp.err /\ req.udp /\ (req.hint = NoV \/ req.hint >= MinUdp)) => MsgLen(resp) <= Allowed
TruncOK ==
  (Done /\ ~resp.err /\ by = "service" /\ svc.kind = "ok") =>
     /\ resp.tc => /\ req.udp /\ resp.body = <<>> /\ resp.qd = req.qd /\ NonOpt(resp.adds) = <<>>
     /\ ~resp.tc => /\ resp.body = svc.body
                    /\ NonOpt(resp.adds) = NonOpt(svc.adds)
     /\ resp.rcode = svc.rc
IdempotentOK ==
  (Done /\ ~resp.err) => CanonMsg(MandPost(req, resp, hint)) = resp
MachineIsRun == Done => Final = Run(Dev, cfg, req, svc)
OnceOK == pc \in {"mand_pre", "edns_pre", "service"} => ~seen.called
=============================================================================
