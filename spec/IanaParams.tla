----------------------------- MODULE IanaParams -----------------------------
(* X14 -- IANA parameter types: codes, mnemonics and their presentation     *)
(* forms (src/base/iana/*.rs: macros.rs int_enum!, int_enum_str_decimal!,   *)
(* int_enum_str_with_decimal!, int_enum_str_with_prefix!,                   *)
(* int_enum_zonefile_fmt_*!, scan_impl!; every instantiation; the hand-      *)
(* written Rcode / OptRcode; the new API's RType / RClass and code types).  *)
(*                                                                          *)
(* This module is the GENERIC algebra of one registry type.  A type is a    *)
(* descriptor                                                               *)
(*   [id, max, style, prefix, rows, adopted, unsure]                        *)
(* (IanaTables.tla transcribes one per registry from the RFCs / the IANA    *)
(* registry, NOT from the Rust source); Mk(d) completes it.  All operators   *)
(* take the completed descriptor T as first argument, so "instantiating per  *)
(* type" is applying them to a table.                                        *)
(*                                                                          *)
(* Properties (stated by the builder of this extension; each quantified      *)
(* over EVERY type, EVERY code of the type's width and EVERY text):          *)
(*                                                                          *)
(* P1 CODE BIJECTION.  A value IS its code: from_int(n).to_int() = n for     *)
(*    all n; ==, Ord and Hash are those of the codes; a named constant /     *)
(*    mnemonic denotes exactly the code the IANA registry assigns to that    *)
(*    name; the library names a code iff the registry row is `required'      *)
(*    (registered up to the date the type's documentation claims             *)
(*    completeness for) or listed as `adopted' (a later row: naming it and   *)
(*    not naming it both conform); no two rows share a code or a name.        *)
(* P2 PRESENTATION ROUND TRIP.  For every code c, named or not:              *)
(*      read(write(c)) = c                                                    *)
(*    for every writer (Display, to_mnemonic, ZonefileFmt token, serde       *)
(*    human-readable / compact) paired with its reader (FromStr, from_bytes, *)
(*    from_mnemonic, scan, Deserialize).  A code without (adopted) mnemonic  *)
(*    is written in the type's generic form (`TYPE123', `CLASS123', `key123',*)
(*    `EDE123', plain decimal).  The generic form is ALSO read for codes     *)
(*    that have a mnemonic (RFC 3597 section 5: TYPE1 = A).  Mnemonics and   *)
(*    the prefix are matched ASCII-case-insensitively (documented for every   *)
(*    macro type).  The number of the generic form is `a decimal number'     *)
(*    (RFC 3597 5, RFC 9460 2.1): one or more digits -- no sign, no blank,   *)
(*    in range of the width; out-of-range / empty / overlong / signed /      *)
(*    non-ASCII texts are REJECTED, never wrapped, never a panic.  The       *)
(*    readers accept nothing else (ReaderSound).                              *)
(* P3 CLASSIFICATION is a function of the code only and matches the RFCs:    *)
(*    Rtype::is_glue = {A, AAAA}; new RType::uses_lowercase_canonical_form   *)
(*    = the list of RFC 4034 6.2 as amended by RFC 6840 5.1; OptRcode        *)
(*    rcode()/ext()/is_ext() = (c mod 16, c div 16, c >= 16) (as in X06);    *)
(*    Rcode -> OptRcode -> TsigRcode conversions preserve the code;          *)
(*    ExtErrorCode::is_private = c >= 49152 (RFC 8914 5.2).                  *)
(*                                                                          *)
(* Styles (how a type is written / read):                                    *)
(*   "prefix"   mnemonic or PREFIX<decimal>      Rtype Class SvcParamKey EDE *)
(*   "withdec"  mnemonic or <decimal>; Display adds "(<decimal>)" after a    *)
(*              mnemonic (no round trip is claimed for that Display form)    *)
(*                                                Opcode OptionCode TsigRcode*)
(*   "decimal"  <decimal> only; the mnemonic is documentation (from_mnemonic,*)
(*              the zone-file comment)            SecurityAlgorithm ...       *)
(*   "rcode"    hand written: mnemonic or <decimal>, not all bits used        *)
(*                                                Rcode OptRcode              *)
(*   "newdisp"  new API: Display only (mnemonic or PREFIX<decimal>)           *)
(*                                                RType RClass                *)
(*   "newcode"  new API: a code with constants only                           *)
(*                                                                          *)
(* Named deviations (DESIGN 2.6):                                            *)
(*  D_plus_sign             every number is read with u8/u16::from_str, which *)
(*                          accepts one leading '+': "TYPE+1", "CLASS+1",     *)
(*                          "key+1", "+8" are read as 1, 1, 1, 8.             *)
(*  D_rcode_fromstr         Rcode / OptRcode FromStr reads only the exact     *)
(*                          upper-case mnemonics: the decimal text their own  *)
(*                          Display writes for a code without mnemonic is     *)
(*                          rejected (Rcode 11..15, OptRcode 4095, ...).       *)
(*  D_nsap_ptr_mnemonic     Rtype 23 is written "NSAPPTR" and "NSAP-PTR" (RFC *)
(*                          1706, the registry's mnemonic) is not read.       *)
(*  D_tsig_notimpl_mnemonic TsigRcode 4 is written "NOTIMPL" and "NOTIMP"     *)
(*                          (RFC 1035 / 6895 NotImp) is not read.             *)
(*  D_new_lowercase_subset  new RType::uses_lowercase_canonical_form is true  *)
(*                          for 9 of the 23 types its documentation lists.    *)
(***************************************************************************)
EXTENDS Naturals, Integers, Sequences, FiniteSets, TLC

CONSTANT Dev          \* the deviations switched on

None == -1            \* "no value" of a reader / of to_mnemonic

Min(a, b) == IF a < b THEN a ELSE b

\* ---- characters -----------------------------------------------------------
\* Texts are sequences of code points.  Registry names are written as TLA+
\* strings in the tables and converted once.
Upper == "ABCDEFGHIJKLMNOPQRSTUVWXYZ"
Lower == "abcdefghijklmnopqrstuvwxyz"
Digits == "0123456789"
ChSet(s, base) == {<<SubSeq(s, i, i), base + i>> : i \in 1..Len(s)}
ChPairs == ChSet(Upper, 64) \cup ChSet(Lower, 96) \cup ChSet(Digits, 47)
           \cup {<<" ", 32>>, <<"*", 42>>, <<"-", 45>>, <<".", 46>>, <<"(", 40>>, <<")", 41>>}
\* TLC keeps [x \in S |-> e] unevaluated and re-evaluates e at every application;
\* tables are therefore built explicitly from their graphs
RECURSIVE PairsToFun(_)
PairsToFun(P) == IF P = {} THEN <<>>
                 ELSE LET p == CHOOSE q \in P : TRUE IN (p[1] :> p[2]) @@ PairsToFun(P \ {p})
CodeOf == PairsToFun(ChPairs)
Chars(s) == [i \in 1..Len(s) |-> CodeOf[SubSeq(s, i, i)]]

IsDigit(c) == c \in 48..57
FoldC(c) == IF c \in 65..90 THEN c + 32 ELSE c            \* ASCII only
UpC(c) == IF c \in 97..122 THEN c - 32 ELSE c
Fold(t) == [i \in 1..Len(t) |-> FoldC(t[i])]
UpCase(t) == [i \in 1..Len(t) |-> UpC(t[i])]
\* alternating case: first character lower, second upper, ...
MixCase(t) == [i \in 1..Len(t) |-> IF i % 2 = 1 THEN FoldC(t[i]) ELSE UpC(t[i])]

RECURSIVE Dec(_)
Dec(n) == IF n < 10 THEN <<48 + n>> ELSE Dec(n \div 10) \o <<48 + (n % 10)>>

\* value of a digit string, saturating at cap (TLC integers are 32 bit)
RECURSIVE ValSat(_, _, _)
ValSat(ds, acc, cap) ==
  IF ds = <<>> THEN acc ELSE ValSat(Tail(ds), Min(acc * 10 + (Head(ds) - 48), cap), cap)

AllDigits(t) == t # <<>> /\ \A i \in 1..Len(t) : IsDigit(t[i])

\* "a decimal number" in 0..max.  Leading zeros are digits.
\* D_plus_sign: Rust's integer FromStr strips one leading '+'.
Num(t, max, dv) ==
  LET body == IF "D_plus_sign" \in dv /\ Len(t) >= 1 /\ t[1] = 43 THEN Tail(t) ELSE t
  IN IF ~AllDigits(body) THEN None
     ELSE LET v == ValSat(body, 0, max + 1) IN IF v > max THEN None ELSE v

\* ---- completing a descriptor ------------------------------------------------
\* rows: set of <<code, name, flag>>, flag "r" required / "o" optional
RowCodes(d) == {r[1] : r \in d.rows}
Required(d) == {r[1] : r \in {q \in d.rows : q[3] = "r"}}
Optional(d) == {r[1] : r \in {q \in d.rows : q[3] = "o"}}

\* what the library writes for a row today where a deviation says so
DevName(id, code, name, dv) ==
  IF id = "Rtype" /\ code = 23 /\ "D_nsap_ptr_mnemonic" \in dv THEN "NSAPPTR"
  ELSE IF id = "TsigRcode" /\ code = 4 /\ "D_tsig_notimpl_mnemonic" \in dv THEN "NOTIMPL"
  ELSE name

MkDv(d, dv) ==
  LET named == (Required(d) \cup d.adopted) \ d.unsure
      rowOf(c) == CHOOSE r \in d.rows : r[1] = c
      nm == PairsToFun({<<c, Chars(DevName(d.id, c, rowOf(c)[2], dv))>> : c \in named})
  IN [id |-> d.id, max |-> d.max, style |-> d.style, prefix |-> Chars(d.prefix),
      named |-> named, nm |-> nm,
      byfold |-> PairsToFun({<<Fold(nm[c]), c>> : c \in named}),
      unsure |-> d.unsure, rows |-> d.rows, adopted |-> d.adopted]

\* a table is well formed: P1's "no two mnemonics share a code, none listed twice"
WellFormed(d) ==
  /\ \A r \in d.rows : r[1] \in 0..d.max /\ r[2] # "" /\ r[3] \in {"r", "o"}
  /\ \A r, q \in d.rows : (r[1] = q[1] \/ Fold(Chars(r[2])) = Fold(Chars(q[2]))) => r = q
  /\ d.adopted \subseteq Optional(d)
  \* no mnemonic can be mistaken for a generic form or a number
  /\ \A r \in d.rows :
       LET t == Chars(r[2]) p == Chars(d.prefix) IN
       /\ ~AllDigits(t)
       /\ ~(d.prefix # "" /\ Len(t) > Len(p) /\ Fold(SubSeq(t, 1, Len(p))) = Fold(p)
            /\ AllDigits(SubSeq(t, Len(p) + 1, Len(t))))

\* ---- writers ---------------------------------------------------------------
HasName(T, c) == c \in T.named
Mn(T, c) == IF HasName(T, c) THEN T.nm[c] ELSE None          \* to_mnemonic
Generic(T, c) == T.prefix \o Dec(c)                           \* prefix is <<>> for non-prefix styles

Display(T, c) ==
  CASE T.style \in {"prefix", "rcode", "newdisp"} -> IF HasName(T, c) THEN T.nm[c] ELSE Generic(T, c)
    [] T.style = "withdec" -> IF HasName(T, c) THEN T.nm[c] \o <<40>> \o Dec(c) \o <<41>> ELSE Dec(c)
    [] OTHER -> Dec(c)

\* the token ZonefileFmt writes (the comment of the decimal style is not a token)
Token(T, c) ==
  CASE T.style = "prefix" -> IF HasName(T, c) THEN T.nm[c] ELSE Generic(T, c)
    [] T.style = "withdec" -> IF HasName(T, c) THEN T.nm[c] ELSE Dec(c)
    [] OTHER -> Dec(c)

\* serde, human readable (JSON): a string [s |-> text] or a number [n |-> c]
SerHuman(T, c) ==
  CASE T.style = "prefix" -> [s |-> Display(T, c)]
    [] T.style = "withdec" -> IF HasName(T, c) THEN [s |-> T.nm[c]] ELSE [n |-> c]
    [] OTHER -> [n |-> c]

\* ---- readers ---------------------------------------------------------------
\* from_mnemonic: ASCII-case-insensitive
FromMn(T, t) == LET f == Fold(t) IN IF f \in DOMAIN T.byfold THEN T.byfold[f] ELSE None

FromGeneric(T, t, dv) ==
  LET lp == Len(T.prefix) IN
  IF Len(t) > lp /\ Fold(SubSeq(t, 1, lp)) = Fold(T.prefix)
  THEN Num(SubSeq(t, lp + 1, Len(t)), T.max, dv) ELSE None

\* exact (case-sensitive) mnemonic, the hand-written FromStr of Rcode / OptRcode
FromMnExact(T, t) == IF \E c \in T.named : T.nm[c] = t THEN CHOOSE c \in T.named : T.nm[c] = t ELSE None

\* FromStr (= from_bytes of the UTF-8 octets = scan of the token)
FromStr(T, t, dv) ==
  CASE T.style = "prefix" -> LET m == FromMn(T, t) IN IF m # None THEN m ELSE FromGeneric(T, t, dv)
    [] T.style = "withdec" -> LET m == FromMn(T, t) IN IF m # None THEN m ELSE Num(t, T.max, dv)
    [] T.style = "decimal" -> Num(t, T.max, dv)
    [] T.style = "rcode" ->
         IF "D_rcode_fromstr" \in dv THEN FromMnExact(T, t)
         ELSE LET m == FromMnExact(T, t) IN IF m # None THEN m ELSE Num(t, T.max, dv)
    [] OTHER -> None

\* Deserialize from a JSON string / a JSON number
DeStr(T, t, dv) == IF T.style \in {"prefix", "withdec"} THEN FromStr(T, t, dv) ELSE None
DeNum(T, n) == IF n \in 0..T.max THEN n ELSE None

DeHuman(T, j, dv) == IF "s" \in DOMAIN j THEN DeStr(T, j.s, dv) ELSE DeNum(T, j.n)

Reads(T) == T.style \in {"prefix", "withdec", "decimal", "rcode"}
HasToken(T) == T.style \in {"prefix", "withdec", "decimal"} /\ T.id # "ExtendedErrorCode"
HasSerde(T) == T.style \in {"prefix", "withdec", "decimal"} \/ T.id = "Rcode"

\* ---- the laws (P2), stated on the specification's own writers / readers -----
\* every writer is inverted by its reader, for every code
RoundTrip(T, c) ==
  /\ (Reads(T) /\ T.style # "withdec") => FromStr(T, Display(T, c), {}) = c
  /\ HasToken(T) => FromStr(T, Token(T, c), {}) = c
  /\ HasSerde(T) => DeHuman(T, SerHuman(T, c), {}) = c
  /\ (HasName(T, c) /\ T.style # "rcode" /\ Reads(T)) =>
        /\ FromMn(T, Mn(T, c)) = c
        /\ FromMn(T, Fold(Mn(T, c))) = c /\ FromMn(T, UpCase(Mn(T, c))) = c
\* RFC 3597 5: the generic form is read for every code, mnemonic or not
GenericAlways(T, c) ==
  (T.style \in {"prefix", "withdec", "decimal", "rcode"}) =>
      /\ FromStr(T, Generic(T, c), {}) = c
      /\ FromStr(T, Fold(T.prefix) \o Dec(c), {}) = c
      /\ FromStr(T, T.prefix \o <<48, 48>> \o Dec(c), {}) = c          \* leading zeros are digits
\* the readers accept nothing but a mnemonic or the generic form (ideal: no sign)
ReaderSound(T, t) ==
  LET r == FromStr(T, t, {}) lp == Len(T.prefix) IN
  /\ r \in {None} \cup 0..T.max
  /\ r # None =>
       \/ HasName(T, r) /\ (IF T.style = "rcode" THEN t = T.nm[r] ELSE Fold(t) = Fold(T.nm[r]))
       \/ /\ Len(t) > lp /\ Fold(SubSeq(t, 1, lp)) = Fold(T.prefix)
          /\ AllDigits(SubSeq(t, lp + 1, Len(t)))
          /\ ValSat(SubSeq(t, lp + 1, Len(t)), 0, T.max + 1) = r
\* as built, the only additional texts read are those with one '+' (D_plus_sign)
ReaderDevOnlyPlus(T, t) ==
  LET a == FromStr(T, t, {"D_plus_sign"}) b == FromStr(T, t, {}) IN
  a # b => /\ b = None /\ \E i \in 1..Len(t) : t[i] = 43

\* ---- P3 ----------------------------------------------------------------------
IsGlue(c) == c \in {1, 28}                                   \* A, AAAA
\* RFC 4034 6.2 as amended by RFC 6840 5.1 (NSEC removed; HINFO holds no name):
\* NS MD MF CNAME SOA MB MG MR PTR MINFO MX RP AFSDB RT SIG PX NXT NAPTR KX SRV
\* DNAME A6 RRSIG
LowercaseCanonical == {2, 3, 4, 5, 6, 7, 8, 9, 12, 14, 15, 17, 18, 21, 24, 26, 30, 35, 36, 33, 39, 38, 46}
LowercaseSubsetToday == {2, 5, 6, 12, 15, 17, 33, 39, 46}
UsesLowercase(c, dv) == IF "D_new_lowercase_subset" \in dv THEN c \in LowercaseSubsetToday
                        ELSE c \in LowercaseCanonical
EdePrivate(c) == c >= 49152
=============================================================================
