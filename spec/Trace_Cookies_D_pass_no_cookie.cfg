CONSTANTS
  Mod = 1
  Past = 3600
  Future = 300
  Dev = {"D_pass_no_cookie"}
  TZero <- TZero32
  TAdd <- TAdd32
  SerialGt <- SerialGt32
  DiffLe <- DiffLe32
SPECIFICATION TSpec
POSTCONDITION Accepted
CHECK_DEADLOCK FALSE
