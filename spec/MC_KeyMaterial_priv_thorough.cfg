CONSTANTS
  Dev = {}
  Mode = "priv"
  MaxLines = 5
  MaxSyms = 0
  MaxAdds = 0
  LineSet = "small"
  TagKeyLen = 0
  RsaFields <- RsaFields2
SPECIFICATION Spec
INVARIANT PrivMachineIsGrammar
INVARIANT PrivAsBuiltMachineIsGrammar
INVARIANT PrivIncremental
INVARIANT PrivRoundTrip
INVARIANT PrivBlankIrrelevant
PROPERTY PrivErrSticky
CHECK_DEADLOCK FALSE
