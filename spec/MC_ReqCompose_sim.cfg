CONSTANTS
  Dev = {"D_rdata_pointers_verbatim"}
  Small = FALSE
  MaxOps = 6
  KeepHist = TRUE
  Family = "all"
SPECIFICATION GenSpec
INVARIANT Emit
CHECK_DEADLOCK FALSE
