CONSTANTS
  Dev = {}
  MaxOps = 0
  Deep = FALSE
  Carrier = "plain"
  MaxHist = 2
  GKind = "beh"
  GWords <- QuickWords
SPECIFICATION BehSpec
INVARIANT BehEmit
CHECK_DEADLOCK FALSE
