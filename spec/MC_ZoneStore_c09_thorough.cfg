CONSTANTS
  Dev = {}
  NodeNames <- Nodes_q9
  QNames <- QNames_q9
  Types <- TypesQ9
  QTypes <- QTypesQ9
  Vals = {1, 2}
  ValsOf <- C09ValsOf
  OpFamilies = {"W", "U", "B"}
  Writers = {"w1", "w2"}
  Readers = {"r1", "r2"}
  MaxVer = 1
  MaxOps = 2
  MaxZf = 1
  NsTarget <- MCNsTarget
SPECIFICATION Spec
VIEW View
INVARIANT TypeOK
INVARIANT SnapshotIsolation
INVARIANT AbortInvisible
INVARIANT SingleWriter
INVARIANT WalkIsContent
INVARIANT AnswersAgree
INVARIANT ContentRefines
PROPERTY AtomicVisibility
CHECK_DEADLOCK FALSE
