CONSTANTS
  Dev = {}
  MaxK = 2
  Thorough = FALSE
SPECIFICATION Spec
INVARIANT DoneMatchesOracle
INVARIANT IntoSignsWholeZone
INVARIANT ErrMatchesOracle
INVARIANT NoSpuriousErr
INVARIANT PrefixSafe
INVARIANT CutStateCorrect
INVARIANT Consequences
INVARIANT ClosureHolds
INVARIANT CfgOk
INVARIANT Emit
INVARIANT ActsSeen
CHECK_DEADLOCK FALSE
