CONSTANTS
  Keys <- MCKeys
  KType <- MCKType
  KAlg <- MCKAlg
  MaxTTL = 0
  Dev = {}
  KeySeq <- KS_kz
  MaxList = 2
  Ops = {}
  SetKeys = {}
  Rts <- RollTypes
  AltTag = {}
  OddLists = FALSE
  WellTyped = TRUE
  NoopRolls = TRUE
SPECIFICATION Spec
VIEW MCView
ACTION_CONSTRAINT CoverT
INVARIANT Exclusive
INVARIANT NoPanic
INVARIANT TtlOnlyWhenWaiting
INVARIANT Shape
PROPERTY Ordered
PROPERTY RefusedUnchanged
CHECK_DEADLOCK FALSE
