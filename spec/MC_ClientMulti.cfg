CONSTANTS
  Dev = {}
  TickMs = 500
  Confs = {}
  MaxDgrams = 0
  Faults = {}
  MReqs = {1}
  MaxConn = 3
  FineRts = {1, 1000, 2500, 4500}
SPECIFICATION FSpec
INVARIANT MAtMostOnce
INVARIANT MOnTime
INVARIANT MOwn
INVARIANT MNoDup
INVARIANT MConnsSound
INVARIANT MBackoffSound
CHECK_DEADLOCK FALSE
