--------------------------- MODULE Gen_ServerConn ---------------------------
(* S->I generator for the stream connection machine and the datagram      *)
(* machine.  A behaviour is a list of environment stimuli; after each one *)
(* the machine is run to quiescence (Settle) -- that is what the executor *)
(* does with the real server on a current-thread runtime -- and the       *)
(* client-visible projection is recorded.  Two copies of the machine run  *)
(* in lock step: the ideal one (exp) and the one with D_queue_full_drop   *)
(* (dev), so every case carries both expectations.                        *)
EXTENDS Server, Json

CONSTANTS Mode,        \* "conn" | "dgram"
          NConn, MaxReq, QCapG, Kinds, MaxOps, MaxCredit, MaxTick,
          Limit,       \* max_concurrent_connections of the stream server
          AAM,         \* accept_connections_at_max of the stream server
          WithSReconf, \* TRUE: StreamServer::reconfigure among the stimuli
          Defaults     \* TRUE: the servers are built without any explicit configuration;
                       \* one half tick is then half the documented timeout (15 s)

ASSUME Defaults => /\ QCapG = Doc.max_queued_responses
                   /\ AAM = Doc.accept_connections_at_max
                   /\ Limit = Doc.max_concurrent_connections
                   /\ Doc.idle_timeout = Doc.response_write_timeout

VARIABLES w, hist
vars == <<w, hist>>

Conns == 1..NConn
Op(o, c, what, r, svc) == [op |-> o, c |-> c, what |-> what, r |-> r, svc |-> svc]

DQ == {"D_queue_full_drop"}
\* the server's accept loop (stream.rs run_until_error): limit / aam the
\* configuration in force (StreamServer::reconfigure), armed: the accept arm
\* of the select is enabled, parked: connection attempts waiting in the
\* listener while it is not
Srv0 == [limit |-> Limit, aam |-> AAM, armed |-> TRUE, parked |-> <<>>, down |-> FALSE]
\* three copies of the world run in lock step: the ideal one, the one with
\* D_queue_full_drop, the one with D_accept_not_resumed
W0 == [ci |-> [c \in Conns |-> InitConn({}, QCapG)],
       cd |-> [c \in Conns |-> InitConn(DQ, QCapG)],
       ca |-> [c \in Conns |-> InitConn({}, QCapG)],
       si |-> Srv0, sd |-> Srv0, sa |-> Srv0, nsre |-> 0,
       sent |-> [c \in Conns |-> 0], down |-> FALSE, credit |-> 0, tick |-> 0, aerr |-> 0,
       dg |-> InitDg]

\* apply one stimulus to one connection record
Stim(s, op) ==
  CASE op.op = "send"     -> IF s.st = "none" THEN s ELSE EnvSend(s, op.what, op.r, op.svc)
    [] op.op = "rest"     -> IF TailPartial(s) THEN EnvRest(s) ELSE s
    [] op.op = "release"  -> IF op.r \in DOMAIN s.tasks THEN EnvRelease(s, op.r) ELSE s
    [] op.op = "credit"   -> EnvCredit(s, 1)
    [] op.op = "abort"    -> IF s.st = "none" \/ s.ab THEN s ELSE EnvAbort(s)
    [] OTHER              -> s

\* One world of the stream server: x = [f |-> connections, s |-> accept loop].
Live(f) == Cardinality({c \in Conns : f[c].st = "open"})

\* stream.rs: a connection attempt reaches an enabled accept arm.  Setup
\* future failed, or the server is at its connection limit (live
\* connections, at quiescence exactly those that are open): the stream is
\* dropped; otherwise a Connection runs on it.  Then the loop goes round
\* and evaluates accepting_connections() -- with the count as it was before
\* the new handler ran.
Arrive(x, c, what) ==
  LET live == Live(x.f)
      f2 == IF what = "fail" \/ live >= x.s.limit
            THEN [x.f EXCEPT ![c] = EnvNoConn(x.f[c])]
            ELSE [x.f EXCEPT ![c] = Settle(EnvOpen(x.f[c]))]
  IN [f |-> f2, s |-> [x.s EXCEPT !.armed = (live < x.s.limit) \/ x.s.aam]]

\* poll_accept fails (ECONNABORTED, EMFILE ...): logged, the loop goes round
AcceptErr(x) == [x EXCEPT !.s.armed = (Live(x.f) < x.s.limit) \/ x.s.aam]

\* the loop went round with the accept arm enabled: whoever waits in the
\* listener is taken on in order, as long as the arm stays enabled
RECURSIVE Drain(_)
Drain(x) ==
  IF x.s.down \/ ~x.s.armed \/ x.s.parked = <<>> THEN x
  ELSE LET p == Head(x.s.parked)
           y == [x EXCEPT !.s.parked = Tail(@)]
       IN Drain(IF p.what = "err" THEN AcceptErr(y) ELSE Arrive(y, p.c, p.what))

\* the loop goes round: a command arrived; (ideal) a connection ended
Wake(x) == IF x.s.down THEN x
           ELSE Drain([x EXCEPT !.s.armed = (Live(x.f) < x.s.limit) \/ x.s.aam])

Known(x, c) == x.f[c].st # "none" \/ \E i \in 1..Len(x.s.parked) : x.s.parked[i].c = c

ApplyOpenX(x, op) ==
  IF Known(x, op.c) \/ x.s.down THEN x
  ELSE IF x.s.armed THEN Arrive(x, op.c, op.what)
  ELSE [x EXCEPT !.s.parked = Append(@, [c |-> op.c, what |-> op.what])]

\* what a client sends on a connection that still waits in the listener is
\* kept by the transport and read once the connection is taken on
Parked(x, c) == \E i \in 1..Len(x.s.parked) : x.s.parked[i].c = c
StimX(x, op) ==
  LET s == x.f[op.c]
  IN IF s.st = "none" /\ Parked(x, op.c) /\ op.op = "send"
     THEN EnvSend(s, op.what, op.r, op.svc)
     ELSE Stim(s, op)

\* dvA: D_accept_not_resumed in force (nothing wakes the accept loop when a
\* connection ends)
ApplyX(x, op, dvA) ==
  LET y == CASE op.op = "open" -> ApplyOpenX(x, op)
             \* a failed accept() changes nothing but the loop going round; while
             \* the accept arm is disabled nobody sees it yet
             [] op.op = "accepterr" -> IF x.s.down THEN x
                                       ELSE IF x.s.armed THEN AcceptErr(x)
                                       ELSE [x EXCEPT !.s.parked = Append(@, [c |-> 0, what |-> "err"])]
             [] op.op = "wait" -> x              \* less than half a tick of time passes (see W)
             [] op.op = "halftick" -> [x EXCEPT !.f = [c \in Conns |-> Settle(EnvHalfTick(x.f[c]))]]
             [] op.op = "shutdown" -> [x EXCEPT !.f = [c \in Conns |-> Settle(EnvShutdown(x.f[c]))],
                                               !.s.down = TRUE, !.s.armed = FALSE]
             \* StreamServer::reconfigure: the server takes the new limit / aam;
             \* every connection takes the connection configuration it carries
             \* (the one the server was built with: idle timeout as configured)
             [] op.op = "sreconf" ->
                  Wake([x EXCEPT !.s.limit = op.r, !.s.aam = (op.what = "aam"),
                                 !.f = [c \in Conns |-> IF x.f[c].st = "open"
                                                         THEN Settle([x.f[c] EXCEPT !.itmo = IdleDefault])
                                                         ELSE x.f[c]]])
             [] OTHER -> [x EXCEPT !.f[op.c] = Settle(StimX(x, op))]
  IN IF ~dvA /\ ~y.s.armed /\ Live(y.f) < Live(x.f) THEN Wake(y) ELSE y

ApplyDg(d, op) ==
  CASE op.op = "recv"    -> DgSettle(DgRecv(d, op.what, op.r, op.svc))
    [] op.op = "reconf"   -> DgReconf(d, op.r)
    [] op.op = "spurious" -> DgSpurious(d)
    [] op.op = "senderr"  -> DgSendErr(d)
    [] op.op = "release" -> IF op.r \in DOMAIN d.tasks THEN DgSettle(DgRelease(d, op.r)) ELSE d
    [] OTHER             -> d

Apply(x, op) ==
  IF Mode = "dgram"
  THEN [x EXCEPT !.dg = ApplyDg(x.dg, op),
                 !.sent[1] = IF op.op = "recv" THEN @ + 1 ELSE @]
  ELSE LET i == ApplyX([f |-> x.ci, s |-> x.si], op, FALSE)
           d == ApplyX([f |-> x.cd, s |-> x.sd], op, FALSE)
           a == ApplyX([f |-> x.ca, s |-> x.sa], op, TRUE)
       IN
       [x EXCEPT !.ci = i.f, !.cd = d.f, !.ca = a.f, !.si = i.s, !.sd = d.s, !.sa = a.s,
                 !.nsre = IF op.op = "sreconf" THEN @ + 1 ELSE @,
                 !.sent = IF op.op = "send" THEN [@ EXCEPT ![op.c] = @ + 1] ELSE @,
                 !.down = @ \/ op.op = "shutdown",
                 !.credit = IF op.op = "credit" THEN @ + 1 ELSE @,
                 !.tick = IF op.op = "halftick" THEN @ + 1 ELSE @,
                 !.aerr = IF op.op = "accepterr" THEN @ + 1 ELSE @]

\* stimuli worth trying in world x (guards on the machine as the code is)
ConnOps(x) ==
  LET S(c) == x.cd[c]
      canSend(c) == S(c).st = "open" /\ ~S(c).ab /\ ~TailPartial(S(c)) /\ x.sent[c] < MaxReq
      worlds == {[f |-> x.ci, s |-> x.si], [f |-> x.cd, s |-> x.sd], [f |-> x.ca, s |-> x.sa]}
      \* a fresh connection id; at most one attempt waits in the listener
      canOpen(c) == /\ \A y \in worlds : ~Known(y, c)
                    /\ \/ \A y \in worlds : y.s.armed
                       \/ \A y \in worlds : \A i \in 1..Len(y.s.parked) : y.s.parked[i].what = "err"
  IN UNION {
       {Op("open", c, wh, 0, "") : c \in {d \in Conns : canOpen(d) /\ ~x.down},
                                   wh \in {"ok", "ok", "fail"}},
       IF WithSReconf /\ ~x.down /\ x.nsre < 2
         THEN {Op("sreconf", 0, wh, lim, "") : wh \in {"aam", "noaam"}, lim \in {1, 2, 3}} ELSE {},
       {Op("send", c, wh, x.sent[c] + 1, svc) :
            c \in {d \in Conns : canSend(d)}, wh \in {"query", "partial"}, svc \in Kinds},
       {Op("send", c, wh, x.sent[c] + 1, "") :
            c \in {d \in Conns : canSend(d)}, wh \in {"reply", "short"}},
       {Op("rest", c, "", 0, "") : c \in {d \in Conns : S(d).st = "open" /\ ~S(d).ab /\ TailPartial(S(d))}},
       UNION {{Op("release", c, "", r, "") :
                 r \in {rr \in DOMAIN S(c).tasks : S(c).tasks[rr].permits < Len(S(c).tasks[rr].items)}}
              : c \in Conns},
       {Op("credit", c, "", 0, "") : c \in {d \in Conns : S(d).st = "open" /\ x.credit < MaxCredit}},
       \* (a peer that waits in the listener of some world stays)
       {Op("abort", c, "", 0, "") : c \in {d \in Conns : S(d).st = "open" /\ ~S(d).ab
                                                          /\ \A y \in worlds : ~Parked(y, d)}},
       IF ~x.down /\ x.aerr < 2 THEN {Op("accepterr", 0, "", 0, "")} ELSE {},
       IF x.tick < MaxTick /\ \E c \in Conns : S(c).st = "open"
         THEN {Op("halftick", 0, "", 0, "")} ELSE {},
       IF ~x.down /\ \E c \in Conns : S(c).st = "open"
         THEN {Op("shutdown", 0, "", 0, "")} ELSE {} }

\* service kinds that (also) say what the request looks like
ReqKinds == {"strip", "strip2", "fill", "fill64", "ckfar", "ckexp", "cklen"}

DgOps(x) ==
  UNION {
    {Op("reconf", 0, "", lim, "") : lim \in {lm \in {100, 512, 1232, 4096, 60000} : DgReconf(x.dg, lm) # x.dg}},
    {Op("spurious", 0, "", 0, "")},
    IF x.dg.sendfail = 0 THEN {Op("senderr", 0, "", 0, "")} ELSE {},
    IF x.sent[1] < MaxReq
      THEN {Op("recv", 0, "query", x.sent[1] + 1, svc) : svc \in Kinds}
           \* a datagram shorter than a header is a zero-padded request of no particular shape
           \cup {Op("recv", 0, "short", x.sent[1] + 1, svc) : svc \in Kinds \ ReqKinds}
           \cup {Op("recv", 0, "query", x.sent[1] + 1, svc) : svc \in {"big", "mid", "huge"}}
           \cup {Op("recv", 0, wh, x.sent[1] + 1, "") : wh \in {"reply", "shortqr"}}
      ELSE {},
    {Op("release", 0, "", r, "") :
        r \in {rr \in DOMAIN x.dg.tasks : x.dg.tasks[rr].permits < Len(x.dg.tasks[rr].items)}} }

Ops(x) == IF Mode = "dgram" THEN DgOps(x) ELSE ConnOps(x)

ProjI(x) == IF Mode = "dgram" THEN [sent |-> DgProj(x.dg), alive |-> x.dg.alive]
            ELSE [cs |-> [c \in Conns |-> Proj(x.ci[c])], alive |-> TRUE]
ProjA(x) == IF Mode = "dgram" THEN [sent |-> DgProj(x.dg), alive |-> x.dg.alive]
            ELSE [cs |-> [c \in Conns |-> Proj(x.ca[c])], alive |-> TRUE]
ProjD(x) == IF Mode = "dgram" THEN [sent |-> DgProj(x.dg), alive |-> x.dg.alive]
            ELSE [cs |-> [c \in Conns |-> Proj(x.cd[c])], alive |-> TRUE]

Init == w = W0 /\ hist = <<>>
Next == /\ Len(hist) < MaxOps
        /\ \E op \in Ops(w) :
             LET x == Apply(w, op)
             IN /\ w' = x
                /\ hist' = Append(hist, [op |-> op, pi |-> ProjI(x), pd |-> ProjD(x), pa |-> ProjA(x)])
Spec == Init /\ [][Next]_vars

CaseOf(h) ==
  [in  |-> IF Mode = "dgram"
           THEN [kind |-> "dgram", hint |-> Doc.udp_max_response_size, defaults |-> Defaults, ops |-> [i \in 1..Len(h) |-> h[i].op]]
           ELSE [kind |-> "conn", q |-> QCapG, nc |-> NConn, limit |-> Limit, aam |-> AAM, defaults |-> Defaults, ops |-> [i \in 1..Len(h) |-> h[i].op]],
   exp |-> [i \in 1..Len(h) |-> h[i].pi],
   dev |-> [D_queue_full_drop |-> [i \in 1..Len(h) |-> h[i].pd],
            D_accept_not_resumed |-> [i \in 1..Len(h) |-> h[i].pa]]]

\* one case per maximal behaviour
Emit == (Len(hist) = MaxOps \/ (hist # <<>> /\ Ops(w) = {})) => PrintT("CASE " \o ToJson(CaseOf(hist)))

\* ---- directed behaviours: evaluated by the same machine, always emitted ----
RECURSIVE Run(_, _, _)
Run(x, ops, h) ==
  IF ops = <<>> THEN h
  ELSE LET y == Apply(x, Head(ops))
       IN Run(y, Tail(ops), Append(h, [op |-> Head(ops), pi |-> ProjI(y), pd |-> ProjD(y), pa |-> ProjA(y)]))

O(c)  == Op("open", c, "ok", 0, "")
OF(c) == Op("open", c, "fail", 0, "")     \* connection setup (handshake) fails
Q(c, r, svc) == Op("send", c, "query", r, svc)
P(c, r, svc) == Op("send", c, "partial", r, svc)
Rp(c, r) == Op("send", c, "reply", r, "")
Sh(c) == Op("send", c, "short", 0, "")
Rs(c) == Op("rest", c, "", 0, "")
Rl(c, r) == Op("release", c, "", r, "")
Cr(c) == Op("credit", c, "", 0, "")
Ab(c) == Op("abort", c, "", 0, "")
HT == Op("halftick", 0, "", 0, "")
\* ms milliseconds pass; all waits of one behaviour together stay below half
\* a tick, so whether a timer has expired is decided by the half ticks alone
W(ms) == Op("wait", 0, "", ms, "")
AE == Op("accepterr", 0, "", 0, "")     \* poll_accept returns an error once
SD == Op("shutdown", 0, "", 0, "")

Directed ==
  << \* slow peer, pipelining: the (QCapG+2)nd response meets a full queue
     <<O(1), Q(1,1,"single"), Q(1,2,"single"), Q(1,3,"single"), Q(1,4,"single"),
       Rl(1,1), Rl(1,2), Rl(1,3), Rl(1,4), Cr(1), Cr(1), Cr(1), Cr(1), HT, HT>>,
     \* a streamed answer inside / outside a transaction with a blocked writer
     <<O(1), Q(1,1,"txn"), Rl(1,1), Rl(1,1), Rl(1,1), Cr(1), Cr(1), Cr(1), Cr(1), SD>>,
     \* full queue inside a transaction: the task retries until there is room
     <<O(1), Q(1,1,"single"), Q(1,2,"txn"), Q(1,3,"single"), Rl(1,1), Rl(1,3), Rl(1,2), Rl(1,2),
       Rl(1,2), Cr(1), Cr(1), Cr(1), Cr(1), Cr(1)>>,
     <<O(1), Q(1,1,"stream2"), Q(1,2,"stream2"), Rl(1,1), Rl(1,1), Rl(1,2), Rl(1,2),
       Cr(1), Cr(1), Cr(1), Cr(1)>>,
     \* completion order differs from arrival order
     <<O(1), Cr(1), Cr(1), Cr(1), Q(1,1,"single"), Q(1,2,"single"), Q(1,3,"single"),
       Rl(1,3), Rl(1,1), Rl(1,2)>>,
     \* service error, service without answer, error in the middle of a stream
     <<O(1), Cr(1), Cr(1), Cr(1), Cr(1), Q(1,1,"fail"), Q(1,2,"empty"), Q(1,3,"rfail"),
       Rl(1,1), Rl(1,3), Rl(1,3), Rl(1,3), Rp(1,4)>>,
     \* idle timer: reset by a full message and by an emptied queue, not by a fragment
     <<O(1), HT, Q(1,1,"single"), HT, Cr(1), Rl(1,1), HT, P(1,2,"single"), HT, Rs(1)>>,
     <<O(1), HT, P(1,1,"single"), HT, Rs(1)>>,
     \* slow service: the answer comes after the idle timeout closed the connection
     <<O(1), Cr(1), Q(1,1,"single"), HT, HT, Rl(1,1)>>,
     \* write timeout, then nothing more
     <<O(1), Q(1,1,"single"), Q(1,2,"single"), Rl(1,1), Rl(1,2), HT, HT, Cr(1), Cr(1)>>,
     \* shutdown flushes what is queued, abort does not
     <<O(1), Q(1,1,"single"), Q(1,2,"single"), Rl(1,1), Rl(1,2), SD, Cr(1), Cr(1)>>,
     <<O(1), Q(1,1,"single"), Q(1,2,"single"), Rl(1,1), Rl(1,2), Ab(1), Cr(1), Cr(1)>>,
     <<O(1), Cr(1), Q(1,1,"single"), P(1,2,"single"), Ab(1), Rl(1,1)>>,
     \* hostile input on connection 1 does not disturb connection 2
     <<O(1), O(2), Cr(2), Cr(2), Q(2,1,"single"), Sh(1), Rl(2,1), Q(2,2,"stream2"),
       Rl(2,2), Cr(2), Rl(2,2)>>,
     <<O(1), O(2), Cr(2), Q(1,1,"single"), Q(2,1,"single"), Ab(1), Rl(1,1), Rl(2,1)>>,
     <<O(1), O(2), Cr(1), Cr(2), Rp(1,1), P(1,2,"single"), Q(2,1,"fail"), Rl(2,1), Ab(1)>>,
     \* failed connection setups (>= the limit of them) leave no trace:
     \* the next client is served
     <<OF(1), OF(2), OF(3), O(4), Cr(4), Q(4,1,"single"), Rl(4,1)>>,
     <<O(1), OF(2), OF(3), O(4), Cr(4), Cr(1), Q(4,1,"single"), Rl(4,1), Q(1,1,"single"), Rl(1,1)>>,
     \* a service asks for a longer idle timeout (ServiceFeedback::Reconfigure):
     \* a slow request spanning the old timeout is still answered; a shorter
     \* one closes the connection sooner
     <<O(1), Cr(1), Cr(1), Q(1,1,"rlong"), Rl(1,1), Q(1,2,"single"), HT, HT, HT, Rl(1,2), HT, HT, HT, HT>>,
     <<O(1), Cr(1), Cr(1), Q(1,1,"rshort"), Rl(1,1), HT, Q(1,2,"single"), Rl(1,2)>>,
     <<O(1), Cr(1), Cr(1), Cr(1), Q(1,1,"rshort"), Q(1,2,"rlong"), Rl(1,1), Rl(1,2), HT, HT, HT, Q(1,3,"single"), Rl(1,3), HT>>,
     <<O(1), O(2), Cr(1), Cr(2), Q(1,1,"rlong"), Rl(1,1), HT, HT, Q(2,1,"single"), Rl(2,1), HT>>,
     \* feedback-only stream items (as the XFR middleware emits): inside the
     \* transaction a full queue waits, nothing is lost however slow the peer
     <<O(1), Q(1,1,"xfr"), Rl(1,1), Rl(1,1), Rl(1,1), Rl(1,1), Rl(1,1), Rl(1,1),
       Cr(1), Cr(1), Cr(1), Cr(1)>>,
     <<O(1), Q(1,1,"xfr"), Q(1,2,"single"), Rl(1,1), Rl(1,1), Rl(1,2), Rl(1,1), Rl(1,1), Rl(1,1), Rl(1,1),
       Cr(1), Cr(1), Cr(1), Cr(1), Cr(1)>>,
     \* all permits there before the request is read: the whole stream in one poll
     <<O(1), P(1,1,"xfr"), Rl(1,1), Rl(1,1), Rl(1,1), Rl(1,1), Rl(1,1), Rl(1,1), Rs(1),
       Cr(1), Cr(1), Cr(1), Cr(1)>>,
     \* feedback-only Reconfigure
     <<O(1), Cr(1), Cr(1), Q(1,1,"fblong"), Rl(1,1), HT, HT, HT, Rl(1,1), Q(1,2,"single"), HT, HT, HT, Rl(1,2)>>,
     \* a failing accept() does not end the accept loop
     <<AE, O(1), Cr(1), Q(1,1,"single"), Rl(1,1)>>,
     <<O(1), AE, AE, O(2), Cr(2), Cr(1), Q(2,1,"single"), Rl(2,1), Q(1,1,"single"), Rl(1,1), AE, Ab(1), O(3), Cr(3), Rp(3,1)>>,
     \* at the limit a connection is refused; when one ends there is room again
     <<O(1), O(2), O(3), Ab(1), O(4), Cr(4), Q(4,1,"single"), Rl(4,1), Cr(2), Q(2,1,"single"), Rl(2,1)>>,
     \* open / close cycles of every kind do not use up the limit
     <<O(1), Ab(1), O(2), Sh(2), OF(3), O(4), Cr(4), Q(4,1,"single"), Rl(4,1)>>,
     <<O(1), HT, HT, O(2), Cr(2), Q(2,1,"single"), HT, O(3), Rl(2,1), HT, HT, O(4), Cr(4), Rp(4,1)>>,
     \* Framed, on the wire: responses whose last builder operation removed
     \* octets (OPT stripped by the EDNS middleware, a push rolled back at the
     \* push limit / at 65535 octets), pipelined with ordinary ones -- a wrong
     \* length prefix would swallow the next frame
     <<O(1), Cr(1), Cr(1), Cr(1), Cr(1), Cr(1), Q(1,1,"strip"), Q(1,2,"strip2"), Q(1,3,"single"),
       Rl(1,1), Rl(1,2), Rl(1,2), Rl(1,3)>>,
     <<O(1), Cr(1), Cr(1), Cr(1), Q(1,1,"fill"), Q(1,2,"fill64"), Q(1,3,"single"), Rl(1,2), Rl(1,1), Rl(1,3)>>,
     <<O(1), Q(1,1,"strip"), Q(1,2,"fill"), Rl(1,1), Rl(1,2), Cr(1), Cr(1), SD>>,
     \* hostile COOKIE options (server cookie half-way round the serial circle,
     \* expired, of a forbidden length) are answered and disturb nobody
     <<O(1), O(2), Cr(1), Cr(1), Cr(1), Cr(1), Cr(2), Cr(2), Q(1,1,"ckfar"), Q(2,1,"single"), Rl(1,1), Rl(2,1),
       Q(1,2,"ckexp"), Q(1,3,"cklen"), Rl(1,2), Q(1,4,"single"), Rl(1,4), Q(2,2,"ckfar"), Rl(2,2)>>,
     <<O(1), Q(1,1,"cklen"), Q(1,2,"ckfar"), Rl(1,2), Cr(1), Cr(1), HT>>,
     \* every kind of ServiceError becomes one error response
     <<O(1), Cr(1), Cr(1), Cr(1), Cr(1), Q(1,1,"ffail"), Q(1,2,"refuse"), Q(1,3,"nimp"), Rl(1,3), Rl(1,1), Rl(1,2),
       Q(1,4,"single"), Rl(1,4)>> >>

\* accept_connections_at_max = false (Limit = 2): at the limit the server
\* stops accepting; "no new connections will be accepted until the number
\* of concurrent connections falls below the limit" -- then they are
SRc(lim, wh) == Op("sreconf", 0, wh, lim, "")
DirectedNoAam ==
  << \* both slots taken, a third client is turned away, a fourth waits; one
     \* connection ends: the fourth is served
     <<O(1), O(2), O(3), O(4), Cr(4), Ab(1), Q(4,1,"single"), Rl(4,1), Cr(2), Q(2,1,"single"), Rl(2,1)>>,
     \* ... ends by idle timeout, by a too-short message, by shutdown of the peer
     <<O(1), O(2), O(3), HT, Cr(2), Q(2,1,"single"), Rl(2,1), O(4), HT, Cr(4), Q(4,1,"single"), Rl(4,1)>>,
     <<O(1), O(2), O(3), Sh(1), O(4), Cr(4), Q(4,1,"single"), Rl(4,1), Sh(2), Ab(4), O(5), Cr(5), Rp(5,1)>>,
     \* every connection has gone: the server is empty and a new client comes
     <<O(1), O(2), O(3), Ab(1), Ab(2), O(4), Cr(4), Q(4,1,"single"), Rl(4,1)>>,
     \* a command makes the loop go round (today's only way out)
     <<O(1), O(2), O(3), Ab(1), O(4), SRc(2, "noaam"), Cr(4), Q(4,1,"single"), Rl(4,1)>>,
     \* the limit raised / lowered / aam switched while running
     <<O(1), O(2), O(3), SRc(3, "noaam"), O(4), Cr(4), Q(4,1,"single"), Rl(4,1), O(5), Ab(4), Cr(5), Q(5,1,"single"), Rl(5,1)>>,
     <<O(1), SRc(1, "aam"), O(2), Cr(1), Q(1,1,"single"), Rl(1,1), Ab(1), O(3), Cr(3), Q(3,1,"single"), Rl(3,1)>>,
     <<O(1), O(2), SRc(1, "noaam"), O(3), Ab(1), Ab(2), Cr(3), Q(3,1,"single"), Rl(3,1), O(4), Ab(3), O(5), Cr(5), Rp(5,1)>>,
     \* a waiting client is not lost by a shutdown of the server either: it is never served
     <<O(1), O(2), O(3), O(4), SD, Cr(1), Q(1,1,"single")>> >>

\* servers built with their default configuration: documented timeouts (a
\* slow reader well below the write timeout loses nothing), queue of 10
DirectedDefaults ==
  << <<O(1), Q(1,1,"single"), Rl(1,1), W(300), Cr(1), Q(1,2,"single"), Rl(1,2), W(5000), Cr(1),
       Q(1,3,"single"), Rl(1,3), HT, W(4000), Cr(1), Q(1,4,"single"), Rl(1,4), HT, HT, Cr(1)>>,
     <<O(1), HT, W(14000), HT>>,
     <<O(1), HT, Cr(1), Q(1,1,"single"), W(9000), HT, Rl(1,1), HT, W(5000), HT>>,
     <<O(1), Q(1,1,"single"), Q(1,2,"single"), Q(1,3,"single"), Q(1,4,"single"), Q(1,5,"single"),
       Q(1,6,"single"), Q(1,7,"single"), Q(1,8,"single"), Q(1,9,"single"), Q(1,10,"single"),
       Q(1,11,"single"), Q(1,12,"single"), Q(1,13,"single"),
       Rl(1,1), Rl(1,2), Rl(1,3), Rl(1,4), Rl(1,5), Rl(1,6), Rl(1,7), Rl(1,8), Rl(1,9), Rl(1,10),
       Rl(1,11), Rl(1,12), Rl(1,13),
       Cr(1), Cr(1), Cr(1), Cr(1), Cr(1), Cr(1), Cr(1), Cr(1), Cr(1), Cr(1), Cr(1), Cr(1), Cr(1)>> >>

DgDirected ==
  << <<Op("recv",0,"query",1,"single"), Op("recv",0,"reply",2,""), Op("recv",0,"short",3,"single"),
       Op("recv",0,"shortqr",4,""), Op("release",0,"",3,""), Op("release",0,"",1,""),
       Op("recv",0,"query",5,"stream2"), Op("release",0,"",5,""), Op("release",0,"",5,""),
       Op("recv",0,"query",6,"rfail"), Op("release",0,"",6,""), Op("release",0,"",6,""),
       Op("release",0,"",6,"")>>,
     \* the configured limit is the one in force when the request arrives:
     \* lowered (1232 -> 4096 -> 1232 -> 512) and raised between requests
     <<Op("recv",0,"query",1,"big"), Op("release",0,"",1,""),
       Op("reconf",0,"",4096,""), Op("recv",0,"query",2,"big"), Op("release",0,"",2,""),
       Op("reconf",0,"",1232,""), Op("recv",0,"query",3,"big"), Op("release",0,"",3,""),
       Op("recv",0,"query",4,"big"), Op("reconf",0,"",4096,""), Op("release",0,"",4,""),
       Op("recv",0,"query",5,"big"), Op("reconf",0,"",512,""), Op("release",0,"",5,""),
       Op("recv",0,"query",6,"big"), Op("release",0,"",6,"")>>,
     \* set_max_response_size clamps into 512..4096
     <<Op("reconf",0,"",100,""), Op("recv",0,"query",1,"mid"), Op("release",0,"",1,""),
       Op("recv",0,"query",2,"big"), Op("release",0,"",2,""),
       Op("reconf",0,"",60000,""), Op("recv",0,"query",3,"huge"), Op("release",0,"",3,""),
       Op("recv",0,"query",4,"big"), Op("release",0,"",4,"")>>,
     \* spurious readiness and send errors do not stop the server
     <<Op("spurious",0,"",0,""), Op("recv",0,"query",1,"single"), Op("release",0,"",1,""),
       Op("spurious",0,"",0,""), Op("spurious",0,"",0,""), Op("recv",0,"reply",2,""),
       Op("senderr",0,"",0,""), Op("recv",0,"query",3,"single"), Op("release",0,"",3,""),
       Op("recv",0,"query",4,"stream2"), Op("release",0,"",4,""), Op("senderr",0,"",0,""),
       Op("release",0,"",4,""), Op("recv",0,"shortqr",5,""), Op("spurious",0,"",0,""),
       Op("recv",0,"query",6,"single"), Op("release",0,"",6,"")>>,
     \* hostile COOKIE options and every kind of ServiceError over UDP
     <<Op("recv",0,"query",1,"ckfar"), Op("release",0,"",1,""), Op("recv",0,"query",2,"cklen"),
       Op("recv",0,"query",3,"ckexp"), Op("recv",0,"query",4,"single"), Op("release",0,"",4,""),
       Op("release",0,"",3,""), Op("recv",0,"query",5,"refuse"), Op("release",0,"",5,""),
       Op("recv",0,"query",6,"nimp"), Op("release",0,"",6,""), Op("recv",0,"query",7,"ffail"),
       Op("release",0,"",7,""), Op("recv",0,"query",8,"ckfar"), Op("release",0,"",8,"")>> >>

EmitDirected ==
  hist = <<>> =>
    LET D == IF Mode = "dgram" THEN DgDirected
             ELSE IF Defaults THEN DirectedDefaults
             ELSE IF ~AAM THEN SelectSeq(DirectedNoAam, LAMBDA ops : \A i \in 1..Len(ops) : ops[i].c <= NConn)
             ELSE SelectSeq(Directed, LAMBDA ops : \A i \in 1..Len(ops) : ops[i].c <= NConn)
    IN /\ \A i \in 1..Len(D) : PrintT("CASE " \o ToJson(CaseOf(Run(W0, D[i], <<>>))))
       \* the defaults themselves, where the configuration types have getters
       /\ (Defaults /\ Mode = "conn") =>
            PrintT("CASE " \o ToJson([in |-> [kind |-> "cfg"],
                 exp |-> [max_concurrent_connections |-> Doc.max_concurrent_connections,
                          accept_connections_at_max |-> Doc.accept_connections_at_max]]))
=============================================================================
