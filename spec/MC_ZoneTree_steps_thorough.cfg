CONSTANTS
  Dev = {}
  Classes <- MCClasses
  ApexNames <- MCApexQuick
  ArgNames <- MCArgQuick
  QNames <- MCQQuick
  Ids = {1, 2}
  MaxOps = 3
SPECIFICATION Spec
INVARIANT TypeOK
PROPERTY StepsObeyLaw
CHECK_DEADLOCK FALSE
