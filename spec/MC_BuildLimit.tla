--------------------------- MODULE MC_BuildLimit ---------------------------
(* C19: the limit semantics of BuildLimit.tla as a machine.  The calls a     *)
(* builder can log are enumerated and the ones BuildLimit!Step accepts are   *)
(* the transitions - the same operator that judges recorded runs.  Checked:  *)
(* the message never exceeds the hard limit, an admitted push never ends      *)
(* beyond the soft limit, the hard limit only narrows, discarding leaves the *)
(* limits alone, and the semantics is decisive: for every push exactly one   *)
(* outcome is accepted while the run is clean, except at exactly the soft     *)
(* limit (left open, as in MsgBuilder.tla).                                  *)
EXTENDS BuildLimit, TLC

CONSTANTS Caps, Ps, Fixed, MaxCalls
VARIABLES st, kind, calls
vars == <<st, kind, calls>>

\* a record owned by the root name: fixed + 1 octets, nothing to compress
Item == <<1, << <<>>, 1, 1, 0, 60, <<>>, <<>> >> >>
Inc(c) == [c EXCEPT ![2] = c[2] + 1]
PushOps(f) ==
  {[op |-> "push", sec |-> 1, ok |-> o, p |-> 0, need |-> st.len + f + 1, len |-> l, counts |-> c] :
     o \in BOOLEAN, l \in {st.len, st.len + f + 1}, c \in {st.counts, Inc(st.counts)}}
LimitOps == {[op |-> "limit", sec |-> 0, ok |-> o, p |-> p, need |-> 0, len |-> st.len, counts |-> st.counts] :
               o \in BOOLEAN, p \in Ps}
TruncOp == [op |-> "trunc", sec |-> 0, ok |-> TRUE, p |-> 0, need |-> 0, len |-> 12, counts |-> <<0, 0, 0, 0>>]

MCInit == kind \in {"soft", "hard"} /\ calls = 0 /\ \E c \in Caps : st = Init(c)
Push == \E x \in UNION {{<<f, op>> : op \in PushOps(f)} : f \in Fixed} :
          LET s2 == Step(st, x[2], kind, Item, x[1]) IN s2.ok /\ st' = s2 /\ calls' = calls + 1 /\ UNCHANGED kind
Limit == \E op \in LimitOps :
          LET s2 == Step(st, op, kind, <<>>, 0) IN s2.ok /\ st' = s2 /\ calls' = calls + 1 /\ UNCHANGED kind
TruncOps == {TruncOp, [TruncOp EXCEPT !.len = st.len, !.counts = st.counts]}
Trunc == \E op \in TruncOps :
          LET s2 == Step(st, op, kind, <<>>, 0) IN s2.ok /\ st' = s2 /\ calls' = calls + 1 /\ UNCHANGED kind
MCNext == Push \/ Limit \/ Trunc
MCSpec == MCInit /\ [][MCNext]_vars
Bound == calls <= MaxCalls

WithinHard == st.len <= st.hard
Decisive ==
  \A f \in Fixed :
    LET acc == {op \in PushOps(f) : Step(st, op, kind, Item, f).ok}
        n == st.len + f + 1
    IN IF st.clean
       THEN Cardinality(acc) = IF n = st.soft /\ n <= st.hard THEN 2 ELSE 1
       ELSE Cardinality(acc) \in {1, 2}
AdmittedWithinSoft == [][st'.len > st.len => st'.len <= st.soft]_vars
HardOnlyNarrows == [][st'.hard <= st.hard]_vars
DiscardKeepsLimits == [][st'.len < st.len => (st'.hard = st.hard /\ st'.soft = st.soft)]_vars
LimitToRefusedIffExceeded ==
  [][(kind = "hard" /\ st'.hard # st.hard) => st.len <= st'.hard]_vars
=============================================================================
