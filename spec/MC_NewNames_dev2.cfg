CONSTANTS
  Dev = {}
  Tier = 1
SPECIFICATION Spec
INVARIANT LawFwdImplTransitive
CHECK_DEADLOCK FALSE
