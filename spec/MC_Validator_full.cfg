CONSTANTS
  Dev = {}
  Mut = {}
  AdvOn = {"ANS", "DS", "DNSKEY"}
  AnchorForms = {"dnskey"}
  Cfgs = {"default"}
  MaxRuns = 1
  EntQKinds = {"positive", "wildcard", "nodata", "nxdomain", "cname1", "cname2", "ds", "dname", "dnamex", "nxdeep"}
  Budget = 1
  Shapes = {"secure3", "insecure3", "secure4", "insecure4", "entapex_s", "entapex_i", "entname_s", "entname_i"}
  Denials = {"nsec", "nsec3", "optout"}
  QKinds = {"positive", "wildcard", "nodata", "nxdomain", "cname1", "cname2", "ds", "dname", "dnamex", "nxdeep"}
  AdvActs = {"ShortSig", "DropRrsig", "DropRrset", "ReplaceRdata", "WrongSigner", "Expire", "NotYetValid", "ReplayAncestor", "AddCollidingKey", "AddExtraDs", "CorruptSigOctets", "HideCe", "ForgeSigned", "AddBadSig", "CorruptKey", "CorruptDs", "StripProof", "ForgeNsecRange", "SwapProof", "BadNsec3Label", "BadNsec3LabelSigned", "ZeroCounts", "ZeroTtl", "Inject", "CnameLoop"}
SPECIFICATION Spec
VIEW View
INVARIANT Soundness
INVARIANT HonestSecure
INVARIANT InsecureNotBogus
INVARIANT WithinAllowed
INVARIANT NoPanic
INVARIANT Terminates
INVARIANT CacheTransparent
INVARIANT NoAnchorNotSecure
INVARIANT LimitsEnforced
INVARIANT Emit
CHECK_DEADLOCK TRUE
