CONSTANTS
  Dev = {}
  MaxTail = 3
  SmallTail = 2
  TailTypes = {"Rtype", "SvcParamKey", "Opcode", "TsigRcode", "SecurityAlgorithm", "Rcode"}
  FullTypes = {}
  Emitting = FALSE
SPECIFICATION Spec
INVARIANT CodeLaws
INVARIANT TextLaws
CHECK_DEADLOCK FALSE
