CONSTANTS
  Dev = {}
  TickMs = 100000
  Confs = {}
  MaxDgrams = 0
  Faults = {}
  MReqs = {1}
  MaxConn = 3
  MsConfs <- GMsLoss
  XConfs <- GXConfs
  OpNames <- LossOps
  TcOnly = FALSE
  Mode = "multi"
  MaxOps = 12
  PathMode = TRUE
SPECIFICATION CSpec
VIEW CView
ACTION_CONSTRAINT Emit
INVARIANT MAtMostOnce
INVARIANT MOnTime
INVARIANT MOwn
INVARIANT MNoDup
INVARIANT MConnsSound
INVARIANT XNoTruncated
INVARIANT XAtMostOnce
INVARIANT XTcpOnlyAfterTc
INVARIANT XOnTime
INVARIANT XLegsSound
CHECK_DEADLOCK FALSE
