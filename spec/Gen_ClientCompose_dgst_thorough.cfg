CONSTANTS
  Dev = {}
  RD = 2
  MaxRetries = 1
  MaxDgrams = 0
  Faults = {}
  MRT = 3
  MReqs = {1}
  MaxConn = 3
  Mode = "dgst"
  MaxOps = 9
  PathMode = TRUE
SPECIFICATION CSpec
VIEW CView
ACTION_CONSTRAINT Emit
INVARIANT MAtMostOnce
INVARIANT MOnTime
INVARIANT MOwn
INVARIANT MNoDup
INVARIANT XNoTruncated
INVARIANT XAtMostOnce
INVARIANT XTcpOnlyAfterTc
INVARIANT XOnTime
INVARIANT XLegsSound
CHECK_DEADLOCK FALSE
