CONSTANTS
  Dev = {}
  Mode = "anchor"
  MaxLines = 0
  MaxSyms = 0
  MaxAdds = 2
  LineSet = "full"
  TagKeyLen = 0
  RsaFields <- RsaFields2
SPECIFICATION Spec
INVARIANT AnchorLaws
INVARIANT EmitAnchors
CHECK_DEADLOCK FALSE
