CONSTANTS
  Dev = {}
  Mode = "dgram"
  NConn = 1
  MaxReq = 6
  QCapG = 10
  Kinds = {"single", "stream2", "fail", "rfail", "empty"}
  MaxOps = 0
  MaxCredit = 5
  MaxTick = 3
  Limit = 100
  AAM = TRUE
  WithSReconf = FALSE
  Defaults = TRUE
SPECIFICATION Spec
INVARIANT EmitDirected
CHECK_DEADLOCK FALSE
