----------------------------- MODULE MC_ConnView -----------------------------
(* emits the ConnView table (32 rows) for the Connection binding of C14 *)
EXTENDS ValidatorConn, Sequences, TLC, Json
VARIABLE done
Init == done = FALSE
Next == done' = TRUE
Spec == Init /\ [][Next]_done
\* AD never without a Secure verdict; nothing but Bogus-without-CD is refused
Sane == \A st \in States, cd \in BOOLEAN, ad \in BOOLEAN, do \in BOOLEAN :
          LET v == ConnView(st, cd, ad, do) IN
          /\ v.ad => st = "Secure" /\ ~cd
          /\ v.servfail => st = "Bogus"
Emit == done =>
  \A st \in States, cd \in BOOLEAN, ad \in BOOLEAN, do \in BOOLEAN :
    PrintT("CASE " \o ToJson([in |-> [state |-> st, cd |-> cd, ad |-> ad, do |-> do],
                              exp |-> ConnView(st, cd, ad, do)]))
=============================================================================
