CONSTANTS
  Dev = {}
  QCapT = 10
SPECIFICATION TSpec
INVARIANT ConnInvariants
INVARIANT LostCounter
POSTCONDITION Accepted
CHECK_DEADLOCK FALSE
