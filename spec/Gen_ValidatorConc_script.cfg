CONSTANTS
  Procs = {1, 2}
  Qs = {"zone", "sub", "other", "plain", "tld"}
  Runs = 1
  MaxNow = 6
  Budget = 2
  AdvKinds <- AllKinds
  Dev <- EnvDev
  Mut = {}
  Atomic = TRUE
  Script <- EnvScript
SPECIFICATION GSpec
INVARIANT Emit
CHECK_DEADLOCK FALSE
