CONSTANTS
  Dev = {}
SPECIFICATION TSpec
INVARIANT LimitL
INVARIANT ErrUnchangedL
INVARIANT PanicOnlyDocumented
POSTCONDITION Accepted
CHECK_DEADLOCK FALSE
