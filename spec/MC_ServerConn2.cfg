CONSTANTS
  Dev = {}
  Conns = {1, 2}
  MaxReq = 1
  QCaps = {1}
  Kinds = {"single"}
  MaxCredit = 2
  MaxTick = 0
  MaxAbort = 1
SPECIFICATION SpecConn
INVARIANT EachResponseOnce
INVARIANT IdQuestionPreserved
INVARIANT Framed
PROPERTY OthersUnaffected
PROPERTY ClosedFinal
CHECK_DEADLOCK FALSE
