CONSTANTS
  Dev = {}
  MaxOps = 4
SPECIFICATION Spec
INVARIANT HandedIsSignedData
INVARIANT Emit
CHECK_DEADLOCK FALSE
