CONSTANTS
  Dev = {"D_remove_zone_drops_class"}
  Classes <- MCClasses
  ApexNames <- MCApexQuick
  ArgNames <- MCArgQuick
  QNames <- MCQQuick
  Ids = {1}
  MaxOps = 3
SPECIFICATION Spec
VIEW View
INVARIANT TypeOK
INVARIANT RemoveLaw
CHECK_DEADLOCK FALSE
