CONSTANTS
  Dev = {}
  MaxOps = 5
  MaxViewOps = 5
  ManyViews = TRUE
SPECIFICATION MCSpec
INVARIANT EmitOrders
INVARIANT NoUndecided
CHECK_DEADLOCK FALSE
