CONSTANTS
  Dev = {}
  MaxOps = 5
SPECIFICATION MCSpec
INVARIANT EmitOrders
CHECK_DEADLOCK FALSE
