CONSTANTS
  Dev = {}
SPECIFICATION TSpec
INVARIANTS DecisionOK BadVersOK HeaderOK SizeSeenOK ReservedOK SizeOK TruncOK IdempotentOK
POSTCONDITION Accepted
CHECK_DEADLOCK FALSE
