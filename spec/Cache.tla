------------------------------- MODULE Cache -------------------------------
(* The client-side response cache of src/net/client/cache.rs as a state    *)
(* machine, structured like the code: Query is the Init/GetResponse path   *)
(* of get_response_impl, Lookup* are cache_lookup_rd_do_ad / _do_ad / _ad  *)
(* with the entries they derive and insert on the way, GetResponse is      *)
(* Value::get_response, Validity / Classify / DecrementTtl / RemoveDnssec  *)
(* / UpdateMessage / CacheInsert are the functions of the same name.       *)
(*                                                                         *)
(* The property (C20) is stated over a ghost log of everything upstream    *)
(* ever said, not over the code's data structures; see "The property".     *)
(*                                                                         *)
(* Time is counted in milliseconds (TPS ticks per second); TTLs, validity  *)
(* and the configured bounds are whole seconds, as in the code.            *)
EXTENDS Naturals, Integers, Sequences, FiniteSets

CONSTANT Dev   \* named deviations of the code from the property (DESIGN 2.6):
               \*  D_err_exceeds_max_validity  validity() returns
               \*    transport_failure_duration for a transport error without
               \*    taking the minimum with max_validity (every other class
               \*    starts from max_validity): with max_validity <
               \*    transport_failure_duration a cached failure is served after
               \*    max_validity has elapsed
CONSTANT Mut   \* set of seeded specification mutants (always {} except in
               \* the runs that demonstrate that the invariants have teeth)

VARIABLES
  cfg,      \* cache::Config (seconds; cacheTruncated)
  now,      \* virtual clock, milliseconds
  entries,  \* the moka map: Key -> Value, a function on the present keys
  log,      \* ghost: every response upstream ever gave <<t, q, resp>>
  last      \* ghost/output: the outcome of the latest Query

vars == <<cfg, now, entries, log, last>>

TPS == 1000

---------------------------------------------------------------------------
(* Vocabulary                                                              *)
(*  query    [name, cs, qtype, qclass, op, nq, ad, cd, do, rd, route]      *)
(*           name is case-folded, cs names the spelling the client used    *)
(*  message  [hdr |-> [aa,tc,rd,ra,ad,cd,rcode], qd, an, ns, ar]           *)
(*           qd: sequence of [n, cs, t, c]; an/ns/ar: sequences of         *)
(*           RR = [o, t, c, ttl, rd] (rd is an opaque rdata identity)      *)
(*  error    [err |-> name]   (transport failure)                          *)

IsErr(r) == "err" \in DOMAIN r

---------------------------------------------------------------------------
(* How a request was CONSTRUCTED (q.route).  The cache never sees "flags": *)
(* it sees a RequestMessage, composes it (ComposeRequest::to_message) and  *)
(* reads RD/AD/CD from the header and DO from the OPT record of the        *)
(* result; the transport below composes the same request again             *)
(* (append_message into its own target) and THAT is what upstream is       *)
(* asked.  Request composition is specified by X15 (ReqCompose.tla) and    *)
(* reused here, not re-derived.                                            *)
(*   q.route = [src |-> [rd, ad, cd, opt], ops |-> <<op, ...>>]            *)
(*   src.rd/ad/cd  bits already set in the source message handed to        *)
(*                 RequestMessage::new                                     *)
(*   src.opt       0: no OPT record in the source, 1: an OPT with DO       *)
(*                 clear, 2: an OPT with DO set (a forwarded stub query)   *)
(*   ops           setter calls in order: <<"rd"|"ad"|"cd", 0|1>>          *)
(*                 header_mut().set_x(b); <<"do", 0|1>> set_dnssec_ok(b);  *)
(*                 <<"udp", n>> set_udp_payload_size(n)                    *)
RC == INSTANCE ReqCompose          \* Dev <- Dev

B01(b) == IF b THEN 1 ELSE 0
SrcMsg(s) ==
  [h |-> [id |-> 0, qr |-> 0, op |-> 0, aa |-> 0, tc |-> 0, rd |-> B01(s.rd), ra |-> 0,
          z |-> 0, ad |-> B01(s.ad), cd |-> B01(s.cd), rc |-> 0],
   q |-> <<>>, an |-> <<>>, ns |-> <<>>,
   ar |-> IF s.opt = 0 THEN <<>>
          ELSE <<RC!OptRR([udp |-> 1232, do |-> s.opt - 1, opts |-> <<>>])>>,
   comp |-> 0, cut |-> 0]
SetterOf(o) == IF o[1] \in {"rd", "ad", "cd"} THEN [k |-> "hset", f |-> o[1], v |-> o[2]]
               ELSE [k |-> o[1], v |-> o[2]]
RECURSIVE ApplyOps(_, _)
ApplyOps(st, ops) ==
  IF ops = <<>> THEN st ELSE ApplyOps(RC!Setter(st, SetterOf(Head(ops))), Tail(ops))
ReqOf(route) == ApplyOps(RC!NewReq("single", SrcMsg(route.src)), route.ops)

(* the flag class of a composed message, read the way cache.rs reads it *)
MsgFlags(c) ==
  LET o == RC!OptRecs(c.m.ar)
  IN [rd |-> c.m.h.rd = 1, ad |-> c.m.h.ad = 1, cd |-> c.m.h.cd = 1,
      do |-> o # <<>> /\ o[1].ttl[2] \div 32768 = 1]
(* mutant M_fastpath: to_message() hands out the source message itself when *)
(* no setter was used, including an OPT record append_message drops         *)
ToMessage(st) ==
  IF "M_fastpath" \in Mut /\ st.opt = <<>> /\ st.h = st.src.h
  THEN RC!Done([h |-> st.src.h, ar |-> st.src.ar])
  ELSE RC!Compose(st, "to_message")
CacheSees(route) == MsgFlags(ToMessage(ReqOf(route)))            \* get_response_impl
WireSees(route)  == MsgFlags(RC!Compose(ReqOf(route), "stream")) \* the transport
Intended(route)  == MsgFlags(RC!Ideal(ReqOf(route)))             \* X15's P2
WithFlags(q, f) == [q EXCEPT !.rd = f.rd, !.ad = f.ad, !.cd = f.cd, !.do = f.do]
NormQ(q)  == WithFlags(q, Intended(q.route))     \* the request the client made
KeyQ(q)   == WithFlags(q, CacheSees(q.route))    \* as the cache reads it
AskedQ(q) == WithFlags(q, WireSees(q.route))     \* as upstream is asked
FlagsOf(q) == [rd |-> q.rd, ad |-> q.ad, cd |-> q.cd, do |-> q.do]

DnssecTypes == {"RRSIG", "NSEC", "NSEC3"}
IsDnssecT(t) == t \in DnssecTypes          \* fn is_dnssec

AddoOf(ad, do) == IF do THEN "Do" ELSE IF ad THEN "Ad" ELSE "None"   \* AdDo::new
AdOf(addo) == addo \in {"Ad", "Do"}                                  \* AdDo::ad
DoOf(addo) == addo = "Do"                                            \* AdDo::dnssec_ok

KeyOf(q) == [name |-> q.name, qclass |-> q.qclass, qtype |-> q.qtype,
             addo |-> AddoOf(q.ad, q.do), cd |-> q.cd, rd |-> q.rd]

Min(a, b) == IF a <= b THEN a ELSE b

RECURSIVE MinTtlSeq(_, _)
MinTtlSeq(s, acc) ==                       \* the three loops of fn validity
  IF s = <<>> THEN acc
  ELSE MinTtlSeq(Tail(s), IF Head(s).t = "OPT" THEN acc ELSE Min(acc, Head(s).ttl))

MinTtl(m, acc) == MinTtlSeq(m.ar, MinTtlSeq(m.ns, MinTtlSeq(m.an, acc)))

---------------------------------------------------------------------------
(* cache::Config as documented (doc comments of the set_* methods and the  *)
(* RFC 2308 / 8767 / 9520 figures they cite), independent of the constants *)
(* in the code: defaults, and the [min, max] every setter clamps to.       *)
(* Durations in seconds.                                                   *)
DocDefaults == [maxEntries |-> 1000, maxValidity |-> 604800, transportFailure |-> 30,
                miscError |-> 30, maxNxdomain |-> 3600, maxNodata |-> 3600,
                maxDelegation |-> 1000000, cacheTruncated |-> FALSE]
DocLimits == [maxEntries       |-> [min |-> 1,  max |-> 1000000000],
              maxValidity      |-> [min |-> 60, max |-> 6048000],
              transportFailure |-> [min |-> 1,  max |-> 300],
              miscError        |-> [min |-> 1,  max |-> 300],
              maxNxdomain      |-> [min |-> 60, max |-> 86400],
              maxNodata        |-> [min |-> 60, max |-> 86400],
              maxDelegation    |-> [min |-> 60, max |-> 1000000000]]
Clamp(f, v) == IF v < DocLimits[f].min THEN DocLimits[f].min
               ELSE IF v > DocLimits[f].max THEN DocLimits[f].max ELSE v
(* Config::new() followed by one set_<f>(v) *)
ConfigAfterSet(f, v) == [DocDefaults EXCEPT ![f] = Clamp(f, v)]

---------------------------------------------------------------------------
(* fn classify_no_error                                                    *)
Classify(m) ==
  LET qt == m.qd[1].t
      qc == m.qd[1].c
  IN IF \E i \in DOMAIN m.an : m.an[i].t = qt /\ m.an[i].c = qc THEN "Answer"
     ELSE IF "M_first_auth" \in Mut THEN      \* mutant: the first of SOA / NS decides
       LET idx == {i \in DOMAIN m.ns : m.ns[i].c = qc /\ m.ns[i].t \in {"SOA", "NS"}} IN
       IF idx = {} THEN "Weird"
       ELSE LET f == CHOOSE i \in idx : \A j \in idx : i <= j
            IN IF m.ns[f].t = "SOA" THEN "NoData" ELSE "Delegation"
     ELSE IF \E i \in DOMAIN m.ns : m.ns[i].c = qc /\ m.ns[i].t = "SOA" THEN "NoData"
     ELSE IF \E i \in DOMAIN m.ns : m.ns[i].c = qc /\ m.ns[i].t = "NS" THEN "Delegation"
     ELSE "Weird"

(* fn validity (seconds)                                                   *)
Validity(r, c) ==
  IF IsErr(r) THEN
      IF "M_err_forever" \in Mut THEN c.maxValidity
      ELSE IF "D_err_exceeds_max_validity" \in Dev THEN c.transportFailure
      ELSE Min(c.maxValidity, c.transportFailure)
  ELSE IF r.hdr.tc /\ ~c.cacheTruncated /\ "M_tc_cached" \notin Mut THEN 0
  ELSE
    LET base ==
          IF r.hdr.rcode = "NOERROR" THEN
             LET k == Classify(r) IN
             CASE k = "Answer"     -> c.maxValidity
               [] k = "NoData"     -> IF "M_neg_posbound" \in Mut THEN c.maxValidity
                                      ELSE Min(c.maxValidity, c.maxNodata)
               [] k = "Delegation" -> IF "M_deleg_nomin" \in Mut THEN c.maxDelegation
                                      ELSE Min(c.maxValidity, c.maxDelegation)
               [] OTHER            -> 0
          ELSE IF r.hdr.rcode = "NXDOMAIN" THEN
             IF "M_neg_posbound" \in Mut THEN c.maxValidity
             ELSE Min(c.maxValidity, c.maxNxdomain)
          ELSE Min(c.maxValidity, c.miscError)
    IN MinTtl(r, base)

(* Value::new / Value::new_from_value_and_response                         *)
ValueNew(r, c, t) == [createdAt |-> t, validFor |-> Validity(r, c), resp |-> r]
ValueFrom(v, r, c) ==
  [createdAt |-> IF "M_derived_now" \in Mut THEN now ELSE v.createdAt,
   validFor |-> Validity(r, c), resp |-> r]

(* fn update_message: a new Value when the header test says so             *)
UpdateMessage(v, c, Tst(_), F(_)) ==
  IF IsErr(v.resp) THEN v
  ELSE IF Tst(v.resp.hdr) THEN ValueFrom(v, F(v.resp), c) ELSE v

SetAa(m, b) == [m EXCEPT !.hdr.aa = b]
SetAd(m, b) == [m EXCEPT !.hdr.ad = b]
SetRd(m, b) == [m EXCEPT !.hdr.rd = b]

(* fn remove_dnssec                                                        *)
NotDnssec(rr) == ~IsDnssecT(rr.t)
RemoveDnssec(m, ad) ==
  LET m1 == IF ad \/ "M_ad_leak_do" \in Mut THEN m ELSE SetAd(m, FALSE)
  IN IF "M_nostrip" \in Mut THEN m1
     ELSE [m1 EXCEPT !.an = SelectSeq(m.an, NotDnssec),
                     !.ns = SelectSeq(m.ns, NotDnssec),
                     !.ar = SelectSeq(m.ar, NotDnssec)]

(* fn prepare_for_insert + fn cache_insert                                 *)
HdrAa(h) == h.aa
ClearAa(m) == SetAa(m, FALSE)
Put(E, k, v) == [x \in (DOMAIN E) \cup {k} |-> IF x = k THEN v ELSE E[x]]
CacheInsert(E, k, v, c) ==
  IF v.validFor = 0 THEN E
  ELSE Put(E, k, UpdateMessage(v, c, HdrAa, ClearAa))

---------------------------------------------------------------------------
(* The lookup lattice.  Every function returns [hit, v, E]: whether a      *)
(* value was found, the value, and the map after the insertions made on    *)
(* the way.  A value is returned whether or not it has expired (expiry is  *)
(* tested afterwards, in GetResponse), exactly as cache.get does.          *)
NoVal == [createdAt |-> 0, validFor |-> 0, resp |-> [err |-> "none"]]
Miss(E) == [hit |-> FALSE, v |-> NoVal, E |-> E, via |-> "miss"]
Hit(v, E, via) == [hit |-> TRUE, v |-> v, E |-> E, via |-> via]   \* via: which rung (ghost)

HdrAd(h) == h.ad
HdrAny(h) == TRUE
ClearAd(m) == IF "M_ad_leak" \in Mut THEN m ELSE SetAd(m, FALSE)
ClearRd(m) == SetRd(m, FALSE)

(* fn cache_lookup_ad *)
LookupAd(E, k, c) ==
  IF k \in DOMAIN E THEN Hit(E[k], E, "exact")
  ELSE IF AdOf(k.addo) THEN Miss(E)
  ELSE LET alt == [k EXCEPT !.addo = "Ad"] IN
       IF alt \in DOMAIN E
       THEN LET v == UpdateMessage(E[alt], c, HdrAd, ClearAd)
            IN Hit(v, CacheInsert(E, k, v, c), "ad")
       ELSE Miss(E)

(* fn cache_lookup_do_ad *)
LookupDoAd(E, k, c) ==
  LET r == LookupAd(E, k, c) IN
  IF r.hit \/ DoOf(k.addo) THEN r
  ELSE IF IsDnssecT(k.qtype) THEN Miss(r.E)
  ELSE LET alt == [k EXCEPT !.addo = "Do"] IN
       IF alt \in DOMAIN r.E
       THEN LET Strip(m) == RemoveDnssec(m, AdOf(k.addo))
                v == UpdateMessage(r.E[alt], c, HdrAny, Strip)
            IN Hit(v, CacheInsert(r.E, k, v, c), "do")
       ELSE Miss(r.E)

(* fn cache_lookup_rd_do_ad (= cache_lookup) *)
Lookup(E, k, c) ==
  LET r == LookupDoAd(E, k, c) IN
  IF r.hit \/ k.rd THEN r
  ELSE LET alt == [k EXCEPT !.rd = TRUE]
           r2 == LookupDoAd(r.E, alt, c)
       IN IF r2.hit
          THEN LET v == UpdateMessage(r2.v, c, HdrAny, ClearRd)
               IN Hit(v, CacheInsert(r2.E, k, v, c), "rd:" \o r2.via)
          ELSE r2

---------------------------------------------------------------------------
(* fn decrement_ttl: the question is rebuilt with the name as the client   *)
(* spelled it, every non-OPT TTL is reduced by the whole seconds elapsed.  *)
(* Ttl subtraction panics on underflow; Underflow(...) says when.          *)
AgeSeq(s, secs) ==
  [i \in DOMAIN s |-> IF s[i].t = "OPT" THEN s[i]
                      ELSE [s[i] EXCEPT !.ttl = @ - secs]]
DecrementTtl(q, r, secs) ==
  IF IsErr(r) THEN r
  ELSE [r EXCEPT !.qd = [i \in DOMAIN r.qd |-> [r.qd[i] EXCEPT !.n = q.name, !.cs = q.cs]],
                 !.an = AgeSeq(r.an, secs),
                 !.ns = AgeSeq(r.ns, secs),
                 !.ar = AgeSeq(r.ar, secs)]
Underflow(r) ==
  /\ ~IsErr(r)
  /\ \E s \in {r.an, r.ns, r.ar} : \E i \in DOMAIN s : s[i].t # "OPT" /\ s[i].ttl < 0

(* Value::get_response *)
Expired(v, t) ==
  IF "M_expiry_secs" \in Mut
  THEN (t - v.createdAt) \div TPS > v.validFor
  ELSE (t - v.createdAt) > v.validFor * TPS
GetResponse(v, q, t) ==
  LET secs == (t - v.createdAt) \div TPS
  IN DecrementTtl(q, v.resp, IF "M_double_dec" \in Mut /\ v.createdAt # t THEN 2 * secs ELSE secs)

---------------------------------------------------------------------------
(* Actions                                                                 *)

Bypass(q) == q.nq # 1 \/ q.op # "QUERY" \/ q.qclass # "IN"

(* One call of send_request + get_response on cache::Connection, starting  *)
(* from map E0 (E0 = entries except where a trace needs an eviction        *)
(* first).  `up` is what upstream answers if it is consulted.              *)
QueryFrom(E0, q0, up) ==
  LET q  == NormQ(q0)
      kq == KeyQ(q0)        \* the request as the cache reads it (to_message)
      wq == AskedQ(q0)      \* the request as the transport composes it
  IN
  IF Bypass(q) THEN
      /\ entries' = E0
      /\ log' = Append(log, [t |-> now, q |-> wq, resp |-> up])
      /\ last' = [q |-> q, served |-> up, fromCache |-> FALSE, t |-> now, via |-> "bypass",
                  keyq |-> kq, asked |-> wq]
  ELSE
    LET k == KeyOf(kq)
        r == Lookup(E0, k, cfg)
    IN IF r.hit /\ ~Expired(r.v, now) THEN
          /\ entries' = r.E
          /\ log' = log
          /\ last' = [q |-> q, served |-> GetResponse(r.v, q, now),
                      fromCache |-> TRUE, t |-> now, via |-> r.via,
                      keyq |-> kq, asked |-> wq]
       ELSE
          /\ entries' = CacheInsert(r.E, k, ValueNew(up, cfg, now), cfg)
          /\ log' = Append(log, [t |-> now, q |-> wq, resp |-> up])
          /\ last' = [q |-> q, served |-> up, fromCache |-> FALSE, t |-> now,
                      via |-> IF r.hit THEN "expired" ELSE "miss",
                      keyq |-> kq, asked |-> wq]

Query(q, up) == QueryFrom(entries, q, up) /\ UNCHANGED <<cfg, now>>

Tick(d) == now' = now + d /\ UNCHANGED <<cfg, entries, log, last>>

(* moka may drop any entry at any time (capacity); its policy is not       *)
(* modelled.  The property must hold whatever is dropped.  (Dropping an    *)
(* entry does not only turn hits into misses: an expired exact-key entry   *)
(* shadows usable Ad/Do/RD=1 variants, see MC_Cache.)                      *)
Without(E, K) == [x \in (DOMAIN E) \ K |-> E[x]]
(* would q be answered from the map E at the current time? *)
Hits(E, q) ==
  /\ ~Bypass(q)
  /\ LET r == Lookup(E, KeyOf(KeyQ(q)), cfg) IN r.hit /\ ~Expired(r.v, now)

Evict(k) == /\ k \in DOMAIN entries
            /\ entries' = Without(entries, {k})
            /\ UNCHANGED <<cfg, now, log, last>>

NoRoute == [src |-> [rd |-> FALSE, ad |-> FALSE, cd |-> FALSE, opt |-> 0], ops |-> <<>>]
NoQ == [name |-> "", cs |-> 0, qtype |-> "", qclass |-> "", op |-> "",
        nq |-> 0, ad |-> FALSE, cd |-> FALSE, do |-> FALSE, rd |-> FALSE, route |-> NoRoute]
NoLast == [q |-> NoQ, served |-> [err |-> "none"], fromCache |-> FALSE, t |-> 0, via |-> "none",
           keyq |-> NoQ, asked |-> NoQ]
EmptyMap == [x \in {} |-> NoVal]

InitWith(c) == /\ cfg = c /\ now = 0 /\ entries = EmptyMap /\ log = <<>> /\ last = NoLast

---------------------------------------------------------------------------
(* The property.  Everything below is about `last` (what the client just   *)
(* got) and `log` (what upstream said), never about `entries`.             *)

(* request flags under which upstream's answer may be reused for q         *)
AddoRank(a) == CASE a = "Do" -> 2 [] a = "Ad" -> 1 [] OTHER -> 0
FlagsCompatible(lq, q) ==
  /\ lq.cd = q.cd
  /\ (q.rd => lq.rd)                                    \* RD=1 needs RD=1
  /\ AddoRank(AddoOf(lq.ad, lq.do)) >= AddoRank(AddoOf(q.ad, q.do))
SameQuestion(lq, q) ==
  /\ lq.name = q.name /\ lq.qtype = q.qtype /\ lq.qclass = q.qclass
  /\ lq.nq = 1 /\ lq.op = "QUERY"

(* the records of what upstream said that q is entitled to see *)
Entitled(q, rr) == q.do \/ ~IsDnssecT(rr.t) \/ rr.t = q.qtype
Visible(q, s) == LET P(rr) == Entitled(q, rr) IN SelectSeq(s, P)
NoTtl(s) == [i \in DOMAIN s |-> [o |-> s[i].o, t |-> s[i].t, c |-> s[i].c, rd |-> s[i].rd]]

(* s is upstream's section u aged by `secs`, OPT untouched *)
AgedBy(s, u, secs) ==
  /\ Len(s) = Len(u)
  /\ \A i \in DOMAIN s :
        IF u[i].t = "OPT" THEN s[i].ttl = u[i].ttl
        ELSE s[i].ttl = u[i].ttl - secs /\ s[i].ttl >= 0

(* what the configuration allows for upstream's answer r, seconds; -1 =    *)
(* must not be served from the cache at all                                *)
HasAnswer(r) == \E i \in DOMAIN r.an : r.an[i].t = r.qd[1].t /\ r.an[i].c = r.qd[1].c
HasAuth(r, t) == \E i \in DOMAIN r.ns : r.ns[i].t = t /\ r.ns[i].c = r.qd[1].c
ClassBound(r, c) ==
  IF IsErr(r) THEN c.transportFailure
  ELSE IF r.hdr.tc /\ ~c.cacheTruncated THEN -1
  ELSE IF r.hdr.rcode = "NXDOMAIN" THEN c.maxNxdomain
  ELSE IF r.hdr.rcode # "NOERROR" THEN c.miscError
  ELSE IF HasAnswer(r) THEN c.maxValidity
  ELSE IF HasAuth(r, "SOA") THEN c.maxNodata
  ELSE IF HasAuth(r, "NS") THEN c.maxDelegation
  ELSE c.maxValidity

(* smallest TTL among the records actually handed out, as upstream gave them *)
ServedMinTtl(q, r, acc) ==
  MinTtlSeq(Visible(q, r.ar), MinTtlSeq(Visible(q, r.ns), MinTtlSeq(Visible(q, r.an), acc)))

(* L is a log entry the served response can have come from *)
SaidBy(L, x) ==
  /\ L.t <= x.t
  /\ SameQuestion(L.q, x.q)
  /\ FlagsCompatible(L.q, x.q)
  /\ IF IsErr(L.resp) THEN x.served = L.resp
     ELSE /\ ~IsErr(x.served)
          /\ LET s == x.served  u == L.resp IN
             /\ s.hdr.rcode = u.hdr.rcode /\ s.hdr.tc = u.hdr.tc
             /\ s.hdr.ra = u.hdr.ra /\ s.hdr.cd = u.hdr.cd
             /\ (s.hdr.aa => u.hdr.aa) /\ (s.hdr.ad => u.hdr.ad) /\ (s.hdr.rd => u.hdr.rd)
             /\ Len(s.qd) = 1
             /\ s.qd[1].n = x.q.name /\ s.qd[1].t = x.q.qtype /\ s.qd[1].c = x.q.qclass
             /\ NoTtl(s.an) = NoTtl(Visible(x.q, u.an))
             /\ NoTtl(s.ns) = NoTtl(Visible(x.q, u.ns))
             /\ NoTtl(s.ar) = NoTtl(Visible(x.q, u.ar))

ElapsedMs(L, x) == x.t - L.t
Aged(L, x) ==
  IsErr(L.resp) \/
    LET secs == ElapsedMs(L, x) \div TPS IN
    /\ AgedBy(x.served.an, Visible(x.q, L.resp.an), secs)
    /\ AgedBy(x.served.ns, Visible(x.q, L.resp.ns), secs)
    /\ AgedBy(x.served.ar, Visible(x.q, L.resp.ar), secs)
Fresh(L, x, c) ==
  ElapsedMs(L, x) <= TPS * (IF IsErr(L.resp) THEN c.maxValidity
                            ELSE ServedMinTtl(x.q, L.resp, c.maxValidity))
Bounded(L, x, c) == ElapsedMs(L, x) <= TPS * ClassBound(L.resp, c)

Witnesses(x) == {i \in DOMAIN log : SaidBy(log[i], x)}

ServedWasSaid(x)   == x.fromCache => Witnesses(x) # {}
AgedExactly(x)     == x.fromCache => \E i \in Witnesses(x) : Aged(log[i], x)
NeverStale(x)      == x.fromCache =>
                        \E i \in Witnesses(x) : Aged(log[i], x) /\ Fresh(log[i], x, cfg)
BoundsRespected(x) == x.fromCache =>
                        \E i \in Witnesses(x) : Aged(log[i], x) /\ Fresh(log[i], x, cfg)
                                                /\ Bounded(log[i], x, cfg)
NoDnssecLeak(x) ==
  (x.fromCache /\ ~IsErr(x.served)) =>
     /\ \A s \in {x.served.an, x.served.ns, x.served.ar} :
           \A i \in DOMAIN s : Entitled(x.q, s[i])
     /\ (x.served.hdr.ad => (x.q.ad \/ x.q.do))
NoPanic(x) == x.fromCache => ~Underflow(x.served)     \* Ttl subtraction cannot underflow
(* the cache's view of a request is the view upstream gets: the flag class  *)
(* under which an answer is looked up and stored is the flag class the      *)
(* upstream is asked with, and both are the request the client made         *)
ViewIsWire(x) == /\ FlagsOf(x.keyq) = FlagsOf(x.asked)
                 /\ FlagsOf(x.keyq) = FlagsOf(x.q)

(* as state invariants (trace validation: every state is new) *)
I_ServedWasSaid   == ServedWasSaid(last)
I_AgedExactly     == AgedExactly(last)
I_NeverStale      == NeverStale(last)
I_BoundsRespected == BoundsRespected(last)
I_NoDnssecLeak    == NoDnssecLeak(last)
I_NoPanic         == NoPanic(last)
I_ViewIsWire      == ViewIsWire(last)
=============================================================================
