-------------------------- MODULE Trace_StubResolver --------------------------
(* I->S: recorded runs of the real resolver (record_stub: random            *)
(* configurations and environment scripts much larger than the model-       *)
(* checking constants) must be behaviours of StubResolver.  One event per    *)
(* observable step: the call with its configuration ("conf"), a question     *)
(* with the script the servers follow ("q"), every request a server receives *)
(* ("req": server, time), the answer to the question ("ans": result, time),  *)
(* the result of the call ("res").  Steps without an observable effect are   *)
(* taken silently.                                                           *)
EXTENDS StubResolver, Json, IOUtils

Rec == ndJsonDeserialize(IOEnv.TRACE)

VARIABLE l
tvars == <<vars, l>>

Ev(e) == l <= Len(Rec) /\ Rec[l].ev = e
Consume == /\ l' = l + 1
           /\ TLCSet(42, IF l + 1 > TLCGet(42) THEN l + 1 ELSE TLCGet(42))

SeqToSet(sq) == {sq[i] : i \in 1..Len(sq)}
CfgOf(e) == [ns |-> e.ns, search |-> e.search, ndots |-> e.ndots, dots |-> e.dots,
             call |-> e.call, toolong |-> SeqToSet(e.toolong), mode |-> "mock",
             usevc |-> FALSE, tcponly |-> {}, tmo |-> e.tmo]
ScriptOfEv(e) == [s \in 1..cfg.ns |-> [u |-> e.script[s][1], t |-> "Data", lat |-> e.script[s][2]]]

InitWith(c) ==
  /\ cfg = c
  /\ sph = "begin" /\ pos = 1 /\ role = "none" /\ saved = None /\ sres = None
  /\ qs = <<>> /\ lks = <<>>
  /\ lph = "idle" /\ lc = 0 /\ la = None /\ lres = None
  /\ qph = "idle" /\ qt = "A" /\ perr = None /\ edns = TRUE /\ round = 0 /\ qres = None
  /\ script = <<>> /\ world0 = [q \in {"A", "AAAA"} |-> [set |-> FALSE, sc |-> <<>>]]
  /\ rst = "off" /\ order = <<>> /\ ind = 0 /\ pend = <<>> /\ est = <<>>
  /\ tdue = 0 /\ ddl = 0 /\ now = 0 /\ defRep = None /\ defErr = None /\ rres = None
  /\ fresh = TRUE
  /\ reqs = <<>> /\ tie = FALSE

ResetTo(c) ==
  /\ cfg' = c
  /\ sph' = "begin" /\ pos' = 1 /\ role' = "none" /\ saved' = None /\ sres' = None
  /\ qs' = <<>> /\ lks' = <<>>
  /\ lph' = "idle" /\ lc' = 0 /\ la' = None /\ lres' = None
  /\ qph' = "idle" /\ qt' = "A" /\ perr' = None /\ edns' = TRUE /\ round' = 0 /\ qres' = None
  /\ script' = <<>> /\ world0' = [q \in {"A", "AAAA"} |-> [set |-> FALSE, sc |-> <<>>]]
  /\ rst' = "off" /\ order' = <<>> /\ ind' = 0 /\ pend' = <<>> /\ est' = <<>>
  /\ tdue' = 0 /\ ddl' = 0 /\ now' = 0 /\ defRep' = None /\ defErr' = None /\ rres' = None
  /\ fresh' = TRUE
  /\ reqs' = <<>> /\ tie' = FALSE

TInit == /\ l = 2 /\ Len(Rec) >= 1 /\ Rec[1].ev = "conf"
         /\ InitWith(CfgOf(Rec[1]))
         /\ TLCSet(42, 2)

\* a new call on a new resolver
T_Conf == /\ Ev("conf") /\ sph = "done"
          /\ Consume
          /\ ResetTo(CfgOf(Rec[l]))

T_Q == /\ Ev("q") /\ lc = Rec[l].c /\ qt = Rec[l].qt
       /\ Q_NewWith(ScriptOfEv(Rec[l]))
       /\ Consume

T_Req == /\ Ev("req") /\ R_Probe
         /\ reqs'[Len(reqs')].s = Rec[l].s + 1
         /\ now = Rec[l].t /\ Rec[l].exact
         /\ Consume

T_Ans == /\ Ev("ans") /\ Q_Classify /\ qph' = "ret"
         /\ ResJson(qres') = Rec[l].res
         /\ now = Rec[l].t /\ Rec[l].exact
         /\ Consume

T_Res == /\ Ev("res")
         /\ (S_LookupDone \/ S_Fallback \/ S_QueryDone) /\ sph' = "done"
         /\ (IF cfg.call = "query" THEN ResJson(sres') ELSE FoundJson(sres')) = Rec[l].res
         /\ Consume

T_Silent == /\ \/ S_Begin \/ S_Iter \/ (S_Fallback /\ sph' # "done") \/ (S_LookupDone /\ sph' # "done")
               \/ L_ADone \/ L_Join
               \/ Q_RunQuery \/ Q_Timeout \/ (Q_Classify /\ qph' # "ret")
               \/ R_Init \/ R_Timer \/ R_WaitEmpty \/ R_CompleteAny
            /\ l' = l

TNext == T_Conf \/ T_Q \/ T_Req \/ T_Ans \/ T_Res \/ T_Silent
TSpec == TInit /\ [][TNext]_tvars

\* the safety properties hold along the recorded behaviour as well
TraceInv == Honest /\ AtMostOncePerRound /\ InTime /\ NoPanic /\ SearchOrder /\ SearchResult /\ FoundIsForCandidate

Accepted ==
  LET d == TLCGet(42)
  IN IF d = Len(Rec) + 1 THEN TRUE
     ELSE /\ PrintT("TRACE_REJECTED " \o ToJson([matched |-> d - 1, total |-> Len(Rec),
                      event |-> IF d <= Len(Rec) THEN Rec[d] ELSE [ev |-> "none"]]))
          /\ FALSE
=============================================================================
