CONSTANTS
  Dev = {}
SPECIFICATION TSpec
INVARIANT T_Limits
INVARIANT T_Ghost
INVARIANT T_FinishValid
INVARIANT T_LabelOctet
INVARIANT T_NoPanic
POSTCONDITION Accepted
CHECK_DEADLOCK FALSE
