CONSTANTS
  Dev = {}
  Scenario = "edge"
  MaxOps = 6
  CompSet = {"static", "tree", "hash"}
  TgtSet = {"vec"}
SPECIFICATION Spec
INVARIANT ParseBack
INVARIANT CountsMatch
INVARIANT PointersBackwardAndIntended
INVARIANT ShimMatches
INVARIANT TableWithinBuffer
INVARIANT TableSound
INVARIANT WithinCapacity
INVARIANT HeaderKept
PROPERTY NoopProp
INVARIANT Emit
CHECK_DEADLOCK FALSE
