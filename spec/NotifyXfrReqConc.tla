-------------------------- MODULE NotifyXfrReqConc --------------------------
(***************************************************************************)
(* X05 -- concurrency limits of the XFR middleware                         *)
(* (XfrMiddlewareSvc::new(.., max_concurrency), the two semaphores in      *)
(* service.rs; ZoneFunneler::run in axfr.rs; BatchingRrResponder::run in   *)
(* responder.rs).  "The max_concurrency parameter limits the number of     *)
(* simultaneous zone transfer operations."                                 *)
(*                                                                         *)
(* Every granted transfer runs two detached tasks: a funneler (walks the   *)
(* zone -- needs a zone-walking permit -- or the difference sequences --   *)
(* no permit -- and feeds a bounded channel) and a batching responder      *)
(* (needs a batcher permit; drains the channel into the response stream).  *)
(* The client may drop the response stream at any time.                    *)
(*                                                                         *)
(* PROPERTIES (all schedules, any number of transfers, drops anywhere):    *)
(*  C1 Bounded.  At most N zone walks and at most N batching responders    *)
(*     run at any time.                                                    *)
(*  C2 Released.  Permits are conserved (free + held = N) and every exit   *)
(*     path gives its permit back: when all transfers have ended all 2N    *)
(*     permits are free.                                                   *)
(*  C3 Progress.  No schedule deadlocks: under weak fairness every         *)
(*     transfer ends, and one whose client keeps reading is delivered      *)
(*     completely -- also when other clients have dropped theirs.          *)
(*                                                                         *)
(* Designs.  "ordered" (the specification): permits are held while the     *)
(* work runs, and a funneler asks for its walk permit only after its       *)
(* responder holds a batcher permit.  "unordered": both tasks acquire      *)
(* independently and hold -- TLC shows C3 fails (two transfers, one permit  *)
(* each, zone larger than the channel).  Deviation D_xfr_permits_not_held  *)
(* (the code as built): `if sem.acquire().await.is_err()` drops the permit *)
(* at the end of the condition -- nothing is ever held, C1 fails.          *)
(***************************************************************************)
EXTENDS Integers, FiniteSets, Sequences

CONSTANTS N,        \* max_concurrency
          T,        \* transfers 1 .. T
          W,        \* records a funneler has to send
          Cap,      \* channel capacity
          Kinds,    \* subset of {"axfr", "ixfr"}: what a transfer may be
          Design,   \* "ordered" | "unordered"
          Dev

Held == "D_xfr_permits_not_held" \notin Dev

VARIABLES kind,    \* kind[t]: "-" (not started) | "axfr" | "ixfr"
          f,       \* funneler: "-" | "idle" | "wait" | "walk" | "done"
          b,       \* responder: "-" | "wait" | "run" | "done"
          sent,    \* records the funneler has pushed (or lost) so far
          chan,    \* records in the channel
          got,     \* records the responder has taken
          drop,    \* the client dropped the stream
          ok,      \* the complete response was put on the stream
          wfree, bfree
cvars == <<kind, f, b, sent, chan, got, drop, ok, wfree, bfree>>
TS == 1 .. T

CInit == /\ kind = [t \in TS |-> "-"] /\ f = [t \in TS |-> "-"] /\ b = [t \in TS |-> "-"]
         /\ sent = [t \in TS |-> 0] /\ chan = [t \in TS |-> 0] /\ got = [t \in TS |-> 0]
         /\ drop = [t \in TS |-> FALSE] /\ ok = [t \in TS |-> FALSE]
         /\ wfree = N /\ bfree = N

\* respond_to_axfr_query / respond_to_ixfr_query: the two tasks are spawned
Start(t, k) ==
  /\ kind[t] = "-"
  /\ kind' = [kind EXCEPT ![t] = k]
  /\ b' = [b EXCEPT ![t] = "wait"]
  /\ f' = [f EXCEPT ![t] = IF k = "ixfr" THEN "walk"          \* DiffFunneler needs no permit
                           ELSE IF Design = "ordered" /\ Held THEN "idle" ELSE "wait"]
  /\ UNCHANGED <<sent, chan, got, drop, ok, wfree, bfree>>

\* BatchingRrResponder::run: batcher_semaphore.acquire().await
BAcquire(t) ==
  /\ b[t] = "wait" /\ bfree > 0
  /\ b' = [b EXCEPT ![t] = "run"]
  /\ bfree' = IF Held THEN bfree - 1 ELSE bfree
  /\ f' = [f EXCEPT ![t] = IF f[t] = "idle" THEN "wait" ELSE f[t]]
  /\ UNCHANGED <<kind, sent, chan, got, drop, ok, wfree>>

\* ZoneFunneler::run: zone_walk_semaphore.acquire().await, then the walk starts
FAcquire(t) ==
  /\ f[t] = "wait" /\ wfree > 0
  /\ f' = [f EXCEPT ![t] = "walk"]
  /\ wfree' = IF Held THEN wfree - 1 ELSE wfree
  /\ UNCHANGED <<kind, b, sent, chan, got, drop, ok, bfree>>

RxGone(t) == b[t] = "done"
\* one record into the channel; when the responder is gone the send fails:
\* the zone walk cannot be stopped and goes on, the diff funneler gives up
FSend(t) ==
  /\ f[t] = "walk" /\ sent[t] < W
  /\ IF RxGone(t)
     THEN /\ UNCHANGED chan
          /\ IF kind[t] = "ixfr" THEN sent' = [sent EXCEPT ![t] = W] ELSE sent' = [sent EXCEPT ![t] = @ + 1]
     ELSE /\ chan[t] < Cap
          /\ chan' = [chan EXCEPT ![t] = @ + 1] /\ sent' = [sent EXCEPT ![t] = @ + 1]
  /\ UNCHANGED <<kind, f, b, got, drop, ok, wfree, bfree>>
\* the walk is over: the permit goes back
FDone(t) ==
  /\ f[t] = "walk" /\ sent[t] = W
  /\ f' = [f EXCEPT ![t] = "done"]
  /\ wfree' = IF Held /\ kind[t] = "axfr" THEN wfree + 1 ELSE wfree
  /\ UNCHANGED <<kind, b, sent, chan, got, drop, ok, bfree>>

\* the responder takes a record; handing a batch to a dropped stream fails
\* (SendError) and ends the responder
BRecv(t) ==
  /\ b[t] = "run" /\ chan[t] > 0
  /\ chan' = [chan EXCEPT ![t] = @ - 1] /\ got' = [got EXCEPT ![t] = @ + 1]
  /\ UNCHANGED <<kind, f, b, sent, drop, ok, wfree, bfree>>
BFail(t) ==
  /\ b[t] = "run" /\ drop[t]
  /\ b' = [b EXCEPT ![t] = "done"] /\ chan' = [chan EXCEPT ![t] = 0]
  /\ bfree' = IF Held THEN bfree + 1 ELSE bfree
  /\ UNCHANGED <<kind, f, sent, got, drop, ok, wfree>>
\* the channel is closed and empty: finish()
BDone(t) ==
  /\ b[t] = "run" /\ f[t] = "done" /\ chan[t] = 0
  /\ b' = [b EXCEPT ![t] = "done"]
  /\ ok' = [ok EXCEPT ![t] = (got[t] = W /\ ~drop[t])]
  /\ bfree' = IF Held THEN bfree + 1 ELSE bfree
  /\ UNCHANGED <<kind, f, sent, chan, got, drop, wfree>>

\* the client goes away
Drop(t) == /\ kind[t] # "-" /\ ~drop[t] /\ ~ok[t]
           /\ drop' = [drop EXCEPT ![t] = TRUE]
           /\ UNCHANGED <<kind, f, b, sent, chan, got, ok, wfree, bfree>>

Internal(t) == BAcquire(t) \/ FAcquire(t) \/ FSend(t) \/ FDone(t) \/ BRecv(t) \/ BFail(t) \/ BDone(t)

-----------------------------------------------------------------------------
Walking == {t \in TS : f[t] = "walk" /\ kind[t] = "axfr"}
Running == {t \in TS : b[t] = "run"}
Ended(t) == kind[t] # "-" /\ f[t] = "done" /\ b[t] = "done"

C1_Bounded == Cardinality(Walking) <= N /\ Cardinality(Running) <= N
C2_Conserved == Held => /\ wfree + Cardinality(Walking) = N
                        /\ bfree + Cardinality(Running) = N
C2_Released == (\A t \in TS : kind[t] = "-" \/ Ended(t)) => (wfree = N /\ bfree = N)
\* ordered design: a walking funneler's responder holds (or held) a permit
OrderedLaw == (Design = "ordered" /\ Held) =>
                 \A t \in Walking : b[t] \in {"run", "done"}

\* quiescent: no internal step possible (used by the gated scenarios)
Quiescent == \A t \in TS : ~ENABLED Internal(t)
=============================================================================
