---------------------------- MODULE MC_Batcher ----------------------------
(* Exhaustive check of Batcher.tla: every parameter combination, every    *)
(* sequence of at most MaxLen accepted pushes (refused pushes in between). *)
EXTENDS Batcher, TLC

CONSTANTS Sizes, Hs, Ls, RRs, MaxLen

PrmSet == {Params(h, l, rr, mf) : h \in Hs, l \in Ls, rr \in RRs, mf \in BOOLEAN}

MCInit == /\ prm \in PrmSet /\ open = <<>> /\ out = <<>> /\ last = "new" /\ acc = <<>> /\ clean = TRUE
DoPush == /\ last # "fin" /\ Len(acc) < MaxLen
          /\ \E s \in Sizes : Push(s)
DoFinish == last # "fin" /\ Finish
MCNext == DoPush \/ DoFinish
MCSpec == MCInit /\ [][MCNext]_bvars

GreedyStep == [][B3_GreedyStep(Sizes)]_bvars
Overlong == [][B4_Overlong(Sizes)]_bvars

\* the function used by NotifyXfrReq agrees with the machine: packing the
\* accepted records of a clean, finished history gives the machine's batches
FnAgrees == (last = "fin" /\ clean /\ ~prm.MF) =>
               LET r == PackAll(acc, prm) IN r.res = "ok" /\ r.lens = [j \in 1 .. Len(out) |-> Len(out[j].recs)]

\* vacuity witnesses (expected to be violated)
\* ... and on histories ending in the first refused push
FnAgreesNext ==
  (clean /\ last # "fin") =>
     \A s \in Sizes :
        LET st == PushStep(open, s, prm)
            r == PackAll(Append(acc, s), prm)
            lens(bs) == [j \in 1 .. Len(bs) |-> Len(bs[j])]
        IN IF st.res = "ok" THEN r.res = "ok"
           ELSE /\ r.res = st.res /\ r.at = Len(acc) + 1
                /\ r.lens = lens(Recs(out)) \o lens(st.emit)
NeverErr == last # "err"
NeverMustFit == last # "mustfit"
NeverThreeBatches == Len(out) < 3
=============================================================================
