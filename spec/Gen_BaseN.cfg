CONSTANTS
  Dev = {}
  MaxLen = 6
  MaxOct = 5
SPECIFICATION Spec
INVARIANT EmitDec
INVARIANT EmitEnc
INVARIANT EmitProbe
CHECK_DEADLOCK FALSE
