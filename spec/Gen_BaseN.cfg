CONSTANTS
  Dev = {}
  MaxLen = 6
  Deep32 = FALSE
  MaxOct = 5
SPECIFICATION Spec
INVARIANT EmitDec
INVARIANT EmitEnc
INVARIANT EmitProbe
INVARIANT EmitEncProbe
CHECK_DEADLOCK FALSE
