CONSTANTS
  Dev = {}
  MaxOps = 4
SPECIFICATION Spec
INVARIANT Canonical
INVARIANT SetSemantics
INVARIANT Groups
INVARIANT ContentDistinct
INVARIANT RefusedInsertChangesNothing
INVARIANT Emit
CHECK_DEADLOCK FALSE
INVARIANT NoPanic
INVARIANT EmitMixed
