---------------------------- MODULE SerialLimbs ----------------------------
(* RFC 1982 arithmetic on serial numbers of 2*LW bits represented as two   *)
(* LW-bit limbs <<hi, lo>>.                                                 *)
(*                                                                          *)
(* Purpose: TLC integers are 32-bit signed, so a 32-bit serial cannot be a *)
(* TLC integer.  With LW = 16 every intermediate value below stays under   *)
(* 2^17.  The operators are written once, uniformly in the limb base       *)
(* B = 2^LW; MC_SerialLimbs.tla has TLC prove them equal to Serial!Cmp /   *)
(* Serial!Add / Serial!ImplAdd for *all* values at small LW (BITS = 2*LW). *)
(* Trace_Serial.tla then uses them at LW = 16 to judge recorded results of *)
(* the real library on dense 32-bit operands.                               *)
EXTENDS Integers

CONSTANT LW
ASSUME LW \in 1..16

B == 2 ^ LW                     \* limb base
Limb == 0 .. B - 1
LVal == Limb \X Limb            \* <<hi, lo>>
LHalf == <<B \div 2, 0>>        \* 2^(2*LW - 1)

IsLVal(x) == x \in LVal

\* unsigned order on limb pairs
LLess(x, y) == x[1] < y[1] \/ (x[1] = y[1] /\ x[2] < y[2])

\* (x - y) modulo 2^(2*LW): subtraction with borrow
LSub(x, y) ==
  LET borrow == IF x[2] < y[2] THEN 1 ELSE 0
      lo == x[2] - y[2] + borrow * B
      hi == (x[1] - y[1] - borrow + B) % B
  IN <<hi, lo>>

\* (x + n) modulo 2^(2*LW): addition with carry
LAdd(x, n) ==
  LET lo == x[2] + n[2]
      carry == lo \div B
      hi == (x[1] + n[1] + carry) % B
  IN <<hi, lo % B>>

\* RFC 1982 §3.2 clause by clause, on limb pairs
LLt(x, y) == \/ (LLess(x, y) /\ LLess(LSub(y, x), LHalf))
             \/ (LLess(y, x) /\ LLess(LHalf, LSub(x, y)))
LGt(x, y) == \/ (LLess(x, y) /\ LLess(LHalf, LSub(y, x)))
             \/ (LLess(y, x) /\ LLess(LSub(x, y), LHalf))

LCmp(x, y) == IF x = y THEN "EQ"
              ELSE IF LLt(x, y) THEN "LT"
              ELSE IF LGt(x, y) THEN "GT"
              ELSE "UNDEF"

LFlip(r) == CASE r = "LT" -> "GT" [] r = "GT" -> "LT" [] OTHER -> r

\* Serial::add with its documented precondition (panics for n > 2^(2LW-1) - 1)
LImplAdd(x, n) == IF LLess(n, LHalf) THEN [ok |-> LAdd(x, n)]
                  ELSE [panic |-> TRUE]

\* Placement next to a reference time (Serial!Place): the reference is an era
\* number plus a serial r, the placed time is an era number plus the serial ts
LPlaceDefined(r, ts) == LSub(ts, r) # LHalf
LPlaceEra(era, r, ts) ==
  IF LLess(LSub(ts, r), LHalf)
  THEN era + (IF LLess(ts, r) THEN 1 ELSE 0)     \* ahead of ref, maybe past the wrap
  ELSE era - (IF LLess(r, ts) THEN 1 ELSE 0)     \* behind ref, maybe before the wrap
\* at the tie (LSub(ts, r) = LHalf) the ELSE branch places the time before the
\* reference, as documented (difference fits a signed integer)
LPlaceConstrained(era, r, ts) == LPlaceEra(era, r, ts) >= 0

\* Windows (Serial!InWindow / WellFormed / WindowDecision) on limb pairs
LInWindow(lo, hi, x) == LCmp(lo, x) \in {"LT", "EQ"} /\ LCmp(x, hi) = "LT"
LWellFormed(lo, hi) == LLess(LSub(hi, lo), LHalf)
LWindowDecision(lo, hi, x) ==
  IF ~LWellFormed(lo, hi) THEN "any"
  ELSE IF LInWindow(lo, hi, x) THEN "accept" ELSE "reject"

\* Freshness (Serial!Fresh / FreshAtEnd / FreshDecision) on limb pairs; past
\* and future are limb pairs too
LOne == <<0, 1>>
LFresh(now, ts, past, future) ==
  LInWindow(LSub(now, past), LAdd(LAdd(now, future), LOne), ts)
LFreshAtEnd(now, ts, past, future) ==
  LSub(now, ts) = past \/ LSub(ts, now) = future
LFreshDecision(now, ts, past, future) ==
  IF LFreshAtEnd(now, ts, past, future) THEN "any"
  ELSE IF LFresh(now, ts, past, future) THEN "accept" ELSE "reject"
=============================================================================
