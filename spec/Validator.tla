------------------------------ MODULE Validator ------------------------------
(* C14 - DNSSEC validation (RFC 4035 section 5, RFC 5155 section 8) over an *)
(* abstract signed hierarchy  root > tld > zone [> sub]  (+ a secure sibling *)
(* "other" and an unsigned sibling "plain" below tld).                       *)
(*                                                                           *)
(* Two independent parts:                                                    *)
(*  - a STATE MACHINE shaped like src/dnssec/validator: the answer message   *)
(*    is split into RRset groups; for every group the validator walks from   *)
(*    the trust anchor down the delegation chain (fetch DNSKEY root, fetch   *)
(*    DS child, verify, fetch DNSKEY child, verify, descend), caching one    *)
(*    node per zone; then the answer is classified (CNAME chain, positive,   *)
(*    wildcard, NODATA, NXDOMAIN).  Every message on the wire - the answer   *)
(*    and each fetch - may be rewritten by the ADVERSARY (one action per     *)
(*    rewrite kind) while the budget lasts.                                  *)
(*  - a DECLARATIVE ORACLE: ChainO(zone) in {Secure,Insecure,Bogus} defined  *)
(*    recursively from the anchor over the messages as served, and           *)
(*    AnswerO = meet over all RRsets / required proofs of the answer.        *)
(* Signatures are symbolic: Sign(key, content) is a free constructor and     *)
(* verification is term equality (DESIGN 2.5).                               *)
EXTENDS Naturals, Sequences, FiniteSets, TLC

CONSTANTS Dev,        \* named deviations of the real code (DESIGN 2.6)
          Budget,     \* number of rewrites the adversary may perform
          Shapes, Denials, QKinds,
          AdvActs,    \* adversary actions enabled in this configuration
          EntQKinds,  \* query kinds explored in the ENT hierarchy shapes
          MaxRuns,    \* validations of the same question on ONE context (caches persist)
          AnchorForms, \* how the trust anchors are configured (routes of anchor.rs)
          Cfgs,       \* validator configurations (context::Config routes / values)
          AdvOn,      \* messages the adversary may rewrite: subset of {"ANS", "DS", "DNSKEY"}
          Mut         \* seeded mutants of this specification ({} except in mutant runs)

DevNames == {"D_nsec3_label_expect", "D_ttl0_node_panic", "D_extra_rrset_ignored",
             "D_sigcache_ignores_time", "D_ent_node_as_signer"}

-----------------------------------------------------------------------------
(* Hierarchy *)

VARIABLE scn      \* [shape, denial, qk, anc, cfg]

\* Trust anchor configuration.  Forms that are mere routes to the same anchor
\* set (one DNSKEY record for the root: TrustAnchors::from_u8; empty() +
\* add_u8; from_reader; the root key given as DS record; several records and
\* anchors, one of them the root key) behave alike.  "both": anchors for the
\* root and for tld - the longest match wins, the chain starts at tld.
\* "none" / "elsewhere": no anchor above the names in question (RFC 4035 4.3:
\* Indeterminate).
AnchorAliases == {"dnskey", "ds", "add_u8", "reader", "multi"}
AZ == CASE scn.anc = "both" -> "tld"
        [] scn.anc \in {"none", "elsewhere"} -> "nowhere"
        [] OTHER -> "root"
Anchored == AZ # "nowhere"

\* Validator configuration (context::Config).  "new" (Config::new()), "setdef"
\* (every setter called with its documented default) and "tiny" (all cache
\* sizes 1, shortest validities) are routes to the default behaviour.
\* "bad2": set_bad_signatures(2).  "cname1": set_max_cname_dname(1).
\* "iterins0" / "iterbog0": set_nsec3_iter_insecure(0) / set_nsec3_iter_bogus(0)
\* - the zones' NSEC3 iteration count (1) is above the limit.
CfgAliases == {"default", "new", "setdef", "tiny"}
IterIns == scn.cfg = "iterins0" /\ scn.denial # "nsec"
IterBog == scn.cfg = "iterbog0" /\ scn.denial # "nsec"

Parent(z) == CASE z = "tld" -> "root" [] z = "zone" -> "tld" [] z = "sub" -> "zone"
               [] z = "other" -> "tld" [] z = "plain" -> "tld" [] OTHER -> "root"

RECURSIVE Path(_)          \* root ... z
Path(z) == IF z = AZ \/ z = "root" THEN <<z>> ELSE Append(Path(Parent(z)), z)
Anc(z) == {Path(z)[i] : i \in 1..Len(Path(z))}     \* ancestors or self

Four(sh) == sh \in {"secure4", "insecure4"}
Leaf(sh) == IF Four(sh) THEN "sub" ELSE "zone"
LeafSecure(sh) == sh \in {"secure3", "secure4", "entapex_s", "entname_s"}
\* shapes in which the leaf zone hangs below an empty non-terminal of tld (the
\* ENT sorts directly after the tld apex, or after an ordinary name): the
\* walk asks for DS at the ENT first
EntShape(sh) == sh \in {"entapex_s", "entapex_i", "entname_s", "entname_i"}
\* the zone that answers the question
QZone == IF scn.qk = "ds" THEN Parent(Leaf(scn.shape))
         ELSE IF scn.qk = "dnamex" THEN "plain" ELSE Leaf(scn.shape)
Signed(sh, z) == CASE z = "plain" -> FALSE
                   [] z = Leaf(sh) -> LeafSecure(sh)
                   [] OTHER -> TRUE

-----------------------------------------------------------------------------
(* Symbolic crypto and RRset groups *)

Key(z) == <<"K", z>>
AdvKey == <<"K", "adv">>
Anchor == Key(AZ)
Sign(k, c) == [key |-> k, over |-> c]

\* what a signature commits to: owner/type identity (role, zone) and rdata
Content(g) == <<g.role, g.zone, g.rdata>>

Sig(z, g, time) == [sg |-> Sign(Key(z), Content(g)), signer |-> z, time |-> time]

NoPrf == [flavour |-> "none", covers |-> "none", optout |-> FALSE]

Grp(role, kind, zone, rdata, prf, wild, depth) ==
  [role |-> role, kind |-> kind, zone |-> zone, rdata |-> rdata, sigs |-> {},
   prf |-> prf, wild |-> wild, depth |-> depth,
   \* closest encloser, in labels below the apex.  An RRset expanded from a
   \* wildcard: the one its RRSIG's labels field implies (the wildcard's
   \* parent).  A proof that the query name does not exist: the one it
   \* establishes (NSEC: the longest suffix the name shares with the covering
   \* record's owner or next name; NSEC3: the parent of the covered name).
   ce |-> 0,
   bad |-> [n |-> 0, first |-> FALSE]]   \* extra RRSIGs by the right key that do not verify

Signd(sh, g) == IF Signed(sh, g.zone) THEN [g EXCEPT !.sigs = {Sig(g.zone, g, "ok")}] ELSE g

Prf(den, optoutCover) ==
  [flavour |-> IF den = "nsec" THEN "nsec" ELSE "nsec3", covers |-> "ok",
   optout |-> optoutCover]

Data(sh, role, z, depth, wild) == Signd(sh, Grp(role, "data", z, "good", NoPrf, wild, depth))
\* an RRset expanded from the wildcard whose parent is wce labels below the apex
WData(sh, role, z, depth, wce) ==
  Signd(sh, [Grp(role, "data", z, "good", NoPrf, TRUE, depth) EXCEPT !.ce = wce])
Soa(sh, z) == Signd(sh, Grp("soa", "soa", z, "good", NoPrf, FALSE, 0))
\* depth = labels of the proof record's owner below the apex (NSEC: the
\* covering record's real owner; NSEC3: the hash label)
WildKinds == {"wildcard", "wilddeep", "wildsub", "wcname", "wcnodata"}
PDepth(den, role, qk) == IF den # "nsec" THEN 1
                         ELSE IF role = "wc" THEN (IF qk = "wcnodata" THEN 2 ELSE 0)
                         ELSE IF role = "nx" /\ qk = "wildsub" THEN 3
                         ELSE IF role = "nx" /\ qk \in WildKinds THEN 2 ELSE 1
\* the wildcard's parent: "wild" (one label below the apex), or - wildsub -
\* the inner wildcard's parent "i.wild"
WildCe(qk) == IF qk = "wildsub" THEN 2 ELSE 1
ProofD(sh, den, role, z, oo, d) ==
  Signd(sh, Grp(role, "proof", z, "good", Prf(den, oo /\ den = "optout"), FALSE, d))
\* the proof that the name below a wildcard does not exist (closest encloser ce)
ProofW(sh, den, z, qk) ==
  Signd(sh, [Grp("nx", "proof", z, "good", Prf(den, den = "optout"), FALSE, PDepth(den, "nx", qk))
               EXCEPT !.ce = WildCe(qk)])
Proof(sh, den, role, z, oo) == ProofD(sh, den, role, z, oo, 1)

\* proofs exist only in signed zones
Proofs(sh, z, s) == IF Signed(sh, z) THEN s ELSE <<>>

\* the honest authoritative answer to the user's query
HonestAnswer(sh, den, qk) ==
  LET z == Leaf(sh) p == Parent(z) IN
  CASE qk = "positive" -> <<Data(sh, "ans", z, 1, FALSE)>>
    [] qk = "wildcard" -> <<WData(sh, "ans", z, 2, 1)>> \o Proofs(sh, z, <<ProofW(sh, den, z, qk)>>)
    \* the wildcard expanded over two labels (no name in between exists)
    [] qk = "wilddeep" -> <<WData(sh, "ans", z, 3, 1)>> \o Proofs(sh, z, <<ProofW(sh, den, z, qk)>>)
    \* a second wildcard one level further down (*.i.wild, "i.wild" an empty
    \* non-terminal): RRSIG labels field = apex + 2
    [] qk = "wildsub"  -> <<WData(sh, "ans", z, 3, 2)>> \o Proofs(sh, z, <<ProofW(sh, den, z, qk)>>)
    \* a wildcard CNAME (do_cname_dname checks the expansion like an answer's)
    [] qk = "wcname"   -> <<WData(sh, "cname1", z, 2, 1), Data(sh, "ans", z, 1, FALSE)>> \o
                          Proofs(sh, z, <<ProofW(sh, den, z, qk)>>)
    \* wildcard NODATA (RFC 4035 3.1.3.4, RFC 5155 7.2.5): the name does not
    \* exist, the wildcard does but has no such type
    [] qk = "wcnodata" -> <<Soa(sh, z)>> \o
                          Proofs(sh, z, <<ProofW(sh, den, z, qk)>> \o
                                        (IF den = "nsec" THEN <<>>
                                         ELSE <<Proof(sh, den, "ce", z, FALSE)>>) \o
                                        <<ProofD(sh, den, "wc", z, FALSE, PDepth(den, "wc", qk))>>)
    [] qk = "nodata"   -> <<Soa(sh, z)>> \o Proofs(sh, z, <<Proof(sh, den, "nd", z, FALSE)>>)
    [] qk = "nxdomain" -> <<Soa(sh, z)>> \o
                          Proofs(sh, z, (IF den = "nsec" THEN <<>>
                                         ELSE <<Proof(sh, den, "ce", z, FALSE)>>) \o
                                        <<Proof(sh, den, "nx", z, TRUE),
                                          ProofD(sh, den, "wc", z, TRUE, PDepth(den, "wc", qk))>>)
    \* NXDOMAIN two labels below the apex, below an existing name: with NSEC3 the
    \* record matching that closest encloser is needed; with NSEC one record
    \* (owner = the existing name) denies both the name and the wildcard
    [] qk = "nxdeep"   -> <<Soa(sh, z)>> \o
                          Proofs(sh, z, IF den = "nsec" THEN <<Proof(sh, den, "nx", z, TRUE)>>
                                        ELSE <<Proof(sh, den, "nx", z, TRUE),
                                               Proof(sh, den, "ce", z, FALSE),
                                               Proof(sh, den, "wc", z, TRUE)>>)
    [] qk = "cname1"   -> <<Data(sh, "cname1", z, 1, FALSE), Data(sh, "ans", z, 1, FALSE)>>
    [] qk = "cname2"   -> <<Data(sh, "cname1", z, 1, FALSE), Data(sh, "cname2", z, 1, FALSE),
                            Data(sh, "ans", z, 1, FALSE)>>
    \* DNAME in the leaf zone; the synthesized CNAME travels with the DNAME group
    [] qk = "dname"    -> <<Data(sh, "dname", z, 1, FALSE), Data(sh, "ans", z, 2, FALSE)>>
    \* DNAME in the unsigned sibling zone pointing into the leaf zone
    [] qk = "dnamex"   -> <<Data(sh, "dname", "plain", 1, FALSE), Data(sh, "ans", z, 1, FALSE)>>
    [] qk = "ds" ->
         IF LeafSecure(sh)
         THEN <<Signd(sh, Grp("ans", "ds", p, {Key(z)}, NoPrf, FALSE, 1))>>
         ELSE <<Soa(sh, p)>> \o
              (IF den = "optout"
               THEN <<Proof(sh, den, "ce", p, FALSE), Proof(sh, den, "nx", p, TRUE)>>
               ELSE <<Proof(sh, den, "nd", p, FALSE)>>)

\* the zone's CNAME loop, validly signed (hostile / broken zone content)
LoopAnswer(sh) ==
  LET z == Leaf(sh) IN
  <<Signd(sh, Grp("cname1", "data", z, "loop", NoPrf, FALSE, 1)),
    Signd(sh, Grp("cname2", "data", z, "loop", NoPrf, FALSE, 1))>>
IsLoop(m) == \E i \in 1..Len(m) : m[i].role = "cname1" /\ m[i].rdata = "loop"

\* honest upstream answers to the validator's own fetches
HonestFetch(sh, den, t, z) ==
  LET p == Parent(z) IN
  IF t = "DNSKEY"
  THEN IF Signed(sh, z)
       THEN <<[Grp("ans", "dnskey", z, {Key(z)}, NoPrf, FALSE, 0) EXCEPT
                 !.sigs = {Sig(z, Grp("ans", "dnskey", z, {Key(z)}, NoPrf, FALSE, 0), "ok")}]>>
       ELSE <<Soa(sh, z)>>
  ELSE IF Signed(sh, z)
       THEN <<Signd(sh, Grp("ans", "ds", p, {Key(z)}, NoPrf, FALSE, 1))>>
       ELSE <<Soa(sh, p)>> \o
            (IF den = "optout"
             THEN <<Proof(sh, den, "ce", p, FALSE), Proof(sh, den, "nx", p, TRUE)>>
             ELSE <<Proof(sh, den, "nd", p, FALSE)>>)

-----------------------------------------------------------------------------
(* Signature verification = term equality *)

\* "short": valid now, expired once time has passed (TimePasses)
VARIABLE late     \* time has passed: signatures with a short remaining life are expired
TimeOk(s) == s.time = "ok" \/ (s.time = "short" /\ ~late)
SigValid(s, g, keys) == /\ s.sg.key \in keys
                        /\ s.sg = Sign(s.sg.key, Content(g))
                        /\ TimeOk(s)
TheSig(g) == CHOOSE s \in g.sigs : TRUE
\* max_bad_signatures (default): failed verifications tolerated per RRset;
\* the failing RRSIGs count only when they are tried before the good one
MaxBad == IF scn.cfg = "bad2" THEN 2 ELSE 1
TooManyBad(g) == g.bad.first /\ g.bad.n > MaxBad
\* validate_with_node tries every key of the node with the signature's tag:
\* a second key with a colliding tag fails once for the good signature when it
\* is listed first, and doubles the failures of every bad signature
CollIn(keys) == \E k \in keys : Len(k) = 3
CollFirstIn(keys) == \E k \in keys : Len(k) = 3 /\ k[2] = "collides-first"
TooManyBadWith(g, keys) ==
  (IF g.bad.first THEN g.bad.n * (IF CollIn(keys) THEN 2 ELSE 1) ELSE 0)
  + (IF CollFirstIn(keys) THEN 1 ELSE 0) > MaxBad

Meet(a, b) == IF "Bogus" \in {a, b} THEN "Bogus"
              ELSE IF "Indeterminate" \in {a, b} THEN "Indeterminate"
              ELSE IF "Insecure" \in {a, b} THEN "Insecure" ELSE "Secure"

Has(m, role) == \E i \in 1..Len(m) : m[i].role = role
Get(m, role) == m[CHOOSE i \in 1..Len(m) : m[i].role = role /\
                     \A j \in 1..Len(m) : m[j].role = role => i <= j]
IsProofRole(r) == r \in {"nd", "nx", "ce", "wc"}

-----------------------------------------------------------------------------
(* State *)

VARIABLES budget,   \* rewrites left to the adversary
          advlog,   \* the adversary's rewrites so far: <<[act,t,z,role]>>
          pc, pend, \* control state; the message in flight is for fetch pend
          inbox,    \* message on the wire / last delivered
          msg,      \* the answer being validated, gi = current group
          gi, gst,  \* gst = validation state per finished group
          walk,     \* zones still to be created on the way to the target
          node,     \* node cache: zone -> "none" | Secure | Insecure | Bogus
          tkeys,    \* trusted key set per Secure zone
          dsd,      \* key digest committed to by the validated DS RRset
          ttl0,     \* zones whose cached node has validity 0 (TTL 0 on the wire)
          probes,   \* DS probes for non-apex names still to be sent
          served,   \* fetch key -> message as delivered (for the oracle)
          fetches,  \* history of fetches, in order
          shortz,   \* zones whose cached node is only valid for that short time
          run,      \* number of the current validation on this context
          hist,     \* earlier runs: <<[adv, result]>>
          entp,     \* the ENT above the leaf zone: "no" node for it yet, looked at
                    \* "now" (in this run), node "cached" from an earlier run
          result, steps

vars == <<scn, budget, advlog, pc, pend, inbox, msg, gi, gst, walk, node, tkeys,
          dsd, ttl0, probes, served, fetches, entp, late, shortz, run, hist, result, steps>>

AllZones == {"root", "tld", "zone", "sub", "other", "plain"}
FKey(t, z) == <<t, z>>

Init ==
  /\ scn \in {x \in [shape : Shapes, denial : Denials, qk : QKinds, anc : AnchorForms,
                        cfg : Cfgs] :
                  EntShape(x.shape) => x.qk \in EntQKinds}
  /\ budget = Budget /\ advlog = <<>>
  /\ pc = "wire" /\ pend = [t |-> "ANS", z |-> Leaf(scn.shape)]
  /\ inbox = HonestAnswer(scn.shape, scn.denial, scn.qk)
  /\ msg = <<>> /\ gi = 1 /\ gst = <<>> /\ walk = <<>>
  /\ node = [z \in AllZones |-> "none"] /\ tkeys = [z \in AllZones |-> {}]
  /\ dsd = {} /\ ttl0 = {} /\ probes = 0 /\ entp = "no" /\ run = 1 /\ hist = <<>> /\ late = FALSE /\ shortz = {}
  /\ served = <<>> /\ fetches = <<>> /\ result = "none" /\ steps = 0

-----------------------------------------------------------------------------
(* The adversary: one action per rewrite kind, applied to the message on     *)
(* the wire.                                                                 *)

Log(act, role) == Append(advlog, [act |-> act, t |-> pend.t, z |-> pend.z, role |-> role])

MapRole(m, role, f(_)) == [i \in 1..Len(m) |-> IF m[i].role = role THEN f(m[i]) ELSE m[i]]
Without(m, P(_)) == SelectSeq(m, LAMBDA g : ~P(g))

\* one rewrite per message keeps the grid at "one action at each target";
\* with Budget = 2 the second rewrite goes to a later (or the same) message
CanAdv(act) == /\ pc = "wire" /\ budget > 0 /\ act \in AdvActs /\ pend.t \in AdvOn
               /\ \A i \in 1..Len(advlog) :
                     ~(advlog[i].t = pend.t /\ advlog[i].z = pend.z)

Rewrite(act, role, m) ==
  /\ inbox' = m /\ budget' = budget - 1 /\ advlog' = Log(act, role)
  /\ steps' = steps + 1
  /\ UNCHANGED <<late, shortz, run, hist, entp, scn, pc, pend, msg, gi, gst, walk, node, tkeys, dsd, ttl0, probes,
                 served, fetches, result>>

SignedRole(r) == Has(inbox, r) /\ Get(inbox, r).sigs # {}

Adv_DropRrsig ==
  /\ pc = "wire"
  /\ \E r \in {"ans", "cname1", "dname", "soa", "nd", "nx", "ce", "wc"} :
        /\ CanAdv("DropRrsig") /\ SignedRole(r)
        /\ Rewrite("DropRrsig", r, MapRole(inbox, r, LAMBDA g : [g EXCEPT !.sigs = {}]))

Adv_DropRrset ==
  /\ pc = "wire"
  /\ \E r \in {"ans", "cname1", "soa", "nd", "nx", "ce", "wc"} :
        /\ CanAdv("DropRrset") /\ Has(inbox, r)
        /\ Rewrite("DropRrset", r, Without(inbox, LAMBDA g : g.role = r))

Adv_ReplaceRdata ==
  /\ pc = "wire"
  /\ \E r \in {"ans", "soa"} :
        /\ CanAdv("ReplaceRdata") /\ Has(inbox, r) /\ Get(inbox, r).kind \in {"data", "soa"}
        /\ Rewrite("ReplaceRdata", r, MapRole(inbox, r, LAMBDA g : [g EXCEPT !.rdata = "evil"]))

\* re-signed by the (validly delegated) sibling zone "other"
Adv_WrongSigner ==
  /\ pc = "wire"
  /\ \E r \in {"ans", "dname", "soa", "nx"} :
        /\ CanAdv("WrongSigner") /\ SignedRole(r)
        /\ Rewrite("WrongSigner", r,
              MapRole(inbox, r, LAMBDA g : [g EXCEPT !.sigs =
                 {[sg |-> Sign(Key("other"), Content(g)), signer |-> "other", time |-> "ok"]}]))

Retime(act, time, r) ==
  /\ CanAdv(act) /\ SignedRole(r)
  /\ Rewrite(act, r, MapRole(inbox, r, LAMBDA g : [g EXCEPT !.sigs =
                        {[TheSig(g) EXCEPT !.time = time]}]))
Adv_Expire ==
  /\ pc = "wire"
  /\ \E r \in {"ans", "cname1", "dname", "soa", "nd", "nx"} : Retime("Expire", "expired", r)
Adv_NotYetValid ==
  /\ pc = "wire"
  /\ \E r \in {"ans", "cname1", "dname", "soa", "nd", "nx"} : Retime("NotYetValid", "future", r)

\* n additional RRSIGs made with the right key that do not verify (expired
\* leftovers of a re-signing run), listed before or after the genuine one.
\* The validator tolerates MaxBad failed verifications per RRset (KeyTrap
\* guard): up to that number nothing may change.
Adv_AddBadSig ==
  /\ pc = "wire"
  /\ \E n \in (IF MaxBad = 1 THEN {1, 2} ELSE {1, 2, 3}), first \in BOOLEAN :
        /\ CanAdv("AddBadSig") /\ SignedRole("ans")
        /\ Rewrite("AddBadSig" \o (CASE n = 1 -> "1" [] n = 2 -> "2" [] OTHER -> "3")
                               \o (IF first THEN "First" ELSE "Last"),
                   "ans", MapRole(inbox, "ans", LAMBDA g : [g EXCEPT !.bad = [n |-> n, first |-> first]]))

\* NXDOMAIN / NODATA for a name below a DNAME owner or below a zone cut,
\* "proven" with the genuine, validly signed NSEC/NSEC3 of that ancestor
\* (bitmap DNAME; NS+DS; NS): RFC 4035 5.4 / RFC 6840 4.1 - it proves nothing
\* about names below it
Adv_ReplayAncestor ==
  /\ pc = "wire"
  /\ \E k \in {"Dname", "Cut", "CutIns"} :
        /\ CanAdv("ReplayAncestor") /\ pend.t = "ANS" /\ scn.qk \in {"nxdomain", "nodata"}
        /\ MaxRuns = 1
        /\ SignedRole("soa")
        /\ k = "CutIns" => scn.denial # "optout"   \* not in the Opt-Out chain
        /\ LET z == Leaf(scn.shape)
               g == Grp("nx", "proof", z, "ancestor",
                        [flavour |-> IF scn.denial = "nsec" THEN "nsec" ELSE "nsec3",
                         covers |-> "ancestor", optout |-> FALSE], FALSE, 1)
           IN Rewrite("ReplayAncestor" \o (IF scn.qk = "nxdomain" THEN "Nx" ELSE "Nd") \o k, "nx",
                      <<Soa(scn.shape, z), [g EXCEPT !.sigs = {Sig(z, g, "ok")}]>>)

\* An honest zone with two keys of equal algorithm and key tag (the second one
\* listed before / after the DS-committed key), DNSKEY RRset signed by the
\* zone's own key; and a delegation with two DS records, one of them for
\* another key with the same tag.  Nothing may change.
CollKey(z, first) == <<"K", IF first THEN "collides-first" ELSE "collides-last", z>>
Adv_AddCollidingKey ==
  /\ pc = "wire"
  /\ \E first \in BOOLEAN :
        /\ CanAdv("AddCollidingKey") /\ pend.t = "DNSKEY" /\ SignedRole("ans")
        /\ Get(inbox, "ans").kind = "dnskey"
        /\ Rewrite("AddCollidingKey" \o (IF first THEN "First" ELSE "Last"), "ans",
                   MapRole(inbox, "ans", LAMBDA g :
                     LET h == [g EXCEPT !.rdata = g.rdata \cup {CollKey(g.zone, first)}] IN
                     [h EXCEPT !.sigs = {Sig(g.zone, h, "ok")}]))
Adv_AddExtraDs ==
  /\ pc = "wire"
  /\ \E first \in BOOLEAN :
        /\ CanAdv("AddExtraDs") /\ SignedRole("ans") /\ Get(inbox, "ans").kind = "ds"
        /\ Rewrite("AddExtraDs" \o (IF first THEN "First" ELSE "Last"), "ans",
                   MapRole(inbox, "ans", LAMBDA g :
                     LET h == [g EXCEPT !.rdata = g.rdata \cup {CollKey(pend.z, first)}] IN
                     [h EXCEPT !.sigs = {Sig(g.zone, h, "ok")}]))

\* an honest signature with only a few seconds of validity left: nothing
\* changes now; a node built from it may be cached only that long
Adv_ShortSig ==
  /\ CanAdv("ShortSig") /\ SignedRole("ans")
  /\ ~Get(inbox, "ans").wild     \* (the harness cannot re-sign an expanded wildcard as such)
  /\ Rewrite("ShortSig", "ans", MapRole(inbox, "ans", LAMBDA g : [g EXCEPT !.sigs =
        {[TheSig(g) EXCEPT !.time = "short"]}]))

\* the same RRset and RRSIG fields, different signature octets
Adv_CorruptSigOctets ==
  /\ pc = "wire"
  /\ \E r \in {"ans", "soa", "nx"} :
        /\ CanAdv("CorruptSigOctets") /\ SignedRole(r)
        /\ Rewrite("CorruptSigOctets", r, MapRole(inbox, r, LAMBDA g : [g EXCEPT !.sigs =
              {[TheSig(g) EXCEPT !.sg = [key |-> TheSig(g).sg.key, over |-> <<"garbage">>]]}]))

\* NXDOMAIN below an existing name (qk nxdeep, NSEC3): the record matching the
\* real closest encloser is withheld and the wildcard denial shown is the one
\* for *.<apex>: genuine records, but no closest-encloser proof
Adv_HideCe ==
  /\ CanAdv("HideCe") /\ pend.t = "ANS" /\ scn.qk = "nxdeep" /\ scn.denial # "nsec"
  /\ Has(inbox, "ce") /\ SignedRole("wc")
  /\ Rewrite("HideCe", "", MapRole(Without(inbox, LAMBDA g : g.role = "ce"), "wc", LAMBDA g :
        LET h == [g EXCEPT !.rdata = "other", !.prf.covers = "wrong"] IN
        [h EXCEPT !.sigs = {Sig(g.zone, h, "ok")}]))

\* forged data signed with the attacker's key in the zone's name (only useful
\* together with CorruptKey on that zone's DNSKEY fetch)
Adv_ForgeSigned ==
  /\ CanAdv("ForgeSigned") /\ pend.t = "ANS" /\ SignedRole("ans")
  /\ Get(inbox, "ans").kind = "data"
  /\ Rewrite("ForgeSigned", "ans", MapRole(inbox, "ans", LAMBDA g :
        LET h == [g EXCEPT !.rdata = "evil"] IN
        [h EXCEPT !.sigs = {[sg |-> Sign(AdvKey, Content(h)), signer |-> TheSig(g).signer,
                             time |-> "ok"]}]))

\* DNSKEY RRset replaced by the attacker's key, self-signed
Adv_CorruptKey ==
  /\ CanAdv("CorruptKey") /\ pend.t = "DNSKEY" /\ Has(inbox, "ans")
  /\ Get(inbox, "ans").kind = "dnskey"
  /\ Rewrite("CorruptKey", "ans", MapRole(inbox, "ans", LAMBDA g :
        LET h == [g EXCEPT !.rdata = {AdvKey}] IN
        [h EXCEPT !.sigs = {[sg |-> Sign(AdvKey, Content(h)), signer |-> g.zone,
                             time |-> "ok"]}]))

Adv_CorruptDs ==
  /\ CanAdv("CorruptDs") /\ Has(inbox, "ans") /\ Get(inbox, "ans").kind = "ds"
  /\ Rewrite("CorruptDs", "ans", MapRole(inbox, "ans", LAMBDA g : [g EXCEPT !.rdata = {AdvKey}]))

Adv_StripProof ==
  /\ CanAdv("StripProof") /\ \E i \in 1..Len(inbox) : IsProofRole(inbox[i].role)
  /\ Rewrite("StripProof", "", Without(inbox, LAMBDA g : IsProofRole(g.role)))

\* range widened, stale signature
Adv_ForgeNsecRange ==
  /\ pc = "wire"
  /\ \E r \in {"nd", "nx", "wc"} :
        /\ CanAdv("ForgeNsecRange") /\ Has(inbox, r)
        /\ Rewrite("ForgeNsecRange", r, MapRole(inbox, r, LAMBDA g : [g EXCEPT !.rdata = "evil"]))

\* a genuine signed NSEC/NSEC3 of the same zone that proves nothing here
Adv_SwapProof ==
  /\ pc = "wire"
  /\ \E r \in {"nd", "nx", "wc"} :
        /\ CanAdv("SwapProof") /\ SignedRole(r)
        /\ Rewrite("SwapProof", r, MapRole(inbox, r, LAMBDA g :
              LET h == [g EXCEPT !.rdata = "other", !.prf.covers = "wrong"] IN
              [h EXCEPT !.sigs = {Sig(g.zone, h, "ok")}]))

\* the DS answer replaced by a fabricated unsigned NSEC3 with a
\* non-Base32hex owner label
Adv_BadNsec3Label ==
  /\ CanAdv("BadNsec3Label") /\ pend.t = "DS"
  /\ Rewrite("BadNsec3Label", "nd",
        Without(inbox, LAMBDA g : g.role = "ans" \/ IsProofRole(g.role)) \o
        <<Grp("nd", "proof", Parent(pend.z), "evil",
              [flavour |-> "nsec3", covers |-> "badlabel", optout |-> FALSE], FALSE, 1)>>)

\* a signed zone publishes an NSEC3 under a non-Base32hex label
Adv_BadNsec3LabelSigned ==
  /\ pc = "wire"
  /\ \E r \in {"nd", "nx", "wc"} :
        /\ CanAdv("BadNsec3LabelSigned") /\ pend.t = "ANS" /\ SignedRole(r)
        /\ Get(inbox, r).prf.flavour = "nsec3"
        /\ Rewrite("BadNsec3LabelSigned", r, MapRole(inbox, r, LAMBDA g :
              LET h == [g EXCEPT !.rdata = "badlabel", !.prf.covers = "badlabel"] IN
              [h EXCEPT !.sigs = {Sig(g.zone, h, "ok")}]))

Adv_ZeroCounts ==
  /\ CanAdv("ZeroCounts") /\ inbox # <<>>
  /\ Rewrite("ZeroCounts", "", <<>>)

\* TTL 0 on every record: not covered by the signatures, nothing changes
Adv_ZeroTtl ==
  /\ CanAdv("ZeroTtl") /\ inbox # <<>>
  /\ Rewrite("ZeroTtl", "", inbox)

\* an extra unsigned RRset of the insecure sibling zone in the answer section
Adv_Inject ==
  /\ CanAdv("Inject") /\ pend.t = "ANS" /\ ~Has(inbox, "inj")
  /\ LET ans == SelectSeq(inbox, LAMBDA g : g.role \in {"ans", "cname1", "cname2", "dname"})
          aut == SelectSeq(inbox, LAMBDA g : g.role \notin {"ans", "cname1", "cname2", "dname"})
     IN Rewrite("Inject", "",      \* answer section: before the authority RRsets
                ans \o <<Grp("inj", "data", "plain", "good", NoPrf, FALSE, 1)>> \o aut)

Adv_CnameLoop ==
  /\ CanAdv("CnameLoop") /\ pend.t = "ANS" /\ scn.qk = "positive" /\ MaxRuns = 1
  /\ Rewrite("CnameLoop", "", LoopAnswer(scn.shape))

\* A genuine, validly signed proof record of the zone for another name than
\* the scenario's ("ok": that name does not exist, closest encloser ce labels
\* below the apex; "matches": that name exists), owner d labels below the apex
OtherProofD(z, role, cov, d, ce) ==
  LET h == [Grp(role, "proof", z, "other",
                [flavour |-> IF scn.denial = "nsec" THEN "nsec" ELSE "nsec3",
                 covers |-> cov, optout |-> FALSE], FALSE, d) EXCEPT !.ce = ce]
  IN [h EXCEPT !.sigs = {Sig(z, h, "ok")}]
OtherProof(z, role, cov) == OtherProofD(z, role, cov, 2, 2)

\* The genuine wildcard RRset of "*.wild" (and RRSIG, labels field and all: the
\* closest encloser it implies is "wild", one label below the apex) is replayed
\* where the wildcard does not apply because a closer encloser exists
\* (RFC 4592 3.3.1, RFC 4035 5.3.4, RFC 5155 8.8), together with the genuine
\* denial for that name (true answer: NXDOMAIN; every record is authentic, the
\* proof's closest encloser is two labels below the apex):
\*  Below:     nx.m.wild, "m.wild" exists (NSEC: closest encloser from the
\*             covering record's owner);
\*  BelowEnt:  nx.e.wild, "e.wild" is an empty non-terminal (NSEC: closest
\*             encloser from the covering record's next name);
\*  BelowDeep: a.b.m.wild, two labels below the existing name;
\*  Outer:     x.i.wild, where the inner wildcard *.i.wild applies (true
\*             answer: that wildcard's data);
\*  CnameBelow: as Below with a wildcard CNAME heading a chain;
\*  At:        at the existing name m.wild that lacks the type, with the
\*             NSEC/NSEC3 matching that name (true answer: NODATA).
MisKinds == {"Below", "BelowEnt", "BelowDeep", "Outer", "At", "CnameBelow"}
MisDepth(k) == CASE k = "At" -> 2 [] k = "BelowDeep" -> 4 [] OTHER -> 3
Adv_MisapplyWildcard ==
  /\ pc = "wire"
  /\ \E k \in MisKinds :
        /\ CanAdv("MisapplyWildcard") /\ pend.t = "ANS" /\ scn.qk = "nxdomain"
        /\ MaxRuns = 1 /\ SignedRole("soa")
        /\ LET z == Leaf(scn.shape)
               prf == OtherProofD(z, "nx", IF k = "At" THEN "matches" ELSE "ok",
                                  IF k = "Outer" THEN 3 ELSE 2, 2)
           IN Rewrite("MisapplyWildcard" \o k, "nx",
                 IF k = "CnameBelow"
                 THEN <<WData(scn.shape, "cname1", z, 3, 1), Data(scn.shape, "ans", z, 1, FALSE), prf>>
                 ELSE <<WData(scn.shape, "ans", z, MisDepth(k), 1), prf>>)

\* An existing RRset is denied: NODATA ("Nd") or NXDOMAIN ("Nx") with the zone's
\* SOA and the genuine NSEC/NSEC3 matching the name (its bitmap lists the type)
Adv_DenyExisting ==
  /\ pc = "wire"
  /\ \E k \in {"Nd", "Nx"} :
        /\ CanAdv("DenyExisting") /\ pend.t = "ANS" /\ scn.qk = "positive"
        /\ MaxRuns = 1 /\ SignedRole("ans")
        /\ LET z == Leaf(scn.shape) IN
           Rewrite("DenyExisting" \o k, IF k = "Nd" THEN "nd" ELSE "nx",
                   <<Soa(scn.shape, z), OtherProof(z, IF k = "Nd" THEN "nd" ELSE "nx", "matches")>>)

\* Message form, nothing a signature covers: every RRSIG precedes the RRset it
\* covers (Group::new / Group::add start a group from an RRSIG); every record
\* appears twice (found_duplicate).  Nothing may change.
SomeSigned == \E i \in 1..Len(inbox) : inbox[i].sigs # {}
Adv_SigsFirst ==
  /\ CanAdv("SigsFirst") /\ SomeSigned
  /\ Rewrite("SigsFirst", "", inbox)
Adv_Duplicate ==
  /\ CanAdv("Duplicate") /\ inbox # <<>>
  /\ Rewrite("Duplicate", "", inbox)

\* the RRset is removed, its RRSIG stays behind ("RRSIG without RRset")
Adv_OrphanSig ==
  /\ pc = "wire"
  /\ \E r \in {"ans", "cname1", "soa", "nx"} :
        /\ CanAdv("OrphanSig") /\ SignedRole(r)
        /\ Rewrite("OrphanSig", r, Without(inbox, LAMBDA g : g.role = r))

\* the negative answer carries the (validly signed) SOA of another zone
Adv_WrongSoa ==
  /\ CanAdv("WrongSoa") /\ pend.t = "ANS" /\ SignedRole("soa")
  /\ Rewrite("WrongSoa", "soa", MapRole(inbox, "soa", LAMBDA g : Soa(scn.shape, "other")))

AdvNext == \/ Adv_DropRrsig \/ Adv_DropRrset \/ Adv_ReplaceRdata \/ Adv_WrongSigner
           \/ Adv_Expire \/ Adv_NotYetValid \/ Adv_ShortSig \/ Adv_AddCollidingKey \/ Adv_AddExtraDs \/ Adv_CorruptSigOctets \/ Adv_HideCe
           \/ Adv_ReplayAncestor \/ Adv_ForgeSigned \/ Adv_AddBadSig \/ Adv_CorruptKey \/ Adv_CorruptDs
           \/ Adv_StripProof \/ Adv_ForgeNsecRange \/ Adv_SwapProof
           \/ Adv_BadNsec3Label \/ Adv_BadNsec3LabelSigned \/ Adv_ZeroCounts
           \/ Adv_ZeroTtl \/ Adv_Inject \/ Adv_CnameLoop
           \/ Adv_MisapplyWildcard \/ Adv_DenyExisting \/ Adv_SigsFirst \/ Adv_Duplicate
           \/ Adv_OrphanSig \/ Adv_WrongSoa

ZeroTtlOn(t, z) == \E i \in 1..Len(advlog) :
                      advlog[i].act = "ZeroTtl" /\ advlog[i].t = t /\ advlog[i].z = z

-----------------------------------------------------------------------------
(* The validator *)

Step == steps' = steps + 1
Finish(r) == result' = r /\ pc' = "done"

\* the message on the wire reaches the validator
Deliver ==
  /\ pc = "wire" /\ Step
  /\ served' = Append(served, [k |-> FKey(pend.t, pend.z), m |-> inbox])
  /\ IF pend.t = "ANS"
     THEN msg' = inbox /\ pc' = "group"
     ELSE msg' = msg /\ pc' = IF pend.t = "DS" THEN "vds" ELSE "vkey"
  /\ UNCHANGED <<late, shortz, run, hist, entp, scn, budget, advlog, pend, inbox, gi, gst, walk, node, tkeys, dsd,
                 ttl0, probes, fetches, result>>

\* Group::validate_with_vc: the zone whose node decides about this group
\* (an unsigned RRset is looked up by its owner name: when that name is a
\* delegation point - DS RRset, parent-side NSEC - the walk ends in the child)
AtCut(g) == g.kind = "ds" \/ (g.kind = "proof" /\ g.role = "nd" /\ g.prf.flavour = "nsec"
                                /\ scn.qk = "ds")
Target(g) == IF g.sigs # {} THEN TheSig(g).signer
             ELSE IF AtCut(g) THEN Leaf(scn.shape) ELSE g.zone

\* get_node / find_closest_node: first uncached zone on the path, unless an
\* ancestor is already known not to be Secure
\* (find_closest_node tests for the trust anchor's name before it looks into
\* the cache: when no node below the anchor is cached on the path, the anchor's
\* node is built - and its DNSKEY RRset fetched - again)
RECURSIVE Need(_, _)
Need(p, i) == IF i = 1 /\ Len(p) >= 2 /\ node[p[2]] = "none" THEN p
              ELSE IF i > Len(p) THEN <<>>
              ELSE IF node[p[i]] = "none" THEN SubSeq(p, i, Len(p))
              ELSE IF node[p[i]] # "Secure" THEN <<>>
              ELSE Need(p, i + 1)

\* the node get_node returns: the first non-Secure one on the path, else the target's
RECURSIVE Eff(_, _)
Eff(p, i) == IF i = Len(p) THEN p[i]
             ELSE IF node[p[i]] # "Secure" THEN p[i] ELSE Eff(p, i + 1)
EffNode(z) == Eff(Path(z), 1)

\* using a cached node whose validity is 0 (Node::ttl underflows)
UsesTtl0(z) == "D_ttl0_node_panic" \in Dev /\ \E a \in Anc(z) : a \in ttl0

StartGroup ==
  /\ pc = "group" /\ gi <= Len(msg) /\ Step
  /\ LET g == msg[gi]
         \* get_node: no trust anchor above the name - an Indeterminate node, no fetch
         w == IF Anchored THEN Need(Path(Target(g)), 1) ELSE <<>> IN
       /\ walk' = w
       \* (an expanded wildcard's owner does not exist: the walk ends at the
       \* first name that does not - one label below the closest encloser)
       /\ probes' = IF g.sigs = {} /\ ~AtCut(g) /\ Anchored
                    THEN (IF g.wild THEN g.ce + 1 ELSE g.depth) ELSE 0
       /\ pc' = IF w # <<>> THEN "walk" ELSE "probe"
  /\ UNCHANGED <<late, shortz, run, hist, entp, scn, budget, advlog, pend, inbox, msg, gi, gst, node, tkeys, dsd,
                 ttl0, served, fetches, result>>

Issue(t, z) ==
  /\ pend' = [t |-> t, z |-> z]
  /\ inbox' = HonestFetch(scn.shape, scn.denial, t, z)
  /\ fetches' = Append(fetches, [t |-> t, z |-> z])
  /\ pc' = "wire"

\* Node::trust_anchor / create_child_node start with a fetch
\* RFC 5155 6: under Opt-Out an ENT that only leads to insecure delegations has
\* no NSEC3; the covering Opt-Out record makes the ENT itself an (assumed)
\* insecure delegation and the walk ends there
EntStops == EntShape(scn.shape) /\ ~LeafSecure(scn.shape) /\ scn.denial = "optout"
NeedEnt == walk # <<>> /\ Head(walk) = "zone" /\ EntShape(scn.shape) /\ entp = "no"

FetchNext ==
  /\ pc = "walk" /\ walk # <<>> /\ ~NeedEnt /\ Step
  /\ LET z == Head(walk) IN
       IF z # AZ /\ UsesTtl0(Parent(z))
       THEN /\ Finish("panic")
            /\ UNCHANGED <<pend, inbox, fetches>>
       ELSE /\ Issue(IF z = AZ THEN "DNSKEY" ELSE "DS", z)
            /\ UNCHANGED result
  /\ UNCHANGED <<late, shortz, run, hist, entp, scn, budget, advlog, msg, gi, gst, walk, node, tkeys, dsd, ttl0,
                 probes, served>>

\* node validity = min(TTLs, remaining signature lifetime) of what it was built from
ShortMsg == pend.t \in {"DS", "DNSKEY"} /\ Has(inbox, "ans") /\
            \E s \in Get(inbox, "ans").sigs : s.time = "short"
SetNode(z, st, keys) ==
  /\ node' = [node EXCEPT ![z] = st]
  /\ tkeys' = [tkeys EXCEPT ![z] = keys]
  /\ ttl0' = IF st # "Bogus" /\ (ZeroTtlOn("DS", z) \/ ZeroTtlOn("DNSKEY", z))
             THEN ttl0 \cup {z} ELSE ttl0
  /\ walk' = IF st = "Secure" THEN Tail(walk) ELSE <<>>
  /\ pc' = IF st = "Secure" /\ Tail(walk) # <<>> THEN "walk" ELSE "probe"

\* create_child_node for the empty non-terminal on the way to the leaf zone:
\* DS query, NODATA, the NSEC (possibly the apex's own) / NSEC3 proves a
\* secure intermediate name (nsec_for_ds / nsec3_for_ds); honest upstream
EntProbe ==
  /\ pc = "walk" /\ NeedEnt /\ Step
  /\ entp' = "now"
  /\ fetches' = Append(fetches, [t |-> "DS", z |-> "name"])
  /\ IF UsesTtl0("tld") THEN Finish("panic") /\ UNCHANGED <<node, tkeys, ttl0, walk>>
     ELSE IF EntStops THEN SetNode("zone", "Insecure", {}) /\ UNCHANGED result
     ELSE UNCHANGED <<node, tkeys, ttl0, walk, pc, result>>
  /\ UNCHANGED <<late, shortz, run, hist, scn, budget, advlog, pend, inbox, msg, gi, gst, dsd, probes, served>>

\* DNSKEY RRset arrived: trust anchor (root) or DS-committed key (child)
VerifyKey ==
  /\ pc = "vkey" /\ Step
  /\ LET z == pend.z
         want == IF z = AZ THEN {Anchor} ELSE dsd   \* keys the anchor / the DS RRset commits to
         ok == /\ Has(inbox, "ans") /\ Get(inbox, "ans").kind = "dnskey"
               /\ LET g == Get(inbox, "ans") IN
                    /\ \E k \in want : /\ k \in g.rdata
                                        /\ \E s \in g.sigs : s.sg.key = k /\ SigValid(s, g, {k})
                    /\ ~TooManyBad(g)
     IN IF ok THEN SetNode(z, "Secure", Get(inbox, "ans").rdata)
        ELSE SetNode(z, "Bogus", {})
  /\ shortz' = IF ShortMsg THEN shortz \cup {pend.z} ELSE shortz
  /\ UNCHANGED <<late, run, hist, entp, scn, budget, advlog, pend, inbox, msg, gi, gst, dsd, probes, served,
                 fetches, result>>

ProofGood(g, z, keys) ==   \* validly signed by zone z, and it proves what is needed
  /\ g.kind = "proof" /\ g.prf.covers = "ok"
  /\ \E s \in g.sigs : s.signer = z /\ SigValid(s, g, keys)

\* DS answer arrived (create_child_node, nsec_for_ds, nsec3_for_ds)
VerifyDs ==
  /\ pc = "vds" /\ Step
  /\ LET z == pend.z p == Parent(z)
         \* D_ent_node_as_signer: get_node starts the walk at the closest
         \* cached node; when that is the node of the empty non-terminal (an
         \* "intermediate" node: no keys) it is taken for the signer's node
         keys == IF "D_ent_node_as_signer" \in Dev /\ z = "zone" /\ EntShape(scn.shape)
                    /\ entp = "cached"
                 THEN {} ELSE tkeys[p]
         hasDs == Has(inbox, "ans") /\ Get(inbox, "ans").kind = "ds"
         badlabel == \E i \in 1..Len(inbox) : inbox[i].kind = "proof" /\
                        inbox[i].prf.covers = "badlabel"
     IN
     IF hasDs
     THEN LET g == Get(inbox, "ans") IN
          IF (\E s \in g.sigs : s.signer = p /\ SigValid(s, g, keys)) /\ ~TooManyBadWith(g, keys)
          THEN /\ dsd' = g.rdata
               /\ Issue("DNSKEY", z)
               /\ UNCHANGED <<node, tkeys, ttl0, walk, result>>
          ELSE /\ SetNode(z, "Bogus", {})
               /\ UNCHANGED <<dsd, pend, inbox, fetches, result>>
     ELSE IF badlabel /\ "D_nsec3_label_expect" \in Dev
     THEN /\ Finish("panic")
          /\ UNCHANGED <<dsd, pend, inbox, fetches, node, tkeys, ttl0, walk>>
     ELSE LET insecure ==
                \/ Has(inbox, "nd") /\ ProofGood(Get(inbox, "nd"), p, keys)
                \/ /\ Has(inbox, "nx") /\ ProofGood(Get(inbox, "nx"), p, keys)
                   /\ Get(inbox, "nx").prf.optout
             \* nsec3_for_ds: an iteration count above the configured limits
             \* makes the (validly signed) NSEC3 proof Bogus / Insecure
          IN /\ SetNode(z, IF insecure /\ ~IterBog THEN "Insecure" ELSE "Bogus", {})
             /\ UNCHANGED <<dsd, pend, inbox, fetches, result>>
  /\ shortz' = IF ShortMsg THEN shortz \cup {pend.z} ELSE shortz
  /\ UNCHANGED <<late, run, hist, entp, scn, budget, advlog, msg, gi, gst, probes, served>>

\* an unsigned RRset below a Secure zone: get_node walks to the owner name
\* with DS queries for the non-apex names (never an adversary target here)
Probe ==
  /\ pc = "probe" /\ Step
  /\ LET g == msg[gi] e == EffNode(Target(g)) IN
     IF probes > 0 /\ node[e] = "Secure" /\ e = Target(g)
     THEN /\ probes' = probes - 1
          /\ fetches' = Append(fetches, [t |-> "DS", z |-> "name"])
          /\ pc' = "probe"
     ELSE /\ probes' = 0 /\ fetches' = fetches /\ pc' = "check"
  /\ UNCHANGED <<late, shortz, run, hist, entp, scn, budget, advlog, pend, inbox, msg, gi, gst, walk, node, tkeys, dsd,
                 ttl0, served, result>>

\* RFC 5155 section 6: an Opt-Out NSEC3 does not assert the (non)existence of
\* insecure delegations in its span; an unsigned RRset at a name that is only
\* covered by such a span may stem from an unsigned child zone
\* (names that do not exist: the expanded wildcard owner, the hashed owner
\* name of an NSEC3 record)
OptOutSpan(g) == scn.denial = "optout" /\
                 (g.wild \/ (g.kind = "proof" /\ g.prf.flavour = "nsec3"))

\* Group::validate_with_node
GroupState(g) ==
  LET e == EffNode(Target(g)) IN
  IF ~Anchored THEN "Indeterminate"
  ELSE IF node[e] # "Secure" THEN node[e]
  ELSE IF e # Target(g) THEN "Bogus"
  ELSE IF g.sigs = {} /\ OptOutSpan(g) THEN "Insecure"   \* nsec3_for_ds: opt-out span
  ELSE IF /\ g.sigs # {} /\ Target(g) \in Anc(g.zone)
          /\ \E s \in g.sigs : SigValid(s, g, tkeys[e])
          /\ ~TooManyBadWith(g, tkeys[e])
       THEN "Secure" ELSE "Bogus"

CheckGroup ==
  /\ pc = "check" /\ Step
  /\ LET g == msg[gi] st == GroupState(g) IN
     IF UsesTtl0(EffNode(Target(g)))
     THEN Finish("panic") /\ UNCHANGED <<gst, gi>>
     ELSE IF st = "Bogus"
     THEN Finish("Bogus") /\ UNCHANGED <<gst, gi>>
     ELSE /\ gst' = Append(gst, st) /\ gi' = gi + 1 /\ pc' = "group"
          /\ UNCHANGED result
  /\ UNCHANGED <<late, shortz, run, hist, entp, scn, budget, advlog, pend, inbox, msg, walk, node, tkeys, dsd, ttl0,
                 probes, served, fetches>>

\* --- classification of the validated answer (validate_msg after the groups) ---
St(role) == gst[CHOOSE i \in 1..Len(msg) : msg[i].role = role /\
                   \A j \in 1..Len(msg) : msg[j].role = role => i <= j]
MaxCname == 11

\* the proof group is usable: Secure, right signer, and it proves its part
Usable(role, signer) ==
  /\ Has(msg, role) /\ St(role) = "Secure"
  /\ LET g == Get(msg, role) IN g.prf.covers = "ok" /\ TheSig(g).signer = signer
\* get_checked_nsec3: iteration count above nsec3_iter_bogus / nsec3_iter_insecure
Down(role, st) == IF IterBog THEN "Bogus"
                  ELSE IF Get(msg, role).prf.optout \/ IterIns THEN "Insecure" ELSE st

CnameCount == Cardinality({i \in 1..Len(msg) : msg[i].role \in {"cname1", "cname2"}})
\* CNAME links needed before the final name: all present?
ChainOk == CASE scn.qk \in {"cname1", "wcname"} -> Has(msg, "cname1")
             [] scn.qk \in {"dname", "dnamex"} -> Has(msg, "dname")
             [] scn.qk = "cname2" -> Has(msg, "cname1") /\ Has(msg, "cname2")
             [] OTHER -> TRUE
\* do_cname_dname: a CNAME expanded from a wildcard needs the proof that the
\* name itself does not exist (check_not_exists_for_wildcard), as an answer does
\* check_not_exists_for_wildcard: the name itself must be shown not to exist,
\* and the closest encloser the RRSIG's labels field implies must be the one
\* the denial establishes (NSEC: compared with the one derived from the
\* covering record; NSEC3: the record must cover the name one label below it)
WildCeOk(g, p) ==
  CASE "M_wild_ce_suffix" \in Mut -> p.ce >= g.ce     \* mutant: any deeper encloser will do
    [] "M_wild_ce_any" \in Mut -> TRUE                \* mutant: encloser not compared
    [] "M_wild_target" \in Mut -> p.ce + 1 = g.depth  \* mutant: the full name must be the next closer
    [] OTHER -> p.ce = g.ce
WildProven(g) == Usable("nx", TheSig(g).signer) /\ WildCeOk(g, Get(msg, "nx"))
WildLink(role) ==
  LET g == Get(msg, role) IN
  IF g.wild /\ St(role) = "Secure"
  THEN IF WildProven(g) THEN Down("nx", "Secure") ELSE "Bogus"
  ELSE St(role)
\* links followed before the final name (max_cname_dname)
LinkCount(m) == IF Has(m, "cname1") THEN (IF Has(m, "cname2") THEN 2 ELSE 1)
                ELSE IF Has(m, "dname") THEN 1 ELSE 0
MaxLinks == IF scn.cfg = "cname1" THEN 1 ELSE MaxCname
ChainState == LET a == IF Has(msg, "cname1") THEN WildLink("cname1") ELSE "Secure"
                  b == IF Has(msg, "cname2") /\ Has(msg, "cname1") THEN St("cname2")
                       ELSE "Secure"
                  \* do_cname_dname folds the state of every CNAME and DNAME it follows
                  c == IF Has(msg, "dname") THEN St("dname") ELSE "Secure"
              IN Meet(Meet(a, b), c)

NegKinds == {"nodata", "nxdomain", "nxdeep", "wcnodata"}
\* get_soa_state: a SOA whose owner does not enclose the name is passed over
SoaFits(m) == Get(m, "soa").zone \in Anc(QZone)
Negative(maybe) ==
  IF ~Has(msg, "soa") \/ ~SoaFits(msg) THEN "Bogus"
  ELSE IF St("soa") # "Secure" THEN St("soa")
  ELSE LET signer == TheSig(Get(msg, "soa")).signer IN
       IF scn.qk = "nxdeep"
       THEN IF Usable("nx", signer) /\
               (scn.denial # "nsec" => Usable("ce", signer) /\ Usable("wc", signer))
            THEN Meet(maybe, Down("nx", "Secure"))
            ELSE "Bogus"
       ELSE IF scn.qk = "nxdomain"
       THEN IF Usable("nx", signer) /\ Usable("wc", signer)
            THEN Meet(maybe, Meet(Down("nx", "Secure"), Down("wc", "Secure")))
            ELSE "Bogus"
       ELSE IF scn.qk = "wcnodata"
       THEN IF Usable("nx", signer) /\ Usable("wc", signer) /\
               (scn.denial # "nsec" => Usable("ce", signer))
            THEN Meet(maybe, Down("nx", "Secure"))
            ELSE "Bogus"
       ELSE IF Usable("nd", signer) THEN Meet(maybe, Down("nd", "Secure"))
       ELSE IF scn.qk = "ds" /\ Usable("nx", signer) /\ Get(msg, "nx").prf.optout
            THEN Down("nx", "Insecure")
       ELSE "Bogus"

BadLabelSeen == \E i \in 1..Len(msg) :
                   /\ msg[i].kind = "proof" /\ msg[i].prf.covers = "badlabel"
                   /\ gst[i] = "Secure"

Verdict ==
  IF IsLoop(msg) \/ LinkCount(msg) > MaxLinks THEN "Bogus"   \* more than max_cname_dname links
  ELSE
  LET maybe == ChainState
      extra == IF "D_extra_rrset_ignored" \in Dev \/ ~Has(msg, "inj") THEN "Secure"
               ELSE St("inj")
  IN IF maybe = "Bogus" THEN "Bogus"
     ELSE IF ChainOk /\ Has(msg, "ans") /\ (scn.qk \notin NegKinds \/ Get(msg, "ans").wild)
     THEN LET st == St("ans") g == Get(msg, "ans") IN
          IF st # "Secure" THEN Meet(st, extra)
          ELSE IF ~g.wild THEN Meet(maybe, extra)
          ELSE IF WildProven(g)
               THEN Meet(Meet(maybe, Down("nx", "Secure")), extra)
               ELSE "Bogus"
     ELSE Meet(Negative(maybe), extra)

Judge ==
  /\ pc = "group" /\ gi > Len(msg) /\ Step
  /\ IF BadLabelSeen /\ "D_nsec3_label_expect" \in Dev
     THEN Finish("panic") ELSE Finish(Verdict)
  /\ UNCHANGED <<late, shortz, run, hist, entp, scn, budget, advlog, pend, inbox, msg, gi, gst, walk, node, tkeys, dsd,
                 ttl0, probes, served, fetches>>

\* the same question is validated again on the same context: the node cache
\* (and, invisibly, the signature and NSEC3-hash caches) persists; the answer
\* and any fetch that is still needed may again be rewritten
\* Between two validations time may pass (tp: beyond the remaining life of the
\* "short" signatures - nodes built from them, and everything below, expire
\* and are fetched again) and the zones may be re-salted (rs: a new NSEC3 chain
\* over the same content and keys; the NSEC3-hash cache must not notice).
ExpiredAt == {z \in AllZones : Anc(z) \cap shortz # {}}
\* With "OtherQuestion" the next validation on the context may be of another
\* question (any query kind of the configuration): nodes, signature and
\* NSEC3-hash caches filled for one name serve the next.
NextQKinds == IF "OtherQuestion" \in AdvActs
              THEN {q \in QKinds : EntShape(scn.shape) => q \in EntQKinds} ELSE {scn.qk}
NextQuery ==
  /\ pc = "done" /\ run < MaxRuns /\ result # "panic"
  /\ \E tp \in BOOLEAN, rs \in BOOLEAN, q \in NextQKinds :
       /\ tp => ~late /\ "TimePasses" \in AdvActs
       /\ rs => scn.denial # "nsec" /\ "Resalt" \in AdvActs
       /\ hist' = Append(hist, [adv |-> advlog, result |-> result, tp |-> tp, rs |-> rs,
                                qk |-> scn.qk, nf |-> Len(fetches),
                                \* the leaf zone's node expires, the node of the
                                \* empty non-terminal above it stays cached
                                stale |-> tp /\ EntShape(scn.shape) /\ entp # "no"
                                         /\ "zone" \in ExpiredAt /\ "tld" \notin ExpiredAt])
       /\ late' = (late \/ tp)
       /\ scn' = [scn EXCEPT !.qk = q]
       /\ inbox' = HonestAnswer(scn.shape, scn.denial, q)
       /\ IF tp THEN /\ node' = [z \in AllZones |-> IF z \in ExpiredAt THEN "none" ELSE node[z]]
                     /\ tkeys' = [z \in AllZones |-> IF z \in ExpiredAt THEN {} ELSE tkeys[z]]
                     /\ shortz' = {}
          ELSE UNCHANGED <<node, tkeys, shortz>>
       \* (ideally the empty non-terminal is looked at again whenever the walk
       \* passes it; the code keeps its node as long as the parent zone's)
       /\ entp' = IF entp = "no" THEN "no"
                  ELSE IF tp /\ ("tld" \in ExpiredAt \/
                                 ("zone" \in ExpiredAt /\ "D_ent_node_as_signer" \notin Dev))
                  THEN "no" ELSE "cached"
  /\ run' = run + 1
  /\ advlog' = <<>> /\ budget' = Budget
  /\ pc' = "wire" /\ pend' = [t |-> "ANS", z |-> Leaf(scn.shape)]
  /\ msg' = <<>> /\ gi' = 1 /\ gst' = <<>> /\ walk' = <<>> /\ probes' = 0
  /\ result' = "none" /\ steps' = 0
  /\ UNCHANGED <<dsd, ttl0, served, fetches>>

Done == pc = "done" /\ (run = MaxRuns \/ result = "panic") /\ UNCHANGED vars

ValNext == Deliver \/ StartGroup \/ EntProbe \/ FetchNext \/ VerifyKey \/ VerifyDs \/ Probe
           \/ CheckGroup \/ Judge \/ NextQuery
Next == AdvNext \/ ValNext \/ Done
Spec == Init /\ [][Next]_vars /\ WF_vars(ValNext)

-----------------------------------------------------------------------------
(* The declarative oracle: RFC 4035 section 5 over the messages as served   *)

Served(t, z) == \E i \in 1..Len(served) : served[i].k = FKey(t, z)
\* the latest one: what the cached node was built from
ServedMsg(t, z) == served[CHOOSE i \in 1..Len(served) : served[i].k = FKey(t, z) /\
                             \A j \in 1..Len(served) : served[j].k = FKey(t, z) => j <= i].m

KeyRRsetOk(m, want) ==     \* want: the set of keys the anchor / the DS RRset commits to
  /\ Has(m, "ans") /\ Get(m, "ans").kind = "dnskey"
  /\ LET g == Get(m, "ans") IN
       \E k \in want : k \in g.rdata /\ \E s \in g.sigs : s.sg.key = k /\ SigValid(s, g, {k})

RECURSIVE ChainO(_), KeysO(_)
KeysO(z) == IF ChainO(z) = "Secure" THEN Get(ServedMsg("DNSKEY", z), "ans").rdata ELSE {}
ChainO(z) ==
  IF ~Anchored THEN "Indeterminate"
  ELSE IF z = AZ
  THEN IF Served("DNSKEY", z) /\ KeyRRsetOk(ServedMsg("DNSKEY", z), {Anchor})
       THEN "Secure" ELSE "Bogus"
  ELSE LET p == Parent(z) cp == ChainO(p) IN
       IF cp # "Secure" THEN cp
       ELSE IF z = "zone" /\ EntStops THEN "Insecure"   \* the ENT is inside an Opt-Out span
       ELSE IF ~Served("DS", z) THEN "Bogus"
       ELSE LET m == ServedMsg("DS", z) kp == KeysO(p) IN
            IF Has(m, "ans") /\ Get(m, "ans").kind = "ds"
            THEN LET g == Get(m, "ans") IN
                 IF /\ \E s \in g.sigs : s.signer = p /\ SigValid(s, g, kp)
                    /\ Served("DNSKEY", z) /\ KeyRRsetOk(ServedMsg("DNSKEY", z), g.rdata)
                 THEN "Secure" ELSE "Bogus"
            ELSE IF \/ Has(m, "nd") /\ ProofGood(Get(m, "nd"), p, kp)
                    \/ Has(m, "nx") /\ ProofGood(Get(m, "nx"), p, kp) /\ Get(m, "nx").prf.optout
                 THEN (IF IterBog THEN "Bogus" ELSE "Insecure") ELSE "Bogus"

\* security status of one RRset (RFC 4035 5.3, 4.3)
RRsetO(g) ==
  IF g.sigs = {}
  THEN LET c == ChainO(g.zone) IN
       IF c = "Secure" THEN (IF OptOutSpan(g) THEN "Insecure" ELSE "Bogus") ELSE c
  ELSE LET s == TheSig(g) c == ChainO(s.signer) IN
       IF c # "Secure" THEN c
       ELSE IF s.signer \in Anc(g.zone) /\ SigValid(s, g, KeysO(s.signer))
            THEN "Secure" ELSE "Bogus"

RECURSIVE MeetAll(_, _)
MeetAll(m, i) == IF i > Len(m) THEN "Secure" ELSE Meet(RRsetO(m[i]), MeetAll(m, i + 1))

PrfOk(m, role) == Has(m, role) /\ Get(m, role).prf.covers = "ok" /\ RRsetO(Get(m, role)) = "Secure"
OptOut(m, role) == Has(m, role) /\ Get(m, role).prf.optout

\* RFC 4035 5.3.4, RFC 4592 3.3.1, RFC 5155 8.8: an RRset expanded from a
\* wildcard is authenticated only together with the proof that no closer match
\* exists - a valid denial of the name whose closest encloser is the wildcard's
\* parent (a deeper one: an existing name lies in between and the wildcard
\* does not apply)
WildOk(m) == \A i \in 1..Len(m) :
                m[i].wild /\ RRsetO(m[i]) = "Secure" =>
                   PrfOk(m, "nx") /\ Get(m, "nx").ce = m[i].ce
\* is the answer complete for the question (RFC 4035 5.4, RFC 5155 8.4-8.8)?
HasSoa(m) == Has(m, "soa") /\ SoaFits(m)
Complete(m) ==
  IF IsLoop(m) THEN TRUE
  ELSE IF ~WildOk(m) THEN FALSE
  ELSE
  CASE scn.qk \in {"positive", "cname1", "cname2", "dname", "dnamex"} ->
         /\ Has(m, "ans")
         /\ scn.qk \in {"dname", "dnamex"} => Has(m, "dname")
         /\ scn.qk \in {"cname1", "cname2"} => Has(m, "cname1")
         /\ scn.qk = "cname2" => Has(m, "cname2")
    [] scn.qk \in {"wildcard", "wilddeep", "wildsub"} ->
         Has(m, "ans") /\ (ChainO(QZone) = "Secure" => PrfOk(m, "nx"))
    [] scn.qk = "wcname" ->
         Has(m, "ans") /\ Has(m, "cname1") /\ (ChainO(QZone) = "Secure" => PrfOk(m, "nx"))
    [] scn.qk = "wcnodata" -> HasSoa(m) /\
         (ChainO(QZone) = "Secure" =>
             PrfOk(m, "nx") /\ PrfOk(m, "wc") /\ (scn.denial # "nsec" => PrfOk(m, "ce")))
    [] scn.qk = "nodata" -> HasSoa(m) /\ (ChainO(QZone) = "Secure" => PrfOk(m, "nd"))
    [] scn.qk = "nxdomain" -> HasSoa(m) /\
         (ChainO(QZone) = "Secure" => PrfOk(m, "nx") /\ PrfOk(m, "wc"))
    [] scn.qk = "nxdeep" -> HasSoa(m) /\
         (ChainO(QZone) = "Secure" =>
             PrfOk(m, "nx") /\ (scn.denial # "nsec" => PrfOk(m, "ce") /\ PrfOk(m, "wc")))
    [] scn.qk = "ds" -> \/ Has(m, "ans")
                        \/ HasSoa(m) /\ (PrfOk(m, "nd") \/ (PrfOk(m, "nx") /\ OptOut(m, "nx")))

\* RFC 5155 9.2: an opt-out NSEC3 covering the next closer name => not authenticated
OptOutUsed(m) ==
  \/ scn.qk \in (WildKinds \cup {"nxdomain", "nxdeep"}) /\ (OptOut(m, "nx") \/ OptOut(m, "wc"))
  \/ scn.qk = "ds" /\ ~Has(m, "ans") /\ ~Has(m, "nd") /\ OptOut(m, "nx")

\* the answer rests on a denial proof (of a zone with NSEC3 when the iteration
\* limits of the configuration matter)
ProofUsed(m) == \/ scn.qk \in (WildKinds \cup NegKinds)
                \/ scn.qk = "ds" /\ ~Has(m, "ans")
AnswerO(m) ==
  IF ~Complete(m)
  THEN IF ChainO(QZone) = "Secure" THEN "Bogus" ELSE ChainO(QZone)
  ELSE LET all == MeetAll(m, 1) IN
       \* documented limits of the configuration: max_cname_dname, NSEC3 iterations
       IF LinkCount(m) > MaxLinks THEN "Bogus"
       ELSE IF all = "Secure" /\ ProofUsed(m) /\ IterBog THEN "Bogus"
       ELSE IF all = "Secure" /\ (OptOutUsed(m) \/ (ProofUsed(m) /\ IterIns)) THEN "Insecure"
       ELSE all

Oracle == AnswerO(msg)
NoInj(m) == SelectSeq(m, LAMBDA g : g.role # "inj")

\* what the property admits for this scenario (DESIGN section 7: a set)
\* rewrites that must not change anything: failing extra signatures within
\* the validator's documented tolerance
Harmless == {"AddBadSig1First", "AddBadSig1Last", "SigsFirst", "Duplicate"} \cup
            (IF MaxBad = 2 THEN {"AddBadSig2First", "AddBadSig2Last"} ELSE {})
BenignLog(log) ==
  \/ \A i \in 1..Len(log) : log[i].act \in Harmless
  \/ ~late /\ \A i \in 1..Len(log) : log[i].act = "ShortSig"
  \/ Len(log) = 1 /\ log[1].act \in {"AddCollidingKeyFirst", "AddCollidingKeyLast",
                                         "AddExtraDsFirst", "AddExtraDsLast"}
\* (over all runs on this context: earlier runs' nodes are cached, and a second
\* key with the same tag uses up the tolerance for one failed verification)
RECURSIVE AllLog(_)
AllLog(i) == IF i > Len(hist) THEN advlog ELSE hist[i].adv \o AllLog(i + 1)
\* honest signatures with little time left, served before time passed (later
\* runs get fresh ones): nothing an adversary did
Logs == [i \in 1..Len(hist) |-> hist[i].adv] \o <<advlog>>
LateBefore(r) == \E i \in 1..(r - 1) : hist[i].tp
AllShortEarly == \A r \in 1..Len(Logs) : \A j \in 1..Len(Logs[r]) :
                    Logs[r][j].act = "ShortSig" /\ ~LateBefore(r)
Benign == BenignLog(AllLog(1)) \/ AllShortEarly
\* (RFC 4035 4.3 calls data without a trust anchor above it Indeterminate; the
\* property only demands that it is not reported secure.  With the iteration
\* limit for "insecure" exceeded any signed NSEC3 may end the validation as
\* Insecure.)
Allowed ==
  (IF Oracle = "Indeterminate" THEN {"Indeterminate", "Insecure"} ELSE {Oracle})
  \cup (IF Benign THEN {} ELSE {"Bogus"})
  \cup (IF ~Benign /\ IterIns /\ Oracle # "Secure" THEN {"Insecure"} ELSE {})

-----------------------------------------------------------------------------
(* Properties *)

Finished == pc = "done"
SecureShape == LeafSecure(scn.shape)
OptOutCase == scn.denial = "optout" /\ scn.qk \in (WildKinds \cup {"nxdomain", "nxdeep"})
\* configured limits that (as documented) keep an honest answer from being Secure
CfgLimited == \/ LinkCount(msg) > MaxLinks
              \/ (IterIns \/ IterBog) /\ (ProofUsed(msg) \/ ~SecureShape)

\* Caches are transparent: when the chain was fetched without interference in
\* the earlier runs, a later verdict is the one this answer gets on a fresh
\* context (the oracle's); with interference it is the verdict for the answer
\* under the chain as it was served when the nodes were cached (Allowed is
\* computed from exactly that).
CacheTransparent ==
  Finished /\ run > 1 /\ (\A i \in 1..Len(hist) : \A j \in 1..Len(hist[i].adv) :
                               hist[i].adv[j].t = "ANS")
     => result \in Allowed /\ (advlog = <<>> /\ ~OptOutCase /\ LeafSecure(scn.shape)
                               /\ scn.qk # "dnamex" /\ Anchored /\ ~CfgLimited => result = "Secure")
Soundness == Finished /\ result = "Secure" => Oracle = "Secure"
HonestSecure == Finished /\ Benign /\ SecureShape /\ ~OptOutCase /\ scn.qk # "dnamex"
                   /\ Anchored /\ ~CfgLimited
                   => result = "Secure"
InsecureNotBogus ==
  Finished /\ Benign /\ ((~SecureShape /\ scn.qk # "ds") \/ scn.qk = "dnamex")
     /\ Anchored /\ ~IterBog /\ LinkCount(msg) <= MaxLinks
     => result = "Insecure"
\* without a trust anchor above the name nothing is secure; the honest answer
\* is Indeterminate
NoAnchorNotSecure == Finished /\ ~Anchored => result # "Secure" /\ (Benign => result = "Indeterminate")
\* the documented limits of the configuration are enforced
LimitsEnforced == Finished /\ Benign /\ Anchored /\ SecureShape /\ CfgLimited => result # "Secure"
WithinAllowed == Finished => result \in Allowed
NoPanic == result # "panic"
MaxSteps == 80
Terminates == steps <= MaxSteps
Termination == <>(pc = "done" /\ (run = MaxRuns \/ result = "panic"))
=============================================================================
