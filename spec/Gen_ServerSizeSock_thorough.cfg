CONSTANTS
  Dev = {}
  CSizes = {70000, 0, 512, 1232, 4096}
  Hints = {70000, 512, 1232, 4096}
  Lens = {100, 513, 1233, 5000}
  OptLens = {0, 11, 300}
  ROpts = {"none"}
  Recipes = {"plain", "rewind", "filllimit", "fill64k", "optfail"}
  Routes = {"mk"}
  ALays = {"none", "both"}
  Tgts = {"vec"}
  SvcRoutes = {"impl"}
  EOns = {TRUE}
  QLens = {17}
SPECIFICATION Spec
INVARIANT EmitSock
CHECK_DEADLOCK FALSE
