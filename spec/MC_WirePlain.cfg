CONSTANTS
  Dev = {}
  Big = FALSE
SPECIFICATION Spec
INVARIANT PlainIsUncompressed
INVARIANT PlainImpliesSkip
INVARIANT PlainRecordAgrees
INVARIANT NewRuleStricterP
CHECK_DEADLOCK FALSE
