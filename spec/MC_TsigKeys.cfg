CONSTANTS
  Dev = {}
  Grid = "full"
  PresentAll = FALSE
  MaxLabels = 3
SPECIFICATION Spec
INVARIANT AdmittedPerRfc
INVARIANT SignsWithSigningLen
INVARIANT NoShortMacAccepted
INVARIANT DecisionPerPolicy
INVARIANT NamesPerRfc
INVARIANT NamesRoundTrip
CHECK_DEADLOCK FALSE
