CONSTANTS
  MapDevs = {}
  Dev = {}
  MaxEntries = 2
SPECIFICATION Spec
VIEW View
INVARIANT Metamorphic
INVARIANT ReaderContextAgrees
CHECK_DEADLOCK FALSE
