CONSTANTS
  Keys <- TKeys
  KType <- MCKType
  KAlg <- MCKAlg
  MaxTTL = 3
  Dev = {}
SPECIFICATION TSpec
INVARIANT TExclusive
INVARIANT TShape
PROPERTY Ordered
POSTCONDITION Accepted
CHECK_DEADLOCK FALSE
