CONSTANTS
  Dev = {"D_remove_first_is_last"}
  MaxOps = 2
SPECIFICATION Spec
INVARIANT Canonical
INVARIANT SetSemantics
CHECK_DEADLOCK FALSE
