CONSTANTS
  Dev = {"D_update_data_in_place"}
  MaxRecs = 3
  MaxEdits = 1
  EditRecs = 3
  EditAnywhere = FALSE
  Mutant = FALSE
SPECIFICATION Spec
INVARIANT HandedIsSignedData
CHECK_DEADLOCK FALSE
