CONSTANTS
  Dev = {}
  CSizes = {70000, 0, 511, 512, 513, 1232, 4096, 65535}
  Hints = {70000, 512, 1232, 4096}
  Lens = {100, 511, 512, 513, 700, 1233, 5000}
  OptLens = {0, 11, 300}
  ROpts = {"none", "keepalive", "padding", "cookie", "nsid", "unknown", "several"}
  Recipes = {"plain"}
  Routes = {"mk"}
  ALays = {"none"}
  Tgts = {"vec"}
  SvcRoutes = {"impl"}
  EOns = {TRUE}
  QLens = {17, 259}
SPECIFICATION Spec
INVARIANT UdpSize
INVARIANT TcIffDropped
INVARIANT StillParses
INVARIANT StreamFramed
INVARIANT NegotiateLaws
INVARIANT Emit
CHECK_DEADLOCK FALSE
