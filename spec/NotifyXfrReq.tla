---------------------------- MODULE NotifyXfrReq ----------------------------
(***************************************************************************)
(* X05 -- server-side NOTIFY and XFR *request handling*                    *)
(* (src/net/server/middleware/notify.rs, .../middleware/xfr/service.rs,    *)
(* responder.rs, axfr.rs, ixfr.rs, data_provider.rs; RFC 1996, RFC 5936,   *)
(* RFC 1995).  The stack is Notify( Xfr( next service ) ); the request's   *)
(* metadata stands for the TSIG key a preceding TSIG layer attached.       *)
(* The *content* of transfers as seen by a receiver is C10 (Xfr.tla); this *)
(* module is the decision procedure: who answers, with which RCODE and     *)
(* flags, what the callbacks saw, how the record stream is cut into        *)
(* messages (BatcherFn), what passes through untouched.                    *)
(*                                                                         *)
(* PROPERTIES (for every request of the grid, every configuration):        *)
(*  P1 NotifyGate.  The Notifiable callback runs only for a NOTIFY         *)
(*     *request* (opcode NOTIFY, QR = 0) whose first question has QTYPE    *)
(*     SOA; at most once, with that question's class and name and the      *)
(*     serial of a SOA leading the answer section (else none), and before  *)
(*     any response exists.  The response is NOERROR with QR AA, opcode    *)
(*     NOTIFY, the request's id and question (RFC 1996 4.7) iff the        *)
(*     callback accepted; NOTAUTH iff it said "not authoritative";         *)
(*     SERVFAIL otherwise; it never comes from the inner services.         *)
(*  P2 Transparent.  Every other message -- NOTIFY responses (QR = 1),     *)
(*     NOTIFY for other QTYPEs, other opcodes, QUERY with QR = 1, with     *)
(*     QDCOUNT # 1 or another QTYPE -- reaches the next service exactly    *)
(*     once and unchanged (octets, transport, reserved octets, metadata),  *)
(*     its response is returned unchanged, and neither the callback nor    *)
(*     the data provider is consulted.  No request makes the stack fail    *)
(*     (panic, hang).                                                      *)
(*  P3 XfrGate.  Answer records leave the server only after the data       *)
(*     provider was asked exactly once, with this request and its key, and *)
(*     agreed; its refusals map to REFUSED / NOTAUTH / SERVFAIL / FORMERR  *)
(*     with an empty answer section; an IXFR request without a SOA in the  *)
(*     authority section is FORMERR without asking; AXFR over UDP never    *)
(*     carries answer records (NOTIMP, RFC 5936 4.2).                      *)
(*  P4 XfrShape.  A granted transfer: over UDP exactly one message -- the  *)
(*     whole IXFR response if it fits the size limit, else the lone        *)
(*     current SOA (RFC 1995 2); over TCP BeginTransaction, >= 1 messages, *)
(*     EndTransaction.  First and last record are the current SOA (RFC     *)
(*     5936 2.2, RFC 1995 4); an IXFR from the current or a newer serial   *)
(*     is answered by the lone current SOA; from a known older serial by   *)
(*     the difference sequences oldest first; otherwise by the full zone.  *)
(*     Messages are THE greedy partition of the record stream (BatcherFn): *)
(*     none empty, none above the limit, one record each in compatibility  *)
(*     mode, header per RFC 5936 2.2.1 (QR AA, no TC, id and question of   *)
(*     the request).                                                       *)
(*                                                                         *)
(* Deviations (known findings; Dev = {} is the specified behaviour):       *)
(*  D_notify_qr_ignored, D_notify_malformed_panic, D_xfr_pass_drops_meta,  *)
(*  D_ixfr_uptodate_full_zone, D_ixfr_udp_extra_servfail,                  *)
(*  D_axfr_async_walk_panic, D_axfr_soa_diffs_unreachable.                 *)
(* (The eighth, D_xfr_permits_not_held, lives in NotifyXfrReqConc.tla.)    *)
(***************************************************************************)
EXTENDS BatcherFn

CONSTANTS Dev        \* set of open deviations switched on

AllDevs == {"D_notify_qr_ignored", "D_notify_malformed_panic", "D_xfr_pass_drops_meta",
            "D_ixfr_uptodate_full_zone", "D_ixfr_udp_extra_servfail",
            "D_axfr_async_walk_panic", "D_axfr_soa_diffs_unreachable"}

-----------------------------------------------------------------------------
(* Sizes (octets), as the harness builds them *)
Fixed == 25          \* header 12 + question example. (9 + 4)
SoaSize == 62        \* owner 9 + 10 + rdata 43
ChanCap == 100       \* capacity of the funneler -> batcher channel

(* Requests.                                                               *)
(*  op  opcode; qr; qd QDCOUNT (a 2nd question is second.example. A IN);   *)
(*  qt/qc/zn first question: type, class, name ("known" = apex of the      *)
(*      served zone, "deep" = a name inside it, "unknown" = in no zone);   *)
(*  udp, hint (0 = none), rsv: transport, response size hint, reserved;    *)
(*  an  answer section: "none" | "soa" (a SOA, serial "hint") | "a" |      *)
(*      "trunc" (ANCOUNT 1, no octets);                                    *)
(*      (a request with an = "trunc" has ns = "none")                      *)
(*  ns  authority section: "none" | "a" | a SOA whose serial is "old",     *)
(*      "mid" (difference sequences old->mid->cur exist), "gap" (older,    *)
(*      no differences kept), "cur", "new";                                *)
(*  key the TSIG key in the metadata: "none" | "good" | "bad".             *)
SoaTags == {"old", "mid", "gap", "cur", "new"}

(* Configuration.                                                          *)
(*  needKey, avail: the provider's policy / state; broken: the notify      *)
(*  target fails; compat: RFC 5936 7 compatibility mode; store: "sync" |   *)
(*  "async" zone store; K data records of size R in the zone; d1, d2: the  *)
(*  difference sequences old->mid, mid->cur as [rem, add] record counts.   *)

Limit(r) == (IF r.udp THEN (IF r.hint = 0 THEN 512 ELSE r.hint) ELSE 65535) - r.rsv

-----------------------------------------------------------------------------
(* Outcome vocabulary *)
Fb(x) == [k |-> "fb", v |-> x]
\* hdr "ok": QR set, TC and RA clear, the request's id; q "all": the request's question section
Msg(rc, aa, op, an) == [k |-> "msg", rc |-> rc, aa |-> aa, op |-> op, hdr |-> "ok", q |-> "all", an |-> an, nsc |-> 0]
Panic == [k |-> "panic"]
OpNum(op) == CASE op = "QUERY" -> 0 [] op = "NOTIFY" -> 4 [] op = "UPDATE" -> 5 [] OTHER -> 2
ErrMsg(r, rc) == Msg(rc, FALSE, OpNum(r.op), <<>>)
\* messages are filtered of transaction feedback on UDP (a single datagram)
Out(cb, pv, nx, rs) == [cb |-> cb, pv |-> pv, nx |-> nx, rs |-> rs]

S(tag) == "S:" \o tag
T == "T"
RecSize(c, x) == IF x = T THEN c.R ELSE SoaSize

RECURSIVE Rep(_, _)
Rep(x, n) == IF n <= 0 THEN <<>> ELSE <<x>> \o Rep(x, n - 1)

RECURSIVE Cut(_, _)
\* cut the record sequence into consecutive pieces of the given lengths
Cut(recs, lens) == IF lens = <<>> THEN <<>>
                   ELSE <<SubSeq(recs, 1, Head(lens))>> \o
                        Cut(SubSeq(recs, Head(lens) + 1, Len(recs)), Tail(lens))

-----------------------------------------------------------------------------
(* The next (application) service: sees the request, answers NOERROR + 1 A *)
NextOut(r, D) ==
  Out(<<>>, <<>>,
      <<[meta |-> IF "D_xfr_pass_drops_meta" \in D THEN "none" ELSE r.key]>>,
      <<Msg(0, FALSE, OpNum(r.op), <<"A">>)>>)

-----------------------------------------------------------------------------
(* NotifyMiddlewareSvc *)

\* get_relevant_question (+ RFC 1996 4.7 "QR=0")
NotifyRelevant(r, D) ==
  /\ r.op = "NOTIFY" /\ r.qd >= 1 /\ r.qt = "SOA"
  /\ (~r.qr \/ "D_notify_qr_ignored" \in D)

\* what the Notifiable is told: class, zone name, serial hint
CbEntry(r) == [c |-> r.qc, n |-> r.zn, s |-> IF r.an = "soa" THEN "hint" ELSE "none"]
\* the mock target: secondary for (IN, known zone) only
CbResult(c, r) == IF c.broken THEN "other"
                  ELSE IF r.qc = "IN" /\ r.zn = "known" THEN "ok" ELSE "notauth"

CopiedAn(r) == CASE r.an = "soa" -> <<S("hint")>> [] r.an = "a" -> <<"A">> [] OTHER -> <<>>

\* The sections behind the question cannot be read (ANCOUNT without data).
\* The specification: refuse with FORMERR before telling anybody.
NotifyOut(c, r, D) ==
  IF r.an = "trunc" /\ "D_notify_malformed_panic" \notin D
  THEN Out(<<>>, <<>>, <<>>, <<ErrMsg(r, 1)>>)
  ELSE LET res == CbResult(c, r) IN
       Out(<<CbEntry(r)>>, <<>>, <<>>,
           CASE res = "ok" -> IF r.an = "trunc" THEN <<Panic>>
                              ELSE <<[Msg(0, TRUE, 4, CopiedAn(r)) EXCEPT !.nsc = IF r.ns = "none" THEN 0 ELSE 1]>>
             [] res = "notauth" -> <<ErrMsg(r, 9)>>
             [] OTHER -> <<ErrMsg(r, 2)>>)

\* alternatives the specification also admits for the unreadable NOTIFY:
\* the target is told and the reply is built from the readable part
NotifyAlts(c, r) ==
  IF r.an # "trunc" THEN <<>>
  ELSE LET res == CbResult(c, r) IN
       <<Out(<<CbEntry(r)>>, <<>>, <<>>,
             CASE res = "ok" -> <<Msg(0, TRUE, 4, <<>>)>>
               [] res = "notauth" -> <<ErrMsg(r, 9)>>
               [] OTHER -> <<ErrMsg(r, 2)>>)>>

-----------------------------------------------------------------------------
(* XfrMiddlewareSvc *)

XfrRelevant(r) == r.op = "QUERY" /\ ~r.qr /\ r.qd = 1 /\ r.qt \in {"AXFR", "IXFR"}

SerialTag(r) == IF r.ns \in SoaTags THEN r.ns ELSE "none"

\* the provider log: what the XfrDataProvider was asked (the diff_from of an
\* AXFR request is not compared)
PvEntry(r) == [qt |-> r.qt, from |-> IF r.qt = "IXFR" THEN SerialTag(r) ELSE "-", key |-> r.key]

\* the mock provider: key policy, then zone selection (ZoneTree::find_zone:
\* longest match by name within the class), then availability
ProviderResult(c, r) ==
  IF c.needKey /\ r.key # "good" THEN "refused"
  ELSE IF r.qc # "IN" \/ r.zn = "unknown" THEN "unknown"
  ELSE IF ~c.avail THEN "unavail"
  ELSE "ok"
ProviderRcode(res) == CASE res = "refused" -> 5 [] res = "unknown" -> 9 [] OTHER -> 2

\* the difference sequences the provider returns for diff_from
DiffsFrom(c, tag) == CASE tag = "old" -> <<[s |-> "old", e |-> "mid", d |-> c.d1], [s |-> "mid", e |-> "cur", d |-> c.d2]>>
                       [] tag = "mid" -> <<[s |-> "mid", e |-> "cur", d |-> c.d2]>>
                       [] OTHER -> <<>>

\* record streams fed to the batcher
AxfrRecs(c) == <<S("cur")>> \o Rep(T, c.K) \o <<S("cur")>>
RECURSIVE DiffRecs(_)
DiffRecs(ds) == IF ds = <<>> THEN <<>>
                ELSE <<S(Head(ds).s)>> \o Rep(T, Head(ds).d.rem) \o
                     <<S(Head(ds).e)>> \o Rep(T, Head(ds).d.add) \o DiffRecs(Tail(ds))
IxfrRecs(ds) == <<S("cur")>> \o DiffRecs(ds) \o <<S("cur")>>

DataMsgs(r, recs, lens) == LET cut == Cut(recs, lens)
                           IN [j \in 1 .. Len(cut) |-> Msg(0, TRUE, 0, cut[j])]
SoaOnly(r) == Msg(0, TRUE, 0, <<S("cur")>>)

\* BatchingRrResponder::run over the records `recs`; `lateErr`: the funneler
\* was still sending when the responder gave up and adds its own SERVFAIL
Respond(c, r, recs, rr, lateErr) ==
  LET p == Params(Fixed, Limit(r), rr, r.udp)
      pk == PackAll([j \in 1 .. Len(recs) |-> RecSize(c, recs[j])], p)
      pre == IF r.udp THEN <<>> ELSE <<Fb("begin")>>
      end == IF r.udp THEN <<>> ELSE <<Fb("end")>>
      late == IF lateErr THEN <<ErrMsg(r, 2)>> ELSE <<>>
  IN CASE pk.res = "ok" -> pre \o DataMsgs(r, recs, pk.lens) \o end
       [] pk.res = "mustfit" -> pre \o <<SoaOnly(r)>> \o end \o late
       [] OTHER -> pre \o DataMsgs(r, recs, pk.lens) \o <<ErrMsg(r, 2)>> \o late

XfrOut(c, r, D) ==
  LET tag == SerialTag(r) IN
  IF r.qt = "IXFR" /\ tag = "none" THEN Out(<<>>, <<>>, <<>>, <<ErrMsg(r, 1)>>)
  ELSE
  LET pres == ProviderResult(c, r)
      pv == <<PvEntry(r)>>
      ds == IF r.qt = "IXFR" \/ "D_axfr_soa_diffs_unreachable" \in D THEN DiffsFrom(c, tag) ELSE <<>>
      async == c.store = "async" /\ "D_axfr_async_walk_panic" \in D /\ c.K > 0
      axfr == IF r.zn = "deep" THEN <<ErrMsg(r, 2)>>      \* the name has no SOA: "zone lacks SOA RR"
              ELSE Respond(c, r, IF async THEN <<S("cur")>> ELSE AxfrRecs(c),
                           IF c.compat THEN 1 ELSE 0, FALSE)
  IN IF pres # "ok" THEN Out(<<>>, pv, <<>>, <<ErrMsg(r, ProviderRcode(pres))>>)
     ELSE IF r.qt = "AXFR" /\ r.udp THEN Out(<<>>, pv, <<>>, <<ErrMsg(r, 4)>>)
     ELSE IF r.qt = "AXFR" THEN
          IF ds # <<>> THEN Out(<<>>, pv, <<>>, <<Panic>>) ELSE Out(<<>>, pv, <<>>, axfr)
     ELSE \* IXFR
          IF r.zn = "deep" THEN Out(<<>>, pv, <<>>, <<ErrMsg(r, 2)>>)
          ELSE IF tag \in {"cur", "new"} /\ "D_ixfr_uptodate_full_zone" \notin D
               THEN Out(<<>>, pv, <<>>, <<SoaOnly(r)>>)
          ELSE IF ds = <<>> THEN Out(<<>>, pv, <<>>, axfr)
          ELSE LET recs == IxfrRecs(ds)
                   \* as built the diff funneler reports its failed send with a SERVFAIL of
                   \* its own if it is still sending when the responder gives up: certain
                   \* once the stream exceeds the channel, a matter of task scheduling
                   \* below that ("late_any": used by the trace validator only)
                   late == \/ "D_ixfr_udp_extra_servfail" \in D /\ Len(recs) > ChanCap
                           \/ "late_any" \in D
               IN Out(<<>>, pv, <<>>, Respond(c, r, recs, 0, late))

-----------------------------------------------------------------------------
(* The stack *)
DecideD(c, r, D) ==
  IF NotifyRelevant(r, D) THEN NotifyOut(c, r, D)
  ELSE IF XfrRelevant(r) THEN XfrOut(c, r, D)
  ELSE NextOut(r, D)
Decide(c, r) == DecideD(c, r, Dev)

Handler(r, D) == IF NotifyRelevant(r, D) THEN "notify" ELSE IF XfrRelevant(r) THEN "xfr" ELSE "next"

-----------------------------------------------------------------------------
(* The machine: one action per step of Service::call of the two layers *)
VARIABLES cfg, req,
          phase,    \* "idle" | "n-pre" | "n-cb" | "x-pre" | "x-acl" | "x-resp" | "next" | "done"
          cb, pv, nx, rs     \* the logs of the request in progress
vars == <<cfg, req, phase, cb, pv, nx, rs>>

NoReq == [op |-> "-"]
NoCfg == [store |-> "-"]
Init == /\ cfg = NoCfg /\ req = NoReq /\ phase = "idle"
        /\ cb = <<>> /\ pv = <<>> /\ nx = <<>> /\ rs = <<>>

Recv(c, r) == /\ phase = "idle" /\ cfg' = c /\ req' = r /\ phase' = "n-pre"
              /\ cb' = <<>> /\ pv' = <<>> /\ nx' = <<>> /\ rs' = <<>>

\* NotifyMiddlewareSvc::preprocess up to the callback
NotifyPre ==
  /\ phase = "n-pre"
  /\ IF NotifyRelevant(req, Dev)
     THEN IF req.an = "trunc" /\ "D_notify_malformed_panic" \notin Dev
          THEN /\ rs' = <<ErrMsg(req, 1)>> /\ phase' = "done" /\ UNCHANGED cb
          ELSE /\ cb' = <<CbEntry(req)>> /\ phase' = "n-cb" /\ UNCHANGED rs    \* notify_zone_changed(..).await
     ELSE /\ phase' = "x-pre" /\ UNCHANGED <<cb, rs>>
  /\ UNCHANGED <<cfg, req, pv, nx>>
\* ... the callback returned: build the response
NotifyReply ==
  /\ phase = "n-cb"
  /\ rs' = NotifyOut(cfg, req, Dev).rs
  /\ phase' = "done"
  /\ UNCHANGED <<cfg, req, cb, pv, nx>>
\* XfrMiddlewareSvc::preprocess: get_relevant_question, IXFR serial
XfrPre ==
  /\ phase = "x-pre"
  /\ IF ~XfrRelevant(req) THEN phase' = "next" /\ UNCHANGED rs
     ELSE IF req.qt = "IXFR" /\ SerialTag(req) = "none"
          THEN rs' = <<ErrMsg(req, 1)>> /\ phase' = "done"
          ELSE phase' = "x-acl" /\ UNCHANGED rs
  /\ UNCHANGED <<cfg, req, cb, pv, nx>>
\* xfr_data_provider.request(req, serial).await
XfrAcl ==
  /\ phase = "x-acl"
  /\ pv' = <<PvEntry(req)>>
  /\ IF ProviderResult(cfg, req) = "ok" THEN phase' = "x-resp" /\ UNCHANGED rs
     ELSE rs' = <<ErrMsg(req, ProviderRcode(ProviderResult(cfg, req)))>> /\ phase' = "done"
  /\ UNCHANGED <<cfg, req, cb, nx>>
\* read_soa + respond_to_{axfr,ixfr}_query + the responder tasks
XfrRespond ==
  /\ phase = "x-resp"
  /\ rs' = XfrOut(cfg, req, Dev).rs
  /\ phase' = "done"
  /\ UNCHANGED <<cfg, req, cb, pv, nx>>
\* next_svc.call(request)
Next ==
  /\ phase = "next"
  /\ nx' = NextOut(req, Dev).nx /\ rs' = NextOut(req, Dev).rs
  /\ phase' = "done"
  /\ UNCHANGED <<cfg, req, cb, pv>>
Done == /\ phase = "done" /\ phase' = "idle" /\ req' = NoReq /\ cfg' = NoCfg
        /\ cb' = <<>> /\ pv' = <<>> /\ nx' = <<>> /\ rs' = <<>>

-----------------------------------------------------------------------------
(* Properties *)
Msgs(s) == SelectSeq(s, LAMBDA x : x.k = "msg")
Fbs(s) == SelectSeq(s, LAMBDA x : x.k = "fb")
HasData(s) == \E j \in 1 .. Len(s) : s[j].k = "msg" /\ s[j].an # <<>>
AtDone == phase = "done"
IsNotifyReq(r) == r.op = "NOTIFY" /\ ~r.qr /\ r.qd >= 1 /\ r.qt = "SOA"
IsXfrReq(r) == r.op = "QUERY" /\ ~r.qr /\ r.qd = 1 /\ r.qt \in {"AXFR", "IXFR"}

\* the machine and the function agree (the function is what the bindings use)
MachineIsFunction == AtDone => Out(cb, pv, nx, rs) = Decide(cfg, req)

P1_NotifyGate ==
  /\ Len(cb) <= 1
  /\ (cb # <<>> => IsNotifyReq(req) /\ cb[1] = CbEntry(req))
  \* the response exists only after the callback (or without one)
  /\ (phase = "n-cb" => rs = <<>>)
  /\ (AtDone /\ IsNotifyReq(req)) =>
        /\ nx = <<>> /\ pv = <<>> /\ Len(rs) = 1 /\ rs[1].k = "msg" /\ rs[1].op = 4
        /\ IF cb = <<>> THEN rs[1].rc = 1 /\ req.an = "trunc"
           ELSE /\ rs[1].rc = (CASE CbResult(cfg, req) = "ok" -> 0
                                 [] CbResult(cfg, req) = "notauth" -> 9 [] OTHER -> 2)
                /\ rs[1].aa = (rs[1].rc = 0)
                /\ (rs[1].rc # 0 => rs[1].an = <<>>)

P2_Transparent ==
  AtDone =>
    /\ \A j \in 1 .. Len(rs) : rs[j].k # "panic"
    /\ (~IsNotifyReq(req) /\ ~IsXfrReq(req)) =>
          /\ cb = <<>> /\ pv = <<>>
          /\ nx = <<[meta |-> req.key]>>
          /\ rs = <<Msg(0, FALSE, OpNum(req.op), <<"A">>)>>
    /\ (IsNotifyReq(req) \/ IsXfrReq(req)) => nx = <<>>

P3_XfrGate ==
  AtDone =>
    /\ Len(pv) <= 1
    /\ (pv # <<>> => IsXfrReq(req) /\ pv[1].key = req.key /\ pv[1].qt = req.qt)
    /\ HasData(rs) /\ IsXfrReq(req) => (pv # <<>> /\ ProviderResult(cfg, req) = "ok")
    /\ IsXfrReq(req) =>
         /\ (req.qt = "IXFR" /\ SerialTag(req) = "none") => (pv = <<>> /\ rs = <<ErrMsg(req, 1)>>)
         /\ (cfg.needKey /\ req.key # "good" /\ ~(req.qt = "IXFR" /\ SerialTag(req) = "none"))
               => rs = <<ErrMsg(req, 5)>>
         /\ (pv # <<>> /\ ProviderResult(cfg, req) # "ok")
               => rs = <<ErrMsg(req, ProviderRcode(ProviderResult(cfg, req)))>>
         /\ (req.qt = "AXFR" /\ req.udp) => ~HasData(rs)

Granted(c, r) == IsXfrReq(r) /\ ProviderResult(c, r) = "ok" /\ r.zn = "known"
                 /\ ~(r.qt = "IXFR" /\ SerialTag(r) = "none") /\ ~(r.qt = "AXFR" /\ r.udp)

AllRecs(s) == Flatten([j \in 1 .. Len(Msgs(s)) |-> Msgs(s)[j].an])
\* the stream the RFCs prescribe for this request
WantRecs(c, r) ==
  IF r.qt = "IXFR" /\ SerialTag(r) \in {"cur", "new"} THEN <<S("cur")>>
  ELSE IF r.qt = "IXFR" /\ DiffsFrom(c, SerialTag(r)) # <<>> THEN IxfrRecs(DiffsFrom(c, SerialTag(r)))
  ELSE AxfrRecs(c)

P4_XfrShape ==
  (AtDone /\ Granted(cfg, req)) =>
    LET ms == Msgs(rs)
        p == Params(Fixed, Limit(req),
                    IF cfg.compat /\ ~(req.qt = "IXFR" /\ DiffsFrom(cfg, SerialTag(req)) # <<>>) THEN 1 ELSE 0, FALSE)
        want == WantRecs(cfg, req)
        sizes(recs) == [j \in 1 .. Len(recs) |-> RecSize(cfg, recs[j])]
        fitsOne == Within(Fixed + Sum(sizes(want)), p) /\ (p.RR = 0 \/ Len(want) <= p.RR)
        tooSmall == \E j \in 1 .. Len(want) : ~Within(Fixed + RecSize(cfg, want[j]), p)
    IN
    /\ \A j \in 1 .. Len(ms) : ms[j].rc = 0 => (ms[j].aa /\ ms[j].op = 0 /\ ms[j].an # <<>>)
    /\ IF Len(want) = 1 THEN rs = <<SoaOnly(req)>>     \* built without the batcher
       ELSE IF req.udp
       THEN /\ Len(rs) = 1
            /\ IF fitsOne THEN AllRecs(rs) = want
               ELSE \/ rs = <<SoaOnly(req)>>
                    \/ tooSmall /\ rs = <<ErrMsg(req, 2)>>
       ELSE IF tooSmall
            THEN \* a record that fits no message: an error, never a hang or an oversized message
                 ms # <<>> /\ ms[Len(ms)].rc = 2
            ELSE /\ \A j \in 1 .. Len(ms) : ms[j].rc = 0
                 /\ AllRecs(rs) = want
                 /\ Head(AllRecs(rs)) = S("cur") /\ AllRecs(rs)[Len(AllRecs(rs))] = S("cur")
                 /\ (Len(want) > 1 => /\ rs[1] = Fb("begin") /\ rs[Len(rs)] = Fb("end")
                                      /\ Len(Fbs(rs)) = 2)
                 /\ IsGreedyPartition([j \in 1 .. Len(ms) |-> sizes(ms[j].an)], sizes(want), p)
=============================================================================
