CONSTANTS
  Dev = {}
  MaxReq = 1
  TickMs = 600000
  StConfs <- St_idlehigh
  RqCap = 8
  ChanCap = 8
  MaxFrames = 1
  MaxQ = 1
  MaxId = 0
  KaVals = {}
  XQs = {501}
  XfrIds = {}
  XfrAll = FALSE
  QVars = {}
  EndKinds = {}
  MaxOps = 10
  Frames <- GFrames
SPECIFICATION GenSpec
VIEW GenView
ACTION_CONSTRAINT EmitTransition
INVARIANT TimerArmed
INVARIANT Configured
INVARIANT AtMostOnce
CHECK_DEADLOCK FALSE
