CONSTANTS
  Dev = {}
  Mut = {}
  AdvOn = {"ANS", "DS", "DNSKEY"}
  AnchorForms = {"dnskey"}
  Cfgs = {"default"}
  MaxRuns = 2
  EntQKinds = {"positive"}
  Budget = 1
  Shapes = {"secure3"}
  Denials = {"nsec", "nsec3"}
  QKinds = {"positive", "nxdomain"}
  AdvActs = {"TimePasses", "Resalt", "ShortSig"}
SPECIFICATION Spec
VIEW View
INVARIANT Soundness
INVARIANT HonestSecure
INVARIANT InsecureNotBogus
INVARIANT WithinAllowed
INVARIANT CacheTransparent
INVARIANT NoPanic
INVARIANT Terminates
INVARIANT NoAnchorNotSecure
INVARIANT LimitsEnforced
INVARIANT Emit
PROPERTY Termination
CHECK_DEADLOCK TRUE
