--------------------------- MODULE Trace_Validator ---------------------------
(* I->S: per scenario the real validator's upstream fetches (qtype, zone),   *)
(* in order, and its verdict, recorded by replay_validator --trace, must be  *)
(* a behaviour of the Validator.tla machine under the recorded adversary     *)
(* plan: the same fetches in the same order, and a verdict the property      *)
(* admits.  Events: start{shape,denial,qk,adv}, fetch{t,z}*, done{state}.    *)
EXTENDS Validator, Json, IOUtils

Rec == ndJsonDeserialize(IOEnv.TRACE)

VARIABLES l, plan
tvars == <<vars, l, plan>>

IsEv(e) == l <= Len(Rec) /\ Rec[l].ev = e
Adv(i) == /\ l' = l + i /\ TLCSet(1, l + i)

TInit == /\ Init /\ l = 1 /\ plan = <<>>
         /\ TLCSet(1, 1)

\* a new scenario: the machine restarts in the recorded scenario
T_Start ==
  /\ IsEv("start") /\ (pc = "done" \/ l = 1)
  /\ scn' = [shape |-> Rec[l].shape, denial |-> Rec[l].denial, qk |-> Rec[l].qk,
             anc |-> Rec[l].anc, cfg |-> Rec[l].cfg]
  /\ plan' = Rec[l].adv
  /\ budget' = Len(Rec[l].adv) /\ advlog' = <<>>
  /\ pc' = "wire" /\ pend' = [t |-> "ANS", z |-> Leaf(Rec[l].shape)]
  /\ inbox' = HonestAnswer(Rec[l].shape, Rec[l].denial, Rec[l].qk)
  /\ msg' = <<>> /\ gi' = 1 /\ gst' = <<>> /\ walk' = <<>>
  /\ node' = [z \in AllZones |-> "none"] /\ tkeys' = [z \in AllZones |-> {}]
  /\ dsd' = <<>> /\ ttl0' = {} /\ probes' = 0 /\ entp' = "no" /\ run' = 1 /\ hist' = <<>> /\ late' = FALSE /\ shortz' = {}
  /\ served' = <<>> /\ fetches' = <<>> /\ result' = "none" /\ steps' = 0
  /\ Adv(1)

IsPrefix(s, t) == Len(s) <= Len(t) /\ SubSeq(t, 1, Len(s)) = s
PlanFor(t, z) == {i \in 1..Len(plan) : plan[i].t = t /\ plan[i].z = z}

\* the adversary follows the recorded plan ...
T_Adv == /\ l > 1 /\ AdvNext /\ IsPrefix(advlog', plan) /\ UNCHANGED <<l, plan>>
\* ... and a message is delivered only when its rewrites have been applied
T_Deliver == /\ l > 1 /\ Deliver
             /\ \A i \in PlanFor(pend.t, pend.z) : i <= Len(advlog)
             /\ UNCHANGED <<l, plan>>
\* internal validator steps
T_Internal == /\ l > 1 /\ (StartGroup \/ EntProbe \/ FetchNext \/ VerifyKey \/ VerifyDs \/ Probe
                           \/ CheckGroup \/ Judge)
              /\ IF fetches' = fetches THEN UNCHANGED l
                 ELSE /\ IsEv("fetch")
                      /\ fetches'[Len(fetches')] = [t |-> Rec[l].t, z |-> Rec[l].z]
                      /\ Adv(1)
              /\ UNCHANGED plan
\* the verdict is one the property admits
T_Done == /\ l > 1 /\ pc = "done" /\ IsEv("done")
          /\ Rec[l].state \in Allowed
          /\ result \in Allowed
          /\ UNCHANGED <<vars, plan>> /\ Adv(1)

TNext == T_Start \/ T_Adv \/ T_Deliver \/ T_Internal \/ T_Done
TSpec == TInit /\ [][TNext]_tvars

TraceSound == pc = "done" /\ result = "Secure" => Oracle = "Secure"

Accepted ==
  LET d == TLCGet(1)
  IN IF d = Len(Rec) + 1 THEN TRUE
     ELSE /\ PrintT("TRACE_REJECTED " \o ToJson([matched |-> d - 1, total |-> Len(Rec),
                      event |-> IF d <= Len(Rec) THEN Rec[d] ELSE [ev |-> "none"]]))
          /\ FALSE
=============================================================================
