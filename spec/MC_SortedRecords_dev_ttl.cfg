CONSTANTS
  Dev = {"D_mixed_ttl_panic"}
  MaxOps = 1
SPECIFICATION Spec
INVARIANT NoPanic
CHECK_DEADLOCK FALSE
