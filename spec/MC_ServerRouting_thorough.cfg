CONSTANTS
  Dev = {}
  MaxRoutes = 2
  Wide = TRUE
SPECIFICATION Spec
INVARIANTS NeverPanics RoutesToLongest BestOne OrderFree Emit
PROPERTY CallFrame
CHECK_DEADLOCK FALSE
