CONSTANTS
  MapDevs = {}
  Dev = {"D_scan_name_empty_label", "D_scan_int_overflow", "D_scan_string_quote", "D_charstr_entry_no_token"}
  MaxEntries = 1
SPECIFICATION Spec
VIEW View
INVARIANT Metamorphic
CHECK_DEADLOCK FALSE
