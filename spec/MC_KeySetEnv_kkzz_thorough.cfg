CONSTANTS
  Keys <- EKeys
  KType <- MCKType
  KAlg <- MCKAlg
  MaxTTL = 1
  Dev = {}
  KeySeq <- KS_kkzz
  Rts <- RollTypes
  InitKinds = {"split"}
  TtlChoices <- T1
  Discipline = TRUE
SPECIFICATION ESpec
VIEW EView
ACTION_CONSTRAINT CoverT
INVARIANT Validatable
INVARIANT InSync
INVARIANT NoPanic
INVARIANT Exclusive
INVARIANT OldMeansStale
INVARIANT SignersRemain
CHECK_DEADLOCK FALSE
