CONSTANTS
  Dev <- AllDevs
  NodeNames <- Nodes_big
  QNames <- QNames_glue
  Types <- AllTypes
  QTypes <- QTypesGlue
  Vals = {1, 2, 3}
  ValsOf <- MCValsOf3
  OpFamilies = {"W", "U", "M", "B"}
  Writers = {"w1"}
  Readers = {}
  MaxVer = 1
  MaxOps = 0
  MaxZf = 0
  MaxHist = 1
  NsTarget <- MCNsTarget
SPECIFICATION GenSpecDirected
INVARIANT EmitBehaviour
CHECK_DEADLOCK FALSE
