---------------------------- MODULE KeySetNames ----------------------------
(* Key universes for the KeySet model-checking wrappers: the type and the  *)
(* algorithm of a key follow from its name (k = KSK, z = ZSK, c = CSK,     *)
(* i = Include; a name ending in 9 uses another algorithm).                *)
MCKType(k) == CASE k \in {"k1", "k2", "k3", "k4", "k9"} -> "ksk"
                [] k \in {"z1", "z2", "z3", "z4", "z9"} -> "zsk"
                [] k \in {"c1", "c2", "c3", "c4", "c9"} -> "csk"
                [] OTHER -> "inc"
MCKAlg(k) == IF k \in {"k9", "z9", "c9", "i9"} THEN 15 ELSE 13

TagOf(k) ==
  CASE k = "k1" -> 1 [] k = "k2" -> 2 [] k = "k3" -> 3 [] k = "k4" -> 4 [] k = "k9" -> 5
    [] k = "z1" -> 6 [] k = "z2" -> 7 [] k = "z3" -> 8 [] k = "z4" -> 9 [] k = "z9" -> 10
    [] k = "c1" -> 11 [] k = "c2" -> 12 [] k = "c3" -> 13 [] k = "c4" -> 14 [] k = "c9" -> 15
    [] k = "i1" -> 16 [] k = "i2" -> 17 [] OTHER -> 18

KS_k    == <<"k1">>
KS_c    == <<"c1">>
KS_kk   == <<"k1", "k2">>
KS_zz   == <<"z1", "z2">>
KS_kz   == <<"k1", "z1">>
KS_kkz  == <<"k1", "k2", "z1">>
KS_kzz  == <<"k1", "z1", "z2">>
KS_cc   == <<"c1", "c2">>
KS_kzc  == <<"k1", "z1", "c1">>
KS_kkzz == <<"k1", "k2", "z1", "z2">>
KS_kzcc == <<"k1", "z1", "c1", "c2">>
KS_kkzzc == <<"k1", "k2", "z1", "z2", "c1">>
KS_kz9  == <<"k1", "z1", "k9", "z9">>
KS_kzi  == <<"k1", "z1", "i1">>
KS_all  == <<"k1", "k2", "z1", "z2", "c1", "c2">>
KS_big  == <<"k1", "k2", "k3", "k9", "z1", "z2", "z3", "z9", "c1", "c2", "c9", "i1">>
=============================================================================
