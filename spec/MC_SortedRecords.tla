--------------------------- MODULE MC_SortedRecords ---------------------------
(* X07: every sequence of up to MaxOps public calls on one SortedRecords     *)
(* collection.  `coll` is the collection as the operations are specified,   *)
(* `content` the set of records they denote (declarative), collU / collR the *)
(* collection as built under the two named deviations.  Every maximal        *)
(* behaviour is an S->I case with the projected state after every call.      *)
EXTENDS SortedRecords, Json

CONSTANT MaxOps

la == <<97>>  lA == <<65>>  lb == <<98>>  ex == <<101, 120>>  EX == <<69, 88>>
Apex == <<ex>>
A(n, last, ttl) == Rec(n, 1, ttl, <<192, 0, 2, last>>)
r1 == A(<<la, ex>>, 1, 60)   r2 == A(<<la, ex>>, 2, 60)   r3 == A(<<la, ex>>, 3, 60)
r2c == A(<<lA, EX>>, 2, 60)                     \* r2 spelled differently
r2t == A(<<la, ex>>, 2, 61)                     \* r2 with another TTL
tx == Rec(<<la, ex>>, 16, 60, <<1, 120>>)      \* (same TTL as the A RRset it may be turned into)
tw == Rec(<<Star, ex>>, 16, 300, <<1, 119>>)
b1 == A(<<lb, ex>>, 1, 60)
soa == Rec(<<ex>>, 6, 3600, <<0, 0, 0, 0, 0, 1, 0, 0, 14, 16, 0, 0, 3, 132, 0, 9, 58, 128, 0, 0, 1, 44>>)
soa2 == [t |-> 6, rd |-> <<0, 0, 0, 0, 0, 2, 0, 0, 14, 16, 0, 0, 3, 132, 0, 9, 58, 128, 0, 0, 1, 44>>]
ns == Rec(<<ex>>, 2, 3600, <<2, 110, 115, 0>>)

Batches == { <<b1, r3, r1, soa, ns, r2>>, <<r2c, r1, tx, r2, tw>>, <<r3, r3, tx, ns>> }
Inserts == {r1, r2, r3, r2c, tx, tw, b1, ns, soa}
Removes == { [n |-> <<lA, ex>>, t |-> 1], [n |-> <<la, ex>>, t |-> 0], [n |-> <<la, ex>>, t |-> 16],
             [n |-> <<EX>>, t |-> 0], [n |-> <<lb, ex>>, t |-> 28] }
Updates == { [old |-> r1, new |-> [t |-> 1, rd |-> <<192, 0, 2, 9>>]],     \* moves to the end of its RRset
             [old |-> r3, new |-> [t |-> 1, rd |-> <<192, 0, 2, 0>>]],     \* moves to the front
             [old |-> r1, new |-> [t |-> 1, rd |-> <<192, 0, 2, 2>>]],     \* becomes a copy of r2
             [old |-> tx, new |-> [t |-> 1, rd |-> <<192, 0, 2, 5>>]],     \* changes type
             [old |-> soa, new |-> soa2],                                  \* the intended use: SOA serial
             [old |-> b1, new |-> [t |-> 1, rd |-> <<192, 0, 2, 7>>]] }

VARIABLES coll, content, collU, collR, hist
vars == <<coll, content, collU, collR, hist>>

Used(o) == \E i \in 1..Len(hist) : hist[i].op.op = o
Init == coll = <<>> /\ content = {} /\ collU = <<>> /\ collR = <<>> /\ hist = <<>>

\* the projected state the executor reads through the public iterators
Ts(g) == [i \in 1..Len(Rrsets(g)) |-> Rrsets(g)[i][1].t]
StateJ(c) ==
  [recs |-> [i \in 1..Len(c) |-> [c[i] EXCEPT !.n = LowerName(@)]],
   groups |-> LET g == OwnerGroups(c)
              IN [i \in 1..Len(g) |-> [n |-> LowerName(g[i][1].n), len |-> Len(g[i]), types |-> Ts(g[i])]],
   rrsets |-> LET g == Rrsets(c)
              IN [i \in 1..Len(g) |-> [n |-> LowerName(g[i][1].n), t |-> g[i][1].t, len |-> Len(g[i]),
                                      ttl |-> g[i][1].ttl]],
   soa |-> FindSoa(c), apex_ns |-> ApexCount(c, Apex, T_NS),
   len |-> Len(c), empty |-> c = <<>>, deref_len |-> Len(c)]

Step(op, ideal, u, r, cont) ==
  /\ coll' = ideal.coll /\ collU' = u.coll /\ collR' = r.coll /\ content' = cont
  /\ hist' = Append(hist, [op |-> op,
                           i |-> [res |-> ideal.res, state |-> StateJ(ideal.coll)],
                           u |-> [res |-> u.res, state |-> StateJ(u.coll)],
                           r |-> [res |-> r.res, state |-> StateJ(r.coll)]])

Active == Len(hist) < MaxOps /\ IsCanonical(collU)     \* nothing is promised about a broken collection

DoFrom ==
  /\ hist = <<>> /\ Active
  /\ \E b \in Batches : \E o \in {"from", "collect"} :
       LET x == FromVec(b) IN Step([op |-> o, batch |-> b], x, x, x, AddAll({}, b))
DoExtend ==
  /\ Active
  /\ \E b \in Batches :
       Step([op |-> "extend", batch |-> b], Extend(coll, b), Extend(collU, b), Extend(collR, b),
            AddAll(content, b))
DoInsert ==
  /\ Active
  /\ \E r \in Inserts \cup (IF Holds(coll, r2t) /\ Holds(collR, r2t) THEN {r2t} ELSE {}) :
       Step([op |-> "insert", r |-> r], Insert(coll, r), Insert(collU, r), Insert(collR, r),
            IF \E x \in content : Same(x, r) THEN content ELSE content \cup {r})
LeastRec(M) == CHOOSE x \in M : \A y \in M : RecCmp(x, y) <= 0
DoRemoveFirst ==
  /\ Active /\ ~Used("update_data")
  /\ \E a \in Removes : \E cl \in BOOLEAN :
       LET M == {x \in content : Matches(x, a.n, a.t)}
       IN Step([op |-> "remove_first", n |-> a.n, t |-> a.t, class |-> cl],
               RemoveFirstD(coll, a.n, a.t, {}), RemoveFirstD(collU, a.n, a.t, {}),
               RemoveFirstD(collR, a.n, a.t, {"D_remove_first_is_last"}),
               IF M = {} THEN content ELSE content \ {LeastRec(M)})
DoRemoveAll ==
  /\ Active
  /\ \E a \in Removes :
       Step([op |-> "remove_all", n |-> a.n, t |-> a.t, class |-> (a.t = 0)],
            RemoveAll(coll, a.n, a.t), RemoveAll(collU, a.n, a.t), RemoveAll(collR, a.n, a.t),
            {x \in content : ~Matches(x, a.n, a.t)})
DoUpdateData ==
  /\ Active /\ ~Used("remove_first")
  /\ \E a \in Updates :
       LET M == {x \in content : Same(x, a.old)}
           o == CHOOSE x \in M : TRUE
           n == [o EXCEPT !.t = a.new.t, !.rd = a.new.rd]
           rest == content \ {o}
       IN Step([op |-> "update_data", r |-> a.old, new |-> [a.old EXCEPT !.t = a.new.t, !.rd = a.new.rd]],
               UpdateDataD(coll, a.old, a.new, {}),
               UpdateDataD(collU, a.old, a.new, {"D_update_data_in_place"}),
               UpdateDataD(collR, a.old, a.new, {}),
               IF M = {} THEN content
               ELSE IF \E x \in rest : Same(x, n) THEN rest ELSE rest \cup {n})

Next == DoFrom \/ DoExtend \/ DoInsert \/ DoRemoveFirst \/ DoRemoveAll \/ DoUpdateData
Spec == Init /\ [][Next]_vars

--------------------------------------------------------------------------
\* the collection under test: as specified, or as built when Dev says so
Cur == IF "D_update_data_in_place" \in Dev THEN collU
       ELSE IF "D_remove_first_is_last" \in Dev THEN collR ELSE coll
Canonical == IsCanonical(Cur)                               \* S1
SetSemantics == Cur = SortSet(content)                      \* S2
Groups == GroupsExact(Cur) /\ RrsetsExact(Cur)              \* S3
ContentDistinct == \A x, y \in content : x # y => ~Same(x, y)
RefusedInsertChangesNothing ==
  \A i \in 1..Len(hist) :
     (hist[i].op.op = "insert" /\ ~hist[i].i.res.ok) =>
        /\ hist[i].i.res.dup = <<hist[i].op.r>>
        /\ i > 1 /\ hist[i].i.state = hist[i - 1].i.state

--------------------------------------------------------------------------
StepsJ(which) == [i \in 1..Len(hist) |-> IF which = "i" THEN hist[i].i
                                         ELSE IF which = "u" THEN hist[i].u ELSE hist[i].r]
Final == Len(hist) = MaxOps \/ ~IsCanonical(collU)
Emit == Final =>
  LET input == [kind |-> "sorted", apex |-> Apex, ops |-> [i \in 1..Len(hist) |-> hist[i].op]]
      devs == (IF StepsJ("u") # StepsJ("i") THEN {"u"} ELSE {}) \cup (IF StepsJ("r") # StepsJ("i") THEN {"r"} ELSE {})
  IN IF devs = {} THEN PrintT("CASE " \o ToJson([in |-> input, exp |-> [steps |-> StepsJ("i")]]))
     ELSE IF devs = {"u"}
     THEN PrintT("CASE " \o ToJson([in |-> input, exp |-> [steps |-> StepsJ("i")],
                                    dev |-> [D_update_data_in_place |-> [steps |-> StepsJ("u")]]]))
     ELSE PrintT("CASE " \o ToJson([in |-> input, exp |-> [steps |-> StepsJ("i")],
                                    dev |-> [D_remove_first_is_last |-> [steps |-> StepsJ("r")]]]))
\* S4: collections with an RRset of differing TTLs, through rrsets() and sign_zone
MixedZones == { <<soa, ns, r1, r2t>>, <<soa, r2, r2t, tw>>, <<soa, ns, b1, [tw EXCEPT !.ttl = 60], [tw EXCEPT !.rd = <<1, 118>>]>> }
NoPanic == (Len(hist) >= 0) => \A z \in MixedZones : LET c == FromVec(z).coll IN MixedTtl(c) => ~IterPanics(c, Dev)
EmitMixed == hist = <<>> =>
  \A z \in MixedZones : \A call \in {"rrsets", "sign_zone"} :
     LET c == FromVec(z).coll
     IN PrintT("CASE " \o ToJson(
          [in |-> [kind |-> "mixed_ttl", call |-> call, apex |-> Apex, recs |-> z],
           exp |-> [panic |-> IterPanics(c, {})],
           dev |-> [D_mixed_ttl_panic |-> [panic |-> IterPanics(c, {"D_mixed_ttl_panic"})]]]))
=============================================================================
