CONSTANTS
  Sites <- SiteTable
  BITS = 6
SPECIFICATION Spec
INVARIANT ITypeOK
INVARIANT IMeaning
INVARIANT ICount
INVARIANT IImpl
INVARIANT IShift
INVARIANT IVacuity
PROPERTY PShift
PROPERTY PSlide
PROPERTY PRenew
CHECK_DEADLOCK FALSE
