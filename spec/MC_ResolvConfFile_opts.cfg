CONSTANTS
  MaxLines = 2
  Pool = "opts"
SPECIFICATION Spec
INVARIANT I_StepLaws
INVARIANT I_FinalLaws
INVARIANT I_WholeFile
INVARIANT I_LastWins
INVARIANT Emit
CHECK_DEADLOCK FALSE
