CONSTANTS
  Dev = {}
  KeyCfgs <- KeysThorough
  Modes = {"txn", "seq"}
  Servers = {"impl", "rfc"}
  ClockCfgs <- ClocksThorough
  MaxAns = 4
  Bursts = {99, 100}
  FaultsOn = TRUE
  RcKeys <- RcKeysThorough
  Retries = 1
  T0 = 1000000
  StructKinds <- StructAll
SPECIFICATION Spec
INVARIANT HonestVerifies
INVARIANT TamperRejected
INVARIANT ClocksRejected
INVARIANT WindowEnforced
INVARIANT PolicyRejected
INVARIANT RestoresOctets
INVARIANT LayoutFollowsRfc
INVARIANT UnsignedBound
INVARIANT NoPanic
INVARIANT AcceptedWasSigned
CHECK_DEADLOCK FALSE
