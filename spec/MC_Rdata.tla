----------------------------- MODULE MC_Rdata -----------------------------
(* TLC checks the laws of the Layout table of Rdata.tla over boundary       *)
(* domains per field kind, and generates the S->I cases of C05.             *)
(*                                                                          *)
(* A state is (type, value).  Init takes the base value of every type       *)
(* (every field a distinctive non-boundary value); Vary replaces one field  *)
(* by a boundary value of its kind, fields in increasing index order, at    *)
(* most MaxVary fields per value -- so the reachable states are all values  *)
(* that differ from the base in at most MaxVary fields.                     *)
EXTENDS RdataDom, TLC, Json

CONSTANTS MaxVary,          \* fields varied per value
          Dev               \* named deviations of the implementation (DESIGN 2.6)

VARIABLES t, val, nv, li
vars == <<t, val, nv, li>>

\* the table as data, for the I->S recorder (printed once per TLC run)
ASSUME PrintT("LAYOUT " \o ToJson([layout |-> Layout, code |-> TypeCode,
                                    optlayout |-> OptLayout, optcode |-> OptCode]))

Init == /\ t \in Types
        /\ val = Base(t)
        /\ nv = 0
        /\ li = 0

Vary(i, x) == /\ nv < MaxVary
              /\ i > li
              /\ x # val[i]
              /\ val' = [val EXCEPT ![i] = x]
              /\ nv' = nv + 1
              /\ li' = i
              /\ UNCHANGED t

Next == \E i \in 1..Len(LayoutOf(t)) : \E x \in Dom(LayoutOf(t)[i]) : Vary(i, x)

Spec == Init /\ [][Next]_vars

--------------------------------------------------------------------------
\* input rendering with every compressible name ending in a pointer into
\* the owner name: skip = number of owner labels skipped
OwnerSuffix(skip) == SubSeq(Owner, skip + 1, Len(Owner))
PtrOff(skip) == 12 + SumSeq([i \in 1..skip |-> 1 + Len(Owner[i])])
PtrVal(x, v, skip) ==
  [i \in 1..Len(v) |-> IF LayoutOf(x)[i].compress THEN v[i] \o OwnerSuffix(skip) ELSE v[i]]
PtrRender(x, v, skip) ==
  Concat([i \in 1..Len(v) |->
    IF LayoutOf(x)[i].compress THEN ToWireRel(v[i]) \o <<192, PtrOff(skip)>>
    ELSE ComposeField(LayoutOf(x)[i], v[i])])

\* malformed / perturbed inputs
Mutants(rd) ==
  {rd \o <<0>>, rd \o <<1, 65>>}
  \cup (IF rd = <<>> THEN {} ELSE
        {SubSeq(rd, 1, Len(rd) - 1),
         [rd EXCEPT ![1] = (@ + 1) % 256],
         [rd EXCEPT ![Len(rd)] = (@ + 1) % 256]})

--------------------------------------------------------------------------
(* Laws of the table *)

ASSUME LowerList ==      \* RFC 4034 6.2 + RFC 6840 5.1, restricted to the table
  {x \in KnownTypes : \E i \in 1..Len(Layout[x]) : Layout[x][i].lower} =
  {"NS", "MD", "MF", "CNAME", "SOA", "MB", "MG", "MR", "PTR", "MINFO", "MX", "RP",
   "NAPTR", "SRV", "DNAME", "RRSIG"}
ASSUME CompressList ==   \* RFC 3597 4: only the RFC 1035 types (documentation of the
                         \* table; which names an implementation compresses on
                         \* output is not part of property C05 and not judged)
  {x \in KnownTypes : \E i \in 1..Len(Layout[x]) : Layout[x][i].compress} =
  {"NS", "MD", "MF", "CNAME", "SOA", "MB", "MG", "MR", "PTR", "MINFO", "MX"}
ASSUME TableShape ==
  /\ DOMAIN TypeCode = DOMAIN Layout
  /\ \A x, y \in KnownTypes : x # y => TypeCode[x] # TypeCode[y]
  /\ \A x \in KnownTypes : \A i \in 1..Len(Layout[x]) :
        \* only the last field may extend to the end of the RDATA
        Layout[x][i].kind \in {"Rest", "CharStrSeq", "TypeBitmap", "SvcParams", "OptSeq"}
          => i = Len(Layout[x])
  /\ \A x \in KnownTypes : \A i \in 1..Len(Layout[x]) :
        (Layout[x][i].compress \/ Layout[x][i].lower) => Layout[x][i].kind = "Name"

\* values reached through an invalid intermediate (cross-field rules) are skipped
V == ValidRd(t, val)
LawValid     == \A i \in 1..Len(val) : ValidField(LayoutOf(t)[i], val[i])
LawRoundTrip == V => ParseRd(t, ComposeRd(t, val)) = [ok |-> TRUE, val |-> val]
LawLen       == V => Len(ComposeRd(t, val)) = RdLen(t, val)
LawCanon     == V =>
  /\ CanonRd(t, val) = ComposeRd(t, CanonVal(t, val))
  /\ Len(CanonRd(t, val)) = RdLen(t, val)
  /\ LowerSeq(CanonRd(t, val)) = LowerSeq(ComposeRd(t, val))      \* identical up to case
  /\ CanonRd(t, CanonVal(t, val)) = CanonRd(t, val)               \* idempotent
  /\ (~\E i \in 1..Len(LayoutOf(t)) : LayoutOf(t)[i].lower) => CanonRd(t, val) = ComposeRd(t, val)
  /\ RdEq(t, val, CanonVal(t, val))
LawMutants   == V =>     \* whatever the parser accepts re-composes to the same octets
  \A m \in Mutants(ComposeRd(t, val)) :
     LET r == ParseRd(t, m)
     IN r.ok => ValidRd(t, r.val) /\ ComposeRd(t, r.val) = m
LawTrailing  == V =>     \* trailing octets after a self-delimiting last field are rejected
  LET lay == LayoutOf(t)
      lk == lay[Len(lay)].kind
  IN (IsFixed(lk) \/ lk \in {"Name", "CharStr", "LP8", "LP16", "CaaTag"}) =>
        ParseRd(t, ComposeRd(t, val) \o <<0>>) = Hard
PtrOk(skip) == V /\ MayCompress(t) /\ ValidRd(t, PtrVal(t, val, skip))
LawPtr ==
  \A skip \in {0, 1} : PtrOk(skip) =>
     LET rd == PtrRender(t, val, skip)
     IN ParseRdMsg(t, MsgOf(CodeOf(t), rd), RdPos, Len(rd)) = [ok |-> TRUE, val |-> PtrVal(t, val, skip)]
LawOpt ==     \* option data of the known options parses against its own row
  (V /\ t = "OPT") => \A i \in 1..Len(val[1]) :
     \A o \in DOMAIN OptLayout : val[1][i].k = OptCode[o] =>
        LET r == ParseOpt(o, val[1][i].v) IN r.ok /\ ComposeFields(OptLayout[o], r.val) = val[1][i].v

--------------------------------------------------------------------------
(* S->I case generation *)

Exp(x, v) == [parse |-> "ok", wire |-> ComposeRd(x, v), canon |-> CanonRd(x, v),
              len |-> RdLen(x, v), known |-> x \in KnownTypes, issues |-> <<>>]
\* options of the kinds in OptLayout must be accepted when well-formed; EDE
\* text that is not (ASCII, hence) UTF-8 breaks an RFC 8914 content rule only
OptStrict(v) == \A i \in 1..Len(v) :
  v[i].k = OptCode["EDE"] => \A j \in 3..Len(v[i].v) : v[i].v[j] < 128
In(mode, rd) == [mode |-> mode, rtype |-> CodeOf(t), msg |-> MsgOf(CodeOf(t), rd),
                 mayCompress |-> MayCompress(t),
                 strictOpts |-> mode = "plain" /\ (t = "OPT" => OptStrict(val[1]))]

(* What the implementation did where it deviated (finding, since fixed):    *)
(* D_alldata_eq_opt_unknown  AllRecordData's == had no arm for the Opt and  *)
(*    Unknown variants: a value of those never equalled itself              *)
IssueEq == "value parsed back compares unequal (==)"
DevExp(x, v) ==
  IF x = "OPT" \/ x \notin KnownTypes
  THEN [D_alldata_eq_opt_unknown |-> [Exp(x, v) EXCEPT !.issues = <<IssueEq>>]]
  ELSE <<>>
\* the same deviation as a statement about the model, for MC_Rdata_dev.cfg
ImplEqReflexive(x) == ~("D_alldata_eq_opt_unknown" \in Dev /\ (x = "OPT" \/ x \notin KnownTypes))
LawImplEq == ImplEqReflexive(t)

(* The type-bitmap builder: whatever the order of the add calls (types from *)
(* five windows, duplicates), the result is the RFC 4034 4.1.2 encoding of  *)
(* the set, and an NSEC built from it composes and parses back.             *)
Range5(q) == {q[i] : i \in 1..Len(q)}
BmTypes == <<1, 15, 257, 1234, 65534>>
BmProbe == <<1, 15, 257, 1234, 65534, 2>>
BmSeqs == UNION {[1..n -> Range5(BmTypes)] : n \in 0..4}
BmOnce == t = "A" /\ nv = 0
LawBitmap == BmOnce => \A q \in BmSeqs :
  LET S == {q[i] : i \in 1..Len(q)}
      r == ParseRd("NSEC", ComposeRd("NSEC", <<nA, S>>))
  IN r.ok /\ r.val = <<nA, S>>
EmitBitmap == BmOnce => \A q \in BmSeqs :
  LET S == {q[i] : i \in 1..Len(q)} IN
  PrintT("CASE " \o ToJson(
     [in |-> [mode |-> "bitmap", adds |-> q, probe |-> BmProbe],
      exp |-> [bitmap |-> ComposeBitmap(S),
               contains |-> [i \in 1..Len(BmProbe) |-> BmProbe[i] \in S],
               rd |-> Exp("NSEC", <<nA, S>>)]]))

(* The SVCB parameter builder: whatever the order of the pushes (distinct    *)
(* keys), the frozen value is the RFC 9460 2.2 encoding of the set in        *)
(* ascending key order, and an SVCB record built from it round-trips.        *)
SvcKeys == {0, 1, 3, 4, 6, 8, 65000}
SvcVal(k) == IF k = 0 THEN <<0, 3>> ELSE <<k % 256, 195, 0>>      \* pushed as opaque values
SvcPushSeqs == UNION {{q \in [1..n -> SvcKeys] : \A i, j \in 1..n : i # j => q[i] # q[j]} : n \in 0..4}
SortedParams(q) == LET ks == SortSet({q[i] : i \in 1..Len(q)})
                   IN [i \in 1..Len(ks) |-> [k |-> ks[i], v |-> SvcVal(ks[i])]]
LawSvcBuilder == BmOnce => \A q \in SvcPushSeqs :
  LET v == << <<0, 1>>, nA, SortedParams(q) >>
      r == ParseRd("SVCB", ComposeRd("SVCB", v))
  IN ValidRd("SVCB", v) /\ r.ok /\ r.val = v
EmitSvcBuilder == BmOnce => \A q \in SvcPushSeqs :
  PrintT("CASE " \o ToJson(
     [in |-> [mode |-> "svcparams", pushes |-> [i \in 1..Len(q) |-> [k |-> q[i], v |-> SvcVal(q[i])]]],
      exp |-> [params |-> ComposeTlvs(SortedParams(q)), issues |-> <<>>,
               rd |-> Exp("SVCB", << <<0, 1>>, nA, SortedParams(q) >>)]]))

(* The TXT builder as a small machine over the logical strings: append_slice *)
(* extends the open string and wraps at 255 octets, append_charstr and       *)
(* close_charstr close it, finish closes and turns "nothing" into one empty  *)
(* string.  The result is the CharStrSeq encoding of the logical strings.    *)
TxtOps == {[op |-> "slice", n |-> x] : x \in {0, 1, 100, 200, 255, 256}}
          \cup {[op |-> "charstr", n |-> x] : x \in {0, 1, 255}}
          \cup {[op |-> "close", n |-> 0]}
TxtOpSeqs == UNION {[1..n -> TxtOps] : n \in 0..3}
TxtContent(i, n) == [j \in 1..n |-> (i * 16 + j) % 256]
RECURSIVE Chunks255(_)
Chunks255(d) == IF d = <<>> THEN <<>>
                ELSE IF Len(d) <= 255 THEN <<d>>
                ELSE <<SubSeq(d, 1, 255)>> \o Chunks255(SubSeq(d, 256, Len(d)))
TxtStep(st, i, o) ==
  CASE o.op = "close"   -> [st EXCEPT !.open = FALSE]
    [] o.op = "charstr" -> [strs |-> Append(st.strs, TxtContent(i, o.n)), open |-> FALSE]
    [] o.op = "slice"   ->
         LET d == TxtContent(i, o.n)
             room == IF st.open THEN 255 - Len(st.strs[Len(st.strs)]) ELSE 0
         IN IF st.open /\ Len(d) < room
            THEN [st EXCEPT !.strs[Len(st.strs)] = @ \o d]
            ELSE LET base == IF st.open THEN [st.strs EXCEPT ![Len(st.strs)] = @ \o SubSeq(d, 1, room)]
                             ELSE st.strs
                     chunks == Chunks255(SubSeq(d, room + 1, Len(d)))
                 IN [strs |-> base \o chunks,
                     open |-> IF chunks = <<>> THEN st.open ELSE Len(chunks[Len(chunks)]) < 255]
RECURSIVE TxtRunFrom(_, _, _)
TxtRunFrom(st, q, i) == IF i > Len(q) THEN st ELSE TxtRunFrom(TxtStep(st, i, q[i]), q, i + 1)
TxtResult(q) == LET st == TxtRunFrom([strs |-> <<>>, open |-> FALSE], q, 1)
                IN IF st.strs = <<>> THEN << <<>> >> ELSE st.strs
LawTxtBuilder == BmOnce => \A q \in TxtOpSeqs :
  LET strs == TxtResult(q) IN
  /\ ValidRd("TXT", <<strs>>)
  /\ Concat(strs) = Concat([i \in 1..Len(q) |-> IF q[i].op = "close" THEN <<>> ELSE TxtContent(i, q[i].n)])
  /\ ParseRd("TXT", ComposeRd("TXT", <<strs>>)) = [ok |-> TRUE, val |-> <<strs>>]
EmitTxtBuilder == BmOnce => \A q \in TxtOpSeqs :
  PrintT("CASE " \o ToJson(
     [in |-> [mode |-> "txt", ops |-> q],
      exp |-> [txt |-> ComposeRd("TXT", <<TxtResult(q)>>), issues |-> <<>>,
               rd |-> Exp("TXT", <<TxtResult(q)>>)]]))

(* The ALPN value builder (RFC 9460 7.1.1): length-prefixed protocol ids *)
AlpnIds == {<<104, 50>>, <<104, 51>>, <<72>>, Rep(255, 120)}
AlpnSeqs == UNION {[1..n -> AlpnIds] : n \in 1..2}
EmitAlpnBuilder == BmOnce => \A q \in AlpnSeqs :
  LET value == Concat([i \in 1..Len(q) |-> <<Len(q[i])>> \o q[i]]) IN
  PrintT("CASE " \o ToJson(
     [in |-> [mode |-> "alpn", ids |-> q],
      exp |-> [value |-> value, issues |-> <<>>,
               params |-> ComposeTlvs(<< [k |-> 1, v |-> value] >>)]]))

(* Values BUILT through the record types' own constructors (not obtained by *)
(* parsing): every explored value is handed over field by field (names as   *)
(* label tuples, type bitmaps as sets); the constructed value composes to   *)
(* the table's octets and survives compose / parse like a parsed one.       *)
EmitCtor == V => PrintT("CASE " \o ToJson(
   [in |-> [mode |-> "ctor", rtype |-> CodeOf(t), fields |-> val,
            strictOpts |-> (t = "OPT" => OptStrict(val[1]))],
    exp |-> [ctor |-> "ok", issues |-> <<>>, rd |-> Exp(t, val)]]))

(* ... and at the 65535-octet RDATA limit (LongRecordData): the last field  *)
(* of the base value is n octets long, n around the room the other fields   *)
(* leave.  Beyond the limit the constructor, or at the latest composing the *)
(* length-prefixed RDATA, refuses; a wrong RDLENGTH is never written.       *)
LongTypes == {"NULL", "DS", "CDS", "DNSKEY", "CDNSKEY", "RRSIG", "TSIG", "SSHFP", "TLSA",
              "OPENPGPKEY", "ZONEMD", "CAA", "IPSECKEY", "TYPE99"}
ASSUME \A x \in LongTypes : x \in Types /\ LayoutOf(x)[Len(LayoutOf(x))].kind \in {"Rest", "LP16"}
\* the types whose constructor documents the refusal (Result<_, LongRecordData>);
\* for the others composing the length-prefixed RDATA may be what refuses
LongChecked == {"NULL", "DS", "CDS", "DNSKEY", "CDNSKEY", "RRSIG", "TSIG", "TYPE99"}
LongRoom(x) == 65535 - RdLen(x, [Base(x) EXCEPT ![Len(LayoutOf(x))] = <<>>])
EmitCtorLong == BmOnce => \A x \in LongTypes : \A d \in {-1, 0, 1} :
  PrintT("CASE " \o ToJson(
     [in |-> [mode |-> "ctorlong", rtype |-> CodeOf(x), fields |-> Base(x), n |-> LongRoom(x) + d, b |-> 7,
              checked |-> x \in LongChecked],
      exp |-> IF d <= 0 THEN [outcome |-> "ok", len |-> 65535 + d, advertised |-> 65535 + d, reparse |-> TRUE]
              ELSE [outcome |-> "refused"]]))

EmitPlain == V => PrintT("CASE " \o ToJson([in |-> In("plain", ComposeRd(t, val)), exp |-> Exp(t, val),
                                        dev |-> DevExp(t, val)]))
EmitPtr ==
  \A skip \in {0, 1} : PtrOk(skip) =>
     PrintT("CASE " \o ToJson([in |-> In("ptr", PtrRender(t, val, skip)),
                                exp |-> Exp(t, PtrVal(t, val, skip)),
                                dev |-> DevExp(t, PtrVal(t, val, skip))]))
EmitMutants == V =>
  \A m \in Mutants(ComposeRd(t, val)) :
     LET r == ParseRd(t, m)
     IN IF r.ok THEN PrintT("CASE " \o ToJson([in |-> In("mutant", m), exp |-> Exp(t, r.val),
                                                dev |-> DevExp(t, r.val)]))
        ELSE IF r.hard THEN PrintT("CASE " \o ToJson([in |-> In("mutant", m), exp |-> [parse |-> "err"]]))
        ELSE TRUE       \* only an RFC content rule is broken: either outcome is admissible
=============================================================================
