CONSTANTS
  Dev <- EnvDev
  RecU = {1, 2, 5}
  TtlU = {0, 1}
  Styles = {"rfc", "stamped"}
  MaxC = 2
  Kinds = {"axfr", "ixfr1", "fallback"}
  MaxMsgs = 3
  FaultKinds = {"none", "drop", "dup", "swap", "trunc"}
  LaterQ = {FALSE}
SPECIFICATION GenSpec
INVARIANT EmitCase
CHECK_DEADLOCK FALSE
