-------------------------- MODULE MC_ClientBalance --------------------------
(* TLC explores the redundant / load_balancer leg of ClientCompose: all     *)
(* orders in which upstreams are tried, all results, all timings.           *)
EXTENDS ClientCompose

CONSTANTS BKind, NUp, NReq, Limits, CfgSet
VARIABLE b

DFrozen == /\ ndg = 0 /\ ph = "idle" /\ att = 0 /\ e = 0 /\ inq = <<>> /\ q = 0
           /\ fault = [kind |-> "none", at |-> 0] /\ sent = <<>> /\ done = <<>>
           /\ waited = 0 /\ conf = DConfOf(DgScript("new", <<>>))
LimNone  == {<<-1, 1>>}
LimMixed == {<<-1, 1>>, <<0, 2>>, <<1, 1>>}
LimTight == {<<-1, 1>>, <<0, 1>>}
LimBurst == {<<0, 2>>, <<1, 1>>}
Kinds == {"answer", "servfail", "refused", "error"}
CfgAll == [de : BOOLEAN, dr : BOOLEAN, ds : BOOLEAN]
CfgFew == {[de |-> FALSE, dr |-> FALSE, ds |-> FALSE], [de |-> TRUE, dr |-> TRUE, ds |-> TRUE],
           [de |-> TRUE, dr |-> FALSE, ds |-> FALSE]}

RECURSIVE AddAll(_, _)
AddAll(bb, ls) == IF ls = <<>> THEN bb ELSE AddAll(BAddOp(bb, Head(ls)[1], Head(ls)[2]), Tail(ls))

BInit == /\ DFrozen
         /\ \E cfg \in CfgSet, ls \in [1..NUp -> Limits] :
              b = AddAll(BInitState(BKind, cfg, NReq), ls)

\* the code's own steps happen before the environment acts again
BSubmit  == /\ BQuiescent(b)
            /\ \E r \in 1..NReq : /\ b.reqs[r].st = "none"
                                  /\ \A x \in 1..(r - 1) : b.reqs[x].st # "none"
                                  /\ b' = BSubmitOp(b, r)
BAsked   == \E r \in 1..NReq, u \in 1..NUp : BAskedOk(b, u, r) /\ ~BMustFinish(b, r)
                                            /\ (b.reqs[r].tk => BQuiescent(b) \/ BMustAsk(b, r))
                                            /\ b' = BAskedOp(b, u, r)
BResolve == /\ BQuiescent(b)
            /\ \E r \in 1..NReq, u \in 1..NUp, k \in Kinds :
                 BResolveOk(b, u, r) /\ b' = BResolveOp(b, u, r, k)
BFinish  == \E r \in 1..NReq : BMustFinish(b, r) /\ b' = BDoneOp(b, r)
BTick    == BQuiescent(b) /\ b' = BTickOp(b)

Fz == UNCHANGED <<dvars, ndg>>
UpstreamAsked   == BAsked /\ Fz
RequestSubmit   == BSubmit /\ Fz
UpstreamResult  == BResolve /\ Fz
RequestDone     == BFinish /\ Fz
ClockTick       == BTick /\ Fz
BNext == RequestSubmit \/ UpstreamAsked \/ UpstreamResult \/ RequestDone \/ ClockTick
BSpec == BInit /\ [][BNext]_<<b, dvars, ndg>>
\* the balancer runs, and every upstream that was asked hands back a result
BLiveSpec == BSpec /\ WF_<<b, dvars, ndg>>(BAsked /\ UNCHANGED <<dvars, ndg>>)
                   /\ WF_<<b, dvars, ndg>>(BFinish /\ UNCHANGED <<dvars, ndg>>)
                   /\ WF_<<b, dvars, ndg>>(BResolve /\ UNCHANGED <<dvars, ndg>>)
                   /\ WF_<<b, dvars, ndg>>(BTick /\ UNCHANGED <<dvars, ndg>>)

BOwn        == BOwnOf(b)
BOnlyUsable == BOnlyUsableOf(b)
BFirstWins  == BFirstWinsOf(b)
BCompletion == \A r \in 1..NReq : (b.reqs[r].st = "active") ~> (b.reqs[r].st = "done")
=============================================================================
