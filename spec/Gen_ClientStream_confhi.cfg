CONSTANTS
  Dev = {}
  MaxReq = 1
  TickMs = 70000
  StConfs <- St_high
  RqCap = 8
  ChanCap = 8
  MaxFrames = 1
  MaxQ = 1
  MaxId = 0
  KaVals = {}
  XQs = {501}
  XfrIds = {}
  XfrAll = FALSE
  QVars = {}
  EndKinds = {}
  MaxOps = 12
  Frames <- GFrames
SPECIFICATION GenSpec
VIEW GenView
ACTION_CONSTRAINT EmitTransition
INVARIANT TimerArmed
INVARIANT Configured
INVARIANT AtMostOnce
CHECK_DEADLOCK FALSE
