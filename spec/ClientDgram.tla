----------------------------- MODULE ClientDgram -----------------------------
(* The datagram client transport: net::client::dgram,                       *)
(* Connection::handle_request_impl, for one request (every request works on *)
(* its own sockets; the semaphore only delays the start).                   *)
(*                                                                          *)
(*   for each of 1 + max_retries attempts:                                  *)
(*     connect a fresh socket, set a random ID, send;                       *)
(*     until read_timeout has passed: receive; a datagram shorter than a    *)
(*     header or one that is not an answer to this attempt is discarded;    *)
(*     an answer completes the request; a receive error completes it with   *)
(*     an error;                                                            *)
(*   after the last attempt: timeout error.                                 *)
(*                                                                          *)
(* IDs: the random ID of attempt k is written k (successive attempts are     *)
(* assumed to draw different IDs; the harness re-runs a case in which they  *)
(* collide).  A datagram sent to an earlier socket is lost (the socket is    *)
(* closed), so the network can only deliver to the current socket, but it   *)
(* may deliver anything there, including answers carrying an earlier ID.    *)
(* Time in ticks; read_timeout = rd ticks, the deadline passes at e >= rd.   *)
(*                                                                          *)
(* The budget is the configured one: a run starts from a configuration      *)
(* script (ClientConfig: the dgram::Config calls the caller made and the    *)
(* route by which the object was made); read_timeout, max_retries and the   *)
(* EDNS payload size put on the wire are what that script leaves in force.  *)
EXTENDS ClientMsg, ClientConfig, TLC

CONSTANTS Confs,       \* the configuration scripts (DgScript) a run may start from
          TickMs,      \* milliseconds per tick
          Faults,      \* the local fault injected: [kind, at]; kind "none",
                       \* "connect", "send", "short" at attempt `at`
          MaxDgrams,   \* bound on the datagrams the network delivers
          Dev

VARIABLES ndg,     \* datagrams delivered so far (bound for the model)
          ph,      \* "idle" | "start" | "recv" | "done"
          att,     \* attempts started so far
          e,       \* ticks since the current attempt's deadline was set
          inq,     \* datagrams queued at the current socket
          q,       \* the question asked (0 = nothing submitted)
          fault,   \* the fault of this run
          conf,    \* the configuration of this run: [sc (script), eff (what is in
                   \* force), rd (read timeout in ticks), mr (max_retries)]
          sent,    \* <<question of the datagram sent in attempt k>>
          done,    \* outcomes handed to the caller; n = attempt at delivery
          waited   \* ghost: ticks spent waiting in receive loops
dvars == <<ph, att, e, inq, q, fault, conf, sent, done, waited>>

DCur == [ph |-> ph, att |-> att, e |-> e, inq |-> inq, q |-> q, fault |-> fault,
         conf |-> conf, sent |-> sent, done |-> done, waited |-> waited]
DSet(s) == /\ ph' = s.ph /\ att' = s.att /\ e' = s.e /\ inq' = s.inq /\ q' = s.q
           /\ fault' = s.fault /\ conf' = s.conf /\ sent' = s.sent /\ done' = s.done
           /\ waited' = s.waited

\* the configuration in force after script sc
DConfOf(sc) == LET eff == DgRun(sc)
               IN [sc |-> sc, eff |-> eff, rd |-> TicksUp(eff.rto, TickMs), mr |-> eff.mr]
RDof(s) == s.conf.rd
MRof(s) == s.conf.mr

DInitState(f, sc) == [ph |-> "idle", att |-> 0, e |-> 0, inq |-> <<>>, q |-> 0,
                      fault |-> f, conf |-> DConfOf(sc), sent |-> <<>>, done |-> <<>>,
                      waited |-> 0]
\* what goes on the wire: the question and the EDNS payload size (-1: no OPT)
OnWire(s) == [q |-> s.q, ups |-> s.conf.eff.ups]
\* the receive buffer the transport offers to its socket: recv_size octets
\* (-1 as long as no attempt got as far as receiving; a local fault ends the
\* request, so only the first attempt may not have got there)
EverRecv(s) == s.att >= 2 \/ (s.att = 1 /\ ~(s.fault.kind # "none" /\ s.fault.at = 1))
RecvBuf(s) == IF EverRecv(s) THEN s.conf.eff.rsz ELSE -1

Fail(s, why) == [s EXCEPT !.ph = "done", !.inq = <<>>, !.done = Append(@, ErrOut(why))]
FaultAt(s, kind) == s.fault.kind = kind /\ s.fault.at = s.att + 1

\* top of the transmit loop
StartArm(s) ==
  IF s.att = 1 + MRof(s) THEN Fail(s, "timeout")
  ELSE IF FaultAt(s, "connect") THEN Fail([s EXCEPT !.att = @ + 1], "connect")
  ELSE LET s1 == [s EXCEPT !.att = @ + 1, !.sent = Append(@, OnWire(s)), !.inq = <<>>]
       IN IF FaultAt(s, "send") \/ FaultAt(s, "short") THEN Fail(s1, "send")
          ELSE [s1 EXCEPT !.ph = "recv", !.e = 0]

DeadlinePassed(s) == s.ph = "recv" /\ s.e >= RDof(s)

\* one datagram from the socket
RecvArm(s) ==
  LET d  == Head(s.inq)
      s1 == [s EXCEPT !.inq = Tail(@)]
  IN CASE d.kind = "ioerr" -> Fail(s1, "receive")
       [] d.kind = "short" -> s1                                  \* garbage: keep receiving
       [] OTHER -> IF IsAnswer(d.f, s.att, s.q)
                   THEN [s1 EXCEPT !.ph = "done", !.inq = <<>>,
                                   !.done = Append(@, OkOut(d.f, s.att))]
                   ELSE s1                                        \* not our answer: keep receiving

TimeoutArm(s) == [s EXCEPT !.ph = "start", !.inq = <<>>]

\* environment
DSubmitOp(s, qq)  == [s EXCEPT !.q = qq, !.ph = "start"]
DDeliverOp(s, d)  == IF s.ph = "recv" THEN [s EXCEPT !.inq = Append(@, d)] ELSE s
DTickOp(s)        == IF s.ph = "recv" /\ s.e < RDof(s)
                     THEN [s EXCEPT !.e = @ + 1, !.waited = @ + 1] ELSE s

\* the request task runs until it has to wait.  The loop condition
\* `deadline > now` is tested before every receive.
DPick(s) == IF s.ph = "start" THEN "start"
            ELSE IF DeadlinePassed(s) THEN "timeout"
            ELSE IF s.ph = "recv" /\ s.inq # <<>> THEN "recv"
            ELSE "none"
DStep(s) == CASE DPick(s) = "start"   -> StartArm(s)
              [] DPick(s) = "timeout" -> TimeoutArm(s)
              [] DPick(s) = "recv"    -> RecvArm(s)
              [] OTHER                -> s
RECURSIVE DQuiesce(_)
DQuiesce(s) == IF DPick(s) = "none" THEN s ELSE DQuiesce(DStep(s))

DMkOp(op, qq, d) == [op |-> op, q |-> qq, d |-> d]
NoDgram == [kind |-> "short", f |-> Msg(0, FALSE, 0, 0, FALSE, FALSE, -1)]
DEnvOp(s, o) == CASE o.op = "submit"  -> DSubmitOp(s, o.q)
                  [] o.op = "deliver" -> DDeliverOp(s, o.d)
                  [] o.op = "tick"    -> DTickOp(s)
DApply(s, o) == DQuiesce(DEnvOp(s, o))

\* what the network may deliver in state s: for the current ID, the
\* previous attempt's ID and an unrelated ID; the asked and another question
DgramAlphabet(s) ==
  LET ids == {s.att, 99} \cup (IF s.att > 1 THEN {s.att - 1} ELSE {})
      qs  == {s.q, s.q + 1}
  IN {[kind |-> "msg", f |-> f] :
        f \in      {Msg(id, TRUE, qq, 0, TRUE, tc, -1) : id \in ids, qq \in qs, tc \in BOOLEAN}
              \cup {Msg(id, TRUE, qq, 2, FALSE, FALSE, -1) : id \in ids, qq \in qs}
              \cup {Msg(id, TRUE, NoQ, rc, FALSE, FALSE, -1) : id \in ids, rc \in {0, 2}}
              \cup {Msg(id, TRUE, NoQ, 2, TRUE, FALSE, -1) : id \in ids}
              \cup {Msg(id, FALSE, qq, 0, FALSE, FALSE, -1) : id \in ids, qq \in qs}
              \* the asked question with one component changed: type, class,
              \* letter case (still the same question), QDCOUNT 2
              \cup {Msg(s.att, TRUE, v + s.q, 0, TRUE, FALSE, -1) : v \in {100, 200, 300, 400}}}
     \cup {[kind |-> "short", f |-> NoDgram.f], [kind |-> "ioerr", f |-> NoDgram.f]}

--------------------------------------------------------------------------
(* fine-grained actions *)
DInitPred == /\ fault \in Faults
             /\ conf \in {DConfOf(sc) : sc \in Confs}
             /\ ph = "idle" /\ att = 0 /\ e = 0 /\ inq = <<>> /\ q = 0
             /\ sent = <<>> /\ done = <<>> /\ waited = 0

Submit        == ph = "idle" /\ DSet(DSubmitOp(DCur, 1)) /\ UNCHANGED ndg
Deliver       == /\ ph = "recv" /\ ndg < MaxDgrams /\ ndg' = ndg + 1
                 /\ \E d \in DgramAlphabet(DCur) : DSet(DDeliverOp(DCur, d))
StartAttempt  == ph = "start" /\ att < 1 + conf.mr /\ DSet(StartArm(DCur)) /\ UNCHANGED ndg
GiveUp        == ph = "start" /\ att = 1 + conf.mr /\ DSet(StartArm(DCur)) /\ UNCHANGED ndg
Retry         == DeadlinePassed(DCur) /\ DSet(TimeoutArm(DCur)) /\ UNCHANGED ndg
HeadKind      == IF Head(inq).kind # "msg" THEN Head(inq).kind
                 ELSE IF IsAnswer(Head(inq).f, att, q) THEN "answer" ELSE "other"
CanRecv       == ph = "recv" /\ inq # <<>> /\ ~DeadlinePassed(DCur)
RecvAccept          == CanRecv /\ HeadKind = "answer" /\ DSet(RecvArm(DCur)) /\ UNCHANGED ndg
RecvDiscardOther    == CanRecv /\ HeadKind = "other" /\ DSet(RecvArm(DCur)) /\ UNCHANGED ndg
RecvDiscardShort    == CanRecv /\ HeadKind = "short" /\ DSet(RecvArm(DCur)) /\ UNCHANGED ndg
RecvError           == CanRecv /\ HeadKind = "ioerr" /\ DSet(RecvArm(DCur)) /\ UNCHANGED ndg
\* a datagram may also be taken from the socket although the deadline has
\* just passed: timeout_at polls the receive first
RecvLate      == /\ ph = "recv" /\ inq # <<>> /\ DeadlinePassed(DCur) /\ e = conf.rd
                 /\ DSet(RecvArm(DCur)) /\ UNCHANGED ndg
DTick         == ~DeadlinePassed(DCur) /\ DSet(DTickOp(DCur)) /\ UNCHANGED ndg

DInternal == StartAttempt \/ GiveUp \/ Retry \/ RecvAccept \/ RecvDiscardOther
             \/ RecvDiscardShort \/ RecvError \/ RecvLate
DNext == Submit \/ Deliver \/ DInternal \/ DTick
DSpec == DInitPred /\ ndg = 0 /\ [][DNext]_<<dvars, ndg>>
DLiveSpec == DSpec /\ WF_<<dvars, ndg>>(DInternal) /\ WF_<<dvars, ndg>>(DTick)

--------------------------------------------------------------------------
(* the property *)
DOwnAnswerOf(s) == \A k \in 1..Len(s.done) :
                      s.done[k].ok => IsAnswer(s.done[k].f, s.done[k].n, s.q)
DAtMostOnceOf(s) == Len(s.done) <= 1 /\ (s.ph = "done" <=> Len(s.done) = 1)
\* the retry and time budget: at most 1 + max_retries datagrams are sent,
\* at most that many read timeouts are spent waiting
\* - the budget being the configured one (asked for, capped to the range)
DBudgetOf(s) == /\ s.att <= 1 + MRof(s) /\ Len(s.sent) <= s.att
                /\ s.e <= RDof(s)
                /\ s.waited <= (1 + MRof(s)) * RDof(s)
                /\ \A k \in 1..Len(s.sent) : s.sent[k] = OnWire(s)
\* a datagram is only ever accepted for the attempt that is current
DCurrentAttemptOf(s) == \A k \in 1..Len(s.done) : s.done[k].ok => s.done[k].n = s.att

\* the budget in force is the one the caller configured
DConfiguredOf(s) == /\ DgHonoured(s.conf.sc.calls, s.conf.eff)
                    /\ s.conf.mr = s.conf.eff.mr
                    /\ (s.conf.rd - 1) * TickMs < s.conf.eff.rto
                    /\ (s.conf.rd * TickMs >= s.conf.eff.rto \/ s.conf.rd = 1)

DConfigured     == DConfiguredOf(DCur)
DOwnAnswer      == DOwnAnswerOf(DCur)
DAtMostOnce     == DAtMostOnceOf(DCur)
DBudget         == DBudgetOf(DCur)
DCurrentAttempt == DCurrentAttemptOf(DCur)
DCompletion     == (q # 0) ~> (done # <<>>)
=============================================================================
