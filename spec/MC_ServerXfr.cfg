CONSTANTS
  Dev = {}
  Conns = {1}
  MaxReq = 1
  QCaps = {1}
  Kinds = {"xfr", "fblong"}
  MaxCredit = 4
  MaxTick = 2
  NP = 1
  Limit = 1
  MaxAErr = 0
  AAMs = {TRUE}
  MaxFail = 0
  MaxAbort = 1
SPECIFICATION SpecConn
INVARIANT EachResponseOnce
INVARIANT IdQuestionPreserved
INVARIANT Framed
INVARIANT IdleUsesValueInForce
PROPERTY ClosedFinal
CHECK_DEADLOCK FALSE
