-------------------------- MODULE Trace_MsgBuilder --------------------------
(* I->S: a recorded run of the real message builder (one event per public  *)
(* call, see harness/src/bin/record_builder.rs) must be a behaviour of      *)
(* MsgBuilder.tla: every call is replayed with its recorded arguments, and  *)
(* result, length, header counts and stream prefix must be the ones the     *)
(* specification computes.  At finish the octets the real builder produced  *)
(* must parse back (reader of MsgBuilderWire) to the items the              *)
(* specification accepted; without a compressor they must be the plain      *)
(* encodings.                                                               *)
EXTENDS MsgBuilder, Json, IOUtils

Rec == ndJsonDeserialize(IOEnv.TRACE)

VARIABLE l
tvars == <<vars, l>>

IsEv(e) == l <= Len(Rec) /\ Rec[l].ev = e /\ l' = l + 1

TInit == l = 1 /\ Init0("none", "vec", Unbounded)

T_New == /\ IsEv("new")
         /\ cfg' = [comp |-> Rec[l].comp, tgt |-> Rec[l].tgt, cap |-> Rec[l].cap]
         /\ buf' = BAppend(EmptyBuf, [i \in 1..12 |-> 0])
         /\ tab' = EmptyTab(Rec[l].comp)
         /\ plog' = {}
         /\ section' = 0
         /\ starts' = <<12, 12, 12, 12>>
         /\ limit' = NoLimit
         /\ shim' = 12
         /\ accepted' = <<>>
         /\ res' = "-" /\ amb' = FALSE

Observed == /\ buf'.len = Rec[l].len
            /\ HdrCounts(buf') = Rec[l].cnt
            /\ shim' = Rec[l].shim

T_Push == /\ IsEv("push")
          /\ LET it == Rec[l].item IN
               \/ PushQuestion(it)
               \/ (it.k = "r" /\ it.rtype # 41 /\ PushRecord(it))
               \/ (it.k = "r" /\ it.rtype = 41 /\ PushOpt(it))
          /\ res' = Rec[l].res
          /\ Observed

T_Goto == IsEv("goto") /\ GotoSection(Rec[l].s) /\ Observed
T_Rewind == IsEv("rewind") /\ Rewind /\ Observed
T_Limit == IsEv("limit") /\ SetLimit(Rec[l].n) /\ Observed
T_Clear == IsEv("clear") /\ ClearLimit /\ Observed

T_Finish ==
  /\ IsEv("finish")
  /\ Finish
  /\ LET real == BufOfSeq(Rec[l].octets)
         v == ParsesBackTo(real, accepted, cfg.comp = "none")
     IN /\ real.len = buf.len
        /\ v = ParseBack              \* same verdict as for the octets of the specification,
        /\ (Dev = {} => v)            \* which is "parses back" unless a deviation is being replayed
        /\ Rec[l].lib = v             \* the library's own reader agrees (checked by the recorder)
  /\ Rec[l].noop = TRUE             \* failed pushes left the octets bit-identical
  /\ Rec[l].shim_ok = TRUE          \* stream slice = prefix + message, prefix = length

TNext == T_New \/ T_Push \/ T_Goto \/ T_Rewind \/ T_Limit \/ T_Clear \/ T_Finish
TSpec == TInit /\ [][TNext]_tvars

\* evaluated in every state of the replay
TraceInv == /\ CountsMatch /\ ShimMatches /\ WithinCapacity
            /\ TableWithinBufferDev

Accepted ==
  LET d == TLCGet("stats").diameter
      brief(e) == IF e.ev = "finish" THEN [ev |-> "finish", lib |-> e.lib, libwhy |-> e.libwhy,
                                           noop |-> e.noop, shim_ok |-> e.shim_ok,
                                           len |-> Len(e.octets)]
                  ELSE e
  IN IF d = Len(Rec) + 1 THEN TRUE
     ELSE /\ PrintT("TRACE_REJECTED " \o ToJson([matched |-> d - 1, total |-> Len(Rec),
                      event |-> IF d <= Len(Rec) THEN brief(Rec[d]) ELSE [ev |-> "none"]]))
          /\ FALSE
=============================================================================
