-------------------------- MODULE Trace_MsgBuilder --------------------------
(* I->S: a recorded run of the real message builder (one event per public  *)
(* call, see harness/src/bin/record_builder.rs) must be a behaviour of      *)
(* MsgBuilder.tla: every call is replayed with its recorded arguments, and  *)
(* result, length, header counts and stream prefix must be the ones the     *)
(* specification computes.  At finish the octets the real builder produced  *)
(* must parse back (reader of MsgBuilderWire) to the items the              *)
(* specification accepted; without a compressor they must be the plain      *)
(* encodings.                                                               *)
EXTENDS MsgBuilder, Json, IOUtils

Rec == ndJsonDeserialize(IOEnv.TRACE)

VARIABLES l,
          idk    \* the message ID is known (FALSE after request_axfr, which draws a random one)
tvars == <<vars, l, idk>>
IdKnown == idk

IsEv(e) == l <= Len(Rec) /\ Rec[l].ev = e /\ l' = l + 1

TInit == l = 1 /\ idk = TRUE /\ Init0("none", "vec", Unbounded)

T_New == /\ IsEv("new")
         /\ idk' = TRUE
         /\ cfg' = [comp |-> Rec[l].comp, tgt |-> Rec[l].tgt, cap |-> Rec[l].cap]
         /\ buf' = BAppend(EmptyBuf, [i \in 1..12 |-> 0])
         /\ tab' = EmptyTab(Rec[l].comp)
         /\ plog' = {}
         /\ section' = 0
         /\ starts' = <<12, 12, 12, 12>>
         /\ limit' = NoLimit
         /\ shim' = 12
         /\ accepted' = <<>>
         /\ hdr' = <<0, 0, 0, 0>>
         /\ res' = "-" /\ amb' = FALSE

Observed == /\ buf'.len = Rec[l].len
            /\ HdrCounts(buf') = Rec[l].cnt
            /\ shim' = Rec[l].shim
            /\ BU16(buf', 2) = Rec[l].fl                 \* flags, opcode, RCODE
            /\ (IdKnown' => BU16(buf', 0) = Rec[l].id)   \* message ID unless it is a random one

HasRc(e) == "rc" \in DOMAIN e
T_Push == /\ IsEv("push")
          /\ LET it == Rec[l].item IN
               \/ PushQuestion(it)
               \/ (it.k = "r" /\ it.rtype # 41 /\ PushRecord(it))
               \/ (it.k = "r" /\ it.rtype = 41 /\ ~HasRc(Rec[l]) /\ PushOpt(it))
               \/ (it.k = "r" /\ it.rtype = 41 /\ HasRc(Rec[l]) /\ PushOptRcode(it, Rec[l].rc))
          /\ res' = Rec[l].res
          /\ idk' = idk
          /\ Observed

T_Hdr == IsEv("hdr") /\ SetHeader(Rec[l].h) /\ idk' = TRUE /\ Observed
\* a start_answer / request_axfr that failed consumed the builder: nothing was observed
T_Start == /\ IsEv("start")
           /\ StartReply(Rec[l].kind, Rec[l].rq, Rec[l].rc, Rec[l].qs)
           /\ res' = Rec[l].res
           /\ idk' = (Rec[l].kind # "axfr")
           /\ (res' # "gone" => Observed)

T_Goto == IsEv("goto") /\ GotoSection(Rec[l].s) /\ idk' = idk /\ Observed
T_Rewind == IsEv("rewind") /\ Rewind /\ idk' = idk /\ Observed
T_Limit == IsEv("limit") /\ SetLimit(Rec[l].n) /\ idk' = idk /\ Observed
T_Clear == IsEv("clear") /\ ClearLimit /\ idk' = idk /\ Observed

T_Finish ==
  /\ IsEv("finish")
  /\ Finish
  /\ idk' = idk
  /\ LET real == BufOfSeq(Rec[l].octets)
         v == ParsesBackTo(real, accepted, cfg.comp = "none")
     IN /\ real.len = buf.len
        /\ SubSeq(real.s, 3, 4) = SubSeq(BHdr(buf), 3, 4)
        /\ (idk => SubSeq(real.s, 1, 2) = SubSeq(BHdr(buf), 1, 2))
        /\ v = ParseBack              \* same verdict as for the octets of the specification,
        /\ (Dev = {} => v)            \* which is "parses back" unless a deviation is being replayed
        /\ Rec[l].lib = v             \* the library's own reader agrees (checked by the recorder)
  /\ Rec[l].noop = TRUE             \* failed pushes left the octets bit-identical
  /\ Rec[l].shim_ok = TRUE          \* stream slice = prefix + message, prefix = length

TNext == T_New \/ T_Push \/ T_Hdr \/ T_Start \/ T_Goto \/ T_Rewind \/ T_Limit \/ T_Clear \/ T_Finish
TSpec == TInit /\ [][TNext]_tvars

\* evaluated in every state of the replay
TraceInv == /\ CountsMatch /\ ShimMatches /\ WithinCapacity
            /\ (Dev = {} => HeaderKept)
            /\ TableWithinBufferDev

Accepted ==
  LET d == TLCGet("stats").diameter
      brief(e) == IF e.ev = "finish" THEN [ev |-> "finish", lib |-> e.lib, libwhy |-> e.libwhy,
                                           noop |-> e.noop, shim_ok |-> e.shim_ok,
                                           len |-> Len(e.octets)]
                  ELSE e
  IN IF d = Len(Rec) + 1 THEN TRUE
     ELSE /\ PrintT("TRACE_REJECTED " \o ToJson([matched |-> d - 1, total |-> Len(Rec),
                      event |-> IF d <= Len(Rec) THEN brief(Rec[d]) ELSE [ev |-> "none"]]))
          /\ FALSE
=============================================================================
