------------------------------ MODULE MC_Wire ------------------------------
(* Enumeration of DNS messages for Wire.tla: header shapes x bodies built    *)
(* from boundary chunks (root, short labels in both cases, pointers          *)
(* backward / to itself / into a label / forward, reserved label types, a    *)
(* label header without data, half a pointer), questions, and records of     *)
(* the types whose RDATA the specification knows, with RDLENGTH exact and     *)
(* off by one.  TLC checks the laws of Wire.tla on every message and emits    *)
(* every message with its projection as an S->I case.  A second small         *)
(* machine (NWStep) walks one name step by step and checks the termination      *)
(* measure of compressed-name parsing as an action property.                  *)
EXTENDS Wire, TLC, Json

CONSTANTS Big            \* TRUE: the larger chunk alphabets (thorough tier)

VARIABLES ph,            \* 0 start, 1 family and first choices fixed, 2 message complete
          sel,           \* the partial choice made in phase 1
          m,             \* the message (phase 2)
          nw             \* name-walk machine state (phase 2): [p, used, st]
vars == <<ph, sel, m, nw>>

---------------------------------------------------------------------------
(* chunk alphabets *)

NCsmall == { <<>>, <<0>>, <<1, 97>>, <<1, 65>>, <<192, 12>>, <<192, 14>>, <<64>>, <<192>> }
NCbig == NCsmall \cup { <<192, 13>>, <<128, 1>>, <<63>>, <<2, 0, 0>> }
NC == IF Big THEN NCbig ELSE NCsmall

QFix == { <<0, 1, 0, 1>>, <<0, 252, 0, 1>>, <<0, 1, 0>>, <<>> }

\* header shapes <<flags, qd, an, ns, ar>>
HQ == { <<0, 1, 0, 0, 0>>, <<32768, 1, 1, 0, 0>>, <<32768, 1, 65535, 0, 0>>, <<0, 2, 0, 0, 0>>,
        <<0, 0, 0, 0, 0>>, <<0, 65535, 0, 0, 0>>, <<32768, 0, 1, 0, 0>>, <<33792, 1, 2, 0, 0>> }
HR == { <<32768, 1, 1, 0, 0>>, <<32768, 1, 0, 0, 1>>, <<32768, 1, 0, 1, 0>>, <<32768, 1, 2, 0, 0>>,
        <<32768, 1, 65535, 0, 0>>, <<32768, 1, 1, 0, 1>> }
HRR == { <<32768, 1, 2, 0, 0>>, <<32768, 1, 65535, 0, 0>>, <<32768, 1, 1, 1, 0>>, <<32768, 1, 1, 0, 1>> }

Hdr(h) == EncU16(4660) \o EncU16(h[1]) \o EncU16(h[2]) \o EncU16(h[3]) \o EncU16(h[4]) \o EncU16(h[5])

Q0 == { <<1, 97, 0, 0, 1, 0, 1>>,       \* a. A IN     (offsets 12..18)
        <<1, 97, 0, 0, 252, 0, 1>> }    \* a. AXFR IN

Owners == { <<0>>, <<1, 97, 0>>, <<192, 12>>, <<1, 65, 192, 12>>, <<192, 19>>, <<64>> }

Zero20 == [i \in 1..20 |-> 0]
\* RDATA alternatives per type
RDs(t) ==
  CASE t \in {T_CNAME, T_NS, T_PTR} -> {a \o b : a \in NC, b \in NC}
    [] t = T_MX -> {<<0, 10>> \o a \o b : a \in NC, b \in {<<>>, <<0>>, <<192, 12>>}} \cup {<<0>>}
    [] t = T_SOA -> {a \o b \o Zero20 : a \in {<<0>>, <<192, 12>>, <<1, 97>>, <<64>>},
                                         b \in {<<0>>, <<192, 12>>, <<>>, <<192, 40>>}}
                    \cup {<<0, 0>> \o SubSeq(Zero20, 1, 19)}
    [] t = T_OPT -> { <<>>, <<0, 10, 0, 1, 7>>, <<0, 10, 0, 2, 7>>, <<0, 3, 0, 0, 0, 8, 0, 0>>, <<0, 1, 0>> }
    [] t = T_A -> { <<1, 2, 3, 4>>, <<1, 2, 3>> }
    [] t = 65280 -> { <<>>, <<7, 7>> }
    [] OTHER -> { <<1, 97>> }
\* well-formed RDATA per type, to be padded with junk
RDsJunk(t) ==
  CASE t \in {T_CNAME, T_NS, T_PTR} -> { <<0>>, <<192, 12>>, <<1, 97, 192, 12>> }
    [] t = T_MX -> { <<0, 10, 0>>, <<0, 10, 192, 12>> }
    [] t = T_SOA -> { <<0, 0>> \o Zero20, <<192, 12, 1, 97, 0>> \o Zero20 }
    [] t = T_OPT -> { <<>>, <<0, 10, 0, 1, 7>> }
    [] t = T_A -> { <<1, 2, 3, 4>> }
    [] OTHER -> { <<7, 7>> }
RTypes == {T_CNAME, T_NS, T_MX, T_SOA, T_OPT, T_A, 65280, 16}
Deltas(t) == IF t \in {T_NS, T_PTR, 16} THEN {0} ELSE {0, 1, -1}

RFix(t, class, ttlhi, ttllo, rdlen) ==
  EncU16(t) \o EncU16(class) \o EncU16(ttlhi) \o EncU16(ttllo) \o EncU16(rdlen)
Rec(owner, t, rd, delta) ==
  owner \o RFix(t, IF t = T_OPT THEN 1232 ELSE 1, IF t = T_OPT THEN 256 ELSE 0,
                IF t = T_OPT THEN 32768 ELSE 60, Max(Len(rd) + delta, 0)) \o rd

\* CNAME chains: two records after the question "a."
Owners2 == { <<1, 97, 0>>, <<192, 12>>, <<1, 98, 0>>, <<1, 65, 0>>, <<0>> }
Targets2 == { <<0>>, <<1, 98, 0>>, <<192, 12>>, <<1, 97, 0>>, <<1, 66, 0>>, <<192, 19>>, <<192, 31>> }

---------------------------------------------------------------------------
(* Limit shapes (family L): names at the 253/254/255/256/257-octet boundary, *)
(* uncompressed (few long labels, many one-octet labels) and completed by    *)
(* a pointer into the question name, as question name and as owner of a      *)
(* record in each of the three record sections; every section has a record   *)
(* so that the long owner has to be skipped to reach what follows.           *)

F(n, v) == [i \in 1..n |-> v]
Lab(n, c) == <<n>> \o F(n, c)
RECURSIVE Labs(_, _)
Labs(lens, c) == IF lens = <<>> THEN <<>> ELSE Lab(Head(lens), c) \o Labs(Tail(lens), c)
LQShapes == { <<63, 63, 63, 61>>, <<63, 63, 63, 62>>, <<63, 63, 63, 60>>, <<63, 63, 63, 59>>,
              F(127, 1), F(128, 1), F(126, 1), <<3>> }
\* owners: <<"U", label lengths>> or <<"P", prefix label lengths, pointer target>>
LOwners == { <<"U", l>> : l \in LQShapes } \cup
           { <<"P", <<63>>, 76>>, <<"P", <<1, 61>>, 76>>, <<"P", <<1, 62>>, 76>>, <<"P", <<>>, 12>>,
             <<"P", <<63, 63>>, 140>>, <<"P", <<63, 63, 1>>, 140>>, <<"P", <<62>>, 76>> }
LOwnerOctets(o) ==
  IF o[1] = "U" THEN Labs(o[2], 98) \o <<0>>
  ELSE Labs(o[2], 98) \o <<192 + (o[3] \div 256), o[3] % 256>>
PlainA(owner) == owner \o <<0, 1, 0, 1, 0, 0, 0, 60, 0, 4, 1, 2, 3, 4>>
LMsg(qs, sec, o) ==
  Hdr(<<32768, 1, 1, 1, 1>>) \o Labs(qs, 97) \o <<0, 0, 1, 0, 1>>
    \o PlainA(IF sec = 1 THEN LOwnerOctets(o) ELSE <<0>>)
    \o PlainA(IF sec = 2 THEN LOwnerOctets(o) ELSE <<0>>)
    \o PlainA(IF sec = 3 THEN LOwnerOctets(o) ELSE <<0>>)
LStarts(qs, sec) ==
  LET qend == 12 + Len(Labs(qs, 97)) + 5 IN <<12, qend + (sec - 1) * 15>>

---------------------------------------------------------------------------
(* Typed RDATA with hostile inner structure (family T): the types whose      *)
(* RDATA has internal framing.  The specification makes no statement on      *)
(* their well-formedness (k = "opaque"); the point is the implementation      *)
(* side: parsing yields a value or an error, and a value can be displayed,    *)
(* iterated, compared, hashed, measured and composed without failure.         *)

BMs == { <<>>, <<0, 0>>, <<0, 1, 64>>, <<0, 1, 0>>, <<0, 32>> \o F(32, 1), <<0, 33>> \o F(33, 1),
         <<0, 34>> \o F(34, 1), <<1, 1, 1, 0, 1, 64>>, <<0, 1, 64, 0, 1, 64>>, <<0, 1, 64, 7>>, <<0>>,
         <<0, 2, 1>>, <<0, 1, 64, 1, 0>>, <<0, 0, 1, 1, 1>>, <<255, 32>> \o F(32, 255) }
BMs3 == { <<>>, <<0, 0>>, <<0, 1, 64>>, <<0, 33>> \o F(33, 1), <<0, 1, 64, 0, 1, 64>> }
SvcParamsAlts == { <<>>, <<0, 1, 0, 0>>, <<0, 1, 0, 3, 2, 104, 50>>, <<0, 1, 0, 5, 2, 104>>,
         <<0, 1, 0, 3, 5, 104, 50>>, <<0, 3, 0, 2, 1, 187>>, <<0, 3, 0, 1, 1>>, <<0, 0, 0, 2, 0, 1>>,
         <<0, 0, 0, 1, 0>>, <<0, 0, 0, 0>>, <<0, 2, 0, 0, 0, 1, 0, 0>>,
         <<0, 3, 0, 2, 1, 187, 0, 3, 0, 2, 1, 187>>, <<0, 4, 0, 3, 1, 2, 3>>, <<0, 4, 0, 0>>,
         <<0, 6, 0, 15>> \o F(15, 1), <<0, 1, 0>>, <<0, 5, 0, 1, 7>>, <<255, 255, 0, 0>> }
SvcLens == {0, 1, 2, 3, 4, 5, 7, 8, 9, 12, 15, 16, 17, 20, 31, 32, 33}

\* EDNS options: every option type of src/base/opt with data lengths around
\* its framing, and the client-subnet grid family x source prefix x scope
\* prefix x address octets (one fewer than, exactly, one more than needed)
OptLens == {0, 1, 2, 3, 4, 5, 7, 8, 9, 15, 16, 17, 24, 32, 33, 40, 41}
OptCodes == {3, 5, 6, 7, 9, 10, 11, 12, 13, 14, 15, 65001}
OneOpt(code, data) == EncU16(code) \o EncU16(Len(data)) \o data
PrefixOctets(p) == (p + 7) \div 8
SubnetData == UNION { { EncU16(fam) \o <<src, scope>> \o F(n, 10) :
                          fam \in {0, 1, 2, 3}, scope \in {0, 33},
                          n \in {Max(PrefixOctets(src) - 1, 0), PrefixOctets(src), PrefixOctets(src) + 1} }
                      : src \in {0, 1, 24, 32, 33, 64, 128, 129, 255} }
             \cup { <<>>, <<0>>, <<0, 1>>, <<0, 1, 24>> }
OptionAlts == { OneOpt(8, d) : d \in SubnetData }
              \cup { OneOpt(c, F(l, 1)) : c \in OptCodes, l \in OptLens }
              \cup { OneOpt(13, <<1, 97, 0>>), OneOpt(13, <<192, 12>>), OneOpt(13, <<1, 97>>),
                     OneOpt(15, <<0, 1, 104, 105>>), OneOpt(15, <<0, 1, 255, 254>>),
                     OneOpt(8, <<0, 1, 24, 0, 10, 1, 2>>) \o OneOpt(10, F(8, 1)) }

TsigBody(maclen, mac, otherlen, other) ==
  <<0>> \o F(6, 0) \o <<1, 44>> \o EncU16(maclen) \o mac \o <<0, 0, 0, 0>> \o EncU16(otherlen) \o other

HostileRD(t) ==
  CASE t = 47 -> {<<0>> \o b : b \in BMs} \cup {<<192, 12, 0, 1, 64>>, <<1, 98, 0, 0, 1, 64>>, <<>>}
    [] t = 50 -> {<<1, 0, 0, 0>> \o sa \o ha \o b :
                    sa \in {<<0>>, <<1, 171>>, <<5, 1>>},
                    ha \in {<<0>>, <<2, 7, 7>>, <<20>> \o F(20, 7), <<255, 1>>}, b \in BMs3}
    [] t = 51 -> { <<1, 0, 0, 0, 0>>, <<1, 0, 0, 0, 1, 171>>, <<1, 0, 0, 0, 4, 1>>, <<1, 0, 0, 0>>, <<1, 0, 0, 0, 0, 9>> }
    [] t = 16 -> { <<>>, <<0>>, <<1, 97>>, <<5, 97>>, <<1, 97, 0>>, <<255>>, <<0, 0, 1, 98>>, <<1, 97, 2, 98>> }
    [] t = 13 -> { <<1, 97, 1, 98>>, <<1, 97>>, <<1, 97, 5, 98>>, <<0, 0>>, <<1, 97, 1, 98, 7>>, <<>> }
    [] t \in {64, 65} -> {<<0, 1>> \o tg \o pa : tg \in {<<0>>, <<192, 12>>}, pa \in SvcParamsAlts}
                          \cup {<<0, 0, 0>>, <<0, 0, 0, 0, 1, 0, 0>>, <<0>>}
                          \* every known key (and one unknown) with values of length 0, 1, n-1, n,
                          \* n+1, 2n-1, 2n, 2n+1 for the element sizes 2, 4 and 16
                          \cup {<<0, 1, 0>> \o EncU16(k) \o EncU16(l) \o F(l, 1) : k \in (0..9) \cup {4096}, l \in SvcLens}
    [] t = 45 -> { <<10, 0, 2>>, <<10, 0, 2, 1, 2>>, <<10, 1, 2, 1, 2, 3, 4>>, <<10, 1, 2, 1, 2>>,
                   <<10, 2, 2>> \o F(16, 1), <<10, 2, 2, 1>>, <<10, 3, 2, 0>>, <<10, 3, 2, 192, 12>>,
                   <<10, 3, 2, 1, 97>>, <<10, 4, 2>>, <<10, 255, 2, 1>>, <<10>>, <<>> }
    [] t = 250 -> { TsigBody(0, <<>>, 0, <<>>), TsigBody(2, <<1, 2>>, 6, F(6, 1)), TsigBody(5, <<1>>, 0, <<>>),
                    TsigBody(0, <<>>, 9, <<1>>), TsigBody(0, <<>>, 2, <<1, 2>>), <<0>> \o F(5, 0), <<192, 12>> \o F(16, 0) }
    [] t = 46 -> { F(18, 0) \o <<0>>, F(18, 0) \o <<192, 12>>, F(17, 0), F(18, 0) \o <<0, 1, 2>>,
                   <<0, 47>> \o F(16, 0) \o <<1, 97, 0>>, F(18, 0) \o <<64>> }
    [] t = 35 -> { <<0, 1, 0, 1, 1, 85, 0, 0, 0>>, <<0, 1, 0, 1, 5, 85>>, <<0, 1, 0, 1, 0, 0, 0, 192, 12>>,
                   <<0, 1, 0, 1, 0, 0, 0>>, <<0, 1, 0>> }
    [] t = 257 -> { <<0, 5, 105, 115, 115, 117, 101, 97>>, <<0, 0>>, <<0, 9, 105>>, <<0>>, <<>>, <<128, 1, 97>> }
    [] t = 48 -> { <<1, 1, 3, 8>>, <<1, 1, 3>>, <<1, 1, 3, 8, 1, 2>>, <<>> }
    [] t = 43 -> { <<0, 1, 8, 2>>, <<0, 1, 8>>, <<0, 1, 8, 2, 7, 7>> }
    [] t = 33 -> { <<0, 1, 0, 1, 0, 80, 0>>, <<0, 1, 0, 1, 0, 80, 192, 12>>, <<0, 1, 0, 1, 0, 80>>, <<0, 1, 0, 1, 0, 80, 0, 7>> }
    [] t = 63 -> { <<0, 0, 0, 1, 1, 1>>, <<0, 0, 0, 1, 1, 1>> \o F(48, 7), <<0, 0, 0, 1, 1>>, <<0, 0, 0, 1, 9, 9, 1>> }
    [] t \in {52, 44, 61, 10} -> { <<>>, <<1>>, <<1, 1, 1, 7>>, <<1, 1>> }
    [] t \in {39, 17, 14} -> { <<0>>, <<192, 12>>, <<1, 97, 0, 7>>, <<0, 0>>, <<192, 12, 0>>, <<192, 12, 192, 12>>, <<64>>, <<>> }
    [] OTHER -> { <<>> }
\* a well-formed RDATA per type the new API knows, to be padded / cut (family J)
JTemplates == { <<1, <<1, 2, 3, 4>>>>, <<28, F(16, 1)>>, <<13, <<1, 97, 1, 98>>>>, <<16, <<1, 97>>>>,
                <<17, <<0, 0>>>>, <<17, <<192, 12, 0>>>>, <<33, <<0, 1, 0, 1, 0, 80, 0>>>>, <<39, <<0>>>>,
                <<39, <<1, 98, 0>>>>, <<43, <<0, 1, 8, 2, 7, 7>>>>, <<46, F(18, 0) \o <<0, 5, 5>>>>,
                <<47, <<0, 0, 1, 64>>>>, <<47, <<1, 98, 0, 0, 1, 64>>>>, <<48, <<1, 1, 3, 8, 1, 2>>>>,
                <<50, <<1, 0, 0, 0, 0, 1, 7, 0, 1, 64>>>>, <<51, <<1, 0, 0, 0, 0>>>>,
                <<51, <<1, 0, 0, 0, 1, 171>>>>, <<63, <<0, 0, 0, 1, 1, 1>> \o F(48, 7)>>,
                <<2, <<1, 98, 0>>>>, <<5, <<192, 12>>>>, <<12, <<1, 98, 192, 12>>>>, <<15, <<0, 10, 1, 98, 0>>>>,
                <<6, <<1, 98, 0, 192, 12>> \o Zero20>>, <<41, <<0, 10, 0, 1, 7>>>> }
JVariants(rd) == { rd, rd \o <<7>>, rd \o <<7, 7, 7, 7>>, rd \o <<0>>, SubSeq(rd, 1, Len(rd) - 1) }

\* Family X: a well-formed message with two or three records in every
\* section, cut at every length (header counts unchanged): a truncated record
\* at every position of every section.
XRec(b) == <<0, 0, 1, 0, 1, 0, 0, 0, 60, 0, 4, b, b, b, b>>
XFull == Hdr(<<32768, 1, 2, 2, 3>>) \o <<1, 97, 0, 0, 1, 0, 1>>
           \o XRec(1) \o XRec(2) \o XRec(3) \o XRec(4) \o XRec(5) \o XRec(6)
           \o <<0, 0, 41, 4, 208, 0, 0, 0, 0, 0, 0>>

\* Family F: larger messages (a filler record) so that a name and the targets
\* of the pointers into it sit at offsets 255/256/257, 300, 511/512: names
\* whose pointer needs the high six bits.
FarTargets == {255, 256, 257, 300, 511, 512}
FarMsg(T, d) ==
  LET ptr(x) == <<192 + (x \div 256), x % 256>> IN
  Hdr(<<32768, 1, 3, 0, 0>>) \o <<1, 97, 0, 0, 1, 0, 1>>
    \o <<0>> \o EncU16(65280) \o <<0, 1, 0, 0, 0, 60>> \o EncU16(T - 30) \o F(T - 30, 7)
    \o <<4, 109, 97, 105, 108, 7, 101, 120, 97, 109, 112, 108, 101, 3, 99, 111, 109, 0>>
    \o <<0, 1, 0, 1, 0, 0, 0, 60, 0, 4, 1, 2, 3, 4>>
    \o <<3, 102, 116, 112>> \o ptr(T + d) \o <<0, 5, 0, 1, 0, 0, 0, 60, 0, 4, 1, 120>> \o ptr(T + 5)
FarStarts(T) == <<T, T + 32, T + 48>>

\* Family E: OPT records with extended rcode /= version, DO set and clear,
\* payload sizes 0 / 512 / 65535, with and without an option
EdnsMsgs == { Hdr(<<32768, 1, 0, 0, 1>>) \o <<1, 97, 0, 0, 1, 0, 1>>
                \o <<0, 0, 41>> \o EncU16(c) \o EncU16(hi) \o EncU16(lo) \o EncU16(Len(o)) \o o :
              c \in {0, 512, 65535}, hi \in {0, 256, 1, 4097, 5888}, lo \in {0, 32768, 32769},
              o \in {<<>>, OneOpt(10, F(8, 1))} }

\* Family K: the boundary values of computations that accessors of parsed
\* records perform (key tags, digest lengths, flag tests): DNSKEY/CDNSKEY by
\* algorithm x key length, DS/CDS by digest type x digest length, SSHFP, TLSA
KeyRDs == { <<fl[1], fl[2], 3, alg>> \o F(n, 200) :
              fl \in {<<1, 1>>, <<0, 128>>}, alg \in {0, 1, 5, 8, 13, 15, 253}, n \in {0, 1, 2, 3, 4, 5, 64} }
DsRDs == { <<255, 255, 8, dt>> \o F(n, 9) : dt \in {0, 1, 2, 4}, n \in {0, 1, 19, 20, 21, 32, 48} }
FpRDs == { <<a, b>> \o F(n, 9) : a \in {0, 1, 4}, b \in {0, 1, 2}, n \in {0, 20, 32} }
            \cup { <<a, b, c>> \o F(n, 9) : a \in {0, 3}, b \in {0, 1}, c \in {0, 1, 2}, n \in {0, 32} }
KCases == { <<48, rd>> : rd \in KeyRDs } \cup { <<60, rd>> : rd \in KeyRDs }
          \cup { <<43, rd>> : rd \in DsRDs } \cup { <<59, rd>> : rd \in DsRDs }
          \cup { <<44, rd>> : rd \in FpRDs } \cup { <<52, rd>> : rd \in FpRDs }

\* Family C: pointer chains in the middle of a name: ordinary labels followed
\* by a pointer whose target is itself a bare pointer (2 and 3 hops)
ChainMsgs ==
  LET q == <<1, 97, 0, 0, 1, 0, 1>>                                 \* a. at 12
      r1 == <<192, 12>> \o <<0, 1, 0, 1, 0, 0, 0, 60, 0, 4, 1, 2, 3, 4>>   \* owner: bare pointer at 19
      r2(pt) == <<3, 119, 119, 119, 192, pt>> \o <<0, 5, 0, 1, 0, 0, 0, 60>>   \* owner www + pointer, at 35
      rd(pt2) == <<3, 102, 116, 112, 1, 120, 192, pt2>>              \* ftp.x + pointer
  IN { Hdr(<<32768, 1, 2, 0, 0>>) \o q \o r1 \o r2(pt) \o EncU16(8) \o rd(pt2) :
         pt \in {12, 19}, pt2 \in {12, 19, 35, 39} }
ChainStarts == <<19, 35, 51>>

\* Family M: sections of two or three records of mixed classes (CH, HS, NONE,
\* ANY next to IN) and types, with RDATA the type rejects, with a type the
\* specification does not know, and with a broken owner: what the typed
\* views (limit_to, limit_to_in, into_records) select from and stumble over
RecC(owner, t, class, ttl, rd, delta) ==
  owner \o RFix(t, class, 0, ttl, Max(Len(rd) + delta, 0)) \o rd
MRecs == { RecC(<<192, 12>>, T_A, 1, 1, <<10, 0, 0, 1>>, 0),
           RecC(<<192, 12>>, T_A, 3, 2, <<10, 0, 0, 2>>, 0),
           RecC(<<1, 98, 0>>, T_A, 254, 3, <<10, 0, 0>>, 0),
           RecC(<<192, 12>>, T_A, 1, 4, <<10, 0, 0>>, 0),
           RecC(<<192, 12>>, T_CNAME, 4, 5, <<1, 98, 0>>, 0),
           RecC(<<192, 12>>, T_CNAME, 1, 6, <<1, 99, 192, 12>>, 0),
           RecC(<<0>>, T_AAAA, 255, 7, F(16, 9), 0),
           RecC(<<192, 12>>, 16, 3, 8, <<1, 97>>, 0),
           RecC(<<192, 12>>, 16, 1, 9, <<5, 97>>, 0),
           RecC(<<192, 12>>, T_MX, 1, 10, <<0, 5, 192, 12, 7>>, 0),
           RecC(<<0>>, T_OPT, 1232, 0, <<0, 10, 0, 1, 7>>, 0),
           RecC(<<192, 60>>, T_A, 1, 11, <<10, 0, 0, 3>>, 0) }
HM == { <<32768, 1, 3, 0, 0>>, <<32768, 1, 2, 1, 0>>, <<32768, 1, 1, 1, 1>> }
        \cup (IF Big THEN { <<43008, 1, 0, 1, 2>> } ELSE {})
\* the third record: every alternative in the thorough tier, four of them otherwise
MRecs3 == IF Big THEN MRecs
          ELSE { RecC(<<192, 12>>, T_A, 3, 2, <<10, 0, 0, 2>>, 0), RecC(<<192, 12>>, T_A, 1, 4, <<10, 0, 0>>, 0),
                 RecC(<<0>>, T_OPT, 1232, 0, <<0, 10, 0, 1, 7>>, 0), RecC(<<192, 60>>, T_A, 1, 11, <<10, 0, 0, 3>>, 0) }

TTypes == {47, 50, 51, 16, 13, 64, 65, 45, 250, 46, 35, 257, 48, 43, 33, 63, 52, 44, 61, 10, 39, 17, 14}
HT == { <<32768, 1, 1, 0, 0>>, <<32768, 1, 0, 0, 1>> }

---------------------------------------------------------------------------
(* two-phase choice so that TLC's workers share the enumeration *)

Init == ph = 0 /\ sel = <<>> /\ m = <<>> /\ nw = [p |-> 0, used |-> 0, st |-> "off"]

NWInit(msg) == [p |-> 12, used |-> 0, st |-> IF Len(msg) >= 12 THEN "run" ELSE "off"]

Phase1 ==
  /\ ph = 0 /\ ph' = 1 /\ UNCHANGED <<m, nw>>
  /\ \/ \E h \in HQ, a \in NC : sel' = <<"Q", h, a>>
     \/ \E a \in NC : sel' = <<"QQ", a>>
     \/ \E h \in HR, q \in Q0, o \in Owners : sel' = <<"R", h, q, o>>
     \/ \E h \in HRR, o \in Owners2 : sel' = <<"RR", h, o>>
     \/ sel' = <<"S">>
     \/ \E qs \in LQShapes, sec \in 1..3 : sel' = <<"L", qs, sec>>
     \/ \E h \in HT, t \in TTypes : sel' = <<"T", h, t>>
     \/ \E k \in 0..3 : sel' = <<"O", k>>
     \/ \E h \in HT : sel' = <<"J", h>>
     \/ \E k \in 0..3 : sel' = <<"X", k>>
     \/ \E T \in FarTargets : sel' = <<"F", T>>
     \/ \E k \in 0..2 : sel' = <<"E", k>>
     \/ \E h \in HT, k \in 0..3 : sel' = <<"K", h, k>>
     \/ sel' = <<"C">>
     \/ \E h \in HM, r1 \in MRecs : sel' = <<"M", h, r1>>

Finish(msg) == ph' = 2 /\ m' = msg /\ nw' = NWInit(msg) /\ UNCHANGED sel

Phase2 ==
  /\ ph = 1
  /\ \/ /\ sel[1] = "Q"
        /\ \E b \in NC, c \in NC, qf \in QFix : Finish(Hdr(sel[2]) \o sel[3] \o b \o c \o qf)
     \/ /\ sel[1] = "QQ"
        /\ \E b \in NC, c \in NC, d \in NC :
              Finish(Hdr(<<0, 2, 0, 0, 0>>) \o sel[2] \o b \o <<0, 1, 0, 1>> \o c \o d \o <<0, 1, 0, 1>>)
     \/ /\ sel[1] = "R"
        /\ \/ \E t \in RTypes : \E rd \in RDs(t), dl \in Deltas(t) :
                 Finish(Hdr(sel[2]) \o sel[3] \o Rec(sel[4], t, rd, dl))
           \* RDATA followed by 1 or 4 octets that RDLENGTH covers (trailing junk)
           \/ \E t \in RTypes \cup {T_PTR} : \E rd \in RDsJunk(t), j \in {<<7>>, <<7, 7, 7, 7>>} :
                 Finish(Hdr(sel[2]) \o sel[3] \o Rec(sel[4], t, rd \o j, 0))
     \/ /\ sel[1] = "RR"
        /\ \E t1 \in Targets2, o2 \in Owners2, t2 \in Targets2 :
              Finish(Hdr(sel[2]) \o <<1, 97, 0, 0, 1, 0, 1>>
                     \o Rec(sel[3], T_CNAME, t1, 0) \o Rec(o2, T_CNAME, t2, 0))
     \/ /\ sel[1] = "S"          \* short and header-only messages
        /\ \E n \in 0..12 : Finish([i \in 1..n |-> IF i = 5 THEN 0 ELSE 1])
     \/ /\ sel[1] = "L"          \* the finished state remembers where the long names start
        /\ \E o \in LOwners :
              /\ ph' = 2 /\ m' = LMsg(sel[2], sel[3], o) /\ nw' = NWInit(m')
              /\ sel' = <<"Ldone", LStarts(sel[2], sel[3])>>
     \/ /\ sel[1] = "O"          \* an OPT record with one (or two) options from the grid
        /\ \E o \in {x \in OptionAlts : Len(x) % 4 = sel[2]} :
              Finish(Hdr(<<32768, 1, 0, 0, 1>>) \o <<1, 97, 0, 0, 1, 0, 1>> \o Rec(<<0>>, T_OPT, o, 0))
     \/ /\ sel[1] = "X"
        /\ \E n \in {i \in 12..Len(XFull) : i % 4 = sel[2]} : Finish(SubSeq(XFull, 1, n))
     \/ /\ sel[1] = "F"
        /\ \E d \in {0, 5, 13} :
              /\ ph' = 2 /\ m' = FarMsg(sel[2], d) /\ nw' = NWInit(m')
              /\ sel' = <<"Ldone", FarStarts(sel[2])>>
     \/ /\ sel[1] = "K"
        /\ \E c \in {x \in KCases : Len(x[2]) % 4 = sel[3]} :
              Finish(Hdr(sel[2]) \o <<1, 97, 0, 0, 1, 0, 1>> \o Rec(<<192, 12>>, c[1], c[2], 0))
     \/ /\ sel[1] = "C"
        /\ \E cm \in ChainMsgs :
              /\ ph' = 2 /\ m' = cm /\ nw' = NWInit(m') /\ sel' = <<"Ldone", ChainStarts>>
     \/ /\ sel[1] = "M"
        /\ \E r2 \in MRecs, r3 \in MRecs3 :
              Finish(Hdr(sel[2]) \o <<1, 97, 0, 0, 1, 0, 1>> \o sel[3] \o r2 \o r3)
     \/ /\ sel[1] = "E"
        /\ \E e \in {x \in EdnsMsgs : Len(x) % 3 = sel[2]} : Finish(e)
     \/ /\ sel[1] = "J"          \* RDLENGTH covering exact / padded / cut RDATA, every type of the new API
        /\ \E tp \in JTemplates : \E rd \in JVariants(tp[2]) :
              Finish(Hdr(sel[2]) \o <<1, 97, 0, 0, 1, 0, 1>> \o Rec(<<192, 12>>, tp[1], rd, 0))
     \/ /\ sel[1] = "T"
        /\ \E rd \in HostileRD(sel[3]) :
              Finish(Hdr(sel[2]) \o <<1, 97, 0, 0, 1, 0, 1>> \o Rec(<<192, 12>>, sel[3], rd, 0))

\* the name walk at offset 12 of the finished message, one step per action:
\* exactly the case analysis of Wire!NameWalk
NWStep ==
  /\ ph = 2 /\ nw.st = "run" /\ UNCHANGED <<ph, sel, m>>
  /\ LET p == nw.p  lim == Len(m) IN
     IF p >= lim THEN nw' = [nw EXCEPT !.st = "err"]
     ELSE LET b == At(m, p) IN
       IF b = 0 THEN nw' = [nw EXCEPT !.st = "ok"]
       ELSE IF b <= 63 THEN
         IF p + 1 + b > lim \/ nw.used + b + 1 >= 255 THEN nw' = [nw EXCEPT !.st = "err"]
         ELSE nw' = [nw EXCEPT !.p = p + 1 + b, !.used = nw.used + b + 1]
       ELSE IF b >= 192 THEN
         IF p + 1 >= lim THEN nw' = [nw EXCEPT !.st = "err"]
         ELSE LET t == (b - 192) * 256 + At(m, p + 1) IN
           IF t >= p THEN nw' = [nw EXCEPT !.st = "err"] ELSE nw' = [nw EXCEPT !.p = t]
       ELSE nw' = [nw EXCEPT !.st = "err"]

Next == Phase1 \/ Phase2 \/ NWStep
Spec == Init /\ [][Next]_vars

---------------------------------------------------------------------------
(* Laws *)

Done == ph = 2 /\ nw.st \in {"off", "run"} /\ nw.p = 12 /\ nw.used = 0  \* the state right after Finish

\* termination measure of compressed-name parsing: (254 - used, p) decreases
\* lexicographically in every running step
MeasureDecreases ==
  [][(ph = 2 /\ nw.st = "run" /\ nw'.st = "run") =>
       (nw'.used > nw.used \/ (nw'.used = nw.used /\ nw'.p < nw.p))]_vars
UsedBounded == nw.used < 255
\* the machine and the recursive operator agree on accept / reject
WalkAgrees ==
  (ph = 2 /\ nw.st \in {"ok", "err"}) => ((nw.st = "ok") = ParseName(m, 12, Len(m)).ok)

\* every offset where a name can start in these messages (bodies are short;
\* the cap only cuts the zero padding of SOA RDATA)
Positions ==
  IF Len(m) < 12 THEN {}
  ELSE IF sel[1] = "Ldone" THEN {sel[2][1], sel[2][2]}
  ELSE 12..Min(Len(m) - 1, 12 + (IF Big THEN 24 ELSE 10))

\* The laws, individually (for explanation runs) ...
NameFuelSufficient == Done => \A p \in Positions : NameFuelSufficientAt(m, p)
NameWithin == Done => \A p \in Positions : NameWithinAt(m, p)
ParseImpliesSkipSame == Done => \A p \in Positions : ParseImpliesSkipSameAt(m, p)
ReturnedNamesValid == (Done /\ ~IsShort(m)) => ReturnedNamesValidFor(m)
CnameBound == (Done /\ ~IsShort(m)) => CnameBoundFor(m)
PosWithinS(S) == \A s \in 1..3 : S.st[s].ok => S.st[s].pos <= Len(m)
IdealTotalS(S) ==
  /\ CanonicalNameS(m, S).k # "panic"
  /\ XfrFirst(m) = "nopanic"
  /\ \A p \in Positions : SliceLabels(m, p) \notin {SlHang, SlUnbounded}

\* ... and as the two invariants the configurations check (one evaluation
\* of the sections / of each name per message):
\*   NameLaws = NameFuelSufficient /\ NameWithin /\ ParseImpliesSkipSame
\*   WireLaws = ReturnedNamesValid /\ CnameBound /\ PosWithin /\ IdealTotal
NameLaws == Done => \A p \in Positions : NameLawsAt(m, p)
WireLaws == (Done /\ ~IsShort(m)) =>
  LET S == Sections(m) IN
  /\ ReturnedNamesValidS(S)
  /\ CnameBoundS(m, S)
  /\ PosWithinS(S)
  /\ (Dev = {} => IdealTotalS(S))

---------------------------------------------------------------------------
(* S->I: every message with its projection; dev lists, per open-able        *)
(* deviation, the components that differ from the ideal                     *)

Starts == IF Len(m) <= 12 THEN <<>>
          ELSE IF sel[1] = "Ldone" THEN sel[2]
          ELSE [i \in 1..Min(Len(m) - 12, 8) |-> 11 + i]

DevI == INSTANCE Wire WITH Dev <- DevNames

\* the components that differ under the deviations, evaluated on the shared
\* section record
Emit == Done =>
  LET ideal == Projection(m, Starts)
      S == Sections(m)
      dcn == DevI!CanonicalNameS(m, S)
      dx == DevI!XfrFirst(m)
      dsl == [i \in 1..Len(Starts) |-> DevI!SliceLabels(m, Starts[i])]
      dev == IF IsShort(m) THEN [none |-> 0]
             ELSE [D_cname_ancount_overflow |-> IF ideal.cname # dcn THEN [cname |-> dcn] ELSE [none |-> 0],
                   D_xfr_unreachable_qtype |-> IF ideal.xfr # dx THEN [xfr |-> dx] ELSE [none |-> 0],
                   D_slice_iter |-> IF ideal.sl # dsl THEN [sl |-> dsl] ELSE [none |-> 0]]
  IN PrintT("CASE " \o ToJson([in |-> [m |-> m, starts |-> Starts], exp |-> ideal, dev |-> dev]))

\* C19, law of the referee: the new codec's pointer rule (D_new_ptr_rule) only
\* ever rejects more; wherever it accepts, both rules read the same item
NewRuleStricter == Done => \A p \in Positions :
  /\ CvName(TRUE, m, p).ok => CvName(FALSE, m, p) = CvName(TRUE, m, p)
  /\ CvQuestion(TRUE, m, p).ok => CvQuestion(FALSE, m, p) = CvQuestion(TRUE, m, p)
  /\ CvRecord(TRUE, m, p).ok => CvRecord(FALSE, m, p) = CvRecord(TRUE, m, p)
\* the flattened view ends exactly where the sectioned view has its first problem
NewViewConsistent == (Done /\ ~IsShort(m)) =>
  LET v == NewView(FALSE, m)  S == Sections(m) IN
  v.end = "done" => (~S.q.err /\ \A s \in 1..3 : S.sec[s].reach /\ ~S.sec[s].err
                                   /\ \A i \in 1..Len(S.sec[s].items) : S.sec[s].items[i][7].ok)

\* C19: the same messages, read item by item and as a whole by both codecs
CStarts == IF Len(m) <= 12 THEN <<>>
           ELSE IF sel[1] = "Ldone" THEN sel[2]
           ELSE [i \in 1..Min(Len(m) - 12, 10) |-> 11 + i]
\* the rest of the message from a start, as a byte string of its own, for
\* the routes that read without a message around them: from every start of
\* the families that name their starts, else from the first start (the
\* question) and the eighth (where the record after the question "a." begins)
CProbes ==
  LET n == Len(CStarts)
      idx == IF n <= 3 THEN [i \in 1..n |-> i] ELSE IF n >= 8 THEN <<1, 8>> ELSE <<1>>
  IN [i \in 1..Len(idx) |-> <<CStarts[idx[i]], Len(m)>>]
EmitCodec == (Done /\ Len(m) >= 12) =>
  PrintT("CASE " \o ToJson(CodecCase(m, CStarts, CProbes)))
=============================================================================
