CONSTANTS
  Dev = {}
  TickMs = 10000
  Confs <- GConfs
  MaxDgrams = 2
  MaxOps = 7
  PathMode = TRUE
  Faults <- GFaults
SPECIFICATION GenSpec
ACTION_CONSTRAINT EmitPaths
CHECK_DEADLOCK FALSE
