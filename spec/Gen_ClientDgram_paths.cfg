CONSTANTS
  Dev = {}
  RD = 2
  MaxRetries = 1
  MaxDgrams = 2
  MaxOps = 7
  PathMode = TRUE
  Faults <- GFaults
SPECIFICATION GenSpec
ACTION_CONSTRAINT EmitPaths
CHECK_DEADLOCK FALSE
