CONSTANTS
  Sites <- SiteTable
  BITS = 6
  ERAS = 3
SPECIFICATION GenSpec
INVARIANT EmitPlace
CHECK_DEADLOCK FALSE
