CONSTANTS
  Dev = {"D_alldata_eq_opt_unknown"}
  MaxVary = 0
  Big = 300
SPECIFICATION Spec
INVARIANT LawImplEq
CHECK_DEADLOCK FALSE
