---------------------------- MODULE Trace_KeySet ----------------------------
(* I->S: a recorded run of one real KeySet (one event per public call:     *)
(* arguments, result, returned actions, complete projected state) must be  *)
(* a behaviour of KeySet.tla: every event must be one of the outcomes the  *)
(* specification allows for that call in the current state -- the ideal    *)
(* behaviour or that of a set of deviations still listed as open           *)
(* (environment variables D_<name> = "1").                                 *)
EXTENDS KeySet, KeySetNames, Json, IOUtils

Rec == ndJsonDeserialize(IOEnv.TRACE)

OpenDevs == (IF IOEnv.D_ksk_stale_filter = "1" THEN {"D_ksk_stale_filter"} ELSE {})
       \cup (IF IOEnv.D_double_ds_visible = "1" THEN {"D_double_ds_visible"} ELSE {})
       \cup (IF IOEnv.D_expect_panic = "1" THEN {"D_expect_panic"} ELSE {})

VARIABLES l, used
tvars == <<l, keys, rolls, last, used>>

TKeys == {KS_big[i] : i \in 1..Len(KS_big)}

SameKeys(ks, js) ==
  /\ DOMAIN ks = DOMAIN js
  /\ \A k \in DOMAIN ks : ks[k] = js[k]

ResMatch(r, e) == IF r = "err" THEN e \notin {"ok", "panic"} ELSE r = e

TInit == l = 1 /\ KSInit /\ used = {}

T_Call ==
  /\ l <= Len(Rec)
  /\ l' = l + 1
  /\ LET e == Rec[l]
     IN \E d \in SUBSET OpenDevs : \E r \in Outcomes(d, keys, rolls, e.op) :
          /\ ResMatch(r.res, e.res)
          /\ r.acts = e.ret
          /\ SameKeys(r.keys, e.post.keys)
          /\ r.rolls = e.post.rolls
          /\ AllActions(r.rolls) = e.post.acts
          \* attribute to the ideal behaviour when it explains the event
          /\ d = {} \/ \A r0 \in Outcomes({}, keys, rolls, e.op) :
                          ~(ResMatch(r0.res, e.res) /\ r0.acts = e.ret
                            /\ SameKeys(r0.keys, e.post.keys) /\ r0.rolls = e.post.rolls)
          /\ keys' = r.keys
          /\ rolls' = r.rolls
          /\ last' = [acts |-> e.ret, op |-> e.op, res |-> e.res]
          /\ used' = used \cup d

TNext == T_Call
TSpec == TInit /\ [][TNext]_tvars

\* the properties of the state machine along the recorded run
TExclusive == Exclusive
TShape == Shape

Accepted ==
  LET d == TLCGet("stats").diameter
  IN IF d = Len(Rec) + 1 THEN TRUE
     ELSE /\ PrintT("TRACE_REJECTED " \o ToJson([matched |-> d - 1, total |-> Len(Rec),
                      event |-> IF d <= Len(Rec) THEN Rec[d] ELSE [ev |-> "none"]]))
          /\ FALSE
=============================================================================
