CONSTANTS
  Dev = {}
  Mut = {}
  AdvOn = {"ANS", "DS", "DNSKEY"}
  AnchorForms = {"dnskey"}
  Cfgs = {"default"}
  MaxRuns = 3
  EntQKinds = {"positive"}
  Budget = 1
  Shapes = {"secure3", "insecure3", "entapex_s"}
  Denials = {"nsec", "nsec3"}
  QKinds = {"positive", "nxdeep"}
  AdvActs = {"Resalt", "ShortSig", "CorruptSigOctets", "Expire", "CorruptKey", "CorruptDs", "AddCollidingKey"}
SPECIFICATION Spec
VIEW View
INVARIANT Soundness
INVARIANT HonestSecure
INVARIANT InsecureNotBogus
INVARIANT WithinAllowed
INVARIANT CacheTransparent
INVARIANT NoPanic
INVARIANT Terminates
INVARIANT NoAnchorNotSecure
INVARIANT LimitsEnforced
INVARIANT Emit
PROPERTY Termination
CHECK_DEADLOCK TRUE
