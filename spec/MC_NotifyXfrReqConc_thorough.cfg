CONSTANTS
  N = 2
  T = 4
  W = 3
  Cap = 2
  Kinds = {"axfr", "ixfr"}
  Design = "ordered"
  Dev = {}
  GateClosed = FALSE
SPECIFICATION MCSpec
INVARIANT C1_Bounded
INVARIANT C2_Conserved
INVARIANT C2_Released
INVARIANT OrderedLaw
INVARIANT QuiescentLaw
PROPERTY C3_Progress
CHECK_DEADLOCK FALSE
