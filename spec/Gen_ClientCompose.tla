-------------------------- MODULE Gen_ClientCompose --------------------------
(* Model checking and S->I generation for ClientCompose (macro steps: an    *)
(* environment step, then everything runs until it has to wait).  Mode      *)
(* "multi": multi_stream with the requests MReqs; mode "dgst": dgram_stream *)
(* with one request.  One case per transition of the state graph (PathMode  *)
(* FALSE) or per behaviour (PathMode TRUE).                                 *)
EXTENDS ClientCompose, Json

CONSTANTS Mode, MaxOps, PathMode,
          MsConfs,    \* mode "multi": the MsScripts a run may start from
          XConfs,     \* mode "dgst": the XScripts a run may start from
          OpNames,    \* the environment steps used (all of them, or a loss scenario)
          TcOnly      \* mode "dgst": the only datagram ever delivered is the truncated answer
VARIABLES st, hist
cvars == <<st, hist>>

\* the datagram module's own variables are not used here
NoFault == [kind |-> "none", at |-> 0]
DFrozen == /\ ndg = 0 /\ ph = "idle" /\ att = 0 /\ e = 0 /\ inq = <<>> /\ q = 0
           /\ fault = NoFault /\ sent = <<>> /\ done = <<>>
           /\ waited = 0 /\ conf = DConfOf(DgScript("new", <<>>))

\* configuration scripts.  The stream connections under multi_stream have
\* their own timers beyond the horizon of a case.
AllOps == {"submit", "deliver", "tick", "conn_ok", "conn_fail", "reply", "wrong", "close"}
LossOps == {"submit", "deliver", "tick", "conn_ok"}
\* requests are answered, connections are left idle
IdleOps == {"submit", "tick", "idle_tick", "conn_ok", "reply"}
QuietSt == StScript("new", <<Call("set_response_timeout", 595000), Call("set_idle_timeout", 3600000)>>)
MsS(route, rt) == MsScript(route, QuietSt, <<Call("set_response_timeout", rt)>>)
DgS(rt, mr)    == DgScript("new", <<Call("set_read_timeout", rt), Call("set_max_retries", mr)>>)
\* multi_stream (one tick = 100 s)
GMsConfs  == {MsS("from", 300000)}
GMsConfsT == {MsS("from", 300000), MsS("default", 200000)}
\* every request is left without an answer: the response timeout at, inside
\* and beyond the ends of its range, set twice, never set, by every route
\* the stream connections under multi_stream: a response timeout of two
\* ticks, the default (19 s: every tick), an idle timeout of n ticks
ShortSt(rt, idl) == StScript("new", <<Call("set_response_timeout", rt), Call("set_idle_timeout", idl)>>)
GMsInner  == {MsScript(r, ShortSt(TickMs + TickMs \div 2, 3600000), <<Call("set_response_timeout", 5 * TickMs + TickMs \div 2)>>) :
                r \in {"from", "default"}}
             \cup {MsScript("default", StScript("new", <<>>), <<Call("set_response_timeout", 3 * TickMs + TickMs \div 2)>>)}
             \* below the range: 1 ms, every tick
             \cup {MsScript("from", ShortSt(0, 3600000), <<Call("set_response_timeout", 2 * TickMs + TickMs \div 2)>>)}
GMsIdle   == {MsScript(r, ShortSt(595000, idl), <<Call("set_response_timeout", 300000)>>) :
                r \in {"from", "default"}, idl \in {0, 1, TickMs, TickMs + 1, 2 * TickMs + TickMs \div 2, 7200000}}
GMsLoss   == {MsS(r, rt) : r \in {"from", "default"},
                           rt \in {0, 1, 100000, 100001, 500000, 599999, 600000, 600001, 3600000}}
             \cup {MsScript(r, QuietSt, <<>>) : r \in {"from", "default"}}
             \cup {MsScript("conn_new", StScript("new", <<>>), <<>>)}
             \cup {MsScript("from", QuietSt, <<Call("set_response_timeout", 700000),
                                              Call("set_response_timeout", 200000)>>)}
             \cup GMsInner
\* dgram_stream (one tick = 10 s)
GXConfs   == {XScript("from_parts", DgS(10000, 1), MsS("from", 20000)),
              XScript("new_mut", DgS(10000, 0), MsS("default", 10000))}
GXConfsT  == GXConfs \cup {XScript("new_set", DgS(20000, 1), MsS("from", 30000))}
GXLoss    == {XScript(r, DgS(rd, mr), MsS(mroute, rt)) :
                 r \in {"from_parts", "new_mut", "new_set"}, rd \in {10000, 60001}, mr \in {0, 1},
                 mroute \in {"from"}, rt \in {1, 20000}}
             \cup {XScript(r, DgScript("new", <<>>), MsScript("default", StScript("new", <<>>), <<>>)) :
                    r \in {"from_parts", "new_mut", "new_set", "conn_new"}}
             \cup {XScript("new_mut", DgS(10000, mr), MsS("default", 20000)) : mr \in {2, 3}}
             \* the stream connections of the TCP leg give up after two ticks
             \cup {XScript(r, DgS(10000, 0), MsScript("from", ShortSt(15000, 3600000),
                                                      <<Call("set_response_timeout", 45000)>>)) :
                    r \in {"from_parts", "new_mut", "new_set"}}

\* Connection failures on a clock of 10 ms ticks, far shorter than the
\* back-off (a random time below 2^n s): the response timeout runs out while
\* the request sits in its back-off.  When a back-off ends is then not
\* determined by the ticks, so a state in which a request is in its back-off
\* with more than one tick to go is not expanded (FineDelay); with one tick to
\* go the next tick completes the request - with an error, on time - whether
\* or not the back-off has ended.
GMsFail   == {MsS(r, rt) : r \in {"from", "default"}, rt \in {1, TickMs, 2 * TickMs + TickMs \div 2, 3 * TickMs}}
GXFail    == {XScript(r, DgS(TickMs, 0), MsS("from", rt)) :
                r \in {"from_parts", "new_mut", "new_set"}, rt \in {TickMs, 2 * TickMs + TickMs \div 2}}
FineDelay == LET m == IF Mode = "multi" THEN st ELSE st.m
             IN \A r \in MReqs : m.reqs[r].st = "delay" => m.reqs[r].el + 1 >= m.conf.rt

XMkOp(op, r, qq, c, d) == [op |-> op, r |-> r, q |-> qq, c |-> c, d |-> d]
Lift(o) == XMkOp(o.op, o.r, o.q, o.c, NoDgram)

\* datagrams of the UDP leg: answers of every rcode class (NOERROR, SERVFAIL
\* 2, NXDOMAIN 3, REFUSED 5 with the question; a header-only error), each
\* with and without TC; a truncated answer with another ID; garbage
XDgrams(x) ==
  IF TcOnly THEN {[kind |-> "msg", f |-> Msg(x.d.att, TRUE, x.d.q, 0, TRUE, TRUE, -1)]} ELSE
       {[kind |-> "msg", f |-> Msg(x.d.att, TRUE, x.d.q, rc, rc = 0, tc, -1)] :
           rc \in {0, 2, 3, 5}, tc \in BOOLEAN}
  \cup {[kind |-> "msg", f |-> Msg(x.d.att, TRUE, NoQ, 2, FALSE, tc, -1)] : tc \in BOOLEAN}
  \cup {[kind |-> "msg", f |-> Msg(99, TRUE, x.d.q, 0, TRUE, TRUE, -1)],
        [kind |-> "short", f |-> NoDgram.f]}

XOpsOf(x) ==
  CASE x.ph = "idle" -> {XMkOp("submit", 1, 1, 0, NoDgram)}
    [] x.ph = "udp"  -> {XMkOp("deliver", 0, 0, 0, d) : d \in XDgrams(x)}
                        \cup {XMkOp("tick", 0, 0, 0, NoDgram)}
    [] x.ph = "tcp"  -> {Lift(o) : o \in {p \in MOpsOf(x.m) : p.op # "submit"}}
    [] OTHER         -> {}

XApply(x, o) ==
  CASE o.op = "submit"  -> XSubmitOp(x, o.q)
    [] o.op = "deliver" -> XUdpOp(x, DMkOp("deliver", 0, o.d))
    [] o.op = "tick"    -> XTickOp(x)
    [] OTHER            -> XTcpOp(x, MMkOp(o.op, o.r, o.q, o.c))

Written(conns, qs) == [c \in 1..Len(conns) |->
                         [qq \in qs |-> \E i \in 1..Len(conns[c].out) : conns[c].out[i] = qq]]
MDone(m) == [r \in MReqs |-> [k \in 1..Len(m.done[r]) |->
                                 [ok |-> m.done[r][k].ok, t |-> m.done[r][k].t]]]
RECURSIVE SeqOf(_, _)
SeqOf(f, n) == IF n = 0 THEN <<>> ELSE Append(SeqOf(f, n - 1), f[n])

\* eff: what the getters of the configuration object say
MProj(m) == [nconnect |-> m.nconnect, written |-> Written(m.conns, MReqs),
             done |-> [r \in MReqs |-> SeqOf(MDone(m)[r], Len(m.done[r]))],
             eff |-> m.conf.eff]
XProj(x) == [udp |-> x.d.sent, nconnect |-> x.m.nconnect, eff |-> x.conf.eff,
             written |-> Written(x.m.conns, {1}),
             done |-> SeqOf([k \in 1..Len(x.done) |->
                               [ok |-> x.done[k].ok, via |-> x.done[k].via,
                                tc |-> x.done[k].tc, rcode |-> x.done[k].rcode,
                                t |-> x.done[k].t]], Len(x.done))]

Ops  == {o \in (IF Mode = "multi" THEN {Lift(o) : o \in MOpsOf(st)} ELSE XOpsOf(st)) :
           o.op \in OpNames}
App(o) == IF Mode = "multi" THEN MApply(st, MMkOp(o.op, o.r, o.q, o.c)) ELSE XApply(st, o)
Proj(s) == IF Mode = "multi" THEN MProj(s) ELSE XProj(s)

OpJson(o) == CASE o.op = "submit"  -> [op |-> "submit", r |-> o.r, q |-> o.q]
               [] o.op = "deliver" -> [op |-> "deliver", d |-> o.d]
               [] o.op \in {"reply", "wrong"} -> [op |-> o.op, r |-> o.r, c |-> o.c]
               [] o.op = "close"   -> [op |-> "close", c |-> o.c]
               [] o.op = "idle_tick" -> [op |-> "tick"]
               [] OTHER            -> [op |-> o.op]

CInit == /\ DFrozen /\ hist = <<>>
         /\ st \in IF Mode = "multi" THEN {MInitOf(sc) : sc \in MsConfs}
                   ELSE {XInitState(NoFault, xsc) : xsc \in XConfs}
CNext == /\ Len(hist) < MaxOps
         /\ UNCHANGED <<dvars, ndg>>
         /\ \E o \in Ops : LET t == App(o)
                           IN st' = t /\ hist' = Append(hist, [op |-> o, proj |-> Proj(t)])
CSpec == CInit /\ [][CNext]_<<cvars, dvars, ndg>>

Finished(s) == IF Mode = "multi" THEN \A r \in MReqs : s.reqs[r].st = "done"
               ELSE s.ph = "done"

CaseOf(h) == ToJson([in |-> [kind |-> Mode,
                             cfg |-> [conf |-> st.conf.sc, nreq |-> Cardinality(MReqs), tickms |-> TickMs],
                             ops |-> [i \in 1..Len(h) |-> OpJson(h[i].op)]],
                     exp |-> [i \in 1..Len(h) |-> h[i].proj]])
Emit == IF PathMode
        THEN (Len(hist') = MaxOps \/ Finished(st')) => PrintT("CASE " \o CaseOf(hist'))
        ELSE PrintT("CASE " \o CaseOf(hist'))

\* in path mode nothing is done after the end
PathStop == PathMode /\ Finished(st) => FALSE
CView == IF PathMode THEN <<st, hist>> ELSE <<st>>

\* Two requests whose back-off ends with the same tick are woken in the
\* order of their random delays: the order in which they then ask for a
\* connection is not determined.  Such states are not expanded (the
\* specification's choice, lowest request first, would be one of two
\* legitimate outcomes).
OneDelay == Mode = "multi" => Cardinality({r \in MReqs : st.reqs[r].st = "delay"}) <= 1

\* invariants
MAtMostOnce == Mode = "multi" => MAtMostOnceOf(st)
MOnTime     == Mode = "multi" => MOnTimeOf(st)
MOwn        == Mode = "multi" => MOwnOf(st)
MNoDup      == Mode = "multi" => MNoDupOf(st)
MConnsSound == MConnsSoundOf(IF Mode = "multi" THEN st ELSE st.m)
XNoTruncated    == Mode = "dgst" => XNoTruncatedOf(st)
XAtMostOnce     == Mode = "dgst" => XAtMostOnceOf(st)
XTcpOnlyAfterTc == Mode = "dgst" => XTcpOnlyAfterTcOf(st)
XOnTime         == Mode = "dgst" => XOnTimeOf(st)
XLegsSound      == Mode = "dgst" => (MAtMostOnceOf(st.m) /\ MOnTimeOf(st.m)
                                     /\ DOwnAnswerOf(st.d) /\ DBudgetOf(st.d))
=============================================================================
