-------------------------- MODULE Gen_ClientCompose --------------------------
(* Model checking and S->I generation for ClientCompose (macro steps: an    *)
(* environment step, then everything runs until it has to wait).  Mode      *)
(* "multi": multi_stream with the requests MReqs; mode "dgst": dgram_stream *)
(* with one request.  One case per transition of the state graph (PathMode  *)
(* FALSE) or per behaviour (PathMode TRUE).                                 *)
EXTENDS ClientCompose, Json

CONSTANTS Mode, MaxOps, PathMode
VARIABLES st, hist
cvars == <<st, hist>>

\* the datagram module's own variables are not used here
DFrozen == /\ ndg = 0 /\ ph = "idle" /\ att = 0 /\ e = 0 /\ inq = <<>> /\ q = 0
           /\ fault = [kind |-> "none", at |-> 0] /\ sent = <<>> /\ done = <<>>
           /\ waited = 0
NoFault == [kind |-> "none", at |-> 0]

XMkOp(op, r, qq, c, d) == [op |-> op, r |-> r, q |-> qq, c |-> c, d |-> d]
Lift(o) == XMkOp(o.op, o.r, o.q, o.c, NoDgram)

\* datagrams of the UDP leg: answers of every rcode class (NOERROR, SERVFAIL
\* 2, NXDOMAIN 3, REFUSED 5 with the question; a header-only error), each
\* with and without TC; a truncated answer with another ID; garbage
XDgrams(x) ==
       {[kind |-> "msg", f |-> Msg(x.d.att, TRUE, x.d.q, rc, rc = 0, tc, -1)] :
           rc \in {0, 2, 3, 5}, tc \in BOOLEAN}
  \cup {[kind |-> "msg", f |-> Msg(x.d.att, TRUE, NoQ, 2, FALSE, tc, -1)] : tc \in BOOLEAN}
  \cup {[kind |-> "msg", f |-> Msg(99, TRUE, x.d.q, 0, TRUE, TRUE, -1)],
        [kind |-> "short", f |-> NoDgram.f]}

XOpsOf(x) ==
  CASE x.ph = "idle" -> {XMkOp("submit", 1, 1, 0, NoDgram)}
    [] x.ph = "udp"  -> {XMkOp("deliver", 0, 0, 0, d) : d \in XDgrams(x)}
                        \cup {XMkOp("tick", 0, 0, 0, NoDgram)}
    [] x.ph = "tcp"  -> {Lift(o) : o \in {p \in MOpsOf(x.m) : p.op # "submit"}}
    [] OTHER         -> {}

XApply(x, o) ==
  CASE o.op = "submit"  -> XSubmitOp(x, o.q)
    [] o.op = "deliver" -> XUdpOp(x, DMkOp("deliver", 0, o.d))
    [] o.op = "tick"    -> XTickOp(x)
    [] OTHER            -> XTcpOp(x, MMkOp(o.op, o.r, o.q, o.c))

Written(conns, qs) == [c \in 1..Len(conns) |->
                         [qq \in qs |-> \E i \in 1..Len(conns[c].out) : conns[c].out[i] = qq]]
MDone(m) == [r \in MReqs |-> [k \in 1..Len(m.done[r]) |->
                                 [ok |-> m.done[r][k].ok, t |-> m.done[r][k].t]]]
RECURSIVE SeqOf(_, _)
SeqOf(f, n) == IF n = 0 THEN <<>> ELSE Append(SeqOf(f, n - 1), f[n])

MProj(m) == [nconnect |-> m.nconnect, written |-> Written(m.conns, MReqs),
             done |-> [r \in MReqs |-> SeqOf(MDone(m)[r], Len(m.done[r]))]]
XProj(x) == [udp |-> x.d.sent, nconnect |-> x.m.nconnect,
             written |-> Written(x.m.conns, {1}),
             done |-> SeqOf([k \in 1..Len(x.done) |->
                               [ok |-> x.done[k].ok, via |-> x.done[k].via,
                                tc |-> x.done[k].tc, rcode |-> x.done[k].rcode,
                                t |-> x.done[k].t]], Len(x.done))]

Ops  == IF Mode = "multi" THEN {Lift(o) : o \in MOpsOf(st)} ELSE XOpsOf(st)
App(o) == IF Mode = "multi" THEN MApply(st, MMkOp(o.op, o.r, o.q, o.c)) ELSE XApply(st, o)
Proj(s) == IF Mode = "multi" THEN MProj(s) ELSE XProj(s)

OpJson(o) == CASE o.op = "submit"  -> [op |-> "submit", r |-> o.r, q |-> o.q]
               [] o.op = "deliver" -> [op |-> "deliver", d |-> o.d]
               [] o.op \in {"reply", "wrong"} -> [op |-> o.op, r |-> o.r, c |-> o.c]
               [] o.op = "close"   -> [op |-> "close", c |-> o.c]
               [] OTHER            -> [op |-> o.op]

CInit == /\ DFrozen /\ hist = <<>>
         /\ st = IF Mode = "multi" THEN MInitState ELSE XInitState(NoFault)
CNext == /\ Len(hist) < MaxOps
         /\ UNCHANGED <<dvars, ndg>>
         /\ \E o \in Ops : LET t == App(o)
                           IN st' = t /\ hist' = Append(hist, [op |-> o, proj |-> Proj(t)])
CSpec == CInit /\ [][CNext]_<<cvars, dvars, ndg>>

Finished(s) == IF Mode = "multi" THEN \A r \in MReqs : s.reqs[r].st = "done"
               ELSE s.ph = "done"

CaseOf(h) == ToJson([in |-> [kind |-> Mode,
                             cfg |-> [rt |-> MRT, rd |-> RD, retries |-> MaxRetries,
                                      nreq |-> Cardinality(MReqs)],
                             ops |-> [i \in 1..Len(h) |-> OpJson(h[i].op)]],
                     exp |-> [i \in 1..Len(h) |-> h[i].proj]])
Emit == IF PathMode
        THEN (Len(hist') = MaxOps \/ Finished(st')) => PrintT("CASE " \o CaseOf(hist'))
        ELSE PrintT("CASE " \o CaseOf(hist'))

\* in path mode nothing is done after the end
PathStop == PathMode /\ Finished(st) => FALSE
CView == IF PathMode THEN <<st, hist>> ELSE <<st>>

\* Two requests whose back-off ends with the same tick are woken in the
\* order of their random delays: the order in which they then ask for a
\* connection is not determined.  Such states are not expanded (the
\* specification's choice, lowest request first, would be one of two
\* legitimate outcomes).
OneDelay == Mode = "multi" => Cardinality({r \in MReqs : st.reqs[r].st = "delay"}) <= 1

\* invariants
MAtMostOnce == Mode = "multi" => MAtMostOnceOf(st)
MOnTime     == Mode = "multi" => MOnTimeOf(st)
MOwn        == Mode = "multi" => MOwnOf(st)
MNoDup      == Mode = "multi" => MNoDupOf(st)
XNoTruncated    == Mode = "dgst" => XNoTruncatedOf(st)
XAtMostOnce     == Mode = "dgst" => XAtMostOnceOf(st)
XTcpOnlyAfterTc == Mode = "dgst" => XTcpOnlyAfterTcOf(st)
XOnTime         == Mode = "dgst" => XOnTimeOf(st)
XLegsSound      == Mode = "dgst" => (MAtMostOnceOf(st.m) /\ MOnTimeOf(st.m)
                                     /\ DOwnAnswerOf(st.d) /\ DBudgetOf(st.d))
=============================================================================
