CONSTANTS
  Procs = {1, 2}
  Qs = {"zone"}
  Runs = 1
  MaxNow = 2
  Budget = 0
  AdvKinds = {}
  Dev = {}
  Mut = {}
  Atomic = FALSE
SPECIFICATION Spec
INVARIANT NeverHitAfterTick
CHECK_DEADLOCK TRUE
