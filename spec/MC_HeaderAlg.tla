---------------------------- MODULE MC_HeaderAlg ----------------------------
(* The header machine of HeaderAlg.tla explored to a bounded depth from a    *)
(* few initial headers, one TLC action per group of public calls, with the    *)
(* properties P1-P4 as action properties / invariants.                         *)
EXTENDS HeaderAlg, FiniteSets

CONSTANTS MaxOps, Deep,    \* Deep: larger argument sets
          Carrier          \* "plain" | "builder": which initial states

VARIABLES st, n, last
vars == <<st, n, last>>

Op(k, a) == [k |-> k, a |-> a]

\* ------------------------------------------------------------ argument sets
IdVals == IF Deep THEN {0, 65535, 4660, 255, 256} ELSE {0, 65535, 4660}
OpcodeVals == IF Deep THEN {0, 4, 5, 15, 16, 21, 31, 32, 255} ELSE {0, 5, 15, 16, 31, 255}
RcodeVals == IF Deep THEN {0, 2, 3, 9, 15} ELSE {0, 3, 15}
FlagMasks == {0, 127, 85, 42}
CountVals == IF Deep THEN {0, 1, 258, 65534, 65535} ELSE {0, 258, 65535}
Rc12Vals == IF Deep THEN {0, 15, 16, 23, 3841, 4095} ELSE {0, 16, 23, 4095}

HeaderSetOps ==
  {Op(k, <<b>>) : k \in DOMAIN BitSetter, b \in {0, 1}}
  \cup {Op("set_id", <<x>>) : x \in IdVals}
  \cup {Op("set_opcode", <<x>>) : x \in OpcodeVals}
  \cup {Op("set_rcode", <<x>>) : x \in RcodeVals}
  \cup {Op("set_flags", <<x>>) : x \in FlagMasks}
CountSetOps ==
  {Op(k, <<sec, x>>) : k \in {"set_count", "set_ucount"}, sec \in 0..3, x \in CountVals}
  \cup {Op("set_counts", <<1, 2, 3, 4, 5, 6, 7, 8>>), Op("set_counts", <<255, 255, 255, 254, 0, 0, 0, 1>>)}
CountStepOps == {Op(k, <<sec>>) : k \in {"inc", "dec"}, sec \in 0..3}
OptHeaderSetOps ==
  {Op("oh_udp", <<x>>) : x \in {0, 1232, 65535}}
  \cup {Op("oh_rcode", <<x>>) : x \in Rc12Vals \cup {15}}
  \cup {Op("oh_version", <<x>>) : x \in {0, 1, 255}}
  \cup {Op("oh_do", <<x>>) : x \in {0, 1}}
GotoOps == {Op("goto", <<t>>) : t \in 0..4}
PushOps == {Op("push", <<f>>) : f \in {0, 1}}
OptClosures ==
  {<<>>, <<2, 23>>, <<2, 16>>, <<1, 1232, 4, 1>>, <<2, 4095, 3, 1, 2, 3>>, <<4, 1, 4, 0, 1, 512, 2, 3841>>}
OptOps == {Op("opt", <<e, f>> \o c) : e \in {0, 1}, f \in {0, 1}, c \in OptClosures}
ReqWords == {256, 65535, 10240, 33152, 30976}     \* RD; all ones; opcode 5; a response (QR RD RA); opcode 15 + RD
StartOps ==
  {Op("start_answer", <<w, 4660, q, rc, j>>) : w \in ReqWords, q \in 0..2, rc \in {0, 3}, j \in 0..2}
  \cup {Op("start_error", <<w, 4660, q, rc, j>>) : w \in ReqWords, q \in 0..2, rc \in {1, 5}, j \in 2..2}
  \* start_error overrides the rcode with SERVFAIL when a question does not
  \* fit -- undocumented, so only exercised where the given rcode is SERVFAIL
  \cup {Op("start_error", <<w, 4660, q, 2, j>>) : w \in ReqWords, q \in 1..2, j \in 0..1}
AxfrOps == {Op("request_axfr", <<f, 48879>>) : f \in {0, 1}}

PlainInits ==
  {[h |-> h, o |-> <<o>>, g |-> -1] :
     h \in {HdrZero, [i \in 1..12 |-> 255], <<18, 52, 165, 90, 0, 0, 255, 255, 0, 1, 255, 254>>},
     o \in {OptDefault, [i \in 1..9 |-> 255]}}
BuilderInits == {Fresh}

\* ------------------------------------------------------------------ machine
Do(op) ==
  /\ n < MaxOps
  /\ Enabled(st, op)
  /\ LET res == Step(st, op, Dev) IN
       /\ st' = res.s
       /\ last' = [op |-> op, r |-> res.r, c |-> res.c]
  /\ n' = n + 1

Init == /\ st \in (IF Carrier = "plain" THEN PlainInits ELSE BuilderInits)
        /\ n = 0
        /\ last = [op |-> Op("init", <<>>), r |-> 0, c |-> <<>>]
\* (on the builder carrier the header setters are those of the same Header type
\* reached through header_mut(); a few of them suffice there)
HeaderSetOpsB ==
  {Op("set_rcode", <<3>>), Op("set_aa", <<1>>), Op("set_opcode", <<16>>), Op("set_opcode", <<5>>),
   Op("set_flags", <<127>>), Op("set_id", <<65535>>), Op("set_z", <<1>>), Op("set_rd", <<0>>)}
A_HeaderSet == n < MaxOps /\ \E op \in (IF st.g >= 0 THEN HeaderSetOpsB ELSE HeaderSetOps) : Do(op)
A_CountSet == n < MaxOps /\ \E op \in CountSetOps : Do(op)
A_CountStep == n < MaxOps /\ \E op \in CountStepOps : Do(op)
A_OptHeaderSet == n < MaxOps /\ \E op \in OptHeaderSetOps : Do(op)
A_Goto == n < MaxOps /\ \E op \in GotoOps : Do(op)
A_Push == n < MaxOps /\ \E op \in PushOps : Do(op)
A_Opt == n < MaxOps /\ \E op \in OptOps : Do(op)
A_Start == n < MaxOps /\ \E op \in StartOps : Do(op)
A_Axfr == n < MaxOps /\ \E op \in AxfrOps : Do(op)
Next == A_HeaderSet \/ A_CountSet \/ A_CountStep \/ A_OptHeaderSet \/ A_Goto \/ A_Push
        \/ A_Opt \/ A_Start \/ A_Axfr
Spec == Init /\ [][Next]_vars

\* --------------------------------------------------------------- invariants
TypeOK ==
  /\ st.h \in [1..12 -> 0..255]
  /\ \A i \in DOMAIN st.o : st.o[i] \in [1..9 -> 0..255]
  /\ st.g \in -1..4
  /\ st.g = -1 => Len(st.o) = 1
\* P3: without OPT the upper eight bits are zero; with OPT the code is the join
RcodeJoin ==
  /\ st.o = <<>> => MsgRcode(st.h, st.o) < 16
  /\ st.o # <<>> => /\ RcLow(MsgRcode(st.h, st.o)) = HGet(st.h, "rcode")
                    /\ RcExt(MsgRcode(st.h, st.o)) = OExt(st.o[1])
\* sections the builder has not reached are empty; every OPT is counted
StageCounts ==
  st.g >= 0 => /\ \A sec \in 0..3 : sec + 1 > st.g => HCount(st.h, sec) = 0
               /\ Len(st.o) <= HCount(st.h, 3)
GettersTotal == Len(Getters(st)) = 26

\* --------------------------------------------------------- action properties
K == last'.op.k
A == last'.op.a
\* P1: a setter writes its own field only, and the getter reads the value back
FrameA ==
  K \in HeaderOps \cup CountOps =>
    /\ SameOutside(st.h, st'.h, Touches(last'.op))
    /\ st'.o = st.o /\ st'.g = st.g
Frame == [][FrameA]_vars
ReadBackA ==
  /\ K \in DOMAIN BitSetter => HGet(st'.h, BitSetter[K]) = A[1]
  /\ K = "set_id" => HId(st'.h) = A[1]
  /\ (K = "set_opcode" /\ A[1] < 16) => HGet(st'.h, "opcode") = A[1]
  /\ K = "set_rcode" => HGet(st'.h, "rcode") = A[1]
  /\ K = "set_flags" => FlagsMask(st'.h) = A[1]
  /\ K \in {"set_count", "set_ucount"} => HCount(st'.h, A[1]) = A[2]
  /\ K = "set_counts" => \A sec \in 0..3 : HCount(st'.h, sec) = A[1 + 2 * sec] * 256 + A[2 + 2 * sec]
ReadBack == [][ReadBackA]_vars
\* P2: counts never wrap
NoWrapA ==
  /\ K = "inc" => IF last'.r = 0 THEN HCount(st'.h, A[1]) = HCount(st.h, A[1]) + 1
                  ELSE last'.r = 1 /\ st' = st /\ HCount(st.h, A[1]) = 65535
  /\ K = "dec" => IF last'.r = 0 THEN HCount(st'.h, A[1]) = HCount(st.h, A[1]) - 1
                  ELSE last'.r = 2 /\ st' = st /\ HCount(st.h, A[1]) = 0
NoWrap == [][NoWrapA]_vars
\* P3: OPT header fields are independent of each other and of the message header
OptField == [oh_udp |-> "udp", oh_rcode |-> "ext", oh_version |-> "ver", oh_do |-> "do"]
OptFrameA ==
  K \in OptHeaderOps =>
    /\ st'.h = st.h /\ st'.g = st.g
    /\ OSameOutside(st.o[1], st'.o[1], OWhere[OptField[K]])
    /\ K = "oh_udp" => OUdp(st'.o[1]) = A[1]
    /\ K = "oh_rcode" => OExt(st'.o[1]) = RcExt(A[1])
    /\ K = "oh_version" => OVer(st'.o[1]) = A[1]
    /\ K = "oh_do" => ODo(st'.o[1]) = A[1]
OptFrame == [][OptFrameA]_vars
\* a failed push / opt leaves the message as it was
FailedCallNoopA == (K \in {"push", "opt"} /\ last'.r = 1) => st' = st
FailedCallNoop == [][FailedCallNoopA]_vars
\* OptBuilder::set_rcode writes both halves; opt touches nothing else in the header
RECURSIVE LastRc(_, _, _)
LastRc(a, i, acc) == IF i + 1 > Len(a) THEN acc ELSE LastRc(a, i + 2, IF a[i] = 2 THEN a[i + 1] ELSE acc)
SetRcodeBothA ==
  (K = "opt" /\ last'.r = 0) =>
    /\ SameOutside(st.h, st'.h, Where.rcode \cup Where.ar)
    /\ HCount(st'.h, 3) = HCount(st.h, 3) + 1
    /\ Len(st'.o) = Len(st.o) + 1
    /\ (LastRc(A, 3, -1) >= 0 /\ st.o = <<>>) => MsgRcode(st'.h, st'.o) = LastRc(A, 3, -1)
    /\ (LastRc(A, 3, -1) >= 0) => last'.c[2] = LastRc(A, 3, -1)
SetRcodeBoth == [][SetRcodeBothA]_vars
\* P4
ScaffoldA ==
  (K \in {"start_answer", "start_error"} /\ last'.r = 0) =>
    /\ HId(st'.h) = A[2]
    /\ HGet(st'.h, "qr") = 1
    /\ HGet(st'.h, "opcode") = GetW(A[1], "opcode")
    /\ HGet(st'.h, "rd") = GetW(A[1], "rd")
    /\ A[5] >= A[3] => (HGet(st'.h, "rcode") = A[4] /\ HCount(st'.h, 0) = A[3])
    /\ A[5] < A[3] => HCount(st'.h, 0) = A[5]
    /\ HCount(st'.h, 1) = 0 /\ HCount(st'.h, 2) = 0 /\ HCount(st'.h, 3) = 0
    /\ SameOutside(st.h, st'.h, Where.id \cup Where.qr \cup Where.opcode \cup Where.rd
                                 \cup Where.rcode \cup Where.qd)
    /\ st'.g = 2
Scaffold == [][ScaffoldA]_vars
AxfrA ==
  (K = "request_axfr" /\ last'.r = 0) =>
    /\ HCount(st'.h, 0) = 1
    /\ SameOutside(st.h, st'.h, Where.id \cup Where.qd)
Axfr == [][AxfrA]_vars
\* going back drops exactly the later sections
GotoCountsA ==
  K = "goto" =>
    /\ SameOutside(st.h, st'.h, Where.qd \cup Where.an \cup Where.ns \cup Where.ar)
    /\ \A sec \in 0..3 : HCount(st'.h, sec) = IF sec + 1 > A[1] THEN 0 ELSE HCount(st.h, sec)
GotoCounts == [][GotoCountsA]_vars
=============================================================================
