---------------------------- MODULE MC_HostLookup ----------------------------
EXTENDS HostLookup, TLC, Json
CONSTANT MaxA, Max6      \* records per answer
VARIABLES W, st
vars == <<W, st>>

RECURSIVE SeqsUpTo(_, _)
SeqsUpTo(S, n) == IF n = 0 THEN {<<>>}
                  ELSE LET P == SeqsUpTo(S, n - 1)
                       IN P \cup {Append(p, x) : p \in {q \in P : Len(q) = n - 1}, x \in S}
Owners == {0, 1, 2, 9}
RecSeqs(n) == {[i \in 1..Len(s) |-> <<s[i], i>>] : s \in SeqsUpTo(Owners, n)}
Answers(n) == {ErrAns} \cup {[err |-> FALSE, chain |-> c, loop |-> l, recs |-> r] : c \in 0..2, l \in BOOLEAN, r \in RecSeqs(n)}

Init == W \in [a : Answers(MaxA), aaaa : Answers(Max6)] /\ st = HInit
A_AskA     == st.ph = "start"  /\ st' = AskA(W, st)          /\ UNCHANGED W
A_AskAAAA  == st.ph = "askedA" /\ st' = AskAAAA(W, st)       /\ UNCHANGED W
A_Join     == st.ph = "join"   /\ st' = Join(W, st)          /\ UNCHANGED W
A_IsEmpty  == st.ph = "found"  /\ st' = IsEmpty(W, st)       /\ UNCHANGED W
A_Canonical == st.ph = "canon" /\ st' = CanonicalName(W, st) /\ UNCHANGED W
A_Iter     == st.ph = "iter"   /\ st' = Iter(W, st)          /\ UNCHANGED W
Done == st.ph = "done" /\ UNCHANGED vars
Next == A_AskA \/ A_AskAAAA \/ A_Join \/ A_IsEmpty \/ A_Canonical \/ A_Iter
Spec == Init /\ [][Next \/ Done]_vars

I_BothAsked == BothAsked(st)
I_ErrOnlyIfBothFail == ErrOnlyIfBothFail(W, st)
I_UnionOfBoth == UnionOfBoth(W, st)
I_OnlyCanonicalOwners == OnlyCanonicalOwners(W, st)
I_NoPanic == NoPanic(st)

NameOf(i) == CASE i = 0 -> "h.test." [] i = 1 -> "c1.test." [] OTHER -> "c2.test."
SetToSeq(S) == LET RECURSIVE f(_) f(T) == IF T = {} THEN <<>> ELSE LET x == CHOOSE y \in T : \A z \in T : y <= z IN <<x>> \o f(T \ {x}) IN f(S)
AnsJson(ans) == ans
GenOnlyInit == st.ph = "start"
Emit == st.ph = "start" =>
  LET both == IsErr(W.a) /\ IsErr(W.aaaa)
      names == SetToSeq(ChainNames(W.a) \cup ChainNames(W.aaaa))
      loopUsed == ~both /\ Canon(Used(W)) = -1
      res == [empty |-> (IsErr(W.aaaa) \/ AnCount(W.aaaa) = 0) /\ (IsErr(W.a) \/ AnCount(W.a) = 0),
              canon |-> "ok", qname |-> "h.test.",
              addrs |-> Addrs(W.aaaa, 6) \o Addrs(W.a, 4), socks |-> TRUE]
  IN PrintT("CASE " \o ToJson(
       [in |-> [fam |-> "host", a |-> AnsJson(W.a), aaaa |-> AnsJson(W.aaaa), port |-> 8080,
                canon_ok |-> [i \in 1..Len(names) |-> NameOf(names[i])]],
        exp |-> [qs |-> <<<<"h.test.", "A">>, <<"h.test.", "AAAA">>>>,
                 res |-> IF both THEN [err |-> TRUE] ELSE res],
        devp |-> loopUsed]))
=============================================================================
