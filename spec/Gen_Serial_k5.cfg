CONSTANTS
  Sites <- SiteTable
  BITS = 5
SPECIFICATION GenSpec
INVARIANT EmitCmp
INVARIANT EmitAdd
INVARIANT EmitSites
CHECK_DEADLOCK FALSE
