CONSTANTS
  BITS = 5
SPECIFICATION GenSpec
INVARIANT EmitCmp
INVARIANT EmitAdd
CHECK_DEADLOCK FALSE
