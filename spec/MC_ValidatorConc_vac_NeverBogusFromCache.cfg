CONSTANTS
  Procs = {1, 2}
  Qs = {"zone"}
  Runs = 1
  MaxNow = 0
  Budget = 1
  AdvKinds = {"Empty"}
  Dev = {}
  Mut = {}
  Atomic = FALSE
SPECIFICATION Spec
INVARIANT NeverBogusFromCache
CHECK_DEADLOCK TRUE
