CONSTANTS
  Sites <- SiteTable
  BITS = 10
SPECIFICATION GenSpec
INVARIANT EmitCmp
INVARIANT EmitAdd
INVARIANT EmitSites
CHECK_DEADLOCK FALSE
