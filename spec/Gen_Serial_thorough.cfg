CONSTANTS
  BITS = 10
SPECIFICATION GenSpec
INVARIANT EmitCmp
INVARIANT EmitAdd
CHECK_DEADLOCK FALSE
