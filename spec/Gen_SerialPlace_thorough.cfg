CONSTANTS
  BITS = 8
  ERAS = 3
SPECIFICATION GenSpec
INVARIANT EmitPlace
CHECK_DEADLOCK FALSE
