CONSTANTS
  Dev = {}
  MaxLen = 6
SPECIFICATION Spec
INVARIANT ParensNonNeg
INVARIANT WriteNeverPassesRead
INVARIANT EofInsideQuoteIsError
INVARIANT IdealNeverPanics
INVARIANT OutcomeWellFormed
INVARIANT DevOnlyAtGuards
PROPERTY PosMonotone
PROPERTY ErrSticky
PROPERTY OutputPrefix
CHECK_DEADLOCK FALSE
