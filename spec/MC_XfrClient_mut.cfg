CONSTANTS
  Dev = {"M_cs_intermediate_serial"}
  RecU = {5, 13}
  TtlU = {0}
  Styles = {"rfc"}
  MaxC = 1
  Kinds = {"ixfr1", "ixfr2"}
  MaxMsgs = 3
  FaultKinds = {"none"}
  LaterQ = {FALSE, TRUE}
SPECIFICATION CSpec
INVARIANT ClientStepwiseIsFold
INVARIANT ClientEndAgrees
INVARIANT ClientEndIsInterpreterEnd
INVARIANT ClientOrdered
CHECK_DEADLOCK FALSE
