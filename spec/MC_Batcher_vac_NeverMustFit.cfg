CONSTANTS
  Sizes = {1, 2, 3, 5, 7}
  Hs = {2}
  Ls = {5, 6, 8}
  RRs = {0, 1, 2}
  MaxLen = 5
SPECIFICATION MCSpec
INVARIANT B1_ExactlyOnceInOrder
INVARIANT B2_Bounded
INVARIANT B3_GreedyAtEnd
INVARIANT B5_MustFit
INVARIANT FnAgrees
INVARIANT FnAgreesNext
INVARIANT NeverMustFit
PROPERTY GreedyStep
PROPERTY Overlong
CHECK_DEADLOCK FALSE
