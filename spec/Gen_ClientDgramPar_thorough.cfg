CONSTANTS
  TickMs = 10000
  PConfs <- ParConfsT
  Bursts = {1, 2, 3, 101, 1002}
  MaxBursts = 2
  MaxOps = 14
SPECIFICATION GenSpec
VIEW GenView
ACTION_CONSTRAINT EmitTransition
INVARIANT PLimit
INVARIANT PNoStarve
INVARIANT PAccount
CHECK_DEADLOCK FALSE
