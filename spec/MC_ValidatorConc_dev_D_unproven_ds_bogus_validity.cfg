CONSTANTS
  Procs = {1, 2}
  Qs = {"zone"}
  Runs = 1
  MaxNow = 2
  Budget = 1
  AdvKinds = {"Empty"}
  Dev = {"D_unproven_ds_bogus_validity"}
  Mut = {}
  Atomic = FALSE
SPECIFICATION Spec
INVARIANT BogusCapped
CHECK_DEADLOCK TRUE
