CONSTANTS
  Dev = {}
  Mut = {}
  Names = {"a.example"}
  Types = {"A"}
  Cases = {0}
  AdVals = {FALSE}
  CdVals = {FALSE}
  DoVals = {FALSE, TRUE}
  RdVals = {TRUE}
  WithBypass = FALSE
  Classes <- AllClasses
  TtlVecs <- TV_Quick
  AdBits = {FALSE, TRUE}
  Ticks <- TK_Bounds
  Configs <- CfgsAll
  MaxSteps = 3
SPECIFICATION Spec
VIEW View
INVARIANT TypeOK
PROPERTY P_ServedWasSaid
PROPERTY P_AgedExactly
PROPERTY P_NeverStale
PROPERTY P_BoundsRespected
PROPERTY P_NoDnssecLeak
PROPERTY P_NoPanic
PROPERTY P_ViewIsWire
CHECK_DEADLOCK FALSE
