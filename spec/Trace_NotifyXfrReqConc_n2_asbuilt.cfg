CONSTANTS
  N = 2
  T = 6
  W = 2
  Cap = 2
  Kinds = {"axfr", "ixfr"}
  Design = "ordered"
  Dev = {"D_xfr_permits_not_held"}
SPECIFICATION TSpec
INVARIANT Far
INVARIANT C2_Conserved
POSTCONDITION Accepted
CHECK_DEADLOCK FALSE
