CONSTANTS
  Procs = {1, 2}
  Qs = {"zone", "plain"}
  Runs = 1
  MaxNow = 0
  Budget = 0
  AdvKinds = {}
  Dev <- EnvDev
  Mut = {}
  Atomic = TRUE
  Script <- NoScript
SPECIFICATION GSpec
INVARIANT Emit
CHECK_DEADLOCK FALSE
