------------------------------ MODULE MC_Repl ------------------------------
(* Exhaustive exploration of Repl.tla: one transfer between a primary with  *)
(* a version history and a secondary, an in-path adversary acting on the     *)
(* request and on the response stream, the secondary stepped one             *)
(* get_response() at a time.  Also the S->I behaviour generator (Emit).     *)
EXTENDS Repl, Json, IOUtils

CONSTANTS Hists,       \* set of histories <<[s, c], ...>>, oldest first, s = 1, 2, ...
          Bases,       \* serial of version index 0 in the 4-bit serial space (14: the history wraps)
          Reqs,        \* set of <<kind, from, diffs>>: AXFR / IXFR from version index / diffs kept by the primary
          Keys,        \* subset of KeyCfgs
          OldC,        \* content of the secondary before an AXFR (unrelated to the primary's history)
          MaxMsgs,     \* messages per packaging
          LaterQ,      \* subset of BOOLEAN: later messages repeat the question?
          FaultKinds,  \* subset of FaultNames \cup {"flipreq"}
          MaxFaults,
          Bursts,      \* sizes of unsigned bursts
          Prim         \* "scripted" | "real": which primary the executor uses (generator only)

VARIABLES sc,      \* scenario
          phase,   \* "start" | "req" | "wire"
          c2s,     \* the request in flight
          pri,     \* primary: verdict and what it really sent
          old,     \* an earlier transfer (version n-1, other request) the adversary recorded
          wire,    \* response stream in flight
          eos,     \* how the stream ends: "end" | "abort"
          sec,     \* secondary
          tbl,     \* MAC table
          faults,  \* adversary actions taken
          steps    \* projection after every get_response
vars == <<sc, phase, c2s, pri, old, wire, eos, sec, tbl, faults, steps>>

EnvDev == {d \in DevNames : d \in DOMAIN IOEnv}
XEnvDev == {d \in X!DevNames : d \in DOMAIN IOEnv}

\* configurations (records: 1,2 = apex A v0/v1; 3 = apex TXT; 5,6 = a.example A; 7 = a.example TXT; 9 = b.a.example A)
H2 == <<[s |-> 1, c |-> {1, 5}], [s |-> 2, c |-> {2, 5}]>>
H3 == <<[s |-> 1, c |-> {1}], [s |-> 2, c |-> {1, 5}], [s |-> 3, c |-> {2, 5, 7}]>>
H2e == <<[s |-> 1, c |-> {}], [s |-> 2, c |-> {6}]>>
HistsA == {H2, H3}
HistsB == {H2}
HistsC == {H2, H3, H2e}
ReqsAll == {<<AXFR, 1, TRUE>>, <<IXFR, 1, TRUE>>, <<IXFR, 2, TRUE>>, <<IXFR, 3, TRUE>>, <<IXFR, 1, FALSE>>}
ReqsReal == {<<AXFR, 1, TRUE>>, <<IXFR, 1, TRUE>>, <<IXFR, 2, TRUE>>, <<IXFR, 1, FALSE>>}
ReqsB == {<<AXFR, 1, TRUE>>, <<IXFR, 1, TRUE>>}
OldC9 == {9}

\* record universe of the receiver's zone: names 0..2, both types, both values
U == 1..12

Cur == Last(sc.hist)
CurView == X!VersionView(Cur.s, Cur.c)
OldVer == IF sc.kind = AXFR THEN [s |-> sc.hist[1].s, c |-> OldC] ELSE sc.hist[sc.from]
OldView == X!VersionView(OldVer.s, OldVer.c)
HistViews == {X!VersionView(sc.hist[i].s, sc.hist[i].c) : i \in 1..Len(sc.hist)}
Honest == faults = <<>> /\ eos = "end"

HonestMsgs(s) ==
  LET q == AnswerSeq(s) IN X!Package(q, s.cuts, s.kind, s.lq)
\* the earlier transfer: AXFR of the version before the current one, two messages
OldMsgs(s) ==
  LET n == Len(s.hist)
      v == s.hist[IF n > 1 THEN n - 1 ELSE 1]
      ms == X!Package(X!AxfrSeq(v.s, v.c), {1}, AXFR, FALSE)
  IN [i \in 1..Len(ms) |-> [ms[i] EXCEPT !.id = 0]]
WantOld == FaultKinds \cap {"splice", "replay"} # {}

Scenarios ==
  {s \in [hist : Hists, base : Bases, rq : Reqs, key : Keys, lq : LaterQ] :
     /\ s.rq[2] <= Len(s.hist)
     /\ s.key # "good" => s.lq = FALSE
     \* the real transfer middleware answers an up-to-date client with the full
     \* zone (X05 D_ixfr_uptodate_full_zone): not this check's subject
     /\ Prim = "real" => (s.rq[1] = AXFR \/ s.rq[2] < Len(s.hist))}

Init ==
  /\ \E s \in Scenarios :
       LET s0 == [hist |-> s.hist, base |-> s.base, kind |-> s.rq[1], from |-> s.rq[2],
                  diffs |-> s.rq[3], key |-> s.key, lq |-> s.lq, cuts |-> {}]
           q == AnswerSeq(s0)
       IN \E C \in X!Cuts(Len(q), MaxMsgs) :
            /\ s.key # "good" => C = {}
            \* an answer to IXFR whose first message holds only the SOA *is* the
            \* "retry over TCP" signal (RFC 1995 2): senders do not package so
            /\ (s0.kind = IXFR /\ Len(q) > 1) => 1 \notin C
            \* AXFR-style answer to IXFR: the second record must not be a SOA
            /\ (s0.kind = IXFR /\ ~s0.diffs /\ Len(q) > 1) => Last(s0.hist).c # {}
            /\ sc = [s0 EXCEPT !.cuts = C]
  /\ phase = "start" /\ c2s = <<>> /\ wire = <<>> /\ eos = "end" /\ old = <<>>
  /\ pri = [res |-> "", rc |-> 0, terr |-> 0, sent |-> <<>>]
  /\ sec = SecInit(X!ContentOf(U, OldVer.s, OldVer.c))
  /\ tbl = <<>> /\ faults = <<>> /\ steps = <<>>

\* net::client::tsig: RequestMessage::append_message signs the request
\* (ClientSequence::request) when the transport composes it
SecRequest ==
  /\ phase = "start"
  /\ LET m == ReqMsg(ReqId, sc.kind, sc.from)
     IN IF sc.key = "none"
        THEN /\ c2s' = m /\ tbl' = tbl
             /\ sec' = [sec EXCEPT !.st = "wait"]
        ELSE LET r == T!ClientRequestStep(CKey(sc.key), m, Now, Fudge, tbl,
                                          T!PseudoFull(Len(tbl) + 1, SKey.alg))
             IN /\ c2s' = r.msg /\ tbl' = r.tbl
                /\ sec' = [sec EXCEPT !.st = "wait", !.cs = [ctx |-> r.ctx, first |-> TRUE, unsigned |-> 0]]
  /\ phase' = "req"
  /\ UNCHANGED <<sc, pri, old, wire, eos, faults, steps>>

\* the adversary alters the request (the serial / qtype octets)
AdvFlipReq ==
  /\ phase = "req" /\ "flipreq" \in FaultKinds /\ Len(faults) < MaxFaults /\ faults = <<>>
  /\ sc.key # "none"
  /\ c2s' = [c2s EXCEPT !.body[1] = @ + 1]
  /\ faults' = Append(faults, [k |-> "flipreq", i |-> 0, j |-> 0])
  /\ UNCHANGED <<sc, phase, pri, old, wire, eos, sec, tbl, steps>>

\* TsigMiddlewareSvc::call: preprocess (ServerTransaction::request), the
\* transfer middleware's stream, postprocess of every item
PriServe ==
  /\ phase = "req"
  /\ LET o == IF WantOld /\ sc.key = "good"
              THEN LET r0 == T!ClientRequestStep(SKey, ReqMsg(OldId, AXFR, 1), Now, Fudge, tbl,
                                                 T!PseudoFull(Len(tbl) + 1, SKey.alg))
                   IN Serve(r0.msg, AXFR, OldMsgs(sc), r0.tbl)
              ELSE [res |-> "", rc |-> 0, terr |-> 0, els |-> <<>>, tbl |-> tbl]
         r == Serve(c2s, sc.kind, HonestMsgs(sc), o.tbl)
     IN /\ pri' = [res |-> r.res, rc |-> r.rc, terr |-> r.terr, sent |-> r.els]
        /\ wire' = r.els /\ old' = o.els /\ tbl' = r.tbl
  /\ phase' = "wire"
  /\ UNCHANGED <<sc, c2s, eos, sec, faults, steps>>

CanAdv(k) == /\ phase = "wire" /\ steps = <<>> /\ k \in FaultKinds /\ Len(faults) < MaxFaults
             /\ pri.res = "Ok"
Fault(k, i, j, w) == /\ wire' = w
                     /\ faults' = Append(faults, [k |-> k, i |-> i, j |-> j])
                     /\ UNCHANGED <<sc, phase, c2s, pri, old, eos, sec, tbl, steps>>
Idx == 1..Len(wire)
Plain(i) == wire[i].rep = 1

AdvDrop == CanAdv("drop") /\ \E i \in Idx : Fault("drop", i, 0, DropAt(wire, i))
AdvDup == CanAdv("dup") /\ \E i \in Idx : Plain(i) /\ Fault("dup", i, 0, DupAt(wire, i))
AdvSwap == CanAdv("swap") /\ \E i \in 1..(Len(wire) - 1) : Fault("swap", i, 0, SwapAt(wire, i))
AdvTruncRec == CanAdv("truncrec") /\ \E i \in Idx :
                 Plain(i) /\ Len(wire[i].x.an) >= 2 /\ wire[i].x.anc = Len(wire[i].x.an)
                 /\ Fault("truncrec", i, 0, TruncRecAt(wire, i))
AdvFlipRec == CanAdv("fliprec") /\ \E i \in Idx : \E j \in 1..Len(wire[i].x.an) :
                 Plain(i) /\ Fault("fliprec", i, j, FlipRecAt(wire, i, j))
AdvFlipMac == CanAdv("flipmac") /\ \E i \in Idx :
                 wire[i].ts # <<>> /\ Last(wire[i].ts).mac # <<>> /\ Fault("flipmac", i, 0, FlipMacAt(wire, i))
AdvStrip == CanAdv("strip") /\ \E i \in Idx : wire[i].ts # <<>> /\ Fault("strip", i, 0, StripAt(wire, i))
AdvRekey == CanAdv("rekey") /\ \E i \in Idx : wire[i].ts # <<>> /\ Fault("rekey", i, 0, RekeyAt(wire, i))
AdvSplice == CanAdv("splice") /\ \E i \in Idx : \E k \in 1..Len(old) :
                 Fault("splice", i, k, SpliceAt(wire, i, old[k]))
AdvReplay == CanAdv("replay") /\ old # <<>> /\ faults = <<>> /\ Fault("replay", 0, 0, old)
\* a record of the universe the current version does not hold
ForgeRec == CHOOSE r \in U : r \notin Cur.c /\ ToggleRec(r) \notin Cur.c
AdvForge == CanAdv("forge") /\ \E i \in 2..Len(wire) :
                 Fault("forge", i, 0, ForgeAt(wire, i, ForgedMsg(sc.kind, ForgeRec, X!SoaRec(Cur.s))))
\* n unsigned copies of a message that repeats one record of the answer
\* (harmless to the interpreter in an AXFR-style answer: RFC 5936 2.2)
BurstMsg == X!Msg(<<>>, <<CHOOSE r \in Cur.c : TRUE>>)
AdvBurst == CanAdv("burst") /\ sc.kind = AXFR /\ Cur.c # {} /\ Len(wire) >= 2
            /\ \A i \in Idx : Plain(i)
            /\ \E n \in Bursts : Fault("burst", 1, n, BurstAt(wire, 1, BurstMsg, n))
AdvCut == /\ CanAdv("cut")
          /\ \E k \in 0..(Len(wire) - 1) : \E mode \in {"end", "abort"} :
               /\ wire' = CutAt(wire, k) /\ eos' = mode
               /\ faults' = Append(faults, [k |-> "cut", i |-> k, j |-> IF mode = "end" THEN 0 ELSE 1])
               /\ UNCHANGED <<sc, phase, c2s, pri, old, sec, tbl, steps>>

Adversary == AdvDrop \/ AdvDup \/ AdvSwap \/ AdvTruncRec \/ AdvFlipRec \/ AdvFlipMac \/ AdvStrip
             \/ AdvRekey \/ AdvSplice \/ AdvReplay \/ AdvForge \/ AdvBurst \/ AdvCut

\* one get_response() of the secondary's loop
Deliver ==
  /\ phase = "wire" /\ wire # <<>> /\ ~IsFinal(sec.st)
  /\ LET r == Call(sec, sc.key, sc.kind, wire, eos, tbl)
     IN /\ sec' = r.sec
        /\ wire' = r.wire
        /\ steps' = Append(steps, StepOf("deliver", r.tsig, r.sec))
  /\ UNCHANGED <<sc, phase, c2s, pri, old, eos, tbl, faults>>

Eos ==
  /\ phase = "wire" /\ wire = <<>> /\ ~IsFinal(sec.st)
  /\ LET r == EndOfStream(sec, sc.key, eos)
     IN /\ sec' = r.sec
        /\ steps' = Append(steps, StepOf("eos", r.tsig, r.sec))
  /\ UNCHANGED <<sc, phase, c2s, pri, old, wire, eos, tbl, faults>>

Parties == SecRequest \/ PriServe \/ Deliver \/ Eos
Next == Parties \/ AdvFlipReq \/ Adversary
Spec == Init /\ [][Next]_vars /\ WF_vars(Parties)

Closed == IsFinal(sec.st)

--------------------------------------------------------------------------
(* Properties *)

AccX == sec.acc
SentX == [i \in 1..Len(pri.sent) |-> pri.sent[i].x]
RecordsOf(xs) == UNION {X!Range(xs[i].an) : i \in 1..Len(xs)}

\* P1: an undisturbed transfer is applied and reproduces the primary's zone
Replicated ==
  (Closed /\ Honest /\ sc.key = "good") =>
     /\ Pub(sec) = CurView
     /\ (sc.kind = AXFR \/ sc.from < Len(sc.hist)) => sec.st = "applied"
\* P1: readers see the old version, then versions of the history in order
PubsOf == [i \in 1..Len(steps) |-> steps[i].pub]
IndexOfView(v) == IF v = OldView THEN 0
                  ELSE CHOOSE i \in 1..Len(sc.hist) : v = X!VersionView(sc.hist[i].s, sc.hist[i].c)
NoPartialInOrder ==
  Honest => /\ \A i \in 1..Len(steps) : steps[i].pub \in {OldView} \cup HistViews
            /\ \A i \in 1..(Len(steps) - 1) :
                 steps[i].pub # steps[i + 1].pub => IndexOfView(steps[i].pub) < IndexOfView(steps[i + 1].pub)

\* P2a
PublishedLegit == sc.key # "none" => Pub(sec) \in {OldView} \cup HistViews
\* P2b
AcceptedIsPrefix == sc.key # "none" => IsPrefix(AccX, SentX)
\* P2c
AppliedIsCurrent == sec.st = "applied" => (Pub(sec) = CurView /\ (sc.key # "none" => AccX = SentX))
\* P2d
KeyMismatchNothing ==
  (sc.key # "good" /\ phase = "wire") =>
     /\ RecordsOf(SentX) = {} /\ RecordsOf(AccX) = {} /\ Pub(sec) = OldView /\ sec.st # "applied"
     /\ sc.key = "wrongsecret" => (pri.rc = NOTAUTH /\ pri.terr = T!BADSIG)
     /\ sc.key = "unknown" => (pri.rc = NOTAUTH /\ pri.terr = T!BADKEY)
     /\ sc.key = "none" => (pri.rc = REFUSED /\ pri.terr = 0)
\* an altered request never yields records either
AlteredRequestNothing ==
  (sc.key = "good" /\ faults # <<>> /\ faults[1].k = "flipreq" /\ phase = "wire") =>
     (pri.rc = NOTAUTH /\ pri.terr = T!BADSIG /\ RecordsOf(SentX) = {} /\ Pub(sec) = OldView)
\* a failed transfer never leaves something uncommitted visible (the view is
\* the committed content by construction) and is explained
FailureExplained == sec.st = "failed" => sec.why \in {"auth", "xfr", "trailing", "early", "transport"}
\* tampering is noticed: after one adversary action the transfer is never
\* reported applied (two actions may undo each other)
TamperNoticed == (sc.key = "good" /\ Len(faults) = 1) => sec.st # "applied"

\* P3
Terminates == <>Closed

--------------------------------------------------------------------------
(* S->I: one case per maximal behaviour *)

SetSeq(Sx) == X!SetToSeq(Sx)
ScJson == [hist |-> [i \in 1..Len(sc.hist) |-> [s |-> sc.hist[i].s, c |-> SetSeq(sc.hist[i].c)]],
           base |-> sc.base, kind |-> sc.kind, from |-> sc.from, diffs |-> sc.diffs,
           key |-> sc.key, lq |-> sc.lq, cuts |-> SetSeq(sc.cuts),
           olds |-> OldVer.s, oldc |-> SetSeq(OldVer.c),
           msgs |-> HonestMsgs(sc), oldmsgs |-> IF WantOld THEN OldMsgs(sc) ELSE <<>>,
           faults |-> faults, eos |-> eos, prim |-> Prim, forge |-> ForgeRec,
           burst |-> IF Cur.c # {} THEN CHOOSE r \in Cur.c : TRUE ELSE 0]
ExpJson ==
  IF Prim = "scripted"
  THEN [serve |-> [res |-> pri.res, rc |-> pri.rc, terr |-> pri.terr, n |-> Len(pri.sent)],
        steps |-> steps,
        final |-> [st |-> sec.st, why |-> sec.why, pub |-> Pub(sec)]]
  ELSE [serve |-> [res |-> pri.res, rc |-> pri.rc, terr |-> pri.terr],
        final |-> [st |-> sec.st, why |-> sec.why, pub |-> Pub(sec)]]
Emit == Closed => PrintT("CASE " \o ToJson([in |-> ScJson, exp |-> ExpJson]))
=============================================================================
