--------------------------- MODULE MC_ServerSize ---------------------------
(* C16 part 1: the size discipline of the middleware stack enumerated over *)
(* client EDNS size x server hint x response length x OPT length x         *)
(* question length x transport; every enumerated evaluation is also one    *)
(* implementation case (S->I).                                             *)
EXTENDS Server, Json

CONSTANTS CSizes,     \* client EDNS sizes, NoV (70000) = request without OPT
          Hints,      \* transport's max_response_size_hint, NoV = None
          Lens,       \* total length of the service's response
          OptLens,    \* length of the OPT record in it (0 = none)
          QLens,      \* length of the question section
          ROpts,      \* EDNS options carried by the request's OPT record
          Recipes,    \* how the service's builder operations end (Server.tla 1c)
          Routes,     \* how the service makes its builder
          ALays,      \* non-OPT additional records around the OPT record
          Tgts,       \* octets type under the stream target: "vec" | "bytes"
          SvcRoutes,  \* "impl" (Service implemented) | "fn" (util::service_fn)
          EOns        \* EdnsMiddlewareSvc::enable

VARIABLES cs, done
vars == <<cs, done>>

\* the executor builds: header, question, A record (15), filler records
\* (11 + n each), OPT: an exact length needs filler = 0 or >= 11
\* and an OPT record is 11 octets or carries one padding option (4 + n)
Feasible(q, l, o, al) == LET f == l - (12 + q + 15 + o + AddsOf(al))
                         IN (f = 0 \/ f >= 11) /\ (o \in {0, 11} \/ o >= 15)

\* The request's options (keepalive -- which a server MUST ignore over UDP,
\* RFC 7828 3.3.1 --, padding, cookie without server part, NSID, an unknown
\* code, several at once) are part of the case; no operator of the size
\* discipline looks at them: `Allowed` depends on the advertised size only.
Cases == {c \in [udp : BOOLEAN, csize : CSizes, hint : Hints, len : Lens,
                 optlen : OptLens, qlen : QLens, ropts : ROpts,
                 recipe : Recipes, route : Routes, alay : ALays, tgt : Tgts,
                 svcroute : SvcRoutes, eon : EOns] :
            /\ (c.csize = NoV => c.ropts = "none")
            /\ Feasible(c.qlen, c.len, c.optlen, c.alay)
            \* util::service_fn is exercised over Vec<u8> targets
            /\ (c.svcroute = "fn" => c.tgt = "vec")
            /\ (~c.udp => c.hint = NoV)}        \* no hint on stream transports

Init == cs \in Cases /\ done = FALSE
Next == ~done /\ done' = TRUE /\ UNCHANGED cs
Spec == Init /\ [][Next]_vars

Req(c) == [udp |-> c.udp, edns |-> c.csize # NoV, csize |-> c.csize, qlen |-> c.qlen,
           opts |-> c.ropts, eon |-> c.eon]
Svc(c) == [len |-> c.len, optlen |-> c.optlen,
           body |-> c.len - 12 - c.qlen - c.optlen, tc |-> FALSE]

UdpSize      == UdpSizeOK(Req(cs), cs.hint, Svc(cs))
TcIffDropped == TcIffDroppedOK(Req(cs), cs.hint, Svc(cs))
StillParses  == StillParsesOK(Req(cs), cs.hint, Svc(cs))
\* "correctly framed (two-octet length on streams)": whatever the service's
\* and the middleware's last builder operation was, the prefix announces
\* exactly the message
StreamFramed == FramedOK(cs.recipe, Svc(cs).len)
                /\ (~cs.udp => FramedOK("plain", Final(Dev, Req(cs), cs.hint, Svc(cs)).len))
\* negotiation laws (RFC 6891 6.2.3 / 6.2.5)
NegotiateLaws ==
  cs.csize # NoV =>
    LET n == Negotiate(cs.csize, cs.hint)
    IN /\ n >= 512 /\ n <= Max(512, cs.csize)
       /\ (cs.hint # NoV /\ cs.hint >= 512) => n <= cs.hint
\* vacuity guards: truncation and non-truncation both occur
SomeTruncated == ~(done /\ Final(Dev, Req(cs), cs.hint, Svc(cs)).tc)
SomeUntouched == ~(done /\ cs.udp /\ ~Final(Dev, Req(cs), cs.hint, Svc(cs)).tc)
\* ... a stream response whose last builder operation removed octets: by the
\* service's recipe, and by the EDNS middleware stripping the OPT record
SomeCutLast  == ~(done /\ ~cs.udp /\ cs.recipe # "plain" /\ RecipeEnd(cs.recipe, Svc(cs).len).len = Svc(cs).len)
SomeStripped == ~(done /\ ~cs.udp /\ cs.eon /\ cs.csize = NoV /\ cs.optlen > 0
                       /\ Final(Dev, Req(cs), cs.hint, Svc(cs)).optlen = 0)

ExpFor(dv, c) ==
  LET f == Final(dv, Req(c), c.hint, Svc(c))
  IN [n |-> 1, len |-> f.len, tc |-> f.tc, trunc |-> f.body = 0,
      opt |-> IF f.optlen > 0 THEN 1 ELSE 0, good |-> TRUE,
      reserved |-> Reserve(Req(c)), hint |-> HintAfter(Req(c), c.hint),
      \* streams: the two-octet prefix in front of the message
      frame |-> IF c.udp THEN -1 ELSE FrameOf(c.recipe, f.len),
      \* the request converts into a client request (forwarding services)
      fwd |-> TRUE, nonudp |-> ~c.udp,
      hints |-> HintsFor("service", 1)]

Emit == done => PrintT("CASE " \o ToJson(
   [in  |-> [kind |-> "size", udp |-> cs.udp, edns |-> cs.csize # NoV,
             csize |-> cs.csize, hint |-> cs.hint, qlen |-> cs.qlen,
             len |-> cs.len, optlen |-> cs.optlen, ropts |-> cs.ropts,
             recipe |-> cs.recipe, route |-> cs.route, alay |-> cs.alay, tgt |-> cs.tgt,
             svcroute |-> cs.svcroute, eon |-> cs.eon],
    exp |-> ExpFor({}, cs),
    dev |-> [D_no_edns_uses_server_hint |-> ExpFor({"D_no_edns_uses_server_hint"}, cs),
             D_trunc_opt_over_limit     |-> ExpFor({"D_trunc_opt_over_limit"}, cs)]]))
\* The same evaluations, as far as a client on the other side of a real
\* socket can see them (and the service, of what the middleware told it); a
\* plain request follows on the same socket / pipelined on the same
\* connection and is answered as well ("then").
EmitSock == done => PrintT("CASE " \o ToJson(
   [in  |-> [kind |-> "sock", udp |-> cs.udp, edns |-> cs.csize # NoV,
             csize |-> cs.csize, hint |-> cs.hint, qlen |-> cs.qlen,
             len |-> cs.len, optlen |-> cs.optlen, ropts |-> cs.ropts,
             recipe |-> cs.recipe, route |-> cs.route, alay |-> cs.alay, tgt |-> cs.tgt,
             svcroute |-> cs.svcroute, eon |-> cs.eon],
    exp |-> LET e == ExpFor({}, cs)
            IN [n |-> 1, len |-> e.len, tc |-> e.tc, trunc |-> e.trunc, opt |-> e.opt,
                good |-> TRUE, reserved |-> e.reserved, hint |-> e.hint, frame |-> e.frame,
                then |-> "ans"]]))
=============================================================================
