CONSTANTS
  Keys <- MCKeys
  KType <- MCKType
  KAlg <- MCKAlg
  MaxTTL = 2
  Dev <- OpenDevs
  KeySeq <- KS_big
  MaxList = 2
  Ops = {"add_unavailable", "set_present", "set_signer", "set_at_parent", "set_stale", "set_decoupled", "set_visible", "set_ds_visible", "set_rrsig_visible"}
  SetKeys <- MCKeys
  Rts <- RollTypes
  AltTag = {"k2", "z2"}
  OddLists = TRUE
  WellTyped = FALSE
  NoopRolls = TRUE
SPECIFICATION SimSpec
ACTION_CONSTRAINT EmitS
CHECK_DEADLOCK FALSE
