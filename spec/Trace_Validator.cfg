CONSTANTS
  Dev = {}
  Mut = {}
  AdvOn = {"ANS", "DS", "DNSKEY"}
  AnchorForms = {"dnskey"}
  Cfgs = {"default"}
  MaxRuns = 1
  EntQKinds = {"positive", "nxdomain", "ds"}
  Budget = 2
  Shapes = {"secure3"}
  Denials = {"nsec"}
  QKinds = {"positive"}
  AdvActs = {"ShortSig", "DropRrsig", "DropRrset", "ReplaceRdata", "WrongSigner", "Expire", "NotYetValid", "ReplayAncestor", "AddCollidingKey", "AddExtraDs", "CorruptSigOctets", "HideCe", "ForgeSigned", "AddBadSig", "CorruptKey", "CorruptDs", "StripProof", "ForgeNsecRange", "SwapProof", "BadNsec3Label", "BadNsec3LabelSigned", "ZeroCounts", "ZeroTtl", "Inject", "CnameLoop", "MisapplyWildcard", "DenyExisting", "SigsFirst", "Duplicate", "OrphanSig", "WrongSoa"}
SPECIFICATION TSpec
INVARIANT TraceSound
POSTCONDITION Accepted
CHECK_DEADLOCK FALSE
