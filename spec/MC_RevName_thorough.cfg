CONSTANTS
  Bnd4 = {0, 1, 9, 10, 99, 100, 199, 255}
  Full = TRUE
SPECIFICATION Spec
INVARIANT I_BuiltIsRfcName
INVARIANT I_NeverTooLong
INVARIANT I_Invertible
INVARIANT I_OctetLaws
INVARIANT I_Injective
CHECK_DEADLOCK FALSE
