CONSTANTS
  Dev = {}
  Small = FALSE
  MaxOps = 3
  KeepHist = FALSE
  Family = "all"
SPECIFICATION Spec
VIEW MCView
INVARIANTS P1_RoutesAgree P2_Exactly P2_OneOpt P1_Getters P4_AnsFrame NewState
PROPERTIES P3_ReadOnly P3_Idempotent P3_Reflected
CHECK_DEADLOCK FALSE
