CONSTANTS
  Dev = {}
  RecU = {1, 2}
  TtlU = {0, 1}
  Styles = {"rfc", "stamped"}
  MaxC = 2
  Kinds = {"ixfr2"}
  MaxMsgs = 2
  FaultKinds = {"none"}
  LaterQ = {FALSE}
SPECIFICATION Spec
INVARIANT StepwiseIsRun
INVARIANT AxfrFidelity
INVARIANT IxfrFidelity
INVARIANT HonestDenotesHistory
INVARIANT DiffApply
INVARIANT PublishedIsLegit
INVARIANT FaultRejectedOrHarmless
INVARIANT RolledBack
CHECK_DEADLOCK FALSE
