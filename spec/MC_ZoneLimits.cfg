CONSTANTS
  Dev = {}
SPECIFICATION Spec
INVARIANT SpellingIrrelevant
CHECK_DEADLOCK FALSE
