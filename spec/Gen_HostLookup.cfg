CONSTANTS
  Dev = {}
  MaxA = 2
  Max6 = 1
SPECIFICATION Spec
INVARIANT Emit
CONSTRAINT GenOnlyInit
CHECK_DEADLOCK FALSE
