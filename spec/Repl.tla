-------------------------------- MODULE Repl --------------------------------
(***************************************************************************)
(* X08 - secondary zone replication end to end: TSIG o XFR o zone update.  *)
(*                                                                         *)
(* The composition a real secondary uses.  Primary:                        *)
(*   TsigMiddlewareSvc( XfrMiddlewareSvc( zone + difference history ) )    *)
(* Secondary:                                                              *)
(*   net::client::tsig::Connection (multi-response get_response)           *)
(*     -> XfrResponseInterpreter -> ZoneUpdater                            *)
(* glued by the loop documented in zonetree/update.rs (apply every update  *)
(* of every response while the interpreter is not finished), followed by   *)
(* one more get_response() that must report the end of the stream (this is *)
(* where ClientSequence::done() runs).  Between the two an in-path         *)
(* adversary owns the response stream.                                     *)
(*                                                                         *)
(* Built ON the component specifications, nothing is copied:               *)
(*   X == INSTANCE Xfr   sender sequences and packagings, interpreter,     *)
(*                       updater, published views (C10)                    *)
(*   T == INSTANCE Tsig  ClientSequence / ServerSequence / ServerError     *)
(*                       transcriptions over the symbolic MAC table (C11)  *)
(*   S == INSTANCE Serial  RFC 1982 order of the SOA serials (C17), here   *)
(*                       with 4 bits: version i has serial (base + i) mod  *)
(*                       16, so a history can straddle the wrap            *)
(*                                                                         *)
(* PROPERTIES (quantified over every history of the primary, every request *)
(* of the secondary, every packaging the sender may choose, every key      *)
(* configuration and every schedule of at most MaxFaults adversary         *)
(* actions):                                                               *)
(*                                                                         *)
(* P1 Replication.  If nobody interferes, a transfer (AXFR; IXFR from any  *)
(*    earlier version, serials compared per RFC 1982; AXFR-style answer to *)
(*    IXFR) ends with status "applied" and the secondary's committed zone  *)
(*    equal to the primary's current version; at every moment a reader of  *)
(*    the secondary sees the old version or a version of the primary's     *)
(*    history later than the old one, in order - never a partial transfer. *)
(* P2 Authenticated.  With a TSIG key configured, whatever the adversary   *)
(*    does to the response stream (drop / duplicate / reorder a message,   *)
(*    remove records, alter a record, alter a MAC, strip a TSIG, replace   *)
(*    it by one of another key, splice in messages of an earlier           *)
(*    transfer, replay a whole earlier transfer (other request MAC),       *)
(*    insert forged unsigned messages, exceed the unsigned-run bound, end  *)
(*    the stream early):                                                   *)
(*     a. every version a reader of the secondary can see is the old one   *)
(*        or one the primary really had (PublishedLegit);                  *)
(*     b. the messages whose content reaches the interpreter form a prefix *)
(*        of what the primary sent in THIS transfer (AcceptedIsPrefix);    *)
(*     c. status "applied" implies the whole stream was authentic and the  *)
(*        zone equals the primary's current version (AppliedIsCurrent);    *)
(*     d. a secondary with a wrong secret / an unknown key / no key gets   *)
(*        no record at all: NOTAUTH with TSIG error BADSIG / BADKEY (RFC   *)
(*        8945 5.2) resp. REFUSED from the transfer policy, and its zone   *)
(*        is untouched (KeyMismatchNothing).                               *)
(* P3 Progress.  Under weak fairness of the two parties and the transport  *)
(*    every transfer reaches a final status; an undisturbed one reaches    *)
(*    "applied" (P1).                                                      *)
(*                                                                         *)
(* NAMED DEVIATION (what the code does today):                             *)
(*  D_tsig_unsigned_released  net::client::tsig hands a response that      *)
(*    carries no TSIG to its caller as soon as ClientSequence::answer has  *)
(*    counted it (RFC 8945 5.3.1 lets up to 99 such messages pass          *)
(*    *provisionally*: they are authenticated only by the next signed      *)
(*    message, and the last message must be signed).  The caller cannot    *)
(*    tell such a message from a verified one (the TSIG is stripped from   *)
(*    those) and the documented loop applies its records at once; a        *)
(*    forged unsigned message holding the closing SOA is committed by      *)
(*    ZoneUpdater before done() reports TooManyUnsigned.  Ideal: the       *)
(*    wrapper withholds unsigned messages until a signed one verifies.     *)
(***************************************************************************)
EXTENDS Octets, FiniteSets, TLC

CONSTANTS Dev,      \* deviations of the composition (DevNames)
          XDev      \* deviations of Xfr.tla the receiver is built with (C10's business)

DevNames == {"D_tsig_unsigned_released"}

X == INSTANCE Xfr WITH Dev <- XDev
T == INSTANCE Tsig WITH Dev <- {}
S == INSTANCE Serial WITH BITS <- 4

--------------------------------------------------------------------------
(* Vocabulary *)

AXFR == 252
IXFR == 251
NOTAUTH == 9
REFUSED == 5
ReqId == 4660                  \* 0x1234 (harness xfr::REQ_ID)
OldId == 4661                  \* the request id of the earlier transfer
Fudge == 300
Now == T!SymTime               \* the wrappers read the clock themselves

KeyName  == <<4, 116, 115, 105, 103, 3, 107, 101, 121, 0>>          \* "tsig.key."
OtherKey == <<5, 111, 116, 104, 101, 114, 3, 107, 101, 121, 0>>     \* "other.key."
SKey == [name |-> KeyName, alg |-> "sha256", sec |-> 1, slen |-> 32, minlen |-> 16]
KeyCfgs == {"good", "wrongsecret", "unknown", "none"}
CKey(kc) == CASE kc = "wrongsecret" -> [SKey EXCEPT !.sec = 2]
              [] kc = "unknown" -> [SKey EXCEPT !.name = OtherKey]
              [] OTHER -> SKey

Last(s) == s[Len(s)]
IsPrefix(p, s) == Len(p) <= Len(s) /\ SubSeq(s, 1, Len(p)) = p
RECURSIVE Copies(_, _)
Copies(x, n) == IF n <= 0 THEN <<>> ELSE <<x>> \o Copies(x, n - 1)

\* version i of a history whose serials start at `base` (4-bit serial space)
SerialAt(base, i) == S!Add(base, i)

--------------------------------------------------------------------------
(* Xfr.tla message <-> Tsig.tla message.  The TSIG layer sees a message as *)
(* header | body | trailing records; header counts and body are pseudo-    *)
(* octets, injective in the Xfr message, so that the symbolic HMAC         *)
(* distinguishes exactly the messages that differ.                         *)

IdOf(x) == IF x.id = 1 THEN ReqId ELSE OldId
HdrOf(x) == EncU16(IdOf(x)) \o <<128 * x.qr + 8 * x.op + 4 + 2 * x.tc, x.rc>>
            \o <<30000 + 100 * x.qdc + 10 * x.anc + x.nsc>> \o <<0, 0>>
BodyOf(x) == [i \in 1..Len(x.qd) |-> 21000 + 1000 * x.qd[i][1] + x.qd[i][2]]
             \o [i \in 1..Len(x.an) |-> 20000 + x.an[i]]
\* an element of a response stream: the Xfr message, its trailing records
\* (normally one TSIG), and how often it is delivered in a row
El(x, ts) == [x |-> x, ts |-> ts, rep |-> 1]
W(e) == [hdr |-> T!SetAr(HdrOf(e.x), Len(e.ts)), body |-> BodyOf(e.x), recs |-> e.ts]
Bare(x) == [hdr |-> HdrOf(x), body |-> BodyOf(x), recs |-> <<>>]

\* the transfer request: question (qtype), for IXFR the SOA of the version held
ReqMsg(id, qtype, from) ==
  [hdr |-> EncU16(id) \o <<0, 0>> \o <<31000 + (IF qtype = IXFR THEN 1 ELSE 0)>> \o <<0, 0>>,
   body |-> <<22000 + qtype>> \o (IF qtype = IXFR THEN <<23000 + from>> ELSE <<>>),
   recs |-> <<>>]

ErrMsg(qtype, rc) == [id |-> 1, qr |-> 1, op |-> 0, rc |-> rc, tc |-> 0,
                      qd |-> << <<0, qtype>> >>, qdc |-> 1, an |-> <<>>, anc |-> 0, nsc |-> 0]

--------------------------------------------------------------------------
(* Primary *)

\* what XfrMiddlewareSvc answers: the record sequence (RFC 5936 2.2, RFC
\* 1995 2 and 4).  sc = [hist, base, kind, from, diffs, ...]
AnswerSeq(sc) ==
  LET n == Len(sc.hist)
      cur == sc.hist[n]
  IN IF sc.kind = AXFR THEN X!AxfrSeq(cur.s, cur.c)
     \* RFC 1995 2: a client that is not behind gets the lone current SOA
     ELSE IF S!Cmp(SerialAt(sc.base, sc.hist[sc.from].s), SerialAt(sc.base, cur.s)) \in {"EQ", "GT"}
          THEN X!UpToDateSeq(cur.s)
     ELSE IF sc.diffs THEN X!IxfrSeq(SubSeq(sc.hist, sc.from, n))
     ELSE X!AxfrSeq(cur.s, cur.c)            \* RFC 1995 4: incremental transfer not available

\* TsigMiddlewareSvc::postprocess over the stream: ServerSequence::answer
\* on every message.  Result: [els, tbl]
RECURSIVE SignAll(_, _, _, _, _)
SignAll(ctx, first, xs, tbl, acc) ==
  IF xs = <<>> THEN [els |-> acc, tbl |-> tbl]
  ELSE LET r == T!ServerSeqAnswerStep(SKey, ctx, first, Bare(Head(xs)), Now, Fudge, tbl,
                                      T!PseudoFull(Len(tbl) + 1, SKey.alg))
       IN SignAll(r.ctx, FALSE, Tail(xs), r.tbl, Append(acc, El(Head(xs), r.msg.recs)))

\* One request handled by the primary stack.  xs: the messages the transfer
\* middleware produces for an authorised request.
\* Result: [res (TSIG verdict on the request), rc, terr, els, tbl]
Serve(req, qtype, xs, tbl) ==
  LET v == T!ServerRequestStep(SKey, req, Now, tbl)
  IN IF v.res = "Ok"
     THEN LET s == SignAll(v.ctx, TRUE, xs, tbl, <<>>)
          IN [res |-> "Ok", rc |-> 0, terr |-> 0, els |-> s.els, tbl |-> s.tbl]
     ELSE IF v.res = "Unsigned"
     \* no key: the request passes the TSIG middleware, the transfer policy refuses
     THEN [res |-> "Unsigned", rc |-> REFUSED, terr |-> 0,
           els |-> <<El(ErrMsg(qtype, REFUSED), <<>>)>>, tbl |-> tbl]
     ELSE LET code == CASE v.res = "BADKEY" -> T!BADKEY [] v.res = "BADSIG" -> T!BADSIG
                        [] v.res = "BADTRUNC" -> T!BADTRUNC [] v.res = "BADTIME" -> T!BADTIME
                        [] OTHER -> T!FORMERR
              e == T!ServerErrUnsignedStep(req, Bare(ErrMsg(qtype, NOTAUTH)), code, Now, Fudge)
          IN [res |-> v.res, rc |-> NOTAUTH, terr |-> code,
              els |-> <<El(ErrMsg(qtype, NOTAUTH), e.msg.recs)>>, tbl |-> tbl]

--------------------------------------------------------------------------
(* Adversary: named actions on the stream in flight *)

FaultNames == {"drop", "dup", "swap", "truncrec", "fliprec", "flipmac", "strip", "rekey",
               "splice", "replay", "forge", "burst", "cut"}

ToggleRec(r) == IF X!IsSoa(r) THEN X!SoaVariant(r) ELSE IF r % 2 = 1 THEN r + 1 ELSE r - 1
DropAt(w, i) == SubSeq(w, 1, i - 1) \o SubSeq(w, i + 1, Len(w))
DupAt(w, i) == SubSeq(w, 1, i) \o SubSeq(w, i, Len(w))
SwapAt(w, i) == [j \in 1..Len(w) |-> IF j = i THEN w[i + 1] ELSE IF j = i + 1 THEN w[i] ELSE w[j]]
\* the last answer record of message i removed, ANCOUNT adjusted, TSIG kept
TruncRecAt(w, i) == [w EXCEPT ![i].x = [@ EXCEPT !.an = SubSeq(@, 1, Len(@) - 1), !.anc = @ - 1]]
\* record j of message i becomes another record of the same RRset (one RDATA octet)
FlipRecAt(w, i, j) == [w EXCEPT ![i].x.an[j] = ToggleRec(@)]
\* first MAC octet altered
FlipMacAt(w, i) == [w EXCEPT ![i].ts[Len(w[i].ts)].mac[1] = IF @ = 9999 THEN 9998 ELSE 9999]
StripAt(w, i) == [w EXCEPT ![i].ts = SubSeq(@, 1, Len(@) - 1)]
RekeyAt(w, i) == [w EXCEPT ![i].ts[Len(w[i].ts)].name = OtherKey]
SpliceAt(w, i, e) == [w EXCEPT ![i] = e]
\* a forged, unsigned message that closes the transfer: a record the
\* primary's current version does not hold, then the closing SOA
ForgedMsg(qtype, r, soa) == X!Msg(<<>>, <<r, soa>>)
ForgeAt(w, i, x) == SubSeq(w, 1, i - 1) \o <<El(x, <<>>)>> \o SubSeq(w, i + 1, Len(w))
\* n unsigned copies of message x inserted behind position i
BurstAt(w, i, x, n) == SubSeq(w, 1, i) \o <<[x |-> x, ts |-> <<>>, rep |-> n]>> \o SubSeq(w, i + 1, Len(w))
CutAt(w, k) == SubSeq(w, 1, k)

--------------------------------------------------------------------------
(* Secondary *)

SecInit(z) == [rcv |-> X!RcvInit(z),
               cs |-> [ctx |-> <<>>, first |-> TRUE, unsigned |-> 0],
               held |-> <<>>,     \* unsigned messages withheld by the TSIG wrapper (ideal)
               acc |-> <<>>,      \* messages whose content reached the interpreter
               st |-> "idle", why |-> ""]

Pub(sec) == X!View(sec.rcv.zn.com)
IsFinal(st) == st \in {"applied", "failed"}

\* the documented loop on the messages the transport hands over: interpret,
\* apply every update; an interpreter / updater error ends the transfer (the
\* updater is dropped: anything uncommitted is rolled back).  A message
\* arriving after the interpreter has finished is a protocol error.
RECURSIVE HandAll(_, _, _)
HandAll(sec, req, xs) ==
  IF xs = <<>> \/ IsFinal(sec.st) THEN sec
  ELSE IF sec.rcv.ip.fin
  THEN [sec EXCEPT !.st = "failed", !.why = "trailing"]
  ELSE LET d == X!Deliver(sec.rcv, req, Head(xs))
           s1 == [sec EXCEPT !.rcv = d.rcv, !.acc = Append(@, Head(xs))]
       IN IF d.rcv.stop THEN [s1 EXCEPT !.st = "failed", !.why = "xfr"]
          ELSE HandAll(s1, req, Tail(xs))

\* One get_response() that yields element e (e.rep identical copies in a row).
\* Result: [sec, tsig (verdict of the TSIG layer)]
Receive(sec, kc, req, e, tbl) ==
  IF kc = "none"
  THEN [sec |-> HandAll(sec, req, Copies(e.x, e.rep)), tsig |-> "None", withheld |-> FALSE]
  ELSE
    LET r == T!ClientSeqRepeat(CKey(kc), sec.cs, W(e), Now, tbl, e.rep)
        okCopies == e.rep - r.left - (IF r.res = "Ok" THEN 0 ELSE 1)
        unsignedMsg == T!FromMessage(W(e)) = "Missing"
        s1 == [sec EXCEPT !.cs = r.cs]
        \* which messages leave the TSIG wrapper now
        out == IF "D_tsig_unsigned_released" \in Dev THEN Copies(e.x, okCopies)
               ELSE IF unsignedMsg THEN <<>>
               ELSE IF r.res = "Ok" THEN sec.held \o <<e.x>> ELSE <<>>
        held == IF "D_tsig_unsigned_released" \in Dev THEN <<>>
                ELSE IF unsignedMsg THEN sec.held \o Copies(e.x, okCopies)
                ELSE <<>>
        s2 == HandAll([s1 EXCEPT !.held = held], req, out)
    IN [sec |-> IF r.res = "Ok" \/ IsFinal(s2.st) THEN s2
                ELSE [s2 EXCEPT !.st = "failed", !.why = "auth"],
        tsig |-> r.res,
        \* nothing left the wrapper: this get_response() goes on waiting
        withheld |-> "D_tsig_unsigned_released" \notin Dev /\ unsignedMsg /\ r.res = "Ok"]

\* get_response() reports the end of the stream ("end": Ok(None), where
\* ClientSequence::done runs) or a transport error ("abort")
EndOfStream(sec, kc, mode) ==
  IF mode = "abort" THEN [sec |-> [sec EXCEPT !.st = "failed", !.why = "transport"], tsig |-> "None"]
  ELSE LET d == IF kc = "none" THEN "Ok" ELSE T!ClientDoneRes(sec.cs)
       IN [sec |-> IF d # "Ok" THEN [sec EXCEPT !.st = "failed", !.why = "auth"]
                   ELSE IF sec.rcv.ip.fin /\ ~sec.rcv.stop THEN [sec EXCEPT !.st = "applied"]
                   ELSE [sec EXCEPT !.st = "failed", !.why = "early"],
           tsig |-> IF kc = "none" THEN "None" ELSE d]

--------------------------------------------------------------------------
(* Whole runs (trace validation; the model checker steps the same          *)
(* operators one action at a time)                                         *)

StepOf(op, tsig, s) ==
  [op |-> op, tsig |-> tsig, st |-> s.st, why |-> s.why, fin |-> s.rcv.ip.fin,
   nacc |-> Len(s.acc), pub |-> Pub(s)]

\* one adversary action f = [k, i, j] on the stream; fx: the forged message
ApplyFault(w, f, old, fx) ==
  CASE f.k = "drop" -> DropAt(w, f.i)
    [] f.k = "dup" -> DupAt(w, f.i)
    [] f.k = "swap" -> SwapAt(w, f.i)
    [] f.k = "truncrec" -> TruncRecAt(w, f.i)
    [] f.k = "fliprec" -> FlipRecAt(w, f.i, f.j)
    [] f.k = "flipmac" -> FlipMacAt(w, f.i)
    [] f.k = "strip" -> StripAt(w, f.i)
    [] f.k = "rekey" -> RekeyAt(w, f.i)
    [] f.k = "splice" -> SpliceAt(w, f.i, old[f.j])
    [] f.k = "replay" -> old
    [] f.k = "forge" -> ForgeAt(w, f.i, fx)
    [] f.k = "burst" -> BurstAt(w, f.i, fx, f.j)
    [] f.k = "cut" -> CutAt(w, f.i)
    [] OTHER -> w
RECURSIVE ApplyFaults(_, _, _, _)
ApplyFaults(w, fs, old, fx) ==
  IF fs = <<>> THEN w ELSE ApplyFaults(ApplyFault(w, Head(fs), old, fx), Tail(fs), old, fx)

\* One get_response() of the secondary's loop: it returns with a message
\* that left the TSIG wrapper, with the end of the stream, or with an error;
\* withheld unsigned messages are consumed on the way.  [sec, tsig, wire]
RECURSIVE Call(_, _, _, _, _, _)
Call(sec, kc, req, wire, eos, tbl) ==
  IF wire = <<>>
  THEN LET r == EndOfStream(sec, kc, eos) IN [sec |-> r.sec, tsig |-> r.tsig, wire |-> <<>>]
  ELSE LET r == Receive(sec, kc, req, Head(wire), tbl)
       IN IF r.withheld /\ ~IsFinal(r.sec.st) THEN Call(r.sec, kc, req, Tail(wire), eos, tbl)
          ELSE [sec |-> r.sec, tsig |-> r.tsig, wire |-> Tail(wire)]

\* the secondary's loop to its end: [sec, steps]
RECURSIVE RunSec(_, _, _, _, _, _, _)
RunSec(sec, kc, req, wire, eos, tbl, steps) ==
  IF IsFinal(sec.st) THEN [sec |-> sec, steps |-> steps]
  ELSE LET r == Call(sec, kc, req, wire, eos, tbl)
           op == IF wire = <<>> THEN "eos" ELSE "deliver"
       IN IF wire = <<>> THEN [sec |-> r.sec, steps |-> Append(steps, StepOf(op, r.tsig, r.sec))]
          ELSE RunSec(r.sec, kc, req, r.wire, eos, tbl, Append(steps, StepOf(op, r.tsig, r.sec)))

\* request, primary, adversary, secondary: the whole transfer
Transfer(kc, qtype, from, xs, z0, faults, eos, fx, flipreq) ==
  LET m == ReqMsg(ReqId, qtype, from)
      rq == IF kc = "none" THEN [msg |-> m, tbl |-> <<>>, ctx |-> <<>>]
            ELSE LET r == T!ClientRequestStep(CKey(kc), m, Now, Fudge, <<>>, T!PseudoFull(1, SKey.alg))
                 IN [msg |-> r.msg, tbl |-> r.tbl, ctx |-> r.ctx]
      onwire == IF flipreq THEN [rq.msg EXCEPT !.body[1] = @ + 1] ELSE rq.msg
      sv == Serve(onwire, qtype, xs, rq.tbl)
      s0 == [SecInit(z0) EXCEPT !.st = "wait", !.cs = [ctx |-> rq.ctx, first |-> TRUE, unsigned |-> 0]]
      run == RunSec(s0, kc, qtype, ApplyFaults(sv.els, faults, <<>>, fx), eos, sv.tbl, <<>>)
  IN [serve |-> [res |-> sv.res, rc |-> sv.rc, terr |-> sv.terr, n |-> Len(sv.els)],
      sent |-> sv.els, steps |-> run.steps, sec |-> run.sec]

=============================================================================
