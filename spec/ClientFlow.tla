----------------------------- MODULE ClientFlow -----------------------------
(* Delivery of multi-response (zone transfer) requests on the stream        *)
(* transport, whatever the relative speed of the peer and the consumer.     *)
(*                                                                          *)
(* ClientStream's `done[r]` is what Transport::run has put into the reply   *)
(* channel of request r.  For a RequestMulti that channel is a bounded mpsc *)
(* (DEF_CHAN_CAP = 8): this module adds the consumer as an actor of its own *)
(*   ngot[r]   how many items of done[r] get_response() has handed out      *)
(*   want[r]   calls of get_response() made and not yet returned            *)
(*   cdrop[r]  the caller has dropped the RequestMulti (receiver closed)    *)
(*   nx[r]     how many messages of its transfer the peer has sent          *)
(*   psent[r]  ghost: serial numbers of those messages, in sending order    *)
(* The queue between transport and request is the part of done[r] not yet   *)
(* taken: QLen = Len(done[r]) - ngot[r] <= DCap.  demux_reply awaits        *)
(* `sender.send()`: with the queue full the whole run loop (reader future,  *)
(* timers, other requests) stands still until the consumer takes an item or *)
(* drops the request (Blocked).  The state record is ClientStream's with    *)
(* the five fields added, so its arms (Step, DemuxArm, RecvArm, ...) apply  *)
(* unchanged.                                                               *)
(*                                                                          *)
(* RequestMulti::get_response submits the request on its first call, so a   *)
(* submit of a transfer is "first get_response() begun" (want = 1).         *)
(* The consumer stops calling after the end mark or a final error.          *)
(*                                                                          *)
(* The peer's transfer for request r is a fixed script of XLen messages     *)
(* that can be told apart: SOA + TXT; then i TXT records (i = 2..XLen-1); last    *)
(* XLen-1 TXT records and the closing SOA.                                  *)
EXTENDS ClientStream

CONSTANTS DCap,      \* capacity of the reply channel of a RequestMulti (8)
          XLen,      \* messages per transfer
          FlowQs,    \* questions callers may ask (single and transfer)
          Bursts,    \* how many messages the peer may send in one go
          Wants,     \* how many get_response() calls a consume op adds
          FlowMaxOps,
          FlowDev    \* {} or {"D_flow_drop_when_full"}: send -> try_send (sanity model)

VARIABLES fs,        \* the flow state record
          fhist      \* S->I: the path so far (<<[op, proj]>>)

fvars == <<vars, fs, fhist>>

Zeros(n) == [i \in 1..n |-> 0]
XFrame(id, q, i) == IF i = 1 THEN XfrMsg(id, q, 0, <<1, 0>>)
                    ELSE IF i = XLen THEN XfrMsg(id, q, 0, Zeros(XLen - 1) \o <<1>>)
                    ELSE XfrMsg(id, q, 0, Zeros(i))

FlowInitState(sc) ==
  InitState(sc) @@ [ngot |-> [r \in Reqs |-> 0], want |-> [r \in Reqs |-> 0],
                    cdrop |-> [r \in Reqs |-> FALSE], nx |-> [r \in Reqs |-> 0],
                    psent |-> [r \in Reqs |-> <<>>]]

IsMulti(s, r) == s.asked[r] # 0 /\ QKind(s.asked[r]) # "single"
QLen(s, r) == Len(s.done[r]) - s.ngot[r]

\* the request the next reply in the reader -> run channel goes to (0: none)
HeadTarget(s) == LET f == Head(s.rq).f
                 IN IF Occupied(s, f.id) THEN s.vec[f.id + 1].r ELSE 0

\* demux_reply is waiting for room in the reply channel of a transfer
Blocked(s) ==
  /\ Pick(s) = "demux"
  /\ LET r == HeadTarget(s)
     IN /\ r # 0 /\ IsMulti(s, r) /\ ~s.cdrop[r]
        /\ "D_flow_drop_when_full" \notin FlowDev
        /\ QLen(s, r) + (Len(DemuxArm(s).done[r]) - Len(s.done[r])) > DCap

\* sanity model of try_send: the items that do not fit are lost
DemuxDropping(s) ==
  LET r == HeadTarget(s)
      t == DemuxArm(s)
  IN IF r # 0 /\ IsMulti(s, r) /\ ~s.cdrop[r]
     THEN [t EXCEPT !.done[r] = SubSeq(@, 1, Min2(Len(@), s.ngot[r] + DCap))]
     ELSE t

FlowPick(s) == IF Blocked(s) THEN "none" ELSE Pick(s)
FlowStep(s) == IF Pick(s) = "demux" /\ "D_flow_drop_when_full" \in FlowDev THEN DemuxDropping(s)
               ELSE Step(s)

\* get_response() returns the next item
CanConsume(s, r) == s.want[r] > 0 /\ ~s.cdrop[r] /\ s.ngot[r] < Len(s.done[r])
ConsumeOne(s, r) == LET it == s.done[r][s.ngot[r] + 1]
                    IN [s EXCEPT !.ngot[r] = @ + 1, !.want[r] = IF it.fin THEN 0 ELSE @ - 1]

\* the consumer has been handed the end of the stream (or a final error)
Ended(s, r) == s.ngot[r] > 0 /\ s.done[r][s.ngot[r]].fin

RECURSIVE FlowQuiesce(_)
FlowQuiesce(s) ==
  IF FlowPick(s) # "none" THEN FlowQuiesce(FlowStep(s))
  ELSE LET C == {r \in Reqs : IsMulti(s, r) /\ CanConsume(s, r)}
       IN IF C = {} THEN s ELSE FlowQuiesce(ConsumeOne(s, SetMin(C)))

--------------------------------------------------------------------------
(* environment steps *)

FSubmitOp(s, r, q) ==
  LET s1 == SubmitOp(s, r, q)
  IN IF QKind(q) # "single" THEN [s1 EXCEPT !.want[r] = 1] ELSE s1

\* the peer sends the next message of the transfer for request r
FPeerNextOp(s, r) ==
  LET i  == s.nx[r] + 1
      s1 == PeerSendOp(s, XFrame(s.sent[r], s.asked[r], i))
  IN [s1 EXCEPT !.nx[r] = i, !.psent[r] = Append(@, s1.nframes)]

RECURSIVE FBurstOp(_, _, _)
FBurstOp(s, r, n) == IF n = 0 \/ s.nx[r] >= XLen THEN s ELSE FBurstOp(FPeerNextOp(s, r), r, n - 1)

\* the peer answers the single-response request r
FAnswerOp(s, r) == PeerSendOp(s, Msg(s.sent[r], TRUE, s.asked[r], 0, TRUE, FALSE, -1))

FWantOp(s, r, k) == [s EXCEPT !.want[r] = @ + k]
FDropReqOp(s, r) == [s EXCEPT !.cdrop[r] = TRUE, !.want[r] = 0]

FOp(op, r, q, n) == [op |-> op, r |-> r, q |-> q, n |-> n]

Written(s, r) == s.asked[r] # 0 /\ s.sent[r] >= 0
Consuming(s, r) == IsMulti(s, r) /\ ~s.cdrop[r] /\ ~Ended(s, r)

FlowOpsOf(s) ==
       (IF s.nsub < MaxReq THEN {FOp("submit", s.nsub + 1, q, 0) : q \in FlowQs} ELSE {})
  \cup {FOp("xfr", r, 0, n) : r \in {x \in Reqs : IsMulti(s, x) /\ Written(s, x) /\ s.nx[x] < XLen},
                              n \in Bursts}
  \cup {FOp("answer", r, 0, 0) : r \in {x \in Reqs : s.asked[x] # 0 /\ ~IsMulti(s, x) /\ Written(s, x)
                                                      /\ s.done[x] = <<>> /\ s.nx[x] = 0}}
  \cup {FOp("consume", r, 0, k) : r \in {x \in Reqs : Consuming(s, x) /\ s.want[x] = 0}, k \in Wants}
  \cup {FOp("dropreq", r, 0, 0) : r \in {x \in Reqs : Consuming(s, x)}}

FEnvOp(s, o) ==
  CASE o.op = "submit"  -> FSubmitOp(s, o.r, o.q)
    [] o.op = "xfr"     -> FBurstOp(s, o.r, o.n)
    [] o.op = "answer"  -> [FAnswerOp(s, o.r) EXCEPT !.nx[o.r] = 1]
    [] o.op = "consume" -> FWantOp(s, o.r, o.n)
    [] o.op = "dropreq" -> FDropReqOp(s, o.r)

FlowApply(s, o) == FlowQuiesce(FEnvOp(s, o))

--------------------------------------------------------------------------
(* The property: delivery is exactly-once, complete and in order.          *)

RECURSIVE SerialsOf(_)
SerialsOf(sq) == IF sq = <<>> THEN <<>>
                 ELSE (IF Head(sq).why = "response" THEN <<Head(sq).n>> ELSE <<>>) \o SerialsOf(Tail(sq))
IsPrefix(a, b) == Len(a) <= Len(b) /\ SubSeq(b, 1, Len(a)) = a
Got(s, r) == SubSeq(s.done[r], 1, s.ngot[r])

\* what the consumer has received is a prefix of what the peer sent for the
\* request, message by message (nothing lost, doubled or out of order), and
\* every message was accepted as part of the transfer
FlowPrefixOf(s) == \A r \in Reqs : IsMulti(s, r) =>
  /\ IsPrefix(SerialsOf(Got(s, r)), s.psent[r])
  /\ IsPrefix(SerialsOf(s.done[r]), s.psent[r])
  /\ \A k \in 1..Len(s.done[r]) : s.done[r][k].ok
\* at the end of the stream the two are equal: the whole transfer
FlowCompleteOf(s) == \A r \in Reqs : (IsMulti(s, r) /\ Ended(s, r)) =>
  /\ SerialsOf(Got(s, r)) = s.psent[r]
  /\ Len(s.psent[r]) = XLen
  /\ s.done[r][s.ngot[r]] = EofOut
\* back-pressure: the queue never holds more than its capacity, and whatever
\* the transport took off the wire for a live request is in done
FlowBoundedOf(s) == \A r \in Reqs : (IsMulti(s, r) /\ ~s.cdrop[r]) => QLen(s, r) <= DCap
\* nothing is stuck inside the pipeline: when the transport has nothing to do
\* and is not waiting for a consumer, everything the peer sent has been put
\* into the reply channel of its request (also for a dropped request: the
\* transport stays usable), and an answered single request is completed
FlowSettledOf(s) == (Pick(s) = "none" /\ Up(s)) =>
  /\ s.wire = <<>> /\ s.rq = <<>>
  /\ \A r \in Reqs : s.asked[r] # 0 =>
        IF IsMulti(s, r) THEN Len(SerialsOf(s.done[r])) = s.nx[r]
        ELSE (s.nx[r] = 1 => Finished(s.done[r]))

FlowPrefix   == FlowPrefixOf(fs)
FlowComplete == FlowCompleteOf(fs)
FlowBounded  == FlowBoundedOf(fs)
FlowSettled  == FlowSettledOf(fs)
FlowStream   == /\ OwnAnswerOf(fs) /\ AtMostOnceOf(fs) /\ NoCrossOf(fs) /\ SlotTableSoundOf(fs)
                /\ NothingLostOf(fs)

--------------------------------------------------------------------------
(* Fine-grained: the peer, the transport task and the consumer are          *)
(* scheduled independently.                                                 *)
FInit == InitPred /\ fs = FlowInitState(sconf.sc) /\ fhist = <<>>

Same == UNCHANGED <<vars, fhist>>
FSubmit(r, q)  == Same /\ r = fs.nsub + 1 /\ r \in Reqs /\ fs' = FSubmitOp(fs, r, q)
PeerSends(r)   == Same /\ IsMulti(fs, r) /\ Written(fs, r) /\ fs.nx[r] < XLen /\ fs' = FPeerNextOp(fs, r)
PeerAnswers(r) == Same /\ FOp("answer", r, 0, 0) \in FlowOpsOf(fs) /\ fs' = FEnvOp(fs, FOp("answer", r, 0, 0))
Transport      == Same /\ FlowPick(fs) # "none" /\ FlowPick(fs) # "demux" /\ fs' = FlowStep(fs)
DemuxDeliver   == Same /\ FlowPick(fs) = "demux" /\ fs' = FlowStep(fs)
GetResponse(r) == Same /\ Consuming(fs, r) /\ fs.want[r] = 0 /\ fs' = FWantOp(fs, r, 1)
Consume(r)     == Same /\ IsMulti(fs, r) /\ CanConsume(fs, r) /\ fs' = ConsumeOne(fs, r)
DropRequest(r) == Same /\ Consuming(fs, r) /\ fs' = FDropReqOp(fs, r)

FNext == \/ \E r \in Reqs : \/ \E q \in FlowQs : FSubmit(r, q)
                            \/ PeerSends(r) \/ PeerAnswers(r) \/ GetResponse(r) \/ Consume(r)
                            \/ DropRequest(r)
         \/ Transport \/ DemuxDeliver
FSpec == FInit /\ [][FNext]_fvars


--------------------------------------------------------------------------
(* S->I: macro steps (environment step, then everything runs until nothing  *)
(* is runnable), one case per transition.                                   *)
FOutJson(o) == IF o.why = "endmark" THEN [eof |-> TRUE]
               ELSE IF o.ok THEN [ok |-> o.f] ELSE [err |-> TRUE]
RECURSIVE FMapOut(_)
FMapOut(sq) == IF sq = <<>> THEN <<>> ELSE <<FOutJson(Head(sq))>> \o FMapOut(Tail(sq))

\* got: what every caller has been handed so far
FlowProj(s) == [out |-> s.out,
                got |-> [r \in Reqs |-> FMapOut(IF IsMulti(s, r) THEN Got(s, r) ELSE s.done[r])],
                closed |-> s.closed]

\* (in the state the op is applied to: an xfr op carries the messages the peer sends)
FOpJson(s, o) ==
  CASE o.op = "submit" -> [op |-> "submit", r |-> o.r, q |-> o.q]
    [] o.op = "xfr" -> [op |-> "xfr", r |-> o.r,
                        fs |-> [i \in 1..Min2(o.n, XLen - s.nx[o.r]) |->
                                  XFrame(s.sent[o.r], s.asked[o.r], s.nx[o.r] + i)]]
    [] o.op = "answer" -> [op |-> "answer", r |-> o.r,
                           f |-> Msg(s.sent[o.r], TRUE, s.asked[o.r], 0, TRUE, FALSE, -1)]
    [] o.op = "consume" -> [op |-> "consume", r |-> o.r, n |-> o.n]
    [] OTHER -> [op |-> o.op, r |-> o.r]

MacroFNext ==
  /\ UNCHANGED vars
  /\ Len(fhist) < FlowMaxOps
  /\ \E o \in FlowOpsOf(fs) :
       LET t == FlowApply(fs, o)
       IN fs' = t /\ fhist' = Append(fhist, [op |-> FOpJson(fs, o), proj |-> FlowProj(t)])
MacroFSpec == FInit /\ [][MacroFNext]_fvars

FlowCaseOf(h) ==
  [in |-> [kind |-> "flow", cfg |-> [conf |-> sconf.sc, nreq |-> MaxReq, tickms |-> TickMs, xlen |-> XLen],
           ops |-> [i \in 1..Len(h) |-> h[i].op]],
   exp |-> [i \in 1..Len(h) |-> h[i].proj]]

FlowView == fs
=============================================================================
