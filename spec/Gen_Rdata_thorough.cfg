CONSTANTS
  Dev = {}
  MaxVary = 3
  Big = 400
SPECIFICATION Spec
INVARIANT EmitPlain
INVARIANT EmitPtr
INVARIANT EmitMutants
CHECK_DEADLOCK FALSE
