CONSTANTS
  Fam = "order"
  MaxRecs = 3
  Prios = {0}
  Weights = {0, 1, 2}
  Dev = {"D_srv_weight_rescan"}
SPECIFICATION Spec
INVARIANT I_NoPanic
CHECK_DEADLOCK FALSE
