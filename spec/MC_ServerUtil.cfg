CONSTANTS
  Dev = {}
SPECIFICATION USpec
INVARIANTS Laws Emit
CHECK_DEADLOCK FALSE
