CONSTANTS
  Dev = {"D_srv_weight_rescan", "D_host_canonical_loop_panic"}
SPECIFICATION TSpec
POSTCONDITION Accepted
CHECK_DEADLOCK FALSE
