------------------------------- MODULE Denial -------------------------------
(* C13 - NSEC (RFC 4034 4, RFC 4035 2.3) and NSEC3 (RFC 5155 7.1) chains   *)
(* generated for a zone.                                                   *)
(*                                                                         *)
(*  Part 1  declarative: which names are authoritative, which types they   *)
(*          show, the chain as the cyclic successor over the canonical /   *)
(*          hash order.                                                    *)
(*  Part 2  the single-pass generators of src/dnssec/sign/denial/nsec.rs   *)
(*          and nsec3.rs transcribed (cut / prev / ENT stack state).       *)
(*  Part 3  what a chain must prove (Closed, Covers).                      *)
(*  Part 4  the RtypeBitmapBuilder (34-octet blocks, compaction) against   *)
(*          the RFC 4034 4.1.2 encoding of a set of types.                 *)
(*  Part 5  the Flags octet of the NSEC3 parameters (Opt-Out is the least  *)
(*          significant BIT), the accessors, and the configuration machine *)
(*          (new(params) + setters) that decides about the exclusion.      *)
(*                                                                         *)
(* A zone is a set of records [n |-> owner (absolute, case as written),    *)
(* t |-> type]; record data does not matter here.  The NSEC3 hash is an    *)
(* uninterpreted injective function: only its *order* matters to the chain *)
(* (parameter rank), the hash value itself is the term Nsec3Term.          *)
EXTENDS Names, FiniteSets, TLC

CONSTANT Dev

\* strict left fold (Java override); recursion over lazily evaluated
\* accumulators is avoided throughout this module
SX == INSTANCE SequencesExt
FoldL(op(_, _), base, seq) == SX!FoldLeft(op, base, seq)

T_A == 1  T_NS == 2  T_SOA == 6  T_TXT == 16  T_DS == 43  T_RRSIG == 46
T_NSEC == 47  T_DNSKEY == 48  T_NSEC3PARAM == 51  T_CAA == 257

Low(n) == LowerName(n)

--------------------------------------------------------------------------
(* Part 1: declarative *)

OwnerNames(zone) == {Low(r.n) : r \in zone}
TypesOf(zone, n) == {r.t : r \in {x \in zone : Low(x.n) = n}}         \* n lower-case
IsCut(zone, apex, n) ==
  n # Low(apex) /\ IsSubdomain(n, apex) /\ T_NS \in TypesOf(zone, n)
BelowCut(zone, apex, n) ==
  \E c \in OwnerNames(zone) : IsCut(zone, apex, c) /\ StrictlyBelow(n, c)
\* names that own authoritative data: in the zone, not below a cut; the cut
\* itself is included (parent side)
Auth(zone, apex) ==
  {n \in OwnerNames(zone) : IsSubdomain(n, apex) /\ ~BelowCut(zone, apex, n)}
\* only the parent-side types at a delegation (RFC 4035 2.3)
TypesAt(zone, apex, n) ==
  IF IsCut(zone, apex, n) THEN TypesOf(zone, n) \cap {T_NS, T_DS} ELSE TypesOf(zone, n)

\* insertion sort of a set under a strict total order (O(n^2) comparisons)
SortSetBy(S, Less(_, _)) ==
  FoldL(LAMBDA acc, x :
          LET k == Cardinality({i \in 1..Len(acc) : Less(acc[i], x)})
          IN SubSeq(acc, 1, k) \o <<x>> \o SubSeq(acc, k + 1, Len(acc)),
        <<>>, SX!SetToSeq(S))
SortNames(S) == SortSetBy(S, LAMBDA a, b : CanonNameCmp(a, b) < 0)

\* a pre-computed view of the zone (TLC does not memoise operators): the
\* cuts, the authoritative names with the types they show, the insecure
\* delegations, and the names that exist (owners and empty non-terminals)
Between(n, apex) == {Suffix(n, k) : k \in (Len(apex) + 1)..(Len(n) - 1)}
View(zone, apex) ==
  LET owners == OwnerNames(zone)
      cuts   == {n \in owners : IsCut(zone, apex, n)}
      auth   == {n \in owners : IsSubdomain(n, apex) /\ ~\E c \in cuts : StrictlyBelow(n, c)}
  IN [cuts |-> cuts, auth |-> auth,
      types |-> TLCEval([n \in auth |-> TypesAt(zone, apex, n)]),
      insecure |-> {n \in cuts \cap auth : T_DS \notin TypesOf(zone, n)},
      existing |-> auth \cup UNION {Between(n, apex) : n \in auth}]
ViewIsAuth(zone, apex) == View(zone, apex).auth = Auth(zone, apex)     \* checked by TLC

\* cyclic successor over a sequence of distinct names
Link(s, Types(_)) ==
  TLCEval([i \in 1..Len(s) |-> [owner |-> s[i], next |-> s[(i % Len(s)) + 1], types |-> Types(s[i])]])

NsecChainV(v, apex, assume) ==
  LET T(n) == v.types[n] \cup {T_RRSIG, T_NSEC}
              \cup (IF assume /\ n = Low(apex) THEN {T_DNSKEY} ELSE {})
  IN Link(SortNames(v.auth), T)
NsecChain(zone, apex, assume) == NsecChainV(View(zone, apex), apex, assume)

(* NSEC3.  exclude = opt-out is used and owner names of insecure delegations *)
(* are left out (RFC 5155 7.1: MAY).                                        *)
N3OwnersV(v, exclude) == {n \in v.auth : ~(exclude /\ n \in v.insecure)}
\* empty non-terminals: names strictly between the apex and a name that
\* gets an NSEC3 RR, which do not get one for their own data
N3NamesV(v, apex, exclude) ==
  LET o == N3OwnersV(v, exclude) IN o \cup UNION {Between(n, apex) : n \in o}
N3Names(zone, apex, exclude) == N3NamesV(View(zone, apex), apex, exclude)
N3TypesV(v, apex, owners, assume, n) ==
  IF n \in owners
  THEN v.types[n]
       \cup (IF n \notin v.insecure THEN {T_RRSIG} ELSE {})
       \cup (IF n = Low(apex) THEN {T_NSEC3PARAM} \cup (IF assume THEN {T_DNSKEY} ELSE {}) ELSE {})
  ELSE {}
N3Types(zone, apex, exclude, assume, n) ==
  LET v == View(zone, apex) IN N3TypesV(v, apex, N3OwnersV(v, exclude), assume, n)

\* rank: name -> integer, injective (the order of the hashes)
SortByRank(S, rank) == SortSetBy(S, LAMBDA a, b : rank[a] < rank[b])

Nsec3ChainV(v, apex, exclude, assume, rank) ==
  LET owners == N3OwnersV(v, exclude)
      names  == owners \cup UNION {Between(n, apex) : n \in owners}
      T(n)   == N3TypesV(v, apex, owners, assume, n)
  IN Link(SortByRank(names, rank), T)
Nsec3Chain(zone, apex, exclude, assume, rank) ==
  Nsec3ChainV(View(zone, apex), apex, exclude, assume, rank)

\* the hash itself (RFC 5155 5): IH(salt, x, 0) = H(x || salt),
\* IH(salt, x, k) = H(IH(salt, x, k-1) || salt), x the lower-cased wire name
Oct(o) == [op |-> "oct", o |-> o]
Cat(ts) == [op |-> "cat", of |-> ts]
Sha1(t) == [op |-> "sha1", of |-> <<t>>]
RECURSIVE Nsec3Term(_, _, _)
Nsec3Term(n, salt, k) ==
  IF k = 0 THEN Sha1(Cat(<<Oct(ToWireAbs(Low(n))), Oct(salt)>>))
  ELSE Sha1(Cat(<<Nsec3Term(n, salt, k - 1), Oct(salt)>>))
\* The same value for large k without a term of depth k: Rep(k, salt, t) is
\* x -> SHA-1(x || salt) applied k times to t, i.e. RepUnrolled(k, salt, t).
\* (Terms are evaluated outside TLC; wherever k is small both forms are
\* handed over and must evaluate to the same octets.)
Rep(k, salt, t) == [op |-> "rep", k |-> k, salt |-> salt, of |-> <<t>>]
RECURSIVE RepUnrolled(_, _, _)
RepUnrolled(k, salt, t) ==
  IF k = 0 THEN t ELSE Sha1(Cat(<<RepUnrolled(k - 1, salt, t), Oct(salt)>>))
Nsec3TermR(n, salt, k) == Rep(k, salt, Sha1(Cat(<<Oct(ToWireAbs(Low(n))), Oct(salt)>>)))
RepLaw(n, salt, k) == RepUnrolled(k, salt, Nsec3TermR(n, salt, 0).of[1]) = Nsec3Term(n, salt, k)

\* NSEC3 parameters a zone can be signed with (RFC 5155 3.1.3 - 3.1.5: 16-bit
\* iteration count, salt of 0..255 octets); RFC 9276 / Nsec3param::default():
\* SHA-1, no extra iterations, empty salt
DefaultParams == [salt |-> <<>>, iters |-> 0]
IsParams(p) == p.iters \in 0..65535 /\ Len(p.salt) <= 255 /\ \A i \in 1..Len(p.salt) : p.salt[i] \in 0..255
\* TTL of the NSEC3PARAM RR (GenerateNsec3Config::with_ttl_mode; default: the
\* TTL of the SOA RR); soa = [ttl, min]
ParamTtl(mode, soa) ==
  CASE mode.m = "soa" -> soa.ttl
    [] mode.m = "soa_min" -> soa.min
    [] mode.m = "fixed" -> mode.v
DefaultTtlMode == [m |-> "soa", v |-> 0]

--------------------------------------------------------------------------
(* Part 2: the generators, transcribed.  Input: the records sorted as      *)
(* SortedRecords keeps them (canonical owner order, then type).            *)

RecCmp(r, s) == LET c == CanonNameCmp(r.n, s.n)
                IN IF c # 0 THEN c ELSE IF r.t < s.t THEN -1 ELSE IF r.t > s.t THEN 1 ELSE 0
SortRecs(S) == SortSetBy(S, LAMBDA a, b : RecCmp(a, b) < 0)
IsSortedRecs(s) == \A i \in 1..(Len(s) - 1) : RecCmp(s[i], s[i + 1]) < 0

\* RecordsIter: groups of consecutive records with equal (case-insensitive) owner
GroupAdd(acc, r) ==
  IF acc # <<>> /\ NameEq(acc[Len(acc)][1].n, r.n)
  THEN [acc EXCEPT ![Len(acc)] = Append(@, r)]
  ELSE Append(acc, <<r>>)
\* skip_before: drop leading records whose owner is not at or below the apex
SkipBefore(s, apex) ==
  LET ks == {k \in 1..Len(s) : IsSubdomain(s[k].n, apex)}
  IN IF ks = {} THEN <<>> ELSE SubSeq(s, CHOOSE k \in ks : \A j \in ks : k <= j, Len(s))
Groups(s, apex) == FoldL(GroupAdd, <<>>, SkipBefore(s, apex))
GOwner(g) == g[1].n
GTypes(g) == {g[i].t : i \in 1..Len(g)}
\* more than one SOA RR in the group (records beyond [n, t] may carry a
\* distinguishing field): the generators refuse the zone
GSoaCount(g) == Cardinality({i \in 1..Len(g) : g[i].t = T_SOA})
\* OwnerRrs::is_zone_cut
GIsCut(g, apex) == ~NameEq(GOwner(g), apex) /\ T_NS \in GTypes(g)

None == [some |-> FALSE, n |-> <<>>, types |-> {}]
Some(n, ts) == [some |-> TRUE, n |-> n, types |-> ts]

(* generate_nsecs *)
NsecInit == [cut |-> None, prev |-> None, out |-> <<>>, done |-> FALSE, ttl |-> FALSE, err |-> FALSE]
NsecStep(st, g, apex, assume) ==
  IF st.done \/ st.err THEN st
  ELSE IF ~IsSubdomain(GOwner(g), apex) THEN [st EXCEPT !.done = TRUE]
  ELSE IF st.cut.some /\ IsSubdomain(GOwner(g), st.cut.n) THEN st
  ELSE
    LET name  == GOwner(g)
        cut   == IF GIsCut(g, apex) THEN Some(name, {}) ELSE None
        out   == IF st.prev.some
                 THEN Append(st.out, [owner |-> st.prev.n, next |-> name, types |-> st.prev.types])
                 ELSE st.out
        types == {T_RRSIG, T_NSEC}
                 \cup (IF assume /\ NameEq(name, apex) THEN {T_DNSKEY} ELSE {})
                 \cup {t \in GTypes(g) : ~cut.some \/ t \in {T_NS, T_DS}}
        ttl   == st.ttl \/ T_SOA \in GTypes(g)
    IN IF ~ttl \/ GSoaCount(g) > 1 THEN [st EXCEPT !.err = TRUE]
       ELSE [cut |-> cut, prev |-> Some(name, types), out |-> out, done |-> FALSE,
             ttl |-> ttl, err |-> FALSE]
NsecFinish(st, apex) ==
  IF st.err THEN [err |-> TRUE, out |-> <<>>]
  ELSE [err |-> FALSE,
        out |-> IF st.prev.some
                THEN Append(st.out, [owner |-> st.prev.n, next |-> apex, types |-> st.prev.types])
                ELSE st.out]
NsecPass(recs, apex, assume) ==
  NsecFinish(FoldL(LAMBDA st, g : NsecStep(st, g, apex, assume), NsecInit, Groups(recs, apex)), apex)

(* generate_nsec3s, up to the sort *)
\* pop the stack until an element is found that the name ends with
PopTo(stack, name) ==
  LET ks == {k \in 1..Len(stack) : IsSubdomain(name, stack[k])}
  IN IF ks = {} THEN [found |-> FALSE, nent |-> <<>>, rest |-> <<>>]
     ELSE LET k == CHOOSE x \in ks : \A y \in ks : y <= x
          IN [found |-> TRUE, nent |-> stack[k], rest |-> SubSeq(stack, 1, k - 1)]
\* ents.binary_search(&name) / insert: a sorted sequence without duplicates
\* (Name's Ord is the canonical, case-insensitive order)
EntInsert(ents, name) ==
  IF \E i \in 1..Len(ents) : NameEq(ents[i], name) THEN ents
  ELSE LET k == Cardinality({i \in 1..Len(ents) : CanonNameCmp(ents[i], name) < 0})
       IN SubSeq(ents, 1, k) \o <<name>> \o SubSeq(ents, k + 1, Len(ents))
\* for n in (1..=distance-1).rev(): the ancestor that keeps labels n+1..dist
\* of the owner, followed by the apex as the caller wrote it
AddEnts(ents, name, m, dist, apex) ==      \* n = m, m-1, ..., 1
  FoldL(LAMBDA es, n : EntInsert(es, SubSeq(name, n + 1, dist) \o apex), ents,
        [j \in 1..m |-> m + 1 - j])

N3Init == [cut |-> None, stack |-> <<>>, ents |-> <<>>, out |-> <<>>, done |-> FALSE,
           ttl |-> FALSE, err |-> FALSE]
N3Step(st, g, apex, exclude, assume) ==
  IF st.done \/ st.err THEN st
  ELSE IF ~IsSubdomain(GOwner(g), apex) THEN [st EXCEPT !.done = TRUE]
  ELSE IF st.cut.some /\ IsSubdomain(GOwner(g), st.cut.n) THEN st
  ELSE
    LET name  == GOwner(g)
        cut   == IF GIsCut(g, apex) THEN Some(name, {}) ELSE None
        hasDs == T_DS \in GTypes(g)
    IN IF exclude /\ cut.some /\ ~hasDs THEN [st EXCEPT !.cut = cut]
       ELSE
         LET p        == PopTo(st.stack, name)
             lastDist == IF p.found THEN Len(p.nent) - Len(apex) ELSE 0
             dist     == Len(name) - Len(apex)
             ents     == IF dist > lastDist
                         THEN AddEnts(st.ents, name, (dist - lastDist) - 1, dist, apex)
                         ELSE st.ents
             types    == (IF ~cut.some \/ hasDs THEN {T_RRSIG} ELSE {})
                         \cup {t \in GTypes(g) : ~cut.some \/ t \in {T_NS, T_DS}}
                         \cup (IF dist = 0
                               THEN {T_NSEC3PARAM} \cup (IF assume THEN {T_DNSKEY} ELSE {})
                               ELSE {})
             ttl      == st.ttl \/ T_SOA \in GTypes(g)
         IN IF ~ttl \/ GSoaCount(g) > 1 THEN [st EXCEPT !.err = TRUE]
            ELSE [cut |-> cut,
                  stack |-> p.rest \o (IF p.found THEN <<p.nent>> ELSE <<>>) \o <<name>>,
                  ents |-> ents, out |-> Append(st.out, [n |-> name, types |-> types]),
                  done |-> FALSE, ttl |-> ttl, err |-> FALSE]
\* after the loop: one NSEC3 per ENT with an empty bitmap, sort by hashed
\* owner (rank of the lower-cased name), link cyclically; two entries for
\* the same name are reported as a collision / unreachable!() by the code
InsertByRank(sorted, e, rank) ==          \* stable
  LET k == Cardinality({i \in 1..Len(sorted) : rank[Low(sorted[i].n)] <= rank[Low(e.n)]})
  IN SubSeq(sorted, 1, k) \o <<e>> \o SubSeq(sorted, k + 1, Len(sorted))
SortEntries(es, rank) == FoldL(LAMBDA sorted, e : InsertByRank(sorted, e, rank), <<>>, es)
N3Finish(st, rank) ==
  IF st.err \/ st.out = <<>> THEN [err |-> TRUE, out |-> <<>>]
  ELSE
    LET all == st.out \o [i \in 1..Len(st.ents) |-> [n |-> st.ents[i], types |-> {}]]
        s   == SortEntries(all, rank)
        dup == \E i \in 1..(Len(s) - 1) : NameEq(s[i].n, s[i + 1].n)
    IN IF dup THEN [err |-> TRUE, out |-> <<>>]
       ELSE [err |-> FALSE,
             out |-> [i \in 1..Len(s) |->
                        [owner |-> s[i].n, next |-> s[(i % Len(s)) + 1].n, types |-> s[i].types]]]
Nsec3Pass(recs, apex, exclude, assume, rank) ==
  N3Finish(FoldL(LAMBDA st, g : N3Step(st, g, apex, exclude, assume), N3Init, Groups(recs, apex)), rank)

\* (TLCEval: materialise the function, TLC would otherwise re-evaluate the
\* body on every application)
LowChain(c) == TLCEval([i \in 1..Len(c) |-> [owner |-> Low(c[i].owner), next |-> Low(c[i].next),
                                             types |-> c[i].types]])

--------------------------------------------------------------------------
(* Part 3: what a chain proves *)

\* following `next` from the apex visits every record once and returns
NextOf(chain, at) == (CHOOSE x \in {chain[i] : i \in 1..Len(chain)} : x.owner = at).next
Walk(chain, start) ==
  FoldL(LAMBDA w, k : [at |-> NextOf(chain, w.at), seen |-> w.seen \cup {w.at}],
        [at |-> start, seen |-> {}], [k \in 1..Len(chain) |-> k])
Owners(chain) == {chain[i].owner : i \in 1..Len(chain)}
Closed(chain, start) ==
  /\ Len(chain) >= 1
  /\ Cardinality(Owners(chain)) = Len(chain)
  /\ start \in Owners(chain)
  /\ \A i \in 1..Len(chain) : chain[i].next \in Owners(chain)
  /\ LET w == Walk(chain, start)
     IN w.at = start /\ w.seen = Owners(chain)

\* NSEC: x (not an owner) is covered by a record: owner < x < next, the
\* record whose next is the apex covering everything after it
NsecCovered(chain, apex, x) ==
  \E i \in 1..Len(chain) :
     /\ CanonNameCmp(chain[i].owner, x) < 0
     /\ (chain[i].next = apex \/ CanonNameCmp(x, chain[i].next) < 0)
NoData(chain, n, t) == \E i \in 1..Len(chain) : chain[i].owner = n /\ t \notin chain[i].types

\* closest encloser of q among a set of existing names (all contain the apex)
Encloser(q, Existing) ==
  LET ks == {k \in 0..Len(q) : Suffix(q, k) \in Existing}
  IN Suffix(q, CHOOSE k \in ks : \A j \in ks : j <= k)

\* probes for which a negative answer (NXDOMAIN / NODATA) is due: in the
\* zone, not below a cut, at a cut only DS
Deniable(v, apex, q, t) ==
  /\ IsSubdomain(q, apex) /\ ~\E c \in v.cuts : StrictlyBelow(q, c)
  /\ (q \in v.cuts => t = T_DS)
  /\ ~(q \in v.auth /\ t \in v.types[q])

\* existing names for NSEC purposes (v.existing): owners of authoritative
\* data and their ancestors (empty non-terminals)
NsecProves(chain, v, apex, q, t) ==
  IF q \in v.auth THEN NoData(chain, q, t)
  ELSE /\ NsecCovered(chain, Low(apex), q)               \* the name (or ENT) itself
       /\ (q \notin v.existing =>                        \* NXDOMAIN: no wildcard either
             LET w == <<Star>> \o Encloser(q, v.existing)
             IN IF w \in v.auth
                THEN (t \in v.types[w] \/ NoData(chain, w, t))   \* wildcard answer / NODATA
                ELSE w = q \/ NsecCovered(chain, Low(apex), w))

\* NSEC3: a name that is not in the chain hashes into some gap; position p
\* (0..n) of the hash relative to the sorted chain is arbitrary, every gap
\* must be covered: record p (or the last one, wrapping around) has
\* next = record p+1
N3Covered(chain, p) ==
  LET n == Len(chain)
      i == IF p = 0 THEN n ELSE p
  IN chain[i].next = chain[(i % n) + 1].owner
N3AllCovered(chain) == \A p \in 0..Len(chain) : N3Covered(chain, p)
\* names = the names that have an NSEC3 RR
N3Proves(chain, v, names, apex, q, t) ==
  IF q \in names THEN NoData(chain, q, t)
  ELSE \* closest provable encloser matches, next closer name and the
       \* wildcard at the encloser are covered wherever they hash
       LET ce == Encloser(q, names)
           w  == <<Star>> \o ce
       IN /\ \E i \in 1..Len(chain) : chain[i].owner = ce
          /\ N3AllCovered(chain)
          /\ (w \in names => (w \in v.auth /\ t \in v.types[w]) \/ NoData(chain, w, t))

--------------------------------------------------------------------------
(* Part 4: type bitmaps *)

\* RFC 4034 4.1.2: for every window with a type in it, ascending:
\* window number, bitmap length 1..32 (up to the last non-zero octet),
\* bitmap with bit (t mod 256) counted from the most significant bit
Pow2(k) == CASE k = 0 -> 1 [] k = 1 -> 2 [] k = 2 -> 4 [] k = 3 -> 8 [] k = 4 -> 16
             [] k = 5 -> 32 [] k = 6 -> 64 [] k = 7 -> 128
WinOctet(types, w, o) ==
  LET b(k) == IF (w * 256 + o * 8 + k) \in types THEN Pow2(7 - k) ELSE 0
  IN b(0) + b(1) + b(2) + b(3) + b(4) + b(5) + b(6) + b(7)
WinLen(types, w) ==
  LET os == {(t % 256) \div 8 : t \in {u \in types : u \div 256 = w}}
  IN 1 + (CHOOSE m \in os : \A x \in os : x <= m)
WinEnc(types, w) ==
  <<w, WinLen(types, w)>> \o [o \in 1..WinLen(types, w) |-> WinOctet(types, w, o - 1)]
BitmapOf(types) ==
  LET ws == {t \div 256 : t \in types}
      sw == [i \in 1..Cardinality(ws) |-> CHOOSE w \in ws : Cardinality({v \in ws : v < w}) = i - 1]
  IN FoldL(LAMBDA acc, w : acc \o WinEnc(types, w), <<>>, sw)

\* RtypeBitmapBuilder: buf is a sequence of 34-octet blocks
\* [window, used length, 32 octets], kept sorted by window
Zeros(n) == [i \in 1..n |-> 0]
RECURSIVE BmFindBlock(_, _, _)
BmFindBlock(buf, pos, block) ==      \* pos 0-based; result [buf, pos]
  IF pos >= Len(buf) THEN [buf |-> buf \o <<block>> \o Zeros(33), pos |-> pos]
  ELSE IF buf[pos + 1] = block THEN [buf |-> buf, pos |-> pos]
  ELSE IF buf[pos + 1] > block
       THEN [buf |-> SubSeq(buf, 1, pos) \o <<block>> \o Zeros(33) \o SubSeq(buf, pos + 1, Len(buf)),
             pos |-> pos]
  ELSE BmFindBlock(buf, pos + 34, block)
\* bit-or on octets where the bit is known to be a power of two
OrBit(v, bit) == IF (v \div bit) % 2 = 1 THEN v ELSE v + bit
BmAdd(buf, t) ==
  LET block == t \div 256
      octet == (t % 256) \div 8
      bit   == Pow2(7 - (t % 8))
      f     == BmFindBlock(buf, 0, block)
      b     == f.buf
      p     == f.pos
      b1    == IF b[p + 2] < octet + 1 THEN [b EXCEPT ![p + 2] = octet + 1] ELSE b
  IN [b1 EXCEPT ![p + octet + 3] = OrBit(@, bit)]
BmAddAll(buf, ts) == FoldL(BmAdd, buf, ts)
RECURSIVE BmFinalize(_, _)
BmFinalize(buf, src) ==               \* src 0-based start of the next block
  IF src >= Len(buf) THEN <<>>
  ELSE SubSeq(buf, src + 1, src + buf[src + 2] + 2) \o BmFinalize(buf, src + 34)
BmBuild(ts) == BmFinalize(BmAddAll(<<>>, ts), 0)
--------------------------------------------------------------------------
(* Part 5: the Flags octet of the NSEC3 parameters and the configuration   *)
(* that decides about Opt-Out.                                             *)
(*                                                                         *)
(* RFC 5155 3.1.2 / 3.2: Flags is one octet of eight one-bit flags; the    *)
(* Opt-Out flag is the least significant bit (3.1.2.1), the other seven    *)
(* are undefined.  GenerateNsec3Config::params ("hash algorithm, flags,    *)
(* iterations and salt") is the caller's Nsec3param: the octet is copied   *)
(* verbatim into every NSEC3 RR; with_opt_out() sets the bit and leaves    *)
(* the other seven alone.  Whether Opt-Out "is being used" (7.1) is the    *)
(* BIT of the octet the NSEC3 RRs carry, whatever the other bits are: a    *)
(* chain that leaves insecure delegations out is only sound when its RRs   *)
(* advertise Opt-Out (RFC 5155 6), and a configuration that asks for the   *)
(* exclusion (the default once Opt-Out is on) gets it whenever they do.    *)

FlagOctets == 0..255
FBit(f, i) == (f \div Pow2(i)) % 2
And8(a, b) ==
  FoldL(LAMBDA acc, i : acc + Pow2(i) * FBit(a, i) * FBit(b, i), 0, <<0, 1, 2, 3, 4, 5, 6, 7>>)
Or8(a, b) ==
  FoldL(LAMBDA acc, i : acc + Pow2(i) * (IF FBit(a, i) + FBit(b, i) > 0 THEN 1 ELSE 0), 0,
        <<0, 1, 2, 3, 4, 5, 6, 7>>)
\* declarative (RFC 5155 3.1.2.1)
OptOutBit(f) == f % 2 = 1
\* the accessors as src/rdata/nsec3.rs writes them
OPT_OUT_MASK == 1
ParamOptOutFlag(f) == And8(f, OPT_OUT_MASK) = OPT_OUT_MASK       \* Nsec3param::opt_out_flag
Nsec3OptOut(f) == And8(f, 1) # 0                                  \* Nsec3::opt_out
SetOptOutFlag(f) == Or8(f, OPT_OUT_MASK)                          \* Nsec3param::set_opt_out_flag
FlagLaws ==
  \A f \in FlagOctets :
    /\ ParamOptOutFlag(f) = OptOutBit(f) /\ Nsec3OptOut(f) = OptOutBit(f)
    /\ SetOptOutFlag(f) \in FlagOctets /\ OptOutBit(SetOptOutFlag(f))
    /\ SetOptOutFlag(f) \div 2 = f \div 2                         \* the other seven bits stay
    /\ (OptOutBit(f) => SetOptOutFlag(f) = f)

\* GenerateNsec3Config: new(params) (DNSKEY assumed, exclusion on once
\* Opt-Out is) followed by public setter calls
CfgNew(f) == [flags |-> f, excl |-> TRUE, assume |-> TRUE]
CfgSet(cfg, s) ==
  CASE s = "opt_out" -> [cfg EXCEPT !.flags = SetOptOutFlag(@)]
    [] s = "no_exclude" -> [cfg EXCEPT !.excl = FALSE]
    [] s = "no_dnskey" -> [cfg EXCEPT !.assume = FALSE]
    [] OTHER -> cfg                           \* TTL modes: not part of the chain
CfgRun(f, script) == FoldL(CfgSet, CfgNew(f), script)
\* generate_nsec3s: exclude_owner_names_of_unsigned_delegations
GenExcludes(cfg) == ParamOptOutFlag(cfg.flags) /\ cfg.excl
\* declarative: Opt-Out is being used iff the RRs will carry the bit
DeclExcludes(cfg) == OptOutBit(cfg.flags) /\ cfg.excl
\* the Flags field of every generated NSEC3 RR
EmittedFlags(cfg) == cfg.flags
\* RFC 5155 6: an insecure delegation may be without an NSEC3 RR only under
\* NSEC3 RRs with Opt-Out set; and the configured exclusion takes place
\* whenever the RRs say Opt-Out.  chainOwners: names with an NSEC3 RR.
OptOutConsistent(cfg, insecure, chainOwners) ==
  /\ (insecure \ chainOwners # {}) => OptOutBit(EmittedFlags(cfg))
  /\ (OptOutBit(EmittedFlags(cfg)) /\ cfg.excl) => insecure \cap chainOwners = {}
\* The NSEC3PARAM RR at the apex: RFC 5155 4.1.2 wants a Flags field of zero
\* (Opt-Out "is not used and is set to zero", the rest reserved), the
\* library hands back the configured parameters; both are admitted here.
ParamFlagsAllowed(cfg) == {0, cfg.flags}
=============================================================================
