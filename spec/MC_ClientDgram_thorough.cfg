CONSTANTS
  Dev = {}
  TickMs = 10000
  Confs <- MCConfsT
  MaxDgrams = 3
  Faults <- MCFaults
SPECIFICATION DSpec
INVARIANT DOwnAnswer
INVARIANT DAtMostOnce
INVARIANT DBudget
INVARIANT DConfigured
INVARIANT DCurrentAttempt
CHECK_DEADLOCK FALSE
