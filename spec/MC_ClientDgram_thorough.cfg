CONSTANTS
  Dev = {}
  RD = 2
  MaxRetries = 2
  MaxDgrams = 3
  Faults <- MCFaults
SPECIFICATION DSpec
INVARIANT DOwnAnswer
INVARIANT DAtMostOnce
INVARIANT DBudget
INVARIANT DCurrentAttempt
CHECK_DEADLOCK FALSE
