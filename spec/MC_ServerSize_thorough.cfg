CONSTANTS
  Dev = {}
  CSizes = {70000, 0, 1, 511, 512, 513, 1231, 1232, 1233, 4095, 4096, 4097, 65535}
  Hints = {70000, 512, 1232, 4096}
  Lens = {100, 501, 511, 512, 513, 523, 700, 1221, 1222, 1232, 1233, 1243, 4085, 4096, 4097, 5000, 20000}
  OptLens = {0, 11, 15, 300, 480}
  ROpts = {"none", "keepalive", "several"}
  Recipes = {"plain"}
  Routes = {"mk"}
  ALays = {"none"}
  Tgts = {"vec"}
  SvcRoutes = {"impl"}
  EOns = {TRUE}
  QLens = {5, 17, 259}
SPECIFICATION Spec
INVARIANT UdpSize
INVARIANT TcIffDropped
INVARIANT StillParses
INVARIANT StreamFramed
INVARIANT NegotiateLaws
INVARIANT Emit
CHECK_DEADLOCK FALSE
