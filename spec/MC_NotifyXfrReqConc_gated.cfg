CONSTANTS
  N = 2
  T = 4
  W = 2
  Cap = 1
  Kinds = {"axfr", "ixfr"}
  Design = "ordered"
  Dev = {}
  GateClosed = TRUE
SPECIFICATION MCSpec
INVARIANT C1_Bounded
INVARIANT C2_Conserved
INVARIANT C2_Released
INVARIANT OrderedLaw
INVARIANT QuiescentLaw

CHECK_DEADLOCK FALSE
