---------------------------- MODULE Trace_Denial ----------------------------
(* I->S for C13: for every recorded zone (records in the order the library  *)
(* keeps them, configuration, both generated chains with NSEC3 owners       *)
(* mapped back to names through independently computed hashes, and the      *)
(* rank of every candidate name's independent hash) the recorded chains are *)
(* what the transcribed passes produce, equal the declarative chains, are   *)
(* closed, and prove the recorded absent probes.                            *)
EXTENDS Denial, Json, IOUtils

Rec == ndJsonDeserialize(IOEnv.TRACE)

VARIABLES l
tvars == <<l>>

IsEv(e) == l <= Len(Rec) /\ Rec[l].ev = e /\ l' = l + 1
TInit == l = 1

Sets(c) == TLCEval([i \in 1..Len(c) |-> [owner |-> c[i].owner, next |-> c[i].next,
                                          types |-> {c[i].types[j] : j \in 1..Len(c[i].types)}]])

T_Zone ==
  /\ IsEv("zone")
  /\ LET e     == Rec[l]
         apex  == e.apex
         zone  == {e.recs[i] : i \in 1..Len(e.recs)}
         v     == View(zone, apex)
         rank  == TLCEval([n \in {e.ranks[i].n : i \in 1..Len(e.ranks)} |->
                             e.ranks[CHOOSE i \in 1..Len(e.ranks) : e.ranks[i].n = n].r])
         nsec  == Sets(e.nsec)
         nsec3 == Sets(e.nsec3)
         \* the configuration the recorded calls build: new(params) with the
         \* recorded Flags octet, then the recorded setters in their order
         cfg   == CfgRun(e.flags0, e.setters)
         excl  == DeclExcludes(cfg)
         names == N3NamesV(v, apex, excl)
     IN /\ IsSortedRecs(e.recs)
        /\ ~e.nsecerr /\ ~e.n3err
        \* NSEC
        /\ LowChain(NsecPass(e.recs, apex, e.assume).out) = nsec
        /\ NsecChainV(v, apex, e.assume) = nsec
        /\ Closed(nsec, Low(apex))
        /\ e.nsecttl = e.soattl
        \* the workflow: however the collection was assembled (e.assembly), after
        \* extending it twice with the generated NSEC records it is still sorted
        \* and duplicate-free, holds the zone plus one NSEC per chain owner, and
        \* yields the same chain
        /\ ~e.again_err
        /\ IsSortedRecs(e.recs2)
        /\ {<<Low(e.recs2[i].n), e.recs2[i].t>> : i \in 1..Len(e.recs2)}
             = {<<Low(r.n), r.t>> : r \in zone} \cup {<<nsec[i].owner, T_NSEC>> : i \in 1..Len(nsec)}
        /\ Sets(e.nsec_again) = nsec
        \* NSEC3
        /\ e.flags0 \in FlagOctets /\ cfg.assume = e.assume
        /\ LowChain(Nsec3Pass(e.recs, apex, GenExcludes(cfg), cfg.assume, rank).out) = nsec3
        /\ Nsec3ChainV(v, apex, excl, cfg.assume, rank) = nsec3
        /\ Closed(nsec3, Low(apex))
        \* the Flags octet: verbatim on every NSEC3 RR, opt_out() of every RR is
        \* its least significant bit, the chain leaves insecure delegations out
        \* exactly as that bit and the configuration say; the NSEC3PARAM RR
        /\ e.n3flags = EmittedFlags(cfg) /\ e.n3flagsmin = EmittedFlags(cfg)
        /\ e.n3opt_all = OptOutBit(EmittedFlags(cfg)) /\ e.n3opt_any = OptOutBit(EmittedFlags(cfg))
        /\ OptOutConsistent(cfg, v.insecure, {nsec3[i].owner : i \in 1..Len(nsec3)})
        /\ e.pflags \in ParamFlagsAllowed(cfg) /\ e.popt = OptOutBit(e.pflags)
        /\ e.n3ttl = e.soattl
        \* parameters (whatever route / constructor / setter order was used): every
        \* NSEC3 RR and the NSEC3PARAM RR carry them; the NSEC3PARAM TTL follows the mode
        /\ IsParams([salt |-> e.salt, iters |-> e.iters]) /\ e.params_ok
        /\ e.paramttl = ParamTtl(e.ttlmode, e.soa)
        /\ e.soattl = Min(e.soa.ttl, e.soa.min)
        \* a record taken out again (NSEC records stripped first): the collection is
        \* the sorted rest, the chain the chain of the rest
        /\ LET zone3 == {r \in zone : ~(NameEq(r.n, e.removed.n) /\ r.t = e.removed.t)}
           IN /\ ~e.rm_err /\ e.rm_found /\ zone3 # zone
              /\ IsSortedRecs(e.recs3) /\ e.rm_len = Len(e.recs3)
              /\ {<<Low(e.recs3[i].n), e.recs3[i].t>> : i \in 1..Len(e.recs3)} = {<<Low(r.n), r.t>> : r \in zone3}
              /\ Sets(e.nsec_rm) = NsecChainV(View(zone3, apex), apex, e.assume)
        \* proofs
        /\ \A i \in 1..Len(e.probes) :
              LET q == e.probes[i].q  t == e.probes[i].t
              IN Deniable(v, apex, q, t) =>
                   /\ NsecProves(nsec, v, apex, q, t)
                   /\ N3Proves(nsec3, v, names, apex, q, t)

TNext == T_Zone
TSpec == TInit /\ [][TNext]_tvars

Accepted ==
  LET d == TLCGet("stats").diameter
  IN IF d = Len(Rec) + 1 THEN TRUE
     ELSE /\ PrintT("TRACE_REJECTED " \o ToJson([matched |-> d - 1, total |-> Len(Rec),
                      event |-> IF d <= Len(Rec) THEN Rec[d] ELSE [ev |-> "none"]]))
          /\ FALSE
=============================================================================
