------------------------------ MODULE Batcher ------------------------------
(***************************************************************************)
(* X05 -- the response batcher as a machine: one action per public call of *)
(* src/net/server/batcher.rs CallbackBatcher (new / push / finish) with    *)
(* callbacks of the shape the XFR middleware uses.                         *)
(*                                                                         *)
(* PROPERTIES (for every sequence of record sizes, every limit, with and   *)
(* without a record limit, with and without "must fit in one message"):    *)
(*  B1 ExactlyOnceInOrder.  The batches handed out so far followed by the  *)
(*     records still in the builder are exactly the accepted records, in   *)
(*     the order pushed (no loss, no duplicate, no reordering) -- as long  *)
(*     as no batch was refused by the consumer (must-fit).                 *)
(*  B2 Bounded.  No batch is empty, none exceeds the push limit, none      *)
(*     exceeds the record limit.                                           *)
(*  B3 Greedy.  A batch is closed only because the next record would not   *)
(*     fit or the record limit is reached; after finish() of an error-free *)
(*     history the batches are THE greedy partition of the input.          *)
(*  B4 OverlongIsAnError.  A record that does not fit an empty message is  *)
(*     refused by an error (not a hang, not an empty or oversized batch);  *)
(*     nothing accepted earlier is lost and the batcher stays usable.      *)
(*  B5 MustFit.  With must-fit set no batch is handed out before finish(); *)
(*     the first attempt reports "mustfit".                                *)
(***************************************************************************)
EXTENDS BatcherFn

VARIABLES prm,     \* parameters of the batcher in use
          open,    \* sizes of the records in the builder in use
          out,     \* batches handed to batch_ready: [recs, fin]
          last,    \* result of the last call
          acc,     \* history: sizes of the accepted records
          clean    \* history: no push was refused so far
bvars == <<prm, open, out, last, acc, clean>>

NoPrm == Params(0, 0, 0, FALSE)

BInit == prm = NoPrm /\ open = <<>> /\ out = <<>> /\ last = "-" /\ acc = <<>> /\ clean = TRUE

Tag(bs, fin) == [j \in 1 .. Len(bs) |-> [recs |-> bs[j], fin |-> fin]]

\* CallbackBatcher::new + callback state
New(p) == /\ prm' = p /\ open' = <<>> /\ out' = <<>> /\ last' = "new" /\ acc' = <<>> /\ clean' = TRUE

Push(s) ==
  LET st == PushStep(open, s, prm) IN
  /\ last # "mustfit"           \* the XFR responder stops using the batcher then
  /\ open' = st.open
  /\ out' = out \o Tag(st.emit, FALSE)
  /\ last' = st.res
  /\ acc' = IF st.res = "ok" THEN Append(acc, s) ELSE acc
  /\ clean' = (clean /\ st.res = "ok")
  /\ UNCHANGED prm

Finish ==
  LET st == FinishStep(open, prm) IN
  /\ last # "mustfit"
  /\ open' = st.open
  /\ out' = out \o Tag(st.emit, TRUE)
  /\ last' = "fin"
  /\ UNCHANGED <<prm, acc, clean>>

-----------------------------------------------------------------------------
Recs(o) == [j \in 1 .. Len(o) |-> o[j].recs]

B1_ExactlyOnceInOrder == last # "mustfit" => Flatten(Recs(out)) \o open = acc
B2_Bounded == /\ \A j \in 1 .. Len(out) : BatchOk(out[j].recs, prm)
              /\ (open # <<>> => /\ Within(prm.H + Sum(open), prm)
                                 /\ (prm.RR > 0 => Len(open) < prm.RR))
B3_GreedyAtEnd == (last = "fin" /\ clean) => IsGreedyPartition(Recs(out), acc, prm)
B5_MustFit == prm.MF => \A j \in 1 .. Len(out) : out[j].fin

\* action properties
B3_GreedyStep(Sizes) ==
  \A s \in Sizes : Push(s) =>
     \A j \in Len(out) + 1 .. Len(out') :
        LET b == out'[j].recs IN
        \/ (prm.RR > 0 /\ Len(b) = prm.RR)
        \/ ~Fits(b, s, prm)
B4_Overlong(Sizes) ==
  \A s \in Sizes : (Push(s) /\ ~Fits(<<>>, s, prm) /\ ~prm.MF) =>
        /\ last' = "err" /\ acc' = acc /\ open' = <<>>
        /\ Flatten(Recs(out')) = Flatten(Recs(out)) \o open
=============================================================================
