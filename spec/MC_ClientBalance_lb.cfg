CONSTANTS
  Dev = {}
  TickMs = 10000
  Confs = {}
  MaxDgrams = 0
  Faults = {}
  MReqs = {1}
  MaxConn = 0
  BKind = "lb"
  NUp = 2
  NReq = 2
  Limits <- LimTight
  CfgSet <- CfgFew
SPECIFICATION BSpec
INVARIANT BOwn
INVARIANT BOnlyUsable
INVARIANT BFirstWins
CHECK_DEADLOCK FALSE
