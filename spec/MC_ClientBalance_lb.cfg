CONSTANTS
  Dev = {}
  RD = 1
  MaxRetries = 0
  MaxDgrams = 0
  Faults = {}
  MRT = 1
  MReqs = {1}
  MaxConn = 0
  BKind = "lb"
  NUp = 2
  NReq = 2
  Limits <- LimTight
  CfgSet <- CfgFew
SPECIFICATION BSpec
INVARIANT BOwn
INVARIANT BOnlyUsable
INVARIANT BFirstWins
CHECK_DEADLOCK FALSE
