---------------------------- MODULE MC_BaseNSym ----------------------------
(* The symbol level of the codecs: exhaustive exploration of the three     *)
(* SymbolConverter machines (and the NSEC3 salt wrapper) over every symbol *)
(* kind x value class, the law "converter over a symbol sequence = RFC     *)
(* 4648 function over the characters the symbols denote", and the S->I     *)
(* generators for every symbol-driven entry point of the library.          *)
EXTENDS BaseN, TLC, Json

CONSTANTS L16, L32, L64       \* longest symbol sequence explored per codec

VARIABLES codec,    \* which converter
          esyms,    \* the entry symbols processed so far (history)
          cst,      \* converter state
          out,      \* octets the converter has emitted
          failed,   \* a process_symbol call returned an error (the scanner stops)
          steps,    \* the result of every process_symbol call (history)
          sst, sout, sfailed    \* the NSEC3 salt wrapper fed with the same symbols (b16 only)
vars == <<codec, esyms, cst, out, failed, steps, sst, sout, sfailed>>

C(v) == [k |-> "c", v |-> v]
S(v) == [k |-> "s", v |-> v]
D(v) == [k |-> "d", v |-> v]

MaxSymLen(c) == CASE c = "b16" -> L16 [] c = "b32" -> L32 [] c = "b64" -> L64

\* Symbol classes.  Per codec a few symbols that can be part of valid text
\* (alphabet characters plain and as a simple escape, padding, the token
\* boundary) ...
Good(c) ==
  CASE c = "b16" -> {C(53), C(97), S(70), EOT}                  \* 5 a \F
    [] c = "b32" -> {C(48), C(86), S(75), EOT}                  \* 0 V \K
    [] c = "b64" -> {C(81), S(47), C(61), S(61), EOT}           \* Q \/ = \=
\* ... and every kind x value class that must be rejected: an alphabet
\* character / the padding / '-' as a decimal escape, '-' and another
\* printable character in every kind, non-printable and >= 0x80 values in
\* every kind (C(128) is U+0080, S(127)/S(128)/S(7) can only come from a
\* caller of process_symbol, not from a parser)
AlphaVal(c) == CASE c = "b16" -> 70 [] c = "b32" -> 86 [] c = "b64" -> 81
Bad(c) == {D(AlphaVal(c)), D(48), D(61), C(45), S(45), D(45), C(33), S(33), D(33),
           C(7), S(7), D(7), C(127), S(127), D(127), C(128), S(128), D(128), D(255)}
          \cup (IF c = "b64" THEN {} ELSE {C(61), S(61)})
Alpha(c) == Good(c) \cup Bad(c)

Init == /\ codec \in Codecs
        /\ esyms = <<>> /\ cst = CInitOf(codec) /\ out = <<>> /\ failed = FALSE /\ steps = <<>>
        /\ sst = SaltInit /\ sout = <<>> /\ sfailed = (codec # "b16")

Push(s) ==
  /\ Len(esyms) < MaxSymLen(codec)
  /\ ~(failed /\ sfailed)                        \* somebody is still converting
  /\ esyms' = Append(esyms, s)
  /\ IF failed THEN UNCHANGED <<cst, out, failed, steps>>
     ELSE LET r == CSymOf(codec, cst, s)
          IN /\ cst' = r.st
             /\ steps' = Append(steps, r.res)
             /\ failed' = (r.res = Err)
             /\ out' = IF r.res = Err THEN out ELSE out \o r.res.ok
  /\ IF sfailed THEN UNCHANGED <<sst, sout, sfailed>>
     ELSE IF s = EOT THEN sfailed' = TRUE /\ UNCHANGED <<sst, sout>>   \* convert_token: one token, no boundaries
     ELSE LET q == SaltSym(sst, s)
          IN /\ sst' = q.st
             /\ sfailed' = (q.res = Err)
             /\ sout' = IF q.res = Err THEN sout ELSE sout \o q.res.ok
  /\ UNCHANGED codec

Next == \E s \in Alpha(codec) : Push(s)
Spec == Init /\ [][Next]_vars

--------------------------------------------------------------------------
(* Properties *)

ConvFin == IF failed THEN Err
           ELSE LET t == CTailOf(codec, cst) IN IF t = Err THEN Err ELSE Ok(out \o t.ok)
SaltFin == IF sfailed THEN Err
           ELSE LET t == SaltTail(sst) IN IF t = Err THEN Err ELSE Ok(sout \o t.ok)

\* the property: a converter accepts a symbol sequence iff the characters
\* its symbols denote are well-formed RFC 4648 text, and yields its octets;
\* token boundaries do not matter (CharsOf drops them)
ConvEqualsFunction == ConvFin = DecOf(codec, CharsOf(esyms))
SaltApplicable == codec = "b16" /\ SymsOf(esyms) = esyms        \* the salt is a single token
SaltEqualsFunction == SaltApplicable => SaltFin = SaltDec(CharsOf(esyms))
\* ... and equals the Decoder machine run over those characters
ConvEqualsDecoder == ConvFin = FinOf(codec, RunPushes(codec, InitOf(codec), CharsOf(esyms)))
\* a decimal escape is never codec text, whatever its value
EscapedOctetRejected == (\E i \in 1..Len(esyms) : esyms[i].k = "d") => (ConvFin = Err /\ (SaltApplicable => SaltFin = Err))
\* the converter never writes outside its input buffer
ConvIndexInBounds == failed \/ ( /\ (codec = "b64" => cst.next \in {0, 1, 2, 3, EOFMARK})
                                  /\ (codec = "b32" => cst.next \in 0..7) )
\* the recursive form (used for the probe cases and by trace validation)
\* is the same machine
RunAgrees == LET r == ConvRun(codec, esyms)
             IN r.steps = steps /\ r.fin = ConvFin /\ (SaltApplicable => SaltRun(esyms) = SaltFin)

--------------------------------------------------------------------------
(* Zone-file escaping rules: which symbols can be *written*               *)

Digit(v) == v >= 48 /\ v <= 57
\* a string token handed to IterScanner (Symbol::from_chars): any character
\* but a backslash stands for itself, `\X` for printable non-digit X, `\DDD`
WritableIt(s) == CASE s.k = "c" -> s.v # 92
                   [] s.k = "s" -> s.v >= 32 /\ s.v <= 126 /\ ~Digit(s.v)
                   [] s.k = "d" -> TRUE
\* an unquoted zone-file token (Symbol::from_slice_index + is_word_char):
\* white space, parentheses, semicolon, double quote and backslash do not
\* stand for themselves; `\X` for any octet X but a digit or ASCII control
WritableZf(s) == CASE s.k = "c" -> s.v \notin {9, 10, 13, 32, 34, 40, 41, 59, 92}
                   [] s.k = "s" -> s.v >= 32 /\ s.v # 127 /\ ~Digit(s.v)
                   [] s.k = "d" -> TRUE

Skip == [skip |-> TRUE]

\* One S->I case: the symbol sequence, which entry points can take it, and
\* the expected outcome at each.
\*   steps/conv  process_symbol call by call, process_tail (all three converters)
\*   str         decode() / Decoder on the written form (no escape processing)
\*   iscan       IterScanner::convert_entry (DS digest, OPENPGPKEY) / convert_token (NSEC3 next hash)
\*   scan        the zone-file reader's convert_entry / convert_token, same records
\*   users       NSEC3 salt (FromStr, IterScanner, zone file), OwnerHash::from_str, SVCB ech
SymCase(c, t) ==
  LET y == SymsOf(t)
      one == (y = t)                                       \* a single token
      it == y # <<>> /\ (\A i \in 1..Len(y) : WritableIt(y[i])) /\ (c = "b32" => one)
      zf == y # <<>> /\ (\A i \in 1..Len(y) : WritableZf(y[i])) /\ (c = "b32" => one)
      d == DecOf(c, CharsOf(t))
      users == CASE c = "b16" -> [salt_str  |-> SaltStrDec(y),
                                  salt_iter |-> IF it /\ one THEN SaltDec(CharsOf(y)) ELSE Skip,
                                  salt_zf   |-> IF zf /\ one THEN SaltDec(CharsOf(y)) ELSE Skip]
                [] c = "b32" -> [ohash_str |-> StrDecOf("b32", y)]
                [] c = "b64" -> [ech_zf |-> IF zf /\ one THEN EchDec(y) ELSE Skip]
  IN [in  |-> [kind |-> "sym", codec |-> c, syms |-> t, it |-> it, zf |-> zf, one |-> one],
      exp |-> [steps |-> ConvRun(c, t).steps, conv |-> d, str |-> StrDecOf(c, y),
               iscan |-> IF it THEN d ELSE Skip, scan |-> IF zf THEN d ELSE Skip,
               users |-> users]]

EmitSym == PrintT("CASE " \o ToJson(SymCase(codec, esyms)))

\* Probe: every symbol kind x every octet value 0..255 at every position of
\* a complete group, of a final partial group and of the padding.
AllSyms == {[k |-> kk, v |-> vv] : kk \in {"c", "s", "d"}, vv \in 0..255}
Txt(t) == [i \in 1..Len(t) |-> C(t[i])]
ProbeBase(c) ==
  CASE c = "b16" -> {Txt(<<53, 70>>), Txt(<<53>>)}                              \* 5F  5
    [] c = "b32" -> {Txt(<<48, 49, 50, 51, 52, 53, 54, 86, 48, 86>>), Txt(<<48, 86>>)}  \* 0123456V0V  0V
    [] c = "b64" -> {Txt(<<81, 85, 74, 68>>), Txt(<<81, 85, 73, 61>>), Txt(<<81, 81, 61, 61>>)}  \* QUJD QUI= QQ==
ProbeTexts(c) == UNION {{[t EXCEPT ![p] = s] : p \in 1..Len(t), s \in AllSyms} : t \in ProbeBase(c)}
Once == codec = "b16" /\ esyms = <<>>          \* evaluated in one initial state
\* law and case in one pass (the probe texts are evaluated once): the recursive
\* converter run equals the RFC 4648 function of the denoted characters
SymProbeLaw(c, t) == /\ ConvRun(c, t).fin = DecOf(c, CharsOf(t))
                     /\ c = "b16" => SaltRun(t) = SaltDec(CharsOf(t))
EmitSymProbe == Once => \A c \in Codecs : \A t \in ProbeTexts(c) :
                  SymProbeLaw(c, t) /\ PrintT("CASE " \o ToJson(SymCase(c, t)))

\* Malformed escape sequences, at every position of valid texts (so that what
\* is left of the token after dropping the tail is valid again and again).
\* Variants 0 and 1 run into the end of the token.  Only readers of written
\* text can meet them; a zone-file token cannot end in a lone backslash (`\ `
\* is an escaped space) and `\` + non-ASCII is a different error there.
X(v) == [k |-> "x", v |-> v]
BadBase(c) ==
  CASE c = "b16" -> {Txt(<<53, 70, 53, 70>>), Txt(<<45>>)}                                     \* 5F5F  -
    [] c = "b32" -> {Txt(<<48, 49, 50, 51, 52, 53, 54, 86, 48, 86>>), Txt(<<48, 86>>)}          \* 0123456V0V  0V
    [] c = "b64" -> {Txt(<<81, 85, 74, 68, 81, 85, 73, 61>>), Txt(<<81, 81, 61, 61>>)}          \* QUJDQUI=  QQ==
BadTexts(c) == UNION {{ SubSeq(t, 1, p) \o <<X(v)>>
                          \o (IF v \in {0, 1} /\ p < Len(t) THEN <<EOT>> ELSE <<>>)
                          \o SubSeq(t, p + 1, Len(t)) : p \in 0..Len(t), v \in 0..4 } : t \in BadBase(c)}
BadCase(c, t) ==
  LET y == SymsOf(t)
      one == (y = t)
      it == (c = "b32" => one)
      zf == (\A i \in 1..Len(t) : t[i].k = "x" => t[i].v \in {1, 2, 3}) /\ (c = "b32" => one)
      cut == CharsOf(TruncAtBad(t, FALSE))          \* what IterScanner reads today
      users(iter) == CASE c = "b16" -> [salt_str |-> Err, salt_iter |-> IF it /\ one THEN iter ELSE Skip,
                                        salt_zf |-> IF zf /\ one THEN Err ELSE Skip]
                       [] c = "b32" -> [ohash_str |-> Err]
                       [] c = "b64" -> [ech_zf |-> IF zf /\ one THEN Err ELSE Skip]
      obs(iscan, salt) == [steps |-> Skip, conv |-> Skip, str |-> Err,
                           iscan |-> IF it THEN iscan ELSE Skip, scan |-> IF zf THEN Err ELSE Skip,
                           users |-> users(salt)]
  IN [in  |-> [kind |-> "sym", codec |-> c, syms |-> t, it |-> it, zf |-> zf, one |-> one],
      exp |-> obs(Err, Err),
      dev |-> [D_iter_bad_escape_ends_token |-> obs(DecOf(c, cut), SaltDec(cut))]]
EmitBadEsc == Once => \A c \in Codecs : \A t \in BadTexts(c) : PrintT("CASE " \o ToJson(BadCase(c, t)))
=============================================================================
