\* model checking and case generation in one run
CONSTANTS
  Dev = {}
  MaxLen = 5
SPECIFICATION Spec
INVARIANT ParensNonNeg
INVARIANT WriteNeverPassesRead
INVARIANT EofInsideQuoteIsError
INVARIANT IdealNeverPanics
INVARIANT OutcomeWellFormed
INVARIANT DevOnlyAtGuards
PROPERTY PosMonotone
PROPERTY ErrSticky
PROPERTY OutputPrefix
INVARIANT Emit
CHECK_DEADLOCK FALSE
