------------------------ MODULE MC_NotifyXfrReqConc ------------------------
(* Exhaustive check of NotifyXfrReqConc.tla over all interleavings.        *)
EXTENDS NotifyXfrReqConc, TLC

CONSTANTS GateClosed    \* TRUE: no funneler makes progress (the harness holds the walks / diff streams)

GSend(t) == ~GateClosed /\ FSend(t)
GDrop(t) == ~GateClosed /\ Drop(t)
Step(t) == BAcquire(t) \/ FAcquire(t) \/ FDone(t) \/ BRecv(t) \/ BFail(t) \/ BDone(t) \/ GSend(t)
MCNext == \E t \in TS : \/ \E k \in Kinds : Start(t, k)
                        \/ Step(t)
                        \/ GDrop(t)
MCSpec == CInit /\ [][MCNext]_cvars /\ \A t \in TS : WF_cvars(Step(t))

C3_Progress == \A t \in TS : (kind[t] # "-") ~> (Ended(t) /\ (drop[t] \/ ok[t]))

Min(a, c) == IF a < c THEN a ELSE c
Started == {t \in TS : kind[t] # "-"}
QuiescentNow == \A t \in TS : ~ENABLED Step(t)
\* what the gated scenarios of the harness observe at rest
QuiescentLaw ==
  (GateClosed /\ QuiescentNow) =>
     LET k == Cardinality(Started)
         ka == Cardinality({t \in Started : kind[t] = "axfr"})
         want == IF Held THEN Min(k, N) ELSE k
     IN /\ Cardinality(Running) = want
        /\ (ka = k => Cardinality(Walking) = want)
=============================================================================
