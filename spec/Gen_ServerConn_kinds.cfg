CONSTANTS
  Dev = {}
  Mode = "conn"
  NConn = 2
  MaxReq = 3
  QCapG = 1
  Kinds = {"strip", "strip2", "fill", "ckfar", "cklen", "refuse"}
  MaxOps = 14
  MaxCredit = 5
  MaxTick = 3
  Limit = 2
  AAM = TRUE
  WithSReconf = FALSE
  Defaults = FALSE
SPECIFICATION Spec
INVARIANT Emit
CHECK_DEADLOCK FALSE
