CONSTANTS
  Dev = {}
  MaxReq = 2
  TickMs = 10000
  StConfs <- St_xfr
  RqCap = 8
  ChanCap = 8
  MaxFrames = 2
  MaxQ = 1
  MaxId = 0
  KaVals = {}
  XQs = {501}
  XfrIds = {0, 1}
  XfrAll = FALSE
  QVars = {}
  EndKinds = {"eof"}
  Frames <- MCFrames
SPECIFICATION MacroSpec
VIEW View
INVARIANT OwnAnswer
INVARIANT AtMostOnce
INVARIANT NoCross
INVARIANT SlotTableSound
INVARIANT NothingLost
INVARIANT TimerArmed
INVARIANT Configured
INVARIANT MacroQuiescent
CHECK_DEADLOCK FALSE
