CONSTANTS
  Sizes = {25, 30, 40, 70, 75, 100, 105}
  Hs = {25}
  Ls = {99, 101, 131, 176}
  RRs = {0, 1, 2, 3}
  MaxLen = 9
  MaxOps = 6
SPECIFICATION GSpec
INVARIANT Emit
INVARIANT B1_ExactlyOnceInOrder
INVARIANT B2_Bounded
CHECK_DEADLOCK FALSE
