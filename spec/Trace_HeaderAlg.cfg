CONSTANTS
  Dev = {}
SPECIFICATION TSpec
INVARIANTS RcodeJoin StageCounts DevReport
POSTCONDITION Accepted
CHECK_DEADLOCK FALSE
