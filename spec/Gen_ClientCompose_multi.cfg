CONSTANTS
  Dev = {}
  RD = 1
  MaxRetries = 1
  MaxDgrams = 0
  Faults = {}
  MRT = 3
  MReqs = {1, 2}
  MaxConn = 3
  Mode = "multi"
  MaxOps = 10
  PathMode = FALSE
SPECIFICATION CSpec
VIEW CView
CONSTRAINT OneDelay
ACTION_CONSTRAINT Emit
INVARIANT MAtMostOnce
INVARIANT MOnTime
INVARIANT MOwn
INVARIANT MNoDup
INVARIANT XNoTruncated
INVARIANT XAtMostOnce
INVARIANT XTcpOnlyAfterTc
INVARIANT XOnTime
INVARIANT XLegsSound
CHECK_DEADLOCK FALSE
