CONSTANTS
  Dev = {"D_rdata_pointers_verbatim"}
  Small = FALSE
  MaxOps = 2
  KeepHist = TRUE
  Family = "all"
SPECIFICATION GenSpec
INVARIANT Emit
CHECK_DEADLOCK FALSE
