CONSTANTS
  Dev = {}
  Big = TRUE
SPECIFICATION Spec
INVARIANT PairLaws
CHECK_DEADLOCK FALSE
