CONSTANTS
  Dev = {}
  Big = TRUE
SPECIFICATION Spec
INVARIANT PairLaws
INVARIANT Emit
CHECK_DEADLOCK FALSE
