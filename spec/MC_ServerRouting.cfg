CONSTANTS
  Dev = {}
  MaxRoutes = 2
  Wide = FALSE
SPECIFICATION Spec
INVARIANTS NeverPanics RoutesToLongest BestOne OrderFree Emit
PROPERTY CallFrame
CHECK_DEADLOCK FALSE
