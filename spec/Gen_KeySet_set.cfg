CONSTANTS
  Keys <- MCKeys
  KType <- MCKType
  KAlg <- MCKAlg
  MaxTTL = 1
  Dev <- OpenDevs
  KeySeq <- KS_k
  MaxList = 1
  Ops = {"add_unavailable", "set_present", "set_signer", "set_at_parent", "set_stale", "set_visible", "set_ds_visible", "set_rrsig_visible"}
  SetKeys <- MCKeys
  Rts = {}
  AltTag = {}
  OddLists = FALSE
  WellTyped = TRUE
  NoopRolls = FALSE
SPECIFICATION Spec
VIEW GenView
ACTION_CONSTRAINT EmitT
CHECK_DEADLOCK FALSE
