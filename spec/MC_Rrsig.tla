----------------------------- MODULE MC_Rrsig -----------------------------
(* Model: an RRset is signed, travels through resolver-side transforms    *)
(* (which must not change what the validator reconstructs) and possibly   *)
(* one alteration (which must).  Every explored state is also one S->I    *)
(* case (Emit).                                                           *)
EXTENDS Rrsig, TLC, Json

CONSTANTS MaxT,        \* transforms per behaviour
          AltDepth,    \* alterations are tried after at most this many transforms
          Thorough     \* BOOLEAN: larger owner / key / ttl menus

--------------------------------------------------------------------------
(* Menus *)
a == <<97>>   b == <<98>>   A == <<65>>   B == <<66>>
ex == <<101, 120>>   Ex == <<69, 120>>   eX == <<101, 88>>
ns1 == <<110, 115, 49>>   Ns1 == <<78, 115, 49>>   ns2 == <<110, 115, 50>>
Mail == <<77, 97, 105, 108>>
Long63 == [i \in 1..63 |-> 97 + (i % 3)]

\* an asterisk label that is not the leftmost one is an ordinary label (RFC
\* 4034 3.1.3 discounts only a leftmost "*"): a.*.ex has Labels = 3, *.*.ex 2
\* ... and only the one-octet label "*" is the wildcard label (RFC 4592 2.1.1):
\* *a.ex and **.ex are ordinary two-label names
StarA == <<42, 97>>   StarStar == <<42, 42>>   AStar == <<97, 42>>
Owners ==
  {<<ex>>, <<a, ex>>, <<Star, ex>>, <<Star, a, ex>>, <<A, eX>>, <<a, Star, ex>>, <<Star, Star, ex>>,
   <<StarA, ex>>, <<StarStar, a, ex>>}
  \cup (IF Thorough THEN {<<>>, <<Star>>, <<Long63, B, ex>>, <<a, Star, b, Star, ex>>,
                          <<AStar, ex>>, <<StarA>>, <<Star, StarA, ex>>, <<StarA, Star, ex>>} ELSE {})

OwnersSmall == {<<a, ex>>, <<Star, ex>>, <<StarA, ex>>}

Pub(n, m) == [i \in 1..n |-> (i * m + 3) % 256]
\* one key per algorithm the backend signs with (the octets of the public key
\* are placeholders: the executor substitutes real keys of that algorithm).
\* route: how the key pair reached the signer - "direct" (as generated / as
\* read from the key file) or "bind" (exported to and re-imported from the
\* BIND private-key format first).  `wide`: combined with every RRset of the
\* menu and every owner; the others with the RdSmall ones and (quick tier) the
\* OwnersSmall ones (every transform and alteration all the same).
RsaPub(m) == <<3, 1, 0, 1>> \o [i \in 1..256 |-> IF i = 1 THEN 200 ELSE (i * m + 3) % 256]
\* an RSA key at the upper limit of RFC 3110 (modulus of 512 octets = 4096
\* bits): a key the signer side signs with and the validator side must take.
\* Quick tier: such a key (`Big`) meets the small RRsets / owners and every
\* single transform and alteration, no stacked ones (a 4096 bit signature
\* is expensive).
RsaPubBig(m) == <<3, 1, 0, 1>> \o [i \in 1..512 |-> IF i = 1 THEN 166 ELSE (i * m + 5) % 256]
Big(k) == k.alg \in RsaAlgs /\ Len(k.pub) > 400
Keys ==
  {[k |-> [flags |-> 256, proto |-> 3, alg |-> 8, pub |-> RsaPubBig(13)], owner |-> <<ex>>, route |-> "direct", wide |-> FALSE]}
  \cup (IF Thorough THEN
    {[k |-> [flags |-> 257, proto |-> 3, alg |-> 8, pub |-> RsaPubBig(13)], owner |-> <<Ex>>, route |-> "bind", wide |-> FALSE]}
    ELSE {})
  \cup
  {[k |-> [flags |-> 256, proto |-> 3, alg |-> 15, pub |-> Pub(32, 7)], owner |-> <<ex>>, route |-> "direct", wide |-> TRUE],
   [k |-> [flags |-> 257, proto |-> 3, alg |-> 13, pub |-> Pub(64, 251)], owner |-> <<Ex>>, route |-> "bind", wide |-> Thorough],
   [k |-> [flags |-> 256, proto |-> 3, alg |-> 8, pub |-> RsaPub(7)], owner |-> <<ex>>, route |-> "direct", wide |-> FALSE],
   [k |-> [flags |-> 257, proto |-> 3, alg |-> 10, pub |-> RsaPub(11)], owner |-> <<Ex>>, route |-> "bind", wide |-> FALSE],
   [k |-> [flags |-> 256, proto |-> 3, alg |-> 14, pub |-> Pub(96, 13)], owner |-> <<ex>>, route |-> "direct", wide |-> FALSE]}
  \cup (IF Thorough THEN
    {[k |-> [flags |-> 257, proto |-> 3, alg |-> 15, pub |-> Pub(32, 7)], owner |-> <<Ex>>, route |-> "bind", wide |-> FALSE],
     [k |-> [flags |-> 256, proto |-> 3, alg |-> 13, pub |-> Pub(64, 251)], owner |-> <<ex>>, route |-> "direct", wide |-> FALSE],
     [k |-> [flags |-> 257, proto |-> 3, alg |-> 8, pub |-> RsaPub(7)], owner |-> <<Ex>>, route |-> "bind", wide |-> FALSE],
     [k |-> [flags |-> 256, proto |-> 3, alg |-> 10, pub |-> RsaPub(11)], owner |-> <<ex>>, route |-> "direct", wide |-> FALSE],
     [k |-> [flags |-> 257, proto |-> 3, alg |-> 14, pub |-> Pub(96, 13)], owner |-> <<Ex>>, route |-> "bind", wide |-> FALSE]}
    ELSE {})

Times == IF Thorough THEN {[inc |-> <<0, 0, 0, 0>>, exp |-> <<0, 0, 0, 100>>], [inc |-> <<255, 255, 255, 0>>, exp |-> <<0, 0, 1, 0>>]}
         ELSE {[inc |-> <<0, 0, 0, 0>>, exp |-> <<0, 0, 0, 100>>]}

Ttls == {3600}

SoaTail == <<0, 0, 0, 1,  0, 0, 14, 16,  0, 0, 3, 132,  0, 9, 58, 128,  0, 0, 1, 44>>
RdSets == {
  [t |-> 1,  rds |-> << <<Raw(<<1, 2, 3, 4>>)>> >>],
  [t |-> 1,  rds |-> << <<Raw(<<10, 0, 0, 1>>)>>, <<Raw(<<9, 255, 0, 1>>)>>, <<Raw(<<10, 0, 0, 0>>)>> >>],
  \* NS: wire order of the lower-cased names, not name order
  [t |-> 2,  rds |-> << <<Nm(<<b, a>>)>>, <<Nm(<<a, b>>)>> >>],
  [t |-> 2,  rds |-> << <<Nm(<<ns2, ex>>)>>, <<Nm(<<Ns1, Ex>>)>> >>],
  [t |-> 15, rds |-> << <<Raw(<<0, 10>>), Nm(<<Mail, Ex>>)>>, <<Raw(<<0, 5>>), Nm(<<b, a>>)>>,
                        <<Raw(<<0, 5>>), Nm(<<a, b>>)>> >>],
  \* TXT: character strings are case-sensitive and not touched
  [t |-> 16, rds |-> << <<Raw(<<1, 98>>)>>, <<Raw(<<2, 97, 97>>)>> >>],
  [t |-> 16, rds |-> << <<Raw(<<1, 97>>)>>, <<Raw(<<0>>)>>, <<Raw(<<1, 65, 1, 66>>)>> >>],
  [t |-> 6,  rds |-> << <<Nm(<<Ns1, Ex>>), Nm(<<A, ex>>), Raw(SoaTail)>> >>],
  [t |-> 5,  rds |-> << <<Nm(<<A, Ex>>)>> >>],
  [t |-> 12, rds |-> << <<Nm(<<B, A, Ex>>)>>, <<Nm(<<>>)>> >>],
  [t |-> 33, rds |-> << <<Raw(<<0, 1, 0, 2, 0, 80>>), Nm(<<A, Ex>>)>>,
                        <<Raw(<<0, 1, 0, 2, 0, 80>>), Nm(<<>>)>> >>],
  [t |-> 39, rds |-> << <<Nm(<<A, Ex>>)>> >>],
  [t |-> 14, rds |-> << <<Nm(<<A, Ex>>), Nm(<<B, Ex>>)>> >>],
  [t |-> 35, rds |-> << <<Raw(<<0, 1, 0, 2, 1, 85, 3, 83, 73, 80, 0>>), Nm(<<A, Ex>>)>> >>],
  \* NSEC: next name NOT lower-cased (RFC 6840 5.1)
  [t |-> 47, rds |-> << <<Nm(<<B, Ex>>), Raw(<<0, 6, 64, 1, 0, 0, 0, 3>>)>> >>],
  [t |-> 48, rds |-> << <<Raw(<<1, 1, 3, 15>> \o Pub(32, 9))>>, <<Raw(<<1, 0, 3, 15>> \o Pub(32, 7))>> >>],
  [t |-> 43, rds |-> << <<Raw(<<48, 57, 15, 2>> \o Pub(32, 11))>> >>],
  [t |-> 28, rds |-> << <<Raw(<<32, 1, 13, 184, 0, 0, 0, 0, 0, 0, 0, 0, 0, 0, 0, 1>>)>>,
                        <<Raw(<<32, 1, 13, 184, 0, 0, 0, 0, 0, 0, 0, 0, 0, 0, 0, 0>>)>> >>],
  \* unknown type: RDATA order, not (length, RDATA) order; empty RDATA
  [t |-> 65280, rds |-> << <<Raw(<<2>>)>>, <<Raw(<<1, 1>>)>> >>],
  [t |-> 65280, rds |-> << <<>>, <<Raw(<<0>>)>> >>] }

\* the RRsets every key signs: several A, MX (names in the RDATA), NSEC
RdSmall == {rs \in RdSets : rs.t \in {15, 47} \/ (rs.t = 1 /\ Len(rs.rds) = 3)}

MkRrs(owner, rs, ttl) ==
  [i \in 1..Len(rs.rds) |-> [owner |-> owner, type |-> rs.t, class |-> 1, ttl |-> ttl, rd |-> rs.rds[i]]]

--------------------------------------------------------------------------
VARIABLES key, keyOwner, kroute, orig, sig0,   \* what was signed, with which key, and the signer's RRSIG fields
          cur, sig,                      \* what the validator sees
          vkalg,                         \* the Algorithm field of the DNSKEY the validator uses
          sigflip, keyflip, compress,    \* signature / key bit flipped; passed through a compressed message
          conv,                          \* representation conversion applied to RRs, RRSIG and key
          nops, altered, last
vars == <<key, keyOwner, kroute, orig, sig0, cur, sig, vkalg, sigflip, keyflip, compress, conv, nops, altered, last>>

Init ==
  \E o \in Owners, rs \in RdSets, kk \in Keys, tm \in Times, ttl \in Ttls :
     /\ kk.wide \/ (rs \in RdSmall /\ ((Thorough /\ ~Big(kk.k)) \/ o \in OwnersSmall))
     /\ key = kk.k /\ keyOwner = kk.owner /\ kroute = kk.route /\ vkalg = kk.k.alg
     /\ orig = MkRrs(o, rs, ttl)
     /\ sig0 = SignerFields(kk.k, kk.owner, orig, tm.inc, tm.exp)
     /\ cur = orig /\ sig = sig0
     /\ sigflip = FALSE /\ keyflip = FALSE /\ compress = FALSE /\ conv = "none"
     /\ nops = 0 /\ altered = FALSE /\ last = "Sign"

Same == UNCHANGED <<key, keyOwner, kroute, orig, sig0>>
CanT == ~altered /\ nops < (IF Big(key) /\ ~Thorough THEN 1 ELSE MaxT)
T(name) == /\ nops' = nops + 1 /\ last' = name /\ Same
           /\ UNCHANGED <<altered, sigflip, keyflip, vkalg>>

(* resolver-side transforms *)
Permute ==
  /\ CanT /\ Len(cur) >= 2
  /\ \/ cur' = Tail(cur) \o <<Head(cur)>>
     \/ cur' = <<cur[2], cur[1]>> \o SubSeq(cur, 3, Len(cur))
  /\ UNCHANGED <<sig, compress, conv>> /\ T("Permute")

Recase ==
  /\ CanT
  /\ \/ cur' = [i \in 1..Len(cur) |-> [cur[i] EXCEPT !.owner = UpperName(@)]] /\ sig' = sig
     \/ cur' = [cur EXCEPT ![1].owner = IF @ = UpperName(@) THEN LowerName(@) ELSE UpperName(@)] /\ sig' = sig
     \/ cur' = cur /\ sig' = [sig EXCEPT !.signer = IF @ = UpperName(@) THEN LowerName(@) ELSE UpperName(@)]
  /\ <<cur', sig'>> # <<cur, sig>>
  /\ UNCHANGED <<compress, conv>> /\ T("Recase")

DecTtl ==
  /\ CanT
  /\ \E d \in {1, cur[1].ttl} :
        /\ d > 0 /\ d <= cur[1].ttl
        /\ cur' = [i \in 1..Len(cur) |-> [cur[i] EXCEPT !.ttl = @ - d]]
  /\ UNCHANGED <<sig, compress, conv>> /\ T("DecTtl")

QNames == {<<<<120>>>>, <<<<89>>, <<120>>>>}          \* x   and   Y.x
ExpandWildcard ==
  /\ CanT
  /\ IsWildcard(cur[1].owner) /\ Len(cur[1].owner) = sig.labels + 1
  /\ \E q \in QNames :
        cur' = [i \in 1..Len(cur) |-> [cur[i] EXCEPT !.owner = q \o Suffix(@, sig.labels)]]
  /\ UNCHANGED <<sig, compress, conv>> /\ T("ExpandWildcard")

Compress ==
  /\ CanT /\ ~compress
  /\ compress' = TRUE
  /\ UNCHANGED <<cur, sig, conv>> /\ T("Compress")

\* The values change representation, not content: RRs and RRSIG are read out
\* of a message as parsed records and flattened into owned ones
\* ("flatten"), or converted between octets types ("octets": OctetsFrom /
\* octets_into of records, Rrsig, Dnskey), or parsed and converted as the
\* specific record data types ("typed": Dnskey / Ds / Nsec / Rrsig /
\* ProtoRrsig with their own ParseRecordData, OctetsFrom, FlattenInto,
\* convert), or the owner names arrive as a relative name chained to an
\* origin ("chain": ToRelativeName::chain / chain_root).  Every field stays
\* what it was.
Convert ==
  /\ CanT /\ conv = "none"
  /\ conv' \in {"flatten", "octets", "typed", "chain"}
  /\ UNCHANGED <<cur, sig, compress>> /\ T("Convert")

(* alterations: exactly one, then the behaviour ends *)
\* (quick tier: not on top of the "typed" / "chain" representations)
CanA == ~altered /\ nops <= (IF Big(key) /\ ~Thorough THEN 0 ELSE AltDepth)
        /\ (Thorough \/ conv \notin {"typed", "chain"})
Alt(name) == /\ altered' = TRUE /\ last' = name /\ nops' = nops + 1 /\ Same
             /\ UNCHANGED <<compress, conv>>

AltRdata ==
  /\ CanA
  /\ \E i \in {1, Len(cur)} :
        /\ cur' = [cur EXCEPT ![i].rd = AltRd(cur[i].type, @)]
        /\ NoDuplicates(cur')
  /\ UNCHANGED <<sig, sigflip, keyflip, vkalg>> /\ Alt("AltRdata")

AltOwner ==       \* a label that is covered by the Labels field
  /\ CanA /\ sig.labels >= 1 /\ Len(cur[1].owner) >= 1
  /\ cur' = [i \in 1..Len(cur) |-> [cur[i] EXCEPT !.owner = AltNameAt(@, Len(@))]]
  /\ UNCHANGED <<sig, sigflip, keyflip, vkalg>> /\ Alt("AltOwner")

AltClass ==
  /\ CanA
  /\ cur' = [i \in 1..Len(cur) |-> [cur[i] EXCEPT !.class = 3]]
  /\ UNCHANGED <<sig, sigflip, keyflip, vkalg>> /\ Alt("AltClass")

AltSigField ==
  /\ CanA
  /\ \/ sig' = [sig EXCEPT !.tc = IF @ = 1 THEN 28 ELSE 1] /\ last' = "AltTypeCovered"
     \/ sig' = [sig EXCEPT !.alg = SiblingAlg(@)] /\ last' = "AltAlgorithm"
     \/ sig' = [sig EXCEPT !.labels = @ + 1] /\ last' = "AltLabels"
     \/ sig.labels >= 1 /\ sig' = [sig EXCEPT !.labels = @ - 1] /\ last' = "AltLabels"
     \/ sig' = [sig EXCEPT !.ottl = IF @ = 2147483647 THEN 0 ELSE @ + 1] /\ last' = "AltOrigTtl"
     \/ sig' = [sig EXCEPT !.inc[4] = (@ + 1) % 256] /\ last' = "AltInception"
     \/ sig' = [sig EXCEPT !.exp[1] = (@ + 128) % 256] /\ last' = "AltExpiration"
     \/ sig' = [sig EXCEPT !.tag = (@ + 1) % 65536] /\ last' = "AltKeyTag"
     \/ sig' = [sig EXCEPT !.signer = IF @ = <<>> THEN <<<<113>>>> ELSE AltNameAt(@, 1)] /\ last' = "AltSigner"
     \/ sig' = [sig EXCEPT !.signer = <<<<113>>>> \o @] /\ last' = "AltSigner"
  /\ altered' = TRUE /\ nops' = nops + 1 /\ Same
  /\ UNCHANGED <<cur, sigflip, keyflip, vkalg, compress, conv>>

DropRR ==
  /\ CanA /\ Len(cur) >= 2
  /\ \/ cur' = Tail(cur)
     \/ cur' = SubSeq(cur, 1, Len(cur) - 1)
  /\ UNCHANGED <<sig, sigflip, keyflip, vkalg>> /\ Alt("DropRR")

AddRR ==
  /\ CanA
  /\ cur' = Append(cur, [cur[1] EXCEPT !.rd = AltRd(cur[1].type, @)])
  /\ NoDuplicates(cur')
  /\ UNCHANGED <<sig, sigflip, keyflip, vkalg>> /\ Alt("AddRR")

AltSigBit ==
  /\ CanA /\ sigflip' = TRUE
  /\ UNCHANGED <<cur, sig, keyflip, vkalg>> /\ Alt("AltSigBit")

AltKeyBit ==
  /\ CanA /\ keyflip' = TRUE
  /\ UNCHANGED <<cur, sig, sigflip, vkalg>> /\ Alt("AltKeyBit")

\* the same public key octets published under another algorithm number
AltKeyAlg ==
  /\ CanA /\ vkalg' = SiblingAlg(vkalg)
  /\ UNCHANGED <<cur, sig, sigflip, keyflip>> /\ Alt("AltKeyAlg")

Next == \/ Permute \/ Recase \/ DecTtl \/ ExpandWildcard \/ Compress \/ Convert
        \/ AltRdata \/ AltOwner \/ AltClass \/ AltSigField \/ DropRR \/ AddRR
        \/ AltSigBit \/ AltKeyBit \/ AltKeyAlg

Spec == Init /\ [][Next]_vars

--------------------------------------------------------------------------
(* The property *)

Signed == SignerOctets(sig0, orig)                 \* what the signer signs
SigT == IF sigflip THEN [op |-> "flip", of |-> SignTerm(key, Signed)] ELSE SignTerm(key, Signed)
VKey == [key EXCEPT !.alg = vkalg]
KeyT == IF keyflip THEN [op |-> "flip", of |-> VKey] ELSE VKey
Verifies == Verify(SigT, KeyT, ValidatorOctets(sig, cur))

\* signer transcription, validator transcription and RFC text agree on what
\* was signed (and the input has no duplicate RRs, as SortedRecords ensures)
SignerValidatorAgree ==
  /\ NoDuplicates(orig)
  /\ Signed = SignedData(sig0, orig)
  /\ ValidatorOctets(sig0, orig) = SignedData(sig0, orig)
  /\ sig0.labels <= Len(orig[1].owner)              \* RFC 4034 3.1.3
  /\ sig0.alg = key.alg /\ key.alg \in SignAlgs
  \* a key the signer signs with is a key the validator takes (sizes included)
  /\ SignerAccepts(key) /\ ValidatorAccepts(key)
\* the validator transcription is the RFC construction on whatever arrives
ValidatorIsRfc == NoDuplicates(cur) => ValidatorOctets(sig, cur) = SignedData(sig, cur)
TransformsPreserveSignedData ==
  ~altered => ValidatorOctets(sig, cur) = Signed /\ Verifies
AlterationsChangeSignedData ==
  altered => ~Verifies /\ ((~sigflip /\ ~keyflip /\ vkalg = key.alg) => ValidatorOctets(sig, cur) # Signed)
KeyTagRange == sig0.tag \in 0..65535

--------------------------------------------------------------------------
(* S->I: every state is a case *)
Emit == PrintT("CASE " \o ToJson(
  [in  |-> [kind |-> "rrsig", key |-> key, keyOwner |-> keyOwner, kroute |-> kroute, vkalg |-> vkalg,
            inc |-> sig0.inc, exp |-> sig0.exp, orig |-> orig, cur |-> cur, sig |-> sig,
            sig0 |-> sig0, sigflip |-> sigflip, keyflip |-> keyflip, compress |-> compress, conv |-> conv,
            last |-> last],
   exp |-> [sig0 |-> sig0, signer |-> Signed, validator |-> ValidatorOctets(sig, cur),
            prefix |-> SigPrefix(sig), siglen |-> SigLen(key), verify |-> Verifies]]))

--------------------------------------------------------------------------
(* Key tags and DS digests: separate enumeration, evaluated in the single  *)
(* state where nothing has happened yet for the first menu entry           *)
KtPubs == {<<>>, <<1>>, <<255, 255>>, <<1, 2, 3>>, <<255, 254, 253, 252>>,
           [i \in 1..64 |-> 255], [i \in 1..65 |-> 255], [i \in 1..132 |-> (i * 37) % 256],
           [i \in 1..260 |-> 255], [i \in 1..259 |-> 250 + (i % 6)]}
KtKeys == {k \in [flags : {0, 128, 256, 257, 384, 385, 65535}, proto : {3, 255}, alg : {1, 8, 13, 15, 255}, pub : KtPubs] :
             k.alg = 1 => Len(k.pub) >= 3}      \* B.1 is undefined for shorter keys
\* key sizes: well-formed keys of every algorithm (RSA moduli with every
\* number of leading zero bits, one- and three-octet exponent lengths) and
\* RSA keys that are cut short (no size: an error, RFC 3110 2)
Mod(n, first) == [i \in 1..n |-> IF i = 1 THEN first ELSE (i * 29) % 256]
KsPubsRsa == {<<1, 3>> \o Mod(64, 2 ^ (k - 1)) : k \in 1..8}
             \cup {<<3, 1, 0, 1>> \o Mod(128, 255), <<3, 1, 0, 1>> \o Mod(256, 129), <<1, 3, 1>>,
                   <<0, 1, 0>> \o Mod(256, 1) \o Mod(129, 77), <<4, 1, 0, 0, 1>> \o Mod(512, 255)}
KsPubsBad == {<<>>, <<0>>, <<0, 1>>, <<3>>, <<3, 1, 0>>, <<3, 1, 0, 1>>, <<0, 1, 0>> \o Mod(256, 1)}
KsKeys == [flags : {256}, proto : {3}, alg : {5, 7, 8, 10}, pub : KsPubsRsa \cup KsPubsBad]
          \cup [flags : {257}, proto : {3}, alg : {13}, pub : {Pub(64, 3)}]
          \cup [flags : {257}, proto : {3}, alg : {14}, pub : {Pub(96, 5)}]
          \cup [flags : {257}, proto : {3}, alg : {15}, pub : {Pub(32, 9)}]
          \cup [flags : {257}, proto : {3}, alg : {16}, pub : {Pub(57, 11)}]
\* RSA public key layout: exponents and moduli with and without leading
\* zero octets, exponents of 255 / 256 octets (one- / three-octet length)
\* ... and both at the limits of RFC 3110 2 (1 .. 4096 bits, i.e. 1 .. 512
\* octets): exponents of 1, 3, 4, 255, 256 (first three-octet length), 511,
\* 512 and 513 octets, moduli of 64, 65, 128, 256, 511, 512, 513 octets
RsaEs == {<<3>>, <<1, 0, 1>>, <<0, 0, 1, 0, 1>>, Mod(255, 1), Mod(256, 1), <<0>> \o Mod(256, 255),
          <<1, 0, 0, 1>>, Mod(511, 3), Mod(512, 129), <<0>> \o Mod(512, 1), Mod(513, 1)}
RsaNs == {Mod(128, 200), <<0, 0>> \o Mod(128, 1), Mod(256, 255), Mod(127, 9), Mod(512, 128),
          Mod(64, 255), Mod(65, 1), Mod(511, 255), Mod(512, 1), <<0>> \o Mod(512, 255), Mod(513, 1), Mod(513, 128)}
\* public key fields as they may arrive (not necessarily made by rsa_encode):
\* sizes at and beyond the limits on both parts, one- and three-octet
\* length forms, prohibited leading zero octets, for every RSA algorithm
\* number; and the well-formed keys of the other algorithms
KaPubs == {RsaEncode(e, n) : e \in {<<3>>, <<1, 0, 1>>, Mod(256, 1), Mod(512, 129), Mod(513, 1)},
                             n \in {Mod(64, 255), Mod(127, 9), Mod(128, 200), Mod(256, 255), Mod(511, 255),
                                    Mod(512, 1), Mod(512, 128), Mod(512, 255), Mod(513, 1), Mod(513, 128)}}
          \cup {<<1, 0>> \o Mod(256, 255), <<1, 3, 0>> \o Mod(255, 255), <<0, 0, 3, 1, 0, 1>> \o Mod(256, 255),
                <<0, 1, 0>> \o Mod(256, 1), <<3, 1, 0, 1>>, <<>>}
KaKeys == [flags : {256}, proto : {3}, alg : {5, 7, 8, 10}, pub : KaPubs]
          \cup {k \in KsKeys : k.alg \notin RsaAlgs}
DsOwners == {<<>>, <<ex>>, <<A, eX>>, <<Star, Ex>>}
First == nops = 0 /\ orig[1].owner = <<ex>> /\ orig[1].type = 6 /\ key.alg = 15
         /\ sig0.inc = <<0, 0, 0, 0>> /\ orig[1].ttl = 3600 /\ keyOwner = <<ex>>
EmitKeys == First =>
  /\ \A k \in KtKeys : PrintT("CASE " \o ToJson(
        [in |-> [kind |-> "keytag", key |-> k],
         exp |-> [tag |-> KeyTag(k), flags |-> k.flags, zone |-> IsZoneKey(k.flags),
                  revoked |-> IsRevoked(k.flags), sep |-> IsSep(k.flags)]]))
  /\ \A k \in KsKeys : PrintT("CASE " \o ToJson(
        [in |-> [kind |-> "keysize", key |-> k],
         exp |-> [size |-> IF KeyWellFormed(k) THEN KeySize(k) ELSE -1],
         dev |-> [D_key_size_panic |-> [panic |-> TRUE]]]))
  /\ \A e \in RsaEs : \A n \in RsaNs : \A min \in {128, 256} : PrintT("CASE " \o ToJson(
        [in |-> [kind |-> "rsa", e |-> e, n |-> n, min |-> min],
         exp |-> IF RsaInRange(e, n)
                 THEN [pub |-> RsaEncode(e, n), e |-> TrimZeros(e), n |-> TrimZeros(n),
                       ok |-> Len(TrimZeros(n)) >= min]
                 ELSE [pub |-> RsaEncode(e, n), malformed |-> TRUE]]))
  /\ \A k \in KaKeys : PrintT("CASE " \o ToJson(
        [in |-> [kind |-> "keyaccept", key |-> k],
         exp |-> [accept |-> ValidatorAccepts(k)]]))
  /\ \A x \in 0..255 : PrintT("CASE " \o ToJson(
        [in |-> [kind |-> "alg", alg |-> x, pub |-> <<1, 3>> \o Mod(128, 200)],
         exp |-> [verifiable |-> x \in VerifyAlgs, signable |-> x \in SignAlgs, claim_sound |-> TRUE]]))
  /\ \A o \in DsOwners : \A kk \in Keys : \A d \in {1, 2, 4} : PrintT("CASE " \o ToJson(
        [in |-> [kind |-> "ds", owner |-> o, key |-> kk.k, dt |-> d,
                 term |-> DsDigest(o, kk.k, d)],
         exp |-> [match |-> TRUE]]))
B6Pub == <<1, 3, 178, 213, 182, 85, 190, 147, 234, 134, 14, 35, 236, 66, 104, 51, 218, 200, 221, 153, 178, 19, 29, 142, 204, 48, 85, 173, 156, 191, 150, 242, 57, 9, 7, 143, 197, 113, 217, 75, 136, 188, 116, 3, 71, 224, 53, 247, 181, 177, 232, 151, 173, 94, 147, 193, 5, 49, 203, 6, 95, 18, 156, 136, 145, 71, 202, 25, 125, 224, 47, 141, 192, 130, 208, 119, 59, 20, 149, 33, 104, 188, 22, 108, 202, 95, 205, 95, 172, 132, 110, 220, 63, 196, 223, 89, 53, 202, 219, 98, 248, 35, 141, 159, 212, 84, 246, 72, 201, 33, 77, 178, 1, 24, 190, 29, 51, 219, 158, 54, 151, 51, 10, 71, 128, 225, 242, 230, 95, 125>>
B6Sig == <<56, 194, 188, 172, 6, 101, 122, 151, 243, 45, 101, 187, 228, 60, 93, 235, 120, 242, 219, 11, 48, 17, 44, 241, 12, 161, 182, 127, 208, 12, 55, 80, 178, 180, 39, 117, 209, 198, 8, 72, 12, 95, 1, 219, 215, 73, 158, 241, 186, 50, 128, 180, 246, 220, 182, 243, 144, 218, 135, 206, 236, 6, 73, 249, 221, 53, 17, 231, 144, 77, 80, 79, 171, 143, 250, 40, 37, 161, 169, 237, 151, 78, 57, 228, 84, 179, 111, 190, 25, 220, 210, 237, 188, 106, 132, 172, 27, 79, 184, 34, 123, 228, 144, 225, 228, 156, 172, 112, 226, 69, 245, 240, 195, 17, 223, 136, 188, 148, 45, 250, 73, 30, 113, 6, 120, 188, 188, 114>>
B6Exp == <<64, 158, 122, 35>>
B6Inc == <<64, 118, 237, 35>>
B6Example == <<101, 120, 97, 109, 112, 108, 101>>
B6Owner == <<<<97>>, <<122>>, <<119>>, B6Example>>
B6Mx == <<Raw(<<0, 1>>), Nm(<<<<97, 105>>, B6Example>>)>>
\* RFC 4035 B.6: the MX RRset of *.w.example expanded to a.z.w.example, signed
\* with RSA/SHA-1 (the ring backend verifies but cannot sign this algorithm).
\* The model builds the signed octets; the executor checks the RFC's
\* signature over them with the library, for the key as published and for
\* the same key with its Algorithm field set to every other number.
B6Key == [flags |-> 256, proto |-> 3, alg |-> 5, pub |-> B6Pub]
B6Rrs == << [owner |-> B6Owner, type |-> 15, class |-> 1, ttl |-> 3600, rd |-> B6Mx] >>
B6Fields == [tc |-> 15, alg |-> 5, labels |-> 2, ottl |-> 3600, exp |-> B6Exp, inc |-> B6Inc,
             tag |-> 38519, signer |-> <<B6Example>>]
B6Data == SignedData(B6Fields, B6Rrs)
VectorLaws == First =>
  /\ KeyTag(B6Key) = 38519
  /\ ValidatorOctets(B6Fields, B6Rrs) = B6Data
  /\ \A x \in 0..255 :
        Verify(SignTerm(B6Key, B6Data), [B6Key EXCEPT !.alg = x], B6Data) <=> x = 5
EmitVectors == First =>
  \A x \in 0..255 : PrintT("CASE " \o ToJson(
     [in  |-> [kind |-> "vector", key |-> [B6Key EXCEPT !.alg = x], rrs |-> B6Rrs, sig |-> B6Fields,
               signature |-> B6Sig, data |-> B6Data],
      exp |-> [data_ok |-> TRUE, verify |-> x = 5]]))
KeyTagLaws == First => \A k \in KtKeys : KeyTag(k) \in 0..65535
\* the RSA layout: encoding and splitting are inverse, encoded keys are well
\* formed, the size of a key is the bit length of its modulus
KeyLayoutLaws == First =>
  /\ \A e \in RsaEs : \A n \in RsaNs :
        LET p == RsaEncode(e, n)
        IN \* decode o encode = id exactly on the RFC range, reject outside
           /\ RsaWellFormed(p) <=> RsaInRange(e, n)
           /\ RsaInRange(e, n) =>
                 /\ RsaExp(p) = TrimZeros(e) /\ RsaMod(p) = TrimZeros(n)
                 /\ KeySize([alg |-> 8, pub |-> p]) \in (8 * Len(TrimZeros(n)) - 7)..(8 * Len(TrimZeros(n)))
  \* both limits occur on both sides of the line
  /\ \E e \in RsaEs : Len(e) = 512 /\ e[1] # 0
  /\ \E n \in RsaNs : Len(n) = 512 /\ n[1] # 0
  /\ \E e \in RsaEs : Len(TrimZeros(e)) = 513
  /\ \E n \in RsaNs : Len(TrimZeros(n)) = 513
  \* a public key field is accepted iff it is what rsa_encode makes of an
  \* exponent and a modulus in range (of at least the backend's minimum)
  /\ \A k \in KaKeys : k.alg \in RsaAlgs =>
        (ValidatorAccepts(k) <=>
           /\ RsaWellFormed(k.pub) /\ RsaEncode(RsaExp(k.pub), RsaMod(k.pub)) = k.pub
           /\ Len(RsaMod(k.pub)) \in VerifyMinModOctets..512)
  /\ \E k \in KaKeys : ValidatorAccepts(k) /\ k.alg = 8 /\ Len(RsaMod(k.pub)) = 512
  /\ \E k \in KaKeys : ~ValidatorAccepts(k) /\ k.alg = 8 /\ Len(k.pub) > 513
  /\ \A p \in KsPubsRsa : RsaWellFormed(p) /\ RsaEncode(RsaExp(p), RsaMod(p)) = p
  /\ \A p \in KsPubsBad : ~RsaWellFormed(p)
  /\ SignAlgs \subseteq VerifyAlgs /\ \A x \in VerifyAlgs : SiblingAlg(x) # x
=============================================================================
