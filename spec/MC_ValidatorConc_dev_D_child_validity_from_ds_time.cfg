CONSTANTS
  Procs = {1, 2}
  Qs = {"zone"}
  Runs = 1
  MaxNow = 4
  Budget = 1
  AdvKinds = {"Short"}
  Dev = {"D_child_validity_from_ds_time"}
  Mut = {}
  Atomic = FALSE
SPECIFICATION Spec
INVARIANT NoStaleHit
CHECK_DEADLOCK TRUE
