CONSTANTS
  Dev = {}
SPECIFICATION TSpec
INVARIANT NoPanic
POSTCONDITION Accepted
CHECK_DEADLOCK FALSE
