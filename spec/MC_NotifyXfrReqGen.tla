------------------------- MODULE MC_NotifyXfrReqGen -------------------------
(* S->I generator for NotifyXfrReq.tla: one CASE per (configuration,       *)
(* request) of the grid with the specified outcome `exp`, the outcome under *)
(* each open deviation where it differs (`dev`), and -- where the           *)
(* specification admits several outcomes -- the alternatives (`in.alts`).   *)
(* The set of open deviations comes from the environment (X05_<name>).      *)
EXTENDS MC_NotifyXfrReq, Json, IOUtils

Open == {d \in AllDevs : ("X05_" \o d) \in DOMAIN IOEnv}

VARIABLES gphase, gcfg
gvars == <<gphase, gcfg, cfg, req, phase, cb, pv, nx, rs>>

AllCfgs == {x[1] : x \in Grid}
GInit == gphase = "start" /\ gcfg = NoCfg /\ Init
GNext == /\ \/ gphase = "start" /\ \E c \in AllCfgs : gcfg' = c /\ gphase' = "sel"
            \/ gphase = "sel" /\ gphase' = "emit" /\ UNCHANGED gcfg
         /\ UNCHANGED vars
GSpec == GInit /\ [][GNext]_gvars

RECURSIVE DevMap(_, _, _, _)
\* single deviations under which the outcome differs from the ideal
DevMap(c, r, ideal, ds) ==
  IF ds = {} THEN <<>>
  ELSE LET d == CHOOSE x \in ds : TRUE
           o == DecideD(c, r, {d})
           rest == DevMap(c, r, ideal, ds \ {d})
       IN IF o = ideal THEN rest ELSE (d :> o) @@ rest

Case(c, r) ==
  LET ideal == DecideD(c, r, {})
      full == DecideD(c, r, Open)
      \* (when the as-built outcome is the ideal one no deviation is listed)
      singles == IF full = ideal THEN <<>> ELSE DevMap(c, r, ideal, Open)
      known == {ideal} \cup {singles[d] : d \in DOMAIN singles}
      \* the as-built outcome needs several deviations at once: attribute it
      \* to one that has no entry of its own and that matters
      cands == {d \in Open : d \notin DOMAIN singles /\ DecideD(c, r, Open \ {d}) # full}
      dm == IF full \in known THEN singles
            ELSE IF cands = {} THEN Assert(FALSE, <<"unattributable combination", c, r>>)
            ELSE ((CHOOSE d \in cands : TRUE) :> full) @@ singles
      alts == IF NotifyRelevant(r, {}) THEN NotifyAlts(c, r) ELSE <<>>
      inp == [kind |-> "call", cfg |-> c, req |-> r]
      inp2 == IF alts = <<>> THEN inp ELSE inp @@ [alts |-> alts, ideal |-> ideal]
      base == [in |-> inp2, exp |-> ideal]
  IN IF dm = <<>> THEN base ELSE base @@ [dev |-> dm]

Emit == gphase = "emit" =>
          \A x \in {y \in Grid : y[1] = gcfg} : PrintT("CASE " \o ToJson(Case(x[1], x[2])))
=============================================================================
