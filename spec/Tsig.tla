-------------------------------- MODULE Tsig --------------------------------
(***************************************************************************)
(* TSIG (RFC 8945) as implemented by /repo/src/tsig/mod.rs.                *)
(*                                                                         *)
(* Three layers, all pure operators (the state machines that use them are  *)
(* MC_Tsig.tla - exhaustive exploration and S->I generation - and          *)
(* Trace_Tsig.tla - validation of recorded runs):                          *)
(*                                                                         *)
(*  1. LAYOUT (declarative, RFC 8945 4.3 / 5.3): what is fed to HMAC.      *)
(*       DigestReq    = MsgSansTsig | Vars                                 *)
(*       DigestResp   = Len16(priorMac) | priorMac | MsgSansTsig | Vars    *)
(*       DigestSubseq = Len16(priorMac) | priorMac | unsigned msgs ...     *)
(*                      | MsgSansTsig | Timers                             *)
(*     priorMac is the MAC *as transmitted* (truncated).                   *)
(*  2. SYMBOLIC CRYPTO: HMAC is a free constructor.  A MAC table holds one *)
(*     entry [alg, sec, data, full] per distinct signing; verification is  *)
(*     a table lookup (unknown data => unknown MAC => mismatch).  In the   *)
(*     model-checking layer `full' consists of pseudo-octets               *)
(*     10000 + 100*j + i (octet i of table entry j) which the harness      *)
(*     evaluates with ring::hmac; in the trace layer it is real octets.    *)
(*  3. TRANSCRIPTIONS of ClientTransaction / ClientSequence /              *)
(*     ServerTransaction / ServerSequence / ServerError::build_message     *)
(*     with their rolling HMAC context (`ctx' = the octets fed so far).    *)
(*                                                                         *)
(* Octet sequences are sequences of integers.  0..255 are real octets;     *)
(* larger integers are *pseudo-octets* standing for a block of real octets *)
(* that TLC never needs to look into (message bodies, section counts, MAC  *)
(* octets).  All operators work unchanged on fully concrete octets.        *)
(*                                                                         *)
(* A message is [hdr, body, recs]: hdr = id(2) flags(2) counts ar(2) where *)
(* counts is 6 real octets or 1 pseudo-octet; body = everything after the  *)
(* header up to the records the adversary/TSIG code appends; recs = the    *)
(* trailing additional records, each [ty \in {"tsig","other"}, ...].       *)
(*                                                                         *)
(* Named deviations (DESIGN 2.6) in Dev:                                   *)
(*  D_server_seq_full_prior_mac  ServerSequence chains the untruncated tag *)
(*  D_badtime_other_8     digest of a BADTIME response feeds 8 octets of   *)
(*                        other-data (u64) where wire and RFC have 6       *)
(*  D_server_badsig_formerr  a MAC mismatch on a request is reported as    *)
(*                        TSIG error FORMERR instead of BADSIG             *)
(*  D_server_error_panic  ServerError::build_message panics when the TSIG  *)
(*                        of the request is misplaced / duplicated         *)
(*  D_other_not6_unsigned other-data whose length is not 0 or 6 is accepted *)
(*                        and left out of the digest (other-len signed 0)  *)
(*  D_tsig_class_ttl_unchecked  CLASS / TTL of a received TSIG RR are not  *)
(*                        looked at (RFC 8945 4.2: MUST be ANY / 0; 4.3.3: *)
(*                        both are digest input): a record with another    *)
(*                        class or TTL verifies                            *)
(*                                                                         *)
(* Spec-level mutants (never open deviations; the check switches them on   *)
(* to show that the invariants of MC_TsigKeys / MC_Tsig notice them):      *)
(*  M_len_floor_min       key lengths admitted from min(10, native/2)      *)
(*  M_alg_first_label     an algorithm name is recognised by its first     *)
(*                        label alone                                      *)
(***************************************************************************)
EXTENDS Octets, FiniteSets

CONSTANT Dev

--------------------------------------------------------------------------
(* Constants of the protocol *)

Algs == {"sha1", "sha256", "sha384", "sha512"}
Native(a) == CASE a = "sha1" -> 20 [] a = "sha256" -> 32
               [] a = "sha384" -> 48 [] a = "sha512" -> 64
\* wire format of the algorithm names ("hmac-sha1." ...)
HmacDash == <<104, 109, 97, 99, 45>>
AlgLabel(a) ==
  CASE a = "sha1"   -> HmacDash \o <<115, 104, 97, 49>>
    [] a = "sha256" -> HmacDash \o <<115, 104, 97, 50, 53, 54>>
    [] a = "sha384" -> HmacDash \o <<115, 104, 97, 51, 56, 52>>
    [] a = "sha512" -> HmacDash \o <<115, 104, 97, 53, 49, 50>>
    [] OTHER        -> HmacDash \o <<109, 100, 53>>                    \* hmac-md5: not supported
\* a name from its labels
RECURSIVE NameOf(_)
NameOf(ls) == IF ls = <<>> THEN <<0>> ELSE <<Len(Head(ls))>> \o Head(ls) \o NameOf(Tail(ls))
AlgWire(a) == NameOf(<<AlgLabel(a)>>)
AlgKnown(w) == \E a \in Algs : AlgWire(a) = w
AlgOfWire(w) == CHOOSE a \in Algs : AlgWire(a) = w
\* first label of an (uncompressed) name
FirstLabel(w) == IF w = <<>> \/ w[1] = 0 \/ w[1] > 63 \/ w[1] + 1 > Len(w) THEN <<>> ELSE SubSeq(w, 2, w[1] + 1)

\* RFC 8945 6: the algorithm is identified by a domain name - the whole name.
\* Algorithm::from_name (octet-exact, as the library compares): "none" if the
\* name is not exactly the name of a supported algorithm
AlgFromName(w) ==
  IF "M_alg_first_label" \in Dev
  THEN (IF \E a \in Algs : AlgLabel(a) = FirstLabel(w) THEN CHOOSE a \in Algs : AlgLabel(a) = FirstLabel(w) ELSE "none")
  ELSE IF AlgKnown(w) THEN AlgOfWire(w) ELSE "none"
\* what the RFC admits for a name: domain names compare case-insensitively, so
\* another spelling of a supported name may be recognised or not; any other
\* name (more labels, fewer labels, another label) is not a supported algorithm
AlgFromNameRfc(w) ==
  IF AlgKnown(w) THEN {AlgOfWire(w)}
  ELSE IF AlgKnown(LowerSeq(w)) THEN {AlgOfWire(LowerSeq(w)), "none"}
  ELSE {"none"}
\* presentation format (FromStr / Display): the label without the root dot;
\* the absolute form "hmac-sha256." names the same domain name
Dot == 46
AlgFromStr(s) == IF \E a \in Algs : AlgLabel(a) = s THEN CHOOSE a \in Algs : AlgLabel(a) = s ELSE "none"
AlgFromStrRfc(s) ==
  LET rel == IF s # <<>> /\ s[Len(s)] = Dot THEN SubSeq(s, 1, Len(s) - 1) ELSE s
  IN IF \E a \in Algs : AlgLabel(a) = s THEN {AlgFromStr(s)}
     ELSE IF \E a \in Algs : AlgLabel(a) = LowerSeq(rel) THEN {AlgFromStr(LowerSeq(rel)), "none"}
     ELSE {"none"}

\* RFC 8945 5.2.2.1: a MAC may be truncated to no less than max(10, native/2)
RfcMinLen(a) == Max(10, Native(a) \div 2)
\* ... and the lengths a key may be configured with (Algorithm::within_len_bounds)
RfcLenOk(a, n) == n >= RfcMinLen(a) /\ n <= Native(a)
WithinLenBounds(a, n) ==
  IF "M_len_floor_min" \in Dev THEN n >= Min(10, Native(a) \div 2) /\ n <= Native(a)
  ELSE RfcLenOk(a, n)
\* Key::new / Key::generate -> calculate_bounds.  -1 = None (the native length)
KeyNewStep(a, minlen, slen) ==
  IF minlen # -1 /\ ~WithinLenBounds(a, minlen) THEN [res |-> "BadMinMacLen", minlen |-> 0, slen |-> 0]
  ELSE IF slen # -1 /\ ~WithinLenBounds(a, slen) THEN [res |-> "BadSigningLen", minlen |-> 0, slen |-> 0]
  ELSE [res |-> "Ok", minlen |-> IF minlen = -1 THEN Native(a) ELSE minlen,
                      slen |-> IF slen = -1 THEN Native(a) ELSE slen]

BADSIG == 16  BADKEY == 17  BADTIME == 18  BADTRUNC == 22  FORMERR == 1
NOTAUTH == 9
TsigErrName(e) == CASE e = 16 -> "BADSIG" [] e = 17 -> "BADKEY" [] e = 18 -> "BADTIME"
                    [] e = 22 -> "BADTRUNC" [] e = 1 -> "FORMERR" [] OTHER -> "OTHER"

\* times in the model are < 2^31.  SymTime is a pseudo-octet for "the six
\* octets of the Time Signed of the message being signed": the wrappers read
\* the real clock, the harness takes the value from the wire
SymTime == 6000
EncU48(t) == IF t = SymTime THEN <<SymTime>> ELSE <<0, 0>> \o EncU32(t)

--------------------------------------------------------------------------
(* Messages *)

HdrId(h) == U16At(h, 1)
HdrAr(h) == U16At(h, Len(h) - 1)
HdrRcode(h) == h[4] % 16
SetId(h, id) == EncU16(id) \o SubSeq(h, 3, Len(h))
SetAr(h, n) == SubSeq(h, 1, Len(h) - 2) \o EncU16(n)

\* A TSIG record is kept field by field, with what an adversary can do to its
\* structure: `name' / `alg' are names as on the wire (labels ended by the root
\* label or by a compression pointer <<192 + hi, lo>>), `cls' / `ttl' the CLASS
\* and TTL of the RR (ANY, 0), `rdx' octets that follow Other Data inside the
\* RDATA, `rdadj' what RDLENGTH says more (less) than the RDATA has, `oladj' what
\* Other Len says more than there is other-data.
TsigRdata(r) == r.alg \o EncU48(r.time) \o EncU16(r.fudge) \o EncU16(Len(r.mac)) \o r.mac
                \o EncU16(r.oid) \o EncU16(r.err) \o EncU16(Len(r.other) + r.oladj) \o r.other \o r.rdx
\* NAME, TYPE TSIG (250), CLASS ANY (255), TTL 0, RDLENGTH, RDATA
EncRec(r) == IF r.ty = "tsig"
             THEN r.name \o <<0, 250>> \o EncU16(r.cls) \o EncU32(r.ttl)
                  \o EncU16(Len(TsigRdata(r)) + r.rdadj) \o TsigRdata(r)
             ELSE r.raw
EncRecs(rs) == Concat([i \in 1..Len(rs) |-> EncRec(rs[i])])
Wire(m) == m.hdr \o m.body \o EncRecs(m.recs)

ANY == 255
MkTsig(name, algw, time, fudge, mac, oid, err, other) ==
  [ty |-> "tsig", name |-> name, alg |-> algw, time |-> time, fudge |-> fudge,
   mac |-> mac, oid |-> oid, err |-> err, other |-> other, raw |-> <<>>,
   cls |-> ANY, ttl |-> 0, rdx |-> <<>>, rdadj |-> 0, oladj |-> 0]
MkOther(raw) ==
  [ty |-> "other", name |-> <<>>, alg |-> <<>>, time |-> 0, fudge |-> 0,
   mac |-> <<>>, oid |-> 0, err |-> 0, other |-> <<>>, raw |-> raw,
   cls |-> 0, ttl |-> 0, rdx |-> <<>>, rdadj |-> 0, oladj |-> 0]

PushRec(m, r) == [m EXCEPT !.hdr = SetAr(@, HdrAr(@) + 1), !.recs = Append(@, r)]
\* remove_tsig: restore the ID, decrement ARCOUNT (the library leaves the
\* stale octets of the record behind the message; they are not part of it)
RemoveTsig(m, oid) ==
  [m EXCEPT !.hdr = SetAr(SetId(@, oid), HdrAr(@) - 1),
            !.recs = SubSeq(@, 1, Len(@) - 1)]

\* Name compression (RFC 1035 4.1.4).  s = the octets being walked (first the
\* name field, then the message w), i = position in s, base = offset of s[1] in
\* the message; a pointer must point to an earlier position.  <<>> = the name
\* cannot be expanded, otherwise labels + root label.
RECURSIVE ExpandFrom(_, _, _, _, _, _)
ExpandFrom(s, i, base, w, acc, fuel) ==
  IF fuel = 0 \/ i > Len(s) \/ s[i] > 255 THEN <<>>
  ELSE IF s[i] = 0 THEN Append(acc, 0)
  ELSE IF s[i] >= 192
       THEN IF i + 1 > Len(s) \/ s[i + 1] > 255 THEN <<>>
            ELSE LET t == (s[i] - 192) * 256 + s[i + 1]
                 IN IF t >= base + i - 1 THEN <<>> ELSE ExpandFrom(w, t + 1, 0, w, acc, fuel - 1)
  ELSE IF s[i] > 63 \/ i + s[i] > Len(s) THEN <<>>
  ELSE ExpandFrom(s, i + 1 + s[i], base, w, acc \o SubSeq(s, i, i + s[i]), fuel - 1)
NameExpand(n, w, off) == IF n # <<>> /\ n[Len(n)] = 0 /\ \A i \in 1..Len(n) : n[i] < 192
                         THEN ExpandFrom(n, 1, off, n, <<>>, 40)       \* no pointer: the message is not needed
                         ELSE ExpandFrom(n, 1, off, w, <<>>, 40)
\* the field must be exactly one name: labels up to the root label / the first pointer
RECURSIVE NameFieldEnd(_, _)
NameFieldEnd(n, i) == IF i > Len(n) THEN 0
                      ELSE IF n[i] = 0 THEN i
                      ELSE IF n[i] >= 192 THEN i + 1
                      ELSE IF n[i] > 63 THEN 0 ELSE NameFieldEnd(n, i + 1 + n[i])

RecOff(m, i) == Len(m.hdr) + Len(m.body) + Len(EncRecs(SubSeq(m.recs, 1, i - 1)))
\* owner and algorithm name of record i, expanded
KeyNameOf(m, i) == NameExpand(m.recs[i].name, Wire(m), RecOff(m, i))
AlgNameOf(m, i) == NameExpand(m.recs[i].alg, Wire(m), RecOff(m, i) + Len(m.recs[i].name) + 10)

\* MessageTsig::from_message: the first TSIG record must be interpretable -
\* its names expand, RDLENGTH / Other Len agree with the fields, CLASS is ANY
\* and TTL 0 (RFC 8945 4.2), other-data is empty or a 48-bit time (anything
\* else could not be represented in the signed variables) - and must be the
\* last record
TsigInterpretable(m, i) ==
  LET r == m.recs[i]
  IN /\ NameFieldEnd(r.name, 1) = Len(r.name) /\ KeyNameOf(m, i) # <<>>
     /\ NameFieldEnd(r.alg, 1) = Len(r.alg) /\ AlgNameOf(m, i) # <<>>
     /\ r.rdadj = 0 /\ r.rdx = <<>> /\ r.oladj = 0
     /\ ((r.cls = ANY /\ r.ttl = 0) \/ "D_tsig_class_ttl_unchecked" \in Dev)
     /\ (Len(r.other) \in {0, 6} \/ "D_other_not6_unsigned" \in Dev)
FromMessage(m) ==
  LET idx == {i \in 1..Len(m.recs) : m.recs[i].ty = "tsig"}
  IN IF idx = {} THEN "Missing"
     ELSE LET f == CHOOSE i \in idx : \A k \in idx : i <= k
          IN IF ~TsigInterpretable(m, f) THEN "Invalid"
             ELSE IF f # Len(m.recs) THEN "Position"
             ELSE "Found"
LastRec(m) == m.recs[Len(m.recs)]
\* names of the (found) TSIG record as the receiver reads them
LastKeyName(m) == KeyNameOf(m, Len(m.recs))
LastAlgName(m) == AlgNameOf(m, Len(m.recs))

--------------------------------------------------------------------------
(* 1. Layout (RFC 8945 4.3.1 - 4.3.3, 5.3.1) *)

\* the message as it was before the TSIG RR was added: original ID, ARCOUNT - 1
MsgSansTsig(m) ==
  LET t == LastRec(m)
  IN EncU16(t.oid) \o SubSeq(m.hdr, 3, Len(m.hdr) - 2) \o EncU16(HdrAr(m.hdr) - 1)
     \o m.body \o EncRecs(SubSeq(m.recs, 1, Len(m.recs) - 1))

\* TSIG variables: NAME (canonical), CLASS, TTL, Algorithm Name (canonical),
\* Time Signed, Fudge, Error, Other Len, Other Data - all as in the record
RfcVars(keyname, algw, t) ==
  LowerSeq(keyname) \o EncU16(t.cls) \o EncU32(t.ttl) \o LowerSeq(algw)
  \o EncU48(t.time) \o EncU16(t.fudge) \o EncU16(t.err) \o EncU16(Len(t.other)) \o t.other
RfcTimers(t) == EncU48(t.time) \o EncU16(t.fudge)
Len16(mac) == EncU16(Len(mac))

DigestReq(keyname, algw, m) == MsgSansTsig(m) \o RfcVars(keyname, algw, LastRec(m))
DigestResp(keyname, algw, prior, m) ==
  Len16(prior) \o prior \o MsgSansTsig(m) \o RfcVars(keyname, algw, LastRec(m))
DigestSubseq(prior, unsignedOcts, m) ==
  Len16(prior) \o prior \o unsignedOcts \o MsgSansTsig(m) \o RfcTimers(LastRec(m))

\* What a receiver that follows RFC 8945 4.3.3 to the letter feeds to HMAC for a
\* message it received: the TSIG variables are taken from the record as
\* received - owner name and algorithm name (expanded, canonical), CLASS, TTL,
\* times, error, other-data.  `ctx' = what precedes the message in the digest
\* (nothing for a request; Len16(prior MAC) | prior MAC [| unsigned messages]
\* for answers).  A changed field therefore always changes the digest.
RfcRecvDigest(ctx, m, timersOnly) ==
  ctx \o MsgSansTsig(m) \o (IF timersOnly THEN RfcTimers(LastRec(m))
                            ELSE RfcVars(LastKeyName(m), LastAlgName(m), LastRec(m)))

\* RFC 8945 5.2.3: now within [time - fudge, time + fudge]
TimeOk(now, time, fudge) == Max(now - fudge, 0) <= time /\ now + fudge >= time

--------------------------------------------------------------------------
(* 2. Symbolic HMAC: the MAC table *)

PseudoFull(j, alg) == [i \in 1..Native(alg) |-> 10000 + 100 * j + i]
Find(tbl, alg, sec, data) ==
  {j \in 1..Len(tbl) : tbl[j].alg = alg /\ tbl[j].sec = sec /\ tbl[j].data = data}
\* sign: reuse the entry if this very computation was done before
SignT(tbl, alg, sec, data, fullNew) ==
  LET f == Find(tbl, alg, sec, data)
  IN IF f # {} THEN LET j == CHOOSE j \in f : TRUE IN [tbl |-> tbl, j |-> j, full |-> tbl[j].full]
     ELSE [tbl |-> Append(tbl, [alg |-> alg, sec |-> sec, data |-> data, full |-> fullNew]),
           j |-> Len(tbl) + 1, full |-> fullNew]

\* `mac' is (a prefix of) the HMAC of `data' under the key
MacIsOf(tbl, alg, sec, data, mac) ==
  \E j \in Find(tbl, alg, sec, data) : Take(tbl[j].full, Len(mac)) = mac

\* Key::compare_signatures.  Data that was never signed has an unknown MAC.
CompareSig(tbl, key, data, provided) ==
  IF Len(provided) < key.minlen THEN "BadTrunc"
  ELSE LET f == Find(tbl, key.alg, key.sec, data)
       IN IF f = {} THEN "BadSig"
          ELSE LET full == tbl[CHOOSE j \in f : TRUE].full
                   exp == IF Len(provided) < Len(full) THEN Take(full, Len(provided)) ELSE full
               IN IF exp = provided THEN "Ok" ELSE "BadSig"

--------------------------------------------------------------------------
(* 3. Transcriptions.  key = [name, alg, sec, slen, minlen].               *)

\* Variables::sign / tsig.variables(): `other' is Option<Time48>
VarOther(other) == IF "D_other_not6_unsigned" \in Dev
                   THEN (IF Len(other) = 6 THEN other ELSE <<>>) ELSE other
VarsOcts(key, time, fudge, err, other) ==
  LowerSeq(key.name) \o <<0, 255>> \o <<0, 0, 0, 0>> \o AlgWire(key.alg)
  \o EncU48(time) \o EncU16(fudge) \o EncU16(err) \o EncU16(Len(VarOther(other)))
  \o (IF "D_badtime_other_8" \in Dev /\ Len(VarOther(other)) = 6
      THEN <<0, 0>> \o VarOther(other) ELSE VarOther(other))
TimersOcts(time, fudge) == EncU48(time) \o EncU16(fudge)

\* SigningContext::apply_signature
ApplySig(ctx, mac) == ctx \o EncU16(Len(mac)) \o mac

\* header (ID restored, ARCOUNT - 1) | message up to the start of the TSIG
SansOf(m) == MsgSansTsig(m)

\* ClientTransaction::request / ClientSequence::request
ClientRequestStep(key, m, now, fudge, tbl, fullNew) ==
  LET data == Wire(m) \o VarsOcts(key, now, fudge, 0, <<>>)
      s == SignT(tbl, key.alg, key.sec, data, fullNew)
      mac == Take(s.full, key.slen)
  IN [tbl |-> s.tbl, j |-> s.j, data |-> data, mac |-> mac,
      ctx |-> ApplySig(<<>>, mac),
      msg |-> PushRec(m, MkTsig(key.name, AlgWire(key.alg), now, fudge, mac, HdrId(m.hdr), 0, <<>>))]

\* SigningContext::server_request (single-key store)
\* result: res in Ok / Unsigned / FORMERR / BADKEY / BADSIG / BADTRUNC / BADTIME
ServerRequestStep(key, m, now, tbl) ==
  LET fm == FromMessage(m)
      NoCtx == [res |-> "", ctx |-> <<>>, msg |-> m, etime |-> 0, efudge |-> 0]
  IN IF fm = "Missing" THEN [NoCtx EXCEPT !.res = "Unsigned"]
     ELSE IF fm \in {"Position", "Invalid"} THEN [NoCtx EXCEPT !.res = "FORMERR"]
     ELSE LET t == LastRec(m)
              alg == AlgFromName(LastAlgName(m)) IN
       IF alg = "none" THEN [NoCtx EXCEPT !.res = "BADKEY"]
       \* KeyStore::get_key(owner, algorithm), single-key store
       ELSE IF ~(LowerSeq(LastKeyName(m)) = LowerSeq(key.name) /\ alg = key.alg)
            THEN [NoCtx EXCEPT !.res = "BADKEY"]
       ELSE LET data == SansOf(m) \o VarsOcts(key, t.time, t.fudge, t.err, t.other)
                c == CompareSig(tbl, key, data, t.mac)
            IN IF c = "BadTrunc" THEN [NoCtx EXCEPT !.res = "BADTRUNC"]
               ELSE IF c = "BadSig"
                    THEN [NoCtx EXCEPT !.res = IF "D_server_badsig_formerr" \in Dev
                                                THEN "FORMERR" ELSE "BADSIG"]
               ELSE IF ~TimeOk(now, t.time, t.fudge)
                    THEN [res |-> "BADTIME", ctx |-> ApplySig(<<>>, t.mac), msg |-> m,
                          etime |-> t.time, efudge |-> t.fudge]
               ELSE [res |-> "Ok", ctx |-> ApplySig(<<>>, t.mac), msg |-> RemoveTsig(m, t.oid),
                     etime |-> 0, efudge |-> 0]

\* ServerTransaction::answer
ServerAnswerStep(key, ctx, m, now, fudge, tbl, fullNew) ==
  LET data == ctx \o Wire(m) \o VarsOcts(key, now, fudge, 0, <<>>)
      s == SignT(tbl, key.alg, key.sec, data, fullNew)
      mac == Take(s.full, key.slen)
  IN [tbl |-> s.tbl, j |-> s.j, data |-> data, mac |-> mac, ctx |-> <<>>,
      msg |-> PushRec(m, MkTsig(key.name, AlgWire(key.alg), now, fudge, mac, HdrId(m.hdr), 0, <<>>))]

\* ServerSequence::answer
ServerSeqAnswerStep(key, ctx, first, m, now, fudge, tbl, fullNew) ==
  LET data == ctx \o Wire(m) \o (IF first THEN VarsOcts(key, now, fudge, 0, <<>>)
                                           ELSE TimersOcts(now, fudge))
      s == SignT(tbl, key.alg, key.sec, data, fullNew)
      mac == Take(s.full, key.slen)
      chained == IF "D_server_seq_full_prior_mac" \in Dev THEN s.full ELSE mac
  IN [tbl |-> s.tbl, j |-> s.j, data |-> data, mac |-> mac, ctx |-> ApplySig(<<>>, chained),
      msg |-> PushRec(m, MkTsig(key.name, AlgWire(key.alg), now, fudge, mac, HdrId(m.hdr), 0, <<>>))]

\* ServerError::build_message.  `resp' is the answer skeleton the caller's
\* builder.start_answer(req, NOTAUTH) yields (header + question).
\* unsigned error (RFC 8945 5.3.2): TSIG with the request's key and algorithm
\* names, empty MAC, the error; the RFC does not say which time values it
\* carries (the library copies the request's), so they are parameters
ServerErrUnsignedStep(req, resp, errcode, time, fudge) ==
  IF FromMessage(req) # "Found"
  THEN [panic |-> "D_server_error_panic" \in Dev, tsig |-> FALSE, msg |-> resp]
  ELSE LET t == LastRec(req)
       IN [panic |-> FALSE, tsig |-> TRUE,
           msg |-> PushRec(resp, [MkTsig(LastKeyName(req), LastAlgName(req), time, fudge, <<>>,
                                         HdrId(req.hdr), errcode, <<>>)
                                  EXCEPT !.cls = t.cls, !.ttl = t.ttl])]
\* signed error (BADTIME): other-data = server time
ServerErrSignedStep(key, ctx, resp, etime, efudge, now, tbl, fullNew) ==
  LET data == ctx \o Wire(resp) \o VarsOcts(key, etime, efudge, BADTIME, EncU48(now))
      s == SignT(tbl, key.alg, key.sec, data, fullNew)
      mac == Take(s.full, key.slen)
  IN [tbl |-> s.tbl, j |-> s.j, data |-> data, mac |-> mac,
      msg |-> PushRec(resp, MkTsig(key.name, AlgWire(key.alg), etime, efudge, mac,
                                   HdrId(resp.hdr), BADTIME, EncU48(now)))]

\* SigningContext::get_answer_tsig: "" = go on
AnswerTsigCheck(key, m) ==
  LET fm == FromMessage(m)
  IN IF fm = "Missing" THEN "Missing"
     ELSE IF fm \in {"Position", "Invalid"} THEN "FormErr"
     ELSE LET t == LastRec(m) IN
       IF HdrRcode(m.hdr) = NOTAUTH /\ t.err = BADKEY THEN "ServerBadKey"
       ELSE IF HdrRcode(m.hdr) = NOTAUTH /\ t.err = BADSIG THEN "ServerBadSig"
       \* Key::check_tsig: owner and algorithm name are compared as names
       ELSE IF ~(LowerSeq(LastKeyName(m)) = LowerSeq(key.name)
                 /\ LowerSeq(LastAlgName(m)) = LowerSeq(AlgWire(key.alg))) THEN "BadKey"
       ELSE ""
\* SigningContext::check_answer_time
AnswerTimeCheck(m, now) ==
  LET t == LastRec(m)
  IN IF HdrRcode(m.hdr) = NOTAUTH /\ t.err = BADTIME
     THEN (IF Len(t.other) = 6 THEN "ServerBadTime" ELSE "FormErr")
     ELSE IF ~TimeOk(now, t.time, t.fudge) THEN "BadTime" ELSE "Ok"

\* ClientTransaction::answer; the context is not consumed
ClientAnswerStep(key, ctx, m, now, tbl) ==
  LET pre == AnswerTsigCheck(key, m)
  IN IF pre = "Missing" THEN [res |-> "ServerUnsigned", msg |-> m]
     ELSE IF pre # "" THEN [res |-> pre, msg |-> m]
     ELSE LET t == LastRec(m)
              data == ctx \o SansOf(m) \o VarsOcts(key, t.time, t.fudge, t.err, t.other)
              c == CompareSig(tbl, key, data, t.mac)
          IN IF c # "Ok" THEN [res |-> c, msg |-> m]
             ELSE LET tc == AnswerTimeCheck(m, now)
                  IN IF tc # "Ok" THEN [res |-> tc, msg |-> m]
                     ELSE [res |-> "Ok", msg |-> RemoveTsig(m, t.oid)]

\* ClientSequence::answer; cs = [ctx, first, unsigned]
ClientSeqAnswerStep(key, cs, m, now, tbl) ==
  LET pre == AnswerTsigCheck(key, m)
  IN IF pre = "Missing"
     THEN (IF cs.first THEN [res |-> "ServerUnsigned", msg |-> m, cs |-> cs]
           ELSE IF cs.unsigned < 99
                THEN [res |-> "Ok", msg |-> m,
                      cs |-> [cs EXCEPT !.ctx = @ \o Wire(m), !.unsigned = @ + 1]]
                ELSE [res |-> "TooManyUnsigned", msg |-> m, cs |-> cs])
     ELSE IF pre # "" THEN [res |-> pre, msg |-> m, cs |-> cs]
     ELSE LET t == LastRec(m)
              data == cs.ctx \o SansOf(m) \o
                      (IF cs.first THEN VarsOcts(key, t.time, t.fudge, t.err, t.other)
                                   ELSE TimersOcts(t.time, t.fudge))
              c == CompareSig(tbl, key, data, t.mac)
              \* first_answer / signed_subsequent have replaced the context
              fresh == [cs EXCEPT !.ctx = <<>>]
          IN IF c # "Ok" THEN [res |-> c, msg |-> m, cs |-> fresh]
             ELSE LET tc == AnswerTimeCheck(m, now)
                      applied == [fresh EXCEPT !.ctx = ApplySig(<<>>, t.mac)]
                  IN IF tc # "Ok" THEN [res |-> tc, msg |-> m, cs |-> applied]
                     ELSE [res |-> "Ok", msg |-> RemoveTsig(m, t.oid),
                           cs |-> [applied EXCEPT !.first = FALSE, !.unsigned = 0]]

\* the same call n times with the same (unsigned) message: stops at the first
\* call that fails; `left' = calls not made
RECURSIVE ClientSeqRepeat(_, _, _, _, _, _)
ClientSeqRepeat(key, cs, m, now, tbl, n) ==
  LET r == ClientSeqAnswerStep(key, cs, m, now, tbl)
  IN IF n <= 1 \/ r.res # "Ok" THEN [res |-> r.res, msg |-> r.msg, cs |-> r.cs, left |-> n - 1]
     ELSE ClientSeqRepeat(key, r.cs, m, now, tbl, n - 1)

\* ClientSequence::done
ClientDoneRes(cs) == IF cs.unsigned # 0 THEN "TooManyUnsigned" ELSE "Ok"

--------------------------------------------------------------------------
(* An independent RFC 8945 responder (the harness plays it with its own    *)
(* HMAC): signs from the declarative layout, may leave intermediate        *)
(* messages of a sequence unsigned.  rs = [prior, pending, first]          *)

\* err / other: the TSIG error field and other-data the responder puts into
\* the record (covered by the MAC of a first answer, RFC 8945 4.3.3)
RfcSignStepE(key, rs, m, now, fudge, err, other, tbl, fullNew) ==
  LET stub == PushRec(m, MkTsig(key.name, AlgWire(key.alg), now, fudge, <<>>, HdrId(m.hdr), err, other))
      data == IF rs.first THEN DigestResp(key.name, AlgWire(key.alg), rs.prior, stub)
              ELSE DigestSubseq(rs.prior, rs.pending, stub)
      s == SignT(tbl, key.alg, key.sec, data, fullNew)
      mac == Take(s.full, key.slen)
  IN [tbl |-> s.tbl, j |-> s.j, data |-> data, mac |-> mac,
      rs |-> [prior |-> mac, pending |-> <<>>, first |-> FALSE],
      msg |-> PushRec(m, MkTsig(key.name, AlgWire(key.alg), now, fudge, mac, HdrId(m.hdr), err, other))]
RfcSignStep(key, rs, m, now, fudge, tbl, fullNew) ==
  RfcSignStepE(key, rs, m, now, fudge, 0, <<>>, tbl, fullNew)
RECURSIVE Rep(_, _)
Rep(s, n) == IF n = 0 THEN <<>> ELSE s \o Rep(s, n - 1)
RfcUnsignedStep(rs, m, n) == [rs EXCEPT !.pending = @ \o Rep(Wire(m), n)]
=============================================================================
