--------------------------- MODULE MC_SignerInput ---------------------------
(* C12: a zone's records reach a SortedRecords collection by every route -   *)
(* insert() one at a time in every arrival order, From<Vec> / collect() /    *)
(* extend() of the rest in every order, and any mix - and the collection is  *)
(* then signed through every entry point.  State: the collection as          *)
(* SortedRecords.tla's operations produce it.  Properties: the collection is *)
(* canonical after every operation (X07's invariant, here the signer's       *)
(* precondition), hence what each entry point hands to sign_raw is           *)
(* SignedData of the RRset the content denotes, and the signature verifies   *)
(* over the RRset presented in any order.  Every maximal behaviour is an     *)
(* S->I case with the collection after every operation and the octets per    *)
(* RRset.  Mutant = TRUE replaces insert() by one with a careless "append    *)
(* at the end" fast path: the laws must fail (sensitivity of the model).     *)
EXTENDS SignerInput, Json

CONSTANTS MaxRecs,     \* menus of at most this many records
          Mutant       \* BOOLEAN

la == <<97>>  lA == <<65>>  lb == <<98>>  ex == <<101, 120>>  EX == <<69, 88>>
Apex == <<ex>>
A(n, last, ttl) == SR!Rec(n, 1, ttl, <<192, 0, 2, last>>)
a1 == A(<<la, ex>>, 1, 60)   a2 == A(<<la, ex>>, 2, 60)   a3 == A(<<la, ex>>, 3, 60)
a2c == A(<<lA, EX>>, 2, 60)                     \* a2 spelled differently: the same record
a4c == A(<<lA, EX>>, 4, 60)                     \* another record of the RRset, owner spelled differently
a9  == SR!Rec(<<la, ex>>, 1, 60, <<9, 255, 0, 1>>)      \* sorts before a1 .. a4c
tx  == SR!Rec(<<la, ex>>, 16, 60, <<1, 120>>)
txt == SR!Rec(<<la, ex>>, 16, 61, <<1, 120>>)    \* tx with another TTL: the same record (RFC 2181 5)
ty  == SR!Rec(<<la, ex>>, 16, 60, <<0>>)
b1  == A(<<lb, ex>>, 1, 300)   b2 == A(<<lb, ex>>, 2, 300)
w1  == SR!Rec(<<Star, ex>>, 16, 300, <<2, 119, 119>>)   w2 == SR!Rec(<<Star, ex>>, 16, 300, <<1, 119>>)
\* unknown type: RDATA order is not (length, RDATA) order
u1  == SR!Rec(<<lb, ex>>, 65280, 5, <<2>>)   u2 == SR!Rec(<<lb, ex>>, 65280, 5, <<1, 1>>)
soa == SR!Rec(<<ex>>, 6, 3600, <<0, 0, 0, 0, 0, 1, 0, 0, 14, 16, 0, 0, 3, 132, 0, 9, 58, 128, 0, 0, 1, 44>>)
n1  == SR!Rec(<<ex>>, 2, 3600, <<2, 110, 50, 0>>)   n2 == SR!Rec(<<EX>>, 2, 3600, <<2, 110, 49, 0>>)

\* every menu holds the SOA (sign_zone wants one)
Menus == {m \in { {soa, a2, a1}, {soa, a3, a1, a2}, {soa, a2, a2c, a1}, {soa, a4c, a1, a9},
                  {soa, tx, txt, a1}, {soa, b2, b1, a1}, {soa, w1, w2, tx}, {soa, u1, u2, b1},
                  {soa, n1, n2, ty}, {soa, tx, ty, a2},
                  {soa, a3, a1, a2, a9}, {soa, a2, a1, b2, b1}, {soa, n1, n2, w1, w2}, {soa, a4c, a2c, a2, txt} }
            : Cardinality(m) <= MaxRecs}

Key == [flags |-> 256, proto |-> 3, alg |-> 15, pub |-> [i \in 1..32 |-> (i * 7 + 3) % 256]]
X == [key |-> Key, keyOwner |-> Apex, inc |-> <<0, 0, 0, 0>>, exp |-> <<0, 0, 0, 100>>]

VARIABLES coll, pending, arrived, hist
vars == <<coll, pending, arrived, hist>>

Init == coll = <<>> /\ arrived = <<>> /\ hist = <<>> /\ pending \in Menus

\* the seeded class as a mutant of the specification: the new record goes to
\* the end when its (owner, type) is not below the last record's - and its
\* RDATA merely differs
KeyCmp(r, s) == LET c == CanonNameCmp(r.n, s.n)
                IN IF c # 0 THEN c ELSE IF r.t # s.t THEN (IF r.t < s.t THEN -1 ELSE 1) ELSE 0
FastInsert(c, r) ==
  IF c # <<>> /\ (KeyCmp(c[Len(c)], r) < 0 \/ (KeyCmp(c[Len(c)], r) = 0 /\ c[Len(c)].rd # r.rd))
  THEN [coll |-> Append(c, r), res |-> [ok |-> TRUE, dup |-> <<>>]]
  ELSE SR!Insert(c, r)
InsertOp(c, r) == IF Mutant THEN FastInsert(c, r) ELSE SR!Insert(c, r)

Step(op, recs, ok, c) ==
  /\ coll' = c /\ arrived' = arrived \o recs
  /\ hist' = Append(hist, [op |-> op, recs |-> recs, ok |-> ok, after |-> c])

DoInsert ==
  \E r \in pending :
     LET x == InsertOp(coll, r)
     IN Step("insert", <<r>>, x.res.ok, x.coll) /\ pending' = pending \ {r}
\* the rest at once, in every order
DoBatch ==
  /\ pending # {}
  /\ \E b \in Perms(pending) :
       \E o \in (IF hist = <<>> THEN {"from", "collect", "extend"} ELSE {"extend"}) :
          Step(o, b, TRUE, SR!Extend(coll, b).coll) /\ pending' = {}
DoFrom == hist = <<>> /\ DoBatch
DoExtend == hist # <<>> /\ DoBatch

Next == DoInsert \/ DoFrom \/ DoExtend
Spec == Init /\ [][Next]_vars

--------------------------------------------------------------------------
(* The properties *)
InputCanonical == SR!IsCanonical(coll)                                    \* X07 S1, after every op
InputIsContent == coll = SR!SortSet(SR!AddAll({}, arrived))               \* X07 S2
PreconditionHolds == CollectionLaw(coll) /\ GroupsCanonical(coll)
HandedIsSignedData == TrustedOrderIsRfc(X, coll)
\* a caller's slice of one RRset in arrival order, through sign_rrset
SliceIsSignedData ==
  \A i \in 1..Len(Groups(coll)) :
     LET g == Groups(coll)[i]
         sl == SliceOf(arrived, g)
     IN /\ Len(sl) = Len(g)
        /\ Sorting(X, ToRrs(sl)) = Rfc(X, ToRrs(g))
SignaturesVerify == pending = {} => AnyOrderVerifies(X, coll)

--------------------------------------------------------------------------
(* S->I: one case per maximal behaviour *)
RecJ(r) == [r EXCEPT !.n = LowerName(@)]
GroupJ(g) == LET rrs == ToRrs(g)
             IN [n |-> LowerName(g[1].n), t |-> g[1].t, len |-> Len(g),
                 sig0 |-> Fields(X, rrs), handed |-> Trusting(X, rrs)]
\* the entry points, and what each hands to sign_raw per RRset of the zone
Entries ==
  LET d  == SR!Rrsets(SR!Extend(coll, <<>>).coll)
      hp == HandedPass(X, coll)
      hr == HandedResorted(X, coll)
  IN [rrsets_sorted_in |-> hp,
      rrsets_sign_rrset |-> HandedSorting(X, coll),
      slice_sign_rrset |-> [i \in 1..Len(d) |-> Sorting(X, ToRrs(SliceOf(arrived, d[i])))],
      zone_records |-> hp,
      zone_present_inplace |-> hp,
      zone_present_into |-> hp,
      zone_nsec_inplace |-> hr,
      zone_nsec_into |-> hp,
      zone_nsec3_inplace |-> hr,
      zone_nsec3_into |-> hp]
EntriesAreRfc == pending = {} =>
  LET es == Entries  rfc == HandedRfc(X, coll) IN \A e \in DOMAIN es : es[e] = rfc
Emit == pending = {} =>
  PrintT("CASE " \o ToJson(
    [in  |-> [kind |-> "sinput", apex |-> Apex, key |-> X.key, keyOwner |-> X.keyOwner, inc |-> X.inc, exp |-> X.exp,
              ops |-> [i \in 1..Len(hist) |-> [op |-> hist[i].op, recs |-> hist[i].recs]],
              \* per RRset of the content: the caller's own slice of it (arrival order)
              slices |-> LET d == SR!Rrsets(SR!Extend(coll, <<>>).coll)
                         IN [i \in 1..Len(d) |-> SliceOf(arrived, d[i])]],
     exp |-> [steps |-> [i \in 1..Len(hist) |->
                           [ok |-> hist[i].ok, after |-> [j \in 1..Len(hist[i].after) |-> RecJ(hist[i].after[j])]]],
              rrsets |-> LET d == SR!Rrsets(SR!Extend(coll, <<>>).coll)
                         IN [i \in 1..Len(d) |-> GroupJ(d[i])],
              entries |-> Entries,
              verify |-> AnyOrderVerifies(X, coll)]]))
=============================================================================
