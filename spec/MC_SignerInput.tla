--------------------------- MODULE MC_SignerInput ---------------------------
(* C12: a zone's records reach a SortedRecords collection by every route -   *)
(* insert() one at a time in every arrival order, From<Vec> / collect() /    *)
(* extend() of the rest in every order, and any mix - and the collection is  *)
(* then signed through every entry point.  State: the collection as          *)
(* SortedRecords.tla's operations produce it.  Properties: the collection is *)
(* canonical after every operation (X07's invariant, here the signer's       *)
(* precondition), hence what each entry point hands to sign_raw is           *)
(* SignedData of the RRset the content denotes, and the signature verifies   *)
(* over the RRset presented in any order.  Between the additions the        *)
(* collection is edited (at most MaxEdits times): remove_first / remove_all  *)
(* of an owner [and type] - the records removed may arrive again later, by   *)
(* insert() or extend() - and update_data() of a stored record to data that  *)
(* sorts before, after or onto its siblings.  Every maximal behaviour is an  *)
(* S->I case with the collection after every operation and the octets per    *)
(* RRset.  Mutant = TRUE replaces insert() by one with a careless "append    *)
(* at the end" fast path: the laws must fail (sensitivity of the model).     *)
EXTENDS SignerInput, Json

CONSTANTS MaxRecs,     \* menus of at most this many records
          MaxEdits,    \* removals / updates per behaviour
          EditRecs,    \* edits in zones of at most this many records
          EditAnywhere, \* BOOLEAN: edits at any point of any behaviour; FALSE: once all records
                       \* have arrived one at a time (the collection has no state but its
                       \* content, which is the same whatever the route - InputIsContent)
          Mutant       \* BOOLEAN

la == <<97>>  lA == <<65>>  lb == <<98>>  ex == <<101, 120>>  EX == <<69, 88>>
Apex == <<ex>>
A(n, last, ttl) == SR!Rec(n, 1, ttl, <<192, 0, 2, last>>)
a1 == A(<<la, ex>>, 1, 60)   a2 == A(<<la, ex>>, 2, 60)   a3 == A(<<la, ex>>, 3, 60)
a2c == A(<<lA, EX>>, 2, 60)                     \* a2 spelled differently: the same record
a4c == A(<<lA, EX>>, 4, 60)                     \* another record of the RRset, owner spelled differently
a9  == SR!Rec(<<la, ex>>, 1, 60, <<9, 255, 0, 1>>)      \* sorts before a1 .. a4c
tx  == SR!Rec(<<la, ex>>, 16, 60, <<1, 120>>)
txt == SR!Rec(<<la, ex>>, 16, 61, <<1, 120>>)    \* tx with another TTL: the same record (RFC 2181 5)
ty  == SR!Rec(<<la, ex>>, 16, 60, <<0>>)
b1  == A(<<lb, ex>>, 1, 300)   b2 == A(<<lb, ex>>, 2, 300)
w1  == SR!Rec(<<Star, ex>>, 16, 300, <<2, 119, 119>>)   w2 == SR!Rec(<<Star, ex>>, 16, 300, <<1, 119>>)
\* unknown type: RDATA order is not (length, RDATA) order
u1  == SR!Rec(<<lb, ex>>, 65280, 5, <<2>>)   u2 == SR!Rec(<<lb, ex>>, 65280, 5, <<1, 1>>)
soa == SR!Rec(<<ex>>, 6, 3600, <<0, 0, 0, 0, 0, 1, 0, 0, 14, 16, 0, 0, 3, 132, 0, 9, 58, 128, 0, 0, 1, 44>>)
n1  == SR!Rec(<<ex>>, 2, 3600, <<2, 110, 50, 0>>)   n2 == SR!Rec(<<EX>>, 2, 3600, <<2, 110, 49, 0>>)

\* every menu holds the SOA (sign_zone wants one)
Menus == {m \in { {soa, a2, a1}, {soa, tx, ty}, {soa, w1, w2}, {soa, u1, u2}, {soa, n1, n2}, {soa, a4c, a1},
                  {soa, a3, a1, a2}, {soa, a2, a2c, a1}, {soa, a4c, a1, a9},
                  {soa, tx, txt, a1}, {soa, b2, b1, a1}, {soa, w1, w2, tx}, {soa, u1, u2, b1},
                  {soa, n1, n2, ty}, {soa, tx, ty, a2},
                  {soa, a3, a1, a2, a9}, {soa, a2, a1, b2, b1}, {soa, n1, n2, w1, w2}, {soa, a4c, a2c, a2, txt} }
            : Cardinality(m) <= MaxRecs}

Key == [flags |-> 256, proto |-> 3, alg |-> 15, pub |-> [i \in 1..32 |-> (i * 7 + 3) % 256]]
X == [key |-> Key, keyOwner |-> Apex, inc |-> <<0, 0, 0, 0>>, exp |-> <<0, 0, 0, 100>>]

VARIABLES coll, pending, arrived, hist, edits
vars == <<coll, pending, arrived, hist, edits>>

Init == coll = <<>> /\ arrived = <<>> /\ hist = <<>> /\ pending \in Menus /\ edits = 0

\* the seeded class as a mutant of the specification: the new record goes to
\* the end when its (owner, type) is not below the last record's - and its
\* RDATA merely differs
KeyCmp(r, s) == LET c == CanonNameCmp(r.n, s.n)
                IN IF c # 0 THEN c ELSE IF r.t # s.t THEN (IF r.t < s.t THEN -1 ELSE 1) ELSE 0
FastInsert(c, r) ==
  IF c # <<>> /\ (KeyCmp(c[Len(c)], r) < 0 \/ (KeyCmp(c[Len(c)], r) = 0 /\ c[Len(c)].rd # r.rd))
  THEN [coll |-> Append(c, r), res |-> [ok |-> TRUE, dup |-> <<>>]]
  ELSE SR!Insert(c, r)
InsertOp(c, r) == IF Mutant THEN FastInsert(c, r) ELSE SR!Insert(c, r)

NoKey == [n |-> <<>>, t |-> 0]
Log(op, recs, key, ok, c) ==
  hist' = Append(hist, [op |-> op, recs |-> recs, name |-> key.n, t |-> key.t, ok |-> ok, after |-> c])
Step(op, recs, ok, c) ==
  /\ coll' = c /\ arrived' = arrived \o recs /\ edits' = edits
  /\ Log(op, recs, NoKey, ok, c)

DoInsert ==
  \E r \in pending :
     LET x == InsertOp(coll, r)
     IN Step("insert", <<r>>, x.res.ok, x.coll) /\ pending' = pending \ {r}

\* ---- edits.  What the caller holds (arrived: the records of the zone in the
\* order they came) follows: a record removed is gone in every spelling, an
\* updated record takes the place of the old one.
MayEdit == /\ edits < MaxEdits /\ coll # <<>> /\ Cardinality(pending) + Len(coll) <= EditRecs
           /\ EditAnywhere \/ (pending = {} /\ \A i \in 1..Len(hist) : hist[i].op = "insert")
\* remove_first / remove_all are called with an owner and Some(type) or None
EditKeys == {[n |-> coll[i].n, t |-> coll[i].t] : i \in 1..Len(coll)}
            \cup {[n |-> coll[i].n, t |-> 0] : i \in {j \in 1..Len(coll) : \E k \in 1..Len(coll) :
                                                          NameEq(coll[j].n, coll[k].n) /\ coll[j].t # coll[k].t}}
Gone(before, after) == SelectSeq(before, LAMBDA r : ~SR!Holds(after, r))
Removal(op, k, x) ==
  LET gone == Gone(coll, x.coll)
  IN /\ coll' = x.coll /\ edits' = edits + 1
     /\ arrived' = SelectSeq(arrived, LAMBDA r : ~SR!Holds(gone, r))
     /\ pending' = pending \cup SR!Range(gone)          \* they may arrive again
     /\ Log(op, <<>>, k, x.res, x.coll)
DoRemoveFirst == MayEdit /\ \E k \in EditKeys : Removal("remove_first", k, SR!RemoveFirst(coll, k.n, k.t))
DoRemoveAll   == MayEdit /\ \E k \in EditKeys : Removal("remove_all", k, SR!RemoveAll(coll, k.n, k.t))

\* update_data(matcher of one stored record, new data): data that sorts first,
\* last, or is the data of a sibling
LowRd(t)  == IF t = 1 THEN <<0, 0, 0, 0>> ELSE <<0>>
HighRd(t) == CASE t = 1 -> <<255, 255, 255, 255>> [] t = 2 -> <<1, 255, 0>> [] t = 16 -> <<3, 255, 255, 255>>
               [] OTHER -> <<255>>
NewData(r) == ({s.rd : s \in {x \in SR!Range(coll) : NameEq(x.n, r.n) /\ x.t = r.t}}
               \cup {LowRd(r.t), HighRd(r.t)}) \ {r.rd}
ReplaceFirst(s, old, new) ==      \* new = <<>>: the record is dropped
  LET i == SR!FirstIdx(s, old)
  IN IF i = 0 THEN s
     ELSE SubSeq(s, 1, i - 1) \o new \o SelectSeq(SubSeq(s, i + 1, Len(s)), LAMBDA r : ~SR!Same(r, old))
DoUpdate ==
  /\ MayEdit
  \* (one TTL per RRset: not where the zone has the record under another TTL)
  /\ \E i \in {j \in 1..Len(coll) : /\ coll[j].t # SR!T_SOA
                                     /\ \A s \in pending \cup SR!Range(arrived) :
                                           NameEq(s.n, coll[j].n) /\ s.t = coll[j].t => s.ttl = coll[j].ttl} :
     \E nd \in NewData(coll[i]) :
       LET old == coll[i]
           new == [old EXCEPT !.rd = nd]
           x == SR!UpdateData(coll, old, [t |-> old.t, rd |-> nd])
       IN /\ coll' = x.coll /\ edits' = edits + 1 /\ pending' = pending
          /\ arrived' = ReplaceFirst(arrived, old, IF SR!Holds(coll, new) THEN <<>> ELSE <<new>>)
          /\ Log("update", <<old, new>>, NoKey, TRUE, x.coll)
\* the rest at once, in every order
DoBatch ==
  /\ pending # {}
  /\ \E b \in Perms(pending) :
       \E o \in (IF hist = <<>> THEN {"from", "collect", "extend"} ELSE {"extend"}) :
          Step(o, b, TRUE, SR!Extend(coll, b).coll) /\ pending' = {}
DoFrom == hist = <<>> /\ DoBatch
DoExtend == hist # <<>> /\ DoBatch

Next == DoInsert \/ DoFrom \/ DoExtend \/ DoRemoveFirst \/ DoRemoveAll \/ DoUpdate
Spec == Init /\ [][Next]_vars

--------------------------------------------------------------------------
(* The properties *)
InputCanonical == SR!IsCanonical(coll)                                    \* X07 S1, after every op
InputIsContent == coll = SR!SortSet(SR!AddAll({}, arrived))               \* X07 S2
PreconditionHolds == CollectionLaw(coll) /\ GroupsCanonical(coll)
HandedIsSignedData == TrustedOrderIsRfc(X, coll)
\* a caller's slice of one RRset in arrival order, through sign_rrset
SliceIsSignedData ==
  \A i \in 1..Len(Groups(coll)) :
     LET g == Groups(coll)[i]
         sl == SliceOf(arrived, g)
     IN /\ Len(sl) = Len(g)
        /\ Sorting(X, ToRrs(sl)) = Rfc(X, ToRrs(g))
SignaturesVerify == pending = {} => AnyOrderVerifies(X, coll)

--------------------------------------------------------------------------
(* S->I: one case per maximal behaviour *)
RecJ(r) == [r EXCEPT !.n = LowerName(@)]
GroupJ(g) == LET rrs == ToRrs(g)
             IN [n |-> LowerName(g[1].n), t |-> g[1].t, len |-> Len(g),
                 sig0 |-> Fields(X, rrs), handed |-> Trusting(X, rrs)]
Rev(s) == [i \in 1..Len(s) |-> s[Len(s) + 1 - i]]
\* the entry points, and what each hands to sign_raw per RRset of the zone
Entries ==
  LET d  == SR!Rrsets(SR!Extend(coll, <<>>).coll)
      hp == HandedPass(X, coll)
      hr == HandedResorted(X, coll)
  IN [rrsets_sorted_in |-> hp,
      rrsets_sign_rrset |-> HandedSorting(X, coll),
      slice_sign_rrset |-> [i \in 1..Len(d) |-> Sorting(X, ToRrs(SliceOf(arrived, d[i])))],
      zone_records |-> hp,
      zone_present_inplace |-> hp,
      zone_present_into |-> hp,
      zone_nsec_inplace |-> hr,
      zone_nsec_into |-> hp,
      zone_nsec3_inplace |-> hr,
      zone_nsec3_into |-> hp,
      \* the validator's side: RrsigExt::signed_data of the RRSIG over the
      \* caller's records in reverse arrival order rebuilds the same octets
      validator |-> [i \in 1..Len(d) |->
                       ValidatorOctets(Fields(X, ToRrs(d[i])), Rev(ToRrs(SliceOf(arrived, d[i]))))]]
EntriesAreRfc == pending = {} =>
  LET es == Entries  rfc == HandedRfc(X, coll) IN \A e \in DOMAIN es : es[e] = rfc
Emit == pending = {} =>
  PrintT("CASE " \o ToJson(
    [in  |-> [kind |-> "sinput", apex |-> Apex, key |-> X.key, keyOwner |-> X.keyOwner, inc |-> X.inc, exp |-> X.exp,
              ops |-> [i \in 1..Len(hist) |-> [op |-> hist[i].op, recs |-> hist[i].recs,
                                                name |-> hist[i].name, t |-> hist[i].t]],
              \* per RRset of the content: the caller's own slice of it (arrival order)
              slices |-> LET d == SR!Rrsets(SR!Extend(coll, <<>>).coll)
                         IN [i \in 1..Len(d) |-> SliceOf(arrived, d[i])]],
     exp |-> [steps |-> [i \in 1..Len(hist) |->
                           [ok |-> hist[i].ok, after |-> [j \in 1..Len(hist[i].after) |-> RecJ(hist[i].after[j])]]],
              rrsets |-> LET d == SR!Rrsets(SR!Extend(coll, <<>>).coll)
                         IN [i \in 1..Len(d) |-> GroupJ(d[i])],
              entries |-> Entries,
              verify |-> AnyOrderVerifies(X, coll)]]))
=============================================================================
