CONSTANTS
  Dev = {}
  Band = 0
  EmitCases = FALSE
SPECIFICATION MSpec
VIEW View
INVARIANT Limits
INVARIANT GhostConsistent
INVARIANT UsedIffBroken
PROPERTY P_FinishValid
PROPERTY P_NoPanic
PROPERTY P_LabelOctet
PROPERTY P_ErrUnchanged
PROPERTY P_ErrUsable
PROPERTY P_Monotone
PROPERTY P_OkKeepsLimits
CHECK_DEADLOCK FALSE
