---------------------------- MODULE ClientConfig ----------------------------
(* The configuration layer of the client transports: what a caller says    *)
(* with the public configuration API and which budget is then in force.    *)
(*                                                                          *)
(*   dgram::Config          max_parallel, read_timeout, max_retries,        *)
(*                          udp_payload_size, recv_size                     *)
(*   stream::Config         response_timeout, streaming_response_timeout,   *)
(*                          idle_timeout                                    *)
(*   multi_stream::Config   response_timeout + a stream::Config             *)
(*   dgram_stream::Config   a dgram::Config + a multi_stream::Config        *)
(*   load_balancer::Config / redundant::Config   the three defer flags      *)
(*                          (+ slow_rt_factor, in tenths)                   *)
(*   load_balancer::ConnConfig   max_burst, burst_interval                  *)
(*                                                                          *)
(* A configuration object is a record; every public call is an operator on  *)
(* it (one per setter); a *script* is the sequence of calls a caller makes  *)
(* plus the route by which the object is created and reaches the transport  *)
(* (new / default / from / from_parts / ..._mut / set_...).  Routes are     *)
(* aliases: the object that reaches the transport is the same.              *)
(*                                                                          *)
(* "The configured budget": a value inside the documented range is taken    *)
(* as it is, a value outside is capped to the nearest end of the range      *)
(* ("If this value is too small or too large, it will be capped",          *)
(* "Excessive values are quietly trimmed"); what was never set has the      *)
(* documented default; a setter changes its own setting only.  Ranges and   *)
(* defaults are transcribed from the constants documented in the sources.   *)
(* Durations are in milliseconds; None is -1.                               *)
EXTENDS Naturals, Integers, Sequences

Lim(d, lo, hi) == [def |-> d, min |-> lo, max |-> hi]

\* operational (DefMinMax::limit)
Limit(l, v) == IF v < l.min THEN l.min ELSE IF v > l.max THEN l.max ELSE v
\* declarative: the value of the range nearest to v
Dist(a, b) == IF a >= b THEN a - b ELSE b - a
Capped(l, v, r) == /\ r >= l.min /\ r <= l.max
                   /\ (v >= l.min /\ v <= l.max => r = v)
                   /\ (v < l.min => r = l.min) /\ (v > l.max => r = l.max)

--------------------------------------------------------------------------
(* the documented ranges *)
DgMaxParallel   == Lim(100, 1, 1000)
DgReadTimeout   == Lim(5000, 1, 60000)
DgMaxRetries    == Lim(5, 0, 100)
DgUdpPayloadDef == 1232
DgRecvSizeDef   == 2000
StResponse      == Lim(19000, 1, 600000)
StIdle          == Lim(10000, 0, 3600000)
MsResponse      == Lim(30000, 1, 600000)
LbBurstInterval == Lim(1000, 1, 3600000)
LbSlowRtDef     == 50      \* slow_rt_factor in tenths: default 5.0, at least 1.0
LbSlowRtMin     == 10

Call(f, v) == [f |-> f, v |-> v]

--------------------------------------------------------------------------
(* dgram::Config *)
DgDefault == [mp |-> DgMaxParallel.def, rto |-> DgReadTimeout.def, mr |-> DgMaxRetries.def,
              ups |-> DgUdpPayloadDef, rsz |-> DgRecvSizeDef]
DgCall(c, k) ==
  CASE k.f = "set_max_parallel"     -> [c EXCEPT !.mp  = Limit(DgMaxParallel, k.v)]
    [] k.f = "set_read_timeout"     -> [c EXCEPT !.rto = Limit(DgReadTimeout, k.v)]
    [] k.f = "set_max_retries"      -> [c EXCEPT !.mr  = Limit(DgMaxRetries, k.v)]
    [] k.f = "set_udp_payload_size" -> [c EXCEPT !.ups = k.v]
    [] k.f = "set_recv_size"        -> [c EXCEPT !.rsz = k.v]
RECURSIVE DgFold(_, _)
DgFold(c, calls) == IF calls = <<>> THEN c ELSE DgFold(DgCall(c, Head(calls)), Tail(calls))
\* routes: "new" Config::new(), "default" Config::default(), "conn_new"
\* Connection::new(connect) without a Config object (no calls possible)
DgScript(route, calls) == [route |-> route, calls |-> calls]
DgRun(sc) == DgFold(DgDefault, sc.calls)

(* stream::Config.  set_response_timeout also sets the streaming timeout   *)
(* (the documentation sends callers with streaming requests to            *)
(* set_streaming_response_timeout "instead"; the later call wins).         *)
StDefault == [rt |-> StResponse.def, srt |-> StResponse.def, idle |-> StIdle.def]
StCall(c, k) ==
  CASE k.f = "set_response_timeout" ->
         [c EXCEPT !.rt = Limit(StResponse, k.v), !.srt = Limit(StResponse, k.v)]
    [] k.f = "set_streaming_response_timeout" -> [c EXCEPT !.srt = Limit(StResponse, k.v)]
    [] k.f = "set_idle_timeout"     -> [c EXCEPT !.idle = Limit(StIdle, k.v)]
RECURSIVE StFold(_, _)
StFold(c, calls) == IF calls = <<>> THEN c ELSE StFold(StCall(c, Head(calls)), Tail(calls))
\* routes: "new", "default", "conn_new" (Connection::new(stream))
StScript(route, calls) == [route |-> route, calls |-> calls]
StRun(sc) == StFold(StDefault, sc.calls)

(* multi_stream::Config: route "default" (Config::default(), stream script *)
(* applied through stream_mut()), "from" (Config::from(stream config)),    *)
(* "conn_new" (Connection::new(remote))                                    *)
MsScript(route, st, calls) == [route |-> route, st |-> st, calls |-> calls]
MsCall(c, k) ==
  CASE k.f = "set_response_timeout" -> [c EXCEPT !.rt = Limit(MsResponse, k.v)]
RECURSIVE MsFold(_, _)
MsFold(c, calls) == IF calls = <<>> THEN c ELSE MsFold(MsCall(c, Head(calls)), Tail(calls))
MsRun(sc) == MsFold([rt |-> MsResponse.def, st |-> StRun(sc.st)], sc.calls)

(* dgram_stream::Config: route "from_parts", "new_mut" (Config::new(), the *)
(* two scripts applied through dgram_mut() / stream_mut()), "new_set"      *)
(* (Config::new(), set_dgram, set_stream), "conn_new" (Connection::new)    *)
XScript(route, dg, ms) == [route |-> route, dg |-> dg, ms |-> ms]
XRun(sc) == [dg |-> DgRun(sc.dg), ms |-> MsRun(sc.ms)]

(* load_balancer::Config, redundant::Config *)
BalDefault == [de |-> FALSE, dr |-> FALSE, ds |-> FALSE, srf |-> LbSlowRtDef]
BalCall(c, k) ==
  CASE k.f = "set_defer_transport_error" -> [c EXCEPT !.de = (k.v = 1)]   \* flags travel as 0 / 1
    [] k.f = "set_defer_refused"         -> [c EXCEPT !.dr = (k.v = 1)]
    [] k.f = "set_defer_servfail"        -> [c EXCEPT !.ds = (k.v = 1)]
    [] k.f = "set_slow_rt_factor"        -> [c EXCEPT !.srf = IF k.v < LbSlowRtMin THEN LbSlowRtMin ELSE k.v]
RECURSIVE BalFold(_, _)
BalFold(c, calls) == IF calls = <<>> THEN c ELSE BalFold(BalCall(c, Head(calls)), Tail(calls))
BalRun(calls) == BalFold(BalDefault, calls)

(* load_balancer::ConnConfig: mb = -1: None (no limit) *)
CcDefault == [mb |-> -1, iv |-> LbBurstInterval.def]
CcCall(c, k) ==
  CASE k.f = "set_max_burst"      -> [c EXCEPT !.mb = k.v]
    [] k.f = "set_burst_interval" -> [c EXCEPT !.iv = Limit(LbBurstInterval, k.v)]
RECURSIVE CcFold(_, _)
CcFold(c, calls) == IF calls = <<>> THEN c ELSE CcFold(CcCall(c, Head(calls)), Tail(calls))
CcRun(calls) == CcFold(CcDefault, calls)

--------------------------------------------------------------------------
(* Calls addressed to a part of a composite object: `at` says through which *)
(* accessor the call is made ("" the object itself; "stream_mut" on a       *)
(* multi_stream::Config; "dgram_mut", "stream_mut", "stream_mut.stream_mut" *)
(* on a dgram_stream::Config).                                              *)
CallAt(at, f, v) == [at |-> at, f |-> f, v |-> v]
MsCallAt(c, k) == IF k.at = "stream_mut" THEN [c EXCEPT !.st = StCall(@, k)] ELSE MsCall(c, k)
XCallAt(c, k) ==
  CASE k.at = "dgram_mut"  -> [c EXCEPT !.dg = DgCall(@, k)]
    [] k.at = "stream_mut" -> [c EXCEPT !.ms = MsCall(@, k)]
    [] k.at = "stream_mut.stream_mut" -> [c EXCEPT !.ms.st = StCall(@, k)]
MsDefault == [rt |-> MsResponse.def, st |-> StDefault]
XDefault  == [dg |-> DgDefault, ms |-> MsDefault]
RedDefault == [de |-> FALSE, dr |-> FALSE, ds |-> FALSE]

--------------------------------------------------------------------------
(* from a duration to the clock of a model: the number of whole ticks of   *)
(* tickms milliseconds after which a timer of ms milliseconds has run out  *)
(* ("now >= start + ms" first holds at that tick); at least one tick        *)
TicksUp(ms, tickms) == IF ms <= tickms THEN 1 ELSE (ms + tickms - 1) \div tickms
\* "elapsed > ms" first holds at this tick
TicksOver(ms, tickms) == (ms \div tickms) + 1
\* "elapsed >= ms", zero allowed
TicksAt(ms, tickms) == (ms + tickms - 1) \div tickms

--------------------------------------------------------------------------
(* the configuration objects as a machine of their own (MC_ClientConfig):  *)
(* state = one object of every kind and, per setting, what the caller      *)
(* asked for last (-2: never set)                                          *)
Unset == -2
Honoured(l, asked, val) == IF asked = Unset THEN val = l.def ELSE Capped(l, asked, val)
Plain(def, asked, val)  == IF asked = Unset THEN val = def ELSE val = asked
\* what the caller asked for last with setter f
RECURSIVE LastAsked(_, _)
LastAsked(calls, f) ==
  IF calls = <<>> THEN Unset
  ELSE LET k == calls[Len(calls)]
       IN IF k.f = f THEN k.v ELSE LastAsked(SubSeq(calls, 1, Len(calls) - 1), f)

\* the declarative reading of "the configured budget", per kind of object
DgHonoured(calls, c) ==
  /\ Honoured(DgMaxParallel, LastAsked(calls, "set_max_parallel"), c.mp)
  /\ Honoured(DgReadTimeout, LastAsked(calls, "set_read_timeout"), c.rto)
  /\ Honoured(DgMaxRetries, LastAsked(calls, "set_max_retries"), c.mr)
  /\ Plain(DgUdpPayloadDef, LastAsked(calls, "set_udp_payload_size"), c.ups)
  /\ Plain(DgRecvSizeDef, LastAsked(calls, "set_recv_size"), c.rsz)
\* the streaming timeout is what was asked for it, or for the response
\* timeout, whichever call came last
RECURSIVE LastAskedOf(_, _)
LastAskedOf(calls, fs) ==
  IF calls = <<>> THEN Unset
  ELSE LET k == calls[Len(calls)]
       IN IF k.f \in fs THEN k.v ELSE LastAskedOf(SubSeq(calls, 1, Len(calls) - 1), fs)
StHonoured(calls, c) ==
  /\ Honoured(StResponse, LastAsked(calls, "set_response_timeout"), c.rt)
  /\ Honoured(StResponse, LastAskedOf(calls, {"set_response_timeout",
                                              "set_streaming_response_timeout"}), c.srt)
  /\ Honoured(StIdle, LastAsked(calls, "set_idle_timeout"), c.idle)
MsHonoured(sc, c) ==
  /\ Honoured(MsResponse, LastAsked(sc.calls, "set_response_timeout"), c.rt)
  /\ StHonoured(sc.st.calls, c.st)
XHonoured(sc, c) == DgHonoured(sc.dg.calls, c.dg) /\ MsHonoured(sc.ms, c.ms)
CcHonoured(calls, c) ==
  /\ Plain(-1, LastAsked(calls, "set_max_burst"), c.mb)
  /\ Honoured(LbBurstInterval, LastAsked(calls, "set_burst_interval"), c.iv)
=============================================================================
