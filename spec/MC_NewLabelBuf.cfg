CONSTANTS
  Dev = {}
  EmitCases = TRUE
SPECIFICATION MSpec
VIEW View
INVARIANT LimitL
INVARIANT ErrUnchangedL
INVARIANT PanicOnlyDocumented
INVARIANT WireL
CHECK_DEADLOCK FALSE
