CONSTANTS
  Dev = {}
  MaxRecs = 4
  Mutant = TRUE
SPECIFICATION Spec
INVARIANT HandedIsSignedData
CHECK_DEADLOCK FALSE
