CONSTANTS
  Dev = {}
  MaxRecs = 4
  MaxEdits = 0
  EditRecs = 0
  EditAnywhere = FALSE
  Mutant = TRUE
SPECIFICATION Spec
INVARIANT HandedIsSignedData
CHECK_DEADLOCK FALSE
