CONSTANTS
  Dev = {"D_opt_rcode_sticks"}
SPECIFICATION TSpec
INVARIANT TraceInv
POSTCONDITION Accepted
CHECK_DEADLOCK FALSE
