CONSTANTS
  Dev = {}
  MaxPush = 2
  Wide = TRUE
  Big = 400
SPECIFICATION Spec
INVARIANT LawNorm
INVARIANT LawNormId
INVARIANT LawOptRoundTrip
INVARIANT LawOptLen
INVARIANT LawEcsPrivacy
INVARIANT LawRecord
INVARIANT LawRefused
INVARIANT LawImplReadsBack
CHECK_DEADLOCK FALSE
