CONSTANTS
  Dev <- EnvDev
  XDev <- XEnvDev
  Hists <- HistsC
  Bases = {1, 14}
  Reqs <- ReqsReal
  Keys = {"good", "wrongsecret", "unknown", "none"}
  OldC <- OldC9
  MaxMsgs = 1
  LaterQ = {FALSE}
  FaultKinds = {"flipreq"}
  MaxFaults = 1
  Bursts = {}
  Prim = "real"
SPECIFICATION Spec
INVARIANT Replicated
INVARIANT KeyMismatchNothing
INVARIANT Emit
CHECK_DEADLOCK FALSE
