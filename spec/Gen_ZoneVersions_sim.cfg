CONSTANTS
  Readers = {"r1", "r2"}
  MaxVer = 8
  SerialBits = 3
  SoaVals = {0, 6, 7}
  TxtVals = {1, 2}
  MaxHist = 30
  Mode = "behaviours"
SPECIFICATION GenSpec
VIEW GenView
INVARIANT Emit
CHECK_DEADLOCK FALSE
