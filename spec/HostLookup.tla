----------------------------- MODULE HostLookup -----------------------------
(* X09 -- resolv::lookup::host: lookup_host and the FoundHosts accessors.    *)
(*                                                                           *)
(* Properties (for every pair of answers a resolver may give):               *)
(*  P3a  lookup_host asks exactly two questions for the name: A and AAAA;    *)
(*  P3b  it fails ONLY IF both questions failed (then with the AAAA error);  *)
(*       one failed question is tolerated and contributes nothing;           *)
(*  P3c  iter() yields exactly the address records owned by the canonical    *)
(*       name of their own answer (CNAME chain of the answer section         *)
(*       followed from the question name), AAAA answers first, then A, each  *)
(*       in answer order; port_iter(p) is iter() with p attached;            *)
(*  P3d  canonical_name() is the end of the CNAME chain of one of the two    *)
(*       answers ("a canonical name for one of them"); no accessor panics    *)
(*       whatever the upstream resolver put into the answer.                 *)
(*                                                                           *)
(* Named deviation:                                                          *)
(*  D_host_canonical_loop_panic  FoundHosts::canonical_name() unwraps        *)
(*       Message::canonical_name(), which is None for an answer whose CNAME  *)
(*       records loop: a looping answer from upstream panics the caller.     *)
(*                                                                           *)
(* An answer is [err, chain, loop, recs] (err: the query failed): CNAMEs q -> c1 -> .. -> c<chain>*)
(* (names 0..chain), loop: one more CNAME from the last name back to q;      *)
(* recs: address records <<owner, k>>, owner 9 = an unrelated name.          *)
EXTENDS Integers, Sequences, FiniteSets

CONSTANT Dev

IsErr(ans) == ans.err
ErrAns == [err |-> TRUE, chain |-> 0, loop |-> FALSE, recs |-> <<>>]
Canon(ans) == IF ans.loop THEN -1 ELSE ans.chain           \* -1: no canonical name (loop)
AnCount(ans) == ans.chain + (IF ans.loop THEN 1 ELSE 0) + Len(ans.recs)
Addrs(ans, f) ==
  IF IsErr(ans) \/ Canon(ans) = -1 THEN <<>>
  ELSE LET m == SelectSeq(ans.recs, LAMBDA r : r[1] = Canon(ans))
       IN [i \in 1..Len(m) |-> <<1, m[i][1], f, m[i][2]>>]
ChainNames(ans) == IF IsErr(ans) THEN {} ELSE 0..ans.chain

--------------------------------------------------------------------------
(* Machine state: [ph, asked, res, canon, panic]                            *)
HInit == [ph |-> "start", asked |-> <<>>, res |-> "", canon |-> "", addrs |-> <<>>, empty |-> FALSE, panic |-> FALSE]

AskA(W, s)    == [s EXCEPT !.asked = Append(@, <<"q", "A">>), !.ph = "askedA"]
AskAAAA(W, s) == [s EXCEPT !.asked = Append(@, <<"q", "AAAA">>), !.ph = "join"]
\* FoundHosts::new
Join(W, s) == IF IsErr(W.a) /\ IsErr(W.aaaa) THEN [s EXCEPT !.res = "err", !.ph = "done"]
              ELSE [s EXCEPT !.res = "found", !.ph = "found"]
\* the accessors
Used(W) == IF ~IsErr(W.aaaa) THEN W.aaaa ELSE W.a           \* FoundHosts::answer
IsEmpty(W, s) ==
  [s EXCEPT !.empty = (IsErr(W.aaaa) \/ AnCount(W.aaaa) = 0) /\ (IsErr(W.a) \/ AnCount(W.a) = 0), !.ph = "canon"]
CanonicalName(W, s) ==
  LET c == Canon(Used(W))
  IN IF c = -1 THEN
       (IF "D_host_canonical_loop_panic" \in Dev THEN [s EXCEPT !.panic = TRUE, !.canon = "panic", !.ph = "iter"]
        ELSE [s EXCEPT !.canon = "ok", !.ph = "iter"])          \* some name of the chain, no panic
     ELSE [s EXCEPT !.canon = "ok", !.ph = "iter"]
Iter(W, s) == [s EXCEPT !.addrs = Addrs(W.aaaa, 6) \o Addrs(W.a, 4), !.ph = "done"]

--------------------------------------------------------------------------
BothAsked(s) == s.ph \in {"found", "canon", "iter", "done"} => s.asked = <<<<"q", "A">>, <<"q", "AAAA">>>>
ErrOnlyIfBothFail(W, s) == s.ph = "done" => ((s.res = "err") = (IsErr(W.a) /\ IsErr(W.aaaa)))
UnionOfBoth(W, s) ==
  (s.ph = "done" /\ s.res = "found") =>
     /\ \A r \in {s.addrs[i] : i \in 1..Len(s.addrs)} : r[3] = 6 => r \in {Addrs(W.aaaa, 6)[i] : i \in 1..Len(Addrs(W.aaaa, 6))}
     /\ Len(s.addrs) = Len(Addrs(W.aaaa, 6)) + Len(Addrs(W.a, 4))
     /\ \A i, j \in 1..Len(s.addrs) : (s.addrs[i][3] = 4 /\ s.addrs[j][3] = 6) => j < i      \* AAAA first
OnlyCanonicalOwners(W, s) ==
  \A i \in 1..Len(s.addrs) : LET r == s.addrs[i] IN r[2] = Canon(IF r[3] = 6 THEN W.aaaa ELSE W.a)
NoPanic(s) == ~s.panic
=============================================================================
