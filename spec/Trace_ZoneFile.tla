--------------------------- MODULE Trace_ZoneFile ---------------------------
(* I->S: recorded runs of the real zone-file reader.                        *)
(*   ev = "devs": first event, the deviations listed as open                *)
(*   ev = "read": text, origin, default class, outcome -- the outcome must  *)
(*        be the one of the reader machine of ZoneFile.tla (or the one of    *)
(*        the machine with open deviations switched on, reported as          *)
(*        TRACE_DEV), unless the specification abstains (Unmodelled)         *)
(*   ev = "meta": two renderings of one logical file and both outcomes:     *)
(*        each must conform, and the outcomes must be equal                  *)
(*        each must conform, and the outcomes must be equal; both were read   *)
(*        under one configuration (ai: allow_invalid) through construction    *)
(*        routes of their own; pa / pb: what zonetree::parsed made of them    *)
(*   every read: offs, Zonefile::current_offset() before the first and after *)
(*        every call -- it only moves forward and stays within the buffer     *)
(*   ev = "hostile": an input whose size is the attack; outcome class only  *)
EXTENDS ZoneFile, TLC, Json, IOUtils

Rec == ndJsonDeserialize(IOEnv.TRACE)

VARIABLE l
tvars == <<l>>

Open == IF Len(Rec) >= 1 /\ Rec[1].ev = "devs" THEN {Rec[1].open[i] : i \in 1..Len(Rec[1].open)} ELSE {}

IsEv(e) == l <= Len(Rec) /\ Rec[l].ev = e /\ l' = l + 1

\* class checking is on unless the event says allow_invalid
Rv(e) == IF "ai" \in DOMAIN e THEN ~e.ai ELSE TRUE
IdealV(text, origin, class, v) == ReadAllV(text, origin, class, v, {})
Ideal(text, origin, class) == IdealV(text, origin, class, TRUE)

\* the recorded outcome is explained by the specification
ExplainedV(text, origin, class, v, res) ==
  LET o == IdealV(text, origin, class, v) IN
  \/ o = Unmodelled
  \/ o = res
  \/ \E dv \in (SUBSET (Open \cap AllDevs)) \ {{}} :
        LET d == ReadAllV(text, origin, class, v, dv)
        IN /\ (d = Unmodelled \/ d = res)
           /\ PrintT("TRACE_DEV " \o ToJson([devs |-> dv, text |-> text, res |-> res]))

TInit == l = 1

T_Devs == IsEv("devs")

Explained(text, origin, class, res) == ExplainedV(text, origin, class, TRUE, res)

\* current_offset(): never backwards, never beyond the buffer (the text and
\* the spare octet in front of it)
OffsetsOk(offs, text) ==
  /\ \A i \in 1..(Len(offs) - 1) : offs[i] <= offs[i + 1]
  /\ \A i \in 1..Len(offs) : offs[i] >= 0 /\ offs[i] <= Len(text) + 1

\* what zonetree::parsed made of a text, against the classification of the
\* entries the reader returned for it
ParsedExplained(p, res) ==
  \/ "panic" \in DOMAIN res                     \* (the reader's own panic is judged above)
  \/ LET Fits(e) == /\ "ok" \in DOMAIN p /\ p.ok = e.ok /\ p.errors = e.errors
                     /\ e.ok => /\ p.apex = e.apex /\ p.class = e.class
                                 /\ IF e.builder = "any" THEN p.builder \in {"ok", "fail"} ELSE p.builder = e.builder
     IN \/ Fits(ParsedOf(res))
        \/ /\ "D_parsed_no_apex_unwrap" \in Open
           /\ Fits(ParsedOfD(res, {"D_parsed_no_apex_unwrap"}))
           /\ PrintT("TRACE_DEV " \o ToJson([devs |-> {"D_parsed_no_apex_unwrap"}, text |-> <<>>, res |-> p]))

T_Read == /\ IsEv("read")
          /\ ExplainedV(Rec[l].text, Rec[l].origin, Rec[l].class, Rv(Rec[l]), Rec[l].res)
          /\ "offs" \in DOMAIN Rec[l] => OffsetsOk(Rec[l].offs, Rec[l].text)

T_Meta == /\ IsEv("meta")
          /\ ExplainedV(Rec[l].a, Rec[l].origin, Rec[l].class, Rv(Rec[l]), Rec[l].ra)
          /\ ExplainedV(Rec[l].b, Rec[l].origin, Rec[l].class, Rv(Rec[l]), Rec[l].rb)
          /\ \/ Rec[l].ra = Rec[l].rb                       \* the property itself
             \/ IdealV(Rec[l].a, Rec[l].origin, Rec[l].class, Rv(Rec[l])) = Unmodelled
             \/ IdealV(Rec[l].b, Rec[l].origin, Rec[l].class, Rv(Rec[l])) = Unmodelled
          \* (vacuity guard of the driver: how often the specification abstained)
          /\ IdealV(Rec[l].a, Rec[l].origin, Rec[l].class, Rv(Rec[l])) = Unmodelled => PrintT("TRACE_ABSTAINED {\"ev\":\"meta\"}")
          /\ "offs_a" \in DOMAIN Rec[l] => OffsetsOk(Rec[l].offs_a, Rec[l].a) /\ OffsetsOk(Rec[l].offs_b, Rec[l].b)
          /\ "pa" \in DOMAIN Rec[l] => ParsedExplained(Rec[l].pa, Rec[l].ra) /\ ParsedExplained(Rec[l].pb, Rec[l].rb)

\* hostile sizes (names of 70000 octets, 1 MiB lines, 10^5 parentheses ...):
\* only totality is stated -- entries or an error, never a panic
T_Hostile == /\ IsEv("hostile")
             /\ \/ Rec[l].res \in {"ok", "err"}
                \/ /\ Rec[l].dev \in Open          \* the input carries the guard of an open deviation
                   /\ PrintT("TRACE_DEV " \o ToJson([devs |-> {Rec[l].dev}, text |-> Rec[l].kind, res |-> Rec[l].res]))

TNext == T_Devs \/ T_Read \/ T_Meta \/ T_Hostile
TSpec == TInit /\ [][TNext]_tvars

Accepted ==
  LET d == TLCGet("stats").diameter
  IN IF d = Len(Rec) + 1 THEN TRUE
     ELSE /\ PrintT("TRACE_REJECTED " \o ToJson([matched |-> d - 1, total |-> Len(Rec),
                      event |-> IF d <= Len(Rec) THEN Rec[d] ELSE [ev |-> "none"]]))
          /\ FALSE
=============================================================================
