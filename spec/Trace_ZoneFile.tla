--------------------------- MODULE Trace_ZoneFile ---------------------------
(* I->S: recorded runs of the real zone-file reader.                        *)
(*   ev = "devs": first event, the deviations listed as open                *)
(*   ev = "read": text, origin, default class, outcome -- the outcome must  *)
(*        be the one of the reader machine of ZoneFile.tla (or the one of    *)
(*        the machine with open deviations switched on, reported as          *)
(*        TRACE_DEV), unless the specification abstains (Unmodelled)         *)
(*   ev = "meta": two renderings of one logical file and both outcomes:     *)
(*        each must conform, and the outcomes must be equal                  *)
(*   ev = "hostile": an input whose size is the attack; outcome class only  *)
EXTENDS ZoneFile, TLC, Json, IOUtils

Rec == ndJsonDeserialize(IOEnv.TRACE)

VARIABLE l
tvars == <<l>>

Open == IF Len(Rec) >= 1 /\ Rec[1].ev = "devs" THEN {Rec[1].open[i] : i \in 1..Len(Rec[1].open)} ELSE {}

IsEv(e) == l <= Len(Rec) /\ Rec[l].ev = e /\ l' = l + 1

Ideal(text, origin, class) == ReadAll(text, origin, class, {})

\* the recorded outcome is explained by the specification
Explained(text, origin, class, res) ==
  LET o == Ideal(text, origin, class) IN
  \/ o = Unmodelled
  \/ o = res
  \/ \E dv \in (SUBSET (Open \cap AllDevs)) \ {{}} :
        LET d == ReadAll(text, origin, class, dv)
        IN /\ (d = Unmodelled \/ d = res)
           /\ PrintT("TRACE_DEV " \o ToJson([devs |-> dv, text |-> text, res |-> res]))

TInit == l = 1

T_Devs == IsEv("devs")

T_Read == /\ IsEv("read")
          /\ Explained(Rec[l].text, Rec[l].origin, Rec[l].class, Rec[l].res)

T_Meta == /\ IsEv("meta")
          /\ Explained(Rec[l].a, Rec[l].origin, Rec[l].class, Rec[l].ra)
          /\ Explained(Rec[l].b, Rec[l].origin, Rec[l].class, Rec[l].rb)
          /\ \/ Rec[l].ra = Rec[l].rb                       \* the property itself
             \/ Ideal(Rec[l].a, Rec[l].origin, Rec[l].class) = Unmodelled
             \/ Ideal(Rec[l].b, Rec[l].origin, Rec[l].class) = Unmodelled

\* hostile sizes (names of 70000 octets, 1 MiB lines, 10^5 parentheses ...):
\* only totality is stated -- entries or an error, never a panic
T_Hostile == /\ IsEv("hostile")
             /\ \/ Rec[l].res \in {"ok", "err"}
                \/ /\ Rec[l].dev \in Open          \* the input carries the guard of an open deviation
                   /\ PrintT("TRACE_DEV " \o ToJson([devs |-> {Rec[l].dev}, text |-> Rec[l].kind, res |-> Rec[l].res]))

TNext == T_Devs \/ T_Read \/ T_Meta \/ T_Hostile
TSpec == TInit /\ [][TNext]_tvars

Accepted ==
  LET d == TLCGet("stats").diameter
  IN IF d = Len(Rec) + 1 THEN TRUE
     ELSE /\ PrintT("TRACE_REJECTED " \o ToJson([matched |-> d - 1, total |-> Len(Rec),
                      event |-> IF d <= Len(Rec) THEN Rec[d] ELSE [ev |-> "none"]]))
          /\ FALSE
=============================================================================
