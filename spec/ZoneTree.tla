------------------------------ MODULE ZoneTree ------------------------------
(* The set of zones a server is authoritative for:                          *)
(*   src/zonetree/tree.rs  (ZoneTree, Roots, ZoneSetNode, ZoneSetIter)      *)
(*   src/zonetree/zone.rs  (Zone = Arc<dyn ZoneStore>: class(), apex_name())*)
(* The per-zone version housekeeping (ZoneVersions, Versioned, commit with  *)
(* bump_soa_serial, clean_versions) is specified in ZoneVersions.tla; the   *)
(* content of a zone in ZoneStore.tla (C08/C09).                            *)
(*                                                                          *)
(* Properties a user of ZoneTree relies on (extension X03), each for every  *)
(* history of insert_zone / remove_zone calls and every argument:           *)
(*  X03.1 find_zone(qname, class) returns the zone with the LONGEST apex    *)
(*        that is a suffix of qname (case-insensitively) among the zones of *)
(*        exactly that class, and nothing if no zone of the class encloses  *)
(*        qname; get_zone returns the zone with exactly that apex and class.*)
(*  X03.2 insert_zone fails iff a zone with the same (apex, class) is in    *)
(*        the tree, remove_zone fails iff none is; a call NEVER changes the *)
(*        outcome of any lookup for another (apex, class) -- in particular  *)
(*        removing a parent zone neither removes nor hides child zones and  *)
(*        vice versa -- and insert;remove leaves every lookup as before.    *)
(*  X03.3 iter_zones yields exactly the zones inserted and not removed,     *)
(*        each once.                                                        *)
(* (X03.4-6 on version housekeeping: ZoneVersions.tla.)                     *)
(*                                                                          *)
(* Structure: the state is the trie the code keeps (one node per label,     *)
(* root label first, a HashMap of children per node, keys compared ASCII-   *)
(* case-insensitively); the operators *Op transcribe the recursive methods  *)
(* of ZoneSetNode.  The declarative side is the abstract map                *)
(*   (class, lower-cased apex) |-> zone   (ZoneMap)                         *)
(* with LongestMatch over Names.tla; the invariants below say that the      *)
(* transcription and the declarative side agree in every reachable tree.    *)
(*                                                                          *)
(* Deviation (DESIGN 2.6):                                                  *)
(*  D_remove_zone_drops_class  ZoneSetNode::remove_zone is not recursive:   *)
(*     it removes the child for the FIRST label of the reversed name from   *)
(*     the class's top node.  The first label of every absolute name is the *)
(*     root label, so remove_zone(any name, class) drops every zone of the  *)
(*     class and returns Ok iff the class ever had a zone inserted since    *)
(*     the last removal.                                                    *)
EXTENDS Names, FiniteSets, TLC

CONSTANTS
  Dev,        \* deviations in force
  Classes,    \* classes used by the actions ("IN" is the code's fast path)
  ApexNames,  \* apex spellings zones are inserted with
  ArgNames,   \* names passed to remove_zone / get_zone
  QNames,     \* names passed to find_zone
  Ids,        \* zone identities
  MaxOps      \* bound on mutating calls per behaviour (TLC only)

DevNames == {"D_remove_zone_drops_class"}
ASSUME Dev \subseteq DevNames

-----------------------------------------------------------------------------
(* Values                                                                   *)
NoZone == [id |-> 0, class |-> "", apex |-> <<>>]           \* Option::None
ZoneOf(id, c, a) == [id |-> id, class |-> c, apex |-> a]     \* a Zone: class(), apex_name() as spelled

\* A trie node is identified by <<class, name>>, name = the lower-cased
\* labels from the node up to (not including) the root label.  The node of
\* the root NAME is <<c, <<>>>>: it is the child "root label" of the class's
\* top node (Roots.in_ / Roots.others[c]), whose own `zone` is never set.
\* A tree is a function node |-> zone-or-NoZone; its domain (the existing
\* nodes) is closed under Parent.
EmptyTree == <<>>
NodesOf(t) == DOMAIN t
Key(c, a) == <<c, LowerName(a)>>
Zones(t) == {n \in NodesOf(t) : t[n] # NoZone}
ParentClosed(t) == \A n \in NodesOf(t) : n[2] # <<>> => <<n[1], Parent(n[2])>> \in NodesOf(t)

-----------------------------------------------------------------------------
(* Transcription of ZoneSetNode                                             *)

\* insert_zone: children.entry(label).or_default() down the reversed apex
\* name, then `zone.is_some()` decides
InsertOp(t, z) ==
  LET k == Key(z.class, z.apex)
      path == {<<z.class, s>> : s \in Ancestors(k[2])}
      t1 == [n \in NodesOf(t) \cup path |-> IF n \in NodesOf(t) THEN t[n] ELSE NoZone]
  IN IF t1[k] # NoZone THEN [t |-> t1, res |-> "err"]        \* ZoneExists
     ELSE [t |-> [t1 EXCEPT ![k] = z], res |-> "ok"]

\* remove_zone
RemoveOp(t, c, a, D) ==
  LET k == Key(c, a) IN
  IF "D_remove_zone_drops_class" \in D THEN
    \* self.children.remove(first label of reversed name = root label)
    IF <<c, <<>>>> \in NodesOf(t)
    THEN [t |-> [n \in {m \in NodesOf(t) : m[1] # c} |-> t[n]], res |-> "ok"]
    ELSE [t |-> t, res |-> "err"]
  ELSE
    IF k \in NodesOf(t) /\ t[k] # NoZone
    THEN [t |-> [t EXCEPT ![k] = NoZone], res |-> "ok"]
    ELSE [t |-> t, res |-> "err"]                            \* ZoneDoesNotExist

\* get_zone: descend along the reversed name; a missing child ends the search
RECURSIVE GetFrom(_, _, _, _)
GetFrom(t, c, ln, k) ==            \* k labels below the root label consumed
  IF <<c, Suffix(ln, k)>> \notin NodesOf(t) THEN NoZone
  ELSE IF k = Len(ln) THEN t[<<c, ln>>]
  ELSE GetFrom(t, c, ln, k + 1)
GetOp(t, c, a) == GetFrom(t, c, LowerName(a), 0)

\* find_zone: depth first, the deepest node on the path that holds a zone wins
RECURSIVE FindFrom(_, _, _, _)
FindFrom(t, c, lq, k) ==           \* standing on the existing node Suffix(lq, k)
  LET here == t[<<c, Suffix(lq, k)>>]
  IN IF k < Len(lq) /\ <<c, Suffix(lq, k + 1)>> \in NodesOf(t)
     THEN LET below == FindFrom(t, c, lq, k + 1)
          IN IF below # NoZone THEN below ELSE here
     ELSE here
FindOp(t, c, q) ==
  IF <<c, <<>>>> \in NodesOf(t) THEN FindFrom(t, c, LowerName(q), 0)
  ELSE NoZone                      \* the top node's own zone is None

\* iter_zones: NodesIter is a depth-first walk with a stack of children
\* iterators (HashMap order: any order), first Roots.in_, then Roots.others
RECURSIVE SeqOfSet(_)
SeqOfSet(S) == IF S = {} THEN <<>> ELSE LET x == CHOOSE y \in S : TRUE IN <<x>> \o SeqOfSet(S \ {x})
Kids(t, n) == {m \in NodesOf(t) : m[1] = n[1] /\ m[2] # <<>> /\ Parent(m[2]) = n[2]}
RECURSIVE IterNode(_, _), IterKids(_, _)
IterNode(t, n) == (IF t[n] # NoZone THEN <<t[n]>> ELSE <<>>) \o IterKids(t, SeqOfSet(Kids(t, n)))
IterKids(t, ks) == IF ks = <<>> THEN <<>> ELSE IterNode(t, Head(ks)) \o IterKids(t, Tail(ks))
IterClass(t, c) == IF <<c, <<>>>> \in NodesOf(t) THEN IterNode(t, <<c, <<>>>>) ELSE <<>>
RECURSIVE IterClasses(_, _)
IterClasses(t, cs) == IF cs = <<>> THEN <<>> ELSE IterClass(t, Head(cs)) \o IterClasses(t, Tail(cs))
IterOp(t) ==
  IterClass(t, "IN") \o IterClasses(t, SeqOfSet({n[1] : n \in NodesOf(t)} \ {"IN"}))

-----------------------------------------------------------------------------
(* Declarative side: the abstract map and the longest-suffix match          *)
ZoneMap(t) == {<<n, t[n]>> : n \in Zones(t)}                \* (key, zone) pairs
Lookup(t, c, a) == IF Key(c, a) \in Zones(t) THEN t[Key(c, a)] ELSE NoZone
\* Names!IsSuffixOf on lower-cased names (they are the same relation, see the
\* ASSUME below; this form folds the case of q once instead of per zone)
SuffixL(ls, lq) == Len(ls) <= Len(lq) /\ Suffix(lq, Len(ls)) = ls
Encloses(apex, q) == SuffixL(LowerName(apex), LowerName(q))
Enclosing(t, c, q) == LET lq == LowerName(q) IN {n \in Zones(t) : n[1] = c /\ SuffixL(n[2], lq)}
LongestMatch(t, c, q) ==
  LET E == Enclosing(t, c, q)
  IN IF E = {} THEN NoZone
     ELSE t[CHOOSE n \in E : \A m \in E : Len(m[2]) <= Len(n[2])]
SeqSet(s) == {s[i] : i \in DOMAIN s}
NoDup(s) == \A i, j \in DOMAIN s : i # j => s[i] # s[j]

-----------------------------------------------------------------------------
(* State and actions: one action per public method                          *)
VARIABLES
  tree,
  nops,       \* number of mutating calls so far (bounds TLC)
  res         \* the last call and what it returned (hidden by VIEW in MC)
vars == <<tree, nops, res>>

Init == tree = EmptyTree /\ nops = 0 /\ res = [op |-> "Init"]

Insert(c, a, id) ==                \* ZoneTree::insert_zone(zone)
  /\ nops < MaxOps
  /\ LET r == InsertOp(tree, ZoneOf(id, c, a))
     IN /\ tree' = r.t
        /\ res' = [op |-> "Insert", c |-> c, a |-> a, id |-> id, out |-> r.res]
  /\ nops' = nops + 1

Remove(c, a) ==                    \* ZoneTree::remove_zone(apex_name, class)
  /\ nops < MaxOps
  /\ LET r == RemoveOp(tree, c, a, Dev)
     IN /\ tree' = r.t
        /\ res' = [op |-> "Remove", c |-> c, a |-> a, out |-> r.res]
  /\ nops' = nops + 1

Get(c, a) ==                       \* ZoneTree::get_zone
  /\ res' = [op |-> "Get", c |-> c, a |-> a, out |-> GetOp(tree, c, a).id]
  /\ UNCHANGED <<tree, nops>>

Find(c, q) ==                      \* ZoneTree::find_zone
  /\ res' = [op |-> "Find", c |-> c, a |-> q, out |-> FindOp(tree, c, q).id]
  /\ UNCHANGED <<tree, nops>>

Iter ==                            \* ZoneTree::iter_zones().collect()
  /\ res' = [op |-> "Iter", out |-> IterOp(tree)]
  /\ UNCHANGED <<tree, nops>>

Next ==
  \/ \E c \in Classes :
       \/ \E a \in ApexNames, id \in Ids : Insert(c, a, id)
       \/ \E a \in ArgNames : Remove(c, a) \/ Get(c, a)
       \/ \E q \in QNames : Find(c, q)
  \/ Iter

Spec == Init /\ [][Next]_vars

-----------------------------------------------------------------------------
(* Properties.  All are statements about every reachable tree and every     *)
(* argument, so they are state invariants over the pure operators.          *)
AllNames == ApexNames \cup ArgNames \cup QNames
ASSUME \A m \in AllNames : \A n \in AllNames : IsSuffixOf(m, n) <=> Encloses(m, n)
ASSUME \A n \in AllNames : ValidAbs(n)
\* one spelling per name: lookups fold the case of their argument first, so
\* the laws that compare two trees need not repeat every spelling
CanonNames == {LowerName(n) : n \in AllNames}

TypeOK ==
  /\ ParentClosed(tree)
  /\ \A n \in Zones(tree) : tree[n].class = n[1] /\ LowerName(tree[n].apex) = n[2]

\* X03.1
FindIsLongestMatch ==
  \A c \in Classes : \A q \in AllNames :
    LET z == FindOp(tree, c, q)
    IN /\ z = LongestMatch(tree, c, q)
       /\ z # NoZone => /\ z.class = c
                        /\ Encloses(z.apex, q)
                        /\ \A n \in Zones(tree) : (n[1] = c /\ Encloses(n[2], q)) => Len(n[2]) <= Len(z.apex)
       /\ z = NoZone => ~\E n \in Zones(tree) : n[1] = c /\ Encloses(n[2], q)
GetIsExact ==
  \A c \in Classes : \A a \in AllNames : GetOp(tree, c, a) = Lookup(tree, c, a)

\* X03.2: the abstract effect of the two mutators, for every argument
InsertLaw ==
  \A c \in Classes : \A a \in ApexNames : \A id \in Ids :
    LET z == ZoneOf(id, c, a)  r == InsertOp(tree, z)  k == Key(c, a)
    IN /\ r.res = "ok" <=> k \notin Zones(tree)
       /\ ZoneMap(r.t) = IF r.res = "ok" THEN ZoneMap(tree) \cup {<<k, z>>} ELSE ZoneMap(tree)
RemoveLaw ==
  \A c \in Classes : \A a \in AllNames :
    LET r == RemoveOp(tree, c, a, Dev)  k == Key(c, a)
    IN /\ r.res = "ok" <=> k \in Zones(tree)
       /\ ZoneMap(r.t) = {p \in ZoneMap(tree) : p[1] # k}

\* every observation: what a caller can learn about a tree
Obs(t) == [get  |-> [c \in Classes |-> [a \in CanonNames |-> GetOp(t, c, a)]],
           find |-> [c \in Classes |-> [q \in CanonNames |-> FindOp(t, c, q)]],
           iter |-> SeqSet(IterOp(t))]
\* insert;remove restores every observation, and insert;remove;insert is the
\* second insert alone (no trace of the first zone)
RoundTrip ==
  \A c \in Classes : \A a \in ApexNames : \A i1 \in Ids :
    Key(c, a) \notin Zones(tree) =>
      LET i2 == i1 + 1
          t1 == InsertOp(tree, ZoneOf(i1, c, a)).t
          t2 == RemoveOp(t1, c, a, Dev).t
      IN /\ Obs(t2) = Obs(tree)
         /\ Obs(InsertOp(t2, ZoneOf(i2, c, a)).t) = Obs(InsertOp(tree, ZoneOf(i2, c, a)).t)
\* removing a zone changes get_zone for its own key only, and find_zone only
\* for names it enclosed, which fall to the next enclosing zone; zones above
\* and below it stay
RemoveIsLocal ==
  \A k \in Zones(tree) :
    LET t1 == RemoveOp(tree, k[1], tree[k].apex, Dev).t
    IN /\ \A m \in Zones(tree) \ {k} : m \in Zones(t1) /\ t1[m] = tree[m]
       /\ \A c \in Classes : \A q \in CanonNames :
            /\ Key(c, q) # k => GetOp(t1, c, q) = GetOp(tree, c, q)
            /\ FindOp(tree, c, q) # tree[k] => FindOp(t1, c, q) = FindOp(tree, c, q)
            /\ FindOp(tree, c, q) = tree[k] =>
                 FindOp(t1, c, q) = LongestMatch([tree EXCEPT ![k] = NoZone], c, q)
InsertIsLocal ==
  \A c \in Classes : \A a \in ApexNames : \A id \in Ids :
    LET r == InsertOp(tree, ZoneOf(id, c, a))  k == Key(c, a)
    IN \A c2 \in Classes : \A q \in CanonNames :
         /\ Key(c2, q) # k => GetOp(r.t, c2, q) = GetOp(tree, c2, q)
         /\ (r.res = "err" \/ c2 # c \/ ~Encloses(a, q)) => FindOp(r.t, c2, q) = FindOp(tree, c2, q)

\* X03.3
IterExact ==
  LET s == IterOp(tree)
  IN NoDup(s) /\ SeqSet(s) = {tree[n] : n \in Zones(tree)}
     /\ Len(s) = Cardinality(Zones(tree))

\* the step relation itself (checked as an action property where `res` is
\* part of the fingerprint; redundant with the laws above)
StepLaw ==
  LET m == ZoneMap(tree)  m2 == ZoneMap(tree')  r == res'
  IN CASE r.op = "Insert" ->
            LET k == Key(r.c, r.a)
            IN IF r.out = "ok" THEN k \notin Zones(tree) /\ m2 = m \cup {<<k, ZoneOf(r.id, r.c, r.a)>>}
               ELSE k \in Zones(tree) /\ m2 = m
       [] r.op = "Remove" ->
            LET k == Key(r.c, r.a)
            IN IF r.out = "ok" THEN k \in Zones(tree) /\ m2 = {p \in m : p[1] # k}
               ELSE k \notin Zones(tree) /\ m2 = m
       [] r.op = "Get" -> m2 = m /\ r.out = Lookup(tree, r.c, r.a).id
       [] r.op = "Find" -> m2 = m /\ r.out = LongestMatch(tree, r.c, r.a).id
       [] OTHER -> m2 = m
StepsObeyLaw == [][StepLaw]_vars
=============================================================================
