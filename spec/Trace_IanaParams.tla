-------------------------- MODULE Trace_IanaParams --------------------------
(* I->S: a recorded run of the real IANA types (one event per public call:  *)
(* a random code written by every writer, a random text read by every       *)
(* reader) must be explained by the writers / readers of IanaParams.tla     *)
(* over the registry tables of IanaTables.tla: every recorded result is the *)
(* specified one, or the one a single named deviation (Dev) produces.        *)
EXTENDS IanaTables, Json, IOUtils

Rec == ndJsonDeserialize(IOEnv.TRACE)

VARIABLES l
tvars == <<l>>

IsEv(e) == l <= Len(Rec) /\ Rec[l].ev = e /\ l' = l + 1
Has(e, f) == f \in DOMAIN e

WriteOkT(e, T, dv) ==
  LET st == T.style IN
  /\ e.c \in 0..T.max
  /\ e.display = Display(T, e.c)
  /\ Has(e, "mn") = (st \in {"prefix", "withdec", "decimal", "rcode"})
  /\ Has(e, "mn") => e.mn = MnJ(T, e.c)
  /\ Has(e, "token") = HasToken(T)
  /\ Has(e, "token") => e.token = Token(T, e.c)
  /\ Has(e, "ser") = HasSerde(T)
  /\ Has(e, "ser") => e.ser = SerHuman(T, e.c)

WriteOk(e, dv) == WriteOkT(e, TT(e.ty, dv), dv)

ReadOkT(e, T, dv) ==
  /\ e.fromstr = Res(FromStr(T, e.t, dv))
  /\ Has(e, "mn") = (T.style # "rcode")
  /\ Has(e, "mn") => e.mn = Res(FromMn(T, e.t))
  /\ Has(e, "de") = (HasSerde(T) /\ T.id # "Rcode")
  /\ Has(e, "de") => e.de = Res(DeStr(T, e.t, dv))

ReadOk(e, dv) == ReadOkT(e, TT(e.ty, dv), dv)

Explained(P(_, _), e) == P(e, {}) \/ \E d \in Dev : P(e, {d})

TInit == l = 1
\* codes whose registry name this transcription does not claim (unsure) are skipped
Unsure(e) == TI(e.ty).unsure
HitsUnsure(e) == \/ Has(e.fromstr, "ok") /\ e.fromstr.ok \in Unsure(e)
                 \/ Has(e, "mn") /\ Has(e.mn, "ok") /\ e.mn.ok \in Unsure(e)
\* an optional registry row may be named or not (TA: every optional row adopted)
WithAll(P(_, _, _), e) == \E dv \in {{}} \cup {{d} : d \in Dev} : P(e, TA(e.ty), dv)
T_Write == IsEv("write") /\ (Rec[l].c \in Unsure(Rec[l]) \/ Explained(WriteOk, Rec[l]) \/ WithAll(WriteOkT, Rec[l]))
T_Read == IsEv("read") /\ (HitsUnsure(Rec[l]) \/ Explained(ReadOk, Rec[l]) \/ WithAll(ReadOkT, Rec[l]))
TNext == T_Write \/ T_Read
TSpec == TInit /\ [][TNext]_tvars

Accepted ==
  LET d == TLCGet("stats").diameter
  IN IF d = Len(Rec) + 1 THEN TRUE
     ELSE /\ PrintT("TRACE_REJECTED " \o ToJson([matched |-> d - 1, total |-> Len(Rec),
                      event |-> IF d <= Len(Rec) THEN Rec[d] ELSE [ev |-> "none"]]))
          /\ FALSE
=============================================================================
