CONSTANTS
  Dev = {}
  Mut = {}
  Names = {"a.example"}
  Types = {"A"}
  Cases = {0}
  AdVals = {FALSE, TRUE}
  CdVals = {FALSE}
  DoVals = {FALSE, TRUE}
  RdVals = {FALSE, TRUE}
  WithBypass = FALSE
  Classes <- FlagClasses
  TtlVecs <- TV_One
  AdBits = {TRUE}
  Ticks <- TK_Flags
  Configs <- CfgsDefault
  MaxSteps = 0
SPECIFICATION GSpec
INVARIANT EmitCfg
INVARIANT GProp
CHECK_DEADLOCK FALSE
