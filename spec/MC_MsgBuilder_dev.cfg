CONSTANTS
  Dev = {"D_ptr_limit_c000"}
  Scenario = "big"
  MaxOps = 4
  CompSet = {"static", "tree", "hash"}
  TgtSet = {"vec"}
SPECIFICATION Spec
INVARIANT ParseBack
CHECK_DEADLOCK FALSE
