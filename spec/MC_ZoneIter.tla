----------------------------- MODULE MC_ZoneIter -----------------------------
(* The record-data grammar through the string-token scanner (IterScanner).   *)
(* For each record type of a table, a valid token list; one token at a time   *)
(* is respelled (first octet as \DDD, as \c) or damaged (a backslash, one or  *)
(* two digits, \256, a control character after the backslash, at its end), a  *)
(* token is dropped, a token is added.  The expectation is the reader         *)
(* machine's (IterOutcome in ZoneFile.tla): the two scanners implement one    *)
(* grammar.                                                                   *)
EXTENDS ZoneFile, TLC, Json

VARIABLES row, pos, mut, act
vars == <<row, pos, mut, act>>

Dec3(b) == <<BSL, 48 + (b \div 100), 48 + ((b \div 10) % 10), 48 + (b % 10)>>
Row(name, rtype, strs, ascii, names) == [name |-> name, rtype |-> rtype, strs |-> strs, ascii |-> ascii, names |-> names]
N1 == <<110, 46>>                \* "n."
Rows == {
  Row("txt", 16, <<<<116>>, <<117, 118>>>>, {}, {}),
  Row("hinfo", 13, <<<<99>>, <<111, 115>>>>, {}, {}),
  Row("ns", 2, <<<<97, 46, 98, 46>>>>, {}, {1}),
  Row("ns-rel", 2, <<<<97, 46, 98>>>>, {}, {1}),
  Row("mx", 15, <<<<49, 48>>, N1>>, {}, {2}),
  Row("soa", 6, <<N1, <<114, 46>>, <<49>>, <<50>>, <<51>>, <<52>>, <<53>>>>, {}, {1, 2}),
  Row("ds", 43, <<<<49>>, <<56>>, <<50>>, <<65, 66>>, <<99, 100>>>>, {2, 3}, {}),
  Row("dnskey", 48, <<<<50, 53, 55>>, <<51>>, <<49, 51>>, <<65, 81, 73, 68>>, <<66, 65, 61, 61>>>>, {3}, {}),
  Row("openpgpkey", 61, <<<<113, 56, 48, 66>>>>, {}, {}),
  Row("tlsa", 52, <<<<51>>, <<49>>, <<49>>, <<48, 102>>>>, {1, 2, 3}, {}),
  Row("nsec", 47, <<N1, <<65>>, <<84, 88, 84>>>>, 2..9, {1}),
  Row("nsec3param", 51, <<<<49>>, <<48>>, <<53>>, <<45>>>>, {1}, {}),
  Row("nsec3", 50, <<<<49>>, <<48>>, <<53>>, <<97, 98>>, <<48, 52>>, <<65>>>>, {1} \cup 6..9, {}),
  Row("generic", 65280, <<<<BSL, HASH>>, <<50>>, <<97, 98>>, <<48, 49>>>>, {}, {}),
  Row("generic-known", 16, <<<<BSL, HASH>>, <<50>>, <<48, 49, 55, 52>>>>, {}, {}) }

Muts == {"id", "dec_first", "esc_first", "end_bsl", "end_d1", "end_d2", "end_256", "end_ctl", "end_esc", "drop", "add"}
Mutate(strs, p, m) ==
  LET t == strs[p] IN
  CASE m = "id" -> strs
    [] m = "dec_first" -> [strs EXCEPT ![p] = Dec3(t[1]) \o Tail(t)]
    [] m = "esc_first" -> [strs EXCEPT ![p] = <<BSL, t[1]>> \o Tail(t)]
    [] m = "end_bsl"   -> [strs EXCEPT ![p] = t \o <<BSL>>]
    [] m = "end_d1"    -> [strs EXCEPT ![p] = t \o <<BSL, 48>>]
    [] m = "end_d2"    -> [strs EXCEPT ![p] = t \o <<BSL, 48, 52>>]
    [] m = "end_256"   -> [strs EXCEPT ![p] = t \o <<BSL, 50, 53, 54>>]
    [] m = "end_ctl"   -> [strs EXCEPT ![p] = t \o <<BSL, 7>>]
    [] m = "end_esc"   -> [strs EXCEPT ![p] = t \o <<BSL, 48, 52, 56>>]          \* \048 = "0"
    [] m = "drop"      -> [i \in 1..(Len(strs) - 1) |-> IF i < p THEN strs[i] ELSE strs[i + 1]]
    [] m = "add"       -> [i \in 1..(Len(strs) + 1) |-> IF i <= p THEN strs[i] ELSE IF i = p + 1 THEN <<49>> ELSE strs[i - 1]]

Init == /\ row \in Rows /\ pos \in 1..Len(row.strs) /\ mut \in Muts /\ act = row.name
Next == UNCHANGED vars
Spec == Init /\ [][Next]_vars

Strs == Mutate(row.strs, pos, mut)
Out(dv) == IterOutcome(row.rtype, Strs, row.ascii, row.names, dv)
Ideal == Out({})
\* the unmutated rows are accepted, the damaged ones rejected
WellFormed == /\ (mut = "id" /\ row.name # "ns-rel") => "rd" \in DOMAIN Ideal
              /\ (mut \in {"end_bsl", "end_d1", "end_d2", "end_256", "end_ctl"}) => Ideal = [err |-> TRUE]

DevsOf == {d \in {"D_iter_marker_not_consumed", "D_iter_bad_escape_ends_token"} : Out({d}) # Ideal}
Emit ==
  LET inp == [iter |-> TRUE, rtype |-> row.rtype, toks |-> Strs, act |-> row.name, mut |-> mut, text |-> <<>>]
      ds == DevsOf
  IN IF Ideal = Unmodelled THEN TRUE                                                \* the specification abstains
     ELSE IF \E d \in ds : Out({d}) = Unmodelled THEN TRUE  \* not predicted under the deviation
     ELSE IF ds = {} THEN PrintT("CASE " \o ToJson([in |-> inp, exp |-> Ideal]))
     ELSE PrintT("CASE " \o ToJson([in |-> inp, exp |-> Ideal, dev |-> [d \in ds |-> Out({d})]]))
=============================================================================
