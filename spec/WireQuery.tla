----------------------------- MODULE WireQuery -----------------------------
(* C01: the QUERY methods of record data that was parsed from a message are  *)
(* total functions of (parsed value x argument).                             *)
(*                                                                           *)
(* A type bitmap (RFC 4034 4.1.2, NSEC / NSEC3) as the reader holds it is a  *)
(* sequence of windows [n |-> window number, o |-> 1..32 octets].  What a    *)
(* query returns is a function of that VALUE:                                *)
(*    contains(t)  ==  t \in TypesOf(bitmap)                                 *)
(*    iter()       ==  the set bits window by window, ascending in a window  *)
(*    is_empty()   ==  no window                                             *)
(* `ContainsOp` is the same question answered the way the implementation     *)
(* walks the octets (find the window of the type's block, guard the octet    *)
(* index against the window's length, test the mask); MC_WireQuery checks    *)
(* that both agree for every enumerated (value, type).                       *)
(* NSEC3's hashed owner and salt are octet strings; comparing them with an   *)
(* argument of any length is sequence equality.                              *)
EXTENDS Naturals, Sequences, FiniteSets

Pow2(k) == 2 ^ k
\* bit b of an octet, b = 0 the most significant one (RFC 4034: "bit 0")
BitSet(x, b) == (x \div Pow2(7 - b)) % 2 = 1

---------------------------------------------------------------------------
(* wire form <-> value *)

RECURSIVE BMWire(_)
BMWire(ws) == IF ws = <<>> THEN <<>>
              ELSE <<ws[1].n, Len(ws[1].o)>> \o ws[1].o \o BMWire(Tail(ws))

\* what the reader must enforce before it hands out a value: every window
\* is complete and has 1..32 octets (RFC 4034 4.1.2)
RECURSIVE ParseBM(_)
ParseBM(w) ==
  IF w = <<>> THEN [ok |-> TRUE, ws |-> <<>>]
  ELSE IF Len(w) < 2 \/ w[2] = 0 \/ w[2] > 32 \/ Len(w) < 2 + w[2] THEN [ok |-> FALSE, ws |-> <<>>]
  ELSE LET r == ParseBM(SubSeq(w, 3 + w[2], Len(w)))
       IN IF r.ok THEN [ok |-> TRUE, ws |-> <<[n |-> w[1], o |-> SubSeq(w, 3, 2 + w[2])]>> \o r.ws]
          ELSE r

\* the further rules a sender is held to: windows strictly ascending, no
\* trailing zero octet in a window
RFCValid(ws) ==
  /\ \A i \in 1..Len(ws) : ws[i].o[Len(ws[i].o)] # 0
  /\ \A i \in 1..Len(ws) - 1 : ws[i].n < ws[i + 1].n
DistinctWindows(ws) == \A i, j \in 1..Len(ws) : ws[i].n = ws[j].n => i = j

---------------------------------------------------------------------------
(* the queries *)

TypesOfW(w) == { w.n * 256 + 8 * (i - 1) + b : i \in 1..Len(w.o), b \in 0..7 }
TypesIn(w) == { t \in TypesOfW(w) : BitSet(w.o[((t % 256) \div 8) + 1], t % 8) }
TypesOf(ws) == UNION { TypesIn(ws[k]) : k \in 1..Len(ws) }

Contains(ws, t) == t \in TypesOf(ws)

RECURSIVE ContainsOp(_, _)
ContainsOp(ws, t) ==
  IF ws = <<>> THEN FALSE
  ELSE LET block == t \div 256
           octet == (t % 256) \div 8
           bit   == t % 8
       IN IF ws[1].n = block
            THEN Len(ws[1].o) > octet /\ BitSet(ws[1].o[octet + 1], bit)
            ELSE ContainsOp(Tail(ws), t)

IterW(w) == LET S == TypesIn(w)
            IN SelectSeq([k \in 1..(8 * Len(w.o)) |-> w.n * 256 + k - 1], LAMBDA t : t \in S)
RECURSIVE IterTypes(_)
IterTypes(ws) == IF ws = <<>> THEN <<>> ELSE IterW(ws[1]) \o IterTypes(Tail(ws))

\* every type of a set of blocks, ascending: the arguments of a case
RECURSIVE BlockTypes(_)
BlockTypes(bs) == IF bs = <<>> THEN <<>>
                  ELSE [k \in 1..256 |-> bs[1] * 256 + k - 1] \o BlockTypes(Tail(bs))
ContainsList(ws, bs) == LET S == TypesOf(ws) IN SelectSeq(BlockTypes(bs), LAMBDA t : t \in S)

\* octet strings compared with an argument of any length
OctEq(x, arg) == x = arg

---------------------------------------------------------------------------
(* the record that carries the value, in a message *)

EncU16(v) == <<v \div 256, v % 256>>
\* (bmw: the bitmap in wire form, well-formed or not)
NsecRdata(next, bmw) == next \o bmw
Nsec3Rdata(salt, hash, bmw) == <<1, 0, 0, 1, Len(salt)>> \o salt \o <<Len(hash)>> \o hash \o bmw
\* a response with one answer record owned by the root
MsgOf(rt, rdata) == <<18, 52, 128, 0, 0, 0, 0, 1, 0, 0, 0, 0>> \o <<0>> \o EncU16(rt) \o <<0, 1, 0, 0, 0, 60>>
                      \o EncU16(Len(rdata)) \o rdata

\* what the queries of a case return
QueryProj(bmwire, bs) ==
  LET p == ParseBM(bmwire) IN
  IF ~p.ok THEN [parse |-> "err"]
  ELSE [parse |-> "ok", empty |-> (p.ws = <<>>), iter |-> IterTypes(p.ws),
        contains |-> ContainsList(p.ws, bs)]
=============================================================================
