---------------------------- MODULE MC_ServerPre ----------------------------
(* C16 part 1b: what the middleware stack decides before the service sees  *)
(* a request, enumerated over every configuration of the three middleware *)
(* services x transport x request shape (opcode, number of questions,      *)
(* number of OPT records, EDNS version, keepalive with timeout, COOKIE      *)
(* option of every form, server-cookie timestamps all around the serial    *)
(* number circle, hash right or wrong).  Every request is answered exactly  *)
(* once by somebody, with the request's ID; every enumerated evaluation is  *)
(* also one implementation case (S->I).                                      *)
EXTENDS Server, Json

CONSTANTS Deltas,      \* distances of the cookie timestamp from the server's clock, <<hi, lo>>
          BadLens      \* COOKIE option lengths RFC 7873 5.2.2 forbids

\* (cfg files cannot say tuples)  0, 290, 310, 7200 s ahead; both sides of
\* 2^31 - 3600, of 2^31, 2^31 + 7200 (numerically later than the clock, yet
\* "expired" in serial arithmetic), 3/4 round; 2 h, 3610 s, 3590 s, 1 s ago
DeltasQuick == {<<0, 0>>, <<0, 290>>, <<0, 310>>, <<0, 7200>>, <<32767, 61926>>, <<32767, 61936>>,
                <<32767, 61946>>, <<32768, 0>>, <<32768, 290>>, <<32768, 7200>>, <<49152, 0>>,
                <<65535, 58336>>, <<65535, 61926>>, <<65535, 61946>>, <<65535, 65535>>}
DeltasThorough == DeltasQuick \cup
               {<<0, 1>>, <<0, 65535>>, <<1, 0>>, <<16384, 0>>, <<32767, 0>>, <<32767, 65535>>,
                <<32768, 1>>, <<32768, 310>>, <<32768, 3600>>, <<32769, 0>>, <<65535, 0>>,
                <<65534, 65535>>, <<65535, 65236>>}

VARIABLES cs, done
vars == <<cs, done>>

Far == [form |-> "std", hashok |-> FALSE, d |-> <<32768, 7200>>]
Cks == {NoCk, [form |-> "client", hashok |-> FALSE, d |-> <<0, 0>>],
        [form |-> "nonstd", hashok |-> FALSE, d |-> <<0, 0>>]}
       \cup [form : {"std"}, hashok : BOOLEAN, d : Deltas]
\* forbidden lengths are a property of the octets, the verdict only needs "badlen"
BadCks == {[form |-> "badlen", hashok |-> FALSE, d |-> <<n, 0>>] : n \in BadLens}

Cfgs == [strict : BOOLEAN, eon : BOOLEAN, con : BOOLEAN, denied : BOOLEAN]
Few == {NoCk, Far}
Reqs == {p \in [udp : BOOLEAN, opcode : {"query", "iquery"}, qd : 0..2, nopt : 0..2,
                ver : 0..1, kato : BOOLEAN, ck : Cks \cup BadCks] :
           /\ (p.nopt = 0 => p.ver = 0 /\ ~p.kato /\ p.ck = NoCk)
           /\ (p.nopt = 2 => p.ver = 0 /\ ~p.kato /\ p.ck \in Few)
           /\ (p.ver = 1 => ~p.kato /\ p.ck \in Few)
           /\ (p.kato => p.ck \in Few)
           /\ ((p.opcode = "iquery" \/ p.qd = 2) => p.ck \in Few)}
\* the server secret: given to ::new, or ::with_random_secret -- then a
\* valid cookie can only be one the server handed out itself just now
Secrets == {"fixed", "random"}
Cases == {c \in [cfg : Cfgs, p : Reqs, secret : Secrets] :
            c.secret = "random" =>
               /\ c.cfg.con
               /\ (c.p.ck.form = "std" /\ c.p.ck.hashok) => c.p.ck.d = <<0, 0>>}

Init == cs \in Cases /\ done = FALSE
Next == ~done /\ done' = TRUE /\ UNCHANGED cs
Spec == Init /\ [][Next]_vars

V == StackVerdict(cs.cfg, cs.p)
\* "for every request ... exactly once": the decision procedure is total
Answered == AnsweredOnce(cs.cfg, cs.p)
DeniedGuard == DeniedNeedsValid(cs.cfg, cs.p)
\* the transcription of timestamp_ok agrees with RFC 9018 4.3 everywhere
\* on the circle, including both sides of the 2^31 "undefined" distance
TimeLaw == cs.p.ck.form = "std" => (TimestampOk(TsOf(cs.p.ck.d)) = InWindow(cs.p.ck.d))
\* a far-away, expired or future timestamp never validates, whatever the hash
FarNeverValid == (cs.p.ck.form = "std" /\ ~InWindow(cs.p.ck.d)) => ~CookieValid(cs.p.ck)
\* vacuity guards
SomeValid   == ~(done /\ cs.p.nopt = 1 /\ CookieValid(cs.p.ck) /\ V.by = "service")
SomeBadCookie == ~(done /\ V.rcode = RcBadCookie)
SomeEarly   == ~(done /\ V.by = "edns")

ExpFor(c) ==
  LET v == StackVerdict(c.cfg, c.p)
  IN [n |-> 1, by |-> IF v.by \in {"edns", "cookies"} THEN "inner" ELSE v.by, rcode |-> v.rcode, tc |-> v.tc,
      q |-> IF c.p.qd = 0 THEN "req" ELSE v.q, ck |-> v.ck, good |-> TRUE,
      hints |-> HintsFor(v.by, 1)]

Emit == done => PrintT("CASE " \o ToJson(
   [in  |-> [kind |-> "pre", udp |-> cs.p.udp,
             cfg |-> [strict |-> cs.cfg.strict, edns_on |-> cs.cfg.eon, ck_on |-> cs.cfg.con,
                      denied |-> cs.cfg.denied, secret |-> cs.secret,
                      explicit_on |-> cs.p.udp],
             req |-> [opcode |-> cs.p.opcode, qd |-> cs.p.qd, nopt |-> cs.p.nopt,
                      ver |-> cs.p.ver, kato |-> cs.p.kato,
                      ck |-> [form |-> cs.p.ck.form, hash |-> IF cs.p.ck.hashok THEN "ok" ELSE "bad",
                              d |-> cs.p.ck.d]]],
    exp |-> ExpFor(cs)]))
=============================================================================
