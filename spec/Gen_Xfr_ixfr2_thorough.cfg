CONSTANTS
  Dev <- EnvDev
  RecU = {1, 2, 5}
  TtlU = {0}
  Styles = {"rfc"}
  MaxC = 1
  Kinds = {"ixfr2"}
  MaxMsgs = 3
  FaultKinds = {"none", "drop", "dup", "swap", "trunc", "hdr", "wrongq", "csoa"}
  LaterQ = {FALSE}
SPECIFICATION GenSpec
INVARIANT EmitCase
CHECK_DEADLOCK FALSE
