CONSTANTS
  Dev = {"D_queue_full_drop"}
  Conns = {1}
  MaxReq = 2
  QCaps = {1}
  Kinds = {"single", "stream2"}
  MaxCredit = 2
  MaxTick = 2
  NP = 1
  Limit = 1
  MaxAErr = 0
  AAMs = {TRUE}
  MaxFail = 1
  MaxAbort = 1
SPECIFICATION SpecConn
INVARIANT EachResponseOnce
CHECK_DEADLOCK FALSE
