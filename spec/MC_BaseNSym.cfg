CONSTANTS
  Dev = {}
  L16 = 5
  L32 = 5
  L64 = 5
SPECIFICATION Spec
INVARIANT ConvEqualsFunction
INVARIANT SaltEqualsFunction
INVARIANT ConvEqualsDecoder
INVARIANT EscapedOctetRejected
INVARIANT ConvIndexInBounds
INVARIANT RunAgrees
INVARIANT EmitSym
INVARIANT EmitSymProbe
INVARIANT EmitBadEsc
CHECK_DEADLOCK FALSE
