CONSTANTS
  Dev = {}
  MaxRecs = 2
SPECIFICATION Spec
INVARIANT ZoneReadEqualsWritten
INVARIANT SingleRecordComesBack
CHECK_DEADLOCK FALSE
