-------------------------- MODULE MC_ClientDgramPar --------------------------
(* TLC explores ClientDgramPar (named actions, liveness) for small limits. *)
EXTENDS ClientDgramPar
M2(mp, mr, rt) == DgScript("new", <<Call("set_read_timeout", rt), Call("set_max_retries", mr),
                                    Call("set_max_parallel", mp)>>)
MCParConfs == {M2(0, 0, 10000), M2(1, 1, 10000), M2(2, 1, 20000), M2(3, 0, 10000),
               M2(1001, 0, 10000), DgScript("new", <<Call("set_max_retries", 1)>>)}
=============================================================================
