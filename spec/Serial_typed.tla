---------------------------- MODULE Serial_typed ----------------------------
(* Typed copy of Serial.tla for Apalache (SMT, unbounded integers), used   *)
(* only as an *extension* of check C17: the four RFC 1982 laws and the     *)
(* equality of the transcribed comparisons with the RFC text, for BITS=32, *)
(* over all values symbolically.  The operator bodies are copied verbatim  *)
(* from Serial.tla (CASE written as IF for the SMT encoding); M and H are  *)
(* literals because Apalache wants constant exponents folded.              *)
EXTENDS Integers

M == 4294967296          \* 2^32
H == 2147483648          \* 2^31

B == 65536               \* limb base 2^16 (SerialLimbs.tla at LW = 16)

VARIABLES
  \* @type: Int;
  a,
  \* @type: Int;
  b,
  \* @type: Int;
  n,
  \* limbs of a 32-bit operand x, of an operand / addend y
  \* @type: Int;
  xh,
  \* @type: Int;
  xl,
  \* @type: Int;
  yh,
  \* @type: Int;
  yl

\* @type: (Int, Int) => Int;
Add(s, k) == (s + k) % M

\* @type: (Int, Int) => Bool;
Lt(i1, i2) == \/ (i1 < i2 /\ i2 - i1 < H)
              \/ (i1 > i2 /\ i1 - i2 > H)
\* @type: (Int, Int) => Bool;
Gt(i1, i2) == \/ (i1 < i2 /\ i2 - i1 > H)
              \/ (i1 > i2 /\ i1 - i2 < H)

\* @type: (Int, Int) => Str;
Cmp(x, y) == IF x = y THEN "EQ"
             ELSE IF Lt(x, y) THEN "LT"
             ELSE IF Gt(x, y) THEN "GT"
             ELSE "UNDEF"

\* @type: (Int, Int) => Str;
ImplCmp(x, y) ==
  IF x = y THEN "EQ"
  ELSE IF x < y
       THEN (IF y - x < H THEN "LT" ELSE IF y - x > H THEN "GT" ELSE "UNDEF")
       ELSE (IF x - y < H THEN "GT" ELSE IF x - y > H THEN "LT" ELSE "UNDEF")

\* @type: (Int, Int) => Int;
AbsDiff(x, y) == IF x < y THEN y - x ELSE x - y

\* @type: (Int, Int) => Str;
ImplCmpNew(x, y) ==
  IF x = y THEN "EQ"
  ELSE IF AbsDiff(x, y) = H THEN "UNDEF"
  ELSE IF ((x < y) /\ ~(AbsDiff(x, y) > H)) \/ (~(x < y) /\ (AbsDiff(x, y) > H)) THEN "LT"
  ELSE "GT"

\* @type: Str => Str;
Flip(r) == IF r = "LT" THEN "GT" ELSE IF r = "GT" THEN "LT" ELSE r

----------------------------------------------------------------------------
(* SerialLimbs.tla at LW = 16 with tuples <<hi, lo>> flattened to two      *)
(* integers (operator bodies otherwise verbatim).                           *)

\* @type: (Int, Int, Int, Int) => Bool;
LLess(ph, pl, qh, ql) == ph < qh \/ (ph = qh /\ pl < ql)

\* @type: (Int, Int, Int, Int) => Int;
LSubLo(ph, pl, qh, ql) == pl - ql + (IF pl < ql THEN 1 ELSE 0) * B
\* @type: (Int, Int, Int, Int) => Int;
LSubHi(ph, pl, qh, ql) == (ph - qh - (IF pl < ql THEN 1 ELSE 0) + B) % B

\* @type: (Int, Int, Int, Int) => Int;
LAddLo(ph, pl, qh, ql) == (pl + ql) % B
\* @type: (Int, Int, Int, Int) => Int;
LAddHi(ph, pl, qh, ql) == (ph + qh + ((pl + ql) \div B)) % B

\* LHalf = <<B \div 2, 0>>
\* @type: (Int, Int) => Bool;
BelowHalf(dh, dl) == LLess(dh, dl, B \div 2, 0)
\* @type: (Int, Int) => Bool;
AboveHalf(dh, dl) == LLess(B \div 2, 0, dh, dl)

\* @type: (Int, Int, Int, Int) => Bool;
LLt(ph, pl, qh, ql) ==
  \/ (LLess(ph, pl, qh, ql) /\ BelowHalf(LSubHi(qh, ql, ph, pl), LSubLo(qh, ql, ph, pl)))
  \/ (LLess(qh, ql, ph, pl) /\ AboveHalf(LSubHi(ph, pl, qh, ql), LSubLo(ph, pl, qh, ql)))
\* @type: (Int, Int, Int, Int) => Bool;
LGt(ph, pl, qh, ql) ==
  \/ (LLess(ph, pl, qh, ql) /\ AboveHalf(LSubHi(qh, ql, ph, pl), LSubLo(qh, ql, ph, pl)))
  \/ (LLess(qh, ql, ph, pl) /\ BelowHalf(LSubHi(ph, pl, qh, ql), LSubLo(ph, pl, qh, ql)))

\* @type: (Int, Int, Int, Int) => Str;
LCmp(ph, pl, qh, ql) == IF ph = qh /\ pl = ql THEN "EQ"
                        ELSE IF LLt(ph, pl, qh, ql) THEN "LT"
                        ELSE IF LGt(ph, pl, qh, ql) THEN "GT"
                        ELSE "UNDEF"

\* one symbolic state: any two 32-bit values and any addend; any two limb pairs
Init == /\ a \in 0 .. (M - 1)
        /\ b \in 0 .. (M - 1)
        /\ n \in 0 .. (H - 1)
        /\ xh \in 0 .. (B - 1)
        /\ xl \in 0 .. (B - 1)
        /\ yh \in 0 .. (B - 1)
        /\ yl \in 0 .. (B - 1)
Next == UNCHANGED <<a, b, n, xh, xl, yh, yl>>

\* the limb operators at LW = 16 compute the integer model at BITS = 32
LimbsMatch ==
  LET x == xh * B + xl
      y == yh * B + yl
  IN /\ LCmp(xh, xl, yh, yl) = Cmp(x, y)
     /\ LAddHi(xh, xl, yh, yl) * B + LAddLo(xh, xl, yh, yl) = Add(x, y)
     /\ LSubHi(xh, xl, yh, yl) * B + LSubLo(xh, xl, yh, yl) = (x - y) % M
     /\ (LLess(xh, xl, yh, yl) <=> x < y)
     /\ (BelowHalf(yh, yl) <=> y <= H - 1)

LawAddGreater == n >= 1 => Cmp(a, Add(a, n)) = "LT"
LawAntisymmetric == /\ Cmp(b, a) = Flip(Cmp(a, b))
                    /\ ~(Lt(a, b) /\ Lt(b, a))
                    /\ ~(Lt(a, b) /\ Gt(a, b))
                    /\ (Cmp(a, b) = "EQ" <=> a = b)
LawUndefExactly == Cmp(a, b) = "UNDEF" <=> (a - b) % M = H
LawShiftInvariant == Cmp(Add(a, n), Add(b, n)) = Cmp(a, b)
ImplMatches == ImplCmp(a, b) = Cmp(a, b) /\ ImplCmpNew(a, b) = Cmp(a, b)

AllLaws == /\ LawAddGreater
           /\ LawAntisymmetric
           /\ LawUndefExactly
           /\ LawShiftInvariant
           /\ ImplMatches
=============================================================================
