CONSTANTS
  Dev = {"D_stream_response_timeout_ignored"}
  MaxReq = 1
  RT = 1
  DefRT = 2
  IdleCfg = 1
  RqCap = 8
  ChanCap = 8
  MaxFrames = 0
  MaxQ = 1
  MaxId = 0
  KaVals = {}
  XQs = {}
  XfrIds = {}
  XfrAll = FALSE
  QVars = {}
  EndKinds = {}
  Frames <- MCFrames
SPECIFICATION Spec
INVARIANT TimerArmed
CHECK_DEADLOCK FALSE
