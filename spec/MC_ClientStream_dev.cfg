CONSTANTS
  Dev = {"D_stream_response_timeout_ignored"}
  MaxReq = 1
  TickMs = 10000
  StConfs <- St_1_1
  RqCap = 8
  ChanCap = 8
  MaxFrames = 0
  MaxQ = 1
  MaxId = 0
  KaVals = {}
  XQs = {}
  XfrIds = {}
  XfrAll = FALSE
  QVars = {}
  EndKinds = {}
  Frames <- MCFrames
SPECIFICATION Spec
INVARIANT TimerArmed
INVARIANT Configured
CHECK_DEADLOCK FALSE
