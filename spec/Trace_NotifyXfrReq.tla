------------------------- MODULE Trace_NotifyXfrReq -------------------------
(* I->S: recorded calls of the real Notify(Xfr(next)) stack (configuration, *)
(* abstract request, projected outcome per event) must each be the outcome  *)
(* NotifyXfrReq.tla specifies -- or, for an event inside the guard of an    *)
(* open deviation (environment X05_<name>), the outcome modelled for it.    *)
EXTENDS NotifyXfrReq, TLC, Json, IOUtils

Rec == ndJsonDeserialize(IOEnv.TRACE)
Open == {d \in AllDevs : ("X05_" \o d) \in DOMAIN IOEnv}

VARIABLES l
tvars == <<l, cfg, req, phase, cb, pv, nx, rs>>

DevChoices0 == {{}, Open} \cup {{d} : d \in Open}
DevChoices == IF "D_ixfr_udp_extra_servfail" \in Open
              THEN DevChoices0 \cup {D \cup {"late_any"} : D \in DevChoices0} ELSE DevChoices0

\* an event whose packing meets a total of exactly `limit` octets is not judged
StreamOf(c, r) == IF r.qt = "IXFR" /\ DiffsFrom(c, SerialTag(r)) # <<>>
                  THEN IxfrRecs(DiffsFrom(c, SerialTag(r))) ELSE AxfrRecs(c)
Amb(c, r) == /\ XfrRelevant(r)
             /\ LET recs == StreamOf(c, r)
                    szs == [j \in 1 .. Len(recs) |-> RecSize(c, recs[j])]
                IN \E rr \in {0, 1} : PackAll(szs, Params(Fixed, Limit(r), rr, r.udp)).amb

Explained(c, r, o) ==
  \/ o = DecideD(c, r, {})
  \/ o = DecideD(c, r, Open)
  \/ \E D \in DevChoices : o = DecideD(c, r, D)
  \/ \E j \in 1 .. Len(NotifyAlts(c, r)) : NotifyRelevant(r, {}) /\ o = NotifyAlts(c, r)[j]
  \/ Amb(c, r)

TInit == l = 1 /\ Init
T_Call == /\ l <= Len(Rec) /\ Rec[l].ev = "call"
          /\ Explained(Rec[l].cfg, Rec[l].req, Rec[l].obs)
          /\ l' = l + 1
          /\ UNCHANGED vars
TSpec == TInit /\ [][T_Call]_tvars

Accepted ==
  LET d == TLCGet("stats").diameter
  IN IF d = Len(Rec) + 1 THEN TRUE
     ELSE /\ PrintT("TRACE_REJECTED " \o ToJson([depth |-> d, total |-> Len(Rec),
                        event |-> IF d <= Len(Rec) THEN Rec[d] ELSE [ev |-> "-"],
                        ideal |-> IF d <= Len(Rec) THEN DecideD(Rec[d].cfg, Rec[d].req, {}) ELSE <<>>]))
          /\ FALSE
=============================================================================
