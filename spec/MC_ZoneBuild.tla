---------------------------- MODULE MC_ZoneBuild ----------------------------
(* C13, the sign-zone workflow as a machine.  State: the SortedRecords     *)
(* collection.  The zone is assembled in batches (From<Vec>, extend(),      *)
(* insert()) that repeat records, the NSEC chain is generated and extended  *)
(* into the collection, and generated again.  Properties: the collection is *)
(* always the sorted duplicate-free sequence of its content, however it was *)
(* assembled; the chain is a function of the content (one NSEC per owner);  *)
(* adding the chain's own NSEC records does not change the chain.  Every    *)
(* behaviour is an S->I case with the expected collection after every step. *)
EXTENDS Denial, Json

la == <<97>>  lb == <<98>>  ex == <<101, 120>>
Apex == <<ex>>
R(n, t) == [n |-> n, t |-> t]
z1 == R(Apex, T_SOA)          z2 == R(Apex, T_NS)         z3 == R(<<la, ex>>, T_A)
z4 == R(<<lb, ex>>, T_NS)     z5 == R(<<la, lb, ex>>, T_A)  z6 == R(<<Star, ex>>, T_TXT)
First == { <<z6, z5, z4, z3, z2, z1>>, <<z1, z3, z5, z1>>, <<z2, z4>> }
Second == { <<z6, z4, z2, z5, z3, z1>>, <<z1, z2, z3, z4, z5, z6, z1>> }
Range(s) == {s[i] : i \in 1..Len(s)}

VARIABLES coll,      \* SortedRecords: a sequence
          content,   \* the set of records put in so far
          phase, hist
vars == <<coll, content, phase, hist>>

Init == coll = <<>> /\ content = {} /\ phase = 0 /\ hist = <<>>

\* From<Vec>: sort + dedup; extend(): push all, sort, dedup; insert(): binary
\* search, refuse an equal record.  All three leave the sorted sequence of
\* the union.
Put(op, batch) ==
  /\ content' = content \cup Range(batch)
  /\ coll' = SortRecs(content')
  /\ hist' = Append(hist, [op |-> op, batch |-> batch, coll |-> coll', chain |-> <<>>])
  /\ phase' = phase + 1

Batches == IF phase = 0 THEN First ELSE IF phase = 1 THEN Second ELSE {}
BuildFrom   == phase = 0 /\ \E b \in First : Put("from", b)
BuildExtend == \E b \in Batches : Put("extend", b)
BuildInsert == \E b \in Batches : Put("insert", b)

Chain == NsecPass(coll, Apex, TRUE)
NsecRecs(c) == {R(c[i].owner, T_NSEC) : i \in 1..Len(c)}
\* generate_nsecs, then extend() the collection with the generated records
GenExtend ==
  /\ phase \in {2, 3} /\ ~Chain.err
  /\ content' = content \cup NsecRecs(Chain.out)
  /\ coll' = SortRecs(content')
  /\ hist' = Append(hist, [op |-> "gen_extend", batch |-> <<>>, coll |-> coll', chain |-> Chain.out])
  /\ phase' = phase + 1
Gen ==
  /\ phase = 4 /\ ~Chain.err
  /\ hist' = Append(hist, [op |-> "gen", batch |-> <<>>, coll |-> coll, chain |-> Chain.out])
  /\ phase' = 5
  /\ UNCHANGED <<coll, content>>

Next == BuildFrom \/ BuildExtend \/ BuildInsert \/ GenExtend \/ Gen
Spec == Init /\ [][Next]_vars

CollectionIsSortedContent == coll = SortRecs(content) /\ IsSortedRecs(coll)
Zone0 == {r \in content : r.t # T_NSEC}
\* one NSEC per authoritative owner, whatever the assembly and however often
\* the chain was added to the collection
ChainIsFunctionOfContent ==
  phase >= 2 => /\ ~Chain.err
                /\ LowChain(Chain.out) = NsecChain(content, Apex, TRUE)
                /\ NsecChain(content, Apex, TRUE) = NsecChain(Zone0, Apex, TRUE)

ChainJ(c) == [i \in 1..Len(c) |-> [owner |-> c[i].owner, next |-> c[i].next,
                                  types |-> SortSetBy(c[i].types, LAMBDA x, y : x < y)]]
Emit == phase = 5 =>
  PrintT("CASE " \o ToJson(
    [in  |-> [kind |-> "zonebuild", apex |-> Apex,
              ops |-> [i \in 1..Len(hist) |-> [op |-> hist[i].op, batch |-> hist[i].batch]]],
     exp |-> [steps |-> [i \in 1..Len(hist) |-> [coll |-> hist[i].coll, chain |-> ChainJ(hist[i].chain)]]]]))
=============================================================================
