---------------------------- MODULE MC_ZoneBuild ----------------------------
(* C13, the sign-zone workflow as a machine.  State: the SortedRecords     *)
(* collection.  The zone is assembled in batches (From<Vec>, extend(),      *)
(* insert()) that repeat records, the NSEC chain is generated and extended  *)
(* into the collection, and generated again.  Properties: the collection is *)
(* always the sorted duplicate-free sequence of its content, however it was *)
(* assembled; the chain is a function of the content (one NSEC per owner);  *)
(* adding the chain's own NSEC records does not change the chain.  Every    *)
(* behaviour is an S->I case with the expected collection after every step. *)
(* Records are also taken out again (remove_all_by_name_class_rtype,        *)
(* remove_first_by_name_class_rtype: by owner, optionally class and type)   *)
(* and changed in place (update_data) before the chain is generated, and    *)
(* the generated NSEC records are stripped and the chain generated afresh;  *)
(* after every step the collection's observers (len, is_empty, find_soa,    *)
(* find_apex_rtype) show the content.                                       *)
EXTENDS Denial, Json

la == <<97>>  lb == <<98>>  ex == <<101, 120>>
Apex == <<ex>>
R(n, t) == [n |-> n, t |-> t]
z1 == R(Apex, T_SOA)          z2 == R(Apex, T_NS)         z3 == R(<<la, ex>>, T_A)
z4 == R(<<lb, ex>>, T_NS)     z5 == R(<<la, lb, ex>>, T_A)  z6 == R(<<Star, ex>>, T_TXT)
First == { <<z6, z5, z4, z3, z2, z1>>, <<z1, z3, z5, z1>>, <<z2, z4>> }
Second == { <<z6, z4, z2, z5, z3, z1>>, <<z1, z2, z3, z4, z5, z6, z1>> }
Range(s) == {s[i] : i \in 1..Len(s)}

VARIABLES coll,      \* SortedRecords: a sequence
          content,   \* the set of records put in so far
          phase, hist,
          edited,    \* a removal / update happened (at most one per behaviour)
          stripped   \* the generated NSEC records have been removed again
vars == <<coll, content, phase, hist, edited, stripped>>

Init == coll = <<>> /\ content = {} /\ phase = 0 /\ hist = <<>> /\ edited = FALSE /\ stripped = FALSE

\* what the observers show
Obs(c) == [len |-> Len(c), empty |-> c = <<>>,
           soa |-> \E i \in 1..Len(c) : c[i].t = T_SOA,
           apexns |-> \E i \in 1..Len(c) : c[i].t = T_NS /\ NameEq(c[i].n, Apex)]
Step(op, batch, c, chain, sel, found) ==
  [op |-> op, batch |-> batch, coll |-> c, chain |-> chain, sel |-> sel, found |-> found, obs |-> Obs(c)]
NoSel == [n |-> <<>>, class |-> 0, t |-> 0]

\* From<Vec>: sort + dedup; extend(): push all, sort, dedup; insert(): binary
\* search, refuse an equal record.  All three leave the sorted sequence of
\* the union.
Put(op, batch) ==
  /\ content' = content \cup Range(batch)
  /\ coll' = SortRecs(content')
  /\ hist' = Append(hist, Step(op, batch, coll', <<>>, NoSel, FALSE))
  /\ phase' = phase + 1
  /\ UNCHANGED <<edited, stripped>>

Batches == IF phase = 0 THEN First ELSE IF phase = 1 THEN Second ELSE {}
BuildFrom   == phase = 0 /\ \E b \in First : Put("from", b)
BuildExtend == \E b \in Batches : Put("extend", b)
BuildInsert == \E b \in Batches : Put("insert", b)

Chain == NsecPass(coll, Apex, TRUE)
NsecRecs(c) == {R(c[i].owner, T_NSEC) : i \in 1..Len(c)}
\* generate_nsecs, then extend() the collection with the generated records
GenExtend ==
  /\ phase \in {2, 3} /\ ~Chain.err
  /\ content' = content \cup NsecRecs(Chain.out)
  /\ coll' = SortRecs(content')
  /\ hist' = Append(hist, Step("gen_extend", <<>>, coll', Chain.out, NoSel, FALSE))
  /\ phase' = phase + 1
  /\ UNCHANGED <<edited, stripped>>
Gen ==
  /\ phase = 4 /\ ~Chain.err /\ (edited => stripped)
  /\ hist' = Append(hist, Step("gen", <<>>, coll, Chain.out, NoSel, FALSE))
  /\ phase' = 5
  /\ UNCHANGED <<coll, content, edited, stripped>>

\* Selectors: owner name (any spelling), class (0 = any, 1 = IN, 3 = CH) and
\* type (0 = any).  The collection holds class IN only.
Sel(n, c, t) == [n |-> n, class |-> c, t |-> t]
Matches(r, sel) == NameEq(r.n, sel.n) /\ sel.class \in {0, 1} /\ (sel.t = 0 \/ r.t = sel.t)
Selectors ==
  { Sel(<<la, ex>>, 1, T_A), Sel(<<<<66>>, <<69, 88>>>>, 0, T_NS),   \* "B.EX": un-delegates b.ex
    Sel(Apex, 1, T_NS), Sel(<<Star, ex>>, 0, 0), Sel(<<lb, ex>>, 1, 0),
    Sel(<<la, lb, ex>>, 0, T_A), Sel(<<la, ex>>, 3, T_A), Sel(<<la, ex>>, 1, T_TXT),
    Sel(<<<<99>>, ex>>, 0, 0) }
\* remove_all_by_name_class_rtype: every matching record goes, the result
\* says whether there was one
\* (the content at this point is the same however it was assembled: edits are
\* explored on the behaviours that started with From<Vec>)
CanEdit == phase = 2 /\ ~edited /\ hist[1].op = "from"
RemoveAll ==
  /\ CanEdit
  /\ \E sel \in Selectors :
        LET gone == {r \in content : Matches(r, sel)}
        IN /\ content' = content \ gone
           /\ coll' = SortRecs(content')
           /\ hist' = Append(hist, Step("remove_all", <<>>, coll', <<>>, sel, gone # {}))
  /\ edited' = TRUE
  /\ UNCHANGED <<phase, stripped>>
\* remove_first_by_name_class_rtype: one matching record goes; which one is
\* only determined when the selector names the type (one record per owner
\* and type here)
RemoveFirst ==
  /\ CanEdit
  /\ \E sel \in {x \in Selectors : x.t # 0} :
        LET gone == {r \in content : Matches(r, sel)}
        IN /\ content' = content \ gone
           /\ coll' = SortRecs(content')
           /\ hist' = Append(hist, Step("remove_first", <<>>, coll', <<>>, sel, gone # {}))
  /\ edited' = TRUE
  /\ UNCHANGED <<phase, stripped>>
\* update_data: the data of the first record the matcher accepts is
\* replaced; owner, class and type -- all the chain depends on -- stay
UpdateData ==
  /\ CanEdit
  /\ \E sel \in {x \in Selectors : x.t # 0 /\ x.class = 1} :
        hist' = Append(hist, Step("update", <<>>, coll, <<>>, sel, \E r \in content : Matches(r, sel)))
  /\ edited' = TRUE
  /\ UNCHANGED <<coll, content, phase, stripped>>
\* after two rounds of generate + extend: take the NSEC records out again,
\* owner by owner (remove_all with type NSEC); the zone's own records remain
StripNsecs ==
  /\ phase = 4 /\ ~stripped
  /\ content' = {r \in content : r.t # T_NSEC}
  /\ coll' = SortRecs(content')
  /\ hist' = Append(hist, Step("strip_nsec", <<>>, coll', <<>>, NoSel, \E r \in content : r.t = T_NSEC))
  /\ stripped' = TRUE
  /\ UNCHANGED <<phase, edited>>

Next == BuildFrom \/ BuildExtend \/ BuildInsert \/ GenExtend \/ Gen
        \/ RemoveAll \/ RemoveFirst \/ UpdateData \/ StripNsecs
Spec == Init /\ [][Next]_vars

CollectionIsSortedContent == coll = SortRecs(content) /\ IsSortedRecs(coll)
Zone0 == {r \in content : r.t # T_NSEC}
\* one NSEC per authoritative owner, whatever the assembly and however often
\* the chain was added to the collection
ChainIsFunctionOfContent ==
  phase >= 2 => /\ ~Chain.err
                /\ LowChain(Chain.out) = NsecChain(content, Apex, TRUE)
                /\ NsecChain(content, Apex, TRUE) = NsecChain(Zone0, Apex, TRUE)

ChainJ(c) == [i \in 1..Len(c) |-> [owner |-> c[i].owner, next |-> c[i].next,
                                  types |-> SortSetBy(c[i].types, LAMBDA x, y : x < y)]]
Emit == phase = 5 =>
  PrintT("CASE " \o ToJson(
    [in  |-> [kind |-> "zonebuild", apex |-> Apex,
              ops |-> [i \in 1..Len(hist) |-> [op |-> hist[i].op, batch |-> hist[i].batch, sel |-> hist[i].sel]]],
     exp |-> [steps |-> [i \in 1..Len(hist) |-> [coll |-> hist[i].coll, chain |-> ChainJ(hist[i].chain),
                                                 found |-> hist[i].found, obs |-> hist[i].obs]]]]))
=============================================================================
