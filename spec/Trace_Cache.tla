---------------------------- MODULE Trace_Cache ----------------------------
(* I->S: a recorded run of the real cache::Connection (one event per       *)
(* public call: the query, what upstream answered if it was consulted,     *)
(* what the client was served, the virtual time) must be a behaviour of    *)
(* Cache.tla, and the property is evaluated in every state.                *)
(* The recorder keeps the number of live keys below the configured         *)
(* capacity, so no Evict steps are needed to explain a run.                *)
EXTENDS Cache, TLC, Json, IOUtils

Rec == ndJsonDeserialize(IOEnv.TRACE)

VARIABLE l
tvars == <<cfg, now, entries, log, last, l>>

IsEv(e) == l <= Len(Rec) /\ Rec[l].ev = e /\ l' = l + 1

(* the first event is {"ev":"init","cfg":{...}} *)
TInit == l = 2 /\ InitWith(Rec[1].cfg)

T_Tick == /\ IsEv("tick")
          /\ Tick(Rec[l].d)

(* q.route says how the recorder built the request; the flags are what the *)
(* specification says that route composes to (the flags the recorder      *)
(* logged are not read).  fwd: the request upstream found on the wire.    *)
T_Query == /\ IsEv("query")
           /\ LET e == Rec[l] IN
              /\ now = e.t
              /\ Query(e.q, e.up)
              /\ last'.fromCache = ~e.upstream
              /\ last'.served = e.served
              /\ e.upstream => /\ FlagsOf(e.fwd) = FlagsOf(last'.asked)
                               /\ last'.asked.nq >= 1 =>
                                     /\ e.fwd.name = last'.asked.name
                                     /\ e.fwd.qtype = last'.asked.qtype

TNext == T_Tick \/ T_Query
TSpec == TInit /\ [][TNext]_tvars

Accepted ==
  LET d == TLCGet("stats").diameter
  IN IF d = Len(Rec) THEN TRUE
     ELSE /\ PrintT("TRACE_REJECTED " \o ToJson([matched |-> d, total |-> Len(Rec),
                      event |-> IF d + 1 <= Len(Rec) THEN Rec[d + 1] ELSE [ev |-> "none"]]))
          /\ FALSE
=============================================================================
