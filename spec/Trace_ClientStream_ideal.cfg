CONSTANTS
  Dev = {}
  MaxReq = 150
  TickMs = 10000
  StConfs <- St_3_2
  RqCap = 8
  ChanCap = 8
  MaxFrames = 0
  EndKinds = {}
  Frames = {}
SPECIFICATION TSpec
INVARIANT OwnAnswer
INVARIANT AtMostOnce
INVARIANT NoCross
INVARIANT SlotTableSound
INVARIANT NothingLost
POSTCONDITION Accepted
CHECK_DEADLOCK FALSE
