---------------------------- MODULE ReqCompose ----------------------------
(* X15 - request composition for the client transports                     *)
(* (src/net/client/request.rs: RequestMessage, RequestMessageMulti, the    *)
(* ComposeRequest / ComposeRequestMulti traits).                            *)
(*                                                                          *)
(* A request object keeps a SOURCE message (never changed), a copy of its   *)
(* header that header_mut() edits, and an OPT record "to add if required"   *)
(* that the three EDNS setters create and edit.  Every transport puts       *)
(* append_message(target) / to_vec() on the wire, the cache keys on         *)
(* to_message(), the validator and TSIG transports read the getters and     *)
(* compose again.  Properties (stated by the builder), for EVERY source     *)
(* message the constructor accepts and EVERY sequence of setter calls:      *)
(*                                                                          *)
(* P1 ONE MESSAGE.  to_message(), to_vec() and append_message(t) into any   *)
(*    target t (compressing or not, limited or not) denote the same         *)
(*    abstract message (header, counts, questions, records with their       *)
(*    uncompressed rdata), or all fail; header() and dnssec_ok() are the    *)
(*    header and the DO bit of that message.  A target of limited capacity  *)
(*    fails iff the octets do not fit and otherwise holds the same octets.  *)
(* P2 THAT MESSAGE IS: the header as last written through header_mut(), the *)
(*    source's questions and its records of all three sections in order     *)
(*    except OPT records, followed by exactly one OPT record iff one of     *)
(*    set_udp_payload_size / set_dnssec_ok / add_opt was called, carrying   *)
(*    the last payload size, the last DO value (0 / FALSE if never set),    *)
(*    extended rcode and version 0, and the options in the order pushed;    *)
(*    the four counts are the lengths of the sections.  (Nothing is         *)
(*    documented about an OPT record of the source: all routes, the getter  *)
(*    and the callers agree that it is dropped, never merged - specified    *)
(*    as implemented, see the report.)                                      *)
(* P3 COMPOSING IS A READ: it does not change the request, composing twice  *)
(*    gives the same octets, a setter after a compose shows in the next.    *)
(* P4 is_answer(response) is the documented relation - QR set, the ID of    *)
(*    the CURRENT header, and either a header-only error reply or the same  *)
(*    QDCOUNT and questions as the source (Multi: an AXFR reply may leave   *)
(*    the question section empty) - for every response, also truncated      *)
(*    ones.  The relation is MsgPair.tla's ReqIsAnswerV / ReqMultiIsAnswerV *)
(*    (not copied).                                                         *)
(*                                                                          *)
(* Named deviation D_rdata_pointers_verbatim: append_message_impl copies    *)
(* records as UnknownRecordData, i.e. the rdata octets verbatim including   *)
(* compression pointers, while owner names are re-composed; into a target   *)
(* that does not compress (Vec, Bytes, StreamTarget: what the stream        *)
(* transports send) every owner name is spelled out, the records move and   *)
(* the pointers inside rdata point at other octets.                         *)
EXTENDS MsgPair, TLC
\* (MsgPair EXTENDS Wire, which declares CONSTANT Dev)

RT_OPT == 41

\* ------------------------------------------------------------------ data
\* header: [id, qr, op, aa, tc, rd, ra, z, ad, cd, rc] (numbers)
HFields == {"id", "qr", "op", "aa", "tc", "rd", "ra", "z", "ad", "cd", "rc"}
\* question: <<name, type, class>>, name a sequence of labels (Names.tla)
\* record: [o, t, c, ttl, rd, bad]: owner, type, class, ttl <<hi, lo>>, the
\*   UNCOMPRESSED rdata octets; bad # rd: the source stores this rdata with a
\*   compression pointer whose target is not in the question section, and
\*   bad is what that pointer hits once the owner names before it are spelled
\*   out (<<-1>>: nothing that can be read as this type's rdata)
\* source: [h, q, an, ns, ar, comp, cut]: comp = 1 built with a compressor,
\*   cut = 1 ARCOUNT claims one record more than there is (hostile source)
\* opt state: <<>> (none) or <<[udp, do, opts]>>, opts = <<<<code, data>>...>>

IsOpt(r) == r.t = RT_OPT
Strip(r) == [o |-> r.o, t |-> r.t, c |-> r.c, ttl |-> r.ttl, rd |-> r.rd]
StripAll(s) == [i \in DOMAIN s |-> Strip(s[i])]

RECURSIVE OptRd(_)
OptRd(opts) ==
  IF opts = <<>> THEN <<>>
  ELSE EncU16(Head(opts)[1]) \o EncU16(Len(Head(opts)[2])) \o Head(opts)[2] \o OptRd(Tail(opts))
DefaultOpt == [udp |-> 0, do |-> 0, opts |-> <<>>]
\* OptRecord::as_record(): root owner, class = payload size, ttl = ext rcode,
\* version, flags
OptRR(o) == [o |-> <<>>, t |-> RT_OPT, c |-> o.udp, ttl |-> <<0, o.do * 32768>>, rd |-> OptRd(o.opts)]

\* ---------------------------------------------------------- constructors
\* the header-and-question view MsgPair.tla's operators work on
ViewOf(h, q) ==
  [id |-> h.id, qr |-> h.qr = 1, opcode |-> h.op, rd |-> h.rd, rcode |-> h.rc,
   qd |-> Len(q), cnt |-> <<0, 0, 0>>, items |-> q, err |-> FALSE]
NewOk(kind, src) ==
  IF kind = "single" THEN ReqNewOkV(ViewOf(src.h, src.q)) ELSE ReqMultiNewOkV(ViewOf(src.h, src.q))
NewReq(kind, src) == [kind |-> kind, src |-> src, h |-> src.h, opt |-> <<>>]

\* ---------------------------------------------------------------- setters
OptMut(st) == IF st.opt = <<>> THEN DefaultOpt ELSE st.opt[1]
Setter(st, op) ==
  CASE op.k = "hset" -> [st EXCEPT !.h = [@ EXCEPT ![op.f] = op.v]]
    [] op.k = "udp" -> [st EXCEPT !.opt = <<[OptMut(st) EXCEPT !.udp = op.v]>>]
    [] op.k = "do" -> [st EXCEPT !.opt = <<[OptMut(st) EXCEPT !.do = op.v]>>]
    [] op.k = "addopt" -> [st EXCEPT !.opt = <<[OptMut(st) EXCEPT !.opts = Append(@, <<op.code, op.data>>)]>>]
SetterKinds == {"hset", "udp", "do", "addopt"}

\* --------------------------------------------------------- compose routes
Routes == {"to_message", "to_vec", "vec", "bytes", "stream", "static", "tree"}
Compressing(route) == route \in {"to_message", "to_vec", "static", "tree"}
Fail == [ok |-> FALSE]
Done(m) == [ok |-> TRUE, m |-> m]

\* what copying one record does to it
Corrupt(r) == [Strip(r) EXCEPT !.rd = r.bad]
CopyRec(st, r, compressing) ==
  IF "D_rdata_pointers_verbatim" \in Dev /\ r.bad # r.rd /\ st.src.comp = 1 /\ ~compressing
  THEN Corrupt(r) ELSE Strip(r)
CopyAll(st, s, compressing) == [i \in DOMAIN s |-> CopyRec(st, s[i], compressing)]

\* append_message_impl, line by line: header, questions, answer, authority,
\* additional without OPT, then the OPT record kept beside the message
AppendImpl(st, compressing) ==
  IF st.src.cut = 1 THEN Fail
  ELSE LET ar == CopyAll(st, SelectSeq(st.src.ar, LAMBDA r : ~IsOpt(r)), compressing)
                 \o (IF st.opt = <<>> THEN <<>> ELSE <<OptRR(st.opt[1])>>)
           an == CopyAll(st, st.src.an, compressing)
           ns == CopyAll(st, st.src.ns, compressing)
       IN Done([h |-> st.h, cnt |-> <<Len(st.src.q), Len(an), Len(ns), Len(ar)>>,
                q |-> st.src.q, an |-> an, ns |-> ns, ar |-> ar])
\* to_message_impl: append into StaticCompressor<Vec>, finish, parse;
\* to_vec: the octets of to_message; append_message: into the caller's target
Compose(st, route) == AppendImpl(st, Compressing(route))

\* -------------------------------------------------------- declarative oracle
NonOpt(s) == SelectSeq(s, LAMBDA r : ~IsOpt(r))
Ideal(st) ==
  IF st.src.cut = 1 THEN Fail
  ELSE LET ar == StripAll(NonOpt(st.src.ar)) \o (IF st.opt = <<>> THEN <<>> ELSE <<OptRR(st.opt[1])>>)
       IN Done([h |-> st.h, cnt |-> <<Len(st.src.q), Len(st.src.an), Len(st.src.ns), Len(ar)>>,
                q |-> st.src.q, an |-> StripAll(st.src.an), ns |-> StripAll(st.src.ns), ar |-> ar])

\* ---------------------------------------------------------------- getters
GetHeader(st) == st.h
GetDo(st) == IF st.opt = <<>> THEN 0 ELSE st.opt[1].do

\* ---------------------------------------------------------------- is_answer
\* a response view: [id, qr, rcode, qd, cnt, items, err] (+ the fields the
\* MsgPair operators do not read)
IsAns(st, a) ==
  IF st.kind = "single" THEN ReqIsAnswerV(ViewOf(st.h, st.src.q), a)
  ELSE ReqMultiIsAnswerV(ViewOf(st.h, st.src.q), a)

\* the family of responses every state is asked about, derived from the
\* request itself (so that "the same question" and near misses exist)
UpLabel(l) == [i \in DOMAIN l |-> IF l[i] >= 97 /\ l[i] <= 122 THEN l[i] - 32 ELSE l[i]]
UpName(n) == [i \in DOMAIN n |-> UpLabel(n[i])]
UpQ(q) == [i \in DOMAIN q |-> <<UpName(q[i][1]), q[i][2], q[i][3]>>]
RetypeQ(q) == IF q = <<>> THEN q ELSE <<<<q[1][1], q[1][2] + 1, q[1][3]>>>> \o Tail(q)
Resp(id, qr, rcode, qd, cnt, items, err) ==
  [id |-> id, qr |-> qr, opcode |-> 0, rd |-> 0, rcode |-> rcode, qd |-> qd, cnt |-> cnt,
   items |-> items, err |-> err]
Z3 == <<0, 0, 0>>
Responses(st) ==
  LET id == st.h.id  q == st.src.q  n == Len(q) IN
  << Resp(id, TRUE, 0, n, Z3, q, FALSE),                    \* the answer
     Resp(id, FALSE, 0, n, Z3, q, FALSE),                   \* QR clear
     Resp((id + 1) % 65536, TRUE, 0, n, Z3, q, FALSE),      \* another ID
     Resp(st.src.h.id, TRUE, 0, n, Z3, q, FALSE),           \* the SOURCE's ID
     Resp(id, TRUE, 0, n, <<1, 0, 0>>, UpQ(q), FALSE),      \* names in upper case
     Resp(id, TRUE, 2, 0, Z3, <<>>, FALSE),                 \* header-only error
     Resp(id, TRUE, 2, 0, <<0, 0, 1>>, <<>>, FALSE),        \* error, no question, an OPT
     Resp(id, TRUE, 0, 0, Z3, <<>>, FALSE),                 \* NOERROR, no question
     Resp(id, TRUE, 0, n, Z3, RetypeQ(q), FALSE),           \* another type
     Resp(id, TRUE, 0, n + 1, Z3, q, TRUE),                 \* one question more, cut off
     Resp(id, TRUE, 3, n + 1, Z3, q, TRUE),
     Resp(id, TRUE, 0, IF n = 0 THEN 0 ELSE n - 1, Z3,
          IF n = 0 THEN q ELSE SubSeq(q, 1, n - 1), FALSE)  \* one question fewer
  >>
AnsAll(st) == [i \in DOMAIN Responses(st) |-> IF IsAns(st, Responses(st)[i]) THEN 1 ELSE 0]

\* ------------------------------------------------------------- projection
\* what the executor reads after every call: the message of the routes that
\* compress and of those that do not, the getters, is_answer on the family
ProjMsg(r) == IF r.ok THEN <<r.m>> ELSE <<>>
Proj(st) ==
  [comp |-> ProjMsg(Compose(st, "to_message")), plain |-> ProjMsg(Compose(st, "vec")),
   h |-> GetHeader(st), do |-> GetDo(st), ans |-> AnsAll(st)]
ProjIdeal(st) ==
  [comp |-> ProjMsg(Ideal(st)), plain |-> ProjMsg(Ideal(st)),
   h |-> st.h, do |-> GetDo(st), ans |-> AnsAll(st)]

\* ---------------------------------------------------- state predicates
\* P1
RoutesAgree(st) == \A r \in Routes : Compose(st, r) = Compose(st, "to_message")
\* P2
Exactly(st) == \A r \in Routes : Compose(st, r) = Ideal(st)
OptRecs(s) == SelectSeq(s, LAMBDA r : r.t = RT_OPT)
OneOpt(st) ==
  \A r \in Routes : LET c == Compose(st, r) IN
    c.ok => /\ OptRecs(c.m.an) = <<>> /\ OptRecs(c.m.ns) = <<>>
            /\ Len(OptRecs(c.m.ar)) = (IF st.opt = <<>> THEN 0 ELSE 1)
            /\ (st.opt # <<>> => c.m.ar[Len(c.m.ar)].t = RT_OPT)
            /\ c.m.cnt = <<Len(c.m.q), Len(c.m.an), Len(c.m.ns), Len(c.m.ar)>>
GettersAgree(st) ==
  \A r \in Routes : LET c == Compose(st, r) IN
    c.ok => /\ c.m.h = GetHeader(st)
            /\ LET o == OptRecs(c.m.ar) IN
               GetDo(st) = (IF o = <<>> THEN 0 ELSE o[1].ttl[2] \div 32768)
\* P4: only the header's ID of the request matters, never its other fields
\* or the OPT state
AnsFrame(st) ==
  \A i \in DOMAIN Responses(st) :
    IsAns(st, Responses(st)[i]) = IsAns([st EXCEPT !.h = [st.src.h EXCEPT !.id = st.h.id], !.opt = <<>>],
                                        Responses(st)[i])
=============================================================================
