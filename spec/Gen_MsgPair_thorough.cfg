CONSTANTS
  Dev = {}
  Big = TRUE
SPECIFICATION Spec
INVARIANT Emit
CHECK_DEADLOCK FALSE
