------------------------------ MODULE Trace_Xfr ------------------------------
(* I->S for C10: a recorded run of the real sender (zone + commits served    *)
(* through XfrMiddlewareSvc) and of the real receiver (interpreter + updater *)
(* on a second zone) must be explained by Xfr.tla:                           *)
(*  new/commit  walk() shows exactly the content written, TTLs included; the  *)
(*              diff a commit reports is the one the specification's diff    *)
(*              capture derives for a session that rewrites every changed    *)
(*              RRset once and, applied to the content before, gives the     *)
(*              content after (property clause c)                            *)
(*  xfer        every response message passes check_response in sequence,    *)
(*              the concatenated answer sections *denote* (declarative       *)
(*              oracle) the sender's history from the client's version on,   *)
(*              the specification's receiver run on the same messages ends   *)
(*              in the sender's content, and so did the real receiver; a     *)
(*              real stream::Connection handed the messages of the transfer *)
(*              to a multi-response request as Xfr!ClientRun says, that is  *)
(*              all of them, in order, and then the end (ClientIdeal).      *)
(*                                                                          *)
(* Deviations (DESIGN 2.6): an event must be explained by the ideal model   *)
(* (pass), or by the model with some of the deviations listed as open       *)
(* switched on (then "TRACE_KNOWN" names the ones that were needed, the     *)
(* smallest such set); anything else rejects the trace.  So a tree in which *)
(* an open deviation has been repaired is accepted as well.                 *)
EXTENDS Xfr, Json, IOUtils

Rec == ndJsonDeserialize(IOEnv.TRACE)
TU == 1..32                       \* record universe of the recorder (base ids)

\* open deviations are handed over by the driver as environment variables
EnvDev == {d \in DevNames : d \in DOMAIN IOEnv}

VARIABLES l, hist
tvars == <<l, hist>>

\* Xfr.tla with exactly the deviations W switched on (the unqualified
\* operators of the EXTENDS above are only used where Dev does not matter)
XD(W) == INSTANCE Xfr WITH Dev <- W

\* Ex(W): "the event at l is explained with the deviations W".  Ideal first;
\* otherwise the smallest set of open deviations that explains it is reported.
Judge(Ex(_)) ==
  IF Ex({}) THEN TRUE
  ELSE LET Ws == {W \in (SUBSET EnvDev) \ {{}} : Ex(W)} IN
       /\ Ws # {}
       /\ LET W == CHOOSE W \in Ws : \A V \in Ws : Cardinality(W) <= Cardinality(V)
          IN \A d \in W : PrintT("TRACE_KNOWN " \o ToJson([dev |-> d, at |-> l, ev |-> Rec[l].ev]))

IsEv(e) == l <= Len(Rec) /\ Rec[l].ev = e /\ l' = l + 1

\* JSON view {"soa":[serials],"recs":[ids]} -> model view
MV(v) == [soa |-> [i \in 1..Len(v.soa) |-> v.soa[i] + 100], recs |-> v.recs]
SeqSet(s) == {s[i] : i \in 1..Len(s)}

TInit == l = 1 /\ hist = <<>>

T_New == /\ IsEv("new")
         /\ MV(Rec[l].walk) = [soa |-> <<101>>, recs |-> Rec[l].want]
         /\ hist' = <<>>

DiffOk(before, after, d) ==
  IF "none" \in DOMAIN d THEN FALSE        \* every recorded commit raises the serial
  ELSE /\ d.s = SerialOf(before.soa) /\ d.e = SerialOf(after.soa)
       /\ SortS(BagMinus(SortS(before.recs \o before.soa), d.rem) \o d.add) = SortS(after.recs \o after.soa)
       /\ BagMinus(d.rem, SortS(before.recs \o before.soa)) = <<>>

\* what Xfr.tla's diff capture reports for a write session that takes the
\* zone from view b to view a rewriting every changed RRset once (with the
\* deviations W: as built)
SessionDiff(W, b, a) ==
  LET K == Keys(SeqSet(b.recs) \cup SeqSet(a.recs))
      db == XD(W)!KeyNetDb(RrOf(K, SeqSet(b.recs)), RrOf(K, SeqSet(a.recs)))
  IN [s |-> SerialOf(b.soa), e |-> SerialOf(a.soa),
      add |-> SortS(FlatSorted(db.add) \o a.soa), rem |-> SortS(FlatSorted(db.rem) \o b.soa)]

T_Commit == /\ IsEv("commit")
            /\ LET b == MV(Rec[l].before)
                   a == MV(Rec[l].after)
                   d == Rec[l].diff
               IN /\ a = [soa |-> <<100 + Rec[l].serial>>, recs |-> Rec[l].want]
                  /\ "none" \notin DOMAIN d
                  /\ Judge(LAMBDA W :
                        /\ [s |-> d.s, e |-> d.e, add |-> d.add, rem |-> d.rem] = SessionDiff(W, b, a)
                        /\ ("D_zone_diff_ttl_change_lost" \notin W) => DiffOk(b, a, d))
            /\ UNCHANGED hist

T_Hist == /\ IsEv("hist")
          /\ hist' = Rec[l].versions

VersionAt(i) == [soa |-> <<100 + hist[i].s>>, recs |-> hist[i].recs]
LatestV == VersionAt(Len(hist))

\* What the difference sequences the sender derives from its commits make of
\* the client's version: the sender's history - unless a deviation of the
\* diff capture is open, then what the deviant difference sets carry.
HistC(i) == SeqSet(hist[i].recs)
LibStep(W, C, i) ==
  LET K == Keys(HistC(i) \cup HistC(i + 1))
      db == XD(W)!KeyNetDb(RrOf(K, HistC(i)), RrOf(K, HistC(i + 1)))
  IN OFold(OFold(C, FlatSorted(db.rem), TRUE), FlatSorted(db.add), FALSE)
RECURSIVE Carried(_, _, _)
Carried(W, from, j) == IF j = 0 THEN HistC(from) ELSE LibStep(W, Carried(W, from, j - 1), from + j - 1)
ExpectV(W, from, j) == [soa |-> <<100 + hist[from + j].s>>, recs |-> SetToSeq(Carried(W, from, j))]

\* the real stream client on the recorded messages: as the transcription of
\* check_stream says
ClientAsModel(e, ms) == e.client.outs = ClientRun(e.req, ms)

T_Xfer ==
  /\ IsEv("xfer")
  /\ LET e == Rec[l]
         ms == [i \in 1..Len(e.msgs) |-> [id |-> e.msgs[i].id, qr |-> e.msgs[i].qr, op |-> e.msgs[i].op,
                                          rc |-> e.msgs[i].rc, tc |-> e.msgs[i].tc, qd |-> e.msgs[i].qd,
                                          qdc |-> e.msgs[i].qdc, an |-> e.msgs[i].an,
                                          anc |-> e.msgs[i].anc, nsc |-> e.msgs[i].nsc]]
         c0 == SeqSet(e.rold.recs)
         den == Denotes(ms, e.req, e.rold.soa, c0)
         known == e.req = 251 /\ e.from < Len(hist) /\ e.from >= 1
     IN /\ \A i \in 1..Len(ms) : e.msgs[i].parse_ok /\ e.msgs[i].arc = 0
        \* sender: every message leaves the octets the request reserved (TSIG,
        \* OPT appended by outer middleware) within the 65535-octet TCP limit;
        \* a transfer larger than that budget is therefore split
        /\ Len(e.sizes) = Len(ms)
        /\ \A i \in 1..Len(ms) : e.sizes[i] + e.reserved <= 65535
        /\ den.allValid /\ den.rd.complete /\ ~den.rd.bad
        /\ MV(e.sender) = LatestV
        /\ ~e.rpanic
        \* stream client (real): every message of the transfer, in order, then
        \* the end - as the transcription says and as the oracle says
        /\ ClientAsModel(e, ms)
        /\ e.client.outs = ClientIdeal(ms, e.req, e.rold.soa, c0)
        /\ Judge(LAMBDA W :
             LET run == XD(W)!RunStream(ContentOf(TU, e.rold.soa, c0), e.req, ms)
                 target == IF known THEN ExpectV(W, e.from, Len(hist) - e.from) ELSE LatestV
             IN /\ ("D_zone_diff_ttl_change_lost" \notin W) => target = LatestV
                \* sender: the stream denotes the sender's zone / history
                /\ den.rd.versions[Len(den.rd.versions)] = target
                /\ known => den.rd.versions = [i \in 1..(Len(hist) - e.from) |-> ExpectV(W, e.from, i)]
                \* receiver (model): accepts every message, finishes, ends in the sender's zone
                /\ ~Rejected(run) /\ Finished(run) /\ run.final = target
                /\ Range(AllPubs(run)) \subseteq {VersionView(e.rold.soa, c0)} \cup Range(den.rd.versions)
                \* receiver (real): same final content, same published content after every message
                /\ MV(e.rfinal) = run.final
                /\ Len(e.rsteps) = Len(run.steps)
                /\ \A i \in 1..Len(run.steps) :
                      /\ MV(e.rsteps[i].pub) = run.steps[i].pub
                      /\ e.rsteps[i].ups = run.steps[i].ups
                      /\ e.rsteps[i].ir = "ok" /\ e.rsteps[i].it = "ok" /\ e.rsteps[i].ap = "ok")
  /\ UNCHANGED hist

\* the sender's stream with its closing SOA replaced by one of the same serial
\* and other RDATA: never "finished", the real receiver does what the
\* specification's receiver does, nothing but described versions is published
T_XferBad ==
  /\ IsEv("xfer_bad")
  /\ LET e == Rec[l]
         ms == [i \in 1..Len(e.msgs) |-> [id |-> e.msgs[i].id, qr |-> e.msgs[i].qr, op |-> e.msgs[i].op,
                                          rc |-> e.msgs[i].rc, tc |-> e.msgs[i].tc, qd |-> e.msgs[i].qd,
                                          qdc |-> e.msgs[i].qdc, an |-> e.msgs[i].an,
                                          anc |-> e.msgs[i].anc, nsc |-> e.msgs[i].nsc]]
         c0 == SeqSet(e.rold.recs)
         old == VersionView(e.rold.soa, c0)
         den == Denotes(ms, e.req, e.rold.soa, c0)
         lastm == ms[Len(ms)]
     IN /\ lastm.an[Len(lastm.an)] >= 200              \* the corruption is what was meant
        /\ ~den.rd.complete
        /\ ~e.rpanic
        /\ \A i \in 1..Len(e.rsteps) : \A j \in 1..Len(e.rsteps[i].ups) : e.rsteps[i].ups[j][1] # "Fin"
        \* stream client (real): it looks at SOA serials only, as transcribed
        /\ ClientAsModel(e, ms)
        /\ Judge(LAMBDA W :
             LET run == XD(W)!RunStream(ContentOf(TU, e.rold.soa, c0), e.req, ms)
             IN /\ ~Finished(run)
                /\ Range(AllPubs(run)) \cup {run.final} \subseteq {old} \cup Range(den.rd.versions)
                /\ MV(e.rfinal) = run.final
                /\ Len(e.rsteps) = Len(run.steps)
                /\ \A i \in 1..Len(run.steps) :
                      /\ MV(e.rsteps[i].pub) = run.steps[i].pub
                      /\ e.rsteps[i].ups = run.steps[i].ups
                      /\ e.rsteps[i].ir = run.steps[i].ir /\ e.rsteps[i].it = run.steps[i].it)
  /\ UNCHANGED hist

\* IXFR over UDP: a single response message within (size hint - reserved
\* octets) that is a header-valid transfer response and carries either the
\* complete difference sequences from the client's version on or the lone
\* current SOA (retry over TCP)
T_XferUdp ==
  /\ IsEv("xfer_udp")
  /\ LET e == Rec[l]
         ms == [i \in 1..Len(e.msgs) |-> [id |-> e.msgs[i].id, qr |-> e.msgs[i].qr, op |-> e.msgs[i].op,
                                          rc |-> e.msgs[i].rc, tc |-> e.msgs[i].tc, qd |-> e.msgs[i].qd,
                                          qdc |-> e.msgs[i].qdc, an |-> e.msgs[i].an,
                                          anc |-> e.msgs[i].anc, nsc |-> e.msgs[i].nsc]]
         c0 == SeqSet(e.rold.recs)
         den == Denotes(ms, 251, e.rold.soa, c0)
     IN /\ Len(ms) = 1 /\ Len(e.sizes) = 1
        /\ e.sizes[1] + e.reserved <= e.hint
        /\ e.msgs[1].parse_ok
        /\ CheckResponse(IpNone, ms[1]) /\ IsAnswer(251, ms[1])
        /\ \/ ms[1].an = <<LatestV.soa[1]>>
           \/ /\ den.allValid /\ den.rd.complete /\ ~den.rd.bad
              /\ Judge(LAMBDA W : den.rd.versions = [i \in 1..(Len(hist) - e.from) |-> ExpectV(W, e.from, i)])
  /\ UNCHANGED hist

\* IXFR from a client that holds the server's current version or claims a
\* newer one: the lone SOA (RFC 1995 2 and 4), which the receiver reads as
\* "nothing to do / retry", never as a transfer; the client's zone stays as
\* it is
T_XferUtd ==
  /\ IsEv("xfer_utd")
  /\ LET e == Rec[l]
         ms == [i \in 1..Len(e.msgs) |-> [id |-> e.msgs[i].id, qr |-> e.msgs[i].qr, op |-> e.msgs[i].op,
                                          rc |-> e.msgs[i].rc, tc |-> e.msgs[i].tc, qd |-> e.msgs[i].qd,
                                          qdc |-> e.msgs[i].qdc, an |-> e.msgs[i].an,
                                          anc |-> e.msgs[i].anc, nsc |-> e.msgs[i].nsc]]
         c0 == SeqSet(e.rold.recs)
         old == VersionView(e.rold.soa, c0)
     IN /\ e.req = 251 /\ e.from >= Len(hist)
        /\ Len(ms) = 1 /\ e.msgs[1].parse_ok /\ e.msgs[1].arc = 0
        /\ CheckResponse(IpNone, ms[1]) /\ IsAnswer(251, ms[1])
        /\ ms[1].an = <<LatestV.soa[1]>>
        /\ e.from = Len(hist) => old = LatestV
        /\ ~e.rpanic
        \* stream client (real): the lone SOA is the whole answer
        /\ ClientAsModel(e, ms)
        /\ e.client.outs = ClientIdeal(ms, 251, e.rold.soa, c0)
        /\ Judge(LAMBDA W :
             LET run == XD(W)!RunStream(ContentOf(TU, e.rold.soa, c0), 251, ms)
             IN /\ ~Finished(run) /\ AllPubs(run) = <<>> /\ run.final = old
                /\ MV(e.rfinal) = run.final
                /\ Len(e.rsteps) = Len(run.steps)
                /\ \A i \in 1..Len(run.steps) :
                      /\ MV(e.rsteps[i].pub) = run.steps[i].pub
                      /\ e.rsteps[i].ups = run.steps[i].ups
                      /\ e.rsteps[i].ir = run.steps[i].ir /\ e.rsteps[i].it = run.steps[i].it)
  /\ UNCHANGED hist

TNext == T_New \/ T_Commit \/ T_Hist \/ T_Xfer \/ T_XferBad \/ T_XferUdp \/ T_XferUtd
TSpec == TInit /\ [][TNext]_tvars

Accepted ==
  LET d == TLCGet("stats").diameter
  IN IF d = Len(Rec) + 1 THEN TRUE
     ELSE /\ PrintT("TRACE_REJECTED " \o ToJson([matched |-> d - 1, total |-> Len(Rec),
                      event |-> IF d <= Len(Rec) THEN Rec[d] ELSE [ev |-> "none"]]))
          /\ FALSE
=============================================================================
