CONSTANTS
  Dev = {"D_ixfr_uptodate_full_zone"}
  Focus = "xfr"
  Thorough = FALSE
SPECIFICATION MCSpec
INVARIANT MachineIsFunction
INVARIANT P1_NotifyGate
INVARIANT P2_Transparent
INVARIANT P3_XfrGate
INVARIANT P4_XfrShape
CHECK_DEADLOCK FALSE
