CONSTANTS
  Dev = {}
  MaxLen = 6
  MaxOct = 5
SPECIFICATION Spec
INVARIANT MachineEqualsFunction
INVARIANT IndexInBounds
INVARIANT PushErrImpliesReject
INVARIANT ChunkingIrrelevant
INVARIANT RoundTrip
INVARIANT ProbeLaw
PROPERTY ErrorsSticky
CHECK_DEADLOCK FALSE
