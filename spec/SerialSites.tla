---------------------------- MODULE SerialSites ----------------------------
(* The sites of the library that compare or do arithmetic on 32-bit serial  *)
(* numbers / signature times / cookie timestamps, as a table: which         *)
(* operator of Serial.tla each site has to implement and what the site's    *)
(* observable decision is for a given result of that operator.  The MC_*    *)
(* modules take the table as the constant `Sites`; every generated case     *)
(* carries one expectation per site of its kind, all computed from the same *)
(* operator, and the executor has to report exactly the table's sites       *)
(* (case kind "sites").                                                      *)
(*                                                                          *)
(*   kind "cmp"    a pair (a, b): Cmp with the undefined pairs              *)
(*   kind "add"    a value and an addend: Add, bound 2^31 - 1               *)
(*   kind "window" a triple (lo, hi, x): InWindow                           *)
(*   kind "fresh"  a clock value and a timestamp: Fresh(past, future)       *)
(*   kind "place"  a reference time and a serial: Place                     *)
EXTENDS Serial

SiteTable == {
  \* ---- Cmp ---------------------------------------------------------------
  [kind |-> "cmp", site |-> "serial",    op |-> "Cmp",
   api |-> "base::Serial: partial_cmp, < <= > >= == (src/base/serial.rs)"],
  [kind |-> "cmp", site |-> "timestamp", op |-> "Cmp",
   api |-> "rdata::dnssec::Timestamp: partial_cmp and operators (src/rdata/dnssec.rs)"],
  [kind |-> "cmp", site |-> "newserial", op |-> "Cmp",
   api |-> "new::base::Serial: partial_cmp (src/new/base/serial.rs)"],
  [kind |-> "cmp", site |-> "newts",     op |-> "Cmp",
   api |-> "new::rdata::Rrsig::expiration() -> Timestamp: partial_cmp and operators, into_int, From<Timestamp> for rdata::dnssec::Timestamp (src/new/rdata/dnssec/rrsig.rs)"],
  [kind |-> "cmp", site |-> "soa",       op |-> "Cmp",
   api |-> "rdata::Soa::serial() after wire / octets / flatten / zone-file routes (src/rdata/rfc1035/soa.rs)"],
  [kind |-> "cmp", site |-> "rrsig",     op |-> "Cmp",
   api |-> "rdata::Rrsig / ProtoRrsig expiration(), inception() after every conversion route"],
  [kind |-> "cmp", site |-> "sign",      op |-> "ValidityPeriod",
   api |-> "dnssec::sign::signatures::rrsigs::sign_rrset: expiration < inception is refused"],
  [kind |-> "cmp", site |-> "diff",      op |-> "NewerSerial",
   api |-> "zonetree::InMemoryZoneDiffBuilder::build: end serial must be newer (src/zonetree/types.rs)"],
  [kind |-> "cmp", site |-> "ixfr",      op |-> "IxfrUpToDate",
   api |-> "net::server::middleware::xfr: query_serial >= soa.serial() -> single SOA (RFC 1995 section 2)"],
  [kind |-> "cmp", site |-> "ixfrnodiffs", op |-> "IxfrUpToDate",
   api |-> "net::server::middleware::xfr preprocess, provider without diffs: ixfr_client_is_current (query_serial >= soa.serial()) -> single SOA, otherwise the whole zone (RFC 1995 sections 2 and 4)"],
  \* ---- Add ---------------------------------------------------------------
  [kind |-> "add", site |-> "serial",    op |-> "Add",
   api |-> "base::Serial::add (panics above 2^31 - 1)"],
  [kind |-> "add", site |-> "newserial", op |-> "Add",
   api |-> "new::base::Serial::inc"],
  \* ---- InWindow ----------------------------------------------------------
  [kind |-> "window", site |-> "cookie",     op |-> "InWindow",
   api |-> "new::edns::Cookie::verify(addr, secret, validity: Range<Serial>)"],
  [kind |-> "window", site |-> "newrange",   op |-> "InWindow",
   api |-> "Range<new::base::Serial>::contains"],
  [kind |-> "window", site |-> "range",      op |-> "InWindow",
   api |-> "Range<base::Serial>::contains"],
  [kind |-> "window", site |-> "tsrange",    op |-> "InWindow",
   api |-> "Range<rdata::dnssec::Timestamp>::contains"],
  [kind |-> "window", site |-> "newtsrange", op |-> "InWindow",
   api |-> "Range<new::rdata Timestamp>::contains (signature times of new::rdata::Rrsig)"],
  \* ---- Fresh (RFC 9018 4.3: one hour back, five minutes ahead) -----------
  [kind |-> "fresh", site |-> "mwprefetch", op |-> "Fresh",
   api |-> "net::server::middleware::cookies::CookiesMiddlewareSvc::timestamp_ok via a cookie prefetch request (QDCOUNT 0): NOERROR / BADCOOKIE"],
  [kind |-> "fresh", site |-> "mwdenied",   op |-> "Fresh",
   api |-> "CookiesMiddlewareSvc::timestamp_ok via a UDP query from a deny-listed address: passed on / BADCOOKIE"],
  [kind |-> "fresh", site |-> "optcookie",  op |-> "Fresh",
   api |-> "base::opt::Cookie::check_server_hash hands the cookie's timestamp to the caller's test (here: the window as a Range<Serial>)"],
  \* ---- Place -------------------------------------------------------------
  [kind |-> "place", site |-> "timestamp", op |-> "Place",
   api |-> "rdata::dnssec::Timestamp::to_system_time"],
  [kind |-> "place", site |-> "newts",     op |-> "Place",
   api |-> "new::rdata Timestamp::to_system_time (the copy in src/new/rdata/dnssec/rrsig.rs)"]
}

\* Sites that use serial-like quantities but are outside the claim or use
\* equality only (listed in the evidence, not executed)
NotBound == {
  [site |-> "validator check_sig / ttl_for_sig", why |-> "plain u32 order by design of canonical_gt/lt and saturating_sub on the real clock; observation in DESIGN 10.3, outside the claim"],
  [site |-> "rdata::Soa / Rrsig PartialOrd, CanonicalOrd", why |-> "record ordering, not version ordering"],
  [site |-> "net::client::stream, net::xfr::protocol::interpreter", why |-> "serial equality only"],
  [site |-> "zonetree Version", why |-> "private type, counts commits"],
  [site |-> "dnssec::sign::keys::keyset UnixTime", why |-> "64-bit seconds, not a serial"]
}

PAST == 3600      \* RFC 9018 section 4.3, ONE_HOUR_AS_SECS
FUTURE == 300     \* FIVE_MINUTES_AS_SECS

SitesOf(T, k) == {s.site : s \in {t \in T : t.kind = k}}
OpOf(T, k, name) == (CHOOSE s \in T : s.kind = k /\ s.site = name).op

\* dnssec::sign::signatures::rrsigs::sign_rrset(expiration = a, inception = b)
\* refuses a validity period whose expiration is before its inception; where
\* RFC 1982 leaves the order undefined either outcome is admissible
SignDecision(r) == CASE r = "LT" -> "reject" [] r = "UNDEF" -> "any" [] OTHER -> "accept"

\* zonetree::InMemoryZoneDiffBuilder::build() for a diff from SOA serial a to
\* SOA serial b is refused (InvalidSerialRange) unless b is newer than a
DiffDecision(r) == CASE r = "LT" -> "accept" [] r = "UNDEF" -> "any" [] OTHER -> "reject"

\* net::server::middleware::xfr, RFC 1995 section 2: an IXFR request from a
\* client at serial a to a server whose zone is at serial b (diffs available)
\* is answered with a single SOA if the client has the same or a newer
\* version, otherwise with a transfer (diff sequence, or the whole zone)
IxfrDecision(r) == CASE r = "LT" -> "transfer" [] r = "UNDEF" -> "any" [] OTHER -> "single"

\* what a site of kind "cmp" shows for the comparison result r = Cmp(a, b)
ExpectCmp(op, r) == CASE op = "Cmp"            -> r
                      [] op = "ValidityPeriod" -> SignDecision(r)
                      [] op = "NewerSerial"    -> DiffDecision(r)
                      [] op = "IxfrUpToDate"   -> IxfrDecision(r)
=============================================================================
