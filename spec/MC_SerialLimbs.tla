--------------------------- MODULE MC_SerialLimbs ---------------------------
(* TLC proves, for every pair of 2*LW-bit values, that the limb operators  *)
(* of SerialLimbs.tla compute exactly Serial!Cmp / Add / ImplAdd at        *)
(* BITS = 2*LW.  (x, y) is used both as a pair of operands and as operand  *)
(* and addend.)                                                             *)
EXTENDS SerialLimbs, TLC

S == INSTANCE Serial WITH BITS <- 2 * LW

VARIABLES x, y
lvars == <<x, y>>

ToInt(v) == v[1] * B + v[2]
ToLimbs(i) == <<i \div B, i % B>>

Init == x \in LVal /\ y \in LVal
Next == UNCHANGED lvars
Spec == Init /\ [][Next]_lvars

CmpEquiv == LCmp(x, y) = S!Cmp(ToInt(x), ToInt(y))
SubEquiv == ToInt(LSub(x, y)) = (ToInt(x) - ToInt(y)) % S!M
AddEquiv == /\ LAdd(x, y) \in LVal
            /\ ToInt(LAdd(x, y)) = S!Add(ToInt(x), ToInt(y))
ImplAddEquiv ==
  LET r == S!ImplAdd(ToInt(x), ToInt(y))
  IN LImplAdd(x, y) = IF "ok" \in DOMAIN r THEN [ok |-> ToLimbs(r.ok)]
                      ELSE [panic |-> TRUE]
LessEquiv == LLess(x, y) <=> ToInt(x) < ToInt(y)
\* x as the reference's serial (eras 0..2), y as the serial to place
PlaceEquiv ==
  \A era \in 0 .. 2 :
     LET ref == era * S!M + ToInt(x) IN
     /\ LPlaceDefined(x, y) <=> S!PlaceDefined(ref, ToInt(y))
     /\ S!Place(ref, ToInt(y)) = LPlaceEra(era, x, y) * S!M + ToInt(y)   \* ties included
     /\ LPlaceConstrained(era, x, y) <=> S!PlaceConstrained(ref, ToInt(y))
\* x, y as a window, a boundary sample of third values as the timestamp
WindowEquiv ==
  \A z \in {x, y, LAdd(x, <<0, 1>>), LSub(y, <<0, 1>>), LSub(x, <<0, 1>>),
            LAdd(x, LHalf), LAdd(y, LHalf), <<0, 0>>, <<B - 1, B - 1>>} :
     /\ LWellFormed(x, y) <=> S!WellFormed(ToInt(x), ToInt(y))
     /\ LInWindow(x, y, z) <=> S!InWindow(ToInt(x), ToInt(y), ToInt(z))
     /\ LWindowDecision(x, y, z) = S!WindowDecision(ToInt(x), ToInt(y), ToInt(z))
\* x as the verifier's clock, y as the timestamp, small and large windows
FreshEquiv ==
  \A pf \in {<<1, 0>>, <<0, 1>>, <<3, 1>>, <<B, 2>>, <<B + 1, B - 1>>, <<2, B + 3>>} :
     (S!FreshParamsOK(pf[1], pf[2])) =>
        /\ LFresh(x, y, ToLimbs(pf[1]), ToLimbs(pf[2]))
              <=> S!Fresh(ToInt(x), ToInt(y), pf[1], pf[2])
        /\ LFreshDecision(x, y, ToLimbs(pf[1]), ToLimbs(pf[2]))
              = S!FreshDecision(ToInt(x), ToInt(y), pf[1], pf[2])
RoundTrip == ToLimbs(ToInt(x)) = x /\ ToInt(LHalf) = S!H
=============================================================================
