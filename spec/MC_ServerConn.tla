--------------------------- MODULE MC_ServerConn ---------------------------
(* C16 parts 2 and 3: every interleaving of client / service / clock /    *)
(* peer stimuli with the internal steps of the connection loop and the    *)
(* per-request tasks (SpecConn), and the datagram machine (SpecDg), within small bounds.    *)
EXTENDS Server

CONSTANTS Conns,       \* connection ids (two for OthersUnaffected)
          MaxReq,      \* pipeline length per connection
          QCaps,       \* result queue capacities explored
          Kinds,       \* service kinds
          MaxCredit, MaxTick, MaxAbort,
          NP,          \* pieces per frame (1 = the transport takes whole frames)
          Limit,       \* max_concurrent_connections
          MaxFail,     \* failed connection setups explored
          MaxAErr,     \* failing accept() calls explored
          AAMs         \* Config::accept_connections_at_max values explored

VARIABLES conns, dg, bud
vars == <<conns, dg, bud>>

Init == /\ \E q \in QCaps : conns = [c \in Conns |-> [InitConn(Dev, q) EXCEPT !.np = NP]]
        /\ dg = InitDg
        /\ \E aam \in AAMs : bud = [aam |-> aam,
                  \* the accept arm of the server's select loop is enabled: its guard
                  \* (accepting_connections) is evaluated when the loop goes round,
                  \* i.e. after an accept and after a command -- and (ideal) after a
                  \* connection ended
                  armed |-> TRUE, scmd |-> 0,
                  sent |-> [c \in Conns |-> 0], credit |-> 0, tick |-> 0,
                  abort |-> 0, down |-> FALSE, dsent |-> 0,
                  nconn |-> 0,      \* ServerMetrics::num_connections
                  fail |-> 0, refused |-> {},
                  listening |-> TRUE,   \* the accept loop of StreamServer::run is alive
                  aerr |-> 0, dreconf |-> 0, dspur |-> 0, dserr |-> 0]
Accepting == bud.listening /\ bud.armed

Local(c, f) == conns' = [conns EXCEPT ![c] = f] /\ UNCHANGED dg
S(c) == conns[c]
IsOpen(c) == S(c).st = "open"
CanSend(c) == IsOpen(c) /\ ~S(c).ab /\ ~TailPartial(S(c)) /\ bud.sent[c] < MaxReq
Sent(c) == bud' = [bud EXCEPT !.sent[c] = @ + 1]

\* ---- environment ----
\* stream.rs run_until_error / spawn_connection_handler, Connection::run, Drop
\* poll_accept itself fails (ECONNABORTED, EMFILE ...): logged, the loop goes on
AcceptError == /\ Accepting /\ bud.aerr < MaxAErr
               /\ bud' = [bud EXCEPT !.aerr = @ + 1, !.armed = bud.aam \/ bud.nconn < Limit]
               /\ UNCHANGED <<conns, dg>>
AcceptOk(c) == /\ S(c).st = "none" /\ Accepting /\ bud.nconn < Limit
               /\ Local(c, EnvOpen(S(c))) /\ bud' = [bud EXCEPT !.nconn = @ + 1]
AcceptFail(c) == /\ S(c).st = "none" /\ Accepting /\ bud.nconn < Limit /\ bud.fail < MaxFail
                 /\ Local(c, EnvNoConn(S(c))) /\ bud' = [bud EXCEPT !.fail = @ + 1]
\* at the limit an accepted connection is dropped; the loop goes round and
\* with accept_connections_at_max = false stops accepting
AcceptRefuse(c) == /\ S(c).st = "none" /\ Accepting /\ bud.nconn >= Limit
                   /\ Local(c, EnvNoConn(S(c)))
                   /\ bud' = [bud EXCEPT !.refused = @ \cup {c}, !.armed = bud.aam]
\* a connection handler ends: there is room again, the server looks at its
\* limit again (D_accept_not_resumed: nothing wakes the loop)
ConnClose(c) == /\ S(c).st = "closed" /\ S(c).live
                /\ Local(c, [S(c) EXCEPT !.live = FALSE])
                /\ bud' = [bud EXCEPT !.nconn = @ - 1,
                                      !.armed = IF "D_accept_not_resumed" \in Dev THEN @
                                                ELSE (@ \/ bud.aam \/ bud.nconn - 1 < Limit)]
\* any command (here: reconfigure with the configuration in force) makes the
\* loop go round
\* (explored where a server may stop accepting at all)
SCmd == /\ FALSE \in AAMs /\ bud.listening /\ bud.scmd < 1
        /\ bud' = [bud EXCEPT !.scmd = @ + 1, !.armed = bud.aam \/ bud.nconn < Limit]
        /\ UNCHANGED <<conns, dg>>
RecvFrame(c) == /\ CanSend(c)
                /\ \E svc \in Kinds : Local(c, EnvSend(S(c), "query", bud.sent[c] + 1, svc))
                /\ Sent(c)
RecvPartial(c) == /\ CanSend(c)
                  /\ \E svc \in Kinds : Local(c, EnvSend(S(c), "partial", bud.sent[c] + 1, svc))
                  /\ Sent(c)
RecvRest(c) == /\ IsOpen(c) /\ ~S(c).ab /\ TailPartial(S(c))
               /\ Local(c, EnvRest(S(c))) /\ UNCHANGED bud
RecvShort(c) == CanSend(c) /\ Local(c, EnvSend(S(c), "short", 0, "")) /\ Sent(c)
RecvReply(c) == CanSend(c) /\ Local(c, EnvSend(S(c), "reply", bud.sent[c] + 1, "")) /\ Sent(c)
PeerAbort(c) == /\ IsOpen(c) /\ ~S(c).ab /\ bud.abort < MaxAbort
                /\ Local(c, EnvAbort(S(c))) /\ bud' = [bud EXCEPT !.abort = @ + 1]
Release(c) == \E r \in DOMAIN S(c).tasks :
                /\ S(c).tasks[r].permits < Len(S(c).tasks[r].items)
                /\ Local(c, EnvRelease(S(c), r)) /\ UNCHANGED bud
Credit(c) == /\ IsOpen(c) /\ bud.credit < MaxCredit
             /\ Local(c, EnvCredit(S(c), 1)) /\ bud' = [bud EXCEPT !.credit = @ + 1]
HalfTick == /\ bud.tick < MaxTick /\ \E c \in Conns : IsOpen(c)
            /\ conns' = [c \in Conns |-> EnvHalfTick(S(c))]
            /\ bud' = [bud EXCEPT !.tick = @ + 1] /\ UNCHANGED dg
CloseCmd == /\ ~bud.down /\ \E c \in Conns : IsOpen(c)
            /\ conns' = [c \in Conns |-> EnvShutdown(S(c))]
            /\ bud' = [bud EXCEPT !.down = TRUE, !.listening = FALSE] /\ UNCHANGED dg

\* ---- the connection loop (connection.rs run_until_error) ----
Flush(c) == /\ LoopBranch(S(c)) = "cmd"
            /\ Local(c, LoopStep(S(c))) /\ UNCHANGED bud
TakeOne(c) == /\ LoopBranch(S(c)) = "take"
              /\ Local(c, LoopStep(S(c))) /\ UNCHANGED bud
IdleTimeout(c) == /\ LoopBranch(S(c)) = "idle"
                  /\ Local(c, LoopStep(S(c))) /\ UNCHANGED bud
Dispatch(c) == /\ LoopBranch(S(c)) = "read" /\ Head(S(c).inb).t \in {"query", "reply"}
               /\ Local(c, LoopStep(S(c))) /\ UNCHANGED bud
ReadShort(c) == /\ LoopBranch(S(c)) = "read" /\ Head(S(c).inb).t = "short"
                /\ Local(c, LoopStep(S(c))) /\ UNCHANGED bud
ReadEof(c) == /\ LoopBranch(S(c)) = "read" /\ Head(S(c).inb).t = "eof"
              /\ Local(c, LoopStep(S(c))) /\ UNCHANGED bud
WritePartial(c) == /\ LoopBranch(S(c)) = "wpart"
                   /\ Local(c, LoopStep(S(c))) /\ UNCHANGED bud
WriteOne(c) == /\ LoopBranch(S(c)) = "write"
               /\ Local(c, LoopStep(S(c))) /\ UNCHANGED bud
WriteTimeout(c) == /\ LoopBranch(S(c)) = "wtimeout"
                   /\ Local(c, LoopStep(S(c))) /\ UNCHANGED bud
WriteError(c) == /\ LoopBranch(S(c)) = "werr"
                 /\ Local(c, LoopStep(S(c))) /\ UNCHANGED bud
Flushed(c) == /\ LoopBranch(S(c)) = "flushed"
              /\ Local(c, LoopStep(S(c))) /\ UNCHANGED bud

\* ---- the per-request tasks (invoker.rs dispatch) ----
ServiceYield(c) == \E r \in DOMAIN S(c).tasks :
                     CanYield(S(c), r) /\ Local(c, TaskStep(S(c), r)) /\ UNCHANGED bud
Enqueue(c)      == \E r \in DOMAIN S(c).tasks :
                     CanRetry(S(c), r) /\ Local(c, TaskStep(S(c), r)) /\ UNCHANGED bud

\* ---- datagram machine ----
DSame == UNCHANGED conns
DRecv == /\ bud.dsent < MaxReq
         /\ \E svc \in Kinds : dg' = DgRecv(dg, "query", bud.dsent + 1, svc)
         /\ bud' = [bud EXCEPT !.dsent = @ + 1] /\ DSame
DRecvShort == /\ bud.dsent < MaxReq
              /\ \E svc \in Kinds : dg' = DgRecv(dg, "short", bud.dsent + 1, svc)
              /\ bud' = [bud EXCEPT !.dsent = @ + 1] /\ DSame
DRecvReply == /\ bud.dsent < MaxReq
              /\ \E w \in {"reply", "shortqr"} : dg' = DgRecv(dg, w, bud.dsent + 1, "")
              /\ bud' = [bud EXCEPT !.dsent = @ + 1] /\ DSame
DReconf == /\ bud.dreconf < 2
           /\ \E lim \in {100, 512, 1232, 4096, 60000} : DgReconf(dg, lim) # dg /\ dg' = DgReconf(dg, lim)
           /\ bud' = [bud EXCEPT !.dreconf = @ + 1] /\ DSame
DRecvBig == /\ bud.dsent < MaxReq
            /\ \E svc \in {"big", "mid", "huge"} : dg' = DgRecv(dg, "query", bud.dsent + 1, svc)
            /\ bud' = [bud EXCEPT !.dsent = @ + 1] /\ DSame
SpuriousReadable == /\ bud.dspur < 1 /\ dg' = DgSpurious(dg)
                    /\ bud' = [bud EXCEPT !.dspur = @ + 1] /\ DSame
SendError == /\ dg.sendfail = 0 /\ bud.dserr < 1 /\ dg' = DgSendErr(dg)
             /\ bud' = [bud EXCEPT !.dserr = @ + 1] /\ DSame
DRelease == \E r \in DOMAIN dg.tasks :
              /\ dg.tasks[r].permits < Len(dg.tasks[r].items)
              /\ dg' = DgRelease(dg, r) /\ UNCHANGED bud /\ DSame
DSend == \E r \in DOMAIN dg.tasks :
           DgCanYield(dg, r) /\ dg' = DgYield(dg, r) /\ UNCHANGED bud /\ DSame

NextConn ==
  \/ HalfTick \/ CloseCmd \/ AcceptError \/ SCmd
  \/ \E c \in Conns :
       \/ AcceptOk(c) \/ AcceptFail(c) \/ AcceptRefuse(c) \/ ConnClose(c) \/ RecvFrame(c) \/ RecvPartial(c) \/ RecvRest(c) \/ RecvShort(c)
       \/ RecvReply(c) \/ PeerAbort(c) \/ Release(c) \/ Credit(c)
       \/ Flush(c) \/ TakeOne(c) \/ IdleTimeout(c) \/ Dispatch(c) \/ ReadShort(c)
       \/ ReadEof(c) \/ WritePartial(c) \/ WriteOne(c) \/ WriteTimeout(c) \/ WriteError(c) \/ Flushed(c)
       \/ ServiceYield(c) \/ Enqueue(c)
NextDg == \/ DRecv \/ DRecvShort \/ DRecvReply \/ DRecvBig \/ DRelease \/ DSend
          \/ DReconf \/ SpuriousReadable \/ SendError
SpecConn == Init /\ [][NextConn]_vars
SpecDg   == Init /\ [][NextDg]_vars

\* ---- properties ----
EachResponseOnce    == \A c \in Conns : EachOnce(S(c)) /\ NoneLost(S(c))
EachResponseOnceDev == \A c \in Conns : EachOnce(S(c))        \* what still holds today
IdQuestionPreserved == \A c \in Conns : IdPreserved(S(c))
Framed              == \A c \in Conns : /\ QueueBounded(S(c)) /\ WireFramed(S(c))
                                         /\ (S(c).mode \in {"write", "flushwrite"} <=> S(c).cur # Nil)
\* the counter the limit is checked against is exactly the number of
\* connections that exist (handler started, not yet dropped): failed
\* setups and refusals leave no trace, so a connection is refused only
\* while Limit connections really exist
\* only the shutdown command ends the accept loop: after any number of
\* failed accepts / failed setups / refusals / hostile connections a later
\* good connection is still taken on (AcceptOk stays enabled below the limit)
\* the idle timeout in force is the configured one until a response with
\* Reconfigure feedback went through process_feedback, then that one
IdleUsesValueInForce ==
  \A c \in Conns :
     LET fbs == {S(c).yielded[i].r : i \in 1..Len(S(c).yielded)}
     IN S(c).itmo \in {IdleDefault, IdleLong, IdleShort}
        /\ (S(c).itmo # IdleDefault => \E r \in DOMAIN S(c).tasks : S(c).tasks[r].disp)
AcceptLoopAlive == bud.listening = ~bud.down
\* below the limit a running server takes connections on ("... never
\* prevents other requests from being answered"): whatever earlier
\* connections did, however they ended
AcceptServes == (bud.listening /\ bud.nconn < Limit) => bud.armed
NumConnsExact == bud.nconn = Cardinality({c \in Conns : S(c).live})
RefusedOnlyAtLimit ==
  [][\A c \in Conns : (c \in bud'.refused /\ c \notin bud.refused)
         => Cardinality({d \in Conns : conns[d].live}) >= Limit]_vars
TornIsLast == [][\A c \in Conns : conns[c].torn => conns'[c].wrote = conns[c].wrote]_vars
DgramEachOnce       == DgEachOnce(dg) /\ DgLoopAlive(dg)
DgramSize           == DgSizeOK(dg)
\* a step of one connection leaves every other connection's state alone;
\* the only global steps are the clock and the server-wide shutdown, and
\* they treat each connection by its own state
OthersUnaffected ==
  [][\/ bud'.tick # bud.tick \/ bud'.down # bud.down
     \/ \A c, d \in Conns : (c # d /\ conns'[c] # conns[c]) => conns'[d] = conns[d]]_vars
ClosedFinal == [][\A c \in Conns : ClosedIsFinal(conns[c], conns'[c])]_vars
\* a short message or a vanished peer ends only that connection, and
\* nothing is written afterwards (no flush)
=============================================================================
