----------------------------- MODULE MC_Order -----------------------------
(* C04: TLC checks that the comparison operators of Order.tla / Names.tla / *)
(* Rdata.tla are what the property says (total orders coherent with ==,     *)
(* case-insensitive, hash keys respect ==, canonical order = octet order of *)
(* canonical wire forms) over an enumerated space, and emits every          *)
(* enumerated pair as one implementation case.                              *)
(* A state is one pair (kind, t, a, b); there are no transitions.           *)
EXTENDS Order, RdataDom, TLC, Json

CONSTANTS Tier,     \* 1 quick, 2 thorough: size of the name space
          Dev

VARIABLES kind, t, a, b
vars == <<kind, t, a, b>>

--------------------------------------------------------------------------
(* the enumerated space *)

\* octets around both ASCII letter ranges
Edge == {0, 64, 65, 90, 91, 96, 97, 122, 123, 255}
Labels1 == {<<x>> : x \in Edge}
Labels2 == {<<x, y>> : x \in Edge, y \in Edge}
Labels == Labels1 \cup Labels2                                  \* 110 labels
CharStrs == Labels \cup {<<>>}

la == <<97>>
lA == <<65>>
lb == <<98>>
lZ == <<90>>
lBr == <<91>>                   \* '[' : between 'Z' and 'a'
ladotb == <<97, 46, 98>>        \* the single label "a.b"
NameLabels == IF Tier = 1 THEN {la, lA, lb, lZ, lBr}
              ELSE {la, lA, lb, lZ, lBr, ladotb, <<64>>}
NamesUpTo3 == {<<>>} \cup {<<x>> : x \in NameLabels}
              \cup {<<x, y>> : x \in NameLabels, y \in NameLabels}
              \cup {<<x, y, z>> : x \in NameLabels, y \in NameLabels, z \in NameLabels}
ExtraNames == {
  << la, lb >>, << ladotb >>,                     \* a.b  vs  a\.b  (boundary shift)
  << <<97, 98>> >>,                               \* ab
  << <<0>> >>, << <<255>> >>, << la, <<0>> >>, << <<0>>, la >>,
  << <<42>>, la >>,                               \* *.a
  << <<97, 0>>, lb >>, << la, <<0, 98>> >> }      \* label boundary inside equal octets
Names == NamesUpTo3 \cup ExtraNames
TripleNames == {n \in Names : Len(n) <= 2} \cup ExtraNames        \* for transitivity

\* record data: per type the base value, every single-field variation of it
\* over the boundary domain of the field kind, and its case variants
LowerAllField(f, v) ==
  CASE f.kind = "Name"       -> LowerName(v)
    [] f.kind \in {"CharStr", "CaaTag"} -> LowerSeq(v)
    [] f.kind = "CharStrSeq" -> [i \in 1..Len(v) |-> LowerSeq(v[i])]
    [] f.kind = "IpsecGw"    -> IF v.gt = 3 THEN [v EXCEPT !.gw = LowerName(@)] ELSE v
    [] OTHER -> v
LowerAll(x, v) == [i \in 1..Len(v) |-> LowerAllField(LayoutOf(x)[i], v[i])]
LowerNames(x, v) == [i \in 1..Len(v) |->
   IF LayoutOf(x)[i].kind \in {"Name", "IpsecGw"} THEN LowerAllField(LayoutOf(x)[i], v[i]) ELSE v[i]]
RdVals(x) ==
  {v \in {Base(x), LowerAll(x, Base(x)), LowerNames(x, Base(x))}
         \cup UNION {{[Base(x) EXCEPT ![i] = y] : y \in Dom(LayoutOf(x)[i])} : i \in 1..Len(LayoutOf(x))}
   : ValidRd(x, v)}

\* records
RecVals ==
  LET datas == { [t |-> "A", val |-> Base("A")], [t |-> "A", val |-> << <<1, 2, 3, 5>> >>],
                 [t |-> "NS", val |-> Base("NS")], [t |-> "NS", val |-> LowerAll("NS", Base("NS"))],
                 [t |-> "NSEC", val |-> Base("NSEC")], [t |-> "NSEC", val |-> LowerAll("NSEC", Base("NSEC"))],
                 [t |-> "TYPE99", val |-> Base("TYPE99")], [t |-> "OPT", val |-> Base("OPT")],
                 \* two unknown types whose data sorts opposite to / like the type codes
                 [t |-> "TYPE99", val |-> << <<255, 255>> >>], [t |-> "TYPE65534", val |-> << <<0>> >>],
                 [t |-> "TYPE65534", val |-> << <<255, 255>> >>], [t |-> "TYPE62", val |-> << <<255, 255>> >>] }
  IN {[class |-> c, owner |-> o, ttl |-> l, code |-> CodeOf(d.t), t |-> d.t, val |-> d.val] :
        c \in {1, 3}, o \in {<<la>>, <<lA>>, <<lb, la>>}, l \in {0, 3600}, d \in datas}

\* the table as data, for the I->S recorder
ASSUME PrintT("LAYOUT " \o ToJson([layout |-> Layout, code |-> TypeCode,
                                    optlayout |-> OptLayout, optcode |-> OptCode]))

Init ==
  \/ kind = "label"   /\ t = "" /\ a \in Labels /\ b \in Labels
  \/ kind = "name"    /\ t = "" /\ a \in Names /\ b \in Names
  \/ kind = "charstr" /\ t = "" /\ a \in CharStrs /\ b \in CharStrs
  \/ kind = "rdata"   /\ t \in Types /\ a \in RdVals(t) /\ b \in RdVals(t)
  \/ kind = "record"  /\ t = "" /\ a \in RecVals /\ b \in RecVals
Next == FALSE /\ UNCHANGED vars
Spec == Init /\ [][Next]_vars

--------------------------------------------------------------------------
(* the laws, on the specification's own operators *)

\* the sorted example list of RFC 4034 6.1
RfcExample == <<
  << <<101,120,97,109,112,108,101>> >>,
  << <<97>>, <<101,120,97,109,112,108,101>> >>,
  << <<121,108,106,107,106,108,106,107>>, <<97>>, <<101,120,97,109,112,108,101>> >>,
  << <<90>>, <<97>>, <<101,120,97,109,112,108,101>> >>,
  << <<122,65,66,67>>, <<97>>, <<69,88,65,77,80,76,69>> >>,
  << <<122>>, <<101,120,97,109,112,108,101>> >>,
  << <<1>>, <<122>>, <<101,120,97,109,112,108,101>> >>,
  << <<42>>, <<122>>, <<101,120,97,109,112,108,101>> >>,
  << <<200>>, <<122>>, <<101,120,97,109,112,108,101>> >> >>
ASSUME RfcExampleSorted ==
  \A i, j \in 1..Len(RfcExample) :
     CanonNameCmp(RfcExample[i], RfcExample[j]) = (IF i < j THEN -1 ELSE IF i = j THEN 0 ELSE 1)

LawLabel == kind = "label" =>
  /\ IsSign(CanonLabelCmp(a, b))
  /\ CanonLabelCmp(a, b) = Neg(CanonLabelCmp(b, a))
  /\ (LabelEq(a, b) <=> CanonLabelCmp(a, b) = 0)
  /\ CanonLabelCmp(LowerSeq(a), b) = CanonLabelCmp(a, b) /\ LabelEq(a, LowerSeq(a))
  /\ (LabelEq(a, b) <=> LabelHashKey(a) = LabelHashKey(b))
  /\ (LabelLowerComposedCmp(a, b) = 0 <=> LabelEq(a, b))
  /\ LabelComposedCmp(a, b) = Neg(LabelComposedCmp(b, a))
LawName == kind = "name" =>
  /\ IsSign(CanonNameCmp(a, b))
  /\ CanonNameCmp(a, b) = Neg(CanonNameCmp(b, a))
  /\ (NameEq(a, b) <=> CanonNameCmp(a, b) = 0)
  /\ CanonNameCmp(LowerName(a), b) = CanonNameCmp(a, b) /\ NameEq(a, LowerName(a))
  /\ (NameEq(a, b) <=> NameHashKey(a) = NameHashKey(b))
  /\ (NameLowerComposedCmp(a, b) = 0 <=> NameEq(a, b))
  /\ (a # <<>> => CanonNameCmp(Tail(a), a) = -1)                  \* a parent sorts before its children
  /\ (IsSuffixOf(b, a) /\ Len(a) > Len(b) => CanonNameCmp(b, a) = -1)
LawCharStr == kind = "charstr" =>
  /\ CharStrCanonCmp(a, b) = Neg(CharStrCanonCmp(b, a))
  /\ (CharStrCanonCmp(a, b) = 0 <=> a = b)
  /\ (CharStrEq(a, b) <=> CharStrHashKey(a) = CharStrHashKey(b))
  /\ CharStrEq(a, LowerSeq(a))
LawRdata == kind = "rdata" =>
  /\ IsSign(CanonRdCmp(t, a, b))
  /\ CanonRdCmp(t, a, b) = Neg(CanonRdCmp(t, b, a))
  /\ CanonRdCmp(t, a, b) = LexCmp(ComposeRd(t, CanonVal(t, a)), ComposeRd(t, CanonVal(t, b)))
  /\ (CanonRdCmp(t, a, b) = 0 <=> CanonVal(t, a) = CanonVal(t, b))
  /\ (CanonRdCmp(t, a, b) = 0 => RdEq(t, a, b))
  /\ (RdEq(t, a, b) <=> RdEq(t, b, a)) /\ RdEq(t, a, a)
  /\ (RdEq(t, a, b) => RdEqLoose(t, a, b))
  /\ RdEq(t, a, LowerNames(t, a))                                   \* names never matter by case
LawRecord == kind = "record" =>
  /\ LexCmp(QWire(a), QWire(b)) = Neg(LexCmp(QWire(b), QWire(a)))
  /\ (LexCmp(QWire(a), QWire(b)) = 0 <=> RecSameKey(a, b))
  /\ (RecEqCore(a, b) <=> RecEqCore(b, a))
  /\ (RecCanonPinned(a, b) => RecCanonCmp(a, b) = Neg(RecCanonCmp(b, a)))
  /\ (RecCanonPinned(a, b) /\ RecCanonCmp(a, b) = 0 => RecEqCore(a, b))
  /\ (RecCanonPinned(a, b) => IsSign(RecCanonCmp(a, b)))

\* transitivity, evaluated once (in one designated state)
Once == kind = "label" /\ a = <<0>> /\ b = <<0>>
LeqT(c) == c <= 0
LawTransitive == Once =>
  /\ \A x, y, z \in Labels1 \cup {<<p, q>> : p \in {65, 97, 91}, q \in {0, 90, 122}} :
        (LeqT(CanonLabelCmp(x, y)) /\ LeqT(CanonLabelCmp(y, z))) => LeqT(CanonLabelCmp(x, z))
  /\ \A x, y, z \in TripleNames :
        /\ (LeqT(CanonNameCmp(x, y)) /\ LeqT(CanonNameCmp(y, z))) => LeqT(CanonNameCmp(x, z))
        /\ (LeqT(NameLowerComposedCmp(x, y)) /\ LeqT(NameLowerComposedCmp(y, z))) => LeqT(NameLowerComposedCmp(x, z))
  /\ \A x \in {"SOA", "NSEC", "NAPTR", "MX"} : \A u, v, w \in RdVals(x) :
        (LeqT(CanonRdCmp(x, u, v)) /\ LeqT(CanonRdCmp(x, v, w))) => LeqT(CanonRdCmp(x, u, w))

--------------------------------------------------------------------------
(* S->I case generation *)

EmitLabel == kind = "label" =>
  PrintT("CASE " \o ToJson([in |-> [kind |-> kind, a |-> a, b |-> b],
     exp |-> [eq |-> LabelEq(a, b), cmp |-> CanonLabelCmp(a, b),
              composed |-> LabelComposedCmp(a, b), lcomposed |-> LabelLowerComposedCmp(a, b),
              hash_ok |-> TRUE, issues |-> <<>>]]))
EmitName == kind = "name" =>
  PrintT("CASE " \o ToJson([in |-> [kind |-> kind, a |-> ToWireAbs(a), b |-> ToWireAbs(b)],
     exp |-> [eq |-> NameEq(a, b), cmp |-> CanonNameCmp(a, b),
              composed |-> NameComposedCmp(a, b), lcomposed |-> NameLowerComposedCmp(a, b),
              hash_ok |-> TRUE, issues |-> <<>>]]))
EmitCharStr == kind = "charstr" =>
  PrintT("CASE " \o ToJson([in |-> [kind |-> kind, a |-> a, b |-> b],
     exp |-> [eq |-> CharStrEq(a, b), cmp0 |-> CharStrEq(a, b), canon |-> CharStrCanonCmp(a, b),
              hash_ok |-> TRUE, issues |-> <<>>]]))

EmitRdata == kind = "rdata" =>
  PrintT("CASE " \o ToJson([in |-> [kind |-> kind, rtype |-> CodeOf(t),
                                    a |-> MsgOf(CodeOf(t), ComposeRd(t, a)),
                                    b |-> MsgOf(CodeOf(t), ComposeRd(t, b)),
                                    eqfree |-> RdEqFree(t, a, b)],
                            exp |-> RdExp(t, a, b), dev |-> RdDev(t, a, b)]))

RecIn(r) == [class |-> r.class, owner |-> ToWireAbs(r.owner), ttl |-> r.ttl,
             rtype |-> r.code, rd |-> ComposeRd(r.t, r.val)]
EmitRecord == kind = "record" =>
  PrintT("CASE " \o ToJson([in |-> [kind |-> kind, a |-> RecIn(a), b |-> RecIn(b),
                                    eqfree |-> RecEqFree(a, b),
                                    canonfree |-> ~RecCanonPinned(a, b)],
                            exp |-> RecExp(a, b), dev |-> RecDev(a, b)]))

\* the deviation as a statement about the model (MC_Order_dev.cfg): a hash
\* key that includes the TTL does not respect an == that ignores it
RecHashKeyImpl(r) == IF "D_record_hash_ttl" \in Dev THEN <<r.class, LowerName(r.owner), r.ttl, r.code>>
                     ELSE <<r.class, LowerName(r.owner), r.code>>
LawRecordHash == kind = "record" =>
  ((RecEqCore(a, b) \/ (RecEqFree(a, b) /\ RdEq(a.t, a.val, b.val))) => RecHashKeyImpl(a) = RecHashKeyImpl(b))
=============================================================================
