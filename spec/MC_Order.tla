----------------------------- MODULE MC_Order -----------------------------
(* C04: TLC checks that the comparison operators of Order.tla / Names.tla / *)
(* Rdata.tla are what the property says (total orders coherent with ==,     *)
(* case-insensitive, hash keys respect ==, canonical order = octet order of *)
(* canonical wire forms) over an enumerated space, and emits every          *)
(* enumerated pair as one implementation case.                              *)
(* A state is one pair (kind, t, a, b); there are no transitions.           *)
EXTENDS Order, RdataDom, TLC, Json

CONSTANTS Tier,     \* 1 quick, 2 thorough: size of the name space
          Dev,
          Mut       \* model mutants of the carrier operators (MC_Order_mut*.cfg only)

VARIABLES kind, t, a, b
vars == <<kind, t, a, b>>

--------------------------------------------------------------------------
(* the enumerated space *)

\* octets around both ASCII letter ranges
Edge == {0, 64, 65, 90, 91, 96, 97, 122, 123, 255}
Labels1 == {<<x>> : x \in Edge}
Labels2 == {<<x, y>> : x \in Edge, y \in Edge}
Labels == Labels1 \cup Labels2                                  \* 110 labels
CharStrs == Labels \cup {<<>>}

la == <<97>>
lA == <<65>>
lb == <<98>>
lZ == <<90>>
lBr == <<91>>                   \* '[' : between 'Z' and 'a'
ladotb == <<97, 46, 98>>        \* the single label "a.b"
NameLabels == IF Tier = 1 THEN {la, lA, lb, lZ, lBr}
              ELSE {la, lA, lb, lZ, lBr, ladotb, <<64>>}
NamesUpTo3 == {<<>>} \cup {<<x>> : x \in NameLabels}
              \cup {<<x, y>> : x \in NameLabels, y \in NameLabels}
              \cup {<<x, y, z>> : x \in NameLabels, y \in NameLabels, z \in NameLabels}
ExtraNames == {
  << la, lb >>, << ladotb >>,                     \* a.b  vs  a\.b  (boundary shift)
  << <<97, 98>> >>,                               \* ab
  << <<0>> >>, << <<255>> >>, << la, <<0>> >>, << <<0>>, la >>,
  << <<42>>, la >>,                               \* *.a
  << <<97, 0>>, lb >>, << la, <<0, 98>> >> }      \* label boundary inside equal octets
Names == NamesUpTo3 \cup ExtraNames
TripleNames == {n \in Names : Len(n) <= 2} \cup ExtraNames        \* for transitivity

\* record data: per type the base value, every single-field variation of it
\* over the boundary domain of the field kind, and its case variants
LowerAllField(f, v) ==
  CASE f.kind = "Name"       -> LowerName(v)
    [] f.kind \in {"CharStr", "CaaTag"} -> LowerSeq(v)
    [] f.kind = "CharStrSeq" -> [i \in 1..Len(v) |-> LowerSeq(v[i])]
    [] f.kind = "IpsecGw"    -> IF v.gt = 3 THEN [v EXCEPT !.gw = LowerName(@)] ELSE v
    [] OTHER -> v
LowerAll(x, v) == [i \in 1..Len(v) |-> LowerAllField(LayoutOf(x)[i], v[i])]
LowerNames(x, v) == [i \in 1..Len(v) |->
   IF LayoutOf(x)[i].kind \in {"Name", "IpsecGw"} THEN LowerAllField(LayoutOf(x)[i], v[i]) ELSE v[i]]
RdVals(x) ==
  {v \in {Base(x), LowerAll(x, Base(x)), LowerNames(x, Base(x))}
         \cup UNION {{[Base(x) EXCEPT ![i] = y] : y \in Dom(LayoutOf(x)[i])} : i \in 1..Len(LayoutOf(x))}
   : ValidRd(x, v)}

\* records
RecVals ==
  LET datas == { [t |-> "A", val |-> Base("A")], [t |-> "A", val |-> << <<1, 2, 3, 5>> >>],
                 [t |-> "NS", val |-> Base("NS")], [t |-> "NS", val |-> LowerAll("NS", Base("NS"))],
                 [t |-> "NSEC", val |-> Base("NSEC")], [t |-> "NSEC", val |-> LowerAll("NSEC", Base("NSEC"))],
                 [t |-> "TYPE99", val |-> Base("TYPE99")], [t |-> "OPT", val |-> Base("OPT")],
                 \* two unknown types whose data sorts opposite to / like the type codes
                 [t |-> "TYPE99", val |-> << <<255, 255>> >>], [t |-> "TYPE65534", val |-> << <<0>> >>],
                 [t |-> "TYPE65534", val |-> << <<255, 255>> >>], [t |-> "TYPE62", val |-> << <<255, 255>> >>] }
  IN {[class |-> c, owner |-> o, ttl |-> l, code |-> CodeOf(d.t), t |-> d.t, val |-> d.val] :
        c \in {1, 3}, o \in {<<la>>, <<lA>>, <<lb, la>>}, l \in {0, 3600}, d \in datas}

\* records across representations of their data (Order.tla, DataReps): the
\* grid of RecVals restricted to one TTL (plus a TTL-only variation) and, in
\* the quick tier, class 3 at one owner only.  xans: what a record data type
\* outside the library answers for two values of different types
XRecVals == {r \in RecVals :
               /\ (r.ttl = 3600 \/ (r.t = "A" /\ r.val = Base("A")))
               /\ (Tier = 2 \/ r.class = 1 \/ r.owner = <<la>>)}
XReps == {[rep |-> "all", xans |-> 0], [rep |-> "zone", xans |-> 0], [rep |-> "unknown", xans |-> 0],
          [rep |-> "ext", xans |-> -1], [rep |-> "ext", xans |-> 0], [rep |-> "ext", xans |-> 1]}

--------------------------------------------------------------------------
(* carriers (Order.tla): every supported shape of holding a name, cut at    *)
(* label positions j <= k                                                   *)
NShapes == 24
Sh(i, j, k, n) ==
  LET L == Len(n)
      lo == SubSeq(n, 1, j)
      mid == SubSeq(n, j + 1, k)
      hi == SubSeq(n, k + 1, L)
      lok == SubSeq(n, 1, k)
      rf(o, x) == <<"rflat", o, x>>
      fl(o, x) == <<"flat", o, x>>
      pa(h, x) == <<"parsed", [q \in 1..Len(x) |-> FALSE], h, x>>
      ch(x, y) == <<"chain", x, y>>
  IN CASE i = 1  -> fl("vec", n)
       [] i = 2  -> fl("bytes", n)
       [] i = 3  -> fl("array", n)
       [] i = 4  -> fl("slice", n)
       [] i = 5  -> <<"parsed", [q \in 1..L |-> q = j \/ q = k], 0, n>>
       [] i = 6  -> <<"parsed", [q \in 1..L |-> q = k], 2, n>>
       [] i = 7  -> ch(rf("vec", lok), fl("vec", hi))
       [] i = 8  -> ch(rf("bytes", lok), fl("bytes", hi))
       [] i = 9  -> ch(rf("slice", lok), fl("slice", hi))
       [] i = 10 -> ch(rf("vec", lok), <<"parsed", [q \in 1..(L - k) |-> q = 1], 0, hi>>)
       [] i = 11 -> ch(rf("vec", lo), ch(rf("vec", mid), fl("vec", hi)))
       [] i = 12 -> ch(<<"rchain", rf("vec", lo), rf("vec", mid)>>, fl("vec", hi))
       [] i = 13 -> ch(rf("bytes", lo), ch(rf("vec", mid), pa(0, hi)))
       [] i = 14 -> <<"uchain", "vec", FALSE, lok, fl("vec", hi)>>
       [] i = 15 -> <<"uchain", "vec", TRUE, n, fl("vec", hi)>>          \* origin not used
       [] i = 16 -> <<"uchain", "bytes", FALSE, lok, pa(1, hi)>>
       [] i = 17 -> <<"uchain", "bytes", TRUE, n, pa(0, lok)>>           \* origin not used
       [] i = 18 -> <<"uchain", "vec", FALSE, lo, ch(rf("vec", mid), fl("vec", hi))>>
       [] i = 19 -> <<"chainroot", rf("vec", n)>>
       [] i = 20 -> <<"chainroot", <<"rchain", rf("vec", lok), rf("bytes", hi)>>>>
       [] i = 21 -> <<"ref", fl("vec", n)>>
       [] i = 22 -> <<"ref", <<"parsed", [q \in 1..L |-> q = k], 1, n>>>>
       [] i = 23 -> <<"ref", ch(rf("vec", lok), fl("vec", hi))>>
       [] i = 24 -> <<"ref", <<"ref", fl("vec", n)>>>>
\* every rendering of a compressed name: any set of pointer positions
Renderings(n) == {<<"parsed", cuts, h, n>> : cuts \in [1..Len(n) -> BOOLEAN], h \in 0..2}
CarriersOf(n) ==
  {Sh(i, jk[1], jk[2], n) : i \in 1..NShapes,
                            jk \in {p \in (0..Len(n)) \X (0..Len(n)) : p[1] <= p[2]}} \cup Renderings(n)
\* relative names (the left parts of chains) on their own
RelCarriersOf(n) ==
  LET L == Len(n)
      rf(o, x) == <<"rflat", o, x>>
  IN {rf(o, n) : o \in {"vec", "bytes", "slice"}} \cup {<<"rref", rf("vec", n)>>}
     \cup UNION {{ <<"rchain", rf("vec", SubSeq(n, 1, k)), rf("vec", SubSeq(n, k + 1, L))>>,
                   <<"rchain", rf("vec", SubSeq(n, 1, k)), rf("bytes", SubSeq(n, k + 1, L))>>,
                   <<"rref", <<"rchain", rf("vec", SubSeq(n, 1, k)), rf("vec", SubSeq(n, k + 1, L))>>>> }
                 : k \in 0..L}
     \cup {<<"rchain", <<"rchain", rf("vec", SubSeq(n, 1, jk[1])), rf("vec", SubSeq(n, jk[1] + 1, jk[2]))>>,
                       rf("vec", SubSeq(n, jk[2] + 1, L))>>
            : jk \in {p \in (0..L) \X (0..L) : p[1] <= p[2]}}
\* one carrier per shape, cut in the middle
RepC(i, n) == Sh(i, Len(n) \div 2, (Len(n) + 1) \div 2, n)

CLabels == IF Tier = 1 THEN {la, lA, lb} ELSE {la, lA, lb, lZ, ladotb}
CNames == {<<>>, << <<42>>, lA >>, << <<42>> >>}
          \cup {<<x>> : x \in CLabels} \cup {<<x, y>> : x \in CLabels, y \in CLabels}
          \cup {<<x, y, z>> : x \in CLabels, y \in CLabels, z \in CLabels}
PairNames == IF Tier = 1
             THEN {<<>>} \cup {<<x>> : x \in {la, lA, lb}}
                    \cup {<<x, y>> : x \in {la, lA, lb}, y \in {la, lA, lb}}
                    \cup {<<la, lb, lA>>, <<lA, lb, la>>, <<lb, lA>>}
             ELSE {<<>>, <<la, lb, lA>>, <<lA, lb, la>>} \cup {<<x>> : x \in CLabels}
                    \cup {<<x, y>> : x \in CLabels, y \in CLabels}
\* which pairs of shapes go with a pair of names: all of them in turn
PairPick(x, y, i, j) ==
  LET salt == Len(x) + 2 * Len(y) + SumSeq([q \in 1..Len(x) |-> x[q][1]]) + SumSeq([q \in 1..Len(y) |-> 3 * y[q][1]])
  IN IF Tier = 1 THEN (i + 5 * j + salt) % 23 = 0 ELSE (i + j + salt) % 11 = 0

\* record data with names: the base value and variations of every name
\* field, every name through every shape at every cut
NameTypes == {x \in KnownTypes : NameIdx(x, Base(x)) # {}}
CrdNames == IF Tier = 1 THEN {nRoot, nMixed, nMax} ELSE {nRoot, nAb, nMixed, nMax}
CrdVars(x) == {v \in UNION {{[Base(x) EXCEPT ![i] = IF LayoutOf(x)[i].kind = "Name" THEN y ELSE [@ EXCEPT !.gw = y]]
                               : y \in CrdNames} : i \in NameIdx(x, Base(x))}
               : ValidRd(x, v)}
CrdA(x) == {Base(x)} \cup CrdVars(x)
\* the flat values a is compared with
CrdB(x, u) == IF u = Base(x) \/ Tier = 2 THEN {Base(x), LowerNames(x, Base(x))} ELSE {Base(x)}
Cuts2 == {<<0, 0>>, <<0, 1>>, <<1, 1>>, <<1, 2>>, <<2, 2>>, <<0, 2>>}
Clip(q, n) == IF q > Len(n) THEN Len(n) ELSE q
CarryAll(x, val, i, jk) ==
  LET ns == NamesOfRd(x, val)
  IN [q \in 1..Len(ns) |-> Sh(i, Clip(jk[1], ns[q]), Clip(jk[2], ns[q]), ns[q])]
CrdCarriers(x, val) ==
  IF Tier = 2 THEN {CarryAll(x, val, i, jk) : i \in 1..NShapes, jk \in Cuts2}
  ELSE IF val = Base(x)
  THEN {CarryAll(x, val, i, jk) : i \in 1..NShapes, jk \in {<<0, 1>>, <<1, 1>>, <<1, 2>>, <<0, 2>>}}
  ELSE {CarryAll(x, val, i, jk) : i \in {7, 11, 12, 14, 15, 20, 23}, jk \in {<<1, 1>>, <<0, 2>>}}

\* records: owner through a carrier, the names of the data through carriers
CrecVals ==
  LET datas == { [t |-> "A", val |-> Base("A")],
                 [t |-> "NS", val |-> Base("NS")], [t |-> "NS", val |-> LowerAll("NS", Base("NS"))],
                 [t |-> "SOA", val |-> Base("SOA")] }
                 \cup (IF Tier = 2 THEN {[t |-> "MX", val |-> Base("MX")], [t |-> "RRSIG", val |-> Base("RRSIG")]} ELSE {})
  IN {[class |-> 1, owner |-> o, ttl |-> 3600, code |-> CodeOf(d.t), t |-> d.t, val |-> d.val] :
        o \in {<<lA>>, <<lb, lA>>} \cup (IF Tier = 2 THEN {<<lA, lb>>} ELSE {}), d \in datas}
\* (the executor builds owner shape x data shape as static types: the data
\* names of a record go through six of the shapes)
DataShapes == <<1, 5, 7, 11, 14, 23>>
CrecCarriers(r) ==
  {[oc |-> Sh(i, Clip(jk[1], r.owner), Clip(jk[2], r.owner), r.owner),
    cs |-> CarryAll(r.t, r.val, DataShapes[1 + ((i + d) % 6)], jk)] :
     i \in 1..NShapes, jk \in {<<0, 1>>, <<1, 1>>} \cup (IF Tier = 2 THEN {<<1, 2>>} ELSE {}),
     d \in IF Tier = 2 THEN {0, 3} ELSE {0}}

\* the table as data, for the I->S recorder
ASSUME PrintT("LAYOUT " \o ToJson([layout |-> Layout, code |-> TypeCode,
                                    optlayout |-> OptLayout, optcode |-> OptCode]))

InitBase ==
  \/ kind = "label"   /\ t = "" /\ a \in Labels /\ b \in Labels
  \/ kind = "name"    /\ t = "" /\ a \in Names /\ b \in Names
  \/ kind = "charstr" /\ t = "" /\ a \in CharStrs /\ b \in CharStrs
  \/ kind = "rdata"   /\ t \in Types /\ a \in RdVals(t) /\ b \in RdVals(t)
  \/ kind = "record"  /\ t = "" /\ a \in RecVals /\ b \in RecVals
InitReps ==
  \* two records, their data held in representation t.rep on both sides
  \/ kind = "xrecord" /\ t \in XReps /\ a \in XRecVals /\ b \in XRecVals
InitCarriers ==
  \* a name and one of its carriers
  \/ kind = "carrier" /\ t = "" /\ a \in CNames /\ b \in CarriersOf(a)
  \/ kind = "rcarrier" /\ t = "" /\ a \in CNames /\ b \in RelCarriersOf(a)
  \* two carriers (of two names)
  \/ kind = "cpair"   /\ t = "" /\ \E x, y \in PairNames, i, j \in 1..NShapes :
                                       PairPick(x, y, i, j) /\ a = RepC(i, x) /\ b = RepC(j, y)
  \* record data a with its names in carriers, against b held flat
  \/ kind = "crdata"  /\ t \in NameTypes /\ \E u \in CrdA(t) : \E v \in CrdB(t, u), cs \in CrdCarriers(t, u) :
                                       a = [val |-> u, cs |-> cs] /\ b = v
  \* a record with owner and data names in carriers, against a flat record
  \/ kind = "crecord" /\ t = "" /\ \E r, s \in CrecVals : \E c \in CrecCarriers(r) :
                                       a = [r |-> r, oc |-> c.oc, cs |-> c.cs] /\ b = s
Init == InitBase \/ InitReps \/ InitCarriers
Next == FALSE /\ UNCHANGED vars
Spec == Init /\ [][Next]_vars
SpecCarriers == InitCarriers /\ [][Next]_vars        \* the carrier part alone (MC_Order_mut*.cfg)
SpecReps == InitReps /\ [][Next]_vars                \* the representation part alone (MC_Order_mut4.cfg)

--------------------------------------------------------------------------
(* the laws, on the specification's own operators *)

\* the sorted example list of RFC 4034 6.1
RfcExample == <<
  << <<101,120,97,109,112,108,101>> >>,
  << <<97>>, <<101,120,97,109,112,108,101>> >>,
  << <<121,108,106,107,106,108,106,107>>, <<97>>, <<101,120,97,109,112,108,101>> >>,
  << <<90>>, <<97>>, <<101,120,97,109,112,108,101>> >>,
  << <<122,65,66,67>>, <<97>>, <<69,88,65,77,80,76,69>> >>,
  << <<122>>, <<101,120,97,109,112,108,101>> >>,
  << <<1>>, <<122>>, <<101,120,97,109,112,108,101>> >>,
  << <<42>>, <<122>>, <<101,120,97,109,112,108,101>> >>,
  << <<200>>, <<122>>, <<101,120,97,109,112,108,101>> >> >>
ASSUME RfcExampleSorted ==
  \A i, j \in 1..Len(RfcExample) :
     CanonNameCmp(RfcExample[i], RfcExample[j]) = (IF i < j THEN -1 ELSE IF i = j THEN 0 ELSE 1)

LawLabel == kind = "label" =>
  /\ IsSign(CanonLabelCmp(a, b))
  /\ CanonLabelCmp(a, b) = Neg(CanonLabelCmp(b, a))
  /\ (LabelEq(a, b) <=> CanonLabelCmp(a, b) = 0)
  /\ CanonLabelCmp(LowerSeq(a), b) = CanonLabelCmp(a, b) /\ LabelEq(a, LowerSeq(a))
  /\ (LabelEq(a, b) <=> LabelHashKey(a) = LabelHashKey(b))
  /\ (LabelLowerComposedCmp(a, b) = 0 <=> LabelEq(a, b))
  /\ LabelComposedCmp(a, b) = Neg(LabelComposedCmp(b, a))
LawName == kind = "name" =>
  /\ IsSign(CanonNameCmp(a, b))
  /\ CanonNameCmp(a, b) = Neg(CanonNameCmp(b, a))
  /\ (NameEq(a, b) <=> CanonNameCmp(a, b) = 0)
  /\ CanonNameCmp(LowerName(a), b) = CanonNameCmp(a, b) /\ NameEq(a, LowerName(a))
  /\ (NameEq(a, b) <=> NameHashKey(a) = NameHashKey(b))
  /\ (NameLowerComposedCmp(a, b) = 0 <=> NameEq(a, b))
  /\ (a # <<>> => CanonNameCmp(Tail(a), a) = -1)                  \* a parent sorts before its children
  /\ (IsSuffixOf(b, a) /\ Len(a) > Len(b) => CanonNameCmp(b, a) = -1)
LawCharStr == kind = "charstr" =>
  /\ CharStrCanonCmp(a, b) = Neg(CharStrCanonCmp(b, a))
  /\ (CharStrCanonCmp(a, b) = 0 <=> a = b)
  /\ (CharStrEq(a, b) <=> CharStrHashKey(a) = CharStrHashKey(b))
  /\ CharStrEq(a, LowerSeq(a))
LawRdata == kind = "rdata" =>
  /\ IsSign(CanonRdCmp(t, a, b))
  /\ CanonRdCmp(t, a, b) = Neg(CanonRdCmp(t, b, a))
  /\ CanonRdCmp(t, a, b) = LexCmp(ComposeRd(t, CanonVal(t, a)), ComposeRd(t, CanonVal(t, b)))
  /\ (CanonRdCmp(t, a, b) = 0 <=> CanonVal(t, a) = CanonVal(t, b))
  /\ (CanonRdCmp(t, a, b) = 0 => RdEq(t, a, b))
  /\ (RdEq(t, a, b) <=> RdEq(t, b, a)) /\ RdEq(t, a, a)
  /\ (RdEq(t, a, b) => RdEqLoose(t, a, b))
  /\ RdEq(t, a, LowerNames(t, a))                                   \* names never matter by case
LawRecord == kind = "record" =>
  /\ LexCmp(QWire(a), QWire(b)) = Neg(LexCmp(QWire(b), QWire(a)))
  /\ (LexCmp(QWire(a), QWire(b)) = 0 <=> RecSameKey(a, b))
  /\ (RecEqCore(a, b) <=> RecEqCore(b, a))
  /\ (RecCanonPinned(a, b) => RecCanonCmp(a, b) = Neg(RecCanonCmp(b, a)))
  /\ (RecCanonPinned(a, b) /\ RecCanonCmp(a, b) = 0 => RecEqCore(a, b))
  /\ (RecCanonPinned(a, b) => IsSign(RecCanonCmp(a, b)))

\* the order of records does not depend on what their data type answers
\* across types, and is that of the flat reading
LawRecRep == kind = "xrecord" =>
  /\ t.rep \in DataReps /\ IsSign(t.xans)
  /\ RecRepLawM(t.rep, t.xans, a, b, Mut)
  /\ IsSign(DataCanonAns(t.rep, t.xans, a, b))
  /\ DataCanonAns(t.rep, t.xans, a, b) = Neg(DataCanonAns(t.rep, t.xans, b, a))
  /\ (RecCanonPinned(a, b) => RecRepCanonCmp(t.rep, a, b) = Neg(RecRepCanonCmp(t.rep, b, a)))
  /\ (RecCanonPinned(a, b) /\ RecRepCanonCmp(t.rep, a, b) = 0 => RecSameKey(a, b) /\ RepRdEq(t.rep, a, b))

\* representation independence: whatever the carrier, the operators give what
\* they give for the denoted name
LawCarrier == kind = "carrier" =>
  /\ WfAbs(b) /\ Denote(b) = a
  /\ CarrierLawM(b, Mut)
  /\ CarrierObs(b, Mut).canon = LowerSeq(CarrierObs(b, Mut).compose)
  /\ CarrierObs(b, Mut).len = Len(CarrierObs(b, Mut).compose)
LawRelCarrier == kind = "rcarrier" =>
  WfRelTop(b) /\ RelLabels(b) = a /\ RelCarrierLaw(b)
LawCarrierPair == kind = "cpair" =>
  /\ WfAbs(a) /\ WfAbs(b)
  /\ (NamePairExp(Denote(a), Denote(b)).lcomposed
        = LexCmp(CWire(a, TRUE, Mut), CWire(b, TRUE, Mut)))
  /\ (NamePairExp(Denote(a), Denote(b)).composed
        = LexCmp(CWire(a, FALSE, Mut), CWire(b, FALSE, Mut)))
  /\ (NamePairExp(Denote(a), Denote(b)).eq <=> CWire(a, TRUE, Mut) = CWire(b, TRUE, Mut))
LawCarriedRd == kind = "crdata" =>
  /\ Carries(t, a.val, a.cs)
  /\ CarriedRdLawM(t, a.val, a.cs, Mut)
  \* the canonical order is the octet order of what the carriers compose
  /\ CanonRdCmp(t, a.val, b) = LexCmp(RdWireC(t, a.val, a.cs, TRUE, Mut), CanonRd(t, b))
LawCarriedRec == kind = "crecord" =>
  /\ WfAbs(a.oc) /\ Denote(a.oc) = a.r.owner /\ Carries(a.r.t, a.r.val, a.cs)
  /\ CarriedRecLawM(a.r, a.oc, a.cs, Mut)

\* transitivity, evaluated once (in one designated state)
Once == kind = "label" /\ a = <<0>> /\ b = <<0>>
LeqT(c) == c <= 0
LawTransitive == Once =>
  /\ \A x, y, z \in Labels1 \cup {<<p, q>> : p \in {65, 97, 91}, q \in {0, 90, 122}} :
        (LeqT(CanonLabelCmp(x, y)) /\ LeqT(CanonLabelCmp(y, z))) => LeqT(CanonLabelCmp(x, z))
  /\ \A x, y, z \in TripleNames :
        /\ (LeqT(CanonNameCmp(x, y)) /\ LeqT(CanonNameCmp(y, z))) => LeqT(CanonNameCmp(x, z))
        /\ (LeqT(NameLowerComposedCmp(x, y)) /\ LeqT(NameLowerComposedCmp(y, z))) => LeqT(NameLowerComposedCmp(x, z))
  /\ \A x \in {"SOA", "NSEC", "NAPTR", "MX"} : \A u, v, w \in RdVals(x) :
        (LeqT(CanonRdCmp(x, u, v)) /\ LeqT(CanonRdCmp(x, v, w))) => LeqT(CanonRdCmp(x, u, w))

--------------------------------------------------------------------------
(* S->I case generation *)

EmitLabel == kind = "label" =>
  PrintT("CASE " \o ToJson([in |-> [kind |-> kind, a |-> a, b |-> b],
     exp |-> [eq |-> LabelEq(a, b), cmp |-> CanonLabelCmp(a, b),
              composed |-> LabelComposedCmp(a, b), lcomposed |-> LabelLowerComposedCmp(a, b),
              hash_ok |-> TRUE, issues |-> <<>>]]))
EmitName == kind = "name" =>
  PrintT("CASE " \o ToJson([in |-> [kind |-> kind, a |-> ToWireAbs(a), b |-> ToWireAbs(b)],
     exp |-> NamePairExp(a, b)]))
EmitCharStr == kind = "charstr" =>
  PrintT("CASE " \o ToJson([in |-> [kind |-> kind, a |-> a, b |-> b],
     exp |-> [eq |-> CharStrEq(a, b), cmp0 |-> CharStrEq(a, b), canon |-> CharStrCanonCmp(a, b),
              hash_ok |-> TRUE, issues |-> <<>>]]))

EmitRdata == kind = "rdata" =>
  PrintT("CASE " \o ToJson([in |-> [kind |-> kind, rtype |-> CodeOf(t),
                                    a |-> MsgOf(CodeOf(t), ComposeRd(t, a)),
                                    b |-> MsgOf(CodeOf(t), ComposeRd(t, b)),
                                    eqfree |-> RdEqFree(t, a, b)],
                            exp |-> RdExp(t, a, b), dev |-> RdDev(t, a, b)]))

RecIn(r) == [class |-> r.class, owner |-> ToWireAbs(r.owner), ttl |-> r.ttl,
             rtype |-> r.code, rd |-> ComposeRd(r.t, r.val)]
EmitRecord == kind = "record" =>
  PrintT("CASE " \o ToJson([in |-> [kind |-> kind, a |-> RecIn(a), b |-> RecIn(b),
                                    eqfree |-> RecEqFree(a, b),
                                    canonfree |-> ~RecCanonPinned(a, b)],
                            exp |-> RecExp(a, b), dev |-> RecDev(a, b)]))

EmitXRecord == kind = "xrecord" =>
  PrintT("CASE " \o ToJson([in |-> [kind |-> kind, rep |-> t.rep, xans |-> t.xans,
                                    a |-> RecIn(a), b |-> RecIn(b),
                                    eqfree |-> RecEqFree(a, b),
                                    canonfree |-> ~RecCanonPinned(a, b)],
                            exp |-> XrecExp(t.rep, a, b)]))

EmitCarrier == kind = "carrier" =>
  PrintT("CASE " \o ToJson([in |-> [kind |-> kind, c |-> b], exp |-> NameObs(a)]))
EmitRelCarrier == kind = "rcarrier" =>
  PrintT("CASE " \o ToJson([in |-> [kind |-> kind, c |-> b], exp |-> RelObs(a)]))
EmitCarrierPair == kind = "cpair" =>
  PrintT("CASE " \o ToJson([in |-> [kind |-> kind, a |-> a, b |-> b],
                            exp |-> NamePairExp(Denote(a), Denote(b))]))
EmitCarriedRd == kind = "crdata" =>
  PrintT("CASE " \o ToJson([in |-> [kind |-> kind, rtype |-> CodeOf(t),
                                    a |-> MsgOf(CodeOf(t), ComposeRd(t, a.val)), cs |-> a.cs,
                                    b |-> MsgOf(CodeOf(t), ComposeRd(t, b)),
                                    eqfree |-> RdEqFree(t, a.val, b)],
                            exp |-> CrdExp(t, a.val, b), dev |-> CrdDev(t, a.val, b)]))
EmitCarriedRec == kind = "crecord" =>
  PrintT("CASE " \o ToJson([in |-> [kind |-> kind, a |-> RecIn(a.r), oc |-> a.oc, cs |-> a.cs,
                                    b |-> RecIn(b), canonfree |-> ~RecCanonPinned(a.r, b)],
                            exp |-> CrecExp(a.r, b)]))

\* the deviation as a statement about the model (MC_Order_dev.cfg): a hash
\* key that includes the TTL does not respect an == that ignores it
RecHashKeyImpl(r) == IF "D_record_hash_ttl" \in Dev THEN <<r.class, LowerName(r.owner), r.ttl, r.code>>
                     ELSE <<r.class, LowerName(r.owner), r.code>>
LawRecordHash == kind = "record" =>
  ((RecEqCore(a, b) \/ (RecEqFree(a, b) /\ RdEq(a.t, a.val, b.val))) => RecHashKeyImpl(a) = RecHashKeyImpl(b))
=============================================================================
