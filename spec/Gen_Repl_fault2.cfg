CONSTANTS
  Dev <- EnvDev
  XDev <- XEnvDev
  Hists <- HistsB
  Bases = {14}
  Reqs <- ReqsB
  Keys = {"good"}
  OldC <- OldC9
  MaxMsgs = 2
  LaterQ = {FALSE}
  FaultKinds = {"drop", "dup", "fliprec", "flipmac", "strip", "splice", "forge", "cut"}
  MaxFaults = 2
  Bursts = {}
  Prim = "scripted"
SPECIFICATION Spec
INVARIANT Emit
CHECK_DEADLOCK FALSE
