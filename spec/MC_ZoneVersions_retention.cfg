CONSTANTS
  Readers = {"r1"}
  MaxVer = 3
  SerialBits = 3
  SoaVals = {7}
  TxtVals = {1}
SPECIFICATION Spec
INVARIANT RetentionBoundedByLive
CHECK_DEADLOCK FALSE
