CONSTANTS
  Dev = {}
  Mut = {}
  AdvOn = {"ANS", "DS", "DNSKEY"}
  AnchorForms = {"dnskey"}
  Cfgs = {"bad2"}
  MaxRuns = 1
  EntQKinds = {"positive"}
  Budget = 1
  Shapes = {"secure3", "insecure3"}
  Denials = {"nsec", "nsec3"}
  QKinds = {"positive", "nxdomain"}
  AdvActs = {"AddBadSig", "AddCollidingKey", "AddExtraDs"}
SPECIFICATION Spec
VIEW View
INVARIANT Soundness
INVARIANT HonestSecure
INVARIANT InsecureNotBogus
INVARIANT WithinAllowed
INVARIANT NoPanic
INVARIANT Terminates
INVARIANT CacheTransparent
INVARIANT NoAnchorNotSecure
INVARIANT LimitsEnforced
INVARIANT Emit
CHECK_DEADLOCK TRUE
