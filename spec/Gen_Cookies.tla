---------------------------- MODULE Gen_Cookies ----------------------------
(* S->I generators for Cookies.tla.  Times are kept as SYMBOLIC linear     *)
(* expressions  h*Half + p*Past + f*Future + k  so that TLC evaluates them  *)
(* under the small model constants and the executor under the code's        *)
(* (Mod = 2^32, Past = 3600, Future = 300).  Each emitted server cookie     *)
(* carries the model's window verdict `win`; the executor recomputes it at  *)
(* 2^32 and skips (counts) a case where the two valuations disagree -- for  *)
(* the grid there must be none.                                             *)
EXTENDS MC_Cookies, Json

CONSTANTS NowQuick,    \* TRUE: 4 clock values in the grid, FALSE: all 12
          BehLen       \* number of operations of a generated behaviour

VARIABLES nowE,        \* the clock as an expression
          hist         \* operations so far with the expected projections
gvars == <<cfg, now, phase, req, out, nowE, hist>>

E(h, p, f, k) == [h |-> h, p |-> p, f |-> f, k |-> k]
Val(e) == (e.h * Half + e.p * Past + e.f * Future + e.k) % Mod
EAdd(a, b) == [h |-> (a.h + b.h) % 2, p |-> a.p + b.p, f |-> a.f + b.f, k |-> a.k + b.k]
ESub(a, b) == [h |-> (a.h - b.h) % 2, p |-> a.p - b.p, f |-> a.f - b.f, k |-> a.k - b.k]
E0 == E(0, 0, 0, 0)

NowExprsAll == {E0, E(0,0,0,1), E(0,0,1,0), E(0,1,0,0), E(1,0,0,-1), E(1,0,0,0), E(1,0,0,1),
                E(1,1,0,0), E(0,-1,0,-1), E(0,-1,0,0), E(0,0,-1,0), E(0,0,0,-1)}
NowExprs == IF NowQuick THEN {E0, E(1,0,0,0), E(0,0,0,-1), E(0,1,0,0)} ELSE NowExprsAll

DeltaBaseExprs == {E0, E(0,0,1,0), E(0,-1,0,0), E(1,0,0,0), E(1,-1,0,0), E(1,0,1,0),
                   E(0,0,-1,0), E(0,1,0,0)}
DeltaExprs == {EAdd(b, E(0,0,0,k)) : b \in DeltaBaseExprs, k \in {-1, 0, 1}}

ASSUME {Val(e) : e \in NowExprsAll} = {0, 1, Future, Past, Half - 1, Half, Half + 1, Half + Past,
                Mod - Past - 1, Mod - Past, Mod - Future, Mod - 1}
ASSUME {Val(e) : e \in DeltaExprs} = {d % Mod : d \in Deltas}
ASSUME Cardinality(DeltaExprs) = Cardinality({d % Mod : d \in Deltas})

\* The window verdict of a timestamp offset under the CODE's constants
\* (2^31, 3600, 300), computable with small integers: an offset with an odd
\* multiple of Half is about 2^31 away.  Only offsets whose verdict is the
\* same under both valuations are used.
RealWin(d) == d.h = 0 /\ LET x == d.p * 3600 + d.f * 300 + d.k IN x >= 0 - 3600 /\ x <= 300
ModelWin(d) == InWindow(0, Val(d))
Consistent(d) == RealWin(d) = ModelWin(d)
ASSUME \A d \in DeltaExprs : Consistent(d)

\* symbolic COOKIE option
SymStd(cc, v, r, d, m) == [len |-> 24, cc |-> cc, v |-> v, r |-> r, d |-> d, m |-> m]
SymOdd(n) == [len |-> n, cc |-> "c1", v |-> 0, r |-> 0, d |-> E0, m |-> "junk"]
Num(c, t, ip, sc) == IF sc.len = 24 THEN StdCookieCc(c, t, ip, sc.cc, sc.v, sc.r, Val(sc.d), sc.m)
                     ELSE Ck(sc.len, sc.cc, 0, 0, TZero, Junk)

VRM == {<<v, r, m>> : v \in {1, 2}, r \in {0, 1}, m \in {"none", "ver", "rsv"}}
       \cup {<<1, 0, m>> : m \in Mism \ {"none", "ver", "rsv"}}

SymLists(ds) ==
  {<<>>}
  \cup {<<SymOdd(n)>> : n \in OddLens}
  \cup {<<SymStd("c1", x[1], x[2], d, x[3])>> : x \in VRM, d \in ds}
  \cup {<<SymStd("c1", 1, 0, E0, "none"), SymOdd(7)>>,
        <<SymOdd(7), SymStd("c1", 1, 0, E0, "none")>>,
        <<SymOdd(8), SymStd("c1", 1, 0, E0, "none")>>,
        <<SymStd("c1", 1, 0, E0, "junk"), SymStd("c1", 1, 0, E0, "none")>>}

SymReqs(ds) ==
  {[udp |-> u, ip |-> i, qd |-> q, opt |-> "ok", cks |-> l] :
       u \in BOOLEAN, i \in IPs, q \in {0, 1}, l \in SymLists(ds)}
  \cup {[udp |-> u, ip |-> i, qd |-> q, opt |-> o, cks |-> <<>>] :
       u \in BOOLEAN, i \in IPs, q \in {0, 1}, o \in {"none", "bad"}}

NumReq(c, t, sr) == [udp |-> sr.udp, ip |-> sr.ip, qd |-> sr.qd, opt |-> sr.opt,
                     cks |-> [j \in 1 .. Len(sr.cks) |-> Num(c, t, sr.ip, sr.cks[j])]]

\* what the executor is given: the symbolic request plus the model's
\* window verdict per COOKIE option
OutReq(t, sr) == [udp |-> sr.udp, ip |-> sr.ip, qd |-> sr.qd, opt |-> sr.opt,
                  cks |-> [j \in 1 .. Len(sr.cks) |->
                     [len |-> sr.cks[j].len, cc |-> sr.cks[j].cc, v |-> sr.cks[j].v,
                      r |-> sr.cks[j].r, d |-> sr.cks[j].d, m |-> sr.cks[j].m,
                      win |-> InWindow(t, (t + Val(sr.cks[j].d)) % Mod)]]]

ProjCfg(c) == [secret |-> c.secret, enabled |-> c.enabled,
               deny |-> [a |-> "a" \in c.deny, b |-> "b" \in c.deny, c |-> "c" \in c.deny]]

ProjOut(o, fresh) ==
  [act |-> o.act, rcode |-> o.rcode, tc |-> o.tc,
   ck |-> IF o.ck.k = "none" THEN "none" ELSE IF o.ck = fresh THEN "fresh" ELSE "other",
   echo |-> IF o.rcode \in {"FORMERR", "REFUSED", "-"} THEN "any" ELSE IF o.echo THEN "yes" ELSE "no",
   fwd |-> IF o.act = "pass" THEN "same" ELSE "none",
   rest |-> IF o.act = "pass" THEN "same" ELSE IF o.act = "reply" THEN "own" ELSE "-"]

ExpCall(c, t, nr, D) == ProjOut(DecideD(c, t, nr, D), FreshCk(c, t, nr))

AllDevs == {"D_pass_no_cookie"}
DevMapI(c, t, nr, ideal) ==
  LET d1 == ExpCall(c, t, nr, {"D_pass_no_cookie"})
  IN IF d1 = ideal THEN <<>> ELSE [D_pass_no_cookie |-> d1]
DevMap(c, t, nr) == DevMapI(c, t, nr, ExpCall(c, t, nr, {}))

--------------------------------------------------------------------------
(* 1. the exhaustive grid: one call per case *)

GridCfgs == {[secret |-> "s1", deny |-> D, enabled |-> TRUE] : D \in DenySets}
            \cup {[secret |-> "s2", deny |-> {"a", "c"}, enabled |-> FALSE]}
\* a disabled middleware is checked at one clock value only
GridNows(c) == IF c.enabled THEN NowExprs ELSE {E(0,1,0,0)}

\* (cfg, clock) pairs are spread over states so that TLC's workers emit in
\* parallel: idle -> "g-sel" (one state per pair) -> "g-emit"
GridNext ==
  \/ /\ phase = "idle"
     /\ \E c \in GridCfgs : \E e \in GridNows(c) :
          cfg' = c /\ now' = Val(e) /\ nowE' = e /\ phase' = "g-sel"
     /\ UNCHANGED <<req, out, hist>>
  \/ /\ phase = "g-sel" /\ phase' = "g-emit"
     /\ UNCHANGED <<cfg, now, req, out, nowE, hist>>

EmitGrid ==
  phase = "g-emit" =>
    LET c == cfg
        e == nowE
        t == now
    IN \A sr \in SymReqs(DeltaExprs) :
       LET nr == NumReq(c, t, sr)
           ideal == ExpCall(c, t, nr, {})
           dm == DevMapI(c, t, nr, ideal)
           \* RFC 9018 defines version 1 only; the code does not look at the
           \* version (the hash covers it).  A correctly hashed cookie of
           \* another version may also be treated as invalid.
           free == sr.opt = "ok" /\ Len(sr.cks) > 0 /\ sr.cks[1].len = 24 /\ sr.cks[1].v # 1
                   /\ sr.cks[1].m = "none"
           jr == NumReq(c, t, [sr EXCEPT !.cks[1].m = "junk"])
           alts == IF free
                   THEN <<<<ExpCall(c, t, jr, {}), ideal>>,
                          <<ExpCall(c, t, jr, {"D_pass_no_cookie"}), ExpCall(c, t, nr, {"D_pass_no_cookie"})>>>>
                   ELSE <<>>
           inp == [kind |-> "grid", cfg |-> ProjCfg(c), now |-> e, req |-> OutReq(t, sr)]
           base == [in |-> IF free THEN inp @@ [alt |-> alts] ELSE inp, exp |-> ideal]
       IN PrintT("CASE " \o ToJson(IF dm = <<>> THEN base ELSE base @@ [dev |-> dm]))

\* the model and the generator agree on what the grid is
GridIsModelGrid ==
  phase = "idle" =>
    \A c \in {x \in GridCfgs : NowQuick => x.deny # {}} :
    \A e \in IF NowQuick THEN {E(1,0,0,0), E(0,0,0,-1)} ELSE NowExprsAll :
       {NumReq(c, Val(e), sr) : sr \in SymReqs(DeltaExprs)} \subseteq ReqGrid(c, Val(e))

--------------------------------------------------------------------------
(* 2. behaviours: several operations on one middleware object *)

ClockSteps == {E(0,0,0,1), E(0,0,1,0), E(0,0,1,1), E(0,1,0,0), E(0,1,0,1), E(0,-1,0,0),
               E(0,0,-1,-1), E(1,0,0,0), E(0,1,-1,0)}

IssuedAt == {hist[j].at : j \in {i \in 1 .. Len(hist) : hist[i].op = "call"}}
\* timestamps a client can hold: the grid around now and the times at which
\* earlier calls of this behaviour were answered
BehDeltas == {E0, E(0,0,1,0), E(0,0,1,1), E(0,-1,0,0), E(0,-1,0,-1)}
             \cup {ESub(a, nowE) : a \in IssuedAt}
BehReqs ==
  {[udp |-> u, ip |-> i, qd |-> q, opt |-> "ok", cks |-> <<SymStd(cc, 1, 0, d, m)>>] :
       u \in BOOLEAN, i \in IPs, q \in {0, 1}, cc \in {"c1", "c2"}, d \in BehDeltas,
       m \in {"none", "none", "secret", "ip", "cc", "junk"}}
  \cup {[udp |-> u, ip |-> i, qd |-> q, opt |-> "ok", cks |-> <<SymOdd(n)>>] :
       u \in BOOLEAN, i \in IPs, q \in {0, 1}, n \in {8, 12, 24 - 8}}
  \cup {[udp |-> u, ip |-> i, qd |-> 1, opt |-> "none", cks |-> <<>>] : u \in BOOLEAN, i \in IPs}

Rec(op, arg, at) ==
  [op |-> op, arg |-> arg, at |-> at]

GInit == /\ InitWith("s1", 0) /\ nowE = E0 /\ hist = <<>>

Step(op, arg, e) ==
  hist' = Append(hist, [op |-> op, arg |-> arg, at |-> nowE', cfg |-> ProjCfg(cfg'), exp |-> e.exp, dev |-> e.dev])
NoExp == [exp |-> ProjOut(NoOut, NoCk), dev |-> <<>>]

GNew(s) == New(s) /\ UNCHANGED nowE /\ Step("new", [secret |-> s], NoExp)
GDeny(D) == WithDeniedIps(D) /\ UNCHANGED nowE
            /\ Step("deny", [a |-> "a" \in D, b |-> "b" \in D, c |-> "c" \in D], NoExp)
GEnable(b) == Enable(b) /\ UNCHANGED nowE /\ Step("enable", [on |-> b], NoExp)
GClock(d) == /\ nowE' = EAdd(nowE, d) /\ ClockSet(Val(EAdd(nowE, d)))
             /\ Step("clock", [t |-> EAdd(nowE, d)], NoExp)
GCall(sr) == LET nr == NumReq(cfg, now, sr)
             IN /\ Call(nr) /\ UNCHANGED nowE
                /\ Step("call", OutReq(now, sr),
                        [exp |-> ExpCall(cfg, now, nr, {}), dev |-> DevMap(cfg, now, nr)])
GDone == Done /\ UNCHANGED <<nowE, hist>>

\* one random successor per step (-simulate enumerates all successors otherwise)
GNext == \/ /\ phase = "idle" /\ Len(hist) < BehLen
            /\ \E kind \in {RandomElement({"new", "deny", "enable", "clock", "clock", "call", "call", "call", "call"})} :
               \/ kind = "new" /\ \E s \in {RandomElement(Secrets)} : GNew(s)
               \/ kind = "deny" /\ \E D \in {RandomElement(DenySets)} : GDeny(D)
               \/ kind = "enable" /\ \E b \in {RandomElement({1, 2, 3}) # 3} : GEnable(b)
               \/ kind = "clock" /\ \E d \in {RandomElement(ClockSteps)} : GClock(d)
               \/ kind = "call" /\ \E sr \in {RandomElement({x \in BehReqs : \A j \in 1 .. Len(x.cks) : Consistent(x.cks[j].d)})} : GCall(sr)
         \/ /\ phase = "called" /\ GDone

GSpec == GInit /\ [][GNext]_gvars
GridSpec == GInit /\ [][GridNext]_gvars

EmitBeh ==
  (Len(hist) = BehLen /\ phase = "idle") =>
     LET ops == [j \in 1 .. Len(hist) |-> [op |-> hist[j].op, arg |-> hist[j].arg]]
         exps == [j \in 1 .. Len(hist) |-> [cfg |-> hist[j].cfg, out |-> hist[j].exp]]
         devd == [j \in 1 .. Len(hist) |->
                    [cfg |-> hist[j].cfg,
                     out |-> IF hist[j].dev = <<>> THEN hist[j].exp ELSE hist[j].dev.D_pass_no_cookie]]
         base == [in |-> [kind |-> "beh", ops |-> ops], exp |-> exps]
     IN PrintT("CASE " \o ToJson(IF devd = exps THEN base ELSE base @@ [dev |-> [D_pass_no_cookie |-> devd]]))
=============================================================================
