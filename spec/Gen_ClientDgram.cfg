CONSTANTS
  Dev = {}
  TickMs = 10000
  Confs <- GConfs
  MaxDgrams = 3
  MaxOps = 12
  PathMode = FALSE
  Faults <- GFaults
SPECIFICATION GenSpec
VIEW GenView
ACTION_CONSTRAINT EmitTransition
CHECK_DEADLOCK FALSE
