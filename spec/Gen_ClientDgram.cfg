CONSTANTS
  Dev = {}
  RD = 2
  MaxRetries = 1
  MaxDgrams = 3
  MaxOps = 12
  Faults <- GFaults
SPECIFICATION GenSpec
VIEW GenView
ACTION_CONSTRAINT EmitTransition
CHECK_DEADLOCK FALSE
