---------------------------- MODULE Presentation ----------------------------
(***************************************************************************)
(* The presentation-format *writer* of domain (Display for Label / Name,    *)
(* CharStr::display_quoted, ZonefileFmt / fmt::Display of Record and of     *)
(* TXT, HINFO, NS-like, MX and RFC 3597 generic data, the three             *)
(* FormatWriters of base/zonefile_fmt.rs) transcribed, and composed with    *)
(* the *reader* of ZoneFile.tla:                                            *)
(*                                                                          *)
(*      ReadAll(Render(Write(r, kind))) = << r >>                           *)
(*                                                                          *)
(* A record is [owner |-> labels, class, ttl, rd] with rd one of            *)
(*   [t |-> 16, strs]  [t |-> 13, cpu, os]  [t |-> 2|5|12|39, name]         *)
(*   [t |-> 15, pref, name]  [t |-> other, data]  (generic form).           *)
(* Names are sequences of labels (octet sequences), absolute.               *)
(*                                                                          *)
(* Deviations (writer side; the reader's are those of ZoneFile.tla):        *)
(*   D_label_escape_set  Display for Label escapes only ' ', '.', '\' and   *)
(*                       non-printables; the reader also treats '"', ';',   *)
(*                       '(', ')' and a leading '$' specially               *)
(*   D_display_root_dot  fmt::Display of a record / of a name inside record *)
(*                       data writes "<name>." and Name's Display of the    *)
(*                       root is already ".": the root comes out as ".."    *)
(***************************************************************************)
EXTENDS ZoneFile

WriterDevs == {"D_label_escape_set", "D_display_root_dot"}

B16 == INSTANCE BaseN WITH Dev <- {}

RECURSIVE DecDigits(_)
DecDigits(n) == IF n < 10 THEN <<48 + n>> ELSE DecDigits(n \div 10) \o <<48 + (n % 10)>>
Dec3(b) == <<BSL, 48 + (b \div 100), 48 + ((b \div 10) % 10), 48 + (b % 10)>>
Printable(b) == b >= 32 /\ b < 127

\* --- the escape set of each writer context -------------------------------
\* what the reader of ZoneFile.tla needs escaped inside an unquoted name token
LabelEscapeIdeal == {SP, DOT, BSL, QUOTE, SEMI, LPAR, RPAR, DOLLAR}
LabelEscapeCode  == {SP, DOT, BSL}                        \* Display for Label today
LabelEscape(dv) == IF "D_label_escape_set" \in dv THEN LabelEscapeCode ELSE LabelEscapeIdeal
QuotedEscape == {QUOTE, BSL}                               \* Symbol::quoted_from_octet

WOctet(b, esc) == IF b \in esc THEN <<BSL, b>> ELSE IF ~Printable(b) THEN Dec3(b) ELSE <<b>>
WLabel(l, dv) == Concat([i \in 1..Len(l) |-> WOctet(l[i], LabelEscape(dv))])
WQuoted(s) == <<QUOTE>> \o Concat([i \in 1..Len(s) |-> WOctet(s[i], QuotedEscape)]) \o <<QUOTE>>

RECURSIVE JoinWith(_, _)
JoinWith(ps, sep) == IF Len(ps) = 0 THEN <<>> ELSE IF Len(ps) = 1 THEN ps[1]
                     ELSE ps[1] \o sep \o JoinWith(Tail(ps), sep)
\* ToName::fmt_with_dot: always absolute with the final dot
WNameDot(n, dv) == IF n = <<>> THEN <<DOT>>
                   ELSE JoinWith([i \in 1..Len(n) |-> WLabel(n[i], dv)], <<DOT>>) \o <<DOT>>
\* Display for Name (no final dot, the root is ".") followed by the "." the
\* Display impls of Record and of record data append
WNameDisplayDot(n, dv) ==
  IF n = <<>> THEN (IF "D_display_root_dot" \in dv THEN <<DOT, DOT>> ELSE <<DOT>>)
  ELSE JoinWith([i \in 1..Len(n) |-> WLabel(n[i], dv)], <<DOT>>) \o <<DOT>>
WName(n, kind, dv) == IF kind = "display" THEN WNameDisplayDot(n, dv) ELSE WNameDot(n, dv)

\* --- mnemonics -----------------------------------------------------------
Mnemo(table, prefix, v) ==
  IF \E p \in table : p[2] = v THEN (CHOOSE p \in table : p[2] = v)[1] ELSE prefix \o DecDigits(v)
WType(t) == Mnemo(RtypeMnemonics, <<84, 89, 80, 69>>, t)
WClass(c) == Mnemo(ClassMnemonics, <<67, 76, 65, 83, 83>>, c)

\* --- the writer's output: tokens, block brackets, comments ----------------
Tok(t) == [k |-> "tok", t |-> t]
Open == [k |-> "open"]
Close == [k |-> "close"]
Cmt(t) == [k |-> "cmt", t |-> t]

HexByte(b) == LET h(v) == IF v < 10 THEN 48 + v ELSE 87 + v IN <<h(b \div 16), h(b % 16)>>   \* lower case

WRdata(rd, kind, dv) ==
  IF rd.t = 16 THEN <<Open>> \o [i \in 1..Len(rd.strs) |-> Tok(WQuoted(rd.strs[i]))] \o <<Close>>
  ELSE IF rd.t = 13 THEN <<Open, Tok(WQuoted(rd.cpu)), Cmt(<<99, 112, 117>>), Tok(WQuoted(rd.os)), Cmt(<<111, 115>>), Close>>
  ELSE IF rd.t \in NameTypes THEN <<Tok(WName(rd.name, kind, dv))>>
  ELSE IF rd.t = 15 THEN <<Open, Tok(DecDigits(rd.pref)), Cmt(<<112, 114, 101, 102>>), Tok(WName(rd.name, kind, dv)), Close>>
  ELSE <<Tok(<<BSL, HASH, SP>> \o DecDigits(Len(rd.data))
             \o Concat([i \in 1..Len(rd.data) |-> <<SP>> \o HexByte(rd.data[i])]))>>

Write(r, kind, dv) ==
  <<Tok(WName(r.owner, kind, dv)), Tok(DecDigits(r.ttl)), Tok(WClass(r.class)), Tok(WType(r.rd.t))>>
  \o WRdata(r.rd, kind, dv)

\* --- the three FormatWriters and fmt::Display ------------------------------
Kinds == {"simple", "tabbed", "multiline", "display"}

RECURSIVE RenderFrom(_, _, _, _, _)
\* first: no token on this line yet; depth: open blocks
RenderFrom(items, i, kind, first, depth) ==
  IF i > Len(items) THEN <<LF>>
  ELSE LET it == items[i] IN
    IF it.k = "tok" THEN
       (IF first THEN <<>> ELSE IF kind = "tabbed" /\ depth = 0 THEN <<TAB>> ELSE <<SP>>) \o it.t
       \o RenderFrom(items, i + 1, kind, FALSE, depth)
    ELSE IF it.k = "open" THEN
       (IF kind = "multiline" THEN (IF first THEN <<>> ELSE <<SP>>) \o <<LPAR>> ELSE <<>>)
       \o RenderFrom(items, i + 1, kind, first /\ kind # "multiline", depth + 1)
    ELSE IF it.k = "close" THEN
       (IF kind = "multiline" THEN (IF first THEN <<>> ELSE <<SP>>) \o <<RPAR>> ELSE <<>>)
       \o RenderFrom(items, i + 1, kind, first /\ kind # "multiline", depth - 1)
    ELSE \* comment: only the multi-line writer, only inside a block; ends the line
       IF kind = "multiline" /\ depth > 0
       THEN <<TAB, SEMI, SP>> \o it.t \o <<LF, SP, SP>> \o RenderFrom(items, i + 1, kind, TRUE, depth)
       ELSE RenderFrom(items, i + 1, kind, first, depth)

Render(items, kind) == RenderFrom(items, 1, kind, TRUE, 0)
WText(r, kind, dv) == Render(Write(r, kind, dv), kind)

\* --- the record as the reader reports it --------------------------------
WireName(n) == Concat([i \in 1..Len(n) |-> <<Len(n[i])>> \o n[i]]) \o <<0>>
CS(s) == <<Len(s)>> \o s
RdWire(rd) ==
  IF rd.t = 16 THEN Concat([i \in 1..Len(rd.strs) |-> CS(rd.strs[i])])
  ELSE IF rd.t = 13 THEN CS(rd.cpu) \o CS(rd.os)
  ELSE IF rd.t \in NameTypes THEN WireName(rd.name)
  ELSE IF rd.t = 15 THEN EncU16(rd.pref) \o WireName(rd.name)
  ELSE rd.data
AsEntry(r) == [owner |-> WireName(r.owner), class |-> r.class, ttl |-> r.ttl,
               rtype |-> r.rd.t, rdata |-> RdWire(r.rd)]
Expected(r) == [entries |-> <<AsEntry(r)>>, err |-> FALSE]

\* reading the written text with the reader of ZoneFile.tla: no default class
\* (the class is always written), origin as given (names are written absolute)
ReadBack(text, origin, rdv) == ReadAll(text, origin, -1, rdv)

\* the property, for one record, one kind, one origin
RoundTrip(r, kind, origin, dv) == ReadBack(WText(r, kind, dv), origin, {}) = Expected(r)
=============================================================================
