---------------------------- MODULE Presentation ----------------------------
(***************************************************************************)
(* The presentation-format *writer* of domain (Display for Label / Name,    *)
(* CharStr::display_quoted, ZonefileFmt / fmt::Display of Record and of     *)
(* TXT, HINFO, NS-like, MX and RFC 3597 generic data, the three             *)
(* FormatWriters of base/zonefile_fmt.rs) transcribed, and composed with    *)
(* the *reader* of ZoneFile.tla:                                            *)
(*                                                                          *)
(*      ReadAll(Render(Write(r, kind))) = << r >>                           *)
(*                                                                          *)
(* A record is [owner |-> labels, class, ttl, rd] with rd one of            *)
(*   [t |-> 16, strs]  [t |-> 13, cpu, os]  [t |-> 2|5|12|39, name]         *)
(*   [t |-> 15, pref, name]  [t |-> other, data]  (generic form).           *)
(* Names are sequences of labels (octet sequences), absolute.               *)
(*                                                                          *)
(* Further down: zones (several records, one FormatWriter with newline() or  *)
(* a writer per record, read by a configured reader: ReadCfg, ExpectedZone,  *)
(* ZoneRoundTrip), the token route (RdTokens / ReadTokens: record data as a  *)
(* token list for IterScanner), and field texts on their own (LabelFromStr,  *)
(* CharStrFromStr).                                                          *)
(*                                                                          *)
(* Deviations (writer side; the reader's are those of ZoneFile.tla):        *)
(*   D_label_escape_set  Display for Label escapes only ' ', '.', '\' and   *)
(*                       non-printables; the reader also treats '"', ';',   *)
(*                       '(', ')' and a leading '$' specially               *)
(*   D_display_root_dot  fmt::Display of a record / of a name inside record *)
(*                       data writes "<name>." and Name's Display of the    *)
(*                       root is already ".": the root comes out as ".."    *)
(*                                                                          *)
(* Restricted-alphabet token fields (section "Field kinds" below): record   *)
(* types whose presentation form has tokens with an alphabet / validation   *)
(* of their own -- the CAA tag, plain integers (impl_scan_unsigned!), the    *)
(* IANA integers read through str::parse, type mnemonics in bitmaps, the     *)
(* NSEC3 salt, hex data.  FieldAlphabet / Admitted(kind, v) say what the     *)
(* CONSTRUCTORS and the wire parser admit, FieldWrite / FieldRead are the    *)
(* writer and the reader of the token; the law FieldRead o FieldWrite = id   *)
(* ranges over everything admitted, and the carriers (CAA, NSEC, TLSA,       *)
(* NSEC3PARAM records: rd shapes [t |-> 257, fl, tag, val], [t |-> 47, name, *)
(* types], [t |-> 52, u, s, m, data], [t |-> 51, alg, fl, it, salt]) take    *)
(* the fields through the whole-record law.                                  *)
(*   D_caa_empty_tag     CaaTag::check_slice (all constructors, the wire     *)
(*                       parser) admits the empty tag (RFC 8659 4.1: at      *)
(*                       least one character); it is written as nothing and  *)
(*                       the value is then read as the tag                   *)
(***************************************************************************)
EXTENDS ZoneFile

WriterDevs == {"D_label_escape_set", "D_display_root_dot"}
FieldDevs == {"D_caa_empty_tag"}      \* constructor side: what is admitted
\* the token route's reader (base::scan::IterScanner):
\*   D_iterscanner_marker  IterScanner::scan_opt_unknown_marker only peeks at the
\*                         "\#" token and leaves it in place; ZoneRecordData::scan
\*                         then reads it as the RFC 3597 length: the generic form
\*                         cannot be read through an IterScanner at all
TokenDevs == {"D_iterscanner_marker"}

B16 == INSTANCE BaseN WITH Dev <- {}

RECURSIVE DecDigits(_)
DecDigits(n) == IF n < 10 THEN <<48 + n>> ELSE DecDigits(n \div 10) \o <<48 + (n % 10)>>
Dec3(b) == <<BSL, 48 + (b \div 100), 48 + ((b \div 10) % 10), 48 + (b % 10)>>
Printable(b) == b >= 32 /\ b < 127

\* --- the escape set of each writer context -------------------------------
\* what the reader of ZoneFile.tla needs escaped inside an unquoted name token
LabelEscapeIdeal == {SP, DOT, BSL, QUOTE, SEMI, LPAR, RPAR, DOLLAR}
LabelEscapeCode  == {SP, DOT, BSL}                        \* Display for Label today
LabelEscape(dv) == IF "D_label_escape_set" \in dv THEN LabelEscapeCode ELSE LabelEscapeIdeal
QuotedEscape == {QUOTE, BSL}                               \* Symbol::quoted_from_octet

WOctet(b, esc) == IF b \in esc THEN <<BSL, b>> ELSE IF ~Printable(b) THEN Dec3(b) ELSE <<b>>
WLabel(l, dv) == Concat([i \in 1..Len(l) |-> WOctet(l[i], LabelEscape(dv))])
QInner(s) == Concat([i \in 1..Len(s) |-> WOctet(s[i], QuotedEscape)])
WQuoted(s) == <<QUOTE>> \o QInner(s) \o <<QUOTE>>
\* CharStr::display_unquoted (Symbol::from_octet): no delimiters
UnquotedEscape == {SP, QUOTE, BSL, SEMI}
WUnquoted(s) == Concat([i \in 1..Len(s) |-> WOctet(s[i], UnquotedEscape)])

RECURSIVE JoinWith(_, _)
JoinWith(ps, sep) == IF Len(ps) = 0 THEN <<>> ELSE IF Len(ps) = 1 THEN ps[1]
                     ELSE ps[1] \o sep \o JoinWith(Tail(ps), sep)
\* ToName::fmt_with_dot: always absolute with the final dot
WNameDot(n, dv) == IF n = <<>> THEN <<DOT>>
                   ELSE JoinWith([i \in 1..Len(n) |-> WLabel(n[i], dv)], <<DOT>>) \o <<DOT>>
\* Display for Name (no final dot, the root is ".") followed by the "." the
\* Display impls of Record and of record data append
WNameDisplayDot(n, dv) ==
  IF n = <<>> THEN (IF "D_display_root_dot" \in dv THEN <<DOT, DOT>> ELSE <<DOT>>)
  ELSE JoinWith([i \in 1..Len(n) |-> WLabel(n[i], dv)], <<DOT>>) \o <<DOT>>
\* an equivalent spelling the writers do not use but the reader must take for
\* the same name: relative to the origin RelOrigin (kind "relative": the
\* specification's text only; tokens as the simple writer sets them)
RelOrigin == << <<101, 120>> >>                     \* ex.
UnderRelOrigin(n) == Len(n) > Len(RelOrigin) /\ SubSeq(n, Len(n) - Len(RelOrigin) + 1, Len(n)) = RelOrigin
WNameRel(n, dv) == IF UnderRelOrigin(n)
                   THEN JoinWith([i \in 1..(Len(n) - Len(RelOrigin)) |-> WLabel(n[i], dv)], <<DOT>>)
                   ELSE WNameDot(n, dv)
WName(n, kind, dv) == IF kind = "display" THEN WNameDisplayDot(n, dv)
                      ELSE IF kind = "relative" THEN WNameRel(n, dv) ELSE WNameDot(n, dv)

\* --- mnemonics -----------------------------------------------------------
Mnemo(table, prefix, v) ==
  IF \E p \in table : p[2] = v THEN (CHOOSE p \in table : p[2] = v)[1] ELSE prefix \o DecDigits(v)
WType(t) == Mnemo(RtypeMnemonics, <<84, 89, 80, 69>>, t)
WClass(c) == Mnemo(ClassMnemonics, <<67, 76, 65, 83, 83>>, c)

\* --- the writer's output: tokens, block brackets, comments ----------------
Tok(t) == [k |-> "tok", t |-> t]
Open == [k |-> "open"]
Close == [k |-> "close"]
Cmt(t) == [k |-> "cmt", t |-> t]

HexByte(b) == LET h(v) == IF v < 10 THEN 48 + v ELSE 87 + v IN <<h(b \div 16), h(b % 16)>>   \* lower case

\* RFC 3597: \# <length> <two hex digits per octet>
GenericWords(data) == <<<<BSL, HASH>>, DecDigits(Len(data))>> \o [i \in 1..Len(data) |-> HexByte(data[i])]

\* ======================================================================
\* Field kinds: tokens with an alphabet / a validation of their own.
\* A value is an octet sequence (text kinds) or a number (numeric kinds).
UpperAZ == 65..90    LowerAZ == 97..122    Digits09 == 48..57
FieldKinds == {"caa_tag", "u8", "u16", "str8", "rtype", "salt", "hex", "u32", "b64"}
\* "u32": a 32-bit field (Serial, Ttl::scan / u32::scan, Timestamp in its
\* numeric form).  TLC's integers end at 2^31 - 1, so a value is its four
\* big-endian octets and the decimal text is computed on two 16-bit limbs.
RECURSIVE Dec32L(_, _)
Dec32L(hi, lo) == IF hi = 0 /\ lo < 10 THEN <<48 + lo>>
                  ELSE LET m == (hi % 10) * 65536 + lo IN Dec32L(hi \div 10, m \div 10) \o <<48 + (m % 10)>>
Dec32(o) == Dec32L(o[1] * 256 + o[2], o[3] * 256 + o[4])
\* reading it: decimal digits only (escapes are no digits), checked_mul / checked_add
RECURSIVE Scan32From(_, _, _, _)
Scan32From(syms, i, hi, lo) ==
  IF i > Len(syms) THEN [r |-> "ok", v |-> <<hi \div 256, hi % 256, lo \div 256, lo % 256>>]
  ELSE LET s == syms[i] IN
    IF ~(IsPlain(s) /\ IsDigit(s)) THEN ErrR
    ELSE LET l == lo * 10 + (s - 48)
             h == hi * 10 + (l \div 65536)
         IN IF h > 65535 THEN ErrR ELSE Scan32From(syms, i + 1, h, l % 65536)
Scan32(tok) == Scan32From(tok.syms, 1, 0, 0)
IsU32(v) == Len(v) = 4 /\ \A i \in 1..4 : v[i] \in 0..255
\* text kinds: the octets a value may consist of (CaaTag::check_slice:
\* is_ascii_alphanumeric; salt / hex data: any octet) ...
FieldAlphabet(k) ==
  CASE k = "caa_tag" -> UpperAZ \cup LowerAZ \cup Digits09
    [] k \in {"salt", "hex", "b64"} -> 0..255
\* ... its boundary characters and the characters just outside ('@' '[' '`'
\* '{' '/' ':' and '-', which RFC 8659 mentions for future tags)
FieldBoundary(k) == CASE k = "caa_tag" -> {65, 90, 97, 122, 48, 57}
FieldOutside(k)  == CASE k = "caa_tag" -> {64, 91, 96, 123, 47, 58, 45}
\* numeric kinds: u8 / u16 scanned digit by digit (impl_scan_unsigned!),
\* str8 the IANA integers read by str::parse, rtype a type mnemonic or TYPEnnn
FieldMax(k) == CASE k \in {"u8", "str8"} -> 255 [] k \in {"u16", "rtype"} -> 65535

\* what the constructors and the wire parser admit (dv: FieldDevs in force)
Admitted(k, v, dv) ==
  CASE k = "caa_tag" -> /\ Len(v) <= 255 /\ \A i \in 1..Len(v) : v[i] \in FieldAlphabet(k)
                        /\ (Len(v) >= 1 \/ "D_caa_empty_tag" \in dv)
    [] k \in {"u8", "u16", "str8", "rtype"} -> v \in 0..FieldMax(k)
    [] k = "salt" -> Len(v) <= 255 /\ \A i \in 1..Len(v) : v[i] \in FieldAlphabet(k)
    [] k \in {"hex", "b64"} -> Len(v) >= 1 /\ \A i \in 1..Len(v) : v[i] \in FieldAlphabet(k)
    [] k = "u32" -> IsU32(v)

HexOf(d) == Concat([i \in 1..Len(d) |-> HexByte(d[i])])
\* the writer of the token
FieldWrite(k, v) ==
  CASE k = "caa_tag" -> v                                   \* Display for CaaTag: the octets as they are
    [] k \in {"u8", "u16", "str8"} -> DecDigits(v)
    [] k = "rtype" -> WType(v)
    [] k = "salt" -> IF v = <<>> THEN <<45>> ELSE HexOf(v)   \* RFC 5155 3.3: "-"
    [] k = "hex" -> HexOf(v)
    [] k = "u32" -> Dec32(v)
    [] k = "b64" -> B16!Enc64(v)
\* the reader of the token (a token item of ZoneFile.tla): [r |-> "ok", v |-> value] or an error
FieldRead(k, tok) ==
  CASE k = "caa_tag" ->     \* CaaTag::scan: CharStr::scan, then check_slice
         LET c == ScanCharStr(tok, {}) IN
         IF c.r # "ok" THEN c
         ELSE IF \E i \in 2..Len(c.o) : c.o[i] \notin FieldAlphabet(k) THEN ErrR
         ELSE [r |-> "ok", v |-> Tail(c.o)]
    [] k = "u8" -> ScanU8(tok, {})
    [] k = "u16" -> ScanU16(tok, {})
    [] k = "str8" -> ScanU8Str(tok)
    [] k = "rtype" -> LET a == ScanAscii(tok) IN IF a.r # "ok" THEN ErrR ELSE RtypeOf(a.s)
    [] k = "salt" -> LET x == SaltOf(tok) IN IF x.r # "ok" THEN x ELSE [r |-> "ok", v |-> x.o]
    [] k = "hex" -> LET x == HexDecode(tok.syms) IN IF x.r # "ok" THEN x ELSE [r |-> "ok", v |-> x.o]
    [] k = "u32" -> Scan32(tok)
    [] k = "b64" -> LET x == B64Decode(tok.syms) IN IF x.r # "ok" THEN x ELSE [r |-> "ok", v |-> x.o]
FieldWire(k, v) ==
  CASE k = "caa_tag" -> <<Len(v)>> \o v
    [] k \in {"u8", "str8"} -> <<v>>
    [] k \in {"u16", "rtype"} -> EncU16(v)
    [] k = "salt" -> <<Len(v)>> \o v
    [] k \in {"hex", "u32", "b64"} -> v
\* a bare token as the tokenizer hands it on (no escapes in these alphabets)
PlainTok(t, q) == [k |-> "tok", q |-> q, sp |-> TRUE, syms |-> t, p0 |-> 0, nx |-> SP]
\* the law, for one field
FieldRoundTrip(k, v) == FieldRead(k, PlainTok(FieldWrite(k, v), FALSE)) = [r |-> "ok", v |-> v]

RECURSIVE SortedSeq(_)
SortedSeq(S) == IF S = {} THEN <<>> ELSE LET m == CHOOSE x \in S : \A y \in S : x <= y IN <<m>> \o SortedSeq(S \ {m})
FieldTypes == {257, 47, 52, 51}
\* the fields of a carrier record, in writing order: <<kind, value>>
FieldsOf(rd) ==
  IF rd.t = 257 THEN << <<"u8", rd.fl>>, <<"caa_tag", rd.tag>> >>
  ELSE IF rd.t = 47 THEN LET ts == SortedSeq(rd.types) IN [i \in 1..Len(ts) |-> <<"rtype", ts[i]>>]
  ELSE IF rd.t = 52 THEN << <<"str8", rd.u>>, <<"str8", rd.s>>, <<"str8", rd.m>>, <<"hex", rd.data>> >>
  ELSE IF rd.t = 51 THEN << <<"str8", rd.alg>>, <<"u8", rd.fl>>, <<"u16", rd.it>>, <<"salt", rd.salt>> >>
  ELSE IF rd.t = 6 THEN << <<"u32", rd.serial>>, <<"u32", rd.refresh>>, <<"u32", rd.retry>>, <<"u32", rd.expire>>, <<"u32", rd.minimum>> >>
  ELSE IF rd.t = 46 THEN << <<"rtype", rd.covered>>, <<"str8", rd.alg>>, <<"u8", rd.labels>>, <<"u32", rd.ottl>>, <<"u32", rd.exp>>,
                            <<"u32", rd.inc>>, <<"u16", rd.tag>>, <<"b64", rd.sig>> >>
  ELSE <<>>
\* every name inside the record data, in writing order
RdNamesOf(rd) ==
  IF rd.t \in NameTypes \cup {15, 47} THEN <<rd.name>>
  ELSE IF rd.t = 6 THEN <<rd.mname, rd.rname>>
  ELSE IF rd.t = 46 THEN <<rd.signer>>
  ELSE <<>>
AllAdmitted(rd, dv) == \A i \in 1..Len(FieldsOf(rd)) : Admitted(FieldsOf(rd)[i][1], FieldsOf(rd)[i][2], dv)
\* ... and the names: what Name / the builders / the wire parser admit is Names.tla's ValidAbs
PL == INSTANCE PresentLimits
NamesAdmitted(r) == PL!ValidAbs(r.owner) /\ \A i \in 1..Len(RdNamesOf(r.rd)) : PL!ValidAbs(RdNamesOf(r.rd)[i])
RecAdmitted(r, dv) == AllAdmitted(r.rd, dv) /\ NamesAdmitted(r)

WRdata(rd, kind, dv) ==
  IF rd.t = 16 THEN <<Open>> \o [i \in 1..Len(rd.strs) |-> Tok(WQuoted(rd.strs[i]))] \o <<Close>>
  ELSE IF rd.t = 13 THEN <<Open, Tok(WQuoted(rd.cpu)), Cmt(<<99, 112, 117>>), Tok(WQuoted(rd.os)), Cmt(<<111, 115>>), Close>>
  ELSE IF rd.t \in NameTypes THEN <<Tok(WName(rd.name, kind, dv))>>
  ELSE IF rd.t = 15 THEN <<Open, Tok(DecDigits(rd.pref)), Cmt(<<112, 114, 101, 102>>), Tok(WName(rd.name, kind, dv)), Close>>
  ELSE IF rd.t = 257 THEN <<Open, Tok(FieldWrite("u8", rd.fl)), Cmt(<<102, 108>>), Tok(FieldWrite("caa_tag", rd.tag)), Cmt(<<116, 97, 103>>),
                            Tok(WQuoted(rd.val)), Cmt(<<118, 97, 108>>), Close>>
  ELSE IF rd.t = 47 THEN LET ts == SortedSeq(rd.types) IN
         <<Open, Tok(WName(rd.name, kind, dv))>> \o [i \in 1..Len(ts) |-> Tok(FieldWrite("rtype", ts[i]))] \o <<Close>>
  ELSE IF rd.t = 52 THEN <<Open, Tok(FieldWrite("str8", rd.u)), Tok(FieldWrite("str8", rd.s)), Tok(FieldWrite("str8", rd.m)),
                           Tok(FieldWrite("hex", rd.data)), Close>>
  ELSE IF rd.t = 51 THEN <<Open, Tok(FieldWrite("str8", rd.alg)), Tok(FieldWrite("u8", rd.fl)), Cmt(<<102, 108>>),
                           Tok(FieldWrite("u16", rd.it)), Cmt(<<105, 116>>), Tok(FieldWrite("salt", rd.salt)), Close>>
  ELSE IF rd.t = 6 THEN <<Open, Tok(WName(rd.mname, kind, dv)), Cmt(<<109>>), Tok(WName(rd.rname, kind, dv)), Cmt(<<114>>),
                          Tok(FieldWrite("u32", rd.serial)), Cmt(<<115>>), Tok(FieldWrite("u32", rd.refresh)), Cmt(<<114, 102>>),
                          Tok(FieldWrite("u32", rd.retry)), Cmt(<<114, 116>>), Tok(FieldWrite("u32", rd.expire)), Cmt(<<101>>),
                          Tok(FieldWrite("u32", rd.minimum)), Cmt(<<109, 105>>), Close>>
  ELSE IF rd.t = 46 THEN <<Open, Tok(FieldWrite("rtype", rd.covered)), Tok(FieldWrite("str8", rd.alg)), Tok(FieldWrite("u8", rd.labels)), Cmt(<<108>>),
                           Tok(FieldWrite("u32", rd.ottl)), Cmt(<<111>>), Tok(FieldWrite("u32", rd.exp)), Cmt(<<101>>),
                           Tok(FieldWrite("u32", rd.inc)), Cmt(<<105>>), Tok(FieldWrite("u16", rd.tag)), Cmt(<<107>>),
                           Tok(WName(rd.signer, kind, dv)), Cmt(<<115>>), Tok(FieldWrite("b64", rd.sig)), Close>>
  ELSE <<Tok(JoinWith(GenericWords(rd.data), <<SP>>))>>     \* one token with spaces inside

Write(r, kind, dv) ==
  <<Tok(WName(r.owner, kind, dv)), Tok(DecDigits(r.ttl)), Tok(WClass(r.class)), Tok(WType(r.rd.t))>>
  \o WRdata(r.rd, kind, dv)

\* --- the three FormatWriters and fmt::Display ------------------------------
Kinds == {"simple", "tabbed", "multiline", "display"}

Nl == [k |-> "nl"]           \* FormatWriter::newline: "end the current record and start a new line"

RECURSIVE RenderFrom(_, _, _, _, _)
\* first: no token on this line yet; depth: open blocks
RenderFrom(items, i, kind, first, depth) ==
  IF i > Len(items) THEN <<>>
  ELSE LET it == items[i] IN
    IF it.k = "nl" THEN <<LF>> \o RenderFrom(items, i + 1, kind, TRUE, depth) ELSE
    IF it.k = "tok" THEN
       (IF first THEN <<>> ELSE IF kind = "tabbed" /\ depth = 0 THEN <<TAB>> ELSE <<SP>>) \o it.t
       \o RenderFrom(items, i + 1, kind, FALSE, depth)
    ELSE IF it.k = "open" THEN
       (IF kind = "multiline" THEN (IF first THEN <<>> ELSE <<SP>>) \o <<LPAR>> ELSE <<>>)
       \o RenderFrom(items, i + 1, kind, first /\ kind # "multiline", depth + 1)
    ELSE IF it.k = "close" THEN
       (IF kind = "multiline" THEN (IF first THEN <<>> ELSE <<SP>>) \o <<RPAR>> ELSE <<>>)
       \o RenderFrom(items, i + 1, kind, first /\ kind # "multiline", depth - 1)
    ELSE \* comment: only the multi-line writer, only inside a block; ends the line
       IF kind = "multiline" /\ depth > 0
       THEN <<TAB, SEMI, SP>> \o it.t \o <<LF, SP, SP>> \o RenderFrom(items, i + 1, kind, TRUE, depth)
       ELSE RenderFrom(items, i + 1, kind, first, depth)

RenderBody(items, kind) == RenderFrom(items, 1, kind, TRUE, 0)
\* none of the writers ends the line of a single record: the line feed is added
Render(items, kind) == RenderBody(items, kind) \o <<LF>>
WText(r, kind, dv) == Render(Write(r, kind, dv), kind)

\* --- the record as the reader reports it --------------------------------
WireName(n) == Concat([i \in 1..Len(n) |-> <<Len(n[i])>> \o n[i]]) \o <<0>>
CS(s) == <<Len(s)>> \o s
RdWire(rd) ==
  IF rd.t = 16 THEN Concat([i \in 1..Len(rd.strs) |-> CS(rd.strs[i])])
  ELSE IF rd.t = 13 THEN CS(rd.cpu) \o CS(rd.os)
  ELSE IF rd.t \in NameTypes THEN WireName(rd.name)
  ELSE IF rd.t = 15 THEN EncU16(rd.pref) \o WireName(rd.name)
  ELSE IF rd.t = 257 THEN FieldWire("u8", rd.fl) \o FieldWire("caa_tag", rd.tag) \o rd.val
  ELSE IF rd.t = 47 THEN WireName(rd.name) \o WindowsFrom(rd.types, 0)
  ELSE IF rd.t = 52 THEN <<rd.u, rd.s, rd.m>> \o rd.data
  ELSE IF rd.t = 51 THEN <<rd.alg, rd.fl>> \o EncU16(rd.it) \o FieldWire("salt", rd.salt)
  ELSE IF rd.t = 6 THEN WireName(rd.mname) \o WireName(rd.rname) \o rd.serial \o rd.refresh \o rd.retry \o rd.expire \o rd.minimum
  ELSE IF rd.t = 46 THEN EncU16(rd.covered) \o <<rd.alg, rd.labels>> \o rd.ottl \o rd.exp \o rd.inc \o EncU16(rd.tag)
                         \o WireName(rd.signer) \o rd.sig
  ELSE rd.data
AsEntry(r) == [owner |-> WireName(r.owner), class |-> r.class, ttl |-> r.ttl,
               rtype |-> r.rd.t, rdata |-> RdWire(r.rd)]
Expected(r) == [entries |-> <<AsEntry(r)>>, err |-> FALSE]

\* reading the written text with the reader of ZoneFile.tla: no default class
\* (the class is always written), origin as given (names are written absolute)
ReadBack(text, origin, rdv) == ReadAll(text, origin, -1, rdv)


\* --- CAA, which the reader of ZoneFile.tla abstains on: Caa::scan is
\* CaaFlags (u8::scan), CaaTag::scan, Scanner::scan_octets (one token, any
\* length), and the entry must end there
ScanOctetsTok(tok) ==
  IF \E i \in 1..Len(tok.syms) : ~OctetOk(tok.syms[i]) THEN ErrR
  ELSE [r |-> "ok", o |-> [i \in 1..Len(tok.syms) |-> SymOct(tok.syms[i])]]
RdCaa(toks, i, mode) ==
  IF i + 2 > Len(toks) THEN ErrR
  ELSE LET f == FieldRead("u8", toks[i])  t == FieldRead("caa_tag", toks[i + 1])  v == ScanOctetsTok(toks[i + 2]) IN
    IF f.r # "ok" THEN ErrR ELSE IF t.r # "ok" THEN ErrR ELSE IF v.r # "ok" THEN ErrR
    ELSE IF mode # "lf" \/ i + 2 < Len(toks) THEN ErrR
    ELSE RdOk(FieldWire("u8", f.v) \o FieldWire("caa_tag", t.v) \o v.o)
\* the fixed fields of a record in front, by FieldRead: [r |-> "ok", o |-> wire, next] or an error
RECURSIVE XFieldsFrom(_, _, _, _, _)
XFieldsFrom(kinds, k, toks, i, acc) ==
  IF k > Len(kinds) THEN [r |-> "ok", o |-> acc, next |-> i]
  ELSE IF i > Len(toks) THEN ErrR
  ELSE LET f == FieldRead(kinds[k], toks[i])
       IN IF f.r # "ok" THEN ErrR ELSE XFieldsFrom(kinds, k + 1, toks, i + 1, acc \o FieldWire(kinds[k], f.v))
\* SOA (Soa::scan): two names, Serial::scan, four times Ttl::scan, over the whole
\* 32-bit range (the reader of ZoneFile.tla abstains from 2^31 on)
RdSoaX(toks, i, mode, origin) ==
  IF i + 1 > Len(toks) THEN ErrR
  ELSE LET m == ScanName(toks[i], origin, {})  rn == ScanName(toks[i + 1], origin, {}) IN
    IF m.r # "ok" THEN ErrR ELSE IF rn.r # "ok" THEN ErrR
    ELSE LET f == XFieldsFrom(<<"u32", "u32", "u32", "u32", "u32">>, 1, toks, i + 2, <<>>) IN
      IF f.r # "ok" THEN ErrR
      ELSE IF mode # "lf" \/ f.next <= Len(toks) THEN ErrR
      ELSE RdOk(m.n \o rn.n \o f.o)
\* RRSIG (Rrsig::scan): type covered, algorithm, labels, original TTL (Ttl::scan),
\* expiration / inception (at most ten digits: a number), key tag, signer, Base 64
RdRrsigX(toks, i, mode, origin) ==
  LET f == XFieldsFrom(<<"rtype", "str8", "u8", "u32", "u32", "u32", "u16">>, 1, toks, i, <<>>) IN
  IF f.r # "ok" THEN ErrR
  ELSE IF f.next + 1 > Len(toks) THEN ErrR
  ELSE LET sg == ScanName(toks[f.next], origin, {})
           d == B64Decode(EntrySyms(toks, f.next + 1)) IN
    IF sg.r # "ok" THEN ErrR ELSE IF d.r # "ok" THEN ErrR
    ELSE IF mode # "lf" THEN ErrR
    ELSE IF Len(toks[f.next - 3].syms) > 10 \/ Len(toks[f.next - 2].syms) > 10 THEN UnmodR   \* a date, not a number
    ELSE RdOk(f.o \o sg.n \o d.o)
XTypes == {257, 6, 46}
RdataX(rtype, toks, i, mode, origin, dv) ==
  IF rtype \in XTypes /\ ~(i <= Len(toks) /\ IsMarker(toks[i]))
  THEN (IF rtype = 257 THEN RdCaa(toks, i, mode)
        ELSE IF rtype = 6 THEN RdSoaX(toks, i, mode, origin) ELSE RdRrsigX(toks, i, mode, origin))
  ELSE Rdata(rtype, toks, i, mode, origin, dv)
\* one line holding one record, through the tokenizer of ZoneFile.tla, scan_name,
\* scan_ctr and RdataX; Unmodelled unless the line is of that shape and of an XType
RECURSIVE TokAllFrom(_, _, _, _)
TokAllFrom(tk, text, i, acc) ==
  IF i > Len(text) THEN [tk |-> tk, items |-> acc]
  ELSE LET s == TkStep(tk, text[i]) IN TokAllFrom(s.tk, text, i + 1, acc \o s.items)
ErrOutcome == [entries |-> <<>>, err |-> TRUE]
ReadLineX(text, origin) ==
  LET t == TokAllFrom(TkInit, text, 1, <<>>)
      n == Len(t.items) IN
  IF t.tk.err \/ TkEofIsError(t.tk) THEN Unmodelled
  ELSE IF n < 3 \/ t.items[n].k # "lf" \/ (\E j \in 1..(n - 1) : t.items[j].k # "tok") THEN Unmodelled
  ELSE IF text[1] \in {SP, TAB, DOLLAR} \/ t.items[1].syms = <<AT>> THEN Unmodelled
  ELSE LET toks == SubSeq(t.items, 1, n - 1)
           c == Ctr(toks, 2) IN
    IF c.r # "ok" THEN Unmodelled
    ELSE IF c.rtype \notin XTypes \/ c.class = -1 \/ c.ttl = -1 THEN Unmodelled
    ELSE LET o == ScanName(toks[1], origin, {})
             rd == RdataX(c.rtype, toks, c.next, "lf", origin, {}) IN
      IF o.r = "unmod" THEN Unmodelled
      ELSE IF rd.r = "unmod" THEN Unmodelled
      ELSE IF o.r # "ok" \/ rd.r # "ok" THEN ErrOutcome
      ELSE [entries |-> <<[owner |-> o.n, class |-> c.class, ttl |-> c.ttl, rtype |-> c.rtype, rdata |-> rd.rd]>>, err |-> FALSE]
\* the reader of ZoneFile.tla, and where it abstains the line reader above
ReadBackX(text, origin, rdv) ==
  LET o == ReadBack(text, origin, rdv) IN IF o = Unmodelled THEN ReadLineX(text, origin) ELSE o

\* the property, for one record, one kind, one origin
RoundTrip(r, kind, origin, dv) == ReadBackX(WText(r, kind, dv), origin, {}) = Expected(r)
\* ... and for the fields of a carrier record on their own
FieldsRoundTrip(rd, dv) ==
  \A i \in 1..Len(FieldsOf(rd)) :
     Admitted(FieldsOf(rd)[i][1], FieldsOf(rd)[i][2], dv) => FieldRoundTrip(FieldsOf(rd)[i][1], FieldsOf(rd)[i][2])
\* ======================================================================
\* Zones: several records in one file, read by a *configured* reader.
\* The reader is a state machine across entries (remembered class, last
\* TTL, $TTL, last owner, origin: ZoneFile.tla's entry machine); the writers
\* state every field of every record, so whatever the reader remembers must
\* not show in what it returns.
\*
\* Two ways to write a zone:
\*   "cat"  every record through a writer of its own (display_zonefile(kind)
\*          or fmt::Display, kinds may differ), a line feed after each;
\*   "fmt"  all records through ONE FormatWriter (a ZonefileFmt impl for the
\*          zone that calls FormatWriter::newline after every record).
\* Reader configuration: origin (set_origin), dclass (set_default_class, -1
\* none), allow (Zonefile::allow_invalid: RFC 1035 5.2 checks off).
ZoneKinds == {"simple", "tabbed", "multiline"}          \* the FormatWriters ("display" has no newline)
WZoneCat(rs, ks, dv) == Concat([i \in 1..Len(rs) |-> WText(rs[i], ks[i], dv)])
WZoneFmt(rs, kind, dv) == RenderBody(Concat([i \in 1..Len(rs) |-> Write(rs[i], kind, dv) \o <<Nl>>]), kind)
WZone(rs, ks, mode, dv) == IF mode = "fmt" THEN WZoneFmt(rs, ks[1], dv) ELSE WZoneCat(rs, ks, dv)

ReaderCfg(origin, dclass, allow) == [origin |-> origin, dclass |-> dclass, allow |-> allow]
DefaultCfg(origin) == ReaderCfg(origin, -1, FALSE)
ReadCfg(text, cfg, rdv) ==
  LET m0 == RdInit(cfg.origin, cfg.dclass)
      m == [m0 EXCEPT !.en.requireValid = ~cfg.allow]
  IN Outcome(FeedAll(m, text, 1, rdv), rdv)

\* What the property demands of a zone, stated without the reader machine:
\* every record comes back, in order.  The one exception is the documented
\* RFC 1035 5.2 check of the strict reader ("all RRs in the file should have
\* the same class"): the class it remembers is the default class if one was
\* set, else the class of the first record; the first record of another
\* class ends the reading with an error, the records before it are returned.
RECURSIVE FirstOtherClass(_, _, _)
FirstOtherClass(rs, c, i) == IF i > Len(rs) THEN 0 ELSE IF rs[i].class # c THEN i ELSE FirstOtherClass(rs, c, i + 1)
\* on records as the reader reports them (entries)
ExpectedEntries(es, cfg) ==
  LET k == IF cfg.allow \/ es = <<>> THEN 0
           ELSE FirstOtherClass(es, IF cfg.dclass # -1 THEN cfg.dclass ELSE es[1].class, 1)
      n == IF k = 0 THEN Len(es) ELSE k - 1
  IN [entries |-> SubSeq(es, 1, n), err |-> k # 0]
ExpectedZone(rs, cfg) == ExpectedEntries([i \in 1..Len(rs) |-> AsEntry(rs[i])], cfg)

ZoneRoundTrip(rs, ks, mode, cfg, dv) == ReadCfg(WZone(rs, ks, mode, dv), cfg, {}) = ExpectedZone(rs, cfg)

\* ======================================================================
\* The token route: record data handed to the scanners as a list of tokens
\* (base::scan::IterScanner over strings, ZoneRecordData::scan): the second
\* Scanner of the library.  A token's text is read by Symbol::from_chars
\* (same escapes as the zone-file tokenizer, no delimiters, no quotes).
RECURSIVE SymsOfFrom(_, _, _)
SymsOfFrom(t, i, acc) ==
  IF i > Len(t) THEN [ok |-> TRUE, syms |-> acc]
  ELSE IF t[i] # BSL THEN SymsOfFrom(t, i + 1, Append(acc, t[i]))
  ELSE IF i + 1 > Len(t) THEN [ok |-> FALSE, syms |-> acc]
  ELSE IF IsDigit(t[i + 1]) THEN
       IF i + 3 > Len(t) \/ ~IsDigit(t[i + 2]) \/ ~IsDigit(t[i + 3]) THEN [ok |-> FALSE, syms |-> acc]
       ELSE LET v == (t[i + 1] - 48) * 100 + (t[i + 2] - 48) * 10 + (t[i + 3] - 48)
            IN IF v > 255 THEN [ok |-> FALSE, syms |-> acc] ELSE SymsOfFrom(t, i + 4, Append(acc, 512 + v))
  ELSE IF t[i + 1] < 32 \/ t[i + 1] > 126 THEN [ok |-> FALSE, syms |-> acc]
  ELSE SymsOfFrom(t, i + 2, Append(acc, 256 + t[i + 1]))
SymsOf(t) == SymsOfFrom(t, 1, <<>>)

\* the record-data tokens the writer produces, quotes taken off:
\* [t |-> text, q |-> was quoted]
RdTokens(rd, kind, dv) ==
  LET u(t) == [t |-> t, q |-> FALSE]  q(t) == [t |-> t, q |-> TRUE] IN
  IF rd.t = 16 THEN [i \in 1..Len(rd.strs) |-> q(QInner(rd.strs[i]))]
  ELSE IF rd.t = 13 THEN <<q(QInner(rd.cpu)), q(QInner(rd.os))>>
  ELSE IF rd.t \in NameTypes THEN <<u(WName(rd.name, kind, dv))>>
  ELSE IF rd.t = 15 THEN <<u(DecDigits(rd.pref)), u(WName(rd.name, kind, dv))>>
  ELSE IF rd.t = 257 THEN <<u(FieldWrite("u8", rd.fl)), u(FieldWrite("caa_tag", rd.tag)), q(QInner(rd.val))>>
  ELSE IF rd.t = 47 THEN LET ts == SortedSeq(rd.types) IN
         <<u(WName(rd.name, kind, dv))>> \o [i \in 1..Len(ts) |-> u(FieldWrite("rtype", ts[i]))]
  ELSE IF rd.t = 52 THEN <<u(FieldWrite("str8", rd.u)), u(FieldWrite("str8", rd.s)), u(FieldWrite("str8", rd.m)), u(FieldWrite("hex", rd.data))>>
  ELSE IF rd.t = 51 THEN <<u(FieldWrite("str8", rd.alg)), u(FieldWrite("u8", rd.fl)), u(FieldWrite("u16", rd.it)), u(FieldWrite("salt", rd.salt))>>
  ELSE IF rd.t = 6 THEN <<u(WName(rd.mname, kind, dv)), u(WName(rd.rname, kind, dv)), u(FieldWrite("u32", rd.serial)), u(FieldWrite("u32", rd.refresh)),
                          u(FieldWrite("u32", rd.retry)), u(FieldWrite("u32", rd.expire)), u(FieldWrite("u32", rd.minimum))>>
  ELSE IF rd.t = 46 THEN <<u(FieldWrite("rtype", rd.covered)), u(FieldWrite("str8", rd.alg)), u(FieldWrite("u8", rd.labels)), u(FieldWrite("u32", rd.ottl)),
                           u(FieldWrite("u32", rd.exp)), u(FieldWrite("u32", rd.inc)), u(FieldWrite("u16", rd.tag)), u(WName(rd.signer, kind, dv)),
                           u(FieldWrite("b64", rd.sig))>>
  ELSE LET w == GenericWords(rd.data) IN [i \in 1..Len(w) |-> u(w[i])]

\* reading them: the record-data scanners of ZoneFile.tla on the symbols
\* (no origin: the token route knows absolute names only)
ReadTokens(rtype, toks, dv) ==
  LET sy == [i \in 1..Len(toks) |-> SymsOf(toks[i].t)]
      items == [i \in 1..Len(toks) |-> [k |-> "tok", q |-> toks[i].q, sp |-> TRUE, syms |-> sy[i].syms, p0 |-> 0, nx |-> SP]]
  IN IF \E i \in 1..Len(toks) : ~sy[i].ok THEN [err |-> TRUE]
     ELSE IF "D_iterscanner_marker" \in dv /\ Len(items) >= 1 /\ IsMarker(items[1]) THEN [err |-> TRUE]
     ELSE LET r == RdataX(rtype, items, 1, "lf", <<>>, {})
          IN IF r.r = "ok" THEN [rd |-> r.rd] ELSE [err |-> TRUE]
TokenRoundTrip(r, kind, dv) ==
  ReadTokens(r.rd.t, RdTokens(r.rd, kind, dv \cap WriterDevs), dv \cap TokenDevs) = [rd |-> RdWire(r.rd)]

\* ======================================================================
\* Field texts on their own: Display for Label / OwnedLabel read by
\* OwnedLabel::from_str, CharStr::display_unquoted read by CharStr::from_str
\* (both through Symbol::from_chars; nothing is a delimiter there, so the
\* label writer's escape set is sufficient in this context).
OctetsOfSyms(sy) ==
  IF ~sy.ok \/ \E i \in 1..Len(sy.syms) : ~OctetOk(sy.syms[i]) THEN [err |-> TRUE]
  ELSE [o |-> [i \in 1..Len(sy.syms) |-> SymOct(sy.syms[i])]]
\* OwnedLabel::from_chars: an unescaped dot is not a label character; at most 63 octets
LabelFromStr(t) ==
  LET sy == SymsOf(t) IN
  IF sy.ok /\ \E i \in 1..Len(sy.syms) : sy.syms[i] = DOT THEN [err |-> TRUE]
  ELSE LET o == OctetsOfSyms(sy) IN IF "o" \in DOMAIN o /\ Len(o.o) > 63 THEN [err |-> TRUE] ELSE o
CharStrFromStr(t) ==
  LET o == OctetsOfSyms(SymsOf(t)) IN IF "o" \in DOMAIN o /\ Len(o.o) > 255 THEN [err |-> TRUE] ELSE o
LabelTextRoundTrip(l, dv) == LabelFromStr(WLabel(l, dv)) = [o |-> l]
CharStrTextRoundTrip(s) == CharStrFromStr(WUnquoted(s)) = [o |-> s]
=============================================================================
