---------------------------- MODULE MC_WirePlain ----------------------------
(* C19, family P: names at the length limit (253 .. 257 octets on the wire,  *)
(* several label partitions) and character strings at theirs (255 / 256) on  *)
(* the routes of the new codec that do not decompress, next to the routes    *)
(* that do: as a byte string of their own (a name, a question, a record      *)
(* split off a byte string or filling it), as question name and record       *)
(* owner, and inside the RDATA of every type that carries a name, in whole   *)
(* messages; completed by a pointer into a long question name inside RDATA;  *)
(* TXT / HINFO strings of 255 octets, cut short and running into what        *)
(* follows.  Wire.tla is the referee: CodecCase gives the expected view of   *)
(* every route for both codecs.  TLC also checks the referee's own laws for  *)
(* the plain routes on these inputs.                                         *)
EXTENDS Wire, TLC, Json

CONSTANTS Big            \* TRUE: every shape in every slot (thorough tier)

VARIABLES ph,            \* 0 start, 1 context chosen, 2 case complete
          ctx,           \* the context chosen in phase 1
          c              \* the case: [m, starts, probes]
vars == <<ph, ctx, c>>

---------------------------------------------------------------------------
F(n, v) == [i \in 1..n |-> v]
Lab(n, x) == <<n>> \o F(n, x)
RECURSIVE Labs(_, _)
Labs(lens, x) == IF lens = <<>> THEN <<>> ELSE Lab(Head(lens), x) \o Labs(Tail(lens), x)
Hdr(h) == EncU16(4660) \o EncU16(h[1]) \o EncU16(h[2]) \o EncU16(h[3]) \o EncU16(h[4]) \o EncU16(h[5])
Ptr(x) == <<192 + (x \div 256), x % 256>>
Zero20 == F(20, 0)

\* label-length lists; wire length = sum of (l + 1), plus the root
ShapesLong == { <<63, 63, 63, 59>>, <<63, 63, 63, 60>>, <<63, 63, 63, 61>>, <<63, 63, 63, 62>>,
                <<63, 63, 63, 63>>, <<61, 63, 63, 63>>, <<62, 63, 63, 63>>,
                <<63, 63, 63, 31, 29>>, <<63, 63, 63, 31, 30>> }
ShapesMany == { F(126, 1), F(125, 1) \o <<2>>, F(127, 1), F(126, 1) \o <<2>>, F(128, 1),
                F(84, 2) \o <<1>>, F(85, 2) }
Shapes == ShapesLong \cup ShapesMany \cup { <<3>> }
\* the slots that only take the shapes around the limit in the quick tier
ShapesCore == { <<63, 63, 63, 60>>, <<63, 63, 63, 61>>, <<63, 63, 63, 62>>, <<62, 63, 63, 63>>,
                F(127, 1), F(126, 1) \o <<2>>, F(85, 2), <<3>> }
NameOf(sh) == Labs(sh, 98) \o <<0>>

Q0 == <<1, 97, 0, 0, 1, 0, 1>>                    \* a. A IN at 12..18
RFix(t, rdlen) == EncU16(t) \o <<0, 1, 0, 0, 0, 60>> \o EncU16(rdlen)
TailA == <<0>> \o RFix(T_A, 4) \o <<1, 2, 3, 4>>   \* an additional record that must still be found
RrsigFix == <<0, 1, 8, 2, 0, 0, 0, 60>> \o F(8, 0) \o <<0, 7>>

\* RDATA slots: <<type, octets before the name, octets after it>>
Slots == { <<T_NS, <<>>, <<>>>>, <<T_CNAME, <<>>, <<>>>>, <<T_PTR, <<>>, <<>>>>,
           <<T_MX, <<0, 10>>, <<>>>>,
           <<T_SOA, <<>>, <<0>> \o Zero20>>, <<T_SOA, <<0>>, Zero20>>,
           <<T_RP, <<>>, <<0>>>>, <<T_RP, <<0>>, <<>>>>,
           <<T_SRV, <<0, 1, 0, 2, 0, 80>>, <<>>>>,
           <<T_DNAME, <<>>, <<>>>>,
           <<T_NSEC, <<>>, <<0, 1, 64>>>>,
           <<T_RRSIG, RrsigFix, <<9, 9, 9>>>> }
\* the slots whose name the new codec never decompresses take every shape
PlainSlots == { s \in Slots : s[1] \in {T_SRV, T_DNAME, T_NSEC, T_RRSIG} }

\* one answer record owned by c. with the given RDATA, then TailA
RdMsg(t, rd) ==
  Hdr(<<32768, 1, 1, 0, 1>>) \o Q0 \o <<1, 99, 0>> \o RFix(t, Len(rd)) \o rd \o TailA
RdCase(slot, nm) ==
  LET rd == slot[2] \o nm \o slot[3]
      msg == RdMsg(slot[1], rd)
      ns == 19 + 3 + 10 + Len(slot[2])           \* where the embedded name starts
      re == 19 + 3 + 10 + Len(rd)                \* where the record ends
  IN [m |-> msg, starts |-> <<19, ns>>,
      probes |-> <<<<19, Len(msg)>>, <<19, re>>, <<ns, ns + Len(nm)>>, <<ns, re>>, <<19, re - 1>>>>]

QnCase(nm) ==
  LET msg == Hdr(<<0, 1, 0, 0, 0>>) \o nm \o <<0, 1, 0, 1>>
  IN [m |-> msg, starts |-> <<12>>,
      probes |-> <<<<12, 12 + Len(nm)>>, <<12, Len(msg)>>, <<12, 12 + Len(nm) - 1>>>>]
OwnCase(nm) ==
  LET msg == Hdr(<<32768, 1, 1, 0, 1>>) \o Q0 \o nm \o RFix(T_A, 4) \o <<1, 2, 3, 4>> \o TailA
      re == 19 + Len(nm) + 14
  IN [m |-> msg, starts |-> <<19>>,
      probes |-> <<<<19, Len(msg)>>, <<19, re>>, <<19, 19 + Len(nm)>>, <<19, re - 1>>>>]

\* a long question name, and RDATA names completed by a pointer into it
QShapes == { <<63, 63, 63, 61>>, <<63, 63, 63, 60>> }
PtrNames == { <<<<63>>, 76>>, <<<<1, 61>>, 76>>, <<<<1, 62>>, 76>>, <<<<>>, 12>>, <<<<62>>, 76>>,
              <<<<63, 63>>, 140>> }
PtrSlots == { s \in Slots : s[1] \in {T_NS, T_MX, T_RP, T_SRV, T_DNAME} } \cup { <<T_SOA, <<>>, <<0>> \o Zero20>> }
PtrCase(qs, slot, pn) ==
  LET qn == Labs(qs, 97) \o <<0>>
      nm == Labs(pn[1], 98) \o Ptr(pn[2])
      rd == slot[2] \o nm \o slot[3]
      rs == 12 + Len(qn) + 4
      msg == Hdr(<<32768, 1, 1, 0, 1>>) \o qn \o <<0, 1, 0, 1>> \o <<192, 12>> \o RFix(slot[1], Len(rd)) \o rd \o TailA
      ns == rs + 2 + 10 + Len(slot[2])
      re == rs + 2 + 10 + Len(rd)
  IN [m |-> msg, starts |-> <<rs, ns>>,
      probes |-> <<<<rs, re>>, <<ns, ns + Len(nm)>>, <<12, Len(msg)>>>>]

\* character strings at their limit
Str(n) == <<n>> \o F(n, 120)
StrRDs == { Str(255), Str(255) \o Str(255), Str(255) \o <<0>>, Str(254), <<255>> \o F(254, 120),
            <<255>> \o F(254, 120) \o <<0>>, Str(255) \o <<255>> \o F(254, 120), <<0>>, <<0, 0>>,
            Str(255) \o Str(255) \o Str(255), Str(1) \o Str(255), <<>> }
StrCase(t, rd) ==
  LET msg == RdMsg(t, rd)
      re == 19 + 3 + 10 + Len(rd)
  IN [m |-> msg, starts |-> <<19>>, probes |-> <<<<19, Len(msg)>>, <<19, re>>>>]

---------------------------------------------------------------------------
Init == ph = 0 /\ ctx = <<>> /\ c = [m |-> <<>>, starts |-> <<>>, probes |-> <<>>]

Phase1 ==
  /\ ph = 0 /\ ph' = 1 /\ UNCHANGED c
  /\ \/ ctx' = <<"qn">>
     \/ ctx' = <<"own">>
     \/ \E s \in Slots : ctx' = <<"rd", s>>
     \/ \E qs \in QShapes, s \in PtrSlots : ctx' = <<"ptr", qs, s>>
     \/ \E t \in {T_TXT, T_HINFO} : ctx' = <<"str", t>>

SlotShapes(s) == IF Big \/ s \in PlainSlots THEN Shapes ELSE ShapesCore

Phase2 ==
  /\ ph = 1 /\ ph' = 2 /\ UNCHANGED ctx
  /\ \/ ctx[1] = "qn" /\ \E sh \in Shapes : c' = QnCase(NameOf(sh))
     \/ ctx[1] = "own" /\ \E sh \in Shapes : c' = OwnCase(NameOf(sh))
     \/ ctx[1] = "rd" /\ \E sh \in SlotShapes(ctx[2]) : c' = RdCase(ctx[2], NameOf(sh))
     \/ ctx[1] = "ptr" /\ \E pn \in PtrNames : c' = PtrCase(ctx[2], ctx[3], pn)
     \/ ctx[1] = "str" /\ \E rd \in StrRDs : c' = StrCase(ctx[2], rd)

Next == Phase1 \/ Phase2
Spec == Init /\ [][Next]_vars

Done == ph = 2

---------------------------------------------------------------------------
(* Laws of the referee on these inputs *)

Bytes(p) == Slice(c.m, p[1], p[2])
ProbeSet == {c.probes[i] : i \in 1..Len(c.probes)}

\* a plain name is exactly a name the message route reads without meeting a
\* pointer, and it is a valid name of at most 255 octets
PlainIsUncompressed == Done => \A p \in ProbeSet :
  LET b == Bytes(p)
      a == PlainName(b, 0, Len(b))
      k == ParseName(b, 0, Len(b))
  IN /\ a.ok <=> (k.ok /\ ~k.comp)
     /\ a.ok => (a.name = k.name /\ a.next = k.next /\ a.wlen = WireLenAbs(a.name)
                 /\ a.wlen <= 255 /\ ValidAbs(a.name))
\* what is read as a plain name can be skipped to the same place
PlainImpliesSkip == Done => \A p \in ProbeSet :
  LET b == Bytes(p)
      a == PlainName(b, 0, Len(b))
      k == SkipName(b, 0, Len(b))
  IN a.ok => (k.ok /\ k.next = a.next)
\* where no pointer and no open verdict is involved the plain route and the
\* message route give the same record
PlainRecordAgrees == Done => \A p \in ProbeSet :
  LET b == Bytes(p)
      a == CvRecordR("plain", b, 0)
      k == CvRecordR("old", b, 0)
  IN (a.ok => k = a) /\ (a.und => k.und)
\* the new codec's pointer rule only ever rejects more (as in MC_Wire)
NewRuleStricterP == Done => \A i \in 1..Len(c.starts) :
  LET s == c.starts[i] IN
  /\ CvName(TRUE, c.m, s).ok => CvName(FALSE, c.m, s) = CvName(TRUE, c.m, s)
  /\ CvRecord(TRUE, c.m, s).ok => CvRecord(FALSE, c.m, s) = CvRecord(TRUE, c.m, s)

---------------------------------------------------------------------------
EmitCodec == Done => PrintT("CASE " \o ToJson(CodecCase(c.m, c.starts, c.probes)))
=============================================================================
