CONSTANTS
  Sites <- SiteTable
  BITS = 6
SPECIFICATION GenSpec
INVARIANT ILifted
INVARIANT EmitFresh
CHECK_DEADLOCK FALSE
