CONSTANTS
  Dev = {}
  Scenario = "small"
  MaxOps = 4
  CompSet = {"hash"}
  TgtSet = {"array"}
SPECIFICATION Spec
INVARIANT NoPointerAfterFailure
CHECK_DEADLOCK FALSE
