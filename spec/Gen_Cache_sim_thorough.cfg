CONSTANTS
  Dev = {}
  Mut = {}
  Names = {"a.example", "b.example"}
  Types = {"A", "NSEC"}
  Cases = {0, 1}
  AdVals = {FALSE, TRUE}
  CdVals = {FALSE, TRUE}
  DoVals = {FALSE, TRUE}
  RdVals = {FALSE, TRUE}
  WithBypass = TRUE
  Classes <- AllClasses
  TtlVecs <- TV_All
  AdBits = {FALSE, TRUE}
  Ticks <- TK_Sim
  Configs <- CfgsAll
  MaxSteps = 14
SPECIFICATION SimSpec
INVARIANT Emit
INVARIANT GProp
CHECK_DEADLOCK FALSE
