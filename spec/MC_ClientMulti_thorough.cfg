CONSTANTS
  Dev = {}
  TickMs = 500
  Confs = {}
  MaxDgrams = 0
  Faults = {}
  MReqs = {1}
  MaxConn = 4
  FineRts = {1, 500, 1000, 2500, 4500, 6100}
SPECIFICATION FSpec
INVARIANT MAtMostOnce
INVARIANT MOnTime
INVARIANT MOwn
INVARIANT MNoDup
INVARIANT MConnsSound
INVARIANT MBackoffSound
CHECK_DEADLOCK FALSE
