CONSTANTS
  Dev = {"D_ent_node_as_signer"}
  Mut = {}
  AdvOn = {"DS", "DNSKEY"}
  AnchorForms = {"dnskey"}
  Cfgs = {"default"}
  MaxRuns = 2
  EntQKinds = {"positive"}
  Budget = 1
  Shapes = {"entapex_s"}
  Denials = {"nsec"}
  QKinds = {"positive"}
  AdvActs = {"TimePasses", "ShortSig"}
SPECIFICATION Spec
VIEW View
INVARIANT HonestSecure
CHECK_DEADLOCK TRUE
