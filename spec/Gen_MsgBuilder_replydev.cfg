CONSTANTS
  Dev = {"D_opt_rcode_sticks"}
  Scenario = "reply"
  MaxOps = 4
  CompSet = {"none", "hash"}
  TgtSet = {"array", "sarray"}
SPECIFICATION Spec
INVARIANT Emit
CHECK_DEADLOCK FALSE
