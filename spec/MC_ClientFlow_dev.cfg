CONSTANTS
  Dev = {}
  MaxReq = 1
  TickMs = 10000
  StConfs <- St_3_2
  RqCap = 8
  ChanCap = 8
  MaxFrames = 0
  EndKinds = {}
  Frames = {}
  DCap = 8
  XLen = 12
  FlowQs = {501}
  Bursts = {1}
  Wants = {1}
  FlowMaxOps = 0
  FlowDev = {"D_flow_drop_when_full"}
SPECIFICATION FSpec
INVARIANT FlowPrefix
INVARIANT FlowComplete
CHECK_DEADLOCK FALSE
